------------------------------- MODULE Delta -------------------------------
(* C18 property layer: the delta tracker is two maps (desired, dataplane) and its four views are
   those maps and their exact difference.  Every public call of felix/deltatracker is one action.
   Iteration with callbacks is modelled at the grain of one action per callback return, so that
   mutation during iteration (nested calls between two callbacks) is ordinary interleaving.   *)
EXTENDS Naturals, FiniteSets, Sequences, TLC

CONSTANTS Keys, Vals
None == 0                         \* "absent"; real values are positive integers
ASSUME None \notin Vals

VARIABLES desired, dataplane      \* [Keys -> Vals \cup {None}]
vars == <<desired, dataplane>>

Maps == [Keys -> Vals \cup {None}]
Empty == [k \in Keys |-> None]

TypeOK == desired \in Maps /\ dataplane \in Maps
Init == desired = Empty /\ dataplane = Empty

\* ---- the derived views (this is the property) -------------------------------------------------
PendingUpd == { k \in Keys : desired[k] # None /\ desired[k] # dataplane[k] }
PendingDel == { k \in Keys : dataplane[k] # None /\ desired[k] = None }
PendingUpdMap == [k \in Keys |-> IF k \in PendingUpd THEN desired[k] ELSE None]
Count(m) == Cardinality({ k \in Keys : m[k] # None })
InSync == PendingUpd = {} /\ PendingDel = {}

\* ---- actions ----------------------------------------------------------------------------------
DesSet(k, v) == desired' = [desired EXCEPT ![k] = v] /\ UNCHANGED dataplane
DesDel(k)    == desired' = [desired EXCEPT ![k] = None] /\ UNCHANGED dataplane
DesDelAll    == desired' = Empty /\ UNCHANGED dataplane
DpSet(k, v)  == dataplane' = [dataplane EXCEPT ![k] = v] /\ UNCHANGED desired
DpDel(k)     == dataplane' = [dataplane EXCEPT ![k] = None] /\ UNCHANGED desired
DpDelAll     == dataplane' = Empty /\ UNCHANGED desired
\* ReplaceAllMap / ReplaceAllIter without error: dataplane becomes exactly m
DpReplace(m) == dataplane' = m /\ UNCHANGED desired
\* ReplaceAllIter whose iterator fails after delivering the keys in `seen`: those keys take the new
\* value, all others keep what the tracker believed before ("partially updated")
DpReplacePartial(m, seen) ==
    /\ dataplane' = [k \in Keys |-> IF k \in seen THEN m[k] ELSE dataplane[k]]
    /\ UNCHANGED desired
\* one callback of PendingUpdates().Iter / IterBatched: the key is pending *now*, with the desired value
CbUpd(k, v, apply) ==
    /\ k \in PendingUpd /\ desired[k] = v
    /\ dataplane' = IF apply THEN [dataplane EXCEPT ![k] = v] ELSE dataplane
    /\ UNCHANGED desired
CbDel(k, apply) ==
    /\ k \in PendingDel
    /\ dataplane' = IF apply THEN [dataplane EXCEPT ![k] = None] ELSE dataplane
    /\ UNCHANGED desired

Next ==
    \/ \E k \in Keys, v \in Vals : DesSet(k, v) \/ DpSet(k, v)
    \/ \E k \in Keys : DesDel(k) \/ DpDel(k)
    \/ DesDelAll \/ DpDelAll
    \/ \E m \in Maps : DpReplace(m)
    \/ \E m \in Maps, s \in SUBSET Keys : DpReplacePartial(m, s)
    \/ \E k \in Keys, a \in BOOLEAN : CbUpd(k, desired[k], a) \/ CbDel(k, a)

Spec == Init /\ [][Next]_vars
=============================================================================
