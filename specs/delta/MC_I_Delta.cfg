CONSTANTS
  Keys = {"a", "b", "c"}
  Vals = {1, 2}
INIT Init
NEXT Next
INVARIANTS ViewsExact Disjoint
CHECK_DEADLOCK FALSE
