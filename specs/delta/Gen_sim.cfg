CONSTANTS
  Keys = {"a", "b", "c"}
  Vals = {1, 2, 3}
  SimLen = 24
INIT GInit
NEXT GNext
INVARIANT EmitAtLen
CHECK_DEADLOCK FALSE
