----------------------------- MODULE Gen_Delta -----------------------------
(* Behaviour generator for C18 (leg A).  Module Delta's actions with a history variable; two uses:
   - Gen_cover.cfg: exhaustive exploration with VIEW <<desired, dataplane>> and an ACTION_CONSTRAINT
     that prints, for EVERY transition of the abstract state graph, the history leading to it
     (BFS-tree path to the source state + the transition) - transition coverage of the graph;
   - Gen_sim.cfg: `-simulate`, printing each random walk when it reaches SimLen.                *)
EXTENDS Delta, Json

CONSTANTS SimLen
VARIABLE hist
gvars == <<desired, dataplane, hist>>

GInit == Init /\ hist = <<>>

Rec(op, f) == [op |-> op] @@ f
Step(a, r) == a /\ hist' = Append(hist, r)

\* iteration as one composite step: the callback answers UpdateDataplane exactly for the keys in S
IterUpd(S) == /\ S \subseteq PendingUpd
              /\ dataplane' = [k \in Keys |-> IF k \in S THEN desired[k] ELSE dataplane[k]]
              /\ UNCHANGED desired
IterDel(S) == /\ S \subseteq PendingDel
              /\ dataplane' = [k \in Keys |-> IF k \in S THEN None ELSE dataplane[k]]
              /\ UNCHANGED desired

SetToSeq(S) == CHOOSE s \in [1..Cardinality(S) -> S] : \A i, j \in 1..Cardinality(S) : i # j => s[i] # s[j]

GNext ==
  \/ /\ Len(hist) = SimLen /\ hist' = Append(hist, [op |-> "end"]) /\ UNCHANGED vars
  \/
    /\ Len(hist) < SimLen
    /\ \/ \E k \in Keys, v \in Vals : Step(DesSet(k, v), [op |-> "des_set", k |-> k, v |-> v])
       \/ \E k \in Keys, v \in Vals : Step(DpSet(k, v), [op |-> "dp_set", k |-> k, v |-> v])
       \/ \E k \in Keys : Step(DesDel(k), [op |-> "des_del", k |-> k])
       \/ \E k \in Keys : Step(DpDel(k), [op |-> "dp_del", k |-> k])
       \/ Step(DesDelAll, [op |-> "des_delall"])
       \/ Step(DpDelAll, [op |-> "dp_delall"])
       \/ \E m \in Maps : Step(DpReplace(m), [op |-> "dp_replace", m |-> m])
       \/ \E m \in Maps : \E s \in SUBSET { k \in Keys : m[k] # None } :
             Step(DpReplacePartial(m, s), [op |-> "dp_replace_err", m |-> m, seen |-> SetToSeq(s)])
       \/ \E S \in SUBSET PendingUpd : Step(IterUpd(S), [op |-> "iter_upd", apply |-> SetToSeq(S)])
       \/ \E S \in SUBSET PendingDel : Step(IterDel(S), [op |-> "iter_del", apply |-> SetToSeq(S)])

GView == <<desired, dataplane>>
EmitEdge == PrintT("BEH " \o ToJson(hist'))
EmitAtLen == Len(hist) = SimLen + 1 => PrintT("BEH " \o ToJson(hist))
=============================================================================
