------------------------------- MODULE T_CMap -------------------------------
(* Trace spec for the CachingMap leg of C18.  Events: the API calls made by the driver, every call the
   real CachingMap makes on the (harness) dataplane map with its outcome, the return of each Apply call,
   and observations of Desired(), Dataplane() and of the real map.                               *)
EXTENDS TraceLib, FiniteSets

VARIABLES desired, cache, real, loaded, inApply, failed
vars == <<desired, cache, real, loaded, inApply, failed>>

TKeys == UNION { SeqToSet(Trace[i].keys) : i \in { j \in 1..NTrace : Trace[j].ev = "reset" } }
C == INSTANCE CMap WITH Keys <- TKeys, Vals <- 1..9
None == 0
MapOf(r) == LET d == DOMAIN r IN [k \in TKeys |-> IF k \in d THEN r[k] ELSE None]

TInit == l = 1 /\ desired = C!Empty /\ cache = C!Empty /\ real = C!Empty /\ loaded = FALSE
         /\ inApply = "none" /\ failed = FALSE

TReset == /\ IsEvent("reset")
          /\ desired' = C!Empty /\ cache' = C!Empty /\ real' = MapOf(Cur.real) /\ loaded' = FALSE
          /\ inApply' = "none" /\ failed' = FALSE
TDesSet == IsEvent("des_set") /\ C!DesSet(Cur.k, Cur.v)
TDesDel == IsEvent("des_del") /\ C!DesDel(Cur.k)
TDesDelAll == IsEvent("des_delall") /\ C!DesDelAll
TExt == IsEvent("ext") /\ C!ExtEdit(Cur.k, Cur.v)
TBegin == IsEvent("begin") /\ C!Begin(Cur.kind)
\* Load on the dataplane map: what it returned must be the real content (the mock is the kernel here)
TLoad == IsEvent("dp_load") /\ (Cur.ok => MapOf(Cur.m) = real) /\ (C!Idle \/ ~loaded) /\ C!Load(Cur.ok)
TDpUpdate == IsEvent("dp_update") /\ C!DpUpdate(Cur.k, Cur.v, Cur.ok)
TDpDelete == IsEvent("dp_delete") /\ C!DpDelete(Cur.k, Cur.res)
TEnd == IsEvent("end") /\ C!End(Cur.err)
\* an explicit LoadCacheFromDataplane call returning: err iff the load failed
TLoadRet == IsEvent("load_ret") /\ Cur.err = failed /\ failed' = FALSE
            /\ UNCHANGED <<desired, cache, real, loaded, inApply>>
TObs == /\ IsEvent("obs")
        /\ MapOf(Cur.desired) = desired
        /\ MapOf(Cur.dataplane) = cache
        /\ MapOf(Cur.real) = real
        /\ UNCHANGED vars

TNext == TReset \/ TDesSet \/ TDesDel \/ TDesDelAll \/ TExt \/ TBegin \/ TLoad \/ TDpUpdate \/ TDpDelete
         \/ TEnd \/ TLoadRet \/ TObs
=============================================================================
