CONSTANTS
  Keys = {"a", "b"}
  Vals = {1, 2}
INIT Init
NEXT Next
PROPERTY AgreeAfterWrite
CHECK_DEADLOCK FALSE
