CONSTANTS
  Keys = {"a", "b"}
  Vals = {1, 2}
  SimLen = 60
INIT GInit
NEXT GNext
VIEW GView
ACTION_CONSTRAINT EmitEdge
CHECK_DEADLOCK FALSE
