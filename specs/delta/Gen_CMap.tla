------------------------------ MODULE Gen_CMap ------------------------------
(* Behaviour generator for the CachingMap leg of C18: API-level operations (each Apply* call is one
   composite step with a fault plan: which keys' dataplane writes fail, whether a load fails).     *)
EXTENDS CMap, Json

CONSTANTS SimLen
VARIABLE hist
GInit == Init /\ hist = <<[op |-> "init", real |-> real]>>

SetToSeq(S) == CHOOSE s \in [1..Cardinality(S) -> S] : \A i, j \in 1..Cardinality(S) : i # j => s[i] # s[j]
Keep == UNCHANGED <<inApply, failed>>

\* state after the implicit load at the start of an Apply (lf = the load fails)
CacheAfterLoad(lf) == IF loaded \/ lf THEN cache ELSE real
LoadedAfter(lf) == loaded \/ ~lf

GApplyUpd(F, lf) ==   \* F: keys whose Update fails
    LET c0 == CacheAfterLoad(lf)
        pend == { k \in Keys : desired[k] # None /\ desired[k] # c0[k] }
        go == LoadedAfter(lf)
    IN  /\ F \subseteq pend
        /\ (~go) => F = {}
        /\ loaded' = go
        /\ cache' = [k \in Keys |-> IF go /\ k \in pend \ F THEN desired[k] ELSE c0[k]]
        /\ real'  = [k \in Keys |-> IF go /\ k \in pend \ F THEN desired[k] ELSE real[k]]
        /\ UNCHANGED desired /\ Keep

GApplyDel(F, lf) ==
    LET c0 == CacheAfterLoad(lf)
        pend == { k \in Keys : c0[k] # None /\ desired[k] = None }
        go == LoadedAfter(lf)
    IN  /\ F \subseteq pend
        /\ (~go) => F = {}
        /\ loaded' = go
        /\ cache' = [k \in Keys |-> IF go /\ k \in pend \ F THEN None ELSE c0[k]]
        /\ real'  = [k \in Keys |-> IF go /\ k \in pend \ F THEN None ELSE real[k]]
        /\ UNCHANGED desired /\ Keep

Step(a, r) == a /\ hist' = Append(hist, r)

GNext ==
  \/ /\ Len(hist) = SimLen /\ hist' = Append(hist, [op |-> "end"]) /\ UNCHANGED vars
  \/ /\ Len(hist) < SimLen
     /\ \/ \E k \in Keys, v \in Vals : Step(DesSet(k, v), [op |-> "des_set", k |-> k, v |-> v])
        \/ \E k \in Keys : Step(DesDel(k), [op |-> "des_del", k |-> k])
        \/ Step(DesDelAll, [op |-> "des_delall"])
        \/ \E k \in Keys, v \in Vals \cup {None} : Step(ExtEdit(k, v), [op |-> "ext", k |-> k, v |-> v])
        \/ \E ok \in BOOLEAN : Step(Load(ok) /\ failed' = failed, [op |-> "load", ok |-> ok])
        \/ \E lf \in BOOLEAN : \E F \in SUBSET Keys :
              Step(GApplyUpd(F, lf), [op |-> "apply_upd", fail |-> SetToSeq(F), lf |-> lf])
        \/ \E lf \in BOOLEAN : \E F \in SUBSET Keys :
              Step(GApplyDel(F, lf), [op |-> "apply_del", fail |-> SetToSeq(F), lf |-> lf])

GView == <<desired, cache, real, loaded>>
EmitEdge == PrintT("BEH " \o ToJson(hist'))
EmitAtLen == Len(hist) = SimLen + 1 => PrintT("BEH " \o ToJson(hist))
=============================================================================
