-------------------------------- MODULE CMap --------------------------------
(* C18, second component: felix/cachingmap.CachingMap = a DeltaTracker plus a real dataplane map.
   `cache` is the tracker's dataplane view, `real` the actual map (which other software, or a
   failed write, can make differ from the cache until the next load).  One action per call on the
   dataplane map (Update/Delete/Load with their outcomes) so that partial applies are explored.  *)
EXTENDS Naturals, FiniteSets, Sequences, TLC

CONSTANTS Keys, Vals
None == 0

VARIABLES desired, cache, real, loaded,
          inApply,     \* "none" | "upd" | "del": which Apply*Only call is running
          failed       \* a dataplane write failed (or the implicit load failed) during this call
vars == <<desired, cache, real, loaded, inApply, failed>>

Maps == [Keys -> Vals \cup {None}]
Empty == [k \in Keys |-> None]
Init == desired = Empty /\ cache = Empty /\ real \in Maps /\ loaded = FALSE /\ inApply = "none" /\ failed = FALSE

PendingUpd == { k \in Keys : desired[k] # None /\ desired[k] # cache[k] }
PendingDel == { k \in Keys : cache[k] # None /\ desired[k] = None }

Idle == inApply = "none"

DesSet(k, v) == Idle /\ desired' = [desired EXCEPT ![k] = v] /\ UNCHANGED <<cache, real, loaded, inApply, failed>>
DesDel(k)    == Idle /\ desired' = [desired EXCEPT ![k] = None] /\ UNCHANGED <<cache, real, loaded, inApply, failed>>
DesDelAll    == Idle /\ desired' = Empty /\ UNCHANGED <<cache, real, loaded, inApply, failed>>
\* another writer changes the real map behind the cache's back
ExtEdit(k, v) == Idle /\ real' = [real EXCEPT ![k] = v] /\ UNCHANGED <<desired, cache, loaded, inApply, failed>>

\* LoadCacheFromDataplane (explicit, or implicit at the start of an Apply when not yet loaded)
Load(ok) ==
    /\ IF ok THEN cache' = real /\ loaded' = TRUE ELSE UNCHANGED <<cache, loaded>>
    /\ failed' = (failed \/ ~ok)
    /\ UNCHANGED <<desired, real, inApply>>

Begin(kind) == Idle /\ inApply' = kind /\ failed' = FALSE /\ UNCHANGED <<desired, cache, real, loaded>>

\* dpMap.Update(k, v) issued by ApplyUpdatesOnly for a pending update
DpUpdate(k, v, ok) ==
    /\ inApply = "upd" /\ loaded
    /\ k \in PendingUpd /\ v = desired[k]
    /\ IF ok THEN real' = [real EXCEPT ![k] = v] /\ cache' = [cache EXCEPT ![k] = v]
            ELSE UNCHANGED <<real, cache>>
    /\ failed' = (failed \/ ~ok)
    /\ UNCHANGED <<desired, loaded, inApply>>

\* dpMap.Delete(k) issued by ApplyDeletionsOnly; res \in {"ok", "enoent", "fail"}
DpDelete(k, res) ==
    /\ inApply = "del" /\ loaded
    /\ k \in PendingDel
    /\ res = "ok" => real[k] # None
    /\ res = "enoent" => real[k] = None
    /\ IF res = "fail" THEN UNCHANGED <<real, cache>>
       ELSE real' = [real EXCEPT ![k] = None] /\ cache' = [cache EXCEPT ![k] = None]
    /\ failed' = (failed \/ res = "fail")
    /\ UNCHANGED <<desired, loaded, inApply>>

\* the Apply*Only call returns; it reports an error exactly when something failed, and when nothing
\* failed every pending item of its kind has been applied
End(err) ==
    /\ ~Idle
    /\ err = failed
    /\ ~failed => (IF inApply = "upd" THEN PendingUpd = {} ELSE PendingDel = {})
    /\ inApply' = "none" /\ failed' = FALSE
    /\ UNCHANGED <<desired, cache, real, loaded>>

Next ==
    \/ \E k \in Keys, v \in Vals : DesSet(k, v) \/ ExtEdit(k, v)
    \/ \E k \in Keys : DesDel(k) \/ ExtEdit(k, None)
    \/ DesDelAll
    \/ \E ok \in BOOLEAN : (Idle \/ ~loaded) /\ Load(ok)
    \/ \E kind \in {"upd", "del"} : Begin(kind)
    \/ \E k \in Keys, ok \in BOOLEAN : DpUpdate(k, desired[k], ok)
    \/ \E k \in Keys, res \in {"ok", "enoent", "fail"} : DpDelete(k, res)
    \/ \E e \in BOOLEAN : End(e)

\* The cache never invents content: whatever it holds for a key was at some point read from, or
\* successfully written to, the real map; stated as the step invariant that a write/load makes them agree.
AgreeAfterWrite == [][ \A k \in Keys : (cache'[k] # cache[k]) => cache'[k] = real'[k] ]_vars
=============================================================================
