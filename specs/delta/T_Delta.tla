------------------------------ MODULE T_Delta ------------------------------
(* Trace specification for C18: replays the calls recorded from the real
   felix/deltatracker.DeltaTracker against module Delta and checks, at every observation, that the
   four views the real tracker reports are the two maps and their exact difference.          *)
EXTENDS TraceLib, FiniteSets

VARIABLES desired, dataplane

TKeys == UNION { SeqToSet(Trace[i].keys) : i \in { j \in 1..NTrace : Trace[j].ev = "reset" } }
TVals == 1..9

\* NB: INSTANCE (not a cfg `<-` override): TLC caches TKeys here, while a cfg override re-evaluates it
\* (and re-reads the trace file) at every use.
D == INSTANCE Delta WITH Keys <- TKeys, Vals <- TVals
None == D!None
vars == <<desired, dataplane>>

MapOf(r) == LET d == DOMAIN r IN [k \in TKeys |-> IF k \in d THEN r[k] ELSE None]

TInit == l = 1 /\ D!Init

TReset   == IsEvent("reset") /\ desired' = D!Empty /\ dataplane' = D!Empty
TDesSet  == IsEvent("des_set") /\ D!DesSet(Cur.k, Cur.v)
TDesDel  == IsEvent("des_del") /\ D!DesDel(Cur.k)
TDesDelAll == IsEvent("des_delall") /\ D!DesDelAll
TDpSet   == IsEvent("dp_set") /\ D!DpSet(Cur.k, Cur.v)
TDpDel   == IsEvent("dp_del") /\ D!DpDel(Cur.k)
TDpDelAll == IsEvent("dp_delall") /\ D!DpDelAll
TDpReplace == IsEvent("dp_replace") /\ D!DpReplace(MapOf(Cur.m))
TDpReplaceErr == IsEvent("dp_replace_err") /\ D!DpReplacePartial(MapOf(Cur.m), SeqToSet(Cur.seen))
TCbUpd   == IsEvent("cb_upd") /\ D!CbUpd(Cur.k, Cur.v, Cur.apply)
TCbDel   == IsEvent("cb_del") /\ D!CbDel(Cur.k, Cur.apply)
\* an observation of the four views (Iter over each view, Len of each, D!InSync, Get of every key)
TObs ==
    /\ IsEvent("obs")
    /\ MapOf(Cur.desired) = desired
    /\ MapOf(Cur.dataplane) = dataplane
    /\ MapOf(Cur.pu) = D!PendingUpdMap
    /\ SeqToSet(Cur.pd) = D!PendingDel
    /\ Len(Cur.pd) = Cardinality(D!PendingDel)              \* each pending deletion reported once
    /\ Cur.lens = <<D!Count(desired), D!Count(dataplane), Cardinality(D!PendingUpd), Cardinality(D!PendingDel)>>
    /\ Cur.insync = D!InSync
    /\ MapOf(Cur.getd) = desired /\ MapOf(Cur.getdp) = dataplane
    /\ MapOf(Cur.getpu) = D!PendingUpdMap
    /\ MapOf(Cur.getpd) = [k \in TKeys |-> IF k \in D!PendingDel THEN dataplane[k] ELSE None]
    /\ UNCHANGED vars

TNext == TReset \/ TDesSet \/ TDesDel \/ TDesDelAll \/ TDpSet \/ TDpDel \/ TDpDelAll \/ TDpReplace
         \/ TDpReplaceErr \/ TCbUpd \/ TCbDel \/ TObs
TSpec == TInit /\ [][TNext]_<<vars, l>>
=============================================================================
