------------------------------ MODULE I_Delta ------------------------------
(* C18 implementation layer: the three-region Venn representation used by
   felix/deltatracker/delta_tracker.go (inDataplaneAndDesired, inDataplaneNotDesired,
   desiredUpdates, desiredLen), one action per public method, transcribed from the code.
   TLC checks that the views reconstructed from the three maps always equal the two abstract maps
   of module Delta and their exact difference (refinement of the property layer).            *)
EXTENDS Naturals, FiniteSets, Sequences, TLC

CONSTANTS Keys, Vals
None == 0

VARIABLES both, dpOnly, upd, dlen,      \* implementation state
          desired, dataplane            \* abstract maps (ghost, advanced by module Delta's rules)
ivars == <<both, dpOnly, upd, dlen>>
vars == <<both, dpOnly, upd, dlen, desired, dataplane>>

A == INSTANCE Delta

Empty == [k \in Keys |-> None]
Init == both = Empty /\ dpOnly = Empty /\ upd = Empty /\ dlen = 0 /\ A!Init

\* Desired().Get
DGet(k) == IF upd[k] # None THEN upd[k] ELSE both[k]

IDesSet(k, v) ==
    LET inNot == dpOnly[k] # None
        cur == IF inNot THEN dpOnly[k] ELSE both[k]
        both1 == IF inNot THEN [both EXCEPT ![k] = dpOnly[k]] ELSE both
        dpOnly1 == IF inNot THEN [dpOnly EXCEPT ![k] = None] ELSE dpOnly
        len1 == IF inNot THEN dlen + 1 ELSE dlen
        present == cur # None
    IN  /\ both' = both1 /\ dpOnly' = dpOnly1
        /\ IF ~present
             THEN /\ dlen' = IF upd[k] = None THEN len1 + 1 ELSE len1
                  /\ upd' = [upd EXCEPT ![k] = v]
             ELSE IF cur = v
                  THEN upd' = [upd EXCEPT ![k] = None] /\ dlen' = len1
                  ELSE upd' = [upd EXCEPT ![k] = v] /\ dlen' = len1
        /\ A!DesSet(k, v)

IDesDelCore(b, d, u, n, k) ==   \* returns the four components after Desired().Delete(k)
    LET inU == u[k] # None
        inB == b[k] # None
    IN  [both |-> IF inB THEN [b EXCEPT ![k] = None] ELSE b,
         dpOnly |-> IF inB THEN [d EXCEPT ![k] = b[k]] ELSE d,
         upd |-> [u EXCEPT ![k] = None],
         dlen |-> IF inU \/ inB THEN n - 1 ELSE n]

IDesDel(k) ==
    LET r == IDesDelCore(both, dpOnly, upd, dlen, k) IN
    /\ both' = r.both /\ dpOnly' = r.dpOnly /\ upd' = r.upd /\ dlen' = r.dlen
    /\ A!DesDel(k)

\* DeleteAll = Iter over desired calling Delete for every key (order irrelevant: keys independent)
RECURSIVE DelAllRec(_, _)
DelAllRec(r, ks) ==
    IF ks = {} THEN r
    ELSE LET k == CHOOSE x \in ks : TRUE IN DelAllRec(IDesDelCore(r.both, r.dpOnly, r.upd, r.dlen, k), ks \ {k})
IDesDelAll ==
    LET r == DelAllRec([both |-> both, dpOnly |-> dpOnly, upd |-> upd, dlen |-> dlen],
                       { k \in Keys : DGet(k) # None }) IN
    /\ both' = r.both /\ dpOnly' = r.dpOnly /\ upd' = r.upd /\ dlen' = r.dlen
    /\ A!DesDelAll

IDpSet(k, v) ==
    LET dv == DGet(k) IN
    /\ IF dv # None
         THEN /\ both' = [both EXCEPT ![k] = v]
              /\ upd' = [upd EXCEPT ![k] = IF dv # v THEN dv ELSE None]
              /\ UNCHANGED dpOnly
         ELSE /\ dpOnly' = [dpOnly EXCEPT ![k] = v] /\ UNCHANGED <<both, upd>>
    /\ UNCHANGED dlen
    /\ A!DpSet(k, v)

IDpDel(k) ==
    LET dv == DGet(k) IN
    /\ both' = [both EXCEPT ![k] = None]
    /\ dpOnly' = [dpOnly EXCEPT ![k] = None]
    /\ upd' = IF dv # None THEN [upd EXCEPT ![k] = dv] ELSE upd
    /\ UNCHANGED dlen
    /\ A!DpDel(k)

\* ReplaceAllIter(m) without error: classification of every delivered key, then the sweep of
\* keys that used to be in both/dpOnly and were not delivered
IDpReplace(m) ==
    LET seen == { k \in Keys : m[k] # None } IN
    /\ both' = [k \in Keys |-> IF k \in seen /\ DGet(k) # None THEN m[k] ELSE None]
    /\ dpOnly' = [k \in Keys |-> IF k \in seen /\ DGet(k) = None THEN m[k] ELSE None]
    /\ upd' = [k \in Keys |->
                 IF k \in seen /\ DGet(k) # None
                   THEN (IF DGet(k) = m[k] THEN None ELSE DGet(k))
                   ELSE IF k \notin seen /\ both[k] # None /\ DGet(k) # None THEN DGet(k) ELSE upd[k]]
    /\ UNCHANGED dlen
    /\ A!DpReplace(m)

\* ReplaceAllIter whose iterator fails after delivering `seen`: the fix-up path copies the new
\* classification back over the old maps
IDpReplacePartial(m, seen) ==
    /\ \A k \in seen : m[k] # None
    /\ both' = [k \in Keys |-> IF k \in seen THEN (IF DGet(k) # None THEN m[k] ELSE None) ELSE both[k]]
    /\ dpOnly' = [k \in Keys |-> IF k \in seen THEN (IF DGet(k) = None THEN m[k] ELSE None) ELSE dpOnly[k]]
    /\ upd' = [k \in Keys |-> IF k \in seen /\ DGet(k) # None
                                THEN (IF DGet(k) = m[k] THEN None ELSE DGet(k)) ELSE upd[k]]
    /\ UNCHANGED dlen
    /\ A!DpReplacePartial(m, seen)

ICbUpd(k, apply) ==
    /\ upd[k] # None
    /\ IF apply THEN upd' = [upd EXCEPT ![k] = None] /\ both' = [both EXCEPT ![k] = upd[k]]
               ELSE UNCHANGED <<upd, both>>
    /\ UNCHANGED <<dpOnly, dlen>>
    /\ A!CbUpd(k, upd[k], apply)

ICbDel(k, apply) ==
    /\ dpOnly[k] # None
    /\ IF apply THEN dpOnly' = [dpOnly EXCEPT ![k] = None] ELSE UNCHANGED dpOnly
    /\ UNCHANGED <<both, upd, dlen>>
    /\ A!CbDel(k, apply)

Next ==
    \/ \E k \in Keys, v \in Vals : IDesSet(k, v) \/ IDpSet(k, v)
    \/ \E k \in Keys : IDesDel(k) \/ IDpDel(k)
    \/ IDesDelAll
    \/ \E m \in A!Maps : IDpReplace(m)
    \/ \E m \in A!Maps, s \in SUBSET Keys : IDpReplacePartial(m, s)
    \/ \E k \in Keys, a \in BOOLEAN : ICbUpd(k, a) \/ ICbDel(k, a)

\* ---- refinement: the four views computed from the representation are the abstract ones ---------
IDesiredView == [k \in Keys |-> DGet(k)]
IDataplaneView == [k \in Keys |-> IF both[k] # None THEN both[k] ELSE dpOnly[k]]
ViewsExact ==
    /\ IDesiredView = desired
    /\ IDataplaneView = dataplane
    /\ upd = A!PendingUpdMap
    /\ { k \in Keys : dpOnly[k] # None } = A!PendingDel
    /\ dlen = A!Count(desired)
Disjoint == \A k \in Keys : ~(both[k] # None /\ dpOnly[k] # None)
=============================================================================
