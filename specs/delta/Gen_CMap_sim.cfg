CONSTANTS
  Keys = {"a", "b", "c"}
  Vals = {1, 2}
  SimLen = 20
INIT GInit
NEXT GNext
INVARIANT EmitAtLen
CHECK_DEADLOCK FALSE
