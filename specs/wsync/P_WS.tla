-------------------------------- MODULE P_WS --------------------------------
(* C26 property layer.  The true datastore content per resource type (advanced by the environment),
   and what the syncer's callbacks have told the consumer.  The syncer may call its callbacks with
   anything at any time, subject to:
     NoUpdateWhileWaiting   no OnUpdates between OnStatusUpdated(WaitForDatastore) and the next status;
     DeletedOnce            a deletion is only ever emitted for a key the emitted stream currently holds
                            (a vanished resource is deleted, and never twice);
     InSyncAfterLists       OnStatusUpdated(InSync) only after every resource type has had a List answered
                            definitively (contents, or "this API is not installed");
     Converged              when the environment has stopped changing things, every watch is open and
                            drained and a sentinel written last has come out of the callbacks, the
                            stream applied in order equals the datastore's content, key by key and
                            revision by revision.
   Revisions are positive integers, 0 = absent.                                                    *)
EXTENDS Naturals, Sequences, FiniteSets

CONSTANTS T, K      \* resource types, keys (per type)

VARIABLES store,    \* [T -> [K -> Nat]]  datastore: revision of the current value, 0 = absent
          view,     \* [T -> [K -> Nat]]  what the update stream, applied in order, says
          status,   \* last status given to the consumer: "none" | "wait" | "resync" | "insync"
          listed    \* [T -> BOOLEAN]     a List of this type has been answered definitively
pvars == <<store, view, status, listed>>

Zero == [t \in T |-> [k \in K |-> 0]]
Init == store = Zero /\ view = Zero /\ status = "none" /\ listed = [t \in T |-> FALSE]

\* an update is [t, k, rev] (rev = 0: deletion)
Apply1(v, u) == [v EXCEPT ![u.t][u.k] = u.rev]
RECURSIVE ApplySeq(_, _)
ApplySeq(v, us) == IF us = <<>> THEN v ELSE ApplySeq(Apply1(v, Head(us)), Tail(us))
RECURSIVE DelsOK(_, _)
DelsOK(v, us) ==
    IF us = <<>> THEN TRUE
    ELSE LET u == Head(us) IN (u.rev = 0 => v[u.t][u.k] # 0) /\ DelsOK(Apply1(v, u), Tail(us))

UpdOK(us) == status # "wait" /\ DelsOK(view, us)
StatusOK(s) == s = "insync" => \A t \in T : listed[t]
ConvergedOK == view = store

\* ---- environment ---------------------------------------------------------------------------------
Mut(t, k, rev) == store' = [store EXCEPT ![t][k] = rev] /\ UNCHANGED <<view, status, listed>>
\* the datastore answered a List of type t: definitive = contents returned, or API not installed
ListAnswered(t, definitive) ==
    /\ listed' = [listed EXCEPT ![t] = @ \/ definitive]
    /\ UNCHANGED <<store, view, status>>
\* ---- the syncer's callbacks ------------------------------------------------------------------------
CbStatus(s) == StatusOK(s) /\ status' = s /\ UNCHANGED <<store, view, listed>>
CbUpdates(us) == UpdOK(us) /\ view' = ApplySeq(view, us) /\ UNCHANGED <<store, status, listed>>
Quiesce == ConvergedOK /\ UNCHANGED pvars
=============================================================================
