CONSTANTS
  T = {"a", "b"}
  K = {"k1", "k2"}
  SD = {"a"}
  RT = "always"
  MaxErr = 2
  MaxMut = 2
  MaxFault = 2
  MaxEnv = 7
  MaxHold = 1
  SimLen = 100
  WReply = 1
  WDeliver = 1
INIT GInit
NEXT GNext
VIEW GView
ACTION_CONSTRAINT EmitEdge
CHECK_DEADLOCK FALSE
