CONSTANTS
  T = {"a", "b"}
  K = {"k1", "k2", "k3"}
  SD = {"b"}
  RT = "always"
  MaxErr = 5
  MaxMut = 1000
  MaxFault = 1000
  MaxEnv = 1000
  MaxHold = 1000
  SimLen = 40
  WReply = 6
  WDeliver = 6
INIT GInit
NEXT GNext
INVARIANT EmitAtLen
CHECK_DEADLOCK FALSE
