-------------------------------- MODULE T_WS --------------------------------
(* Trace specification for C26: one log (ordered by the log's mutex, consistent with causality) of
     mut        the harness datastore changed                         (driver)
     list       a List call of the syncer was answered                 (inside List, before it returns)
     watch/wev  a Watch call was answered / an event handed to a watch (no property content)
     cb_status / cb_upd / cb_syncfailed   the syncer's callbacks      (at callback entry)
     quiesce    every watch open and drained, sentinel seen in the callbacks of every type
   replayed against the property layer P_WS.  The harness datastore is itself checked here: a List
   answered OK must carry exactly the model store's content for that type.                        *)
EXTENDS TraceLib, FiniteSets

VARIABLES store, view, status, listed

Resets == { i \in 1..NTrace : Trace[i].ev = "reset" }
TT == UNION { SeqToSet(Trace[i].types) : i \in Resets }
TK == UNION { SeqToSet(Trace[i].keys) : i \in Resets }

D == INSTANCE P_WS WITH T <- TT, K <- TK
vars == <<store, view, status, listed>>

TInit == l = 1 /\ D!Init
TReset == IsEvent("reset") /\ store' = D!Zero /\ view' = D!Zero /\ status' = "none" /\ listed' = [t \in TT |-> FALSE]

ItemsMatch(t, items) ==
    LET m == [k \in TK |-> IF \E i \in DOMAIN items : items[i].k = k
                             THEN items[CHOOSE i \in DOMAIN items : items[i].k = k].rev ELSE 0]
    IN m = store[t]

TMut == IsEvent("mut") /\ D!Mut(Cur.ty, Cur.k, Cur.rev)
TList ==
    /\ IsEvent("list")
    /\ Cur.res = "ok" => ItemsMatch(Cur.ty, Cur.items)          \* harness datastore obeys the model store
    /\ D!ListAnswered(Cur.ty, Cur.res \in {"ok", "notinstalled"})
TWatch == IsEvent("watch") /\ UNCHANGED vars
TWev == IsEvent("wev") /\ UNCHANGED vars
TCbStatus == IsEvent("cb_status") /\ D!CbStatus(Cur.s)
TCbUpd == IsEvent("cb_upd") /\ D!CbUpdates(Cur.kvs)
TCbFail == IsEvent("cb_syncfailed") /\ UNCHANGED vars
TGate == (IsEvent("hold") \/ IsEvent("release")) /\ UNCHANGED vars      \* the consumer is blocked in / released from a callback
TQuiesce == IsEvent("quiesce") /\ D!Quiesce

TNext == TReset \/ TMut \/ TList \/ TWatch \/ TWev \/ TCbStatus \/ TCbUpd \/ TCbFail \/ TGate \/ TQuiesce
TSpec == TInit /\ [][TNext]_<<vars, l>>
=============================================================================
