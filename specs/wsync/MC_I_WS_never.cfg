CONSTANTS
  T = {"a", "b"}
  K = {"k1", "k2"}
  SD = {}
  RT = "never"
  MaxErr = 2
  MaxMut = 2
  MaxFault = 2
  MaxEnv = 8
  MaxHold = 1
INIT Init
NEXT Next
INVARIANTS PropertyHolds Converged CacheIsView
CHECK_DEADLOCK FALSE
