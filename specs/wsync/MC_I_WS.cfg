CONSTANTS
  T = {"a", "b"}
  K = {"k1", "k2"}
  SD = {"a"}
  RT = "always"
  MaxErr = 2
  MaxMut = 2
  MaxFault = 3
  MaxEnv = 9
  MaxHold = 1
INIT Init
NEXT Next
INVARIANTS PropertyHolds Converged CacheIsView
CHECK_DEADLOCK FALSE
