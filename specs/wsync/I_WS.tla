-------------------------------- MODULE I_WS --------------------------------
(* C26 implementation layer: libcalico-go/lib/backend/watchersyncer transcribed.
     per resource type t: the watcherCache goroutine (maybeResyncAndCreateWatcher / loopReadingFromWatcher /
       handleWatchListEvent / markAsValid / finishResync / sendDeletionsForAllResources) as a small state
       machine  pc[t] in "sync" -> "atList" | "atWatch" -> "watching";
     the results channel rq and the watcherSyncer main loop (per-cache status aggregation);
     the environment: a revisioned datastore per type (store, nrev, evlog) whose List/Watch answers and
       watch events are the TLC-chosen decisions  Reply(t, how) / Deliver(t) / WEvent(t, kind) / Mutate.
   Internal steps (cache reaching its next List/Watch call, the syncer draining rq) run to completion
   before the next environment decision - exactly what the driver does with its gates.
   Timing: wc.watchRetryTimeout is either never exceeded or always exceeded (constant RT).
   The P_WS variables are ghosts; its obligations are invariants here (bad / Converged).           *)
EXTENDS Naturals, Sequences, FiniteSets, TLC

CONSTANTS T, K,
          SD,          \* subset of T with SendDeletesOnConnFail
          RT,          \* "never" | "always": is watchRetryTimeout exceeded when a List fails
          MaxErr,      \* MaxErrorsPerRevision (5 in the code)
          MaxMut, MaxFault, MaxEnv, MaxHold

VARIABLES pc, crev, ecount, full, cstat, res, inst, lpoll, wpoll, conn,   \* watcherCache, per type
          everconn,                 \* per type: lastSuccessfulConnTime has been set at least once
          wpos,                     \* per type: revision up to which the open watch has delivered
          nrev, evlog,              \* datastore: revision counter and mutation log per type
          rq, cstats, wsstat, started,   \* results channel, syncer's cacheStatuses, ws.status
          nmut, nfault, nenv, bad,
          ubuf,                     \* the syncer's consolidation buffer (updates not yet handed to OnUpdates)
          held, nhold,              \* consumer gate: "no" | "req" (the next callback will block) | "yes" (blocked in a callback)
          store, view, status, listed    \* P_WS
cvars == <<pc, crev, ecount, full, cstat, res, inst, lpoll, wpoll, conn, everconn, wpos>>
vars == <<pc, crev, ecount, full, cstat, res, inst, lpoll, wpoll, conn, everconn, wpos, nrev, evlog, rq, cstats, wsstat,
          started, nmut, nfault, nenv, bad, ubuf, held, nhold, store, view, status, listed>>

P == INSTANCE P_WS
hvars == <<ubuf, held, nhold>>

ZeroK == [k \in K |-> 0]
RSt(t, s)   == [t |-> t, kind |-> "st", s |-> s, us |-> <<>>]
RUpd(t, us) == [t |-> t, kind |-> "upd", s |-> "", us |-> us]
RErr(t)     == [t |-> t, kind |-> "err", s |-> "", us |-> <<>>]
U(t, k, rev) == [t |-> t, k |-> k, rev |-> rev]

SetToSeq(S) == CHOOSE s \in [1..Cardinality(S) -> S] : \A i, j \in 1..Cardinality(S) : i # j => s[i] # s[j]

\* ---- watcherCache helpers on a local record c = [q, cstat, res, old, crev, ecount] ----------------------------
StSend(c, t, s) == IF c.cstat = s THEN c ELSE [c EXCEPT !.q = Append(@, RSt(t, s)), !.cstat = s]
UpdSend(c, t, us) == [c EXCEPT !.q = Append(@, RUpd(t, us))]
MarkValid(c, k) == IF c.old[k] # 0 THEN [c EXCEPT !.res[k] = c.old[k], !.old[k] = 0] ELSE c
AddMod(c, t, k, rev) ==
    LET c1 == MarkValid(c, k) IN
    IF c1.res[k] = rev THEN c1 ELSE [UpdSend(c1, t, <<U(t, k, rev)>>) EXCEPT !.res[k] = rev]
Del(c, t, k) ==
    LET c1 == MarkValid(c, k) IN
    IF c1.res[k] # 0 THEN [UpdSend(c1, t, <<U(t, k, 0)>>) EXCEPT !.res[k] = 0] ELSE c1
\* handleWatchListEvent for a KV with revision rev (v = 0: deletion)
Handle(c, t, k, v, rev) ==
    LET c1 == [c EXCEPT !.crev = rev, !.ecount = 0] IN
    IF v = 0 THEN Del(c1, t, k) ELSE AddMod(c1, t, k, v)
Finish(c, t) ==
    LET c1 == IF c.cstat = "wait" THEN StSend(c, t, "resync") ELSE c
        rem == { k \in K : c1.old[k] # 0 }
        c2 == IF rem # {} THEN UpdSend(c1, t, [i \in 1..Cardinality(rem) |-> U(t, SetToSeq(rem)[i], 0)]) ELSE c1
    IN StSend([c2 EXCEPT !.old = ZeroK], t, "insync")
RECURSIVE DelEach(_, _, _)
DelEach(c, t, ks) ==
    IF ks = {} THEN c
    ELSE LET k == CHOOSE x \in ks : TRUE IN DelEach(UpdSend(c, t, <<U(t, k, 0)>>), t, ks \ {k})
DelAll(c, t) ==       \* sendDeletionsForAllResources
    LET live == { k \in K : c.res[k] # 0 }
        c1 == IF live # {} /\ c.cstat = "wait" THEN StSend(c, t, "resync") ELSE c
    IN [DelEach(c1, t, live) EXCEPT !.res = ZeroK, !.crev = 0, !.ecount = 0]
RECURSIVE HandleItems(_, _, _)
HandleItems(c, t, ks) ==      \* the listed KVs, each with its own revision
    IF ks = {} THEN c
    ELSE LET k == CHOOSE x \in ks : TRUE IN HandleItems(Handle(c, t, k, store[t][k], store[t][k]), t, ks \ {k})

Local(t) == [q |-> <<>>, cstat |-> cstat[t], res |-> res[t], old |-> ZeroK, crev |-> crev[t], ecount |-> ecount[t]]
\* write a local record back
Commit(t, c) ==
    /\ rq' = rq \o c.q
    /\ cstat' = [cstat EXCEPT ![t] = c.cstat]
    /\ res' = [res EXCEPT ![t] = c.res]
    /\ crev' = [crev EXCEPT ![t] = c.crev]
    /\ ecount' = [ecount EXCEPT ![t] = c.ecount]

Init ==
    /\ pc = [t \in T |-> "sync"] /\ crev = [t \in T |-> 0] /\ ecount = [t \in T |-> 0]
    /\ full = [t \in T |-> FALSE] /\ cstat = [t \in T |-> "wait"] /\ res = [t \in T |-> ZeroK]
    /\ inst = [t \in T |-> TRUE] /\ lpoll = [t \in T |-> FALSE] /\ wpoll = [t \in T |-> FALSE]
    /\ conn = [t \in T |-> FALSE] /\ everconn = [t \in T |-> FALSE] /\ wpos = [t \in T |-> 0]
    /\ nrev = [t \in T |-> 0] /\ evlog = [t \in T |-> <<>>]
    /\ rq = <<>> /\ cstats = [t \in T |-> "wait"] /\ wsstat = "wait" /\ started = FALSE
    /\ nmut = 0 /\ nfault = 0 /\ nenv = 0 /\ bad = FALSE /\ ubuf = <<>> /\ held = "no" /\ nhold = 0
    /\ P!Init

\* ---- internal steps ----------------------------------------------------------------------------------------------
\* top of the loop in maybeResyncAndCreateWatcher, up to the List or Watch call
CacheSync(t) ==
    /\ pc[t] = "sync" /\ UNCHANGED hvars
    /\ LET f2 == full[t] \/ crev[t] = 0 IN
       IF f2
         THEN LET prevPoll == lpoll[t] \/ wpoll[t]
                  c == IF inst[t] /\ ~prevPoll
                         THEN StSend(Local(t), t, IF conn[t] THEN "resync" ELSE "wait") ELSE Local(t)
              IN /\ Commit(t, c)
                 /\ lpoll' = [lpoll EXCEPT ![t] = FALSE] /\ wpoll' = [wpoll EXCEPT ![t] = FALSE]
                 /\ full' = [full EXCEPT ![t] = TRUE] /\ pc' = [pc EXCEPT ![t] = "atList"]
         ELSE /\ pc' = [pc EXCEPT ![t] = "atWatch"]
              /\ UNCHANGED <<full, lpoll, wpoll, rq, cstat, res, crev, ecount>>
    /\ UNCHANGED <<inst, conn, everconn, wpos, nrev, evlog, cstats, wsstat, started, nmut, nfault, nenv, bad,
                   store, view, status, listed>>

\* a callback is being made: a requested hold takes effect (the consumer blocks inside it)
Blocks == held' = (IF held = "req" THEN "yes" ELSE held) /\ UNCHANGED nhold

SyncerStart ==
    /\ ~started /\ started' = TRUE
    /\ bad' = (bad \/ ~P!StatusOK("wait")) /\ status' = "wait" /\ UNCHANGED <<view, ubuf>>
    /\ Blocks
    /\ UNCHANGED <<cvars, nrev, evlog, rq, cstats, wsstat, nmut, nfault, nenv, store, listed>>

Agg(cs) == IF \A t \in T : cs[t] = "insync" THEN "insync"
           ELSE IF \A t \in T : cs[t] = "wait" THEN "wait" ELSE "resync"

\* one iteration of the main loop / consolidation loop of watcherSyncer.run: updates are appended to the buffer;
\* the buffer is flushed (OnUpdates) before an error is handled, before EVERY aggregated status change is
\* announced, and when the results channel has been drained (end of the consolidation pass)
SyncerPop ==
    /\ started /\ rq # <<>> /\ held # "yes"
    /\ LET r == Head(rq)
           last == Tail(rq) = <<>>
           buf1 == IF r.kind = "upd" THEN ubuf \o r.us ELSE ubuf
           cs == IF r.kind = "st" THEN [cstats EXCEPT ![r.t] = r.s] ELSE cstats
           change == r.kind = "st" /\ Agg(cs) # wsstat
           flush == buf1 # <<>> /\ (r.kind = "err" \/ change \/ last)
           \* a flush forced by the end of the pass comes AFTER a status announced in this iteration
           flushFirst == flush /\ (r.kind = "err" \/ change)
           st1 == IF change THEN Agg(cs) ELSE status
       IN /\ rq' = Tail(rq)
          /\ cstats' = cs
          /\ wsstat' = IF change THEN Agg(cs) ELSE wsstat
          /\ ubuf' = IF flush THEN <<>> ELSE buf1
          /\ view' = IF flush THEN P!ApplySeq(view, buf1) ELSE view
          /\ status' = st1
          /\ bad' = (bad \/ (flush /\ ~(IF flushFirst THEN P!UpdOK(buf1)
                                                   ELSE (st1 # "wait" /\ P!DelsOK(view, buf1))))
                          \/ (change /\ ~P!StatusOK(Agg(cs))))
          /\ IF flush \/ change THEN Blocks ELSE UNCHANGED <<held, nhold>>
    /\ UNCHANGED <<cvars, nrev, evlog, started, nmut, nfault, nenv, store, listed>>

\* the consumer: block inside the next callback / let it return
Hold == /\ held = "no" /\ nhold < MaxHold /\ held' = "req" /\ nhold' = nhold + 1
        /\ UNCHANGED <<cvars, nrev, evlog, rq, cstats, wsstat, started, nmut, nfault, bad, ubuf, store, view, status, listed>>
Release == /\ held # "no" /\ held' = "no"
           /\ UNCHANGED <<cvars, nrev, evlog, rq, cstats, wsstat, started, nmut, nfault, bad, ubuf, nhold, store, view, status, listed>>

Stable == started /\ (rq = <<>> \/ held = "yes") /\ \A t \in T : pc[t] # "sync"

\* ---- environment decisions -------------------------------------------------------------------------------------------
EnvOK == Stable /\ nenv < MaxEnv
Tick == nenv' = nenv + 1
Fault == nfault < MaxFault /\ nfault' = nfault + 1

Mutate(t, k, del) ==
    /\ UNCHANGED hvars /\ EnvOK /\ nmut < MaxMut /\ (del => store[t][k] # 0)
    /\ LET r == nrev[t] + 1 IN
       /\ nrev' = [nrev EXCEPT ![t] = r]
       /\ evlog' = [evlog EXCEPT ![t] = Append(@, [rev |-> r, k |-> k, v |-> IF del THEN 0 ELSE r])]
       /\ P!Mut(t, k, IF del THEN 0 ELSE r)
    /\ nmut' = nmut + 1 /\ Tick
    /\ UNCHANGED <<cvars, rq, cstats, wsstat, started, nfault, bad>>

\* time.Since(lastSuccessfulConnTime) > watchRetryTimeout: the zero time is always "too long ago"
TimedOut(t) == RT = "always" \/ ~everconn[t]

ReplyList(t, how) ==
    /\ UNCHANGED hvars /\ EnvOK /\ pc[t] = "atList"
    /\ how \notin {"ok", "emptyrev"} => Fault
    /\ how \in {"ok", "emptyrev"} => UNCHANGED nfault
    \* "emptyrev": what a KDD backend answers for an EMPTY collection - no items and revision "" / "0" although the
    \* datastore has been written before; the cache cannot watch from it and polls
    /\ how = "emptyrev" => store[t] = ZeroK
    /\ CASE how \in {"ok", "emptyrev"} ->
              LET c0 == [Local(t) EXCEPT !.old = res[t], !.res = ZeroK]
                  c1 == IF c0.cstat = "wait" THEN StSend(c0, t, "resync") ELSE c0
                  c2 == Finish(HandleItems(c1, t, { k \in K : store[t][k] # 0 }), t)
                  zero == nrev[t] = 0 \/ how = "emptyrev"
                  c3 == IF zero THEN [c2 EXCEPT !.crev = 0] ELSE [c2 EXCEPT !.crev = nrev[t], !.ecount = 0]
              IN /\ Commit(t, c3)
                 /\ conn' = [conn EXCEPT ![t] = TRUE] /\ inst' = [inst EXCEPT ![t] = TRUE]
                 /\ lpoll' = [lpoll EXCEPT ![t] = zero] /\ wpoll' = [wpoll EXCEPT ![t] = IF zero THEN FALSE ELSE @]
                 /\ full' = [full EXCEPT ![t] = zero]
                 /\ pc' = [pc EXCEPT ![t] = IF zero THEN "sync" ELSE "atWatch"]
         [] how = "notinstalled" ->
              /\ Commit(t, Finish(Local(t), t))
              /\ lpoll' = [lpoll EXCEPT ![t] = FALSE] /\ wpoll' = [wpoll EXCEPT ![t] = FALSE]
              /\ inst' = [inst EXCEPT ![t] = FALSE] /\ conn' = [conn EXCEPT ![t] = TRUE]
              /\ pc' = [pc EXCEPT ![t] = "sync"] /\ UNCHANGED full
         [] how = "expired" ->
              /\ Commit(t, [Local(t) EXCEPT !.crev = 0, !.ecount = 0])
              /\ inst' = [inst EXCEPT ![t] = TRUE] /\ conn' = [conn EXCEPT ![t] = TRUE]
              /\ pc' = [pc EXCEPT ![t] = "sync"] /\ UNCHANGED <<full, lpoll, wpoll>>
         [] how = "err" ->
              /\ inst' = [inst EXCEPT ![t] = TRUE]
              /\ IF TimedOut(t)
                   THEN LET c1 == [Local(t) EXCEPT !.q = <<RErr(t)>>]
                            c2 == IF t \in SD THEN DelAll(c1, t) ELSE c1
                        IN /\ Commit(t, c2)
                           /\ conn' = [conn EXCEPT ![t] = FALSE]
                           /\ lpoll' = [lpoll EXCEPT ![t] = FALSE] /\ wpoll' = [wpoll EXCEPT ![t] = FALSE]
                   ELSE UNCHANGED <<rq, cstat, res, crev, ecount, conn, lpoll, wpoll>>
              /\ pc' = [pc EXCEPT ![t] = "sync"] /\ UNCHANGED full
    /\ everconn' = [everconn EXCEPT ![t] = @ \/ how \in {"ok", "emptyrev", "notinstalled", "expired"}]
    /\ P!ListAnswered(t, how \in {"ok", "emptyrev", "notinstalled"})
    /\ Tick
    /\ UNCHANGED <<wpos, nrev, evlog, cstats, wsstat, started, nmut, bad>>

ReplyWatch(t, how) ==
    /\ UNCHANGED hvars /\ EnvOK /\ pc[t] = "atWatch"
    /\ how # "ok" => Fault
    /\ how = "ok" => UNCHANGED nfault
    /\ CASE how = "ok" ->
              /\ pc' = [pc EXCEPT ![t] = "watching"] /\ wpos' = [wpos EXCEPT ![t] = crev[t]]
              /\ UNCHANGED <<crev, ecount, full, conn, lpoll, wpoll>>
         [] how = "expired" ->
              /\ crev' = [crev EXCEPT ![t] = 0] /\ ecount' = [ecount EXCEPT ![t] = 0]
              /\ conn' = [conn EXCEPT ![t] = TRUE]
              /\ lpoll' = [lpoll EXCEPT ![t] = FALSE] /\ wpoll' = [wpoll EXCEPT ![t] = FALSE]
              /\ pc' = [pc EXCEPT ![t] = "sync"] /\ UNCHANGED <<full, wpos>>
         [] how = "refused" ->
              /\ IF TimedOut(t)
                   THEN /\ crev' = [crev EXCEPT ![t] = 0] /\ ecount' = [ecount EXCEPT ![t] = 0]
                        /\ conn' = [conn EXCEPT ![t] = FALSE]
                        /\ lpoll' = [lpoll EXCEPT ![t] = FALSE] /\ wpoll' = [wpoll EXCEPT ![t] = FALSE]
                   ELSE UNCHANGED <<crev, ecount, conn, lpoll, wpoll>>
              /\ pc' = [pc EXCEPT ![t] = "sync"] /\ UNCHANGED <<full, wpos>>
         [] how = "notsupported" ->
              /\ wpoll' = [wpoll EXCEPT ![t] = TRUE] /\ lpoll' = [lpoll EXCEPT ![t] = FALSE]
              /\ full' = [full EXCEPT ![t] = TRUE]
              /\ pc' = [pc EXCEPT ![t] = "sync"] /\ UNCHANGED <<crev, ecount, conn, wpos>>
         [] how = "err" ->
              /\ ecount' = [ecount EXCEPT ![t] = @ + 1]
              /\ full' = [full EXCEPT ![t] = @ \/ ecount[t] + 1 >= MaxErr]
              /\ pc' = [pc EXCEPT ![t] = "sync"] /\ UNCHANGED <<crev, conn, lpoll, wpoll, wpos>>
    /\ everconn' = [everconn EXCEPT ![t] = @ \/ how = "expired"]
    /\ Tick
    /\ UNCHANGED <<cstat, res, inst, nrev, evlog, rq, cstats, wsstat, started, nmut, bad, store, view, status, listed>>

Pending(t) == { i \in 1..Len(evlog[t]) : evlog[t][i].rev > wpos[t] }

Deliver(t) ==
    /\ UNCHANGED hvars /\ EnvOK /\ pc[t] = "watching" /\ Pending(t) # {}
    /\ LET i == CHOOSE x \in Pending(t) : \A y \in Pending(t) : x <= y
           e == evlog[t][i]
       IN /\ Commit(t, Handle(Local(t), t, e.k, e.v, e.rev))
          /\ wpos' = [wpos EXCEPT ![t] = e.rev]
    /\ Tick
    /\ UNCHANGED <<pc, full, inst, lpoll, wpoll, conn, everconn, nrev, evlog, cstats, wsstat, started, nmut, nfault, bad,
                   store, view, status, listed>>

\* leaving loopReadingFromWatcher: a fresh maybeResyncAndCreateWatcher starts with performFullResync = false
WEvent(t, kind) ==
    /\ UNCHANGED hvars /\ EnvOK /\ pc[t] = "watching" /\ Fault
    /\ CASE kind = "bookmark" ->
              /\ Pending(t) = {}
              /\ crev' = [crev EXCEPT ![t] = nrev[t]] /\ ecount' = [ecount EXCEPT ![t] = 0]
              /\ UNCHANGED <<pc, full>>
         [] kind = "expired" ->
              /\ crev' = [crev EXCEPT ![t] = 0] /\ ecount' = [ecount EXCEPT ![t] = 0]
              /\ pc' = [pc EXCEPT ![t] = "sync"] /\ full' = [full EXCEPT ![t] = FALSE]
         [] kind = "error" ->
              /\ IF ecount[t] + 1 >= MaxErr
                   THEN crev' = [crev EXCEPT ![t] = 0] /\ ecount' = [ecount EXCEPT ![t] = 0]
                   ELSE ecount' = [ecount EXCEPT ![t] = @ + 1] /\ UNCHANGED crev
              /\ pc' = [pc EXCEPT ![t] = "sync"] /\ full' = [full EXCEPT ![t] = FALSE]
         [] kind = "closed" ->
              /\ pc' = [pc EXCEPT ![t] = "sync"] /\ full' = [full EXCEPT ![t] = FALSE]
              /\ UNCHANGED <<crev, ecount>>
    /\ Tick
    /\ UNCHANGED <<cstat, res, inst, lpoll, wpoll, conn, everconn, wpos, nrev, evlog, rq, cstats, wsstat, started, nmut, bad,
                   store, view, status, listed>>

ListHows == {"ok", "emptyrev", "err", "notinstalled", "expired"}
WatchHows == {"ok", "err", "expired", "refused", "notsupported"}
WKinds == {"bookmark", "expired", "error", "closed"}

Next ==
    \/ SyncerStart
    \/ SyncerPop
    \/ (EnvOK /\ Hold /\ Tick) \/ (EnvOK /\ Release /\ Tick)
    \/ \E t \in T : CacheSync(t)
    \/ \E t \in T, k \in K, d \in BOOLEAN : Mutate(t, k, d)
    \/ \E t \in T, h \in ListHows : ReplyList(t, h)
    \/ \E t \in T, h \in WatchHows : ReplyWatch(t, h)
    \/ \E t \in T : Deliver(t)
    \/ \E t \in T, kd \in WKinds : WEvent(t, kd)

Spec == Init /\ [][Next]_vars

\* ---- I => P ------------------------------------------------------------------------------------------------------------
PropertyHolds == ~bad
\* the environment is quiet: every watch open and drained, nothing in flight
\* a type is quiet when its watch is open and drained, or when it is polling an empty collection that answers with a
\* zero revision (no watch can be opened from that; the last List showed exactly the present - empty - content)
PollQuiet(t) == pc[t] = "atList" /\ lpoll[t] /\ store[t] = ZeroK
Quiet == Stable /\ rq = <<>> /\ ubuf = <<>> /\ held = "no"
         /\ \A t \in T : (pc[t] = "watching" /\ Pending(t) = {}) \/ PollQuiet(t)
Converged == Quiet => P!ConvergedOK
\* implementation sanity: the cache's map is what the stream said, once the results channel is drained
CacheIsView == (Stable /\ rq = <<>> /\ ubuf = <<>>) => \A t \in T : res[t] = view[t]
=============================================================================
