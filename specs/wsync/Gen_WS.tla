------------------------------- MODULE Gen_WS -------------------------------
(* Behaviour generator for C26 (leg A): I_WS's environment decisions with their history.  A behaviour is
   a script for the harness datastore: mutate a key, answer the pending List/Watch call of a type in a
   given way, deliver the next pending watch event, inject a watch error/expiry/bookmark/close.  The
   decisions never presuppose what the syncer does next, so a script is valid against any syncer.
   The first record carries the per-run configuration (watchRetryTimeout regime, SendDeletesOnConnFail). *)
EXTENDS I_WS, Json

CONSTANTS SimLen, WReply, WDeliver
VARIABLE hist
gvars == <<vars, hist>>

GInit == Init /\ hist = <<[op |-> "cfg", rt |-> RT, sd |-> SD]>>
Step(a, r) == a /\ hist' = Append(hist, r)

GNext ==
  \/ /\ Len(hist) = SimLen + 1 /\ hist' = Append(hist, [op |-> "end"]) /\ UNCHANGED vars
  \/ /\ Len(hist) < SimLen + 1
     /\ \/ (SyncerStart \/ SyncerPop \/ \E t \in T : CacheSync(t)) /\ UNCHANGED hist
        \/ \E t \in T, k \in K, d \in BOOLEAN : Step(Mutate(t, k, d), [op |-> "mut", t |-> t, k |-> k, del |-> d])
        \/ \E t \in T, h \in ListHows : \E w \in 1..(IF h = "ok" THEN WReply ELSE 1) :
              Step(ReplyList(t, h), [op |-> "reply", t |-> t, how |-> h])
        \/ \E t \in T, h \in WatchHows : \E w \in 1..(IF h = "ok" THEN WReply ELSE 1) :
              Step(ReplyWatch(t, h), [op |-> "reply", t |-> t, how |-> h])
        \/ \E t \in T, w \in 1..WDeliver : Step(Deliver(t), [op |-> "deliver", t |-> t])
        \/ \E t \in T, kd \in WKinds : Step(WEvent(t, kd), [op |-> "wev", t |-> t, kind |-> kd])
        \/ Step(EnvOK /\ Hold /\ Tick, [op |-> "hold"])
        \/ Step(EnvOK /\ Release /\ Tick, [op |-> "release"])

GView == vars
EmitEdge == (hist' # hist) => PrintT("BEH " \o ToJson(hist'))
EmitAtLen == Len(hist) = SimLen + 2 => PrintT("BEH " \o ToJson(hist))
=============================================================================
