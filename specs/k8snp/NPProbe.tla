------------------------------ MODULE NPProbe ------------------------------
(* C29: the probe connections of a case (computed in TLA+ from the Kubernetes side of the case only) and
   the property itself:  for every probe connection,
        K8sNP!Allowed(cluster, policies, conn)  =  CalicoPol!Allowed(converted world, converted policies, conn).

   Probe addresses: every pod address, the cluster's external addresses, and for every CIDR written in
   an ipBlock (cidr and every except): its first and last address and the addresses one below / one
   above.  Probe ports: for every numeric port p (and endPort e) of the policies p-1, p, p+1 (e-1, e, e+1),
   every container port number of the cluster, and 1 and 65535.  Protocols TCP, UDP, SCTP.
   Connections: all ordered pairs of distinct probe addresses of one family of which at least one is a pod. *)
EXTENDS Integers, Sequences, FiniteSets, TLC

K == INSTANCE K8sNP
C == INSTANCE CalicoPol
N == INSTANCE Nets

LOCAL SetOf(s) == { s[i] : i \in DOMAIN s }
LOCAL Has(r, f) == f \in DOMAIN r

\* ---- address arithmetic on octet sequences ---------------------------------------------------------------
RECURSIVE Bump(_, _, _)
\* add d (+1 / -1) to the octet sequence a starting at position i (least significant = last); <<>> on overflow
Bump(a, i, d) ==
    IF i = 0 THEN <<>>
    ELSE IF a[i] + d \in 0..255 THEN [a EXCEPT ![i] = a[i] + d]
    ELSE Bump([a EXCEPT ![i] = IF d = 1 THEN 0 ELSE 255], i - 1, d)
AddrSucc(a) == Bump(a, Len(a), 1)
AddrPred(a) == Bump(a, Len(a), -1)
Edges(c) == { N!FirstAddr(c), N!LastAddr(c), AddrPred(N!FirstAddr(c)), AddrSucc(N!LastAddr(c)) } \ { <<>> }

\* ---- probes ------------------------------------------------------------------------------------------------
AllRules(nps) == UNION { SetOf(nps[i].ingress) \cup SetOf(nps[i].egress) : i \in DOMAIN nps }
BlocksOf(nps) == { p.ipBlock : p \in { q \in UNION { SetOf(r.peers) : r \in AllRules(nps) } : Has(q, "ipBlock") } }
CIDRsOf(nps) == UNION { {b.cidr} \cup SetOf(b.except) : b \in BlocksOf(nps) }
PortEntries(nps) == UNION { SetOf(r.ports) : r \in AllRules(nps) }

PodAddrs(cl) == UNION { SetOf(p.ips) : p \in SetOf(cl.pods) }
ProbeAddrs(cl, nps) == PodAddrs(cl) \cup SetOf(cl.ext) \cup UNION { Edges(c) : c \in CIDRsOf(nps) }
ProbePorts(cl, nps) ==
    ( {1, 65535}
      \cup UNION { {e.port - 1, e.port, e.port + 1} : e \in { x \in PortEntries(nps) : Has(x, "port") } }
      \cup UNION { {e.end - 1, e.end, e.end + 1} : e \in { x \in PortEntries(nps) : Has(x, "end") } }
      \cup UNION { { p.ports[i].port : i \in DOMAIN p.ports } : p \in SetOf(cl.pods) } )
    \cap 1..65535

\* the binding between the two vocabularies of protocol names
CProto == [p \in K!Protocols |-> CASE p = "TCP" -> "tcp" [] p = "UDP" -> "udp" [] p = "SCTP" -> "sctp"]

Pairs(cl, nps) ==
    { <<s, d>> \in ProbeAddrs(cl, nps) \X ProbeAddrs(cl, nps) :
        s # d /\ Len(s) = Len(d) /\ (s \in PodAddrs(cl) \/ d \in PodAddrs(cl)) }

KConn(s, d, pt, pr) == [src |-> s, dst |-> d, port |-> pt, proto |-> pr]
CConn(s, d, pt, pr) == [src |-> s, dst |-> d, port |-> pt, proto |-> CProto[pr]]

\* ---- the property ---------------------------------------------------------------------------------------------
Judged(cl, nps, defaulted) == K!ClusterOK(cl) /\ \A i \in DOMAIN nps : K!PolicyOK(nps[i], defaulted)

\* one converted policy per NetworkPolicy, in the same sequence, each with a meaning
ConvertedOK(nps, w, pols) ==
    /\ Len(pols) = Len(nps)
    /\ C!WorldOK(w)
    /\ \A i \in DOMAIN pols : C!PolicyOK(pols[i])

\* The plain statement for one connection ...
ConnAgrees(cl, nps, w, pols, s, d, pt, pr) ==
    \/ K!Unspecified(cl, nps, KConn(s, d, pt, pr))
    \/ /\ C!Decidable(w, pols, CConn(s, d, pt, pr))
       /\ K!Allowed(cl, nps, KConn(s, d, pt, pr)) = C!Allowed(w, pols, CConn(s, d, pt, pr))

\* ... and the same statement for all probe connections, evaluated with memoised parts (TLCEval = evaluate
\* now into an explicit function, do not re-evaluate at every use): the port halves of all rules are
\* tabulated once per destination address, the address halves once per (source, destination) pair.
\* K!DirAllowedG, C!TierVerdictG and C!ProfileVerdictG are the very operators the plain forms are instances
\* of; only the halves of the rules are looked up instead of recomputed.  On `spot` (a set of
\* (port, protocol) combinations) and one source per destination the plain statement is evaluated as well
\* and must give the same answer - a disagreement is a defect of these specifications, reported as
\* C29_SPECBUG, never as a verdict about the code.
DstTables(cl, nps, w, pols, ix, pp, d) ==
    [ kI |-> TLCEval([i \in DOMAIN nps |-> TLCEval([j \in DOMAIN nps[i].ingress |->
                TLCEval([x \in pp |-> K!RulePorts(cl, nps[i].ingress[j], d, x[1], x[2])])])]),
      kE |-> TLCEval([i \in DOMAIN nps |-> TLCEval([j \in DOMAIN nps[i].egress |->
                TLCEval([x \in pp |-> K!RulePorts(cl, nps[i].egress[j], d, x[1], x[2])])])]),
      cI |-> TLCEval([i \in DOMAIN pols |-> TLCEval([j \in DOMAIN pols[i].inb |->
                TLCEval([x \in pp |-> C!RulePorts(w, ix, pols[i].inb[j], d, x[1], CProto[x[2]])])])]),
      cE |-> TLCEval([i \in DOMAIN pols |-> TLCEval([j \in DOMAIN pols[i].outb |->
                TLCEval([x \in pp |-> C!RulePorts(w, ix, pols[i].outb[j], d, x[1], CProto[x[2]])])])]),
      pI |-> TLCEval([q \in DOMAIN w.profiles |-> TLCEval([j \in DOMAIN w.profiles[q].inb |->
                TLCEval([x \in pp |-> C!RulePorts(w, ix, w.profiles[q].inb[j], d, x[1], CProto[x[2]])])])]),
      pE |-> TLCEval([q \in DOMAIN w.profiles |-> TLCEval([j \in DOMAIN w.profiles[q].outb |->
                TLCEval([x \in pp |-> C!RulePorts(w, ix, w.profiles[q].outb[j], d, x[1], CProto[x[2]])])])]) ]

PairOK(cl, nps, w, pols, ix, pp, T, s, d, spot) ==
    LET sp == K!PodAt(cl, s)
        dp == K!PodAt(cl, d)
        se == C!EpAt(w, s)
        de == C!EpAt(w, d)
        unspec == K!UnspecifiedPair(cl, nps, s, d)
        kGovE == TLCEval([i \in DOMAIN nps |-> \A p \in sp : K!Governs(nps[i], p, "Egress")])
        kGovI == TLCEval([i \in DOMAIN nps |-> \A p \in dp : K!Governs(nps[i], p, "Ingress")])
        kPeerE == TLCEval([i \in DOMAIN nps |-> TLCEval([j \in DOMAIN nps[i].egress |-> K!RulePeers(cl, nps[i], nps[i].egress[j], d)])])
        kPeerI == TLCEval([i \in DOMAIN nps |-> TLCEval([j \in DOMAIN nps[i].ingress |-> K!RulePeers(cl, nps[i], nps[i].ingress[j], s)])])
        cAppE == TLCEval([i \in DOMAIN pols |-> TLCEval([e \in se |-> C!Applies(ix, pols[i], e, "egress")])])
        cAppI == TLCEval([i \in DOMAIN pols |-> TLCEval([e \in de |-> C!Applies(ix, pols[i], e, "ingress")])])
        cAddrE == TLCEval([i \in DOMAIN pols |-> TLCEval([j \in DOMAIN pols[i].outb |-> C!RuleAddr(w, ix, pols[i].outb[j], s, d)])])
        cAddrI == TLCEval([i \in DOMAIN pols |-> TLCEval([j \in DOMAIN pols[i].inb |-> C!RuleAddr(w, ix, pols[i].inb[j], s, d)])])
        pAddrE == TLCEval([q \in DOMAIN w.profiles |-> TLCEval([j \in DOMAIN w.profiles[q].outb |-> C!RuleAddr(w, ix, w.profiles[q].outb[j], s, d)])])
        pAddrI == TLCEval([q \in DOMAIN w.profiles |-> TLCEval([j \in DOMAIN w.profiles[q].inb |-> C!RuleAddr(w, ix, w.profiles[q].inb[j], s, d)])])
        KV(x) ==
            /\ sp # {} => K!DirAllowedG(nps, "Egress", LAMBDA i : kGovE[i], LAMBDA i, j : kPeerE[i][j], LAMBDA i, j : T.kE[i][j][x])
            /\ dp # {} => K!DirAllowedG(nps, "Ingress", LAMBDA i : kGovI[i], LAMBDA i, j : kPeerI[i][j], LAMBDA i, j : T.kI[i][j][x])
        CV1(e, dir, x) ==
            LET t == IF dir = "egress"
                     THEN C!TierVerdictG(pols, dir, LAMBDA i : cAppE[i][e], LAMBDA i, j : cAddrE[i][j], LAMBDA i, j : T.cE[i][j][x])
                     ELSE C!TierVerdictG(pols, dir, LAMBDA i : cAppI[i][e], LAMBDA i, j : cAddrI[i][j], LAMBDA i, j : T.cI[i][j][x])
            IN IF t # "none" THEN t
               ELSE IF dir = "egress"
                    THEN C!ProfileVerdictG(w, e, dir, LAMBDA q, j : pAddrE[q][j], LAMBDA q, j : T.pE[q][j][x])
                    ELSE C!ProfileVerdictG(w, e, dir, LAMBDA q, j : pAddrI[q][j], LAMBDA q, j : T.pI[q][j][x])
        CVs(x) == { CV1(e, "egress", x) : e \in se } \cup { CV1(e, "ingress", x) : e \in de }
        Diff(x, kv, cvs) ==
            PrintT(<<"C29_DIFF", [src |-> s, dst |-> d, port |-> x[1], proto |-> x[2], kubernetes |-> kv, calico |-> cvs]>>)
    IN \A x \in pp :
          LET kv == KV(x)
              cvs == CVs(x)
              ok == unspec \/ ("ambiguous" \notin cvs /\ kv = (cvs \subseteq {"allow"}))
          IN /\ ok \/ (Diff(x, kv, cvs) /\ FALSE)
             /\ x \in spot =>
                   \/ ok = ConnAgrees(cl, nps, w, pols, s, d, x[1], x[2])
                   \/ PrintT(<<"C29_SPECBUG", s, d, x, ok>>) /\ FALSE

CaseOK(cl, nps, w, pols, defaulted) ==
    Judged(cl, nps, defaulted) =>
        /\ ConvertedOK(nps, w, pols) \/ (PrintT(<<"C29_DIFF", "converted objects outside the specified model">>) /\ FALSE)
        /\ LET ix == TLCEval(C!Index(w))
               ports == ProbePorts(cl, nps)
               pp == ports \X K!Protocols
               addrs == ProbeAddrs(cl, nps)
               pods == PodAddrs(cl)
               \* spot checks: the extremes of the port set with two protocols
               spot == { <<CHOOSE x \in ports : \A y \in ports : x <= y, "TCP">>,
                         <<CHOOSE x \in ports : \A y \in ports : x >= y, "UDP">> }
           IN \A d \in addrs :
                 LET T == DstTables(cl, nps, w, pols, ix, pp, d)
                     srcs == { s \in addrs : s # d /\ Len(s) = Len(d) /\ (s \in pods \/ d \in pods) }
                     s0 == CHOOSE s \in srcs : TRUE
                 IN \A s \in srcs : PairOK(cl, nps, w, pols, ix, pp, T, s, d, IF s = s0 THEN spot ELSE {})

NConns(cl, nps) == Cardinality(Pairs(cl, nps)) * Cardinality(ProbePorts(cl, nps)) * Cardinality(K!Protocols)
=============================================================================
