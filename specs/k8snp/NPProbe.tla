------------------------------ MODULE NPProbe ------------------------------
(* C29: the probe connections of a case (computed in TLA+ from the Kubernetes side of the case only) and
   the property itself:  for every probe connection,
        K8sNP!Allowed(cluster, policies, conn)  =  CalicoPol!Allowed(converted world, converted policies, conn).

   Probe addresses: every pod address, the cluster's external addresses, and for every CIDR written in
   an ipBlock (cidr and every except): its first and last address and the addresses one below / one
   above.  Probe ports: for every numeric port p (and endPort e) of the policies p-1, p, p+1 (e-1, e, e+1),
   every container port number of the cluster, and 1 and 65535.  Protocols TCP, UDP, SCTP.
   Connections: all ordered pairs of distinct probe addresses of one family of which at least one is a pod. *)
EXTENDS Integers, Sequences, FiniteSets, TLC

K == INSTANCE K8sNP
C == INSTANCE CalicoPol
N == INSTANCE Nets

LOCAL SetOf(s) == { s[i] : i \in DOMAIN s }
LOCAL Has(r, f) == f \in DOMAIN r

\* ---- address arithmetic on octet sequences ---------------------------------------------------------------
RECURSIVE Bump(_, _, _)
\* add d (+1 / -1) to the octet sequence a starting at position i (least significant = last); <<>> on overflow
Bump(a, i, d) ==
    IF i = 0 THEN <<>>
    ELSE IF a[i] + d \in 0..255 THEN [a EXCEPT ![i] = a[i] + d]
    ELSE Bump([a EXCEPT ![i] = IF d = 1 THEN 0 ELSE 255], i - 1, d)
AddrSucc(a) == Bump(a, Len(a), 1)
AddrPred(a) == Bump(a, Len(a), -1)
Edges(c) == { N!FirstAddr(c), N!LastAddr(c), AddrPred(N!FirstAddr(c)), AddrSucc(N!LastAddr(c)) } \ { <<>> }

\* ---- probes ------------------------------------------------------------------------------------------------
AllRules(nps) == UNION { SetOf(nps[i].ingress) \cup SetOf(nps[i].egress) : i \in DOMAIN nps }
BlocksOf(nps) == { p.ipBlock : p \in { q \in UNION { SetOf(r.peers) : r \in AllRules(nps) } : Has(q, "ipBlock") } }
CIDRsOf(nps) == UNION { {b.cidr} \cup SetOf(b.except) : b \in BlocksOf(nps) }
PortEntries(nps) == UNION { SetOf(r.ports) : r \in AllRules(nps) }

PodAddrs(cl) == UNION { SetOf(p.ips) : p \in SetOf(cl.pods) }
ProbeAddrs(cl, nps) == PodAddrs(cl) \cup SetOf(cl.ext) \cup UNION { Edges(c) : c \in CIDRsOf(nps) }
ProbePorts(cl, nps) ==
    ( {1, 65535}
      \cup UNION { {e.port - 1, e.port, e.port + 1} : e \in { x \in PortEntries(nps) : Has(x, "port") } }
      \cup UNION { {e.end - 1, e.end, e.end + 1} : e \in { x \in PortEntries(nps) : Has(x, "end") } }
      \cup UNION { { p.ports[i].port : i \in DOMAIN p.ports } : p \in SetOf(cl.pods) } )
    \cap 1..65535

\* the binding between the two vocabularies of protocol names
CProto == [p \in K!Protocols |-> CASE p = "TCP" -> "tcp" [] p = "UDP" -> "udp" [] p = "SCTP" -> "sctp"]

Pairs(cl, nps) ==
    { <<s, d>> \in ProbeAddrs(cl, nps) \X ProbeAddrs(cl, nps) :
        s # d /\ Len(s) = Len(d) /\ (s \in PodAddrs(cl) \/ d \in PodAddrs(cl)) }

KConn(s, d, pt, pr) == [src |-> s, dst |-> d, port |-> pt, proto |-> pr]
CConn(s, d, pt, pr) == [src |-> s, dst |-> d, port |-> pt, proto |-> CProto[pr]]

\* ---- the property ---------------------------------------------------------------------------------------------
Judged(cl, nps, defaulted) == K!ClusterOK(cl) /\ \A i \in DOMAIN nps : K!PolicyOK(nps[i], defaulted)

ConnOK(cl, nps, w, pols, s, d, pt, pr) ==
    \/ K!Unspecified(cl, nps, KConn(s, d, pt, pr))
    \/ LET kv == K!Allowed(cl, nps, KConn(s, d, pt, pr))
           cc == CConn(s, d, pt, pr)
       IN IF C!Decidable(w, pols, cc) /\ kv = C!Allowed(w, pols, cc) THEN TRUE
          ELSE PrintT(<<"C29_DIFF", [src |-> s, dst |-> d, port |-> pt, proto |-> pr, kubernetes |-> kv,
                                      calico |-> IF C!Decidable(w, pols, cc) THEN C!Allowed(w, pols, cc) ELSE "undecidable"]>>) /\ FALSE

\* one converted policy per NetworkPolicy, in the same sequence, each with a meaning
ConvertedOK(nps, w, pols) ==
    /\ Len(pols) = Len(nps)
    /\ C!WorldOK(w)
    /\ \A i \in DOMAIN pols : C!PolicyOK(pols[i])

CaseOK(cl, nps, w, pols, defaulted) ==
    Judged(cl, nps, defaulted) =>
        /\ ConvertedOK(nps, w, pols) \/ (PrintT(<<"C29_DIFF", "converted objects outside the specified model">>) /\ FALSE)
        /\ \A sd \in Pairs(cl, nps) : \A pt \in ProbePorts(cl, nps) : \A pr \in K!Protocols :
              ConnOK(cl, nps, w, pols, sd[1], sd[2], pt, pr)

NConns(cl, nps) == Cardinality(Pairs(cl, nps)) * Cardinality(ProbePorts(cl, nps)) * Cardinality(K!Protocols)
=============================================================================
