----------------------------- MODULE CalicoPol -----------------------------
(* C29, Calico side: the meaning of backend-model policies (libcalico-go/lib/backend/model Policy / Rule)
   applied to workload endpoints, as Felix's calculation graph and dataplanes implement it (and as the
   Calico policy reference documents it):

   * An endpoint's effective labels are its own labels plus the labels of its profiles
     (ProfileLabels; own labels win).  For a Kubernetes pod the converter gives the endpoint the pod's
     labels + projectcalico.org/namespace + projectcalico.org/orchestrator (+ serviceaccount) and strips
     pcns./pcsa. prefixed labels; the namespace profile kns.<ns> contributes pcns.<label> for every
     namespace label and pcns.projectcalico.org/name.
   * A policy applies to an endpoint iff its selector matches the effective labels; it applies to a
     direction iff that direction is in Types (no Types = both).
   * Within the (single, "default") tier, applicable policies are evaluated in Order; within a policy the
     rules of the direction in sequence; the first matching rule decides (allow / deny).  If at least one
     policy applies and no rule matches: end-of-tier deny.  If no policy applies: the endpoint's profiles
     in sequence, first matching rule decides, no match = deny.
   * A rule matches iff ALL its present match criteria hold: protocol; src/dst nets (address in some
     net), negated nets (address in none); src/dst selector (the address belongs to an endpoint whose
     effective labels match); destination ports: a numeric range containing the port, OR a named port:
     the destination address belongs to an endpoint (matching the destination selector if there is one)
     that exposes a port of that name, of the rule's protocol and of that number.
   * A connection needs the source endpoint's egress verdict and the destination endpoint's ingress
     verdict; an address that belongs to no endpoint is not policed.

   Value shapes (JSON projected by harness/cmd/k8snp from the real model objects, pure syntax):
     world   [eps: <<EP>>, profiles: <<[name, labels, inb: <<RULE>>, outb: <<RULE>>]>>]
     EP      [nets: <<CIDR>>, labels, profiles: <<name>>, ports: <<[name, proto | protoNum, port]>>]
     policy  [name, ns, tier, order?, sel: AST, types: <<"ingress"|"egress">>, inb, outb, flags]
     RULE    [action, proto? | protoNum?, srcSel?: AST, dstSel?: AST, srcNets, dstNets, notSrcNets,
              notDstNets: <<CIDR>>, dstPorts: <<[lo, hi] | [name]>>, other: <<names of further non-zero fields>>]
   Selector ASTs are evaluated by Selectors!Eval.                                                  *)
EXTENDS Integers, Sequences, FiniteSets, Nets, Selectors

LOCAL SetOf(s) == { s[i] : i \in DOMAIN s }
LOCAL Has(r, f) == f \in DOMAIN r
LOCAL NoCT == [x \in {} |-> <<>>]          \* no sub-string operators can be evaluated (see SelOK)
LOCAL NoLabels == [x \in {} |-> ""]

ProtoOfNum == [n \in {6, 17, 132} |-> CASE n = 6 -> "tcp" [] n = 17 -> "udp" [] n = 132 -> "sctp"]
PortProtocols == {"tcp", "udp", "sctp"}
\* protocol of a rule / endpoint port as a lower-case name, "" when absent, "?" when not a port protocol
ProtoOf(r) == IF Has(r, "proto") THEN r.proto
              ELSE IF Has(r, "protoNum") THEN (IF r.protoNum \in DOMAIN ProtoOfNum THEN ProtoOfNum[r.protoNum] ELSE "?")
              ELSE ""

\* ---- endpoints -----------------------------------------------------------------------------------
\* endpoints are referred to by their position in w.eps
EpAt(w, ip) == { i \in DOMAIN w.eps : \E k \in DOMAIN w.eps[i].nets : ContainsAddr(w.eps[i].nets[k], ip) }
ProfilesNamed(w, n) == { p \in SetOf(w.profiles) : p.name = n }
ProfileLabels(w, n) == IF ProfilesNamed(w, n) = {} THEN NoLabels ELSE (CHOOSE p \in ProfilesNamed(w, n) : TRUE).labels
\* the parents' label prefixes (pcns. / pcsa.) are disjoint, so the precedence among parents is immaterial
EffL(w, e) == EffLabels(e.labels, [i \in DOMAIN e.profiles |-> ProfileLabels(w, e.profiles[i])], FALSE)
\* Index(w): the effective labels of every endpoint.  Every operator below takes it as `ix` so that a caller
\* can compute it once (TLCEval); the plain forms at the end of the module compute it themselves.
Index(w) == [eff |-> [i \in DOMAIN w.eps |-> EffL(w, w.eps[i])]]

\* ---- rules -----------------------------------------------------------------------------------------
InSomeNet(nets, ip) == \E i \in DOMAIN nets : ContainsAddr(nets[i], ip)
SelHolds(w, ix, sel, ip) == \E i \in EpAt(w, ip) : Eval(sel, ix.eff[i], NoCT)

\* the address half of a rule ...
RuleAddr(w, ix, r, src, dst) ==
    /\ r.srcNets = <<>> \/ InSomeNet(r.srcNets, src)
    /\ r.dstNets = <<>> \/ InSomeNet(r.dstNets, dst)
    /\ ~InSomeNet(r.notSrcNets, src)
    /\ ~InSomeNet(r.notDstNets, dst)
    /\ Has(r, "srcSel") => SelHolds(w, ix, r.srcSel, src)
    /\ Has(r, "dstSel") => SelHolds(w, ix, r.dstSel, dst)

\* ... and its protocol / port half
RulePorts(w, ix, r, dst, port, proto) ==
    /\ ProtoOf(r) = "" \/ ProtoOf(r) = proto
    /\ \/ r.dstPorts = <<>>
       \/ \E i \in DOMAIN r.dstPorts :
             LET pp == r.dstPorts[i] IN
             IF Has(pp, "name")
             THEN \E k \in EpAt(w, dst) :
                     /\ Has(r, "dstSel") => Eval(r.dstSel, ix.eff[k], NoCT)
                     /\ \E j \in DOMAIN w.eps[k].ports :
                           LET ep == w.eps[k].ports[j] IN ep.name = pp.name /\ ProtoOf(ep) = ProtoOf(r) /\ ep.port = port
             ELSE pp.lo <= port /\ port <= pp.hi

\* conn = [src, dst: addr, port: 1..65535, proto \in PortProtocols]
RuleMatch(w, ix, r, conn) == RuleAddr(w, ix, r, conn.src, conn.dst) /\ RulePorts(w, ix, r, conn.dst, conn.port, conn.proto)

LOCAL MinOf(S) == CHOOSE i \in S : \A j \in S : i <= j

\* ---- policies ----------------------------------------------------------------------------------------
PolTypes(pol) == IF pol.types = <<>> THEN {"ingress", "egress"} ELSE SetOf(pol.types)
RulesOf(x, dir) == IF dir = "ingress" THEN x.inb ELSE x.outb
Ord(pol) == IF Has(pol, "order") THEN pol.order ELSE 2147483647          \* no order = last
Applies(ix, pol, e, dir) == dir \in PolTypes(pol) /\ Eval(pol.sel, ix.eff[e], NoCT)

\* profiles of endpoint e in sequence, first matching rule decides, no match = deny.  Generic form:
\* AddrOK(q, j) / PortOK(q, j) - the two halves of rule j (direction dir) of profile w.profiles[q] match.
ProfIdx(w, n) == { q \in DOMAIN w.profiles : w.profiles[q].name = n }
ProfileVerdictG(w, e, dir, AddrOK(_, _), PortOK(_, _)) ==
    LET profs == w.eps[e].profiles
        hit(i) == IF ProfIdx(w, profs[i]) = {} THEN {}           \* a profile that does not exist has no rules
                  ELSE LET q == MinOf(ProfIdx(w, profs[i]))
                       IN { j \in DOMAIN RulesOf(w.profiles[q], dir) : AddrOK(q, j) /\ PortOK(q, j) }
        hits == { i \in DOMAIN profs : hit(i) # {} }
    IN IF hits = {} THEN "deny"
       ELSE LET i == MinOf(hits)
                q == MinOf(ProfIdx(w, profs[i]))
            IN IF RulesOf(w.profiles[q], dir)[MinOf(hit(i))].action = "allow" THEN "allow" ELSE "deny"
ProfileVerdict(w, ix, e, dir, conn) ==
    ProfileVerdictG(w, e, dir,
                    LAMBDA q, j : RuleAddr(w, ix, RulesOf(w.profiles[q], dir)[j], conn.src, conn.dst),
                    LAMBDA q, j : RulePorts(w, ix, RulesOf(w.profiles[q], dir)[j], conn.dst, conn.port, conn.proto))

\* The verdict of the policies of the tier for one endpoint and direction, in generic form:
\* App(i) - policy i applies to the endpoint for dir; AddrOK(i, j) / PortOK(i, j) - the two halves of rule j of
\* policy i match.  Result: "none" (no policy applies: profiles decide), "allow", "deny" (a deny rule, or no
\* rule matched: end of tier), or "ambiguous": policies of equal Order are ordered by name, which this
\* specification does not model - it is only well defined when their first matching rules agree.
TierVerdictG(pols, dir, App(_), AddrOK(_, _), PortOK(_, _)) ==
    LET app == { i \in DOMAIN pols : App(i) }
        hit(i) == { j \in DOMAIN RulesOf(pols[i], dir) : AddrOK(i, j) /\ PortOK(i, j) }
        hits == { i \in app : hit(i) # {} }
        first == { i \in hits : \A k \in hits : Ord(pols[i]) <= Ord(pols[k]) }
        actions == { RulesOf(pols[i], dir)[MinOf(hit(i))].action : i \in first }
    IN IF app = {} THEN "none"
       ELSE IF actions = {} THEN "deny"
       ELSE IF actions = {"allow"} THEN "allow"
       ELSE IF actions = {"deny"} THEN "deny"
       ELSE "ambiguous"

TierVerdict(w, ix, pols, e, dir, conn) ==
    TierVerdictG(pols, dir,
                 LAMBDA i : Applies(ix, pols[i], e, dir),
                 LAMBDA i, j : RuleAddr(w, ix, RulesOf(pols[i], dir)[j], conn.src, conn.dst),
                 LAMBDA i, j : RulePorts(w, ix, RulesOf(pols[i], dir)[j], conn.dst, conn.port, conn.proto))

\* "allow" / "deny" / "ambiguous"
Verdict(w, ix, pols, e, dir, conn) ==
    LET t == TierVerdict(w, ix, pols, e, dir, conn)
    IN IF t = "none" THEN ProfileVerdict(w, ix, e, dir, conn) ELSE t

\* the verdicts of all the endpoints the connection passes
Verdicts(w, ix, pols, conn) ==
    { Verdict(w, ix, pols, e, "egress", conn) : e \in EpAt(w, conn.src) }
    \cup { Verdict(w, ix, pols, e, "ingress", conn) : e \in EpAt(w, conn.dst) }

\* plain forms
Decidable(w, pols, conn) == "ambiguous" \notin Verdicts(w, Index(w), pols, conn)
Allowed(w, pols, conn) == Verdicts(w, Index(w), pols, conn) \subseteq {"allow"}

\* ---- objects that have a meaning in this specification ------------------------------------------------
\* (anything else produced by the converter is rejected: its meaning would be outside what was specified)
RECURSIVE SelOK(_)
SelOK(n) ==
    CASE n.op \in {"all", "global", "eq", "ne", "in", "notin", "has"} -> TRUE
      [] n.op = "not" -> SelOK(n.a)
      [] n.op \in {"and", "or"} -> \A i \in DOMAIN n.args : SelOK(n.args[i])
      [] OTHER -> FALSE            \* unparseable selector, sub-string operators
NetOK(c) == c.n >= 0 /\ Len(c.a) \in {4, 16} /\ c.n <= 8 * Len(c.a)
RuleOK(r) ==
    /\ r.other = <<>>
    /\ r.action \in {"allow", "deny"}
    /\ ProtoOf(r) # "?"
    \* Calico's validation: ports can only be matched together with a protocol that has ports
    /\ r.dstPorts # <<>> => ProtoOf(r) \in PortProtocols
    /\ \A i \in DOMAIN r.dstPorts : Has(r.dstPorts[i], "name") \/ (1 <= r.dstPorts[i].lo /\ r.dstPorts[i].lo <= r.dstPorts[i].hi)
    /\ Has(r, "srcSel") => SelOK(r.srcSel)
    /\ Has(r, "dstSel") => SelOK(r.dstSel)
    /\ \A f \in {"srcNets", "dstNets", "notSrcNets", "notDstNets"} : \A i \in DOMAIN r[f] : NetOK(r[f][i])
PolicyOK(pol) ==
    /\ ~Has(pol, "missing")
    /\ pol.tier = "default"
    /\ pol.flags = <<>>
    /\ Has(pol, "order") => pol.order >= 0
    /\ SetOf(pol.types) \subseteq {"ingress", "egress"}
    /\ SelOK(pol.sel)
    /\ \A i \in DOMAIN pol.inb : RuleOK(pol.inb[i])
    /\ \A i \in DOMAIN pol.outb : RuleOK(pol.outb[i])
WorldOK(w) ==
    /\ \A e \in SetOf(w.eps) : ~Has(e, "error") /\ \A i \in DOMAIN e.nets : NetOK(e.nets[i])
    /\ \A p \in SetOf(w.profiles) :
          /\ ~Has(p, "error")
          /\ \A i \in DOMAIN p.inb : RuleOK(p.inb[i])
          /\ \A i \in DOMAIN p.outb : RuleOK(p.outb[i])
=============================================================================
