----------------------------- MODULE CalicoPol -----------------------------
(* C29, Calico side: the meaning of backend-model policies (libcalico-go/lib/backend/model Policy / Rule)
   applied to workload endpoints, as Felix's calculation graph and dataplanes implement it (and as the
   Calico policy reference documents it):

   * An endpoint's effective labels are its own labels plus the labels of its profiles
     (ProfileLabels; own labels win).  For a Kubernetes pod the converter gives the endpoint the pod's
     labels + projectcalico.org/namespace + projectcalico.org/orchestrator (+ serviceaccount) and strips
     pcns./pcsa. prefixed labels; the namespace profile kns.<ns> contributes pcns.<label> for every
     namespace label and pcns.projectcalico.org/name.
   * A policy applies to an endpoint iff its selector matches the effective labels; it applies to a
     direction iff that direction is in Types (no Types = both).
   * Within the (single, "default") tier, applicable policies are evaluated in Order; within a policy the
     rules of the direction in sequence; the first matching rule decides (allow / deny).  If at least one
     policy applies and no rule matches: end-of-tier deny.  If no policy applies: the endpoint's profiles
     in sequence, first matching rule decides, no match = deny.
   * A rule matches iff ALL its present match criteria hold: protocol; src/dst nets (address in some
     net), negated nets (address in none); src/dst selector (the address belongs to an endpoint whose
     effective labels match); destination ports: a numeric range containing the port, OR a named port:
     the destination address belongs to an endpoint (matching the destination selector if there is one)
     that exposes a port of that name, of the rule's protocol and of that number.
   * A connection needs the source endpoint's egress verdict and the destination endpoint's ingress
     verdict; an address that belongs to no endpoint is not policed.

   Value shapes (JSON projected by harness/cmd/k8snp from the real model objects, pure syntax):
     world   [eps: <<EP>>, profiles: <<[name, labels, inb: <<RULE>>, outb: <<RULE>>]>>]
     EP      [nets: <<CIDR>>, labels, profiles: <<name>>, ports: <<[name, proto | protoNum, port]>>]
     policy  [name, ns, tier, order?, sel: AST, types: <<"ingress"|"egress">>, inb, outb, flags]
     RULE    [action, proto? | protoNum?, srcSel?: AST, dstSel?: AST, srcNets, dstNets, notSrcNets,
              notDstNets: <<CIDR>>, dstPorts: <<[lo, hi] | [name]>>, other: <<names of further non-zero fields>>]
   Selector ASTs are evaluated by Selectors!Eval.                                                  *)
EXTENDS Integers, Sequences, FiniteSets, Nets, Selectors

LOCAL SetOf(s) == { s[i] : i \in DOMAIN s }
LOCAL Has(r, f) == f \in DOMAIN r
LOCAL NoCT == [x \in {} |-> <<>>]          \* no sub-string operators can be evaluated (see SelOK)
LOCAL NoLabels == [x \in {} |-> ""]

ProtoOfNum == [n \in {6, 17, 132} |-> CASE n = 6 -> "tcp" [] n = 17 -> "udp" [] n = 132 -> "sctp"]
PortProtocols == {"tcp", "udp", "sctp"}
\* protocol of a rule / endpoint port as a lower-case name, "" when absent, "?" when not a port protocol
ProtoOf(r) == IF Has(r, "proto") THEN r.proto
              ELSE IF Has(r, "protoNum") THEN (IF r.protoNum \in DOMAIN ProtoOfNum THEN ProtoOfNum[r.protoNum] ELSE "?")
              ELSE ""

\* ---- endpoints -----------------------------------------------------------------------------------
EpAt(w, ip) == { e \in SetOf(w.eps) : \E i \in DOMAIN e.nets : ContainsAddr(e.nets[i], ip) }
ProfilesNamed(w, n) == { p \in SetOf(w.profiles) : p.name = n }
ProfileLabels(w, n) == IF ProfilesNamed(w, n) = {} THEN NoLabels ELSE (CHOOSE p \in ProfilesNamed(w, n) : TRUE).labels
\* the parents' label prefixes (pcns. / pcsa.) are disjoint, so the precedence among parents is immaterial
EffL(w, e) == EffLabels(e.labels, [i \in DOMAIN e.profiles |-> ProfileLabels(w, e.profiles[i])], FALSE)

\* ---- rules -----------------------------------------------------------------------------------------
InSomeNet(nets, ip) == \E i \in DOMAIN nets : ContainsAddr(nets[i], ip)
SelHolds(w, sel, ip) == \E e \in EpAt(w, ip) : Eval(sel, EffL(w, e), NoCT)

PortsMatch(w, r, dstip, port, proto) ==
    \/ r.dstPorts = <<>>
    \/ \E i \in DOMAIN r.dstPorts :
          LET pp == r.dstPorts[i] IN
          IF Has(pp, "name")
          THEN \E e \in EpAt(w, dstip) :
                  /\ Has(r, "dstSel") => Eval(r.dstSel, EffL(w, e), NoCT)
                  /\ \E j \in DOMAIN e.ports :
                        e.ports[j].name = pp.name /\ ProtoOf(e.ports[j]) = ProtoOf(r) /\ e.ports[j].port = port
          ELSE pp.lo <= port /\ port <= pp.hi

\* conn = [src, dst: addr, port: 1..65535, proto \in PortProtocols]
RuleMatch(w, r, conn) ==
    /\ ProtoOf(r) = "" \/ ProtoOf(r) = conn.proto
    /\ r.srcNets = <<>> \/ InSomeNet(r.srcNets, conn.src)
    /\ r.dstNets = <<>> \/ InSomeNet(r.dstNets, conn.dst)
    /\ ~InSomeNet(r.notSrcNets, conn.src)
    /\ ~InSomeNet(r.notDstNets, conn.dst)
    /\ Has(r, "srcSel") => SelHolds(w, r.srcSel, conn.src)
    /\ Has(r, "dstSel") => SelHolds(w, r.dstSel, conn.dst)
    /\ PortsMatch(w, r, conn.dst, conn.port, conn.proto)

\* index of the first matching rule, 0 if none
FirstMatch(w, rules, conn) ==
    LET idx == { i \in DOMAIN rules : RuleMatch(w, rules[i], conn) }
    IN IF idx = {} THEN 0 ELSE CHOOSE i \in idx : \A j \in idx : i <= j

\* ---- policies ----------------------------------------------------------------------------------------
PolTypes(pol) == IF pol.types = <<>> THEN {"ingress", "egress"} ELSE SetOf(pol.types)
RulesOf(x, dir) == IF dir = "ingress" THEN x.inb ELSE x.outb
Ord(pol) == IF Has(pol, "order") THEN pol.order ELSE 2147483647          \* no order = last
Applies(w, pol, e, dir) == dir \in PolTypes(pol) /\ Eval(pol.sel, EffL(w, e), NoCT)

ProfileVerdict(w, e, dir, conn) ==
    LET hit(i) == IF ProfilesNamed(w, e.profiles[i]) = {} THEN 0
                  ELSE FirstMatch(w, RulesOf(CHOOSE p \in ProfilesNamed(w, e.profiles[i]) : TRUE, dir), conn)
        hits == { i \in DOMAIN e.profiles : hit(i) # 0 }
    IN IF hits = {} THEN FALSE
       ELSE LET i == CHOOSE k \in hits : \A j \in hits : k <= j
                pr == CHOOSE p \in ProfilesNamed(w, e.profiles[i]) : TRUE
            IN RulesOf(pr, dir)[hit(i)].action = "allow"

\* the set of actions of the deciding rule(s): the first matching rule of the applicable policies with the
\* lowest Order that have a matching rule (policies of equal Order are ordered by name, which this
\* specification does not model: it is only well defined when they agree - see Decidable)
Deciding(w, pols, e, dir, conn) ==
    LET app == { i \in DOMAIN pols : Applies(w, pols[i], e, dir) }
        hit(i) == FirstMatch(w, RulesOf(pols[i], dir), conn)
        hits == { i \in app : hit(i) # 0 }
        first == { i \in hits : \A j \in hits : Ord(pols[i]) <= Ord(pols[j]) }
    IN [applies |-> app # {}, actions |-> { RulesOf(pols[i], dir)[hit(i)].action : i \in first }]

Verdict(w, pols, e, dir, conn) ==
    LET d == Deciding(w, pols, e, dir, conn)
    IN IF ~d.applies THEN ProfileVerdict(w, e, dir, conn)
       ELSE d.actions = {"allow"}                                  \* {} = end-of-tier deny

Allowed(w, pols, conn) ==
    /\ \A e \in EpAt(w, conn.src) : Verdict(w, pols, e, "egress", conn)
    /\ \A e \in EpAt(w, conn.dst) : Verdict(w, pols, e, "ingress", conn)

Decidable(w, pols, conn) ==
    /\ \A e \in EpAt(w, conn.src) : Cardinality(Deciding(w, pols, e, "egress", conn).actions) <= 1
    /\ \A e \in EpAt(w, conn.dst) : Cardinality(Deciding(w, pols, e, "ingress", conn).actions) <= 1

\* ---- objects that have a meaning in this specification ------------------------------------------------
\* (anything else produced by the converter is rejected: its meaning would be outside what was specified)
RECURSIVE SelOK(_)
SelOK(n) ==
    CASE n.op \in {"all", "global", "eq", "ne", "in", "notin", "has"} -> TRUE
      [] n.op = "not" -> SelOK(n.a)
      [] n.op \in {"and", "or"} -> \A i \in DOMAIN n.args : SelOK(n.args[i])
      [] OTHER -> FALSE            \* unparseable selector, sub-string operators
NetOK(c) == c.n >= 0 /\ Len(c.a) \in {4, 16} /\ c.n <= 8 * Len(c.a)
RuleOK(r) ==
    /\ r.other = <<>>
    /\ r.action \in {"allow", "deny"}
    /\ ProtoOf(r) # "?"
    \* Calico's validation: ports can only be matched together with a protocol that has ports
    /\ r.dstPorts # <<>> => ProtoOf(r) \in PortProtocols
    /\ \A i \in DOMAIN r.dstPorts : Has(r.dstPorts[i], "name") \/ (1 <= r.dstPorts[i].lo /\ r.dstPorts[i].lo <= r.dstPorts[i].hi)
    /\ Has(r, "srcSel") => SelOK(r.srcSel)
    /\ Has(r, "dstSel") => SelOK(r.dstSel)
    /\ \A f \in {"srcNets", "dstNets", "notSrcNets", "notDstNets"} : \A i \in DOMAIN r[f] : NetOK(r[f][i])
PolicyOK(pol) ==
    /\ ~Has(pol, "missing")
    /\ pol.tier = "default"
    /\ pol.flags = <<>>
    /\ Has(pol, "order") => pol.order >= 0
    /\ SetOf(pol.types) \subseteq {"ingress", "egress"}
    /\ SelOK(pol.sel)
    /\ \A i \in DOMAIN pol.inb : RuleOK(pol.inb[i])
    /\ \A i \in DOMAIN pol.outb : RuleOK(pol.outb[i])
WorldOK(w) ==
    /\ \A e \in SetOf(w.eps) : ~Has(e, "error") /\ \A i \in DOMAIN e.nets : NetOK(e.nets[i])
    /\ \A p \in SetOf(w.profiles) :
          /\ ~Has(p, "error")
          /\ \A i \in DOMAIN p.inb : RuleOK(p.inb[i])
          /\ \A i \in DOMAIN p.outb : RuleOK(p.outb[i])
=============================================================================
