------------------------------ MODULE T_K8sNP ------------------------------
(* Trace specification for C29.  A trace is  reset (the cluster as given to the converter + the converted
   endpoints and profiles)  followed by  case  lines (NetworkPolicies as given to the converter + the
   converted model policies).  A case line is accepted iff the converted policies allow exactly the probe
   connections that the Kubernetes semantics allow (module NPProbe: K8sNP!Allowed = CalicoPol!Allowed). *)
EXTENDS TraceLib, FiniteSets

CONSTANT Defaulted      \* TRUE: judge only NetworkPolicies as the API server serves them (see K8sNP!PolicyOK)
VARIABLE r              \* line of the current trace's reset event

P == INSTANCE NPProbe

TInit == l = 1 /\ r = 0

TReset == IsEvent("reset") /\ r' = l

Stat(cl, nps) ==
    PrintT(<<"C29_STAT", Cur.t, P!NConns(cl, nps),
             Cardinality({ p \in P!K!Pods(cl) : \E d \in P!K!Directions : P!K!Isolated(nps, p, d) }),
             P!Judged(cl, nps, Defaulted)>>)

TCase ==
    /\ IsEvent("case")
    /\ r > 0 /\ Trace[r].t = Cur.t
    \* "= TRUE" makes TLC evaluate the predicate as a state-level expression (short-circuit \/), not as an
    \* action whose disjuncts are all explored
    /\ P!CaseOK(Trace[r], Cur.nps, Trace[r], Cur.pols, Defaulted) = TRUE
    /\ Stat(Trace[r], Cur.nps)
    /\ UNCHANGED r

TNext == TReset \/ TCase
=============================================================================
