CONSTANTS
  MaxPeers = 2
  MaxPorts = 2
INIT GInit
NEXT GNext
INVARIANT Emit
CHECK_DEADLOCK FALSE
