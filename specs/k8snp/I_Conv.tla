------------------------------- MODULE I_Conv -------------------------------
(* C29 design leg: a TLA+ model of the conversion, shaped like the code
   (conversion.K8sNetworkPolicyToCalico / k8sRuleToCalico / k8sSelectorToCalico / k8sPeerToCalicoFields,
    PodToWorkloadEndpoints, NamespaceToProfile, updateprocessors.ConvertNetworkPolicyV3ToV1Value /
    getEndpointSelector), and the exhaustive TLC check that, over the whole small scope of NPVocab,
        K8sNP!Allowed(np, conn) = CalicoPol!Allowed(Conv(np), conn)      (NPProbe!CaseOK).
   This is a statement about the two reference semantics and the intended conversion, not about the code: it
   shows that K8sNP.tla and CalicoPol.tla can be reconciled at all (so that a rejection of a real trace points
   at the converter and not at the specifications), and it evaluates the memoised form of the property
   against the plain form (NPProbe spot checks).  A violation here is a harness error, never a verdict.    *)
EXTENDS NPVocab

P == INSTANCE NPProbe

VARIABLE np

SetOf(s) == { s[i] : i \in DOMAIN s }
Has(r, f) == f \in DOMAIN r
FnOfPairs(ps) == [k \in { p[1] : p \in ps } |-> (CHOOSE p \in ps : p[1] = k)[2]]
\* a sequence enumerating a set of selector nodes (the order of conjuncts is immaterial)
SeqOf(S) == CHOOSE s \in [1..Cardinality(S) -> S] : \A i, j \in 1..Cardinality(S) : i # j => s[i] # s[j]

\* ---- selectors (k8sSelectorToCalico, then parsed; PrefixVisitor for namespace selectors) ------------------
Eq(k, v) == [op |-> "eq", k |-> k, v |-> v]
And2(a, b) == [op |-> "and", args |-> <<a, b>>]
OrchIsK8s == Eq("projectcalico.org/orchestrator", "k8s")
NsIs(ns) == Eq("projectcalico.org/namespace", ns)
Terms(s, prefix) ==
    { Eq(prefix \o k, s.ml[k]) : k \in DOMAIN s.ml }
    \cup { LET e == s.me[i] IN
           CASE e.op = "In" -> [op |-> "in", k |-> prefix \o e.k, vs |-> e.vs]
             [] e.op = "NotIn" -> [op |-> "notin", k |-> prefix \o e.k, vs |-> e.vs]
             [] e.op = "Exists" -> [op |-> "has", k |-> prefix \o e.k]
             [] e.op = "DoesNotExist" -> [op |-> "not", a |-> [op |-> "has", k |-> prefix \o e.k]]
           : i \in DOMAIN s.me }
PodSelAST(s) == [op |-> "and", args |-> <<OrchIsK8s>> \o SeqOf(Terms(s, ""))]
\* an empty namespace selector is "all()", rewritten to has(projectcalico.org/namespace)
NsSelAST(s) == IF Terms(s, "pcns.") = {} THEN [op |-> "has", k |-> "projectcalico.org/namespace"]
               ELSE [op |-> "and", args |-> SeqOf(Terms(s, "pcns."))]

\* ---- peers (k8sPeerToCalicoFields + getEndpointSelector) ----------------------------------------------------
NoSel == [op |-> "none"]
NoNets == [sel |-> NoSel, nets |-> <<>>, notNets |-> <<>>]
PeerFields(ns, peer) ==
    IF Has(peer, "ipBlock") THEN [sel |-> NoSel, nets |-> <<peer.ipBlock.cidr>>, notNets |-> peer.ipBlock.except]
    ELSE [NoNets EXCEPT !.sel =
            IF Has(peer, "nsSel")
            THEN And2(NsSelAST(peer.nsSel), IF Has(peer, "podSel") THEN PodSelAST(peer.podSel) ELSE OrchIsK8s)
            ELSE And2(NsIs(ns), PodSelAST(peer.podSel))]

\* ---- ports (k8sRuleToCalico: one rule per protocol, "no port" of a protocol absorbs its other entries) --------
ProtoName(e) == IF Has(e, "proto") THEN (CASE e.proto = "TCP" -> "tcp" [] e.proto = "UDP" -> "udp" [] e.proto = "SCTP" -> "sctp") ELSE "tcp"
PortSpec(e) == IF Has(e, "name") THEN [name |-> e.name] ELSE [lo |-> e.port, hi |-> IF Has(e, "end") THEN e.end ELSE e.port]
ProtoGroups(ports) ==      \* set of [proto, dstPorts]
    IF ports = <<>> THEN { [proto |-> "", dstPorts |-> <<>>] }
    ELSE { [proto |-> pr,
            dstPorts |-> IF \E i \in DOMAIN ports : ProtoName(ports[i]) = pr /\ ~Has(ports[i], "port") /\ ~Has(ports[i], "name")
                         THEN <<>>
                         ELSE SeqOf({ PortSpec(ports[i]) : i \in { j \in DOMAIN ports : ProtoName(ports[j]) = pr } })]
           : pr \in { ProtoName(ports[i]) : i \in DOMAIN ports } }

MRule(ingress, g, f) ==
    LET base == [action |-> "allow", other |-> <<>>, dstPorts |-> g.dstPorts,
                 srcNets |-> IF ingress THEN f.nets ELSE <<>>, notSrcNets |-> IF ingress THEN f.notNets ELSE <<>>,
                 dstNets |-> IF ingress THEN <<>> ELSE f.nets, notDstNets |-> IF ingress THEN <<>> ELSE f.notNets]
        withProto == IF g.proto = "" THEN base ELSE base @@ [proto |-> g.proto]
    IN IF f.sel.op = "none" THEN withProto
       ELSE IF ingress THEN withProto @@ [srcSel |-> f.sel] ELSE withProto @@ [dstSel |-> f.sel]

ConvRule(ns, rule, ingress) ==
    LET fields == IF rule.peers = <<>> THEN {NoNets} ELSE { PeerFields(ns, rule.peers[i]) : i \in DOMAIN rule.peers }
    IN SeqOf({ MRule(ingress, g, f) : g \in ProtoGroups(rule.ports), f \in fields })
RECURSIVE ConvRules(_, _, _)
ConvRules(ns, rules, ingress) ==
    IF rules = <<>> THEN <<>> ELSE ConvRule(ns, Head(rules), ingress) \o ConvRules(ns, Tail(rules), ingress)

\* ---- the policy (K8sNetworkPolicyToCalico + ConvertNetworkPolicyV3ToV1Value) -----------------------------------
Conv(n) ==
    [name |-> n.name, ns |-> n.ns, tier |-> "default", order |-> 1000, flags |-> <<>>,
     sel |-> And2(PodSelAST(n.podSel), NsIs(n.ns)),
     types |-> LET t == (IF "Ingress" \in SetOf(n.types) THEN <<"ingress">> ELSE <<>>)
                        \o (IF "Egress" \in SetOf(n.types) THEN <<"egress">> ELSE <<>>)
               IN IF t = <<>> THEN <<"ingress">> ELSE t,
     inb |-> ConvRules(n.ns, n.ingress, TRUE),
     outb |-> ConvRules(n.ns, n.egress, FALSE)]

\* ---- the cluster (PodToWorkloadEndpoints, NamespaceToProfile and their update processors) ---------------------
AllowAll == [action |-> "allow", other |-> <<>>, dstPorts |-> <<>>, srcNets |-> <<>>, notSrcNets |-> <<>>, dstNets |-> <<>>, notDstNets |-> <<>>]
World ==
    [eps |-> [i \in DOMAIN Cluster.pods |->
                LET p == Cluster.pods[i] IN
                [nets |-> [k \in DOMAIN p.ips |-> [a |-> p.ips[k], n |-> 8 * Len(p.ips[k])]],
                 labels |-> FnOfPairs({ <<k, p.labels[k]>> : k \in DOMAIN p.labels }
                                      \cup { <<"projectcalico.org/namespace", p.ns>>, <<"projectcalico.org/orchestrator", "k8s">> }),
                 profiles |-> << "kns." \o p.ns >>,
                 ports |-> [k \in DOMAIN p.ports |-> [name |-> p.ports[k].name, port |-> p.ports[k].port, proto |-> ProtoName(p.ports[k])]]]],
     profiles |-> [i \in DOMAIN Cluster.namespaces |->
                LET n == Cluster.namespaces[i] IN
                [name |-> "kns." \o n.name,
                 labels |-> FnOfPairs({ <<"pcns." \o k, n.labels[k]>> : k \in DOMAIN n.labels } \cup { <<"pcns.projectcalico.org/name", n.name>> }),
                 inb |-> <<AllowAll>>, outb |-> <<AllowAll>>]]]

Init == np \in NPs
Next == UNCHANGED np
Agree == P!CaseOK(Cluster, <<np>>, World, <<Conv(np)>>, TRUE)
=============================================================================
