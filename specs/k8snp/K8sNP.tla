------------------------------- MODULE K8sNP -------------------------------
(* C29, Kubernetes side: the meaning of networking.k8s.io/v1 NetworkPolicy, written from the Kubernetes
   API documentation (NetworkPolicySpec, NetworkPolicyPeer, IPBlock, NetworkPolicyPort, LabelSelector)
   and the "Network Policies" concept page - NOT from Calico's converter.

   * A pod is isolated for a direction iff some NetworkPolicy of ITS namespace selects it (podSelector;
     the empty selector selects every pod of the namespace) and lists that direction in policyTypes.
     policyTypes unset: Ingress always, Egress iff the policy has egress rules.
   * A non-isolated pod allows everything in that direction.  For an isolated pod the traffic must be
     allowed by some rule of some policy that selects the pod for that direction (policies are
     additive; there is no deny and no order).
   * A rule matches iff (from/to empty or missing, or SOME peer matches) and (ports empty or missing,
     or SOME port entry matches).
   * Peers: ipBlock (address in cidr and in none of except - evaluated on the address, whatever it
     belongs to); podSelector alone = pods of the policy's own namespace; namespaceSelector alone = all
     pods of the selected namespaces; both = selected pods in selected namespaces.  An empty
     ({}) selector matches everything, a missing one is not the same thing.
   * Ports: protocol defaults to TCP; no port = every port of that protocol; numeric port; numeric port
     with endPort = inclusive range; a named port is "the named port on the pod": it matches iff the
     DESTINATION pod declares a container port with that name, that protocol (container-port protocol
     defaults to TCP) and that number.
   * A connection pod->pod needs the source's egress AND the destination's ingress to allow it; an
     address that is not a pod of the cluster is not policed.

   Value shapes (JSON projected by harness/cmd/k8snp from the typed objects given to the converter):
     cluster  [namespaces: <<[name, labels]>>, pods: <<[name, ns, ips: <<addr>>, labels, ports: <<[name, port, proto?]>>]>>]
     policy   [name, ns, podSel: SEL, types: <<"Ingress"|"Egress">>, ingress: <<RULE>>, egress: <<RULE>>]
     SEL      [ml: record label |-> value, me: <<[k, op \in {"In","NotIn","Exists","DoesNotExist"}, vs]>>]
     RULE     [peers: <<PEER>>, ports: <<PORT>>]
     PEER     record with optional fields podSel: SEL, nsSel: SEL, ipBlock: [cidr: CIDR, except: <<CIDR>>]
     PORT     record with optional fields proto, port (number) | name (string), end
     addr / CIDR as in module Nets (octet sequences).                                              *)
EXTENDS Integers, Sequences, FiniteSets, Nets

LOCAL SetOf(s) == { s[i] : i \in DOMAIN s }
LOCAL Has(r, f) == f \in DOMAIN r

Protocols == {"TCP", "UDP", "SCTP"}
DefaultProtocol == "TCP"
Directions == {"Ingress", "Egress"}

\* ---- label selectors (metav1.LabelSelector): all requirements are ANDed ------------------------
ReqMatch(e, L) ==
    CASE e.op = "In"           -> e.k \in DOMAIN L /\ L[e.k] \in SetOf(e.vs)
      [] e.op = "NotIn"        -> ~(e.k \in DOMAIN L /\ L[e.k] \in SetOf(e.vs))    \* a missing key satisfies NotIn
      [] e.op = "Exists"       -> e.k \in DOMAIN L
      [] e.op = "DoesNotExist" -> e.k \notin DOMAIN L

SelMatch(s, L) ==
    /\ \A k \in DOMAIN s.ml : k \in DOMAIN L /\ L[k] = s.ml[k]
    /\ \A i \in DOMAIN s.me : ReqMatch(s.me[i], L)

\* ---- cluster -----------------------------------------------------------------------------------
Pods(cl) == SetOf(cl.pods)
PodAt(cl, ip) == { p \in Pods(cl) : ip \in SetOf(p.ips) }          \* the pod owning an address (0 or 1)
NsLabels(cl, name) == (CHOOSE n \in SetOf(cl.namespaces) : n.name = name).labels
CPProto(cp) == IF Has(cp, "proto") THEN cp.proto ELSE DefaultProtocol

\* ---- policies ----------------------------------------------------------------------------------
EffTypes(np) ==
    IF np.types # <<>> THEN SetOf(np.types)
    ELSE {"Ingress"} \cup (IF np.egress # <<>> THEN {"Egress"} ELSE {})

Selects(np, p) == p.ns = np.ns /\ SelMatch(np.podSel, p.labels)
Governs(np, p, dir) == Selects(np, p) /\ dir \in EffTypes(np)
Isolated(nps, p, dir) == \E i \in DOMAIN nps : Governs(nps[i], p, dir)
RulesOf(np, dir) == IF dir = "Ingress" THEN np.ingress ELSE np.egress

IPBlockMatch(b, ip) ==
    /\ ContainsAddr(b.cidr, ip)
    /\ \A i \in DOMAIN b.except : ~ContainsAddr(b.except[i], ip)

PeerMatch(cl, np, peer, ip) ==
    IF Has(peer, "ipBlock") THEN IPBlockMatch(peer.ipBlock, ip)
    ELSE \E q \in PodAt(cl, ip) :
            /\ IF Has(peer, "nsSel") THEN SelMatch(peer.nsSel, NsLabels(cl, q.ns)) ELSE q.ns = np.ns
            /\ Has(peer, "podSel") => SelMatch(peer.podSel, q.labels)

PortMatch(cl, e, dstip, port, proto) ==
    /\ proto = (IF Has(e, "proto") THEN e.proto ELSE DefaultProtocol)
    /\ IF Has(e, "port") THEN (IF Has(e, "end") THEN e.port <= port /\ port <= e.end ELSE port = e.port)
       ELSE IF Has(e, "name")
            THEN \E q \in PodAt(cl, dstip) : \E i \in DOMAIN q.ports :
                    q.ports[i].name = e.name /\ CPProto(q.ports[i]) = proto /\ q.ports[i].port = port
            ELSE TRUE

\* the two halves of a rule
RulePeers(cl, np, rule, peerip) == rule.peers = <<>> \/ \E i \in DOMAIN rule.peers : PeerMatch(cl, np, rule.peers[i], peerip)
RulePorts(cl, rule, dstip, port, proto) == rule.ports = <<>> \/ \E i \in DOMAIN rule.ports : PortMatch(cl, rule.ports[i], dstip, port, proto)
RuleMatch(cl, np, rule, peerip, dstip, port, proto) == RulePeers(cl, np, rule, peerip) /\ RulePorts(cl, rule, dstip, port, proto)

\* What a pod's policies say about one direction, in generic form: Gov(i) - policy i governs the pod for
\* dir; PeerOK(i, j) / PortOK(i, j) - the two halves of rule j of policy i hold.  (Generic so that a caller
\* may supply memoised halves; DirAllowed below is the plain instance.)
DirAllowedG(nps, dir, Gov(_), PeerOK(_, _), PortOK(_, _)) ==
    \/ ~\E i \in DOMAIN nps : Gov(i)                                           \* not isolated
    \/ \E i \in DOMAIN nps : Gov(i) /\ \E j \in DOMAIN RulesOf(nps[i], dir) : PeerOK(i, j) /\ PortOK(i, j)

\* pod p, traffic with `peerip` in direction dir (dstip = the receiving address)
DirAllowed(cl, nps, p, dir, peerip, dstip, port, proto) ==
    DirAllowedG(nps, dir,
                LAMBDA i : Governs(nps[i], p, dir),
                LAMBDA i, j : RulePeers(cl, nps[i], RulesOf(nps[i], dir)[j], peerip),
                LAMBDA i, j : RulePorts(cl, RulesOf(nps[i], dir)[j], dstip, port, proto))

\* conn = [src |-> addr, dst |-> addr, port |-> 1..65535, proto \in Protocols]
Allowed(cl, nps, conn) ==
    /\ \A p \in PodAt(cl, conn.src) : DirAllowed(cl, nps, p, "Egress", conn.dst, conn.dst, conn.port, conn.proto)
    /\ \A p \in PodAt(cl, conn.dst) : DirAllowed(cl, nps, p, "Ingress", conn.src, conn.dst, conn.port, conn.proto)

\* ---- where the Kubernetes documentation gives no meaning -----------------------------------------
\* a named port is "the named port on a pod": towards a destination that is not a pod of the cluster
\* there is nothing to resolve the name against.  Such connections are not judged when an egress rule
\* governing the source uses a named port.
UnspecifiedPair(cl, nps, src, dst) ==
    /\ PodAt(cl, dst) = {}
    /\ \E p \in PodAt(cl, src) : \E i \in DOMAIN nps :
          /\ Governs(nps[i], p, "Egress")
          /\ \E j \in DOMAIN nps[i].egress : \E k \in DOMAIN nps[i].egress[j].ports :
                Has(nps[i].egress[j].ports[k], "name")
Unspecified(cl, nps, conn) == UnspecifiedPair(cl, nps, conn.src, conn.dst)

\* ---- objects the API server would have rejected or never serves (not judged) ------------------------
SelOK(s) == \A i \in DOMAIN s.me :
              /\ s.me[i].op \in {"In", "NotIn", "Exists", "DoesNotExist"}
              /\ s.me[i].op \in {"In", "NotIn"} <=> s.me[i].vs # <<>>
PeerOK(peer) ==
    IF Has(peer, "ipBlock")
    THEN /\ ~Has(peer, "podSel") /\ ~Has(peer, "nsSel")
         /\ \A i \in DOMAIN peer.ipBlock.except : StrictlyCovers(peer.ipBlock.cidr, peer.ipBlock.except[i])
    ELSE /\ Has(peer, "podSel") \/ Has(peer, "nsSel")
         /\ Has(peer, "podSel") => SelOK(peer.podSel)
         /\ Has(peer, "nsSel") => SelOK(peer.nsSel)
PortOK(e) ==
    /\ Has(e, "proto") => e.proto \in Protocols
    /\ ~(Has(e, "port") /\ Has(e, "name"))
    /\ Has(e, "port") => e.port \in 1..65535
    /\ Has(e, "end") => Has(e, "port") /\ e.end \in e.port..65535
RuleOK(rule) == (\A i \in DOMAIN rule.peers : PeerOK(rule.peers[i])) /\ (\A i \in DOMAIN rule.ports : PortOK(rule.ports[i]))
\* `defaulted`: TRUE = only objects as the API server serves them (policyTypes filled in by defaulting, so
\* "no policyTypes but egress rules" cannot occur); FALSE = also judge the raw documented defaulting rule.
PolicyOK(np, defaulted) ==
    /\ SelOK(np.podSel)
    /\ SetOf(np.types) \subseteq Directions
    /\ \A i \in DOMAIN np.ingress : RuleOK(np.ingress[i])
    /\ \A i \in DOMAIN np.egress : RuleOK(np.egress[i])
    /\ defaulted => (np.types # <<>> \/ np.egress = <<>>)
ClusterOK(cl) ==
    /\ \A p \in Pods(cl) : \E n \in SetOf(cl.namespaces) : n.name = p.ns
    /\ \A p, q \in Pods(cl) : p # q => SetOf(p.ips) \cap SetOf(q.ips) = {}
    \* "each named port in a pod must have a unique name"
    /\ \A p \in Pods(cl) : \A i, j \in DOMAIN p.ports : i # j => p.ports[i].name # p.ports[j].name
=============================================================================
