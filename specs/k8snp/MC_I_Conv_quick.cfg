CONSTANTS
  MaxPeers = 1
  MaxPorts = 1
INIT Init
NEXT Next
INVARIANT Agree
CHECK_DEADLOCK FALSE
