------------------------------ MODULE NPVocab ------------------------------
(* C29: the small scope shared by the behaviour generator (Gen_K8sNP) and the design check (I_Conv):
   a fixed cluster (two namespaces, three pods, two external addresses) and ALL NetworkPolicies over a tiny
   vocabulary: pod selector x policyTypes x (one rule, or none, in one direction) where the rule's peers are
   any set of at most MaxPeers peers of a 7-peer vocabulary (every peer kind, empty selectors, ipBlock with
   except) and its ports any SEQUENCE of at most MaxPorts port entries of an 8-entry vocabulary (the
   converter's per-protocol merging depends on the order).                                              *)
EXTENDS Integers, Sequences, FiniteSets, TLC

CONSTANTS MaxPeers, MaxPorts

NoLabels == <<>>          \* the empty function: printed as [] and read back as an empty label map

Cluster ==
    [op |-> "cluster",
     namespaces |-> << [name |-> "a", labels |-> [team |-> "x"]], [name |-> "b", labels |-> NoLabels] >>,
     sas |-> <<>>,
     pods |-> << [name |-> "a1", ns |-> "a", ips |-> << <<10, 0, 0, 1>> >>, labels |-> [app |-> "a"],
                  ports |-> << [name |-> "http", port |-> 80, c |-> 0] >>],
                 [name |-> "a2", ns |-> "a", ips |-> << <<10, 0, 0, 2>> >>, labels |-> NoLabels,
                  ports |-> << [name |-> "dns", proto |-> "UDP", port |-> 53, c |-> 0] >>],
                 [name |-> "b1", ns |-> "b", ips |-> << <<10, 0, 1, 1>> >>, labels |-> [app |-> "a"],
                  ports |-> << [name |-> "http", proto |-> "TCP", port |-> 81, c |-> 0] >>] >>,
     ext |-> << <<10, 0, 0, 200>>, <<192, 168, 0, 1>> >>]

SelAll == [ml |-> NoLabels, me |-> <<>>]
SelApp == [ml |-> [app |-> "a"], me |-> <<>>]
SelNotApp == [ml |-> NoLabels, me |-> << [k |-> "app", op |-> "NotIn", vs |-> <<"a">>] >>]
SelTeam == [ml |-> [team |-> "x"], me |-> <<>>]
SelNoTeam == [ml |-> NoLabels, me |-> << [k |-> "team", op |-> "DoesNotExist", vs |-> <<>>] >>]

PodSels == {SelAll, SelApp, SelNotApp}
PeerVocab ==
    { [podSel |-> SelApp], [podSel |-> SelAll],
      [nsSel |-> SelTeam], [nsSel |-> SelAll],
      [nsSel |-> SelNoTeam, podSel |-> SelAll], [nsSel |-> SelTeam, podSel |-> SelApp],
      [ipBlock |-> [cidr |-> [a |-> <<10, 0, 0, 0>>, n |-> 24], except |-> << [a |-> <<10, 0, 0, 128>>, n |-> 25] >>]] }
PortVocab ==
    { [port |-> 80], [port |-> 82], [port |-> 80, end |-> 81], [name |-> "http"],
      [proto |-> "UDP"], [proto |-> "UDP", port |-> 53], [proto |-> "UDP", name |-> "dns"], [proto |-> "SCTP", port |-> 80] }

SetToSeq(S) == CHOOSE s \in [1..Cardinality(S) -> S] : \A i, j \in 1..Cardinality(S) : i # j => s[i] # s[j]
SmallSubsets(S) == { T \in SUBSET S : Cardinality(T) <= MaxPeers }
PeerSeqs == { SetToSeq(T) : T \in SmallSubsets(PeerVocab) }
PortSeqs == {<<>>} \cup { <<p>> : p \in PortVocab } \cup (IF MaxPorts >= 2 THEN { <<p, q>> : p, q \in PortVocab } ELSE {})
Rules == { [peers |-> ps, ports |-> qs] : ps \in PeerSeqs, qs \in PortSeqs }
RuleSeqs == {<<>>} \cup { <<r>> : r \in Rules }

\* objects as the API server serves them: policyTypes may only be absent when there are no egress rules
NPs ==
    { [name |-> "np", ns |-> "a", podSel |-> s, types |-> t, ingress |-> rs, egress |-> <<>>] :
        s \in PodSels, t \in { <<>>, <<"Ingress">>, <<"Ingress", "Egress">> }, rs \in RuleSeqs }
    \cup
    { [name |-> "np", ns |-> "a", podSel |-> s, types |-> t, ingress |-> <<>>, egress |-> rs] :
        s \in PodSels, t \in { <<"Egress">>, <<"Ingress", "Egress">> }, rs \in RuleSeqs \ {<<>>} }
=============================================================================
