CONSTANTS
  MaxPeers = 2
  MaxPorts = 1
INIT GInit
NEXT GNext
INVARIANT Emit
CHECK_DEADLOCK FALSE
