----------------------------- MODULE Gen_K8sNP -----------------------------
(* C29 leg A: the small scope (module NPVocab) enumerated by TLC, to be replayed through the real converter:
   one initial state per policy; each prints one behaviour  <<cluster record, case record>>.
   The ipBlock/except edge addresses are added to the probes by NPProbe.                               *)
EXTENDS NPVocab, Json

VARIABLE hist

GInit == \E np \in NPs : hist = << Cluster, [op |-> "case", nps |-> <<np>>] >>
GNext == UNCHANGED hist
Emit == PrintT("BEH " \o ToJson(hist))
=============================================================================
