CONSTANTS
  MaxSet = 3
  MaxDup = 0
  ParseBeforeShadowTest = FALSE
INIT Init
NEXT Next
INVARIANTS Refines Reading
CHECK_DEADLOCK FALSE
