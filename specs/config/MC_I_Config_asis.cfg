CONSTANTS
  MaxSet = 3
  MaxDup = 0
  ParseBeforeShadowTest = TRUE
INIT Init
NEXT Next
INVARIANTS Refines
CHECK_DEADLOCK FALSE
