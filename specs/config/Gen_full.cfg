CONSTANTS
  MaxSet = 3
  MaxAlt = 1
  Full = TRUE
INIT GInit
NEXT GNext
INVARIANT EmitCase
CHECK_DEADLOCK FALSE
