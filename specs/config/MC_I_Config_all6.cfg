CONSTANTS
  MaxSet = 6
  MaxDup = 0
  ParseBeforeShadowTest = FALSE
INIT Init
NEXT Next
INVARIANTS Refines Reading
CHECK_DEADLOCK FALSE
