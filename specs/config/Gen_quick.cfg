CONSTANTS
  MaxSet = 3
  MaxAlt = 1
  Full = FALSE
INIT GInit
NEXT GNext
INVARIANT EmitCase
CHECK_DEADLOCK FALSE
