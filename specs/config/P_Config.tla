------------------------------ MODULE P_Config ------------------------------
(* C27 property layer.  The statement, as a function:

     "For every parameter, Felix's effective value is decided by the highest-priority source that sets
      it (internal override, environment, config file, per-host, per-selector, then global datastore):
      its parsed value, the zero value for 'none', or the default if it is invalid and not fatal.
      Values from lower-priority sources that are shadowed, and datastore values for local-only
      parameters, never affect the result, and the result does not depend on the order in which keys
      are read."

   A source is identified by the numeric value of felix/config.Source (1 = DatastoreGlobal ... 6 =
   InternalOverride; larger = higher priority).  What a source says about ONE parameter is abstracted
   to the SET of value kinds it holds for that parameter under any spelling of the key:
       {}            the source does not set the parameter
       {k}           it sets it (under one or several spellings) to values of kind k
       {k1, k2}      two keys of the source that differ only in case carry values of different kinds;
                     the statement does not say which one decides, only that the result must not
                     depend on the order in which the keys are read - so both are allowed, and
                     determinism is demanded separately (module T_Config, `memo`).
   Kinds: "v1", "v2" two literals the parameter's parser accepts, "bad" a literal it rejects,
          "none" the literal none/None/NONE.
   A parameter class is the metadata triple (Local, DieOnParseFailure, NonZero).                  *)
EXTENDS Naturals, FiniteSets

Sources      == 1..6
LocalSources == {4, 5, 6}            \* ConfigFile, EnvironmentVariable, InternalOverride
Kinds        == {"v1", "v2", "bad", "none"}
Classes      == [local : BOOLEAN, die : BOOLEAN, nonzero : BOOLEAN]
Entries      == SUBSET Kinds
Assignments  == [Sources -> Entries]

\* datastore values for local-only parameters never count
Eligible(cls, s) == (~cls.local) \/ s \in LocalSources
Setters(cls, asg) == { s \in Sources : Eligible(cls, s) /\ asg[s] # {} }
Decider(cls, asg) == CHOOSE s \in Setters(cls, asg) : \A t \in Setters(cls, asg) : t <= s

\* abstract outcomes: an error (Felix refuses the configuration) or a symbolic value
ErrOutcome   == [err |-> TRUE, val |-> "-"]
Val(v)       == [err |-> FALSE, val |-> v]
Outcomes     == {ErrOutcome} \cup { Val(v) : v \in {"v1", "v2", "zero", "def"} }

OutcomeOf(cls, k) ==
    CASE k = "v1"   -> Val("v1")
      [] k = "v2"   -> Val("v2")
      [] k = "none" -> IF cls.nonzero THEN ErrOutcome ELSE Val("zero")
      [] k = "bad"  -> IF cls.die THEN ErrOutcome ELSE Val("def")

\* THE PROPERTY: the outcomes the statement allows for a parameter of class cls under assignment asg
Allowed(cls, asg) ==
    IF Setters(cls, asg) = {} THEN { Val("def") }
    ELSE { OutcomeOf(cls, k) : k \in asg[Decider(cls, asg)] }

\* ---- consequences of the definition, checked exhaustively in the design leg (reading check) --------
\* changing any shadowed or ineligible source never changes what is allowed.  Checked in the form
\* "what is allowed is what is allowed after clearing every shadowed/ineligible source": two
\* assignments that differ only in such sources have the same decider, hence the same cleared form.
Shadowed(cls, asg, s) == (~Eligible(cls, s)) \/ (Setters(cls, asg) # {} /\ s < Decider(cls, asg))
Cleared(cls, asg) == [s \in Sources |-> IF Shadowed(cls, asg, s) THEN {} ELSE asg[s]]
ShadowIndependence(cls, asg) == Allowed(cls, asg) = Allowed(cls, Cleared(cls, asg))
\* an unambiguous assignment has exactly one allowed outcome
Unambiguous(asg) == \A s \in Sources : Cardinality(asg[s]) <= 1
Functional(cls, asg) == Unambiguous(asg) => Cardinality(Allowed(cls, asg)) = 1

\* ---- classification of a deviation (used for the signature of a rejected real-code outcome) --------
\* obsErr: the real code returned an error.  The known defect class: an error although no error is
\* allowed, while some shadowed (but eligible) source holds a value that would be fatal if it decided.
FatalKind(cls, k) == (k = "bad" /\ cls.die) \/ (k = "none" /\ cls.nonzero)
ShadowedFatal(cls, asg) ==
    IF Setters(cls, asg) = {} THEN {}
    ELSE { s \in Setters(cls, asg) : s < Decider(cls, asg) /\ \E k \in asg[s] : FatalKind(cls, k) }
TopShadowedFatalKinds(cls, asg) ==
    LET S == ShadowedFatal(cls, asg)
        top == CHOOSE s \in S : \A t \in S : t <= s
    IN  { k \in asg[top] : FatalKind(cls, k) }
=============================================================================
