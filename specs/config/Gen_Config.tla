----------------------------- MODULE Gen_Config -----------------------------
(* Case generator for C27 (leg A).  A case is an assignment: for each of the six sources, the keys
   that set the parameter under test - value kind and key spelling ("c" canonical field name, "a"
   another case spelling); two entries in one source = two case-variant keys in that source.
   The class dimension of P_Config is supplied by the driver (it applies every case to real
   parameters of every class).  The behaviour builds the assignment source by source; every complete
   assignment is printed once (`BEH` line with a single "case" record).

   Bounds: at most MaxSet sources set the parameter and at most MaxAlt sources use an alternative
   spelling; with Full = TRUE additionally ALL canonical-spelling assignments (5^6) are produced.   *)
EXTENDS Naturals, FiniteSets, Sequences, TLC, Json

CONSTANTS MaxSet, MaxAlt, Full

Kinds == {"v1", "v2", "bad", "none"}
Sources == 1..6
K(k, sp) == [k |-> k, sp |-> sp]
GenEntries == {<<>>} \cup { <<K(k, sp)>> : k \in Kinds, sp \in {"c", "a"} }
                     \cup { <<K(k1, "c"), K(k2, "a")>> : k1, k2 \in Kinds }

VARIABLES e, pos
vars == <<e, pos>>

NSet(x) == Cardinality({ s \in Sources : x[s] # <<>> })
HasAlt(q) == \E i \in DOMAIN q : q[i].sp = "a"
NAlt(x) == Cardinality({ s \in Sources : HasAlt(x[s]) })
Within(x) == \/ NSet(x) <= MaxSet /\ NAlt(x) <= MaxAlt
             \/ Full /\ NAlt(x) = 0

GInit == e = [s \in Sources |-> <<>>] /\ pos = 1
GNext == /\ pos <= 6
         /\ \E x \in GenEntries : e' = [e EXCEPT ![pos] = x] /\ Within(e')
         /\ pos' = pos + 1

EmitCase == pos = 7 => PrintT("BEH " \o ToJson(<<[op |-> "case", asg |-> e]>>))
=============================================================================
