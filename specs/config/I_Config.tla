------------------------------ MODULE I_Config ------------------------------
(* C27 implementation layer: the loop of Config.resolve() (felix/config/config_params.go), one
   action per visited key.  For one parameter, every source holds a SEQUENCE of value kinds = the
   values of the keys that spell this parameter, in the order the loop visits them.  The loop runs
   over the sources in descending priority; per key: skip non-local sources for Local parameters;
   (shadow test); parse; assign and remember the source.

   ParseBeforeShadowTest = FALSE is the intended algorithm (shadow test first: a shadowed value is
   not even parsed).  TRUE transcribes the code as it stands at the pinned commit (parse, and possibly
   fail, BEFORE `source < currentSource` is tested); MC_I_Config_asis.cfg shows TLC refuting the
   refinement for it (DESIGN section 8 item 1) - that config documents the defect and is not part of
   the check.

   The behaviour first builds an assignment source by source (Fill; enumerating
   [Sources -> SeqEntries] directly would make TLC materialise 21^6 functions), then runs the loop.
   TLC checks that the loop's result is one of the outcomes module P_Config allows, plus P_Config's
   own reading checks on every assignment.                                                        *)
EXTENDS Naturals, FiniteSets, Sequences, TLC

CONSTANTS MaxSet,                 \* at most this many sources set the parameter
          MaxDup,                 \* at most this many sources hold two case-variant keys
          ParseBeforeShadowTest

P == INSTANCE P_Config

VARIABLES cls, e, pos,            \* e : [Sources -> Seq(Kinds)]; builder position (7 = loop running)
          src, idx,               \* loop position: source (6 down to 0 = finished) and key index
          out, cur, dead          \* field value so far, nameToSource (0 = default), returned with error
vars == <<cls, e, pos, src, idx, out, cur, dead>>

SeqEntries == {<<>>} \cup { <<k>> : k \in P!Kinds } \cup { <<k1, k2>> : k1, k2 \in P!Kinds }
NSet(x) == Cardinality({ s \in P!Sources : x[s] # <<>> })
NDup(x) == Cardinality({ s \in P!Sources : Len(x[s]) = 2 })
Range(q) == { q[i] : i \in DOMAIN q }
Abs(x) == [s \in P!Sources |-> Range(x[s])]

Init == /\ cls \in P!Classes /\ e = [s \in P!Sources |-> <<>>] /\ pos = 1
        /\ src = 6 /\ idx = 1 /\ out = P!Val("def") /\ cur = 0 /\ dead = FALSE   \* applyDefaults()

Fill == /\ pos <= 6
        /\ \E x \in SeqEntries :
              /\ e' = [e EXCEPT ![pos] = x]
              /\ NSet(e') <= MaxSet /\ NDup(e') <= MaxDup
        /\ pos' = pos + 1
        /\ UNCHANGED <<cls, src, idx, out, cur, dead>>

Running == pos = 7 /\ src >= 1 /\ ~dead
NextSource == /\ Running /\ idx > Len(e[src])
              /\ src' = src - 1 /\ idx' = 1
              /\ UNCHANGED <<cls, e, pos, out, cur, dead>>

Key == e[src][idx]
Advance == idx' = idx + 1 /\ UNCHANGED <<cls, e, pos, src>>
\* "Ignoring local-only configuration"
SkipNonLocal == /\ Running /\ idx <= Len(e[src])
                /\ cls.local /\ src \notin P!LocalSources
                /\ Advance /\ UNCHANGED <<out, cur, dead>>
Considered == Running /\ idx <= Len(e[src]) /\ ~(cls.local /\ src \notin P!LocalSources)
\* intended order: a shadowed value is skipped before it is parsed
SkipShadowedEarly == /\ Considered /\ ~ParseBeforeShadowTest /\ src < cur
                     /\ Advance /\ UNCHANGED <<out, cur, dead>>
Parsed == Considered /\ (ParseBeforeShadowTest \/ src >= cur)
\* parse failure on a DieOnParseFailure parameter / none on a NonZero parameter: config.Err = err; return
Fatal == /\ Parsed /\ P!OutcomeOf(cls, Key).err
         /\ out' = P!ErrOutcome /\ dead' = TRUE
         /\ Advance /\ UNCHANGED cur
\* as-is order: the shadow test after parsing
SkipShadowedLate == /\ Parsed /\ ~P!OutcomeOf(cls, Key).err /\ src < cur
                    /\ Advance /\ UNCHANGED <<out, cur, dead>>
Assign == /\ Parsed /\ ~P!OutcomeOf(cls, Key).err /\ src >= cur
          /\ out' = P!OutcomeOf(cls, Key) /\ cur' = src
          /\ Advance /\ UNCHANGED dead

Next == Fill \/ NextSource \/ SkipNonLocal \/ SkipShadowedEarly \/ Fatal \/ SkipShadowedLate \/ Assign

\* ---- what TLC checks ----------------------------------------------------------------------------
Finished == pos = 7 /\ (dead \/ src = 0)
Refines == Finished => out \in P!Allowed(cls, Abs(e))
Reading == (pos <= 7 /\ src = 6 /\ idx = 1) => (P!ShadowIndependence(cls, Abs(e)) /\ P!Functional(cls, Abs(e)))
=============================================================================
