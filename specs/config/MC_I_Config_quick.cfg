CONSTANTS
  MaxSet = 2
  MaxDup = 1
  ParseBeforeShadowTest = FALSE
INIT Init
NEXT Next
INVARIANTS Refines Reading
CHECK_DEADLOCK FALSE
