------------------------------ MODULE T_Config ------------------------------
(* Trace specification for C27.  One trace per real parameter:
     reset  - the parameter's dictionary, read from the real code: metadata class (Local,
              DieOnParseFailure, NonZero), the spellings of its key, the literals used for each value
              kind, and the rendered values  v1 = Parse(lit1), v2 = Parse(lit2), zero value, default
              (the field's value in a fresh config.New()).
     case   - start of a new assignment case (determinism memo is cleared)
     run    - one fresh config.Config: a sequence of UpdateFrom / UpdateFromConfigUpdate calls; each
              step carries the raw maps handed to the real code and what it answered (error, Err field,
              rendered effective value of the parameter's field).
   After every step the assignment in force (last raw map per source) is abstracted to value kinds and
   the answer is judged against P_Config!Allowed; within a case, equal raw assignments (same keys and
   values per source) must give equal answers whatever the insertion order, the API used and Go's map
   iteration order (`memo`).

   Strict = TRUE : a deviating run has no enabled action (the trace is rejected at that line).
   Strict = FALSE: the run is consumed and "REJECT <t> <line> <case> <signature>" is printed, so that
                   one pass classifies every deviation of a large file (known findings are widespread
                   in the input space and must not hide other deviations).                         *)
EXTENDS TraceLib, FiniteSets

CONSTANT Strict
VARIABLES dict, memo
vars == <<dict, memo>>

P == INSTANCE P_Config

NoneLits == {"none", "None", "NONE"}
Cls == [local |-> dict.local, die |-> dict.die, nonzero |-> dict.nonzero]
Keys == SeqToSet(dict.keys)

KindOfLit(x) == IF x \in NoneLits THEN "none"
                ELSE IF x = dict.lit1 THEN "v1"
                ELSE IF x = dict.lit2 THEN "v2"
                ELSE IF x = dict.litbad THEN "bad" ELSE "?"
\* raw = sequence of <<key, value>> pairs handed to the real code for one source; the pairs that
\* concern the parameter under test (any spelling of its key), and their value kinds
PairsOf(raw) == { raw[i] : i \in { j \in DOMAIN raw : raw[j][1] \in Keys } }
KindsIn(pairs) == { KindOfLit(p[2]) : p \in pairs }

\* the concrete assignment in force after each step of a run (C[i] after step i; per source the set of
\* <<key, value>> pairs for this parameter): UpdateFrom replaces the raw map of one source,
\* UpdateFromConfigUpdate ("all") replaces the maps of all sources
NoAsg == [s \in P!Sources |-> {}]
AbsOf(c) == [s \in P!Sources |-> KindsIn(c[s])]
RECURSIVE Put(_, _, _)
Put(asg, sets, j) == IF j > Len(sets) THEN asg ELSE Put([asg EXCEPT ![sets[j].src] = PairsOf(sets[j].raw)], sets, j + 1)
RECURSIVE AsgSeq(_, _, _)
AsgSeq(steps, prev, i) ==
    IF i > Len(steps) THEN <<>>
    ELSE LET cur == Put(IF steps[i].api = "all" THEN NoAsg ELSE prev, steps[i].sets, 1)
         IN  <<cur>> \o AsgSeq(steps, cur, i + 1)

\* "the default": the value the field has in a fresh config.New() or the default declared in the
\* parameter's metadata (they differ for FelixHostname only, whose effective default is the host's name)
ConcVals(v) == CASE v = "v1" -> {dict.v1} [] v = "v2" -> {dict.v2} [] v = "zero" -> {dict.zero}
                 [] v = "def" -> {dict.def, dict.mdef}
Match(st, o) == st.err = o.err /\ (~o.err => st.val \in ConcVals(o.val))
ObsC(st) == IF st.err THEN <<TRUE, "-">> ELSE <<FALSE, st.val>>

GotLabel(st) == IF st.err THEN "err"
                ELSE IF st.val = dict.v1 THEN "v1" ELSE IF st.val = dict.v2 THEN "v2"
                ELSE IF st.val \in {dict.def, dict.mdef} THEN "default" ELSE IF st.val = dict.zero THEN "zero" ELSE "other"
KindList == <<"v1", "v2", "bad", "none">>
RECURSIVE Join(_, _)
Join(K, i) == IF i > 4 THEN "" ELSE (IF KindList[i] \in K THEN KindList[i] \o "." ELSE "") \o Join(K, i + 1)
WantLabel(asg) == IF P!Setters(Cls, asg) = {} THEN "unset." ELSE Join(asg[P!Decider(Cls, asg)], 1)
ClassLabel == (IF dict.local THEN "L" ELSE "-") \o (IF dict.die THEN "D" ELSE "-") \o (IF dict.nonzero THEN "N" ELSE "-")

\* signature of step i of a run ("" = the step is what the property allows);
\* C[i] = concrete assignment in force after step i, O[i] = what the real code answered at step i.
\* Order independence is demanded for equal CONCRETE raw maps (the same keys and values handed over
\* again, in another insertion order, through another API, or just iterated differently by Go).
StepSig(steps, C, O, i) ==
    LET st  == steps[i]
        asg == AbsOf(C[i])
        allowed == P!Allowed(Cls, asg)
    IN  IF \E s \in P!Sources : "?" \in asg[s] THEN "harness:unclassified-literal"
        ELSE IF ~\E o \in allowed : Match(st, o) THEN
            IF st.err /\ P!ErrOutcome \notin allowed /\ P!ShadowedFatal(Cls, asg) # {}
              THEN "error-from-shadowed-source:" \o
                   (IF "bad" \in P!TopShadowedFatalKinds(Cls, asg) THEN "invalid-value-on-die-on-parse-failure-param"
                                                                   ELSE "none-on-non-zero-param")
              ELSE "wrong-outcome:class=" \o ClassLabel \o ":deciding=" \o WantLabel(asg) \o ":got=" \o GotLabel(st)
        ELSE IF st.err /\ ~st.errfield THEN "error-not-stored-in-Err"
        ELSE IF (\E m \in memo : m[1] = C[i] /\ m[2] # O[i]) \/ (\E j \in 1..(i - 1) : C[j] = C[i] /\ O[j] # O[i]) THEN
            IF P!Setters(Cls, asg) # {} /\ Cardinality(asg[P!Decider(Cls, asg)]) >= 2
              THEN "order-dependent:case-variant-keys-in-deciding-source"
              ELSE "order-dependent:class=" \o ClassLabel \o ":deciding=" \o WantLabel(asg)
        ELSE ""

TInit == l = 1 /\ dict = [ev |-> "none"] /\ memo = {}

TReset == IsEvent("reset") /\ dict' = Cur /\ memo' = {}
TCase  == IsEvent("case") /\ memo' = {} /\ UNCHANGED dict
TRun ==
    /\ IsEvent("run")
    /\ LET steps == Cur.steps
           C == AsgSeq(steps, NoAsg, 1)
           O == [i \in DOMAIN steps |-> ObsC(steps[i])]
           sigs == { StepSig(steps, C, O, i) : i \in DOMAIN steps } \ {""}
       IN  /\ IF sigs = {} THEN TRUE
              ELSE ~Strict /\ \A sg \in sigs : PrintT("REJECT " \o ToString(Cur.t) \o " " \o ToString(l) \o " "
                                                       \o ToString(Cur.case) \o " " \o sg)
           /\ memo' = memo \cup { <<C[i], O[i]>> : i \in DOMAIN steps }
    /\ UNCHANGED dict

TNext == TReset \/ TCase \/ TRun
TSpec == TInit /\ [][TNext]_<<vars, l>>
=============================================================================
