CONSTANTS
  Names = {1, 2, 3}
  LKeys = {2, 5}
  R = 1
  P = 1
  Q = 8
  HTabs <- AllHTabs
INIT IInit
NEXT INext
INVARIANTS ITypeOK EntriesOK OwnerIsLive OwnerIsFunctionOfSet
CHECK_DEADLOCK FALSE
