------------------------------ MODULE T_Ring ------------------------------
(* Trace specification for C45: replays the calls recorded from real hashring.Ring instances (one per
   node) against module Ring.  Verdicts come from the property layer only (owner is a current member with
   its current value; same member set and key => same owner, whatever ring/history).  With Exact = TRUE
   (T_Ring_exact.cfg) the owner is additionally compared with Owner(...) computed from the table-driven
   hash of the trace - a mismatch there is reported as drift of the implementation-shaped model.

   events   reset {r, p, q, exact, htab}     htab[s][i+1] = hash (0..q-1) of string s with salt i
            ins {n, m, ver} / rem {n, m}     Insert / Remove on node n's ring
            lookup {n, k, f, m, ver}         Lookup(k) answered (found, member, value)
            lookups {n, ks, fs, ms, vers}    a batch of Lookups with no mutation in between (parallel lists)
            len {n, len}                                                                        *)
EXTENDS TraceLib, Ring

CONSTANT Exact
VARIABLES cfgv      \* the reset record of the current trace
vars == <<members, memo, cfgv>>

TInit == l = 1 /\ PInit /\ cfgv = [exact |-> FALSE]

TReset == IsEvent("reset") /\ members' = EmptyFn /\ memo' = EmptyFn /\ cfgv' = Cur
TIns == IsEvent("ins") /\ Insert(Cur.n, Cur.m, Cur.ver) /\ UNCHANGED cfgv
TRem == IsEvent("rem") /\ Remove(Cur.n, Cur.m) /\ UNCHANGED cfgv
ExactOK == (Exact /\ cfgv.exact /\ Cur.f) =>
              Cur.m = Owner(cfgv.htab, cfgv.r, cfgv.p, cfgv.q, Live(Cur.n), Cur.k)
TLookup == /\ IsEvent("lookup")
           /\ Lookup(Cur.n, Cur.k, Cur.f, Cur.m, Cur.ver)
           /\ ExactOK = TRUE
           /\ UNCHANGED cfgv
TLookups == /\ IsEvent("lookups")
            /\ LookupBatch(Cur.n, Cur.ks, Cur.fs, Cur.ms, Cur.vers)
            /\ UNCHANGED cfgv
TLen == IsEvent("len") /\ LenIs(Cur.n, Cur.len) /\ UNCHANGED cfgv

TNext == TReset \/ TIns \/ TRem \/ TLookup \/ TLookups \/ TLen
=============================================================================
