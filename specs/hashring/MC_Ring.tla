------------------------------- MODULE MC_Ring -------------------------------
EXTENDS I_Ring
\* a handful of hash tables chosen for collisions, ties between probes and wrap-around (generator)
Row(a, b) == <<a, b>>
HT(f) == [s \in Names \cup LKeys |-> f[s]]
FixedTabs ==
  { [s \in Names \cup LKeys |-> <<0, 0>>],                                   \* everything collides
    [s \in Names \cup LKeys |-> <<s % Q, (s + 1) % Q>>],                     \* ascending, replicas interleaved
    [s \in Names \cup LKeys |-> <<(Q - 1) - (s % Q), (2 * s) % Q>>],         \* descending: probes above every entry wrap
    [s \in Names \cup LKeys |-> <<(3 * s) % Q, (3 * s) % Q>>],               \* replicas of one member collide
    [s \in Names \cup LKeys |-> <<(s * s) % Q, (s + 2) % Q>>] }
=============================================================================
