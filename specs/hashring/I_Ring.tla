------------------------------- MODULE I_Ring -------------------------------
(* C45 implementation layer: one ring as lib/datastructures/hashring/hashring.go keeps it - the members
   map, the set of keys queued for removal (swept lazily by the next Lookup), the entry table and its
   `sorted` flag - driven by a table-driven hash chosen in Init.  TLC checks exhaustively that every
   Lookup answers Owner(live members, key), a function of the live member set only, and a live member:
   the property layer's demands hold for every history and every hash table of the configuration.     *)
EXTENDS Ring

CONSTANTS Names,     \* member ids
          LKeys,     \* lookup key ids
          R, P, Q,   \* replicas, probes, size of the hash range
          HTabs      \* the hash tables to explore: functions id -> <<hash with salt 0, salt 1, ...>>

VARIABLES mem, del, entries, sorted, htab, res
ivars == <<mem, del, entries, sorted, htab, res>>

Salts == IF R > P THEN R ELSE P
AllHTabs == [Names \cup LKeys -> [1..Salts -> 0..(Q - 1)]]

IInit == /\ mem = {} /\ del = {} /\ entries = <<>> /\ sorted = FALSE /\ res = <<0, 0, {}>>
         /\ htab \in HTabs
         /\ PInit      \* the property layer's variables are not used by this module

LiveNow == mem \ del

IInsert(m) ==
    /\ IF m \in del THEN del' = del \ {m} /\ UNCHANGED <<mem, entries, sorted>>
       ELSE IF m \in mem THEN UNCHANGED <<mem, del, entries, sorted>>
       ELSE /\ mem' = mem \cup {m}
            /\ entries' = entries \o [i \in 1..R |-> <<HashOf(htab, m, i - 1), m>>]
            /\ sorted' = FALSE
            /\ UNCHANGED del
    /\ UNCHANGED <<htab, res>> /\ UNCHANGED pvars

IRemove(m) ==
    /\ del' = IF m \in mem THEN del \cup {m} ELSE del
    /\ UNCHANGED <<mem, entries, sorted, htab, res>> /\ UNCHANGED pvars

\* position of the first entry with hash >= p in a sorted table (what the binary search finds), or 1
Search(es, p) ==
    LET ge == { i \in 1..Len(es) : es[i][1] >= p } IN
    IF ge = {} THEN 1 ELSE CHOOSE i \in ge : \A j \in ge : i <= j

ILookup(k) ==
  /\ UNCHANGED pvars
  /\ IF LiveNow = {} THEN res' = <<k, 0, {}>> /\ UNCHANGED <<mem, del, entries, sorted, htab>>
    ELSE
      LET swept == SelectSeq(entries, LAMBDA e : e[2] \notin del)
          es == IF sorted THEN swept ELSE SortSeq(swept, Less)
          Cand(i) == LET p == HashOf(htab, k, i) idx == Search(es, p) IN <<Dist(Q, es[idx], p), i, idx>>
          C == { Cand(i) : i \in 0..(P - 1) }
          best == CHOOSE c \in C : \A d \in C : c = d \/ c[1] < d[1] \/ (c[1] = d[1] /\ c[2] < d[2])
      IN  /\ entries' = es /\ sorted' = TRUE /\ mem' = LiveNow /\ del' = {}
          /\ res' = <<k, es[best[3]][2], LiveNow>>
          /\ UNCHANGED htab

INext == \/ \E m \in Names : IInsert(m) \/ IRemove(m)
         \/ \E k \in LKeys : ILookup(k)

\* ---- what the design leg checks -----------------------------------------------------------------
ITypeOK == del \subseteq mem /\ htab \in AllHTabs
\* the entry table holds exactly R entries per member still in the members map, and is sorted when it says so
EntriesOK ==
    /\ Len(entries) = R * Cardinality(mem)
    /\ { entries[i] : i \in 1..Len(entries) } = Entries(htab, R, mem)
    /\ sorted => \A i \in 1..(Len(entries) - 1) : entries[i] = entries[i + 1] \/ Less(entries[i], entries[i + 1])
\* the property layer's demands: an owner from the live members, and a function of the live set only
OwnerIsLive == res[3] # {} => res[2] \in res[3]
OwnerIsFunctionOfSet == res[3] # {} => res[2] = Owner(htab, R, P, Q, res[3], res[1])
=============================================================================
