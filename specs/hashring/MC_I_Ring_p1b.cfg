CONSTANTS
  Names = {1, 2, 3}
  LKeys = {4}
  R = 1
  P = 1
  Q = 4
  HTabs <- AllHTabs
INIT IInit
NEXT INext
INVARIANTS ITypeOK EntriesOK OwnerIsLive OwnerIsFunctionOfSet
CHECK_DEADLOCK FALSE
