CONSTANTS
  Names = {1, 2}
  LKeys = {3}
  R = 2
  P = 2
  Q = 4
  HTabs <- AllHTabs
INIT IInit
NEXT INext
INVARIANTS ITypeOK EntriesOK OwnerIsLive OwnerIsFunctionOfSet
CHECK_DEADLOCK FALSE
