CONSTANTS
  Names = {1, 2, 3}
  LKeys = {4}
  R = 2
  P = 2
  Q = 4
  HTabs <- FixedTabs
  SimLen = 60
INIT GInit
NEXT GNext
VIEW GView
ACTION_CONSTRAINT EmitEdge
CHECK_DEADLOCK FALSE
