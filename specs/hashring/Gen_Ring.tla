------------------------------ MODULE Gen_Ring ------------------------------
(* Behaviour generator for C45 (leg A): I_Ring's actions with a history variable, so that the behaviours
   reach every implementation state (pending lazy removals, unsorted table, re-insert before the sweep).
   Every behaviour is one history on node 1; the emitted behaviour is completed with: look up every key on
   node 1, build a FRESH ring (node 2) from the final live member set, look up every key there.        *)
EXTENDS MC_Ring, Json

CONSTANTS SimLen
VARIABLE hist
gvars == <<mem, del, entries, sorted, htab, res, members, memo, hist>>

GInit == IInit /\ hist = << [op |-> "init", r |-> R, p |-> P, q |-> Q, htab |-> htab, keys |-> LKeys] >>

Step(a, r) == a /\ hist' = Append(hist, r)
Finish(live) == << [op |-> "lookupall", n |-> 1], [op |-> "fresh", n |-> 2, ms |-> live], [op |-> "lookupall", n |-> 2] >>

GNext ==
  \/ /\ Len(hist) = SimLen /\ hist' = hist \o Finish(mem \ del) \o << [op |-> "end"] >> /\ UNCHANGED ivars /\ UNCHANGED pvars
  \/ /\ Len(hist) < SimLen
     /\ \/ \E m \in Names : Step(IInsert(m), [op |-> "ins", n |-> 1, m |-> m, ver |-> Len(hist)])
        \/ \E m \in Names : Step(IRemove(m), [op |-> "rem", n |-> 1, m |-> m])
        \/ \E k \in LKeys : Step(ILookup(k), [op |-> "lookup", n |-> 1, k |-> k])

GView == <<mem, del, sorted, htab>>
EmitEdge == PrintT("BEH " \o ToJson(hist' \o Finish(mem' \ del')))
EmitAtLen == Len(hist) = SimLen + 4 => PrintT("BEH " \o ToJson(hist))
=============================================================================
