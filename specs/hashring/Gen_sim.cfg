CONSTANTS
  Names = {1, 2, 3, 4}
  LKeys = {3, 5, 6}
  R = 2
  P = 2
  Q = 4
  HTabs <- FixedTabs
  SimLen = 25
INIT GInit
NEXT GNext
INVARIANT EmitAtLen
CHECK_DEADLOCK FALSE
