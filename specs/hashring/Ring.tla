-------------------------------- MODULE Ring --------------------------------
(* C45 property layer.  Several nodes each keep their own consistent-hash ring
   (lib/datastructures/hashring).  The property: a Lookup returns one owner taken from the ring's CURRENT
   members (with its current value), and the owner is a function of the current member set only - not of
   the order or history of insertions and removals, nor of the node.

   State: members[n] = current members of node n's ring (member |-> last inserted value), and memo =
   the owner first observed for a (member set, key) pair (memo[M][k]); any later Lookup of the same key on ANY ring
   holding the same member set must return the same owner.  Nothing else is demanded here.

   Owner(...) below is the implementation-shaped definition of the owner for a table-driven hash (used by
   I_Ring for the design leg and by the trace spec to report *drift*, never a violation).
   Members and lookup keys are positive integers (the driver spells id 7 as the string "s007", so that
   the order of ids is the order of the strings).                                                  *)
EXTENDS Integers, FiniteSets, Sequences, TLC

VARIABLES members, memo
pvars == <<members, memo>>

EmptyFn == [x \in {} |-> 0]
PInit == members = EmptyFn /\ memo = EmptyFn

Mem(n) == IF n \in DOMAIN members THEN members[n] ELSE EmptyFn
Live(n) == DOMAIN Mem(n)

Insert(n, m, ver) ==
    /\ members' = [x \in DOMAIN members \cup {n} |->
                     IF x = n THEN [y \in Live(n) \cup {m} |-> IF y = m THEN ver ELSE Mem(n)[y]] ELSE members[x]]
    /\ UNCHANGED memo
Remove(n, m) ==
    /\ members' = [x \in DOMAIN members \cup {n} |->
                     IF x = n THEN [y \in Live(n) \ {m} |-> Mem(n)[y]] ELSE members[x]]
    /\ UNCHANGED memo
\* memo[M][k] = the owner first observed for key k on a ring holding exactly the member set M
Known(M) == IF M \in DOMAIN memo THEN memo[M] ELSE EmptyFn
Remember(M, f) == memo' = [x \in DOMAIN memo \cup {M} |-> IF x = M THEN f ELSE memo[x]]
\* Lookup(key k) on node n answered (found f, member m, value ver)
Lookup(n, k, f, m, ver) ==
    LET M == Live(n) old == Known(M) IN
    IF M = {} THEN f = FALSE /\ UNCHANGED pvars
    ELSE /\ f = TRUE
         /\ m \in M
         /\ ver = Mem(n)[m]
         /\ IF k \in DOMAIN old
              THEN old[k] = m /\ UNCHANGED pvars
              ELSE Remember(M, [x \in DOMAIN old \cup {k} |-> IF x = k THEN m ELSE old[x]]) /\ UNCHANGED members
\* a batch of Lookups on node n with no mutation in between: keys ks answered fs / ms / vers (parallel sequences)
BatchOK(n, ks, fs, ms, vers) ==
    LET M == Live(n) old == Known(M) I == 1..Len(ks) IN
    /\ Len(fs) = Len(ks) /\ Len(ms) = Len(ks) /\ Len(vers) = Len(ks)
    /\ IF M = {} THEN \A i \in I : fs[i] = FALSE
       ELSE /\ \A i \in I : fs[i] = TRUE /\ ms[i] \in M /\ vers[i] = Mem(n)[ms[i]]
            /\ \A i \in I : ks[i] \in DOMAIN old => old[ks[i]] = ms[i]
            /\ \A i, j \in I : ks[i] = ks[j] => ms[i] = ms[j]
LookupBatch(n, ks, fs, ms, vers) ==
    LET M == Live(n) old == Known(M) I == 1..Len(ks) IN
    /\ BatchOK(n, ks, fs, ms, vers) = TRUE
    /\ IF M = {} THEN UNCHANGED pvars
       ELSE /\ Remember(M, [x \in DOMAIN old \cup { ks[i] : i \in I } |->
                              IF x \in DOMAIN old THEN old[x] ELSE ms[CHOOSE i \in I : ks[i] = x]])
            /\ UNCHANGED members
LenIs(n, c) == c = Cardinality(Live(n)) /\ UNCHANGED pvars

\* ---- implementation-shaped owner for a table-driven hash --------------------------------------
\* h[s][i+1] = hash of string s with salt i, in 0..q-1 (the driver scales it to the 64-bit ring by 2^64/q,
\* so distances on the real ring are these distances times a constant); r replicas, pn probes
HashOf(h, s, i) == h[s][i + 1]
Entries(h, r, M) == UNION { { <<HashOf(h, m, i), m>> : i \in 0..(r - 1) } : m \in M }
Less(e, f) == e[1] < f[1] \/ (e[1] = f[1] /\ e[2] < f[2])
MinE(E) == CHOOSE e \in E : \A f \in E : e = f \/ Less(e, f)
\* first entry clockwise from position p (entries ordered by (hash, member)), wrapping to the smallest
Succ(E, p) == LET ge == { e \in E : e[1] >= p } IN IF ge = {} THEN MinE(E) ELSE MinE(ge)
Dist(q, e, p) == ((e[1] - p) + q) % q
Owner(h, r, pn, q, M, k) ==
    LET E == Entries(h, r, M)
        Cand(i) == LET p == HashOf(h, k, i) e == Succ(E, p) IN <<Dist(q, e, p), i, e[2]>>
        C == { Cand(i) : i \in 0..(pn - 1) }
        best == CHOOSE c \in C : \A d \in C : c = d \/ c[1] < d[1] \/ (c[1] = d[1] /\ c[2] < d[2])
    IN  best[3]
=============================================================================
