------------------------------ MODULE MC_IPAM ------------------------------
(* Model-checking constants for I_IPAM (cfg files bind HostOf etc. to these definitions). *)
EXTENDS I_IPAM
H2 == [c \in {"c1", "c2"} |-> IF c = "c1" THEN "h1" ELSE "h2"]          \* two clients on two hosts
H3 == [c \in {"c1", "c2", "c3"} |-> IF c = "c1" THEN "h1" ELSE IF c = "c2" THEN "h2" ELSE "h1"]   \* c3 shares h1
H3d == [c \in {"c1", "c2", "c3"} |-> IF c = "c1" THEN "h1" ELSE IF c = "c2" THEN "h2" ELSE "h3"]          \* three hosts
H2same == [c \in {"c1", "c2"} |-> "h1"]                                   \* two processes on one host
H1 == [c \in {"c1"} |-> "h1"]
AllOps == {"assign", "release", "relh", "relaff"}
ClaimOnly == {"claim"}
ClaimAssign == {"claim", "assign"}
ClaimRel == {"claim", "relaff"}
ClaimRelAssign == {"claim", "relaff", "assign"}
AllOpsClaim == {"assign", "release", "relh", "relaff", "claim"}
AssignOnly == {"assign"}
AssignRel == {"assign", "release", "relh"}
\* state-space reduction: P_IPAM's read sets are determined by the pcs
MCView == <<st, last, ghost, calls, caps, now, taint, pc, ops, budget, binc, capq>>
=============================================================================
