CONSTANTS
  Clients = {"c1", "c2", "c3"}
  HostOf <- H3
  NBlocks = 1
  BlockBits = 1
  Handles = {"hA"}
  Nums = {1}
  Strict = FALSE
  Cool = 0
  MaxB = 0
  TwoPools = FALSE
  RsvLast = FALSE
  MaxOps = 2
  MaxCrash = 1
  MaxConf = 1
  MaxTicks = 0
  MaxCaps = 0
  TickLen = 70
  OpKinds <- ClaimRel
  FixIncr = TRUE
INIT Init
NEXT Next
VIEW MCView
INVARIANTS NoDoubleOwner HandleNeverUndercounts AtMostOneConfirmed ConfirmedMatchesBlock HandleAgreementQuiescent
CHECK_DEADLOCK FALSE
