CONSTANTS
  Clients = {"c1", "c2"}
  HostOf <- H2
  NBlocks = 2
  BlockBits = 1
  Handles = {"hA"}
  Nums = {1, 2}
  Strict = TRUE
  Cool = 0
  MaxB = 1
  TwoPools = TRUE
  RsvLast = TRUE
  MaxOps = 2
  MaxCrash = 0
  MaxConf = 0
  MaxTicks = 0
  MaxCaps = 0
  TickLen = 70
  OpKinds <- AssignRel
  FixIncr = TRUE
INIT Init
NEXT Next
VIEW MCView
INVARIANTS NoDoubleOwner HandleNeverUndercounts AtMostOneConfirmed ConfirmedMatchesBlock BlockAffHasAff HandleAgreementQuiescent
CHECK_DEADLOCK FALSE
