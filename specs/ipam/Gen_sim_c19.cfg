CONSTANTS
  Clients = {"c1", "c2", "c3"}
  HostOf <- H3
  NBlocks = 2
  BlockBits = 1
  Handles = {"hA", "hB"}
  Nums = {1, 2}
  Strict = FALSE
  Cool = 0
  MaxB = 0
  TwoPools = FALSE
  RsvLast = FALSE
  MaxOps = 2
  MaxCrash = 0
  MaxConf = 2
  MaxTicks = 0
  MaxCaps = 0
  TickLen = 70
  OpKinds <- AssignRel
  FixIncr = FALSE
  SimLen = 70
INIT GInit
NEXT GNext
INVARIANTS EmitAtEnd
CHECK_DEADLOCK FALSE
