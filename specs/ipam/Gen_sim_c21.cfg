CONSTANTS
  Clients = {"c1", "c2"}
  HostOf <- H2
  NBlocks = 2
  BlockBits = 1
  Handles = {"hA", "hB"}
  Nums = {1, 2}
  Strict = FALSE
  Cool = 100
  MaxB = 0
  TwoPools = FALSE
  RsvLast = FALSE
  MaxOps = 3
  MaxCrash = 0
  MaxConf = 0
  MaxTicks = 3
  MaxCaps = 2
  TickLen = 70
  OpKinds <- AssignRel
  FixIncr = FALSE
  SimLen = 70
INIT GInit
NEXT GNext
INVARIANTS EmitAtEnd
CHECK_DEADLOCK FALSE
