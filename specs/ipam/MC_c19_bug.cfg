CONSTANTS
  Clients = {"c1"}
  HostOf <- H1
  NBlocks = 2
  BlockBits = 1
  Handles = {"hA", "hB"}
  Nums = {1, 2}
  Strict = FALSE
  Cool = 0
  MaxB = 0
  TwoPools = FALSE
  RsvLast = FALSE
  MaxOps = 2
  MaxCrash = 0
  MaxConf = 0
  MaxTicks = 0
  MaxCaps = 0
  TickLen = 70
  OpKinds <- AssignOnly
  FixIncr = FALSE
INIT Init
NEXT Next
VIEW MCView
INVARIANTS NoDoubleOwner HandleNeverUndercounts AtMostOneConfirmed ConfirmedMatchesBlock BlockAffHasAff HandleAgreementQuiescent
CHECK_DEADLOCK FALSE
