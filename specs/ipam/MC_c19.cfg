CONSTANTS
  Clients = {"c1", "c2"}
  HostOf <- H2
  NBlocks = 2
  BlockBits = 1
  Handles = {"hA", "hB"}
  Nums = {1, 2}
  Strict = FALSE
  Cool = 0
  MaxB = 0
  TwoPools = FALSE
  RsvLast = FALSE
  MaxOps = 1
  MaxCrash = 1
  MaxConf = 1
  MaxTicks = 0
  MaxCaps = 0
  TickLen = 70
  OpKinds <- AssignRel
  FixIncr = TRUE
INIT Init
NEXT Next
VIEW MCView
INVARIANTS NoDoubleOwner HandleNeverUndercounts AtMostOneConfirmed ConfirmedMatchesBlock BlockAffHasAff HandleAgreementQuiescent
CHECK_DEADLOCK FALSE
