CONSTANTS
  Clients = {"c1", "c2"}
  HostOf <- H2
  NBlocks = 1
  BlockBits = 1
  Handles = {"hA"}
  Nums = {1}
  Strict = FALSE
  Cool = 0
  MaxB = 0
  TwoPools = FALSE
  RsvLast = FALSE
  MaxOps = 1
  MaxCrash = 1
  MaxConf = 1
  MaxTicks = 0
  MaxCaps = 0
  TickLen = 70
  OpKinds <- ClaimOnly
  FixIncr = FALSE
  SimLen = 100
INIT GInit
NEXT GNext
INVARIANTS EmitAtEnd AtMostOneConfirmed ConfirmedMatchesBlock BlockAffHasAff
CHECK_DEADLOCK FALSE
