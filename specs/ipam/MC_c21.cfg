CONSTANTS
  Clients = {"c1", "c2"}
  HostOf <- H2
  NBlocks = 2
  BlockBits = 1
  Handles = {"hA"}
  Nums = {1}
  Strict = FALSE
  Cool = 100
  MaxB = 0
  TwoPools = FALSE
  RsvLast = FALSE
  MaxOps = 2
  MaxCrash = 0
  MaxConf = 0
  MaxTicks = 2
  MaxCaps = 1
  TickLen = 70
  OpKinds <- AssignRel
  FixIncr = TRUE
INIT Init
NEXT Next
VIEW MCView
INVARIANTS NoDoubleOwner HandleNeverUndercounts AtMostOneConfirmed ConfirmedMatchesBlock BlockAffHasAff HandleAgreementQuiescent
CHECK_DEADLOCK FALSE
