CONSTANTS
  Clients = {"c1"}
  HostOf <- H1
  NBlocks = 2
  BlockBits = 1
  Handles = {"hA", "hB"}
  Nums = {1, 2}
  Strict = FALSE
  Cool = 100
  MaxB = 0
  TwoPools = FALSE
  RsvLast = FALSE
  MaxOps = 3
  MaxCrash = 1
  MaxConf = 1
  MaxTicks = 2
  MaxCaps = 1
  TickLen = 70
  OpKinds <- AllOps
  FixIncr = TRUE
INIT Init
NEXT Next
VIEW MCView
INVARIANTS NoDoubleOwner HandleNeverUndercounts AtMostOneConfirmed ConfirmedMatchesBlock BlockAffHasAff HandleAgreementQuiescent
CHECK_DEADLOCK FALSE
