------------------------------- MODULE P_IPAM -------------------------------
(* Property layer for C19, C20, C21, C22 (the ONLY source of verdicts).

   It mirrors the compare-and-swap datastore from the recorded store calls (module KV is the contract
   of the store itself) and judges
     - every recorded store call  (KvOK):   is the answer the one a CAS store gives; is every successful
       write JUSTIFIED from the value that client read at the revision it presented, i.e. does it differ
       from that value only in ordinals / affinity the client's current API call is entitled to change;
     - every returned result      (RetOK):  returned addresses were written by that call for its handle,
       come back with the block's prefix length, releases report what they did;
     - every store state          (invariants at the end of the module).
   Nothing here is shaped like the implementation: an API call may perform any sequence of store calls.

   Values (as logged by the driver / produced by I_IPAM):
     block  : [kind |-> "block", cidr, aff (e.g. "host:h1" or ""), ords (tuple of ordinal records), ...]
              ordinal record: [s |-> "f"]  free | [s |-> "a", h |-> handle, q |-> seq]  allocated |
                              [s |-> "c"]  released, cooling down
     aff    : [kind |-> "aff", owner (e.g. "host:h1"), bk (key of its block), state]
     handle : [kind |-> "handle", id, blocks (tuple of [b |-> block key, n |-> count])]
   Time is the harness's virtual clock in seconds (real clock + the shifts applied to stored stamps). *)
EXTENDS Integers, Sequences, FiniteSets, TLC, Nets, Selectors, KV

VARIABLES
    env,      \* the universe of the trace: hosts, namespaces, pools, reservations, IPAM config, ...
    st,       \* the datastore: key |-> [rev, val]
    last,     \* key |-> last revision ever used
    ghost,    \* block key |-> [ep, o : tuple of [gen, rel, fs]]  (allocation generation, release time, free-since rank)
    reads,    \* client |-> set of [key, rev, val] it read (or wrote) during its current API call
    calls,    \* client |-> the API call in flight (DOMAIN = busy clients), with accumulators
    caps,     \* capture id |-> [ip, gen]  (sequence numbers captured by the harness, as a GC scan would)
    now,      \* virtual time of the latest store call
    taint     \* a crash or an injected transport error happened: handle counts may legitimately over-count

pvars == <<env, st, last, ghost, reads, calls, caps, now, taint>>

PInit(e) ==
    /\ env = e /\ st = Empty /\ last = Empty /\ ghost = Empty /\ reads = Empty /\ calls = Empty
    /\ caps = Empty /\ now = 0 /\ taint = FALSE

\* ---- values ------------------------------------------------------------------------------------------
KeysOf(kind) == { k \in DOMAIN st : st[k].val.kind = kind }
BlockKeys == KeysOf("block")
AffKeys == KeysOf("aff")
HandleKeys == KeysOf("handle")

NOrds(b) == Len(b.ords)
Ord(b, o) == b.ords[o + 1]                       \* ordinals count from 0
Ords(b) == 0..(NOrds(b) - 1)
\* blocks are at most 256 addresses and aligned, so the ordinal only touches the last octet
NthAddr(c, o) == LET base == FirstAddr(c) IN [i \in 1..Len(base) |-> IF i = Len(base) THEN base[i] + o ELSE base[i]]
AddrOf(b, o) == NthAddr(b.cidr, o)
Allocated(b) == { o \in Ords(b) : Ord(b, o).s = "a" }
NoAllocs(b) == Allocated(b) = {}
OwnedBy(b, h) == { o \in Ords(b) : Ord(b, o).s = "a" /\ Ord(b, o).h = h }
HostAff(h) == "host:" \o h

Reserved(a) == \E i \in DOMAIN env.rsv : ContainsAddr(env.rsv[i], a)

\* the pools an auto-assign request may draw from (C20): enabled, allowed for the use, and either named
\* explicitly by the request (the code then ignores selectors - documented behaviour) or selecting the
\* request's node and namespace
PoolAllows(p, call) ==
    /\ ~p.disabled
    /\ \E i \in DOMAIN p.uses : p.uses[i] = call.use
    /\ IF Len(call.pools) > 0
         THEN \E i \in DOMAIN call.pools : SameNet(call.pools[i], p.cidr)
         ELSE /\ Eval(p.nsel, env.hosts[call.host], env.ct)
              /\ Eval(p.ssel, IF call.ns = "" THEN << >> ELSE env.nss[call.ns], env.ct)
PoolOK(call, a) == \E i \in DOMAIN env.pools : ContainsAddr(env.pools[i].cidr, a) /\ PoolAllows(env.pools[i], call)

Cap(call) ==
    LET g == env.cfg.maxb
        r == call.maxb
        m == IF g > 0 /\ r > 0 THEN (IF r > g THEN g ELSE r) ELSE IF r = 0 THEN g ELSE r
    IN IF m = 0 THEN 20 ELSE m

\* ---- ghost state ---------------------------------------------------------------------------------------
G0(n) == [ep |-> 0, o |-> [i \in 1..n |-> [gen |-> 0, rel |-> -1, fs |-> 0]]]
GhostOf(bk, n) == IF bk \in DOMAIN ghost THEN ghost[bk] ELSE G0(n)
Gen(bk, o) == IF bk \in DOMAIN ghost THEN ghost[bk].o[o + 1].gen ELSE 0
\* has the cooldown of ordinal o (released at the harness time recorded in ghost) passed at time t?
Cooled(bk, o, t) ==
    LET r == IF bk \in DOMAIN ghost THEN ghost[bk].o[o + 1].rel ELSE -1
    IN r < 0 \/ t - r >= env.cfg.cool - env.slack

AllFree(b) == [b EXCEPT !.ords = [i \in DOMAIN b.ords |-> [s |-> "f"]], !.aff = ""]

\* ghost after a block write old -> new (old = AllFree for a create, new = AllFree for a delete)
GhostStep(bk, old, new, t, created) ==
    LET g == GhostOf(bk, NOrds(new))
        base == IF created THEN [g EXCEPT !.ep = 0, !.o = [i \in DOMAIN g.o |-> [g.o[i] EXCEPT !.fs = 0]]] ELSE g
        frees == \E o \in Ords(new) : Ord(new, o).s = "f" /\ Ord(old, o).s # "f"
        ep2 == IF frees THEN base.ep + 1 ELSE base.ep
        one(o) == LET x == base.o[o + 1]  a == Ord(old, o).s  b == Ord(new, o).s IN
                  [gen |-> IF b = "a" /\ Ord(old, o) # Ord(new, o) THEN x.gen + 1 ELSE x.gen,
                   rel |-> IF a = "a" /\ b # "a" THEN t ELSE IF a = "f" /\ b = "c" THEN t ELSE x.rel,
                   fs  |-> IF b = "f" /\ a # "f" THEN ep2 ELSE x.fs]
    IN [ep |-> ep2, o |-> [i \in DOMAIN base.o |-> one(i - 1)]]

\* ---- what an API call is entitled to change (C19 justification, C20, C21, C22) -------------------------
MayFree(call, bk, o, addr, old) ==
    CASE call.op = "release" ->
            \E i \in DOMAIN call.opts :
                LET x == call.opts[i] IN
                /\ x.ip = addr
                /\ (x.h = "" \/ x.h = old.h)                                    \* C21: other handle => not freed
                /\ (x.cap = 0 \/ (x.cap \in DOMAIN caps /\ caps[x.cap].gen = Gen(bk, o)))  \* C21: stale seq => not freed
      [] call.op = "relh" -> old.h = call.h                                    \* C21: exactly that handle's addresses
      [] OTHER -> FALSE

MayAlloc(call, b, addr, new) ==
    /\ call.op = "assign"
    /\ new.h = call.h
    /\ PoolOK(call, addr)                                                       \* C20
    /\ ~Reserved(addr)                                                          \* C20
    /\ env.cfg.strict => b.aff = HostAff(call.host)                             \* C20 / C22: strict affinity

Entitled(call, bk, b, o, old, new, t) ==
    LET addr == AddrOf(b, o) IN
    CASE old = new -> TRUE
      [] old.s = "a" /\ new.s = "a" -> FALSE                                    \* nobody re-labels a live allocation
      [] old.s = "a" -> MayFree(call, bk, o, addr, old)
      \* C21 cooldown: whatever happened in between (cooling, deallocated, block deleted and re-created), an
      \* address is not handed out before its last release + cooldown
      \* (an assignment BY ADDRESS, ipam.AssignIP, takes exactly the named address for its handle; the caller
      \*  chose the address, so neither the pool filters nor the cooldown of auto-assignment are demanded of it)
      [] new.s = "a" -> IF call.op = "assignip" THEN new.h = call.h /\ addr = call.ip
                        ELSE MayAlloc(call, b, addr, new) /\ Cooled(bk, o, t)
      [] OTHER -> TRUE

\* C21 longest-free first: an auto-assign must not take an address while leaving free (and usable) one
\* that became free in an earlier store write
FifoOK(call, bk, old, new) ==
    LET g == GhostOf(bk, NOrds(new))
        rank(o) == IF Ord(old, o).s = "f" THEN g.o[o + 1].fs ELSE g.ep + 1
        taken == { o \in Ords(new) : Ord(new, o).s = "a" /\ Ord(old, o).s # "a" }
        left == { o \in Ords(new) : Ord(new, o).s = "f" /\ ~Reserved(AddrOf(new, o)) }
    IN call.op = "assign" => \A o \in taken, p \in left : rank(p) >= rank(o)

\* C22: who may take a block away from its owner (delete it or clear its affinity)
MayUnaffine(call, oldb) ==
    IF call.op = "relaff" /\ oldb.aff = HostAff(call.host)
      THEN call.empty => NoAllocs(oldb)
      ELSE NoAllocs(oldb)               \* reclaim / pool-mismatch clean-up: only empty blocks
AffChangeOK(call, oldb, newaff, created, bk) ==
    CASE oldb.aff = newaff -> TRUE
      [] oldb.aff = "" -> /\ created                                            \* only a create gives a block an owner
                          /\ call.op \in {"assign", "assignip", "claim"} /\ newaff = HostAff(call.host)
                          \* (that the owner's claim exists at this instant is part of BlockAffHasAff: soft channel)
      [] newaff = "" -> MayUnaffine(call, oldb)
      [] OTHER -> FALSE

ReadAt(c, k, rev) == rev # 0 /\ \E r \in reads[c] : r.key = k /\ r.rev = rev
ValueRead(c, k, rev) == (CHOOSE r \in reads[c] : r.key = k /\ r.rev = rev).val

BlockWriteOK(e, call) ==
    LET created == e.op = "create"
        deleted == e.op = "delete"
    IN IF ~created /\ ~ReadAt(e.c, e.key, e.rev) THEN FALSE                     \* C19: CAS from what it read
       ELSE LET old == IF created THEN AllFree(e.val) ELSE ValueRead(e.c, e.key, e.rev)
                new == IF deleted THEN AllFree(old) ELSE e.val
            IN /\ NOrds(new) = NOrds(old) /\ new.cidr = old.cidr
               /\ \A o \in Ords(new) : Entitled(call, e.key, new, o, Ord(old, o), Ord(new, o), e.now)
               /\ AffChangeOK(call, old, new.aff, created, e.key)
               /\ FifoOK(call, e.key, old, new)

AffWriteOK(e, call) ==
    /\ e.op \in {"update", "delete"} => ReadAt(e.c, e.key, e.rev)
    /\ e.op = "create" => /\ call.op \in {"assign", "assignip", "claim"} /\ e.val.owner = HostAff(call.host)
                          /\ e.val.state = "pending"                            \* C22: two-phase claim
    /\ (e.op = "update" /\ e.val.state = "confirmed") =>                        \* C22: confirm only what the block says
          /\ e.val.bk \in BlockKeys /\ st[e.val.bk].val.aff = e.val.owner
          \* C20 (sequential histories): the host stays within its block cap
          /\ (env.mode = "seq" /\ call.op = "assign" /\ e.key \in call.tried) =>
                Cardinality({ k \in AffKeys \cup {e.key} :
                                 LET v == IF k = e.key THEN e.val ELSE st[k].val IN
                                 /\ v.owner = e.val.owner /\ (v.state = "confirmed" \/ k = e.key)
                                 /\ v.bk \in BlockKeys /\ PoolOK(call, FirstAddr(st[v.bk].val.cidr)) }) <= Cap(call)

\* C20, literal reading of "a host never holds more affine blocks than the configured cap": ALL confirmed claims
\* of the host, also those in pools the current request may not use (AffWriteOK counts only the latter, which is
\* what the code guarantees).  Reported on the soft channel (see KvApply).
ConfirmedOf(owner, e) ==
    Cardinality({ k \in AffKeys \cup {e.key} :
                     LET v == IF k = e.key THEN e.val ELSE st[k].val IN v.owner = owner /\ (v.state = "confirmed" \/ k = e.key) })
CapExceededLiterally(e) ==
    /\ e.inj = "" /\ e.err = "" /\ e.kind = "aff" /\ e.op = "update" /\ e.val.state = "confirmed"
    /\ env.mode = "seq" /\ env.cfg.maxb > 0
    /\ e.c \in DOMAIN calls /\ calls[e.c].op = "assign" /\ e.key \in calls[e.c].tried
    /\ ConfirmedOf(e.val.owner, e) > env.cfg.maxb

HandleWriteOK(e, call) == e.op \in {"update", "delete"} => ReadAt(e.c, e.key, e.rev)

\* ---- the judgement of one recorded store call -----------------------------------------------------------
IsWrite(e) == e.op \in {"create", "update", "apply", "delete"}
KvOK(e) ==
    /\ e.c \in DOMAIN calls
    /\ e.now >= now
    /\ IF e.inj # ""
         THEN e.err = e.inj                                                     \* injected fault: store untouched
         ELSE /\ IF e.op = "list"
                   THEN ListConforms(st, e.items,
                            LAMBDA k, x : x.val.kind = e.kind /\ ((e.kind = "aff" /\ e.owner # "") => x.val.owner = e.owner))
                   ELSE Conforms(st, last, e)
              /\ (IsWrite(e) /\ e.err = "") =>
                    CASE e.kind = "block" -> BlockWriteOK(e, calls[e.c])
                      [] e.kind = "aff" -> AffWriteOK(e, calls[e.c])
                      [] e.kind = "handle" -> HandleWriteOK(e, calls[e.c])
                      [] OTHER -> TRUE

\* addresses of block value b that are not allocated
FreeAddrs(b) == { AddrOf(b, o) : o \in { x \in Ords(b) : Ord(b, x).s # "a" } }
AllocAddrs(s) == UNION { { AddrOf(s[k].val, o) : o \in Allocated(s[k].val) } : k \in { x \in DOMAIN s : s[x].val.kind = "block" } }

KvApply(e) ==
    LET ok == e.inj = "" /\ e.err = ""
        wr == ok /\ IsWrite(e)
        st2 == IF wr THEN After(st, e.op, e.key, e.nrev, e.val) ELSE st
        isb == wr /\ e.kind = "block"
        oldb == IF e.op = "create" THEN AllFree(e.val) ELSE st[e.key].val
        newb == IF e.op = "delete" THEN AllFree(oldb) ELSE e.val
        took == IF isb THEN { [a |-> AddrOf(newb, o), n |-> newb.cidr.n] : o \in { x \in Ords(newb) : Ord(newb, x).s = "a" /\ Ord(oldb, x) # Ord(newb, x) } } ELSE {}
        gave == IF isb THEN { AddrOf(newb, o) : o \in { x \in Ords(newb) : Ord(oldb, x).s = "a" /\ Ord(newb, x).s # "a" } } ELSE {}
        claim == IF e.inj = "" /\ e.op = "create" /\ e.kind = "aff" THEN {e.key} ELSE {}
        allocNow == AllocAddrs(st2)
        got == IF ~ok THEN {}
               ELSE IF e.op = "get" THEN {[key |-> e.key, rev |-> e.orev, val |-> e.val]}
               ELSE IF e.op = "list" THEN { [key |-> e.items[i].key, rev |-> e.items[i].rev, val |-> e.items[i].val] : i \in DOMAIN e.items }
               ELSE IF e.op \in {"create", "update", "apply"} THEN {[key |-> e.key, rev |-> e.nrev, val |-> e.val]}
               ELSE {}
    IN
    /\ st' = st2
    /\ last' = IF wr THEN LastAfter(last, e.op, e.key, e.nrev) ELSE last
    /\ ghost' = IF isb THEN Put(ghost, e.key, GhostStep(e.key, oldb, newb, e.now, e.op = "create")) ELSE ghost
    /\ reads' = [reads EXCEPT ![e.c] = @ \cup got]
    /\ calls' = [c \in DOMAIN calls |->
                    LET x == calls[c] IN
                    IF c = e.c
                      THEN [x EXCEPT !.wrote = @ \cup took, !.freed = @ \cup gave, !.tried = @ \cup claim,
                                     !.faulted = @ \/ e.inj # "",
                                     !.seenUn = @ \cup (IF wr /\ x.op = "release" THEN { x.opts[i].ip : i \in DOMAIN x.opts } \ allocNow ELSE {})]
                      ELSE [x EXCEPT !.excl = @ /\ ~wr,
                                     !.seenUn = @ \cup (IF wr /\ x.op = "release" THEN { x.opts[i].ip : i \in DOMAIN x.opts } \ allocNow ELSE {})]]
    \* C22 BlockAffHasAff on the soft channel: a block whose recorded owner holds no claim appears with this write
    /\ LET orphans(s) == { b \in { k \in DOMAIN s : s[k].val.kind = "block" } :
                              /\ s[b].val.aff # ""
                              /\ ~\E k \in DOMAIN s : s[k].val.kind = "aff" /\ s[k].val.bk = b /\ s[k].val.owner = s[b].val.aff }
           fresh == orphans(st2) \ orphans(st)
       IN IF fresh = {} THEN TRUE
          ELSE PrintT(<<"SOFT", "orphan-block", e.t, { <<st2[b].val.aff, b, e.n, 0>> : b \in fresh }>>)
    /\ IF CapExceededLiterally(e) THEN PrintT(<<"SOFT", "block-cap", e.t, {<<e.val.owner, e.key, ConfirmedOf(e.val.owner, e), env.cfg.maxb>>}>>) ELSE TRUE
    /\ now' = e.now
    /\ taint' = (taint \/ e.inj = "error")
    /\ UNCHANGED <<env, caps>>

\* ---- API call begins / returns ----------------------------------------------------------------------------
CallOK(e) == e.c \notin DOMAIN calls
CallApply(e) ==
    LET allocNow == AllocAddrs(st)
        un == IF e.op = "release" THEN { e.opts[i].ip : i \in DOMAIN e.opts } \ allocNow ELSE {}
        rec == [ x \in DOMAIN e \cup {"wrote", "freed", "tried", "faulted", "seenUn", "excl", "unAtStart"} |->
                 CASE x = "wrote" -> {} [] x = "freed" -> {} [] x = "tried" -> {} [] x = "faulted" -> FALSE [] x = "seenUn" -> un
                   [] x = "excl" -> DOMAIN calls = {} [] x = "unAtStart" -> un [] OTHER -> e[x] ]
    IN /\ calls' = Put([c \in DOMAIN calls |-> [calls[c] EXCEPT !.excl = FALSE]], e.c, rec)
       /\ reads' = Put(reads, e.c, {})
       /\ UNCHANGED <<env, st, last, ghost, caps, now, taint>>

HandleCount(h, bk) ==
    LET hk == { k \in HandleKeys : st[k].val.id = h } IN
    IF hk = {} THEN 0
    ELSE LET v == st[CHOOSE k \in hk : TRUE].val
             idx == { i \in DOMAIN v.blocks : v.blocks[i].b = bk }
         IN IF idx = {} THEN 0 ELSE v.blocks[CHOOSE i \in idx : TRUE].n
HandleIds == { st[k].val.id : k \in HandleKeys } \cup UNION { { Ord(st[k].val, o).h : o \in Allocated(st[k].val) } : k \in BlockKeys }
HandleBlocks == BlockKeys \cup UNION { { st[k].val.blocks[i].b : i \in DOMAIN st[k].val.blocks } : k \in HandleKeys }
Owned(h, bk) == IF bk \in BlockKeys THEN Cardinality(OwnedBy(st[bk].val, h)) ELSE 0
HandleMismatches ==
    { x \in { <<h, bk, HandleCount(h, bk), Owned(h, bk)>> : h \in HandleIds, bk \in HandleBlocks } : x[3] # x[4] }

RetOK(e) ==
    /\ e.c \in DOMAIN calls /\ calls[e.c].op = e.op
    /\ LET call == calls[e.c] IN
       CASE e.op = "assign" ->
               \* C19 ReturnedIsRecorded: each returned address was written by this call for its handle
               \* (and, when nobody interfered, is still recorded for it at return time);
               \* C20: it comes back with its block's prefix length
               \A i \in DOMAIN e.ips :
                  /\ \E w \in call.wrote : w.a = e.ips[i].a /\ w.n = e.ips[i].n
                  /\ call.excl => \E k \in BlockKeys : \E o \in OwnedBy(st[k].val, call.h) : AddrOf(st[k].val, o) = e.ips[i].a
         [] e.op = "release" ->
               \* C21: an address is only reported released if it was seen unallocated during the call
               \* or this call freed it (a stale / foreign request can do neither)
               /\ \A i \in DOMAIN e.released :
                     \/ e.released[i] \in call.seenUn
                     \/ e.released[i] \in call.freed
               /\ \A i \in DOMAIN e.unalloc : e.unalloc[i] \in call.seenUn
               \* C21: releasing what is not allocated is a harmless no-op
               /\ (call.excl /\ { call.opts[i].ip : i \in DOMAIN call.opts } \subseteq call.unAtStart) =>
                     /\ call.freed = {} /\ call.wrote = {}
                     \* (a request carrying a sequence number may answer "bad sequence number": the stamp of a
                     \*  released address is no longer the captured one - reported, still harmless)
                     \* (and a call that was hit by an injected datastore fault may of course fail)
                     /\ (~call.faulted /\ \A i \in DOMAIN call.opts : call.opts[i].cap = 0) => e.err = ""
         [] e.op = "relh" ->
               \* C21: an undisturbed successful release-by-handle leaves the handle no address
               (call.excl /\ e.err = "") => \A k \in BlockKeys : OwnedBy(st[k].val, call.h) = {}
         [] OTHER -> TRUE

RetApply(e) ==
    LET calls2 == [c \in DOMAIN calls \ {e.c} |-> calls[c]]
        mism == IF DOMAIN calls2 = {} /\ ~taint THEN HandleMismatches ELSE {}
    IN /\ calls' = calls2
       \* C19 HandleAgreement at crash-free quiescent points: reported on the soft channel (the trace goes on)
       /\ IF mism = {} THEN TRUE ELSE PrintT(<<"SOFT", "handle-agreement", e.t, mism>>)
       /\ UNCHANGED <<env, st, last, ghost, reads, caps, now, taint>>

\* a client dies: its call never returns (no further events from it)
CrashOK(e) == e.c \in DOMAIN calls
CrashApply(e) ==
    /\ calls' = [c \in DOMAIN calls \ {e.c} |-> calls[c]]
    /\ taint' = TRUE
    /\ UNCHANGED <<env, st, last, ghost, reads, caps, now>>

TickApply(d) == now' = now + d /\ UNCHANGED <<env, st, last, ghost, reads, calls, caps, taint>>

\* the harness captures the sequence number of an address (as a GC scan would): remember its generation
CaptureApply(e) ==
    LET bks == { k \in BlockKeys : ContainsAddr(st[k].val.cidr, e.ip) }
        g == IF bks = {} THEN -1
             ELSE LET bk == CHOOSE k \in bks : TRUE
                      o == Ordinal(st[bk].val.cidr, e.ip)
                  IN IF Ord(st[bk].val, o).s = "a" THEN Gen(bk, o) ELSE -1
    IN /\ caps' = Put(caps, e.id, [ip |-> e.ip, gen |-> g])
       /\ UNCHANGED <<env, st, last, ghost, reads, calls, now, taint>>

\* ---- invariants of every store state ------------------------------------------------------------------------
\* C19: no address is allocated in two blocks (inside one block an ordinal has one owner by construction)
NoDoubleOwner ==
    \A k1, k2 \in BlockKeys :
        (k1 # k2 /\ Intersects(st[k1].val.cidr, st[k2].val.cidr)) =>
            { AddrOf(st[k1].val, o) : o \in Allocated(st[k1].val) } \cap { AddrOf(st[k2].val, o) : o \in Allocated(st[k2].val) } = {}
\* C19: a handle never counts fewer addresses than it owns in a block (at every instant, crashes included)
HandleNeverUndercounts ==
    \A k \in BlockKeys : \A o \in Allocated(st[k].val) :
        LET h == Ord(st[k].val, o).h IN h # "" => HandleCount(h, k) >= Owned(h, k)
\* C22: at most one confirmed claim per block
AtMostOneConfirmed ==
    \A k1, k2 \in AffKeys :
        (st[k1].val.bk = st[k2].val.bk /\ st[k1].val.state = "confirmed" /\ st[k2].val.state = "confirmed") => k1 = k2
\* C22: a confirmed claim is what its block records
ConfirmedMatchesBlock ==
    \A k \in AffKeys : st[k].val.state = "confirmed" =>
        (st[k].val.bk \in BlockKeys /\ st[st[k].val.bk].val.aff = st[k].val.owner)
\* C22: a block's recorded owner holds a claim on it
BlockAffHasAff ==
    \A b \in BlockKeys : st[b].val.aff # "" =>
        \E k \in AffKeys : st[k].val.bk = b /\ st[k].val.owner = st[b].val.aff
\* C19 HandleAgreement (hard form, used by the design leg): crash-free quiescent states agree exactly
HandleAgreementQuiescent == (DOMAIN calls = {} /\ ~taint) => HandleMismatches = {}
=============================================================================
