------------------------------ MODULE Gen_IPAM ------------------------------
(* Schedule generator for C19-C22 (leg A): I_IPAM's actions with a history variable.  A behaviour is the
   sequence  cfg, (start | step | crash | tick | capture)*, end  that harness/cmd/ipam replays through the
   gate: "step c" = let client c make its next store call (kop/kkind = the call I_IPAM expects, used only to
   count drift), conf = inject a CAS conflict on it.
     - Gen_sim*.cfg   : `-simulate`, one behaviour per random walk (printed when the walk ends);
     - Gen_claim*.cfg : exhaustive, hist is part of the state, so EVERY interleaving (with every crash point)
                        of the concurrent claimers is a distinct path and is printed at its end.       *)
EXTENDS MC_IPAM, Json

CONSTANTS SimLen
VARIABLE hist
gvars == <<vars, hist>>

CfgRec == [op |-> "cfg", strict |-> Strict, cool |-> Cool, maxb |-> MaxB, twopools |-> TwoPools, rsvlast |-> RsvLast,
           nblocks |-> NBlocks, blockbits |-> BlockBits, hosts |-> HostOf, tick |-> TickLen]
GInit == Init /\ hist = <<CfgRec>>

Ended == hist[Len(hist)].op = "end"
Done == \A c \in Clients : pc[c].l = "dead" \/ (pc[c].l = "idle" /\ ops[c] = MaxOps)
Stop == Len(hist) >= SimLen \/ Done
StepRec(c, conf) == LET e == EvOf(c, pc[c]) IN [op |-> "step", c |-> c, kop |-> e.op, kkind |-> e.kind, conf |-> conf]

GNext ==
    \/ /\ ~Ended /\ NoRet /\ Stop /\ hist' = Append(hist, [op |-> "end"]) /\ UNCHANGED vars
    \/ /\ ~Ended /\ \E c \in Clients : Ret(c) /\ UNCHANGED hist
    \/ /\ ~Ended /\ ~Stop
       /\ \/ \E c \in Clients : Step(c, FALSE) /\ hist' = Append(hist, StepRec(c, FALSE))
          \/ \E c \in Clients : Step(c, TRUE) /\ hist' = Append(hist, StepRec(c, TRUE))
          \/ \E c \in Clients : Crash(c) /\ hist' = Append(hist, [op |-> "crash", c |-> c])
          \/ \E c \in Clients : \E call \in CallsFor(c) : Start(c, call) /\ hist' = Append(hist, [op |-> "start", c |-> c, call |-> call])
          \/ Tick /\ hist' = Append(hist, [op |-> "tick"])
          \/ \E a \in Addrs : Capture(a) /\ hist' = Append(hist, [op |-> "capture", ip |-> a])

EmitAtEnd == Ended => PrintT("BEH " \o ToJson(hist))
=============================================================================
