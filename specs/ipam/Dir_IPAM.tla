------------------------------ MODULE Dir_IPAM ------------------------------
(* Directed schedules for C22 (leg A): scripts over I_IPAM's actions.  A script is a sequence of
      start c call | step c | run c (let c finish its API call) | until c label (let c run until it is about to make
      the store call of that I_IPAM label, i.e. PAUSE it there) | crash c | tick
   TLC executes every script of `Scripts` through I_IPAM (so each store call is built, judged by P_IPAM's KvOK and
   applied exactly as in the design leg: a script that is not a behaviour of the protocol, or that P_IPAM rejects
   on the model, fails the run) and prints the resulting gate schedule (start / step / crash records) for
   harness/cmd/ipam.  The replay only says WHO moves; what the real client does at its pause points is its own
   business - which is the point: the histories below are the ones in which a wrong getBlockFromAffinity shows.

   Universe: one block of two addresses; hosts h1 (c1, c6), h2 (c2, c3), h3 (c4, c5): a second client of a host
   is "the host restarted" (after a crash) or "another process of the host".

   Families:
     Stale(..)    - other hosts crash between the two claim phases (pending claims left behind), h1 claims the
                    block, assigns an address and releases its affinity while the block is NOT empty (the block
                    stays with no affinity); the crashed hosts restart and auto-assign.      [left-over claims]
     HalfRel(..)  - h1's own non-empty release crashes at any of its store calls; h1 auto-assigns again.
     Race(p1,p2,..) - h1 owns the (empty) block; process 1 of h1 runs ReleaseAffinity(mustBeEmpty) and is paused
                    before store call p1; process 2 of h1 auto-assigns (re-confirm path of getBlockFromAffinity)
                    and is paused before store call p2; process 1 finishes; h2 auto-assigns (claims the freed
                    CIDR); process 2 carries on or crashes.                         [release / re-confirm / claim] *)
EXTENDS Gen_IPAM

CONSTANT Family          \* "c22" | "c20": which script family this run executes
VARIABLES sp, script
dvars == <<gvars, sp, script>>

HD == [c \in {"c1", "c2", "c3", "c4", "c5", "c6"} |->
         CASE c \in {"c1", "c6"} -> "h1" [] c \in {"c2", "c3"} -> "h2" [] OTHER -> "h3"]

Assign(h, hd, n) == [op |-> "assign", host |-> h, h |-> hd, num |-> n, use |-> "Workload", ns |-> "", maxb |-> 0, pools |-> << >>]
Claim(h) == [op |-> "claim", host |-> h, blk |-> 1]
RelAff(h, must) == [op |-> "relaff", host |-> h, blk |-> 1, empty |-> must]
Go(c, call) == [op |-> "start", c |-> c, call |-> call]
St(c) == [op |-> "step", c |-> c]
Run(c) == [op |-> "run", c |-> c]
Until(c, lab) == [op |-> "until", c |-> c, l |-> lab]
Cr(c) == [op |-> "crash", c |-> c]

\* a claimer that dies between the two phases: ClaimAffinity after `create affinity`, or AutoAssign after it
DieClaiming(c, viaAssign) ==
    IF viaAssign THEN <<Go(c, Assign(HD[c], "hB", 1)), Until(c, "a_getblk"), Cr(c)>>
    ELSE <<Go(c, Claim(HD[c])), St(c), Cr(c)>>

Stale(viaAssign, two) ==
    DieClaiming("c2", viaAssign) \o (IF two THEN DieClaiming("c4", ~viaAssign) ELSE << >>) \o
    <<Go("c1", Assign("h1", "hA", 1)), Run("c1"), Go("c1", RelAff("h1", FALSE)), Run("c1"),
      Go("c3", Assign("h2", "hB", 1)), Run("c3")>> \o
    (IF two THEN <<Go("c5", Assign("h3", "hB", 1)), Run("c5")>> ELSE << >>)

HalfRel(lab) ==
    <<Go("c1", Assign("h1", "hA", 1)), Run("c1"), Go("c1", RelAff("h1", FALSE)), Until("c1", lab), Cr("c1"),
      Go("c6", Assign("h1", "hB", 1)), Run("c6")>>

Race(p1, p2, dies) ==
    <<Go("c1", Claim("h1")), Run("c1"), Go("c1", RelAff("h1", TRUE)), Until("c1", p1),
      Go("c6", Assign("h1", "hA", 1)), Until("c6", p2), Run("c1"),
      Go("c2", Assign("h2", "hB", 1)), Run("c2"), IF dies THEN Cr("c6") ELSE Run("c6")>>

Scripts ==
    { Stale(v, t) : v, t \in BOOLEAN } \cup
    { HalfRel(l) : l \in {"f_updblk", "f_delaff"} } \cup
    { Race(p1, p2, d) : p1 \in {"f_mark", "f_delblk", "f_delaff"},
                        p2 \in {"a_getaff", "a_getblk", "a_rc1", "a_rc2", "a_rc3", "a_gethdl"}, d \in BOOLEAN }

(* C20 family (run with Strict = TRUE): the block changes owner between a strict-affinity auto-assign's read and its
   write.  h1 owns the empty block; process 2 of h1 auto-assigns and is paused before `p2` (after it loaded the
   block); process 1 of h1 releases the affinity (block and claim deleted); h2 claims the same CIDR and allocates
   from it; process 2 resumes: its block write loses the CAS, it re-reads the block - now affine to h2 - and must
   not take an address from it (requests fail rather than violate strict affinity).                        *)
Stolen(p2, must, viaClaim) ==
    <<Go("c1", Claim("h1")), Run("c1"),
      Go("c6", Assign("h1", "hA", 1)), Until("c6", p2),
      Go("c1", RelAff("h1", must)), Run("c1")>> \o
    (IF viaClaim THEN <<Go("c2", Claim("h2")), Run("c2")>> ELSE << >>) \o
    <<Go("c2", Assign("h2", "hB", 1)), Run("c2"), Run("c6")>>
ScriptsC20 == { Stolen(p, m, v) : p \in {"a_gethdl", "a_puthdl", "a_putblk"}, m, v \in BOOLEAN }

DInit == GInit /\ sp = 1 /\ script \in (IF Family = "c20" THEN ScriptsC20 ELSE Scripts)

Advance == sp' = sp + 1 /\ UNCHANGED gvars
DNext ==
    \/ \E c \in Clients : Ret(c) /\ UNCHANGED <<hist, sp, script>>
    \/ /\ NoRet /\ ~Ended /\ sp > Len(script)
       /\ hist' = Append(hist, [op |-> "end"]) /\ UNCHANGED <<vars, sp, script>>
    \/ /\ NoRet /\ sp <= Len(script) /\ UNCHANGED script
       /\ LET s == script[sp]  c == s.c IN
          CASE s.op = "start" -> Start(c, s.call) /\ hist' = Append(hist, s) /\ sp' = sp + 1
            [] s.op = "step" -> Step(c, FALSE) /\ hist' = Append(hist, StepRec(c, FALSE)) /\ sp' = sp + 1
            [] s.op = "run" -> IF Busy(c) THEN Step(c, FALSE) /\ hist' = Append(hist, StepRec(c, FALSE)) /\ sp' = sp
                               ELSE Advance
            [] s.op = "until" -> IF Busy(c) /\ pc[c].l # s.l
                                   THEN Step(c, FALSE) /\ hist' = Append(hist, StepRec(c, FALSE)) /\ sp' = sp
                                   ELSE Advance
            [] s.op = "crash" -> IF Busy(c) THEN Crash(c) /\ hist' = Append(hist, s) /\ sp' = sp + 1 ELSE Advance
=============================================================================
