------------------------------- MODULE T_IPAM -------------------------------
(* Trace specification for C19-C22: replays the ndjson trace recorded by harness/cmd/ipam (memkv's call log
   in linearization order + call / return / crash / tick / capture events) against P_IPAM.  Every line must
   be accepted by P_IPAM's judgement of that event (KvOK / CallOK / RetOK / CrashOK), and P_IPAM's state
   invariants are checked in every state (T_IPAM.cfg).  The quiescent handle-agreement check is reported
   on the soft channel (a PrintT line per failing return) so that one TLC run classifies every trace.   *)
EXTENDS TraceLib, P_IPAM

EnvOf(r) == [hosts |-> r.hosts, nss |-> r.nss, pools |-> r.pools, rsv |-> r.rsv, cfg |-> r.cfg, ct |-> r.ct,
             slack |-> r.slack, mode |-> r.mode]
Env0 == [mode |-> "none"]

TInit == l = 1 /\ PInit(Env0)

TReset ==
    /\ IsEvent("reset")
    /\ env' = EnvOf(Cur) /\ st' = Empty /\ last' = Empty /\ ghost' = Empty /\ reads' = Empty /\ calls' = Empty
    /\ caps' = Empty /\ now' = 0 /\ taint' = FALSE
TKv      == IsEvent("kv") /\ KvOK(Cur) /\ KvApply(Cur)
TCall    == IsEvent("call") /\ CallOK(Cur) /\ CallApply(Cur)
TRet     == IsEvent("ret") /\ RetOK(Cur) /\ RetApply(Cur)
TCrash   == IsEvent("crash") /\ CrashOK(Cur) /\ CrashApply(Cur)
TTick    == IsEvent("tick") /\ TickApply(Cur.d)
TCapture == IsEvent("capture") /\ CaptureApply(Cur)
TNote    == IsEvent("note") /\ UNCHANGED pvars

TNext == TReset \/ TKv \/ TCall \/ TRet \/ TCrash \/ TTick \/ TCapture \/ TNote
TSpec == TInit /\ [][TNext]_<<pvars, l>>
=============================================================================
