CONSTANTS
  Clients = {"c1", "c2", "c3", "c4", "c5", "c6"}
  HostOf <- HD
  NBlocks = 1
  BlockBits = 1
  Handles = {"hA", "hB"}
  Nums = {1}
  Strict = TRUE
  Cool = 0
  MaxB = 0
  TwoPools = FALSE
  RsvLast = FALSE
  MaxOps = 2
  MaxCrash = 3
  MaxConf = 0
  MaxTicks = 0
  MaxCaps = 0
  TickLen = 70
  OpKinds <- AllOpsClaim
  FixIncr = TRUE
  SimLen = 500
  Family = "c20"
INIT DInit
NEXT DNext
INVARIANTS EmitAtEnd
CHECK_DEADLOCK FALSE
