CONSTANTS
  Clients = {"c1", "c2"}
  HostOf <- H2
  NBlocks = 2
  BlockBits = 1
  Handles = {"hA", "hB"}
  Nums = {1, 2}
  Strict = TRUE
  Cool = 0
  MaxB = 1
  TwoPools = TRUE
  RsvLast = TRUE
  MaxOps = 3
  MaxCrash = 0
  MaxConf = 0
  MaxTicks = 0
  MaxCaps = 0
  TickLen = 70
  OpKinds <- AssignRel
  FixIncr = FALSE
  SimLen = 70
INIT GInit
NEXT GNext
INVARIANTS EmitAtEnd
CHECK_DEADLOCK FALSE
