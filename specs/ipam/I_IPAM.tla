------------------------------- MODULE I_IPAM -------------------------------
(* Implementation layer for C19-C22: libcalico-go/lib/ipam transcribed at the grain of ONE ACTION PER
   DATASTORE CALL, in the order of the code (ipam.go autoAssign / findOrClaimBlock /
   getBlockFromAffinity / assignFromExistingBlock / incrementHandle / decrementHandle / releaseIPsFromBlock /
   releaseByHandle, ipam_block_reader_writer.go getPendingAffinity / claimAffineBlock / confirmAffinity /
   releaseBlockAffinity, ipam_block.go autoAssign / release / releaseByHandle / garbageCollect), plus
   Conflict (an injected CAS failure on any write), Crash (a client dies at any pc) and Tick.
   Every store call builds the event memkv would record and hands it to module P_IPAM:
       Do(e) == Assert(KvOK(e)) /\ KvApply(e)
   so TLC checks, exhaustively for small constants, that every call of the protocol is accepted by the
   property layer and that P_IPAM's state invariants hold in every reachable store state.
   Deliberately not modelled (the replay treats them as drift): reclaiming another host's empty block,
   releasing blocks of pools that stopped selecting the node, maxAlloc (KubeVirt), AssignIP.

   FixIncr = FALSE is the code as it is: assignFromExistingBlock increments the handle by the number of
   addresses still WANTED; TRUE increments by the number the block gave (DESIGN section 8 item 6).   *)
EXTENDS P_IPAM

CONSTANTS Clients,        \* set of client names
          HostOf,         \* client |-> host
          NBlocks, BlockBits,   \* blocks of 2^BlockBits addresses: 10.0.0.0/(32-BlockBits), next, ...
          Handles, Nums,  \* handle ids, request sizes
          Strict, Cool, MaxB, TwoPools, RsvLast,
          MaxOps, MaxCrash, MaxConf, MaxTicks, MaxCaps, TickLen,
          OpKinds,        \* subset of {"assign","release","relh","relaff","claim"}
          FixIncr

VARIABLES pc,       \* client |-> program counter record ([l |-> "idle"] when between API calls)
          ops,      \* client |-> API calls started so far
          budget,   \* [crash, conf, ticks, caps] used so far
          binc,     \* block index |-> number of times the block was created (fresh sequence numbers)
          capq      \* capture id |-> the sequence number the harness captured
ivars == <<pc, ops, budget, binc, capq>>
vars == <<pvars, ivars>>

\* ---- the universe ---------------------------------------------------------------------------------------
BIdx == 1..NBlocks
BSize == 2 ^ BlockBits
BCidr(i) == [a |-> <<10, 0, 0, (i - 1) * BSize>>, n |-> 32 - BlockBits]
BKey(i) == "b" \o ToString(i)
AKey(h, i) == "a|" \o h \o "|" \o BKey(i)
HKey(h) == "h|" \o h
Hosts == { HostOf[c] : c \in Clients }
SelAll == [op |-> "all"]
PoolBits == BlockBits + (IF NBlocks = 1 THEN 0 ELSE IF NBlocks = 2 THEN 1 ELSE 2)
ThePools ==
    IF TwoPools /\ NBlocks = 2
      THEN << [name |-> "p1", cidr |-> BCidr(1), disabled |-> FALSE, uses |-> <<"Workload">>, nsel |-> SelAll, ssel |-> SelAll],
              [name |-> "p2", cidr |-> BCidr(2), disabled |-> FALSE, uses |-> <<"Workload">>,
               nsel |-> [op |-> "eq", k |-> "name", v |-> "h2"], ssel |-> SelAll] >>
      ELSE << [name |-> "p1", cidr |-> [a |-> <<10, 0, 0, 0>>, n |-> 32 - PoolBits], disabled |-> FALSE,
               uses |-> <<"Workload">>, nsel |-> SelAll, ssel |-> SelAll] >>
TheEnv == [hosts |-> [h \in Hosts |-> [name |-> h]], nss |-> [x \in {"ns"} |-> [name |-> "ns"]],
           pools |-> ThePools,
           rsv |-> IF RsvLast THEN << [a |-> <<10, 0, 0, BSize - 1>>, n |-> 32] >> ELSE << >>,
           cfg |-> [strict |-> Strict, maxb |-> MaxB, cool |-> Cool],
           ct |-> [x \in {"_"} |-> <<"_">>], slack |-> 0,
           \* the block cap is only guaranteed when no two clients share a host (P_IPAM checks it in mode "seq")
           mode |-> IF \A c1, c2 \in Clients : c1 # c2 => HostOf[c1] # HostOf[c2] THEN "seq" ELSE "conc"]
Addrs == { NthAddr(BCidr(i), o) : i \in BIdx, o \in 0..(BSize - 1) }
BlockOfAddr(a) == CHOOSE i \in BIdx : ContainsAddr(BCidr(i), a)

NoneKV == [rev |-> 0]
Idle == [l |-> "idle"]

Init ==
    /\ PInit(TheEnv)
    /\ pc = [c \in Clients |-> Idle] /\ ops = [c \in Clients |-> 0]
    /\ budget = [crash |-> 0, conf |-> 0, ticks |-> 0, caps |-> 0]
    /\ binc = [i \in BIdx |-> 0] /\ capq = Empty

\* ---- in-memory block arithmetic (ipam_block.go) -----------------------------------------------------------
\* implementation fields of a block value: uq (Unallocated queue), bseq (SequenceNumber),
\* x (per ordinal: rat = ReleasedAt, q = SequenceNumberForAllocation)
NewBlock(i, owner, seq) ==
    [kind |-> "block", cidr |-> BCidr(i), aff |-> owner,
     ords |-> [o \in 1..BSize |-> [s |-> "f"]], uq |-> [o \in 1..BSize |-> o - 1], bseq |-> seq,
     x |-> [o \in 1..BSize |-> [rat |-> -1, q |-> -1]]]

\* garbageCollect: deallocate released ordinals whose cooldown has passed, in ordinal order
\* rat = -2 marks a stamp made in memory by a call that has not written yet: with the harness's clock (stored
\* stamps are shifted, in-memory ones are not) such a stamp reads as "released when the write lands"
CanDealloc(b, o, t) == b.ords[o + 1].s = "c" /\ (Cool = 0 \/ (b.x[o + 1].rat # -2 /\ b.x[o + 1].rat + Cool < t))
RECURSIVE AppendOrds(_, _, _)
AppendOrds(q, S, o) == IF o >= BSize THEN q ELSE AppendOrds(IF o \in S THEN Append(q, o) ELSE q, S, o + 1)
GC(b, t) ==
    LET S == { o \in 0..(BSize - 1) : CanDealloc(b, o, t) } IN
    [b EXCEPT !.ords = [i \in 1..BSize |-> IF (i - 1) \in S THEN [s |-> "f"] ELSE b.ords[i]],
              !.x = [i \in 1..BSize |-> IF (i - 1) \in S THEN [rat |-> -1, q |-> -1] ELSE b.x[i]],
              !.uq = AppendOrds(b.uq, S, 0)]
NumFree(b) == Cardinality({ i \in DOMAIN b.uq : ~Reserved(AddrOf(b, b.uq[i])) })
Empty0(b) == \A i \in 1..BSize : b.ords[i].s = "f"            \* allocationBlock.empty(): cooling counts as in use

\* allocationBlock.autoAssign: take up to n usable ordinals from the head of the queue
RECURSIVE Take(_, _, _, _)
Take(b, q, n, acc) ==      \* returns [uq (remaining queue), got (sequence of ordinals)]
    IF q = << >> \/ Len(acc.got) >= n THEN [uq |-> acc.uq \o q, got |-> acc.got]
    ELSE IF Reserved(AddrOf(b, Head(q))) THEN Take(b, Tail(q), n, [uq |-> Append(acc.uq, Head(q)), got |-> acc.got])
    ELSE Take(b, Tail(q), n, [uq |-> acc.uq, got |-> Append(acc.got, Head(q))])
AutoAssign(b, n, h) ==
    LET r == Take(b, b.uq, n, [uq |-> << >>, got |-> << >>])
        S == { r.got[i] : i \in DOMAIN r.got }
    IN [blk |-> [b EXCEPT !.uq = r.uq,
                          !.ords = [i \in 1..BSize |-> IF (i - 1) \in S THEN [s |-> "a", h |-> h, q |-> b.bseq] ELSE b.ords[i]],
                          !.x = [i \in 1..BSize |-> IF (i - 1) \in S THEN [rat |-> -1, q |-> b.bseq] ELSE b.x[i]]],
        got |-> S]

\* mark ordinals S released at time t, then garbageCollect
Cooldown(b, S, t) ==
    GC([b EXCEPT !.ords = [i \in 1..BSize |-> IF (i - 1) \in S THEN [s |-> "c"] ELSE b.ords[i]],
                 !.x = [i \in 1..BSize |-> IF (i - 1) \in S THEN [rat |-> -2, q |-> b.bseq] ELSE b.x[i]]], t)
Stamp(b, t) == [b EXCEPT !.x = [i \in 1..BSize |-> IF b.x[i].rat = -2 THEN [b.x[i] EXCEPT !.rat = t] ELSE b.x[i]]]
Bump(b) == [b EXCEPT !.bseq = @ + 1]                              \* updateBlock increments the sequence number

\* ---- handles ---------------------------------------------------------------------------------------------
HVal(h, m) == [kind |-> "handle", id |-> h, blocks |-> m]
HGet(v, bk) == LET idx == { i \in DOMAIN v.blocks : v.blocks[i].b = bk } IN IF idx = {} THEN 0 ELSE v.blocks[CHOOSE i \in idx : TRUE].n
RECURSIVE SeqOfSet(_)
SeqOfSet(S) == IF S = {} THEN << >> ELSE LET x == CHOOSE y \in S : \A z \in S : y <= z IN <<x>> \o SeqOfSet(S \ {x})
HSet(v, bk, n) ==     \* blocks kept sorted by block key index for a canonical value
    LET others == { i \in DOMAIN v.blocks : v.blocks[i].b # bk }
        m == [i \in BIdx |-> IF BKey(i) = bk THEN n ELSE LET ix == { j \in others : v.blocks[j].b = BKey(i) } IN IF ix = {} THEN 0 ELSE v.blocks[CHOOSE j \in ix : TRUE].n]
        keep == SeqOfSet({ i \in BIdx : m[i] > 0 })
    IN [v EXCEPT !.blocks = [j \in DOMAIN keep |-> [b |-> BKey(keep[j]), n |-> m[keep[j]]]]]

\* ---- store events ------------------------------------------------------------------------------------------
Writes == {"create", "update", "delete"}
Ev(c, op, kind, key, rev, val) ==
    LET out == Outcome(st, op, key, rev)
        ok == out = "ok"
    IN [t |-> 0, n |-> 0, c |-> c, op |-> op, kind |-> kind, key |-> key, rev |-> rev,
        err |-> IF ok THEN "" ELSE out, inj |-> "",
        nrev |-> IF ok /\ op \in {"create", "update"} THEN LastRev(last, key) + 1 ELSE 0,
        orev |-> IF Present(st, key) THEN st[key].rev ELSE 0,
        val |-> IF op = "get" THEN (IF ok THEN st[key].val ELSE [kind |-> kind]) ELSE val,
        now |-> now]
ListEv(c, kind, owner) ==
    LET ks == SeqOfSet({ i \in BIdx : IF kind = "aff" THEN Present(st, AKey(owner, i)) ELSE Present(st, BKey(i)) })
        k(i) == IF kind = "aff" THEN AKey(owner, i) ELSE BKey(i)
    IN [t |-> 0, n |-> 0, c |-> c, op |-> "list", kind |-> kind, owner |-> HostAff(owner), key |-> "", rev |-> 0, err |-> "", inj |-> "",
        nrev |-> 0, orev |-> 0, now |-> now,
        items |-> [j \in DOMAIN ks |-> [key |-> k(ks[j]), rev |-> st[k(ks[j])].rev, val |-> st[k(ks[j])].val]],
        idx |-> ks]
Do(e) == Assert(KvOK(e), <<"P_IPAM rejects the store call", e>>) /\ KvApply(e)
KVOf(e) == [rev |-> IF e.op = "get" THEN e.orev ELSE e.nrev, val |-> e.val]
AffVal(h, i, state) == [kind |-> "aff", owner |-> HostAff(h), bk |-> BKey(i), state |-> state]

\* blocks whose pool allows the request (filterBlocksByPools(.., poolsAllowedByUse))
Allowed(call, i) == PoolOK(call, FirstAddr(BCidr(i)))
WholeRsv(i) == \A o \in 0..(BSize - 1) : Reserved(NthAddr(BCidr(i), o))

\* ---- program counters -----------------------------------------------------------------------------------------
P0(call, l) == [l |-> l, call |-> call, ctx |-> "", cur |-> 0, rem |-> << >>, nl |-> << >>, owned |-> 0, got |-> {},
                aff |-> NoneKV, blk |-> NoneKV, hdl |-> NoneKV, nb |-> NoneKV, k |-> {}, inc |-> 0, err |-> "",
                hrel |-> "", released |-> {}, unalloc |-> {}]
Need(p) == p.call.num - Cardinality(p.got)
RetP(p, err) == [p EXCEPT !.l = "ret", !.err = err]
NextNA(p) == IF Need(p) = 0 \/ p.nl = << >> THEN RetP(p, "")
             ELSE [p EXCEPT !.l = "n_get", !.cur = Head(p.nl), !.nl = Tail(p.nl)]
NonAffine(p) == IF Strict \/ Need(p) = 0 THEN RetP(p, "")
                ELSE NextNA([p EXCEPT !.ctx = "nonaff",
                                      !.nl = SeqOfSet({ i \in BIdx : Allowed(p.call, i) /\ ~WholeRsv(i) })])
RECURSIVE FindAffine(_)
FindAffine(p) ==
    IF p.rem # << >>
      THEN IF WholeRsv(Head(p.rem)) THEN FindAffine([p EXCEPT !.rem = Tail(p.rem)])
           ELSE [p EXCEPT !.l = "a_getaff", !.cur = Head(p.rem), !.rem = Tail(p.rem), !.ctx = "affine"]
      ELSE IF p.owned >= Cap(p.call) THEN RetP(p, "blocklimit")
      ELSE [p EXCEPT !.l = "a_listblks", !.ctx = "new"]
MainLoop(p) == IF Need(p) = 0 THEN RetP(p, "") ELSE FindAffine(p)
Again(p) == IF p.ctx = "nonaff" THEN NextNA(p) ELSE MainLoop(p)
RetryGB(p) == IF p.ctx = "affine" THEN [p EXCEPT !.l = "a_getaff"] ELSE [p EXCEPT !.l = "a_crtaff"]
FailGB(p) == IF p.ctx = "affine" THEN FindAffine(p) ELSE RetP(p, "error")
StaleGB(p) == IF p.ctx = "affine" THEN FindAffine(p) ELSE IF p.ctx = "claim" THEN RetP(p, "") ELSE [p EXCEPT !.l = "a_listblks"]
AfterAff(p) == IF p.ctx = "claim" THEN "a_crtblk" ELSE "a_getblk"        \* ClaimAffinity goes straight to claimAffineBlock
OnErr(p, err) == IF err = "conflict" THEN RetryGB(p) ELSE FailGB(p)

\* assignFromExistingBlock up to the first store call (p.blk holds the block as read)
AssignFrom(p, H) ==
    LET g == GC(p.blk.val, now)
        chk == Strict /\ p.ctx # "nonaff"
        r == AutoAssign(g, Need(p), p.call.h)
    IN IF chk /\ g.aff # HostAff(H) THEN Again(p)
       ELSE IF r.got = {} THEN Again(p)
       ELSE [p EXCEPT !.l = "a_gethdl", !.nb = r.blk, !.k = r.got,
                      !.inc = IF FixIncr THEN Cardinality(r.got) ELSE Need(p)]
HaveBlock(p, H) ==
    IF p.ctx = "claim" THEN RetP(p, "") ELSE
    LET q == IF p.ctx = "new" THEN [p EXCEPT !.owned = @ + 1] ELSE p IN
    IF NumFree(GC(q.blk.val, now)) >= 1 THEN AssignFrom(q, H)
    ELSE IF q.ctx = "new" THEN RetP(q, "error") ELSE FindAffine(q)
AfterDec(p) == IF p.err = "conflict" THEN [p EXCEPT !.l = IF p.ctx = "nonaff" THEN "n_get" ELSE "a_requery", !.err = ""]
               ELSE Again([p EXCEPT !.err = ""])
HNext(p) == IF p.rem = << >> THEN RetP(p, "") ELSE [p EXCEPT !.l = "h_getblk", !.cur = Head(p.rem), !.rem = Tail(p.rem)]

AffLabels == {"a_getaff", "a_getaff2", "a_confget", "f_getaff"}
BlkGetLabels == {"a_getblk", "a_getblk2", "a_requery", "n_get", "r_getblk", "h_getblk", "f_getblk"}
HdlGetLabels == {"a_gethdl", "a_dec_get", "r_gethdl", "h_get", "h_dget"}

\* the store call the client makes at its pc
EvOf(c, p) ==
    LET H == HostOf[c]
        ak == AKey(IF p.call.op = "relaff" THEN p.call.host ELSE H, p.cur)
        bk == BKey(p.cur)
        hid == IF p.call.op \in {"assign", "relh"} THEN p.call.h ELSE p.hrel
        hk == HKey(hid)
        dec == HSet(p.hdl.val, bk, HGet(p.hdl.val, bk) - p.inc)
        hdec == IF dec.blocks = << >> THEN Ev(c, "delete", "handle", hk, p.hdl.rev, [kind |-> "handle"])
                ELSE Ev(c, "update", "handle", hk, p.hdl.rev, dec)
        owner == IF p.call.op = "relaff" THEN p.call.host ELSE H
    IN
    CASE p.l = "a_list" -> ListEv(c, "aff", H)
      [] p.l = "a_listblks" -> ListEv(c, "block", "")
      [] p.l \in AffLabels -> Ev(c, "get", "aff", ak, 0, 0)
      [] p.l \in BlkGetLabels -> Ev(c, "get", "block", bk, 0, 0)
      [] p.l \in HdlGetLabels -> Ev(c, "get", "handle", hk, 0, 0)
      [] p.l \in {"a_delstale", "a_delpend", "f_delstale", "f_delaff"} -> Ev(c, "delete", "aff", ak, p.aff.rev, [kind |-> "aff"])
      [] p.l \in {"a_rc1", "a_affpend", "a_updaff2"} -> Ev(c, "update", "aff", ak, p.aff.rev, AffVal(owner, p.cur, "pending"))
      [] p.l \in {"a_rc3", "a_confirm"} -> Ev(c, "update", "aff", ak, p.aff.rev, AffVal(owner, p.cur, "confirmed"))
      [] p.l = "f_mark" -> Ev(c, "update", "aff", ak, p.aff.rev, AffVal(owner, p.cur, "pendingDeletion"))
      [] p.l = "a_crtaff" -> Ev(c, "create", "aff", ak, 0, AffVal(H, p.cur, "pending"))
      [] p.l = "a_rc2" -> Ev(c, "update", "block", bk, p.blk.rev, Bump(p.blk.val))
      [] p.l = "a_crtblk" -> Ev(c, "create", "block", bk, 0, NewBlock(p.cur, HostAff(H), (binc[p.cur] + 1) * 100))
      [] p.l \in {"a_putblk", "r_putblk", "h_putblk"} -> Ev(c, "update", "block", bk, p.blk.rev, Bump(Stamp(p.nb, now)))
      [] p.l = "f_updblk" -> Ev(c, "update", "block", bk, p.blk.rev, Bump([p.nb EXCEPT !.aff = ""]))
      [] p.l \in {"r_delblk", "h_delblk", "f_delblk"} -> Ev(c, "delete", "block", bk, p.blk.rev, [kind |-> "block"])
      [] p.l = "a_puthdl" ->
            IF p.hdl.rev = 0 THEN Ev(c, "create", "handle", hk, 0, HVal(hid, << [b |-> bk, n |-> p.inc] >>))
            ELSE Ev(c, "update", "handle", hk, p.hdl.rev, HSet(p.hdl.val, bk, HGet(p.hdl.val, bk) + p.inc))
      [] p.l \in {"a_dec_put", "r_puthdl", "h_dput"} -> hdec

\* where the client goes after the call answered e (b = the block chosen by findUsableBlock, 0 = none)
NextOf(c, p, e, b) ==
    LET H == HostOf[c]
        kv == KVOf(e)
        ok == e.err = ""
    IN
    CASE p.l = "a_list" ->
            LET mine == SelectSeq(e.idx, LAMBDA i : Allowed(p.call, i)) IN
            MainLoop([p EXCEPT !.rem = mine, !.owned = Len(mine)])
      [] p.l = "a_getaff" -> IF ok THEN [p EXCEPT !.aff = kv, !.l = "a_getblk"] ELSE FindAffine(p)
      [] p.l = "a_getblk" ->
            IF e.err = "notfound" THEN [p EXCEPT !.l = "a_affpend"]
            ELSE IF ~ok THEN FailGB(p)
            ELSE LET q == [p EXCEPT !.blk = kv] IN
                 IF kv.val.aff # HostAff(H) THEN [q EXCEPT !.l = "a_delstale"]
                 ELSE IF p.aff.val.state # "confirmed" THEN [q EXCEPT !.l = "a_rc1"]
                 ELSE HaveBlock(q, H)
      [] p.l = "a_delstale" -> IF ok THEN StaleGB(p) ELSE OnErr(p, e.err)
      [] p.l = "a_rc1" -> IF ok THEN [p EXCEPT !.aff = kv, !.l = "a_rc2"] ELSE OnErr(p, e.err)
      [] p.l = "a_rc2" -> IF ok THEN [p EXCEPT !.blk = kv, !.l = "a_rc3"] ELSE OnErr(p, e.err)
      [] p.l = "a_rc3" -> IF ok THEN HaveBlock([p EXCEPT !.aff = kv], H) ELSE OnErr(p, e.err)
      [] p.l = "a_affpend" -> IF ok THEN [p EXCEPT !.aff = kv, !.l = "a_crtblk"] ELSE OnErr(p, e.err)
      [] p.l = "a_crtblk" -> IF ok THEN [p EXCEPT !.blk = kv, !.l = "a_confirm"]
                             ELSE IF e.err = "exists" THEN [p EXCEPT !.l = "a_getblk2"] ELSE FailGB(p)
      [] p.l = "a_getblk2" ->
            IF ~ok THEN FailGB(p)
            ELSE IF kv.val.aff = HostAff(H) THEN [p EXCEPT !.blk = kv, !.l = "a_confirm"]
            ELSE [p EXCEPT !.blk = kv, !.l = "a_delpend"]
      [] p.l = "a_delpend" -> StaleGB(p)
      [] p.l = "a_confirm" -> IF ok THEN HaveBlock([p EXCEPT !.aff = kv], H) ELSE [p EXCEPT !.l = "a_confget", !.err = e.err]
      [] p.l = "a_confget" ->
            IF ok /\ kv.val.state = "confirmed" THEN HaveBlock([p EXCEPT !.aff = kv, !.err = ""], H)
            ELSE OnErr([p EXCEPT !.err = ""], p.err)
      [] p.l = "a_gethdl" -> [p EXCEPT !.hdl = IF ok THEN kv ELSE NoneKV, !.l = "a_puthdl"]
      [] p.l = "a_puthdl" -> IF ok THEN [p EXCEPT !.l = "a_putblk"] ELSE [p EXCEPT !.l = "a_gethdl"]
      [] p.l = "a_putblk" ->
            IF ok THEN Again([p EXCEPT !.got = @ \cup { [a |-> AddrOf(p.nb, o), n |-> 32 - BlockBits] : o \in p.k }])
            ELSE [p EXCEPT !.l = "a_dec_get", !.err = e.err]
      [] p.l = "a_dec_get" ->
            IF ok /\ HGet(kv.val, BKey(p.cur)) >= p.inc THEN [p EXCEPT !.hdl = kv, !.l = "a_dec_put"] ELSE AfterDec(p)
      [] p.l = "a_dec_put" -> IF e.err = "conflict" THEN [p EXCEPT !.l = "a_dec_get"] ELSE AfterDec(p)
      [] p.l = "a_requery" -> IF ok THEN AssignFrom([p EXCEPT !.blk = kv], H) ELSE MainLoop(p)
      [] p.l = "n_get" -> IF ok THEN AssignFrom([p EXCEPT !.blk = kv], H) ELSE NextNA(p)
      [] p.l = "a_listblks" -> IF b = 0 THEN NonAffine(p) ELSE [p EXCEPT !.cur = b, !.l = "a_crtaff"]
      [] p.l = "a_crtaff" -> IF ok THEN [p EXCEPT !.aff = kv, !.l = AfterAff(p)] ELSE [p EXCEPT !.l = "a_getaff2"]
      [] p.l = "a_getaff2" ->
            IF ~ok THEN RetP(p, "error")
            ELSE IF kv.val.state # "confirmed" THEN [p EXCEPT !.aff = kv, !.l = "a_updaff2"]
            ELSE [p EXCEPT !.aff = kv, !.l = AfterAff(p)]
      [] p.l = "a_updaff2" -> IF ok THEN [p EXCEPT !.aff = kv, !.l = AfterAff(p)]
                              ELSE IF e.err = "conflict" THEN [p EXCEPT !.l = "a_crtaff"] ELSE RetP(p, "error")
      \* ---- ReleaseIPs (one address) -----------------------------------------------------------------------
      [] p.l = "r_getblk" ->
            LET x == p.call.opts[1]  ip == x.ip IN
            IF e.err = "notfound" THEN RetP([p EXCEPT !.unalloc = {ip}, !.released = {ip}], "")
            ELSE IF ~ok THEN RetP(p, "error")
            ELSE LET g == GC(kv.val, now)
                     o == Ordinal(g.cidr, ip)
                     r == g.ords[o + 1]
                 IN IF x.cap # 0 /\ capq[x.cap] # g.x[o + 1].q THEN RetP(p, "badseq")
                    ELSE IF r.s # "a" THEN RetP([p EXCEPT !.unalloc = {ip}, !.released = {ip}], "")
                    ELSE IF x.h # "" /\ x.h # r.h THEN RetP(p, "badhandle")
                    ELSE LET nb == Cooldown(g, {o}, now) IN
                         [p EXCEPT !.blk = kv, !.nb = nb, !.hrel = r.h, !.inc = 1,
                                   !.l = IF Empty0(nb) /\ nb.aff = "" THEN "r_delblk" ELSE "r_putblk"]
      [] p.l \in {"r_putblk", "r_delblk"} ->
            IF ok THEN [p EXCEPT !.l = "r_gethdl", !.released = {p.call.opts[1].ip}]
            ELSE IF e.err = "conflict" THEN [p EXCEPT !.l = "r_getblk"] ELSE RetP(p, "error")
      [] p.l = "r_gethdl" -> IF ok /\ HGet(kv.val, BKey(p.cur)) >= 1 THEN [p EXCEPT !.hdl = kv, !.l = "r_puthdl"] ELSE RetP(p, "")
      [] p.l = "r_puthdl" -> IF e.err = "conflict" THEN [p EXCEPT !.l = "r_gethdl"] ELSE RetP(p, "")
      \* ---- ReleaseByHandle ----------------------------------------------------------------------------------
      [] p.l = "h_get" ->
            IF ~ok THEN RetP(p, "notfound")
            ELSE HNext([p EXCEPT !.rem = SeqOfSet({ i \in BIdx : HGet(kv.val, BKey(i)) > 0 })])
      [] p.l = "h_getblk" ->
            IF ~ok THEN HNext(p)
            ELSE LET g == GC(kv.val, now)
                     S == OwnedBy(g, p.call.h)
                     nb == Cooldown(g, S, now)
                 IN IF S = {} THEN HNext(p)
                    ELSE [p EXCEPT !.blk = kv, !.nb = nb, !.inc = Cardinality(S),
                                   !.l = IF Empty0(nb) /\ nb.aff = "" THEN "h_delblk" ELSE "h_putblk"]
      [] p.l = "h_putblk" -> IF ok THEN [p EXCEPT !.l = "h_dget"] ELSE IF e.err = "conflict" THEN [p EXCEPT !.l = "h_getblk"] ELSE RetP(p, "error")
      [] p.l = "h_delblk" -> IF e.err = "conflict" THEN [p EXCEPT !.l = "h_getblk"] ELSE [p EXCEPT !.l = "h_dget"]
      [] p.l = "h_dget" -> IF ok /\ HGet(kv.val, BKey(p.cur)) >= p.inc THEN [p EXCEPT !.hdl = kv, !.l = "h_dput"] ELSE HNext(p)
      [] p.l = "h_dput" -> IF e.err = "conflict" THEN [p EXCEPT !.l = "h_dget"] ELSE HNext(p)
      \* ---- ReleaseAffinity (one block) ------------------------------------------------------------------------
      [] p.l = "f_getaff" -> IF ok THEN [p EXCEPT !.aff = kv, !.l = "f_getblk"] ELSE RetP(p, "")
      [] p.l = "f_getblk" ->
            IF ~ok THEN RetP(p, "")
            ELSE LET g == GC(kv.val, now) IN
                 IF g.aff # "" /\ g.aff # HostAff(p.call.host) THEN [p EXCEPT !.l = "f_delstale"]
                 ELSE IF p.call.empty /\ ~Empty0(g) THEN RetP(p, "notempty")
                 ELSE [p EXCEPT !.blk = kv, !.nb = g, !.l = "f_mark"]
      [] p.l = "f_delstale" -> RetP(p, "")
      [] p.l = "f_mark" -> IF ok THEN [p EXCEPT !.aff = kv, !.l = IF Empty0(p.nb) THEN "f_delblk" ELSE "f_updblk"]
                           ELSE IF e.err = "conflict" THEN [p EXCEPT !.l = "f_getaff"] ELSE RetP(p, "error")
      [] p.l = "f_delblk" -> IF e.err = "conflict" THEN [p EXCEPT !.l = "f_getaff"] ELSE [p EXCEPT !.l = "f_delaff"]
      [] p.l = "f_updblk" -> IF ok THEN [p EXCEPT !.l = "f_delaff"]
                             ELSE IF e.err = "conflict" THEN [p EXCEPT !.l = "f_getaff"] ELSE RetP(p, "error")
      [] p.l = "f_delaff" -> IF e.err = "conflict" THEN [p EXCEPT !.l = "f_getaff"] ELSE RetP(p, "")

\* findUsableBlock's candidates after listing the blocks (any of them: the real order is a hash of the host name)
Candidates(c, p) ==
    { i \in BIdx : /\ Allowed(p.call, i) /\ ~WholeRsv(i)
                   /\ \/ ~Present(st, BKey(i))
                      \/ (st[BKey(i)].val.aff = HostAff(HostOf[c]) /\ NumFree(GC(st[BKey(i)].val, now)) # 0) }

\* ---- actions ------------------------------------------------------------------------------------------------------
NoRet == \A c \in Clients : pc[c].l # "ret"
Busy(c) == pc[c].l \notin {"idle", "ret", "dead"}

Step(c, conf) ==
    /\ NoRet /\ Busy(c)
    /\ LET p == pc[c]
           e0 == EvOf(c, p)
           e == IF conf THEN [e0 EXCEPT !.inj = "conflict", !.err = "conflict", !.nrev = 0] ELSE e0
           cands == IF p.l = "a_listblks" THEN Candidates(c, p) ELSE {}
       IN /\ conf => (e0.op \in {"update", "delete"} /\ budget.conf < MaxConf)
          /\ Do(e)
          /\ \E b \in (IF cands = {} THEN {0} ELSE cands) : pc' = [pc EXCEPT ![c] = NextOf(c, p, e, b)]
          /\ binc' = IF p.l = "a_crtblk" /\ e.err = "" THEN [binc EXCEPT ![p.cur] = @ + 1] ELSE binc
          /\ budget' = IF conf THEN [budget EXCEPT !.conf = @ + 1] ELSE budget
    /\ UNCHANGED <<ops, capq>>

RelH == {""} \cup (IF Handles = {} THEN {} ELSE {CHOOSE h \in Handles : TRUE})
CallsFor(c) ==
    LET H == HostOf[c] IN
    (IF "assign" \in OpKinds THEN
        { [op |-> "assign", host |-> H, h |-> h, num |-> n, use |-> "Workload", ns |-> "", maxb |-> 0, pools |-> << >>] : h \in Handles, n \in Nums }
     ELSE {}) \cup
    (IF "release" \in OpKinds THEN
        { [op |-> "release", opts |-> << [ip |-> a, h |-> hh, cap |-> k] >>] :
              a \in { x \in Addrs : Gen(BKey(BlockOfAddr(x)), Ordinal(BCidr(BlockOfAddr(x)), x)) > 0 },
              hh \in RelH, k \in {0} \cup DOMAIN capq }
     ELSE {}) \cup
    (IF "relh" \in OpKinds THEN { [op |-> "relh", h |-> h] : h \in Handles } ELSE {}) \cup
    (IF "claim" \in OpKinds THEN { [op |-> "claim", host |-> H, blk |-> i] : i \in BIdx } ELSE {}) \cup
    (IF "relaff" \in OpKinds THEN { [op |-> "relaff", host |-> H, blk |-> i, empty |-> m] : i \in BIdx, m \in BOOLEAN } ELSE {})
FirstLabel(call) == CASE call.op = "assign" -> "a_list" [] call.op = "release" -> "r_getblk"
                      [] call.op = "relh" -> "h_get" [] call.op = "relaff" -> "f_getaff"
                      [] call.op = "claim" -> "a_crtaff"
Start(c, call) ==
    /\ NoRet /\ pc[c].l = "idle" /\ ops[c] < MaxOps
    /\ call \in CallsFor(c)
    /\ call.op = "release" => (call.opts[1].cap # 0 => caps[call.opts[1].cap].ip = call.opts[1].ip)
    /\ LET e == [x \in DOMAIN call \cup {"c", "t"} |-> IF x = "c" THEN c ELSE IF x = "t" THEN 0 ELSE call[x]] IN
       /\ Assert(CallOK(e), "call while busy") /\ CallApply(e)
    /\ pc' = [pc EXCEPT ![c] = [P0(call, FirstLabel(call)) EXCEPT
                 !.cur = IF call.op = "release" THEN BlockOfAddr(call.opts[1].ip) ELSE IF call.op \in {"relaff", "claim"} THEN call.blk ELSE 0,
                 !.ctx = IF call.op = "claim" THEN "claim" ELSE ""]]
    /\ ops' = [ops EXCEPT ![c] = @ + 1]
    /\ UNCHANGED <<budget, binc, capq>>

RECURSIVE AnySeq(_)
AnySeq(S) == IF S = {} THEN << >> ELSE LET x == CHOOSE y \in S : TRUE IN <<x>> \o AnySeq(S \ {x})
RetEv(c, p) ==
    CASE p.call.op = "assign" -> [t |-> 0, c |-> c, op |-> "assign", ips |-> AnySeq(p.got), err |-> p.err]
      [] p.call.op = "release" -> [t |-> 0, c |-> c, op |-> "release", released |-> AnySeq(p.released), unalloc |-> AnySeq(p.unalloc), err |-> p.err]
      [] OTHER -> [t |-> 0, c |-> c, op |-> p.call.op, err |-> p.err]
Ret(c) ==
    /\ pc[c].l = "ret"
    /\ LET e == RetEv(c, pc[c]) IN Assert(RetOK(e), <<"P_IPAM rejects the result", e>>) /\ RetApply(e)
    /\ pc' = [pc EXCEPT ![c] = Idle]
    /\ UNCHANGED <<ops, budget, binc, capq>>

Crash(c) ==
    /\ NoRet /\ Busy(c) /\ budget.crash < MaxCrash
    /\ CrashApply([c |-> c])
    /\ pc' = [pc EXCEPT ![c] = [l |-> "dead"]]
    /\ budget' = [budget EXCEPT !.crash = @ + 1]
    /\ UNCHANGED <<ops, binc, capq>>

Tick ==
    /\ NoRet /\ budget.ticks < MaxTicks
    /\ TickApply(TickLen)
    /\ budget' = [budget EXCEPT !.ticks = @ + 1]
    /\ UNCHANGED <<pc, ops, binc, capq>>

Capture(a) ==
    /\ NoRet /\ budget.caps < MaxCaps
    /\ LET i == BlockOfAddr(a)  o == Ordinal(BCidr(i), a)  id == budget.caps + 1 IN
       /\ Present(st, BKey(i)) /\ st[BKey(i)].val.ords[o + 1].s = "a"
       /\ CaptureApply([id |-> id, ip |-> a])
       /\ capq' = Put(capq, id, st[BKey(i)].val.x[o + 1].q)
    /\ budget' = [budget EXCEPT !.caps = @ + 1]
    /\ UNCHANGED <<pc, ops, binc>>

Next ==
    \/ \E c \in Clients : Ret(c)
    \/ \E c \in Clients : Step(c, FALSE) \/ Step(c, TRUE) \/ Crash(c)
    \/ \E c \in Clients : \E call \in CallsFor(c) : Start(c, call)
    \/ Tick
    \/ \E a \in Addrs : Capture(a)

Spec == Init /\ [][Next]_vars
=============================================================================
