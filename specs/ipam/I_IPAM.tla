------------------------------- MODULE I_IPAM -------------------------------
(* Implementation layer for C19-C22: libcalico-go/lib/ipam transcribed at the grain of ONE ACTION PER
   DATASTORE CALL, in the order of the code (ipam.go autoAssign / findOrClaimBlock /
   getBlockFromAffinity / assignFromExistingBlock / incrementHandle / decrementHandle / releaseIPsFromBlock /
   releaseByHandle, ipam_block_reader_writer.go getPendingAffinity / claimAffineBlock / confirmAffinity /
   releaseBlockAffinity, ipam_block.go autoAssign / release / releaseByHandle / garbageCollect), plus
   Conflict (an injected CAS failure on any write), Crash (a client dies at any pc) and Tick.
   Every store call builds the event memkv would record and hands it to module P_IPAM:
       Do(e) == Assert(KvOK(e)) /\ KvApply(e)
   so TLC checks, exhaustively for small constants, that every call of the protocol is accepted by the
   property layer and that P_IPAM's state invariants hold in every reachable store state.
   Deliberately not modelled (the replay treats them as drift): reclaiming another host's empty block,
   releasing blocks of pools that stopped selecting the node, maxAlloc (KubeVirt), AssignIP.

   FixIncr = FALSE is the code as it is: assignFromExistingBlock increments the handle by the number of
   addresses still WANTED; TRUE increments by the number the block gave (DESIGN section 8 item 6).   *)
EXTENDS P_IPAM

CONSTANTS Clients,        \* set of client names
          HostOf,         \* client |-> host
          NBlocks, BlockBits,   \* blocks of 2^BlockBits addresses: 10.0.0.0/(32-BlockBits), next, ...
          Handles, Nums,  \* handle ids, request sizes
          Strict, Cool, MaxB, TwoPools, RsvLast,
          MaxOps, MaxCrash, MaxConf, MaxTicks, MaxCaps, TickLen,
          OpKinds,        \* subset of {"assign","release","relh","relaff"}
          FixIncr

VARIABLES pc,       \* client |-> program counter record ([l |-> "idle"] when between API calls)
          ops,      \* client |-> API calls started so far
          budget,   \* [crash, conf, ticks, caps] used so far
          binc,     \* block index |-> number of times the block was created (fresh sequence numbers)
          capq      \* capture id |-> the sequence number the harness captured
ivars == <<pc, ops, budget, binc, capq>>
vars == <<pvars, ivars>>

\* ---- the universe ---------------------------------------------------------------------------------------
BIdx == 1..NBlocks
BSize == 2 ^ BlockBits
BCidr(i) == [a |-> <<10, 0, 0, (i - 1) * BSize>>, n |-> 32 - BlockBits]
BKey(i) == "b" \o ToString(i)
AKey(h, i) == "a|" \o h \o "|" \o BKey(i)
HKey(h) == "h|" \o h
Hosts == { HostOf[c] : c \in Clients }
SelAll == [op |-> "all"]
PoolBits == BlockBits + (IF NBlocks = 1 THEN 0 ELSE IF NBlocks = 2 THEN 1 ELSE 2)
ThePools ==
    IF TwoPools /\ NBlocks = 2
      THEN << [name |-> "p1", cidr |-> BCidr(1), disabled |-> FALSE, uses |-> <<"Workload">>, nsel |-> SelAll, ssel |-> SelAll],
              [name |-> "p2", cidr |-> BCidr(2), disabled |-> FALSE, uses |-> <<"Workload">>,
               nsel |-> [op |-> "eq", k |-> "name", v |-> "h2"], ssel |-> SelAll] >>
      ELSE << [name |-> "p1", cidr |-> [a |-> <<10, 0, 0, 0>>, n |-> 32 - PoolBits], disabled |-> FALSE,
               uses |-> <<"Workload">>, nsel |-> SelAll, ssel |-> SelAll] >>
TheEnv == [hosts |-> [h \in Hosts |-> [name |-> h]], nss |-> [x \in {"ns"} |-> [name |-> "ns"]],
           pools |-> ThePools,
           rsv |-> IF RsvLast THEN << [a |-> <<10, 0, 0, BSize - 1>>, n |-> 32] >> ELSE << >>,
           cfg |-> [strict |-> Strict, maxb |-> MaxB, cool |-> Cool],
           ct |-> [x \in {"_"} |-> <<"_">>], slack |-> 0, mode |-> "conc"]
Addrs == { NthAddr(BCidr(i), o) : i \in BIdx, o \in 0..(BSize - 1) }
BlockOfAddr(a) == CHOOSE i \in BIdx : ContainsAddr(BCidr(i), a)

NoneKV == [rev |-> 0]
Idle == [l |-> "idle"]

Init ==
    /\ PInit(TheEnv)
    /\ pc = [c \in Clients |-> Idle] /\ ops = [c \in Clients |-> 0]
    /\ budget = [crash |-> 0, conf |-> 0, ticks |-> 0, caps |-> 0]
    /\ binc = [i \in BIdx |-> 0] /\ capq = Empty

\* ---- in-memory block arithmetic (ipam_block.go) -----------------------------------------------------------
\* implementation fields of a block value: uq (Unallocated queue), bseq (SequenceNumber),
\* x (per ordinal: rat = ReleasedAt, q = SequenceNumberForAllocation)
NewBlock(i, owner, seq) ==
    [kind |-> "block", cidr |-> BCidr(i), aff |-> owner,
     ords |-> [o \in 1..BSize |-> [s |-> "f"]], uq |-> [o \in 1..BSize |-> o - 1], bseq |-> seq,
     x |-> [o \in 1..BSize |-> [rat |-> -1, q |-> -1]]]

\* garbageCollect: deallocate released ordinals whose cooldown has passed, in ordinal order
CanDealloc(b, o, t) == b.ords[o + 1].s = "c" /\ (Cool = 0 \/ b.x[o + 1].rat + Cool < t)
RECURSIVE AppendOrds(_, _, _)
AppendOrds(q, S, o) == IF o >= BSize THEN q ELSE AppendOrds(IF o \in S THEN Append(q, o) ELSE q, S, o + 1)
GC(b, t) ==
    LET S == { o \in 0..(BSize - 1) : CanDealloc(b, o, t) } IN
    [b EXCEPT !.ords = [i \in 1..BSize |-> IF (i - 1) \in S THEN [s |-> "f"] ELSE b.ords[i]],
              !.x = [i \in 1..BSize |-> IF (i - 1) \in S THEN [rat |-> -1, q |-> -1] ELSE b.x[i]],
              !.uq = AppendOrds(b.uq, S, 0)]
NumFree(b) == Cardinality({ i \in DOMAIN b.uq : ~Reserved(AddrOf(b, b.uq[i])) })
Empty0(b) == \A i \in 1..BSize : b.ords[i].s = "f"            \* allocationBlock.empty(): cooling counts as in use

\* allocationBlock.autoAssign: take up to n usable ordinals from the head of the queue
RECURSIVE Take(_, _, _, _)
Take(b, q, n, acc) ==      \* returns [uq (remaining queue), got (sequence of ordinals)]
    IF q = << >> \/ Len(acc.got) >= n THEN [uq |-> acc.uq \o q, got |-> acc.got]
    ELSE IF Reserved(AddrOf(b, Head(q))) THEN Take(b, Tail(q), n, [uq |-> Append(acc.uq, Head(q)), got |-> acc.got])
    ELSE Take(b, Tail(q), n, [uq |-> acc.uq, got |-> Append(acc.got, Head(q))])
AutoAssign(b, n, h) ==
    LET r == Take(b, b.uq, n, [uq |-> << >>, got |-> << >>])
        S == { r.got[i] : i \in DOMAIN r.got }
    IN [blk |-> [b EXCEPT !.uq = r.uq,
                          !.ords = [i \in 1..BSize |-> IF (i - 1) \in S THEN [s |-> "a", h |-> h, q |-> b.bseq] ELSE b.ords[i]],
                          !.x = [i \in 1..BSize |-> IF (i - 1) \in S THEN [rat |-> -1, q |-> b.bseq] ELSE b.x[i]]],
        got |-> S]

\* mark ordinals S released at time t, then garbageCollect
Cooldown(b, S, t) ==
    GC([b EXCEPT !.ords = [i \in 1..BSize |-> IF (i - 1) \in S THEN [s |-> "c"] ELSE b.ords[i]],
                 !.x = [i \in 1..BSize |-> IF (i - 1) \in S THEN [rat |-> t, q |-> b.bseq] ELSE b.x[i]]], t)
Bump(b) == [b EXCEPT !.bseq = @ + 1]                              \* updateBlock increments the sequence number

\* ---- handles ---------------------------------------------------------------------------------------------
HVal(h, m) == [kind |-> "handle", id |-> h, blocks |-> m]
HGet(v, bk) == LET idx == { i \in DOMAIN v.blocks : v.blocks[i].b = bk } IN IF idx = {} THEN 0 ELSE v.blocks[CHOOSE i \in idx : TRUE].n
RECURSIVE SeqOfSet(_)
SeqOfSet(S) == IF S = {} THEN << >> ELSE LET x == CHOOSE y \in S : \A z \in S : y <= z IN <<x>> \o SeqOfSet(S \ {x})
HSet(v, bk, n) ==     \* blocks kept sorted by block key index for a canonical value
    LET others == { i \in DOMAIN v.blocks : v.blocks[i].b # bk }
        m == [i \in BIdx |-> IF BKey(i) = bk THEN n ELSE LET ix == { j \in others : v.blocks[j].b = BKey(i) } IN IF ix = {} THEN 0 ELSE v.blocks[CHOOSE j \in ix : TRUE].n]
        keep == SeqOfSet({ i \in BIdx : m[i] > 0 })
    IN [v EXCEPT !.blocks = [j \in DOMAIN keep |-> [b |-> BKey(keep[j]), n |-> m[keep[j]]]]]

\* ---- store events ------------------------------------------------------------------------------------------
Writes == {"create", "update", "delete"}
Ev(c, op, kind, key, rev, val) ==
    LET out == Outcome(st, op, key, rev)
        ok == out = "ok"
    IN [t |-> 0, c |-> c, op |-> op, kind |-> kind, key |-> key, rev |-> rev,
        err |-> IF ok THEN "" ELSE out, inj |-> "",
        nrev |-> IF ok /\ op \in {"create", "update"} THEN LastRev(last, key) + 1 ELSE 0,
        orev |-> IF Present(st, key) THEN st[key].rev ELSE 0,
        val |-> IF op = "get" THEN (IF ok THEN st[key].val ELSE [kind |-> kind]) ELSE val,
        now |-> now]
ListEv(c, kind, owner) ==
    LET ks == SeqOfSet({ i \in BIdx : IF kind = "aff" THEN Present(st, AKey(owner, i)) ELSE Present(st, BKey(i)) })
        k(i) == IF kind = "aff" THEN AKey(owner, i) ELSE BKey(i)
    IN [t |-> 0, c |-> c, op |-> "list", kind |-> kind, owner |-> HostAff(owner), key |-> "", rev |-> 0, err |-> "", inj |-> "",
        nrev |-> 0, orev |-> 0, now |-> now,
        items |-> [j \in DOMAIN ks |-> [key |-> k(ks[j]), rev |-> st[k(ks[j])].rev, val |-> st[k(ks[j])].val]],
        idx |-> ks]
Do(e) == Assert(KvOK(e), <<"P_IPAM rejects the store call", e>>) /\ KvApply(e)
KVOf(e) == [rev |-> IF e.op = "get" THEN e.orev ELSE e.nrev, val |-> e.val]
AffVal(h, i, state) == [kind |-> "aff", owner |-> HostAff(h), bk |-> BKey(i), state |-> state]

\* blocks whose pool allows the request (filterBlocksByPools(.., poolsAllowedByUse))
Allowed(call, i) == PoolOK(call, FirstAddr(BCidr(i)))
WholeRsv(i) == \A o \in 0..(BSize - 1) : Reserved(NthAddr(BCidr(i), o))
