INIT TInit
NEXT TNext
INVARIANTS NoDoubleOwner HandleNeverUndercounts AtMostOneConfirmed ConfirmedMatchesBlock
POSTCONDITION TraceAccepted
CHECK_DEADLOCK FALSE
