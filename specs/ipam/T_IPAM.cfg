INIT TInit
NEXT TNext
INVARIANTS NoDoubleOwner HandleNeverUndercounts AtMostOneConfirmed ConfirmedMatchesBlock BlockAffHasAff
POSTCONDITION TraceAccepted
CHECK_DEADLOCK FALSE
