CONSTANT Tol = "none"
INIT TInit
NEXT TNext
POSTCONDITION TraceAccepted
CHECK_DEADLOCK FALSE
