CONSTANTS
  RemoveExt = TRUE
  CT = FALSE
  TwoKeys = TRUE
  Wl2 = TRUE
  SameCls = FALSE
  MaxInit = 2
  EarlyForget = FALSE
  SwallowList = FALSE
  Flags = {"RouteReplace", "RouteDel", "LinkList", "RouteList", "LinkByName", "NewNetlink", "RouteListEINTR", "LinkListEINTR", "SetStrict"}
  MaxEnv = 6
  MaxFail = 4
  SimLen = 32
INIT GInit
NEXT GNext
INVARIANT EmitAtLen
CHECK_DEADLOCK FALSE
