------------------------------ MODULE I_Routes ------------------------------
(* C17 implementation layer: felix/routetable/route_table.go as a transition system, one action per
   netlink call of Apply():

     Apply = attempt 0 [; attempt 1 with a fresh handle if attempt 0 failed or interfaces were marked for rescan]
     attempt = maybeResyncWithDataplane (full resync: LinkList + RouteList; else one resyncIface per marked
               interface: LinkByName + RouteList(OIF)) ; applyUpdates (RouteDel per pending deletion, optional
               early RouteDel of a route that moves, RouteReplace per pending update)

   Felix's state: `fl` (ifaceNameToIndex / ifaceIndexToState), `bel` (the Dataplane() side of the
   kernelRoutes delta tracker), `full` (fullResyncNeeded), `rs` (ifacesToRescan); the Desired() side is
   recomputed from `desired` and `fl` on demand (the code caches it and recomputes on every trigger).
   Netlink failures are the mock's one-shot FailNext... flags (`arm`).  The conntrack owner tracker is
   abstracted to "a moving route may be deleted early".

   TLC checks exhaustively that every completed Apply satisfies the property layer's ApplyPost
   (module Routes): invariant PostOK.  The environment (route edits, interface create / down / up /
   recreate with a fresh ifindex, truthful interface events) only moves between Applies, as in the
   sequential driver.                                                                             *)
EXTENDS Integers, FiniteSets, Sequences, TLC

CONSTANTS RemoveExt,      \* RemoveNonCalicoWorkloadRoutes
          CT,             \* BOOLEAN: the real RouteTable runs with conntrack cleanup enabled; then the contested
                          \* destination is a block (not subject to early deletion) - keeps behaviours replayed
                          \* on the real code away from confirmed defect F1
          TwoKeys,        \* BOOLEAN: second destination in the universe
          Wl2,            \* BOOLEAN: second workload interface (cali2) with a conflicting lower-priority route
          SameCls,        \* BOOLEAN: cali2's conflicting route is in the SAME class as cali1's (tie-break inside a
                          \* class) instead of a lower-priority class
          MaxInit,        \* number of routes in the starting kernel
          EarlyForget,    \* TRUE: as the code - an early (conntrack-ordering) RouteDel leaves the Dataplane()
                          \* tracker untouched; FALSE: the intended design - the tracker forgets the route
          Flags,          \* failure flags that may be armed
          SwallowList,    \* TRUE: as the code - resyncIface logs and swallows a failed route listing (the interface
                          \* is taken off the rescan list); FALSE: intended - the interface stays marked, Apply fails
          MaxEnv,         \* bound on environment steps per behaviour
          MaxFail         \* bound on armings per behaviour

VARIABLES cfg, kernel, links, desired, rtDirty, ifDirty, resyncQ, lie,      \* property layer
          fl, bel, full, rs, arm, reopen,                                   \* Felix / mock
          pc, att, errs, k0, ok, todo, early,                               \* Apply in progress
          nenv, nfail
pvars == <<cfg, kernel, links, desired, rtDirty, ifDirty, resyncQ, lie>>
fvars == <<fl, bel, full, rs, arm, reopen>>
avars == <<pc, att, errs, k0, ok, todo, early>>
vars == <<pvars, fvars, avars, nenv, nfail>>

A == INSTANCE Routes WITH Tol <- "none"

\* ---- the universe ------------------------------------------------------------------------------------
TheCfg == [ipv |-> 4, table |-> 254, defProto |-> 3, devSrc |-> "", wl |-> {"cali1", "cali2"},
           special |-> {"vxlan.calico"}, ipip |-> "tunl0", removeExt |-> RemoveExt, ownBird |-> FALSE,
           allProtos |-> {3, 80}, exclusive |-> {80}, ct |-> CT]
K1 == IF CT THEN "10.0.1.0/26" ELSE "10.0.0.1/32"
K2 == "10.0.0.2/32"
Dsts == IF TwoKeys THEN {K1, K2} ELSE {K1}
IdxPool == [n \in {"cali1", "cali2"} |-> IF n = "cali1" THEN <<11, 12>> ELSE <<21, 22>>]
Eth0 == [name |-> "eth0", idx |-> 2, up |-> TRUE]
T(dst, tt, gw, proto) == [dst |-> dst, prio |-> 0, tt |-> tt, gw |-> gw, src |-> "", proto |-> proto, mtu |-> 0]
\* what Felix may be asked for: (class, interface, target)
WantU == { <<0, "cali1", T(d, "", "", 0)>> : d \in Dsts }
         \cup (IF Wl2 THEN { IF SameCls THEN <<0, "cali2", T(K1, "", "172.16.0.1", 0)>>
                                          ELSE <<4, "cali2", T(K1, "vxlan", "172.16.0.1", 0)>> } ELSE {})
         \cup { <<8, A!NoOIF, T(K1, "blackhole", "", 80)>> }
Names == IF Wl2 THEN {"cali1", "cali2"} ELSE {"cali1"}
\* what the environment may put into the kernel: (table, dst, interface name or NoOIF, proto, gw, type)
ExtU == { <<254, d, "eth0", 2, "172.16.0.9", 1>> : d \in Dsts }           \* foreign
        \cup { <<254, K1, "cali1", 2, "", 1>>,                            \* on a workload device, kernel proto
               <<254, K1, "cali1", 3, "172.16.0.9", 1>>,                  \* stale Felix route
               <<100, K1, "cali1", 3, "", 1>>,                            \* other table
               <<254, K1, A!NoOIF, 2, "", 6>> }                           \* foreign blackhole
ExtRoute(x, ls) ==
    [table |-> x[1], dst |-> x[2], prio |-> 0, tos |-> 0,
     ifx |-> IF x[3] = A!NoOIF THEN 0 ELSE (CHOOSE l \in ls : l.name = x[3]).idx,
     type |-> x[6], scope |-> IF x[6] = 1 THEN 253 ELSE 0, proto |-> x[4], gw |-> x[5], src |-> "", onlink |-> FALSE,
     mtu |-> 0, family |-> 2, nmp |-> 0]
ExtOK(x, ls) == x[3] = A!NoOIF \/ \E l \in ls : l.name = x[3]

\* ---- Felix's view ----------------------------------------------------------------------------------------
\* (parametrised by the interface table f so that a step can look at the table it is about to install)
FUsable(w, f) == w.ifn = A!NoOIF \/ \E l \in A!LinkOf(f, w.ifn) : l.up
FCands(K, f) == { w \in A!Wants(K) : FUsable(w, f) }
\* lowest class wins; among equals the highest ifindex
FBest(K, f) == { w \in FCands(K, f) : \A v \in FCands(K, f) :
                    w.cls < v.cls \/ (w.cls = v.cls /\ A!IdxOf(w, f) >= A!IdxOf(v, f)) }
DKeysF(f) == { K \in { A!WKey(w) : w \in desired } : FCands(K, f) # {} }
DKF(K, f) == LET w == CHOOSE w \in FBest(K, f) : TRUE IN A!Render(w, A!IdxOf(w, f))
DKeys == DKeysF(fl)
DK(K) == DKF(K, fl)
BelKeys == { A!Key(r) : r \in bel }
PendDel == { K \in BelKeys : K \notin DKeys }
PendUpd == { K \in DKeys : A!Get(bel, K) # {DK(K)} }
SetKey(k, r) == { x \in k : A!Key(x) # A!Key(r) } \cup {r}
DelKey(k, K) == { x \in k : A!Key(x) # K }

Armed(f) == f \in arm
Consume(f) == arm' = arm \ {f}

Init ==
    /\ cfg = TheCfg /\ desired = {} /\ rtDirty = FALSE /\ ifDirty = {} /\ resyncQ = TRUE /\ lie = FALSE
    /\ \E c1 \in {"absent", "up", "down"} :
          links = {Eth0} \cup (IF c1 = "absent" THEN {} ELSE {[name |-> "cali1", idx |-> 11, up |-> (c1 = "up")]})
    /\ \E X \in SUBSET ExtU :
          /\ \A x \in X : ExtOK(x, links)
          /\ \A x, y \in X : (x[1] = y[1] /\ x[2] = y[2]) => x = y
          /\ Cardinality(X) <= MaxInit
          /\ kernel = { ExtRoute(x, links) : x \in X }
    /\ fl = {} /\ bel = {} /\ full = TRUE /\ rs = {} /\ arm = {} /\ reopen = TRUE
    /\ pc = "idle" /\ att = 0 /\ errs = FALSE /\ k0 = {} /\ ok = FALSE /\ todo = {} /\ early = {}
    /\ nenv = 0 /\ nfail = 0

Idle == pc = "idle"
NoApply == UNCHANGED avars

\* ---- inputs ------------------------------------------------------------------------------------------------
ISetEmpty(c, n) == Idle /\ (\E w \in desired : w.cls = c /\ w.ifn = n) /\ A!SetRoutes(c, n, <<>>)
                   /\ UNCHANGED <<fvars, nenv, nfail>> /\ NoApply
IRouteUpdate(u) == Idle /\ A!Mk(u[1], u[2], u[3]) \notin desired /\ A!RouteUpdate(u[1], u[2], u[3])
                   /\ UNCHANGED <<fvars, nenv, nfail>> /\ NoApply
IRouteRemove(u) == Idle /\ A!Mk(u[1], u[2], u[3]) \in desired /\ A!RouteRemove(u[1], u[2], u[3].dst, u[3].prio)
                   /\ UNCHANGED <<fvars, nenv, nfail>> /\ NoApply
IQueueResync == Idle /\ ~resyncQ /\ A!QueueResync /\ full' = TRUE /\ UNCHANGED <<fl, bel, rs, arm, reopen, nenv, nfail>> /\ NoApply
IFail(F) == /\ Idle /\ nfail < MaxFail /\ F # arm
            /\ A!Fail(F) /\ arm' = F /\ nfail' = nfail + 1
            /\ UNCHANGED <<fl, bel, full, rs, reopen, nenv>> /\ NoApply
\* OnIfaceStateChanged with the interface's present true state
INotify(n) ==
    /\ Idle
    /\ LET L == A!LinkOf(links, n) IN
       IF L = {} THEN /\ A!IfaceEvent(n, 0, "")
                      /\ fl' = { l \in fl : l.name # n } /\ rs' = rs \ {n}
       ELSE LET l == CHOOSE l \in L : TRUE IN
            /\ A!IfaceEvent(n, l.idx, IF l.up THEN "up" ELSE "down")
            /\ fl' = { x \in fl : x.name # n } \cup {l}
            /\ rs' = IF l.up THEN rs \cup {n} ELSE rs
    /\ (n \in ifDirty \/ fl' # fl \/ rs' # rs)
    /\ UNCHANGED <<bel, full, arm, reopen, nenv, nfail>> /\ NoApply

\* ---- environment ----------------------------------------------------------------------------------------------
EnvBudget == Idle /\ nenv < MaxEnv /\ nenv' = nenv + 1
IExtAdd(x) == /\ EnvBudget /\ ExtOK(x, links) /\ ExtRoute(x, links) \notin kernel
              /\ A!EnvRoutes(SetKey(kernel, ExtRoute(x, links)))
              /\ UNCHANGED <<fvars, nfail>> /\ NoApply
IExtDel(r) == /\ EnvBudget /\ r \in kernel /\ A!EnvRoutes(kernel \ {r})
              /\ UNCHANGED <<fvars, nfail>> /\ NoApply
Flush(k, idx) == { r \in k : r.ifx # idx }
NextIdx(n) == LET used == { l.idx : l \in links } \cup { l.idx : l \in fl } \cup { r.ifx : r \in kernel \cup bel }
                  free == { i \in DOMAIN IdxPool[n] : \A j \in i..Len(IdxPool[n]) : IdxPool[n][j] \notin used } IN
              IF free = {} THEN 0 ELSE IdxPool[n][CHOOSE i \in free : \A j \in free : i <= j]
\* interface goes down or up (the kernel drops the routes through a device that goes down), goes away,
\* or is (re)created with an ifindex that was never used before
ILink(n) ==
    /\ EnvBudget
    /\ LET L == A!LinkOf(links, n) IN
       \/ /\ L # {}
          /\ LET l == CHOOSE l \in L : TRUE IN
             \/ A!EnvLink(n, (links \ {l}) \cup {[l EXCEPT !.up = ~l.up]}, IF l.up THEN Flush(kernel, l.idx) ELSE kernel, FALSE)
             \/ A!EnvLink(n, links \ {l}, Flush(kernel, l.idx), FALSE)
             \/ /\ NextIdx(n) # 0
                /\ A!EnvLink(n, (links \ {l}) \cup {[name |-> n, idx |-> NextIdx(n), up |-> TRUE]}, Flush(kernel, l.idx), FALSE)
       \/ /\ L = {} /\ NextIdx(n) # 0
          /\ A!EnvLink(n, links \cup {[name |-> n, idx |-> NextIdx(n), up |-> TRUE]}, kernel, FALSE)
    /\ UNCHANGED <<fvars, nfail>> /\ NoApply

\* ---- Apply ---------------------------------------------------------------------------------------------------------
PUnch == UNCHANGED <<cfg, links, desired, rtDirty, ifDirty, resyncQ, lie>>
ApplyStart == /\ Idle /\ pc' = "resync" /\ att' = 0 /\ errs' = FALSE /\ k0' = kernel /\ ok' = FALSE
              /\ todo' = rs /\ early' = {}
              /\ UNCHANGED <<pvars, fvars, nenv, nfail>>

\* attemptApply fails: MarkHandleForReopen, then retry once or give up
AttemptFails ==
    /\ reopen' = TRUE
    /\ IF att = 0 THEN pc' = "resync" /\ att' = 1 /\ errs' = FALSE /\ UNCHANGED ok
                  ELSE pc' = "done" /\ ok' = FALSE /\ UNCHANGED <<att, errs>>
    /\ UNCHANGED <<k0, early>>

\* Handle(): a (re)connect may fail
Connect(f) == reopen /\ Armed(f)
ConnFail == /\ pc \in {"resync", "del"} /\ \E f \in {"NewNetlink", "SetSocketTimeout", "SetStrict"} : Connect(f) /\ Consume(f)
            /\ AttemptFails /\ todo' = rs
            /\ UNCHANGED <<kernel, fl, bel, full, rs>> /\ PUnch /\ UNCHANGED <<nenv, nfail>>
ConnOK == ~\E f \in {"NewNetlink", "SetSocketTimeout", "SetStrict"} : Connect(f)

\* doFullResync
ResyncFull ==
    /\ pc = "resync" /\ full /\ ConnOK
    /\ \/ \E f \in {"LinkList", "LinkListEINTR", "RouteList"} :
            /\ Armed(f) /\ Consume(f) /\ AttemptFails /\ todo' = rs
            /\ UNCHANGED <<kernel, fl, bel, full, rs>>
       \/ /\ ~\E f \in {"LinkList", "LinkListEINTR", "RouteList"} : Armed(f)
          /\ arm' = arm \ {"RouteListEINTR", "RouteListWEINTR"}           \* interrupted dumps are retried
          /\ fl' = links
          /\ bel' = { r \in kernel : A!Owned(r, links) }
          /\ full' = FALSE /\ rs' = {} /\ reopen' = FALSE
          /\ pc' = "del" /\ todo' = {} /\ UNCHANGED <<att, errs, k0, ok, early>>
          /\ UNCHANGED kernel
    /\ PUnch /\ UNCHANGED <<nenv, nfail>>

\* resyncIface(n) for one interface marked for rescan
ResyncIface(n) ==
    /\ pc = "resync" /\ ~full /\ ConnOK /\ n \in todo
    /\ todo' = todo \ {n}
    /\ LET L == A!LinkOf(links, n)
           gone == L = {} \/ Armed("LinkByNameNotFound")
       IN
       IF Armed("LinkByName") /\ ~Armed("LinkByNameNotFound")
         THEN /\ Consume("LinkByName") /\ reopen' = TRUE /\ UNCHANGED <<fl, bel, rs>>       \* stays marked
       ELSE IF gone
         THEN /\ arm' = arm \ {"LinkByNameNotFound"} /\ reopen' = FALSE
              /\ fl' = { l \in fl : l.name # n } /\ rs' = rs \ {n} /\ UNCHANGED bel
       ELSE LET l == CHOOSE l \in L : TRUE
                fl2 == { x \in fl : x.name # n } \cup {l}
                seen == { r \in kernel : r.table = cfg.table /\ r.ifx = l.idx /\ A!Owned(r, fl2) }
                seenK == { A!Key(r) : r \in seen }
                \* wanted through this interface, not seen, and the route Felix would program goes through it
                lost == { K \in { A!WKey(w) : w \in { v \in desired : v.ifn = n } } :
                             K \notin seenK /\ K \in DKeysF(fl2) /\ DKF(K, fl2).ifx = l.idx }
            IN
            /\ fl' = fl2
            /\ IF Armed("RouteList")
                 THEN \* listing failed: the code logs the error and returns nil
                      /\ Consume("RouteList") /\ reopen' = TRUE /\ UNCHANGED bel
                      /\ rs' = IF SwallowList THEN rs \ {n} ELSE rs \cup {n}
                 ELSE /\ arm' = arm \ {"RouteListEINTR", "RouteListWEINTR"} /\ reopen' = FALSE
                      /\ rs' = rs \ {n}
                      /\ bel' = { r \in bel : A!Key(r) \notin (seenK \cup lost) } \cup seen
    /\ UNCHANGED <<kernel, full, pc, att, errs, k0, ok, early>> /\ PUnch /\ UNCHANGED <<nenv, nfail>>
ResyncDone == /\ pc = "resync" /\ ~full /\ ConnOK /\ todo = {}
              /\ pc' = "del" /\ UNCHANGED <<att, errs, k0, ok, todo, early>>
              /\ UNCHANGED <<pvars, fvars, nenv, nfail>>

\* applyUpdates: pending deletions
DelStep(K) ==
    /\ pc = "del" /\ ConnOK /\ K \in PendDel /\ K \notin todo
    /\ todo' = todo \cup {K}
    /\ IF Armed("RouteDel")
         THEN Consume("RouteDel") /\ errs' = TRUE /\ UNCHANGED <<kernel, bel>>
         ELSE kernel' = DelKey(kernel, K) /\ bel' = DelKey(bel, K) /\ UNCHANGED <<arm, errs>>
    /\ reopen' = FALSE
    /\ UNCHANGED <<cfg, links, desired, rtDirty, ifDirty, resyncQ, lie, fl, full, rs, pc, att, k0, ok, early, nenv, nfail>>
DelDone == /\ pc = "del" /\ ConnOK /\ PendDel \subseteq todo
           /\ pc' = "upd" /\ todo' = {} /\ reopen' = FALSE
           /\ UNCHANGED <<att, errs, k0, ok, early>> /\ UNCHANGED <<pvars, fl, bel, full, rs, arm, nenv, nfail>>
\* a route that moves to another interface may be deleted first (conntrack cleanup ordering)
EarlyDel(K) ==
    /\ pc = "upd" /\ todo = {} /\ K \in PendUpd /\ A!Get(bel, K) # {} /\ K \notin early
    /\ early' = early \cup {K}
    /\ IF Armed("RouteDel")
         THEN Consume("RouteDel") /\ errs' = TRUE /\ UNCHANGED <<kernel, bel>>
         ELSE /\ kernel' = DelKey(kernel, K) /\ UNCHANGED <<arm, errs>>
              /\ bel' = IF EarlyForget THEN bel ELSE DelKey(bel, K)
    /\ UNCHANGED <<cfg, links, desired, rtDirty, ifDirty, resyncQ, lie, fl, full, rs, reopen, pc, att, k0, ok, todo, nenv, nfail>>
\* pending updates: RouteReplace
UpdStep(K) ==
    /\ pc = "upd" /\ K \in PendUpd /\ K \notin todo
    /\ todo' = todo \cup {K}
    /\ LET r == DK(K)
           names == { l.name : l \in { x \in fl : x.idx = r.ifx } }
       IN
       IF Armed("RouteReplace")
         THEN /\ Consume("RouteReplace") /\ UNCHANGED <<kernel, bel>>
              /\ \* filterErrorByIfaceState: a device that is really down / gone is not an error, it is rescanned
                 IF r.ifx > 1 /\ names # {} /\ ~\E l \in links : l.name \in names /\ l.up
                   THEN rs' = rs \cup names /\ UNCHANGED errs
                   ELSE errs' = TRUE /\ UNCHANGED rs
         ELSE /\ kernel' = SetKey(kernel, r) /\ bel' = SetKey(bel, r) /\ UNCHANGED <<arm, errs, rs>>
    /\ UNCHANGED <<cfg, links, desired, rtDirty, ifDirty, resyncQ, lie, fl, full, reopen, pc, att, k0, ok, early, nenv, nfail>>
AttemptEnd ==
    /\ pc = "upd" /\ PendUpd \subseteq todo
    /\ IF errs THEN AttemptFails /\ todo' = rs
       ELSE IF rs # {} /\ att = 0
         THEN pc' = "resync" /\ att' = 1 /\ todo' = rs /\ UNCHANGED <<errs, k0, ok, early, reopen>>
         ELSE pc' = "done" /\ ok' = (rs = {}) /\ UNCHANGED <<att, errs, k0, todo, early, reopen>>
    /\ UNCHANGED <<pvars, fl, bel, full, rs, arm, nenv, nfail>>
Finish == /\ pc = "done" /\ pc' = "idle" /\ A!ApplyFlags /\ UNCHANGED kernel
          /\ UNCHANGED <<att, errs, k0, ok, todo, early>> /\ UNCHANGED <<fvars, nenv, nfail>>

Next ==
    \/ \E u \in WantU : IRouteUpdate(u) \/ IRouteRemove(u)
    \/ \E u \in WantU : ISetEmpty(u[1], u[2])
    \/ IQueueResync
    \/ \E F \in { S \in SUBSET Flags : Cardinality(S) <= 1 } : IFail(F)
    \/ \E n \in Names : INotify(n) \/ ILink(n)
    \/ \E x \in ExtU : IExtAdd(x)
    \/ \E r \in kernel : IExtDel(r)
    \/ ApplyStart \/ ConnFail \/ ResyncFull \/ ResyncDone \/ DelDone \/ AttemptEnd \/ Finish
    \/ \E n \in Names : ResyncIface(n)
    \/ \E K \in BelKeys : DelStep(K)
    \/ \E K \in DKeys : EarlyDel(K) \/ UpdStep(K)

\* ---- what TLC checks -----------------------------------------------------------------------------------------------
PostOK == pc = "done" => A!ApplyPost(ok, k0, kernel, links)
OneRoutePerKey == \A r, s \in kernel : A!Key(r) = A!Key(s) => r = s
=============================================================================
