CONSTANT Tol = "F3"
INIT TInit
NEXT TNext
POSTCONDITION TraceAccepted
CHECK_DEADLOCK FALSE
