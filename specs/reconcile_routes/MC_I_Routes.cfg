CONSTANTS
  RemoveExt = TRUE
  CT = FALSE
  TwoKeys = FALSE
  Wl2 = TRUE
  SameCls = TRUE
  MaxInit = 1
  EarlyForget = FALSE
  SwallowList = FALSE
  Flags = {"RouteReplace", "RouteDel", "LinkList"}
  MaxEnv = 2
  MaxFail = 1
INIT Init
NEXT Next
INVARIANTS PostOK OneRoutePerKey
CHECK_DEADLOCK FALSE
