CONSTANTS
  RemoveExt = TRUE
  CT = FALSE
  TwoKeys = FALSE
  Wl2 = FALSE
  SameCls = FALSE
  MaxInit = 1
  EarlyForget = FALSE
  SwallowList = FALSE
  Flags = {"RouteList", "LinkByName", "LinkByNameNotFound", "NewNetlink", "RouteListEINTR"}
  MaxEnv = 2
  MaxFail = 1
INIT Init
NEXT Next
INVARIANTS PostOK OneRoutePerKey
CHECK_DEADLOCK FALSE
