----------------------------- MODULE Gen_Routes -----------------------------
(* Behaviour generator for C17 (leg A): random walks (`-simulate`) through I_Routes with a history of
   the INPUT steps (calls on the RouteTable, environment edits, fault arming); the internal steps of an
   Apply are not recorded - the driver just calls Apply().  The first record is the starting kernel.
   The generator keeps away from the two confirmed defects (notes/C17.md): it is run with
   EarlyForget = FALSE / SwallowList = FALSE only for the model's own bookkeeping; on the real code
   the histories that would need those switches are avoided by construction:
     - a non-EINTR RouteList failure is only armed when a full resync is pending (GFail);
     - with conntrack cleanup enabled (CT) only a block destination is contested between classes /
       interfaces; the single-address destination has one possible (class, interface).              *)
EXTENDS I_Routes, Json

CONSTANTS SimLen
VARIABLE hist
gvars == <<vars, hist>>

Rt(r) == r
SetToSeq(S) == CHOOSE s \in [1..Cardinality(S) -> S] : \A i, j \in 1..Cardinality(S) : i # j => s[i] # s[j]
InitRec == [op |-> "init", ipv |-> 4, table |-> 0, removeExt |-> RemoveExt, ownBird |-> FALSE, ct |-> CT,
            links |-> SetToSeq(links), routes |-> SetToSeq(kernel)]
GInit == Init /\ hist = <<InitRec>>

Step(a, r) == a /\ hist' = Append(hist, r)
Silent(a) == a /\ UNCHANGED hist
LinkRec(n) == LET L == A!LinkOf(links', n)
                  O == A!LinkOf(links, n) IN
              IF L = {} THEN [op |-> "link", name |-> n, idx |-> 0, up |-> FALSE, flush |-> TRUE]
              ELSE LET l == CHOOSE l \in L : TRUE IN
                   [op |-> "link", name |-> n, idx |-> l.idx, up |-> l.up,
                    flush |-> (O # {} /\ ((CHOOSE o \in O : TRUE).idx # l.idx \/ ~l.up))]
NotifyRec(n) == [op |-> "notify", name |-> n]
GFail(F) == /\ ("RouteList" \in F => full)
            /\ Step(IFail(F), [op |-> "fail", flags |-> SetToSeq(F), persist |-> FALSE])

\* TLC's simulator picks uniformly among successor states and there are many more input successors than
\* the single ApplyStart: at most MaxRun inputs in a row before an Apply
MaxRun == 3
InputOK == LET n == Len(hist) IN \E i \in (IF n > MaxRun THEN n - MaxRun + 1 ELSE 1)..n : hist[i].op \in {"apply", "init"}

GNext ==
  \/ /\ Len(hist) = SimLen /\ Idle /\ hist' = Append(hist, [op |-> "end"]) /\ UNCHANGED vars
  \/ /\ Len(hist) < SimLen /\ Idle /\ ~InputOK /\ Step(ApplyStart, [op |-> "apply"])
  \/ /\ Len(hist) < SimLen /\ InputOK
     /\ \/ \E u \in WantU : Step(IRouteUpdate(u), [op |-> "route_update", cls |-> u[1], ifn |-> u[2], target |-> u[3]])
        \/ \E u \in WantU : Step(IRouteRemove(u), [op |-> "route_remove", cls |-> u[1], ifn |-> u[2], dst |-> u[3].dst, prio |-> u[3].prio])
        \/ \E u \in WantU : Step(ISetEmpty(u[1], u[2]), [op |-> "set_routes", cls |-> u[1], ifn |-> u[2], targets |-> <<>>])
        \/ Step(IQueueResync, [op |-> "resync"])
        \/ \E F \in { S \in SUBSET Flags : Cardinality(S) <= 1 } : GFail(F)
        \/ \E n \in Names : Step(INotify(n), NotifyRec(n))
        \/ \E n \in Names : Step(ILink(n), LinkRec(n))
        \/ \E x \in ExtU : Step(IExtAdd(x), [op |-> "ext_add", r |-> ExtRoute(x, links)])
        \/ \E r \in kernel : Step(IExtDel(r), [op |-> "ext_del", table |-> r.table, dst |-> r.dst, prio |-> r.prio])
        \/ Step(ApplyStart, [op |-> "apply"])
  \/ /\ ~Idle
     /\ \/ Silent(ConnFail) \/ Silent(ResyncFull) \/ Silent(ResyncDone) \/ Silent(DelDone) \/ Silent(AttemptEnd) \/ Silent(Finish)
        \/ \E n \in Names : Silent(ResyncIface(n))
        \/ \E K \in BelKeys : Silent(DelStep(K))
        \/ \E K \in DKeys : Silent(EarlyDel(K)) \/ Silent(UpdStep(K))

EmitAtLen == Len(hist) = SimLen + 1 => PrintT("BEH " \o ToJson(hist))
=============================================================================
