CONSTANTS
  RemoveExt = TRUE
  CT = FALSE
  TwoKeys = FALSE
  Wl2 = FALSE
  SameCls = FALSE
  MaxInit = 0
  EarlyForget = FALSE
  SwallowList = TRUE
  Flags = {"RouteList"}
  MaxEnv = 2
  MaxFail = 1
INIT Init
NEXT Next
INVARIANTS PostOK
CHECK_DEADLOCK FALSE
