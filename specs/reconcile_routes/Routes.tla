------------------------------- MODULE Routes -------------------------------
(* C17 property layer.  The kernel routing tables (as held by the netlink mock), the interfaces, and the
   routes Felix has been asked for; Felix's RouteTable.Apply() is ONE action whose only constraint is
   the property:

     - (Exact) after a SUCCESSFUL Apply, for every FIB key (table, dst, priority):
         * if some desired route for the key is programmable (its interface exists and is up, or it
           is a no-interface route): the kernel holds the rendering of a desired route of the BEST
           (numerically lowest) route class among the programmable ones;
         * else if the route that was there is Felix-owned (OwnershipPolicy.RouteIsOurs): it is gone
           (tolerated: still there when it is itself a rendering of a desired route whose device is down);
         * else: the key is exactly as it was before the Apply (route not owned by Felix untouched).
     - (Safe) after ANY Apply (also a failed one): a key that changed either held a Felix-owned route
       before, or now holds the rendering of some desired route for that key.

   Felix cannot see the kernel being edited behind its back, nor interface changes nobody told it
   about, so both clauses are only demanded when Felix is `Obliged` to know the truth: a full resync
   was queued (QueueResync; initially true) after the last unannounced change, or nothing changed
   unannounced at all.  An interface change is announced by an OnIfaceStateChanged event carrying
   the interface's true (index, state) after the change.

   Everything an environment step does to kernel/links is unconstrained ("any starting kernel state").
   Records:  route  [table, dst, prio, tos, ifx, type, scope, proto, gw, src, onlink, mtu, family, nmp]
             link   [name, idx, up]
             want   [cls, ifn, dst, prio, tt, gw, src, proto, mtu]    (prio already normalised)        *)
EXTENDS Integers, FiniteSets, Sequences, TLC

\* "none" for every verdict.  "F1" / "F2" / "F3" weaken the environment assumption exactly at the trigger of one of
\* the three confirmed defects (notes/C17.md); they are used ONLY to classify a trace that "none" has already
\* rejected: a rejection is attributed to defect Fx iff the trace is acceptable under tolerance Fx.
\*   F1: while a RouteReplace failure is armed on a RouteTable with conntrack cleanup, and afterwards until a full
\*       resync, Felix's belief about the kernel may be stale (early-deleted route not forgotten);
\*   F2: the same for an armed RouteList failure (swallowed by a per-interface resync);
\*   F3: an interface that appears with an ifindex used before stays unknown to Felix until an event announces it
\*       (a full resync does not help).
CONSTANT Tol

VARIABLES cfg,        \* [ipv, table, defProto, devSrc, wl, special, ipip, removeExt, ownBird, allProtos, exclusive, ct]
          kernel,     \* set of route records (at most one per key)
          links,      \* set of link records
          desired,    \* set of want records (at most one per (cls, ifn, dst, prio))
          rtDirty,    \* routes were edited behind Felix's back since the last full resync
          ifDirty,    \* interfaces changed (or lied about) and not truthfully announced since
          resyncQ,    \* QueueResync() called (or new RouteTable) and not yet consumed by an Apply
          lie         \* the netlink mock is armed to deny the existence of an existing link
vars == <<cfg, kernel, links, desired, rtDirty, ifDirty, resyncQ, lie>>

NoOIF == "*NoOIF*"
RTN_UNICAST == 1   RTN_LOCAL == 2   RTN_BLACKHOLE == 6   RTN_UNREACHABLE == 7   RTN_PROHIBIT == 8   RTN_THROW == 9
SCOPE_UNIVERSE == 0   SCOPE_LINK == 253   SCOPE_HOST == 254
RTPROT_BIRD == 12
AF_INET == 2   AF_INET6 == 10
V6LinkLocal == "fe80::/64"

\* ---- ownership: transcription of RouteTable.routeIsOurs + MainTableOwnershipPolicy.RouteIsOurs ------------
SpecialNoIf(r) == r.ifx <= 1 /\ (r.nmp > 0 \/ r.type \in {RTN_LOCAL, RTN_THROW, RTN_BLACKHOLE, RTN_PROHIBIT, RTN_UNREACHABLE})
V6Bootstrap(r) == r.family = AF_INET6 /\ r.dst = V6LinkLocal
PolicyOurs(n, r) ==
    \/ r.proto \in cfg.exclusive
    \/ /\ n # NoOIF
       /\ IF n \in cfg.wl
            THEN (IF cfg.removeExt THEN TRUE ELSE r.proto \in cfg.allProtos)
            ELSE \/ cfg.ownBird /\ n = cfg.ipip /\ r.proto = RTPROT_BIRD
                 \/ n \in cfg.special
Owned(r, ls) ==
    /\ r.table = cfg.table
    /\ IF SpecialNoIf(r) THEN PolicyOurs(NoOIF, r)
       ELSE IF V6Bootstrap(r) THEN FALSE
       ELSE \E l \in ls : l.idx = r.ifx /\ PolicyOurs(l.name, r)

\* a route through a device that does not exist: impossible in a real kernel (the mock accepts it when
\* Felix programs a route for an interface that has just gone); nothing is demanded about such a route
Dangling(r, ls) == ~SpecialNoIf(r) /\ ~\E l \in ls : l.idx = r.ifx

\* ---- rendering of a desired route: transcription of defs.go Target.RouteType/RouteScope/Flags and of
\*      recalculateDesiredKernelRoute / applyUpdates ------------------------------------------------------------
NormPrio(p) == IF cfg.ipv = 6 /\ p = 0 THEN 1024 ELSE p
TypeOf(tt) == CASE tt = "local" -> RTN_LOCAL [] tt = "throw" -> RTN_THROW [] tt = "blackhole" -> RTN_BLACKHOLE
                [] tt = "prohibit" -> RTN_PROHIBIT [] tt = "unreachable" -> RTN_UNREACHABLE [] OTHER -> RTN_UNICAST
ScopeOf(tt) == CASE tt = "local" -> SCOPE_HOST
                 [] tt \in {"global-unicast", "noencap", "vxlan", "throw", "blackhole", "prohibit", "onlink"} -> SCOPE_UNIVERSE
                 [] OTHER -> SCOPE_LINK
OnLinkOf(tt) == tt \in {"vxlan", "noencap", "onlink"}
NoIfIdx == IF cfg.ipv = 6 THEN 1 ELSE 0
Render(w, idx) ==
    [table |-> cfg.table, dst |-> w.dst, prio |-> w.prio, tos |-> 0, ifx |-> idx,
     type |-> TypeOf(w.tt), scope |-> ScopeOf(w.tt), proto |-> IF w.proto # 0 THEN w.proto ELSE cfg.defProto,
     gw |-> w.gw, src |-> IF w.src # "" THEN w.src ELSE cfg.devSrc, onlink |-> OnLinkOf(w.tt), mtu |-> w.mtu,
     family |-> IF cfg.ipv = 6 THEN AF_INET6 ELSE AF_INET, nmp |-> 0]

Key(r) == <<r.table, r.dst, r.prio>>
WKey(w) == <<cfg.table, w.dst, w.prio>>
Get(k, K) == { r \in k : Key(r) = K }
LinkOf(ls, n) == { l \in ls : l.name = n }
Exists(w, ls) == w.ifn = NoOIF \/ LinkOf(ls, w.ifn) # {}
Usable(w, ls) == w.ifn = NoOIF \/ \E l \in LinkOf(ls, w.ifn) : l.up
IdxOf(w, ls) == IF w.ifn = NoOIF THEN NoIfIdx ELSE (CHOOSE l \in LinkOf(ls, w.ifn) : TRUE).idx
Wants(K) == { w \in desired : WKey(w) = K }
Cands(K, ls) == { w \in Wants(K) : Usable(w, ls) }
Best(K, ls) == { w \in Cands(K, ls) : \A v \in Cands(K, ls) : w.cls <= v.cls }

\* ---- the property ---------------------------------------------------------------------------------------
KeysOf(k1, k2) == { Key(r) : r \in k1 \cup k2 } \cup { WKey(w) : w \in desired }
ExactKey(k1, k2, ls, K) ==
    IF Cands(K, ls) # {}
      THEN Get(k2, K) # {} /\ Get(k2, K) \subseteq { Render(w, IdxOf(w, ls)) : w \in Best(K, ls) }
      ELSE IF \E r \in Get(k1, K) : Owned(r, ls)
        THEN \/ Get(k2, K) = {}
             \/ Get(k2, K) = Get(k1, K) /\ Get(k1, K) \subseteq { Render(w, IdxOf(w, ls)) : w \in { v \in Wants(K) : Exists(v, ls) } }
        ELSE Get(k2, K) = Get(k1, K) \/ (Get(k2, K) = {} /\ \E r \in Get(k1, K) : Dangling(r, ls))
SafeKey(k1, k2, ls, K) ==
    \/ Get(k2, K) = Get(k1, K)
    \/ \E r \in Get(k1, K) : Owned(r, ls) \/ Dangling(r, ls)
    \/ Get(k2, K) # {} /\ Get(k2, K) \subseteq { Render(w, IdxOf(w, ls)) : w \in { v \in Wants(K) : Exists(v, ls) } }
Exact(k1, k2, ls) == \A K \in KeysOf(k1, k2) : ExactKey(k1, k2, ls, K)
Safe(k1, k2, ls) == \A K \in KeysOf(k1, k2) : SafeKey(k1, k2, ls, K)

Reuse(n) == "reuse:" \o n
IsReuse(x) == \E l \in links : x = Reuse(l.name)
Obliged == ~lie /\ (~\E x \in ifDirty : IsReuse(x)) /\ (resyncQ \/ (~rtDirty /\ ifDirty = {}))
ApplyPost(ok, k1, k2, ls) == Obliged => (Safe(k1, k2, ls) /\ (ok => Exact(k1, k2, ls)))

\* ---- actions --------------------------------------------------------------------------------------------
Mk(c, n, t) == [cls |-> c, ifn |-> n, dst |-> t.dst, prio |-> NormPrio(t.prio), tt |-> t.tt, gw |-> t.gw,
                src |-> t.src, proto |-> t.proto, mtu |-> t.mtu]
\* ts: sequence of targets; a later target for the same key replaces an earlier one
SetRoutes(c, n, ts) ==
    LET keep == { i \in DOMAIN ts : \A j \in DOMAIN ts : (j > i) => ~(ts[j].dst = ts[i].dst /\ NormPrio(ts[j].prio) = NormPrio(ts[i].prio)) }
    IN  /\ desired' = { w \in desired : ~(w.cls = c /\ w.ifn = n) } \cup { Mk(c, n, ts[i]) : i \in keep }
        /\ UNCHANGED <<cfg, kernel, links, rtDirty, ifDirty, resyncQ, lie>>
RouteUpdate(c, n, t) ==
    /\ desired' = { w \in desired : ~(w.cls = c /\ w.ifn = n /\ w.dst = t.dst /\ w.prio = NormPrio(t.prio)) } \cup { Mk(c, n, t) }
    /\ UNCHANGED <<cfg, kernel, links, rtDirty, ifDirty, resyncQ, lie>>
RouteRemove(c, n, dst, prio) ==
    /\ desired' = { w \in desired : ~(w.cls = c /\ w.ifn = n /\ w.dst = dst /\ w.prio = NormPrio(prio)) }
    /\ UNCHANGED <<cfg, kernel, links, rtDirty, ifDirty, resyncQ, lie>>

\* environment: anything may happen to the kernel's routes / to interface `n` (and to the routes with it)
EnvRoutes(k2) == kernel' = k2 /\ rtDirty' = TRUE /\ UNCHANGED <<cfg, links, desired, ifDirty, resyncQ, lie>>
\* `reused`: the step gave interface n an ifindex that some interface had before (only matters under Tol = "F3")
EnvLink(n, ls2, k2, reused) ==
    /\ links' = ls2 /\ kernel' = k2
    /\ ifDirty' = ifDirty \cup {n} \cup (IF Tol = "F3" /\ reused THEN {Reuse(n)} ELSE {})
    /\ UNCHANGED <<cfg, desired, rtDirty, resyncQ, lie>>
\* an interface monitor event; it announces the interface iff it tells the present truth
Truthful(n, idx, st) == IF st = "" THEN LinkOf(links, n) = {}
                        ELSE \E l \in LinkOf(links, n) : l.idx = idx /\ l.up = (st = "up")
IfaceEvent(n, idx, st) ==
    /\ ifDirty' = IF Truthful(n, idx, st) THEN ifDirty \ {n, Reuse(n)} ELSE ifDirty \cup {n}
    /\ UNCHANGED <<cfg, kernel, links, desired, rtDirty, resyncQ, lie>>
QueueResync == resyncQ' = TRUE /\ UNCHANGED <<cfg, kernel, links, desired, rtDirty, ifDirty, lie>>
QueueResyncIface(n) == UNCHANGED vars
\* arming netlink failures; a mock that answers "link not found" for a link that exists is lying about
\* the interfaces: nothing is demanded while it is armed, and afterwards only a full resync repairs it
Unreliable(flags) == \/ "LinkByNameNotFound" \in flags
                     \/ (Tol = "F1" /\ cfg.ct /\ "RouteReplace" \in flags)
                     \/ (Tol = "F2" /\ flags \cap {"RouteList", "RouteListEINTR", "RouteListWEINTR"} # {})
Fail(flags) == /\ lie' = Unreliable(flags)
               /\ ifDirty' = IF lie \/ lie' THEN ifDirty \cup {"*"} ELSE ifDirty
               /\ UNCHANGED <<cfg, kernel, links, desired, rtDirty, resyncQ>>

\* what an Apply does to the bookkeeping: a queued full resync has been consumed (or, if the Apply failed
\* before it got there, is still pending inside Felix - either way the NEXT Apply knows everything that
\* was true now)
ApplyFlags ==
    /\ IF resyncQ THEN /\ rtDirty' = FALSE /\ resyncQ' = FALSE
                       /\ ifDirty' = (IF lie THEN {"*"} ELSE {}) \cup { x \in ifDirty : IsReuse(x) }
                  ELSE UNCHANGED <<rtDirty, ifDirty, resyncQ>>
    /\ UNCHANGED <<cfg, links, desired, lie>>
Apply(ok, k2) ==
    /\ ApplyPost(ok, kernel, k2, links) = TRUE     \* (`= TRUE`: evaluated as a value, not expanded as an action)
    /\ kernel' = k2
    /\ ApplyFlags

Reset(c, k, ls) == /\ cfg' = c /\ kernel' = k /\ links' = ls /\ desired' = {}
                   /\ rtDirty' = FALSE /\ ifDirty' = {} /\ resyncQ' = TRUE /\ lie' = FALSE
=============================================================================
