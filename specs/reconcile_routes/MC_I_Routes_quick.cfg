CONSTANTS
  RemoveExt = TRUE
  CT = FALSE
  TwoKeys = FALSE
  Wl2 = FALSE
  SameCls = FALSE
  MaxInit = 1
  EarlyForget = FALSE
  SwallowList = FALSE
  Flags = {"RouteReplace"}
  MaxEnv = 1
  MaxFail = 1
INIT Init
NEXT Next
INVARIANTS PostOK OneRoutePerKey
CHECK_DEADLOCK FALSE
