------------------------------ MODULE T_Routes ------------------------------
(* Trace specification for C17: replays the calls made on the real felix/routetable.RouteTable and the
   environment's edits of the mocknetlink kernel against module Routes.  Environment events and Apply
   events carry the complete content of the mock kernel; environment steps are adopted as they are,
   Apply steps must satisfy Routes!ApplyPost.                                                         *)
EXTENDS TraceLib, FiniteSets

CONSTANT Tol          \* "none" for verdicts; "F1"/"F2"/"F3" only to classify an already rejected trace (see Routes.tla)
VARIABLES cfg, kernel, links, desired, rtDirty, ifDirty, resyncQ, lie,
          used         \* every ifindex some interface has had in this trace
D == INSTANCE Routes
vars == <<cfg, kernel, links, desired, rtDirty, ifDirty, resyncQ, lie, used>>

CfgOf(c) == [ipv |-> c.ipv, table |-> c.table, defProto |-> c.defProto, devSrc |-> c.devSrc,
             wl |-> SeqToSet(c.wl), special |-> SeqToSet(c.special), ipip |-> c.ipip,
             removeExt |-> c.removeExt, ownBird |-> c.ownBird, ct |-> c.ct,
             allProtos |-> SeqToSet(c.allProtos), exclusive |-> SeqToSet(c.exclusive)]
NoCfg == [ipv |-> 4, table |-> 254, defProto |-> 3, devSrc |-> "", wl |-> {}, special |-> {}, ipip |-> "",
          removeExt |-> FALSE, ownBird |-> FALSE, ct |-> FALSE, allProtos |-> {}, exclusive |-> {}]

TInit == /\ l = 1 /\ cfg = NoCfg /\ kernel = {} /\ links = {} /\ desired = {}
         /\ rtDirty = FALSE /\ ifDirty = {} /\ resyncQ = TRUE /\ lie = FALSE /\ used = {}

Idxs(ls) == { x.idx : x \in ls }
TReset == IsEvent("reset") /\ D!Reset(CfgOf(Cur.cfg), SeqToSet(Cur.kernel), SeqToSet(Cur.links))
          /\ used' = Idxs(SeqToSet(Cur.links))
\* environment assumption (checked, so that a harness slip is an error and not a verdict): Felix is only asked
\* for routes that its own ownership policy recognises as Felix's
Ownable(c, n, t) == D!PolicyOurs(n, D!Render(D!Mk(c, n, t), 0))
TSetRoutes == /\ IsEvent("set_routes")
              /\ Assert(\A i \in DOMAIN Cur.targets : Ownable(Cur.cls, Cur.ifn, Cur.targets[i]), "harness: route asked for that the policy would not own")
              /\ D!SetRoutes(Cur.cls, Cur.ifn, Cur.targets) /\ UNCHANGED used
TRouteUpdate == /\ IsEvent("route_update")
                /\ Assert(Ownable(Cur.cls, Cur.ifn, Cur.target), "harness: route asked for that the policy would not own")
                /\ D!RouteUpdate(Cur.cls, Cur.ifn, Cur.target) /\ UNCHANGED used
TRouteRemove == IsEvent("route_remove") /\ D!RouteRemove(Cur.cls, Cur.ifn, Cur.dst, Cur.prio) /\ UNCHANGED used
TEnvRoutes == IsEvent("env_routes") /\ D!EnvRoutes(SeqToSet(Cur.kernel)) /\ UNCHANGED used
TEnvLink == /\ IsEvent("env_link")
            /\ LET ls2 == SeqToSet(Cur.links)
                   new == { x \in ls2 : x.name = Cur.name /\ ~\E o \in links : o.name = x.name /\ o.idx = x.idx }
               IN /\ D!EnvLink(Cur.name, ls2, SeqToSet(Cur.kernel), \E x \in new : x.idx \in used)
                  /\ used' = used \cup Idxs(ls2)
TIfaceEvent == IsEvent("iface_event") /\ D!IfaceEvent(Cur.name, Cur.idx, Cur.state) /\ UNCHANGED used
TQueueResync == IsEvent("queue_resync") /\ D!QueueResync /\ UNCHANGED used
TQueueResyncIface == IsEvent("queue_resync_iface") /\ D!QueueResyncIface(Cur.name) /\ UNCHANGED used
\* the driver arms "the next route dump that delivers this route is interrupted (EINTR) and the route is gone
\* before the retry"; the deletion itself arrives as an env_routes event in the middle of the Apply
TDumpRace == IsEvent("dump_race") /\ UNCHANGED vars
TFail == IsEvent("fail") /\ D!Fail(SeqToSet(Cur.flags)) /\ UNCHANGED used
\* the interfaces do not change during an Apply (the driver is sequential); the logged links are checked to
\* be the ones the spec already has, so that a harness slip cannot be mistaken for a verdict
TApply == /\ IsEvent("apply")
          /\ Assert(SeqToSet(Cur.links) = links, "harness: links changed during Apply")
          /\ D!Apply(Cur.ok, SeqToSet(Cur.kernel)) /\ UNCHANGED used

TNext == TReset \/ TSetRoutes \/ TRouteUpdate \/ TRouteRemove \/ TEnvRoutes \/ TEnvLink \/ TIfaceEvent
         \/ TQueueResync \/ TQueueResyncIface \/ TFail \/ TDumpRace \/ TApply
TSpec == TInit /\ [][TNext]_<<vars, l>>
=============================================================================
