------------------------------ MODULE T_Routes ------------------------------
(* Trace specification for C17: replays the calls made on the real felix/routetable.RouteTable and the
   environment's edits of the mocknetlink kernel against module Routes.  Environment events and Apply
   events carry the complete content of the mock kernel; environment steps are adopted as they are,
   Apply steps must satisfy Routes!ApplyPost.                                                         *)
EXTENDS TraceLib, FiniteSets

VARIABLES cfg, kernel, links, desired, rtDirty, ifDirty, resyncQ, lie
D == INSTANCE Routes
vars == <<cfg, kernel, links, desired, rtDirty, ifDirty, resyncQ, lie>>

CfgOf(c) == [ipv |-> c.ipv, table |-> c.table, defProto |-> c.defProto, devSrc |-> c.devSrc,
             wl |-> SeqToSet(c.wl), special |-> SeqToSet(c.special), ipip |-> c.ipip,
             removeExt |-> c.removeExt, ownBird |-> c.ownBird,
             allProtos |-> SeqToSet(c.allProtos), exclusive |-> SeqToSet(c.exclusive)]
NoCfg == [ipv |-> 4, table |-> 254, defProto |-> 3, devSrc |-> "", wl |-> {}, special |-> {}, ipip |-> "",
          removeExt |-> FALSE, ownBird |-> FALSE, allProtos |-> {}, exclusive |-> {}]

TInit == /\ l = 1 /\ cfg = NoCfg /\ kernel = {} /\ links = {} /\ desired = {}
         /\ rtDirty = FALSE /\ ifDirty = {} /\ resyncQ = TRUE /\ lie = FALSE

TReset == IsEvent("reset") /\ D!Reset(CfgOf(Cur.cfg), SeqToSet(Cur.kernel), SeqToSet(Cur.links))
TSetRoutes == IsEvent("set_routes") /\ D!SetRoutes(Cur.cls, Cur.ifn, Cur.targets)
TRouteUpdate == IsEvent("route_update") /\ D!RouteUpdate(Cur.cls, Cur.ifn, Cur.target)
TRouteRemove == IsEvent("route_remove") /\ D!RouteRemove(Cur.cls, Cur.ifn, Cur.dst, Cur.prio)
TEnvRoutes == IsEvent("env_routes") /\ D!EnvRoutes(SeqToSet(Cur.kernel))
TEnvLink == IsEvent("env_link") /\ D!EnvLink(Cur.name, SeqToSet(Cur.links), SeqToSet(Cur.kernel))
TIfaceEvent == IsEvent("iface_event") /\ D!IfaceEvent(Cur.name, Cur.idx, Cur.state)
TQueueResync == IsEvent("queue_resync") /\ D!QueueResync
TQueueResyncIface == IsEvent("queue_resync_iface") /\ D!QueueResyncIface(Cur.name)
TFail == IsEvent("fail") /\ D!Fail(SeqToSet(Cur.flags))
\* the interfaces do not change during an Apply (the driver is sequential); the logged links are checked to
\* be the ones the spec already has, so that a harness slip cannot be mistaken for a verdict
TApply == /\ IsEvent("apply")
          /\ Assert(SeqToSet(Cur.links) = links, "harness: links changed during Apply")
          /\ D!Apply(Cur.ok, SeqToSet(Cur.kernel))

TNext == TReset \/ TSetRoutes \/ TRouteUpdate \/ TRouteRemove \/ TEnvRoutes \/ TEnvLink \/ TIfaceEvent
         \/ TQueueResync \/ TQueueResyncIface \/ TFail \/ TApply
TSpec == TInit /\ [][TNext]_<<vars, l>>
=============================================================================
