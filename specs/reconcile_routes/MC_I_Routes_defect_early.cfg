CONSTANTS
  RemoveExt = TRUE
  CT = FALSE
  TwoKeys = FALSE
  Wl2 = FALSE
  SameCls = FALSE
  MaxInit = 0
  EarlyForget = TRUE
  SwallowList = FALSE
  Flags = {"RouteReplace"}
  MaxEnv = 1
  MaxFail = 1
INIT Init
NEXT Next
INVARIANTS PostOK
CHECK_DEADLOCK FALSE
