CONSTANT Tol = "F1"
INIT TInit
NEXT TNext
POSTCONDITION TraceAccepted
CHECK_DEADLOCK FALSE
