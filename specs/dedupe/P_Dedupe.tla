------------------------------ MODULE P_Dedupe ------------------------------
(* C25 property layer.  The weakest transition system for "reconnecting to Typha converges without
   stale or lost resources": it knows only
     - what the LATEST upstream connection has said (its view, whether it reported in-sync),
     - what the downstream sink has been told (its view, how many in-syncs it received),
   and says nothing about queues, coalescing or batching.  The buffer may deliver ANY update at any
   time, subject to:
     (1) NewVsUpdated: a delivered KV with a value is typed "new" iff downstream lacks the key and
         "upd" iff it holds it (judged update by update, in delivery order);
     (2) InSyncForwarding: an in-sync is delivered downstream at most once per upstream in-sync report
         (never invented, never duplicated);
     (3) Converged: at every quiescent point (all producer calls returned, everything pulled has been
         delivered, the consumer is waiting for more) at which the latest connection has reported
         in-sync, downstream view = latest connection's view.
   Values: positive integers, None = 0 = absent / deletion.                                     *)
EXTENDS Naturals, Sequences, FiniteSets

CONSTANTS Keys, Vals
None == 0
ASSUME None \notin Vals

VARIABLES eview,     \* [Keys -> Vals \cup {None}]: view sent by the latest connection
          esync,     \* the latest connection has reported in-sync
          down,      \* [Keys -> Vals \cup {None}]: what the sink holds
          upIS,      \* number of upstream in-sync reports (all connections)
          downIS     \* number of in-sync statuses delivered to the sink
pvars == <<eview, esync, down, upIS, downIS>>

Empty == [k \in Keys |-> None]

\* an update is a record [k, v, ut]; ut \in {"new", "upd", "del", ...}
Apply1(view, u) == [view EXCEPT ![u.k] = u.v]
RECURSIVE ApplySeq(_, _)
ApplySeq(view, us) == IF us = <<>> THEN view ELSE ApplySeq(Apply1(view, Head(us)), Tail(us))

TypeOK1(view, u) ==
    u.v # None => /\ (u.ut = "new") <=> (view[u.k] = None)
                  /\ (u.ut = "upd") <=> (view[u.k] # None)
RECURSIVE TypesOK(_, _)
TypesOK(view, us) ==
    IF us = <<>> THEN TRUE
    ELSE TypeOK1(view, Head(us)) /\ TypesOK(Apply1(view, Head(us)), Tail(us))

ConvergedOK == esync => down = eview

Init == eview = Empty /\ esync = FALSE /\ down = Empty /\ upIS = 0 /\ downIS = 0

\* ---- upstream (the Typha client calling the buffer) ---------------------------------------------
ProdUpdates(us) == eview' = ApplySeq(eview, us) /\ UNCHANGED <<esync, down, upIS, downIS>>
ProdStatus(insync) ==
    /\ esync' = (esync \/ insync)
    /\ upIS' = IF insync THEN upIS + 1 ELSE upIS
    /\ UNCHANGED <<eview, down, downIS>>
ProdRestart == eview' = Empty /\ esync' = FALSE /\ UNCHANGED <<down, upIS, downIS>>

\* ---- downstream (the buffer calling the sink) -----------------------------------------------------
SinkUpdates(us) ==
    /\ TypesOK(down, us)
    /\ down' = ApplySeq(down, us)
    /\ UNCHANGED <<eview, esync, upIS, downIS>>
SinkStatus(insync) ==
    /\ insync => downIS < upIS
    /\ downIS' = IF insync THEN downIS + 1 ELSE downIS
    /\ UNCHANGED <<eview, esync, down, upIS>>
\* the buffer is observed drained and the consumer waiting
Quiescent == ConvergedOK /\ UNCHANGED pvars
=============================================================================
