------------------------------ MODULE T_Dedupe ------------------------------
(* Trace specification for C25: the calls recorded around the real dedupebuffer.DedupeBuffer (producer
   calls made by the driver, sink calls observed at the gated sink, quiescence observations) replayed
   against the property layer P_Dedupe.  One total-order log (the driver serialises everything through
   the gate), so validation is deterministic: BFS depth = number of consumed lines.             *)
EXTENDS TraceLib, FiniteSets

VARIABLES eview, esync, down, upIS, downIS

TKeys == UNION { SeqToSet(Trace[i].keys) : i \in { j \in 1..NTrace : Trace[j].ev = "reset" } }

D == INSTANCE P_Dedupe WITH Keys <- TKeys, Vals <- (Nat \ {0})
vars == <<eview, esync, down, upIS, downIS>>

TInit == l = 1 /\ D!Init

TReset   == IsEvent("reset") /\ eview' = D!Empty /\ esync' = FALSE /\ down' = D!Empty /\ upIS' = 0 /\ downIS' = 0
TStart   == IsEvent("start") /\ UNCHANGED vars
TPUpd    == IsEvent("p_upd") /\ D!ProdUpdates(Cur.kvs)
TPStatus == IsEvent("p_status") /\ D!ProdStatus(Cur.s = "insync")
TPRestart == IsEvent("p_restart") /\ D!ProdRestart
TSUpd    == IsEvent("s_upd") /\ D!SinkUpdates(Cur.kvs)
TSStatus == IsEvent("s_status") /\ D!SinkStatus(Cur.s = "insync")
TRet     == IsEvent("ret") /\ UNCHANGED vars
TIdle    == IsEvent("idle") /\ D!Quiescent

TNext == TReset \/ TStart \/ TPUpd \/ TPStatus \/ TPRestart \/ TSUpd \/ TSStatus \/ TRet \/ TIdle
TSpec == TInit /\ [][TNext]_<<vars, l>>
=============================================================================
