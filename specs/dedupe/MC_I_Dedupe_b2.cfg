CONSTANTS
  Keys = {"a", "b"}
  Vals = {1, 2}
  MaxProd = 5
  MaxRestarts = 2
  MaxUpdLen = 2
  MaxBatch = 2
  Protocol = TRUE
INIT Init
NEXT Next
INVARIANTS NoBadDelivery Converged QueueKeysUnique IdleMeansEmpty LiveIsDown
CHECK_DEADLOCK FALSE
