------------------------------ MODULE I_Dedupe ------------------------------
(* C25 implementation layer: libcalico-go/lib/backend/syncersv1/dedupebuffer transcribed at the grain
   of its critical sections.
     producer side (one action per call, atomic under d.lock):
        IOnUpdates(us)   OnUpdates            - notSeen discard + queueUpdate per update
        IOnStatus(s)     OnStatusUpdated      - onInSyncAfterReconnection, status dedupe/replace
        IRestart         OnTyphaConnectionRestarted
     consumer side (SendToSinkForever in its own goroutine, sink gated by the driver):
        IStart           the goroutine is started
        IPull            pullNextBatch (atomic under the lock; updates liveResourceKeys) + arrival of
                         the first sink call of the batch at the gate
        IRelease         the gated sink call returns: next sink call of the batch arrives, or the
                         consumer re-locks and pulls again, or it goes to cond.Wait (idle)
   The environment is the Typha client (syncclient.SyncerClient): a restart is
   OnTyphaConnectionRestarted; OnStatusUpdated(WaitForDatastore); OnStatusUpdated(ResyncInProgress);
   then whatever the server sends.  Protocol = FALSE lifts that assumption (used only to document a
   latent lost wake-up, never for verdicts).
   The P_Dedupe variables are carried as ghosts; TLC checks P's three obligations as invariants.  *)
EXTENDS Naturals, Sequences, FiniteSets, TLC

CONSTANTS Keys, Vals,
          MaxProd,        \* bound on producer calls
          MaxRestarts,    \* bound on connection restarts
          MaxUpdLen,      \* longest OnUpdates batch
          MaxBatch,       \* pullNextBatch batch size (100 in the code)
          Protocol        \* TRUE: environment behaves like syncclient

VARIABLES queue,     \* pendingUpdates: Seq of entries KV(..) / ST(..)
          live,      \* liveResourceKeys
          nsOn, nsSet, \* liveKeysNotSeenSinceReconnect (# nil, content)
          recent,    \* mostRecentStatusReceived
          cstate,    \* consumer: "off" | "idle" | "pull" | "insink"
          calls,     \* sink calls of the batch in flight; Head = the one blocked at the gate
          phase,     \* environment protocol phase "r1" | "r2" | "open"
          nprod, nrest,
          bad,       \* ghost: a delivered update/status broke NewVsUpdated / InSyncForwarding
          eview, esync, down, upIS, downIS   \* P_Dedupe
ivars == <<queue, live, nsOn, nsSet, recent, cstate, calls, phase, nprod, nrest, bad>>
vars == <<queue, live, nsOn, nsSet, recent, cstate, calls, phase, nprod, nrest, bad,
          eview, esync, down, upIS, downIS>>

P == INSTANCE P_Dedupe
None == 0
Statuses == {"wait", "resync", "insync"}

KV(k, v, ut) == [t |-> "kv", k |-> k, v |-> v, ut |-> ut, s |-> ""]
ST(s)        == [t |-> "st", k |-> "", v |-> 0, ut |-> "", s |-> s]
CallU(us)    == [t |-> "upd", us |-> us, s |-> ""]
CallS(s)     == [t |-> "st", us |-> <<>>, s |-> s]

RemoveAt(q, i) == SubSeq(q, 1, i - 1) \o SubSeq(q, i + 1, Len(q))

\* queueUpdate(key, u) with the current liveResourceKeys
QueueUpdate(q, u) ==
    LET ut2 == IF u.v # None THEN (IF u.k \in live THEN "upd" ELSE "new") ELSE u.ut
        idx == { i \in 1..Len(q) : q[i].t = "kv" /\ q[i].k = u.k }
    IN  IF idx # {}
          THEN LET i == CHOOSE j \in idx : TRUE IN
               IF u.v = None /\ u.k \notin live THEN RemoveAt(q, i)
               ELSE [q EXCEPT ![i] = KV(u.k, u.v, ut2)]
          ELSE Append(q, KV(u.k, u.v, ut2))
RECURSIVE QueueAll(_, _)
QueueAll(q, us) == IF us = <<>> THEN q ELSE QueueAll(QueueUpdate(q, Head(us)), Tail(us))

\* what the Typha client would put in UpdateType: relative to the connection's own view
RECURSIVE Typed(_, _)
Typed(view, kvs) ==
    IF kvs = <<>> THEN <<>>
    ELSE LET x == Head(kvs)
             u == [k |-> x[1], v |-> x[2],
                   ut |-> IF x[2] = None THEN "del" ELSE IF view[x[1]] = None THEN "new" ELSE "upd"]
         IN <<u>> \o Typed([view EXCEPT ![x[1]] = x[2]], Tail(kvs))

KVChoices == Keys \X (Vals \cup {None})
UpdBatches == UNION { [1..n -> KVChoices] : n \in 1..MaxUpdLen }

Orders(S) == { s \in [1..Cardinality(S) -> S] : \A i, j \in 1..Cardinality(S) : i # j => s[i] # s[j] }

Wake(sig) == IF cstate = "idle" /\ sig THEN "pull" ELSE cstate

Init ==
    /\ queue = <<>> /\ live = {} /\ nsOn = FALSE /\ nsSet = {} /\ recent = "wait"
    /\ cstate = "off" /\ calls = <<>>
    /\ phase = IF Protocol THEN "r2" ELSE "open"
    /\ nprod = 0 /\ nrest = 0 /\ bad = FALSE
    /\ P!Init

ProdOK == cstate # "pull" /\ nprod < MaxProd

IOnUpdates(us) ==
    /\ ProdOK /\ phase = "open"
    /\ LET q2 == QueueAll(queue, us) IN
       /\ queue' = q2
       /\ cstate' = Wake(queue = <<>> /\ q2 # <<>>)
    /\ nsSet' = IF nsOn THEN nsSet \ { us[i].k : i \in 1..Len(us) } ELSE nsSet
    /\ nprod' = nprod + 1
    /\ P!ProdUpdates(us)
    /\ UNCHANGED <<live, nsOn, recent, calls, phase, nrest, bad>>

IOnStatus(s) ==
    /\ ProdOK
    /\ phase = "r1" => s = "wait"
    /\ phase = "r2" => s = "resync"
    /\ LET doSync == s = "insync" /\ nsOn IN
       \E ord \in (IF doSync THEN Orders(nsSet) ELSE {<<>>}) :
         LET dels == [i \in 1..Len(ord) |-> [k |-> ord[i], v |-> None, ut |-> "del"]]
             q1 == QueueAll(queue, dels)
             same == recent = s
             backIsSt == q1 # <<>> /\ q1[Len(q1)].t = "st"
             q2 == IF same THEN q1
                   ELSE IF backIsSt THEN [q1 EXCEPT ![Len(q1)] = ST(s)] ELSE Append(q1, ST(s))
         IN /\ queue' = q2
            /\ cstate' = Wake(~same /\ ~backIsSt /\ queue = <<>>)
            /\ nsOn' = IF doSync THEN FALSE ELSE nsOn
            /\ nsSet' = IF doSync THEN {} ELSE nsSet
    /\ recent' = s
    /\ phase' = IF phase = "r1" THEN "r2" ELSE "open"
    /\ nprod' = nprod + 1
    /\ P!ProdStatus(s = "insync")
    /\ UNCHANGED <<live, calls, nrest, bad>>

IRestart ==
    /\ ProdOK /\ phase = "open" /\ nrest < MaxRestarts
    /\ queue' = <<>> /\ nsOn' = TRUE /\ nsSet' = live
    /\ phase' = IF Protocol THEN "r1" ELSE "open"
    /\ nprod' = nprod + 1 /\ nrest' = nrest + 1
    /\ P!ProdRestart
    /\ UNCHANGED <<live, recent, cstate, calls, bad>>

IStart ==
    /\ cstate = "off"
    /\ cstate' = IF queue = <<>> THEN "idle" ELSE "pull"
    /\ UNCHANGED <<queue, live, nsOn, nsSet, recent, calls, phase, nprod, nrest, bad>>
    /\ UNCHANGED <<eview, esync, down, upIS, downIS>>

\* group a pulled batch into sink calls exactly as dropLockAndSendBatch does
RECURSIVE Group(_, _)
Group(b, acc) ==
    IF b = <<>> THEN (IF acc = <<>> THEN <<>> ELSE <<CallU(acc)>>)
    ELSE LET e == Head(b) IN
         IF e.t = "kv" THEN Group(Tail(b), Append(acc, [k |-> e.k, v |-> e.v, ut |-> e.ut]))
         ELSE (IF acc = <<>> THEN <<>> ELSE <<CallU(acc)>>) \o <<CallS(e.s)>> \o Group(Tail(b), <<>>)

RECURSIVE LiveAfter(_, _)
LiveAfter(lv, b) ==
    IF b = <<>> THEN lv
    ELSE LET e == Head(b) IN
         LiveAfter(IF e.t = "kv" THEN (IF e.v = None THEN lv \ {e.k} ELSE lv \cup {e.k}) ELSE lv, Tail(b))

\* a sink call reaches the (gated) sink: this is the moment downstream "is told"
Arrive(c) ==
    IF c.t = "upd"
      THEN /\ bad' = (bad \/ ~P!TypesOK(down, c.us))
           /\ down' = P!ApplySeq(down, c.us)
           /\ UNCHANGED <<eview, esync, upIS, downIS>>
      ELSE /\ bad' = (bad \/ (c.s = "insync" /\ ~(downIS < upIS)))
           /\ downIS' = IF c.s = "insync" THEN downIS + 1 ELSE downIS
           /\ UNCHANGED <<eview, esync, upIS, down>>

IPull ==
    /\ cstate = "pull"
    /\ LET n == IF Len(queue) < MaxBatch THEN Len(queue) ELSE MaxBatch
           b == SubSeq(queue, 1, n)
           cs == Group(b, <<>>)
       IN /\ queue' = SubSeq(queue, n + 1, Len(queue))
          /\ live' = LiveAfter(live, b)
          /\ calls' = cs
          /\ Arrive(Head(cs))
    /\ cstate' = "insink"
    /\ UNCHANGED <<nsOn, nsSet, recent, phase, nprod, nrest>>

IRelease ==
    /\ cstate = "insink"
    /\ LET rest == Tail(calls) IN
       IF rest # <<>>
         THEN calls' = rest /\ Arrive(Head(rest)) /\ UNCHANGED cstate
         ELSE /\ calls' = <<>> /\ UNCHANGED <<bad, eview, esync, down, upIS, downIS>>
              /\ cstate' = IF queue # <<>> THEN "pull" ELSE "idle"
    /\ UNCHANGED <<queue, live, nsOn, nsSet, recent, phase, nprod, nrest>>

Next ==
    \/ \E b \in UpdBatches : IOnUpdates(Typed(eview, b))
    \/ \E s \in Statuses : IOnStatus(s)
    \/ IRestart
    \/ IStart
    \/ IPull
    \/ IRelease

Spec == Init /\ [][Next]_vars

\* ---- I => P : the three obligations of the property layer --------------------------------------
NoBadDelivery == ~bad                                  \* NewVsUpdated and InSyncForwarding
Converged == cstate = "idle" => P!ConvergedOK          \* quiescent + latest epoch in sync => views equal
\* implementation sanity (not part of the property)
QueueKeysUnique ==
    \A i, j \in 1..Len(queue) : (i # j /\ queue[i].t = "kv" /\ queue[j].t = "kv") => queue[i].k # queue[j].k
IdleMeansEmpty == cstate = "idle" => queue = <<>>      \* no lost wake-up
LiveIsDown == cstate \in {"idle", "off"} => live = { k \in Keys : down[k] # None }
=============================================================================
