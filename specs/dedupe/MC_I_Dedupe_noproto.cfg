CONSTANTS
  Keys = {"a", "b"}
  Vals = {1, 2}
  MaxProd = 5
  MaxRestarts = 2
  MaxUpdLen = 1
  MaxBatch = 100
  Protocol = FALSE
INIT Init
NEXT Next
INVARIANTS NoBadDelivery Converged QueueKeysUnique IdleMeansEmpty LiveIsDown
CHECK_DEADLOCK FALSE
