CONSTANTS
  Keys = {"a", "b"}
  Vals = {1, 2}
  MaxProd = 5
  MaxRestarts = 2
  MaxUpdLen = 1
  MaxBatch = 100
  Protocol = TRUE
  SimLen = 100
  WRelease = 1
  WRestart = 1
  WStatus = 1
INIT GInit
NEXT GNext
VIEW GView
ACTION_CONSTRAINT EmitEdge
CHECK_DEADLOCK FALSE
