----------------------------- MODULE Gen_Dedupe -----------------------------
(* Behaviour generator for C25 (leg A): I_Dedupe's actions with a history of the DRIVER decisions
   (producer calls with their arguments, start of the consumer goroutine, release of the gated sink
   call).  IPull is not a decision: the real consumer pulls by itself as soon as it can; the driver
   waits for it.
   - Gen_cover.cfg: one behaviour per transition of I_Dedupe's state graph (VIEW + ACTION_CONSTRAINT);
   - Gen_sim.cfg: -simulate random walks of SimLen decisions.                                    *)
EXTENDS I_Dedupe, Json

CONSTANTS SimLen,
          WRelease, WRestart, WStatus   \* weights for -simulate (TLC picks uniformly among the generated
                                        \* successors, duplicates included); 1 for exhaustive runs
VARIABLE hist
gvars == <<vars, hist>>

GInit == Init /\ hist = <<>>

Step(a, r) == a /\ hist' = Append(hist, r)

GNext ==
  \/ /\ Len(hist) = SimLen /\ hist' = Append(hist, [op |-> "end"]) /\ UNCHANGED vars
  \/ /\ Len(hist) < SimLen
     /\ \/ \E b \in UpdBatches : LET us == Typed(eview, b) IN Step(IOnUpdates(us), [op |-> "upd", kvs |-> us])
        \/ \E s \in Statuses, w \in 1..WStatus : Step(IOnStatus(s), [op |-> "status", s |-> s])
        \/ \E w \in 1..WRestart : Step(IRestart, [op |-> "restart"])
        \/ \E w \in 1..WRelease : Step(IStart, [op |-> "start"])
        \/ \E w \in 1..WRelease : Step(IRelease, [op |-> "release"])
        \/ IPull /\ UNCHANGED hist

GView == vars
EmitEdge == (hist' # hist) => PrintT("BEH " \o ToJson(hist'))
EmitAtLen == Len(hist) = SimLen + 1 => PrintT("BEH " \o ToJson(hist))
=============================================================================
