CONSTANTS
  Keys = {"a", "b", "c"}
  Vals = {1, 2, 3}
  MaxProd = 1000
  MaxRestarts = 1000
  MaxUpdLen = 2
  MaxBatch = 100
  Protocol = TRUE
  SimLen = 40
INIT GInit
NEXT GNext
INVARIANT EmitAtLen
CHECK_DEADLOCK FALSE
