CONSTANTS
  Keys = {"a", "b", "c"}
  Vals = {1, 2, 3}
  MaxProd = 1000
  MaxRestarts = 1000
  MaxUpdLen = 1
  MaxBatch = 100
  Protocol = TRUE
  SimLen = 40
  WRelease = 6
  WRestart = 2
  WStatus = 2
INIT GInit
NEXT GNext
INVARIANT EmitAtLen
CHECK_DEADLOCK FALSE
