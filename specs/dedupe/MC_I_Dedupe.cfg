CONSTANTS
  Keys = {"a", "b"}
  Vals = {1, 2}
  MaxProd = 7
  MaxRestarts = 2
  MaxUpdLen = 1
  MaxBatch = 100
  Protocol = TRUE
INIT Init
NEXT Next
INVARIANTS NoBadDelivery Converged QueueKeysUnique IdleMeansEmpty LiveIsDown
CHECK_DEADLOCK FALSE
