--------------------------- MODULE Gen_PolicySync ---------------------------
(* Behaviour generator for C31 (leg A): I_PolicySync's input actions with a history of the inputs
   (dataplane updates from the calculation graph, joins, leaves).  Emit / IStepDone are not decisions.
   - Gen_cover.cfg: one behaviour per transition of the state graph (VIEW + ACTION_CONSTRAINT);
   - Gen_sim.cfg: -simulate random walks; the W* constants duplicate successors so that TLC's uniform
     choice among generated successors is weighted towards joins/leaves/endpoint updates.          *)
EXTENDS I_PolicySync, Json

CONSTANTS SimLen, WJoin, WEp, WObj
VARIABLE hist
gvars == <<vars, hist>>

GInit == IInit /\ hist = <<>>
Step(a, r) == a /\ hist' = Append(hist, r)

GNext ==
  \/ /\ Len(hist) = SimLen /\ hist' = Append(hist, [op |-> "end"]) /\ UNCHANGED vars
  \/ /\ Len(hist) < SimLen
     /\ \/ \E w \in W, x \in 1..WJoin : Step(IJoin(w), [op |-> "join", w |-> w, j |-> nextJ])
        \/ \E w \in W, j \in J, x \in 1..WJoin : Step(ILeave(w, j), [op |-> "leave", w |-> w, j |-> j])
        \/ \E w \in W, e \in EpChoices, x \in 1..WEp :
              Step(IEp(w, e), [op |-> "ep", w |-> w, ver |-> e.ver, pols |-> e.pols, profs |-> e.profs])
        \/ \E w \in W, x \in 1..WEp : Step(IEpRemove(w), [op |-> "ep_rm", w |-> w])
        \/ \E p \in Pol, o \in ObjChoices, x \in 1..WObj :
              Step(IPol(p, o), [op |-> "pol", id |-> p, ver |-> o.ver, refs |-> o.refs])
        \/ \E p \in Pol, x \in 1..WObj : Step(IPolRemove(p), [op |-> "pol_rm", id |-> p])
        \/ \E f \in Prof, o \in ObjChoices, x \in 1..WObj :
              Step(IProf(f, o), [op |-> "prof", id |-> f, ver |-> o.ver, refs |-> o.refs])
        \/ \E f \in Prof, x \in 1..WObj : Step(IProfRemove(f), [op |-> "prof_rm", id |-> f])
        \/ \E s \in Sets, m \in SUBSET Members : Step(ISet(s, m), [op |-> "set", id |-> s, m |-> m])
        \/ \E s \in Sets, a \in SUBSET Members, r \in SUBSET Members :
              Step(IDelta(s, a, r), [op |-> "delta", id |-> s, add |-> a, rem |-> r])
        \/ \E s \in Sets : Step(ISetRemove(s), [op |-> "set_rm", id |-> s])
        \/ \E a \in SAs, v \in 1..MaxVer : Step(ISA(a, v), [op |-> "sa", id |-> a, ver |-> v])
        \/ \E a \in SAs : Step(ISARemove(a), [op |-> "sa_rm", id |-> a])
        \/ \E n \in NSs, v \in 1..MaxVer : Step(INS(n, v), [op |-> "ns", id |-> n, ver |-> v])
        \/ \E n \in NSs : Step(INSRemove(n), [op |-> "ns_rm", id |-> n])
        \/ Step(IInSync, [op |-> "insync"])
        \/ (\E j \in J : Emit(j)) /\ UNCHANGED hist
        \/ IStepDone /\ UNCHANGED hist

GView == vars
EmitEdge == (hist' # hist) => PrintT("BEH " \o ToJson(hist'))
EmitAtLen == Len(hist) = SimLen + 1 => PrintT("BEH " \o ToJson(hist))
=============================================================================
