CONSTANTS
  W = {"w1", "w2"}
  Pol = {"p1", "p2"}
  Prof = {"f1"}
  Sets = {"s1", "s2"}
  SAs = {"a1"}
  NSs = {"n1"}
  J = {1, 2, 3, 4, 5, 6, 7, 8, 9, 10, 11, 12}
  Members = {"m1", "m2"}
  MaxVer = 2
  MaxSteps = 1000
  SimLen = 30
  WJoin = 4
  WEp = 1
  WObj = 2
INIT GInit
NEXT GNext
INVARIANT EmitAtLen
CHECK_DEADLOCK FALSE
