CONSTANTS
  W = {"w1", "w2"}
  Pol = {"p1", "p2"}
  Prof = {"f1"}
  Sets = {"s1", "s2"}
  SAs = {"a1"}
  NSs = {"n1"}
  J = {1, 2, 3}
  Members = {"m1"}
  MaxVer = 2
  MaxSteps = 4
INIT IInit
NEXT INext
INVARIANTS PropertyHolds SyncedIsHeld
CHECK_DEADLOCK FALSE
