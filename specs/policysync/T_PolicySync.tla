---------------------------- MODULE T_PolicySync ----------------------------
(* Trace specification for C31: the inputs sent to the real policysync.Processor (events "in"), the
   messages read from every join's output channel ("out"), channel closures ("closed") and the end of
   the processing of each input ("stepdone"), replayed against the property layer P_PolicySync.
   The driver serialises everything (unbuffered channels + a barrier message), so there is one
   total-order log and validation is deterministic.                                              *)
EXTENDS TraceLib, FiniteSets

VARIABLES kEp, kPol, kProf, kSet, kSA, kNS, jw, jst, held

Resets == { i \in 1..NTrace : Trace[i].ev = "reset" }
U(f) == UNION { SeqToSet(Trace[i][f]) : i \in Resets }
TW == U("W")  TPol == U("pol")  TProf == U("prof")  TSets == U("sets")  TSAs == U("sas")  TNSs == U("nss")
TJ == U("joins")

D == INSTANCE P_PolicySync WITH W <- TW, Pol <- TPol, Prof <- TProf, Sets <- TSets, SAs <- TSAs, NSs <- TNSs, J <- TJ
vars == <<kEp, kPol, kProf, kSet, kSA, kNS, jw, jst, held>>

\* JSON message -> message record with set-valued fields
Msg(m) ==
    CASE m.kind = "wep_update" -> [kind |-> m.kind, ver |-> m.ver, pols |-> SeqToSet(m.pols), profs |-> SeqToSet(m.profs)]
      [] m.kind \in {"pol_update", "prof_update"} -> [kind |-> m.kind, id |-> m.id, ver |-> m.ver, refs |-> SeqToSet(m.refs)]
      [] m.kind = "set_update" -> [kind |-> m.kind, id |-> m.id, m |-> SeqToSet(m.m)]
      [] m.kind = "set_delta" -> [kind |-> m.kind, id |-> m.id, add |-> SeqToSet(m.add), rem |-> SeqToSet(m.rem)]
      [] OTHER -> m

TInit == l = 1 /\ D!Init
TReset ==
    /\ IsEvent("reset")
    /\ kEp' = [w \in TW |-> D!NoEp] /\ kPol' = [p \in TPol |-> D!NoObj] /\ kProf' = [f \in TProf |-> D!NoObj]
    /\ kSet' = [s \in TSets |-> D!NoSet] /\ kSA' = [a \in TSAs |-> 0] /\ kNS' = [n \in TNSs |-> 0]
    /\ jw' = [j \in TJ |-> ""] /\ jst' = [j \in TJ |-> "none"] /\ held' = [j \in TJ |-> D!NoHeld]

In(o) ==
    CASE o.op = "join"    -> D!Join(o.w, o.j)
      [] o.op = "leave"   -> D!Leave(o.w, o.j)
      [] o.op = "ep"      -> D!InEp(o.w, [ver |-> o.ver, pols |-> SeqToSet(o.pols), profs |-> SeqToSet(o.profs)])
      [] o.op = "ep_rm"   -> D!InEpRemove(o.w)
      [] o.op = "pol"     -> D!InPol(o.id, [ver |-> o.ver, refs |-> SeqToSet(o.refs)])
      [] o.op = "pol_rm"  -> D!InPol(o.id, D!NoObj)
      [] o.op = "prof"    -> D!InProf(o.id, [ver |-> o.ver, refs |-> SeqToSet(o.refs)])
      [] o.op = "prof_rm" -> D!InProf(o.id, D!NoObj)
      [] o.op = "set"     -> D!InSet(o.id, [on |-> TRUE, m |-> SeqToSet(o.m)])
      [] o.op = "delta"   -> D!InDelta(o.id, SeqToSet(o.add), SeqToSet(o.rem))
      [] o.op = "set_rm"  -> D!InSet(o.id, D!NoSet)
      [] o.op = "sa"      -> D!InSA(o.id, o.ver)
      [] o.op = "sa_rm"   -> D!InSA(o.id, 0)
      [] o.op = "ns"      -> D!InNS(o.id, o.ver)
      [] o.op = "ns_rm"   -> D!InNS(o.id, 0)
      [] o.op = "insync"  -> D!InInSync

TIn == IsEvent("in") /\ In(Cur.o)
TOut == IsEvent("out") /\ D!Out(Cur.j, Msg(Cur.msg))
TClosed == IsEvent("closed") /\ D!Closed(Cur.j)
TStepDone == IsEvent("stepdone") /\ D!StepDone

TNext == TReset \/ TIn \/ TOut \/ TClosed \/ TStepDone
TSpec == TInit /\ [][TNext]_<<vars, l>>
=============================================================================
