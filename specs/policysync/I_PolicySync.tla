---------------------------- MODULE I_PolicySync ----------------------------
(* C31 implementation layer: felix/policysync.Processor transcribed handler by handler
   (handleJoin / handleLeave / maybeSyncEndpoint / handleActivePolicyUpdate / ... / getIPSetsSync /
   syncAddedXxx / syncRemovedXxx).  One input = one action computing the message sequences the Processor
   puts on every join's output channel ("pending"); the messages are then delivered one per step
   (Emit) so that the property layer's NoDangling is judged after EVERY message, and StepDone judges
   Complete once the input has been fully processed.  Map-iteration orders of the Go code are
   nondeterministic choices here.
   The environment is the calculation graph, which keeps its own stream referentially intact
   (property C02): endpoints name active policies/profiles, policies/profiles name existing IP sets,
   objects are removed only when unreferenced, deltas are sent for existing sets only.            *)
EXTENDS P_PolicySync, TLC

CONSTANTS Members,     \* IP set member universe
          MaxVer,      \* object versions 1..MaxVer (content discriminator, not a counter)
          MaxSteps     \* bound on inputs

VARIABLES ei,        \* [W -> [out, sPol, sProf, sSet]]  EndpointInfo (endpointUpd = kEp[w])
          insync,    \* receivedInSync
          pending,   \* [J -> Seq(message)] messages put on the join's channel, not yet delivered
          closing,   \* joins whose channel the Processor closes once "pending" is delivered
          phase,     \* "ready" | "emit"
          nextJ, nsteps,
          bad        \* ghost: some delivery / step end broke the property layer
ivars == <<ei, insync, pending, closing, phase, nextJ, nsteps, bad>>
vars == <<pvars, ivars>>

NoEI == [out |-> 0, sPol |-> {}, sProf |-> {}, sSet |-> {}]
Orders(S) == { s \in [1..Cardinality(S) -> S] : \A i, j \in 1..Cardinality(S) : i # j => s[i] # s[j] }

MWep(e)      == [kind |-> "wep_update", ver |-> e.ver, pols |-> e.pols, profs |-> e.profs]
MWepRm       == [kind |-> "wep_remove"]
MPol(p, o)   == [kind |-> "pol_update", id |-> p, ver |-> o.ver, refs |-> o.refs]
MPolRm(p)    == [kind |-> "pol_remove", id |-> p]
MProf(f, o)  == [kind |-> "prof_update", id |-> f, ver |-> o.ver, refs |-> o.refs]
MProfRm(f)   == [kind |-> "prof_remove", id |-> f]
MSet(s, m)   == [kind |-> "set_update", id |-> s, m |-> m]
MDelta(s, a, r) == [kind |-> "set_delta", id |-> s, add |-> a, rem |-> r]
MSetRm(s)    == [kind |-> "set_remove", id |-> s]
MSA(a, v)    == [kind |-> "sa_update", id |-> a, ver |-> v]
MSARm(a)     == [kind |-> "sa_remove", id |-> a]
MNS(n, v)    == [kind |-> "ns_update", id |-> n, ver |-> v]
MNSRm(n)     == [kind |-> "ns_remove", id |-> n]
MInSync      == [kind |-> "insync"]

Map(f(_), s) == [i \in 1..Len(s) |-> f(s[i])]

IInit ==
    /\ Init
    /\ ei = [w \in W |-> NoEI] /\ insync = FALSE
    /\ pending = [j \in J |-> <<>>] /\ closing = {} /\ phase = "ready"
    /\ nextJ = 1 /\ nsteps = 0 /\ bad = FALSE

Ready == phase = "ready" /\ nsteps < MaxSteps
Begin == phase' = "emit" /\ nsteps' = nsteps + 1 /\ UNCHANGED bad

\* the IP sets the endpoint w needs, given policy/profile tables kp/kf (getIPSetsSync's newS)
Needed(e, kp, kf) == UNION ({ kp[p].refs : p \in e.pols } \cup { kf[f].refs : f \in e.profs })

\* maybeSyncEndpoint for endpoint content e with EndpointInfo x: set of possible [msgs, x] results
SyncEndpoint(e, x, kp, kf, ks) ==
    LET newS == Needed(e, kp, kf)
        toAdd == newS \ x.sSet
        toDel == x.sSet \ newS
    IN { [msgs |-> Map(LAMBDA s : MSet(s, ks[s].m), oa)
                   \o Map(LAMBDA p : MPol(p, kp[p]), op)
                   \o Map(LAMBDA f : MProf(f, kf[f]), of)
                   \o <<MWep(e)>>
                   \o Map(LAMBDA p : MPolRm(p), rp)
                   \o Map(LAMBDA f : MProfRm(f), rf)
                   \o Map(LAMBDA s : MSetRm(s), od),
          x |-> [x EXCEPT !.sPol = e.pols, !.sProf = e.profs, !.sSet = newS]] :
         oa \in Orders(toAdd), op \in Orders(e.pols \ x.sPol), of \in Orders(e.profs \ x.sProf),
         rp \in Orders(x.sPol \ e.pols), rf \in Orders(x.sProf \ e.profs), od \in Orders(toDel) }

\* ---- join / leave ---------------------------------------------------------------------------------------
IJoin(w) ==
    /\ Ready /\ nextJ \in J
    /\ LET j == nextJ
           x0 == [out |-> j, sPol |-> {}, sProf |-> {}, sSet |-> {}]
           rs == IF kEp[w].ver # 0 THEN SyncEndpoint(kEp[w], x0, kPol, kProf, kSet)
                 ELSE { [msgs |-> <<>>, x |-> x0] }
           sas == { a \in SAs : kSA[a] # 0 }
           nss == { n \in NSs : kNS[n] # 0 }
       IN \E r \in rs, oa \in Orders(sas), on \in Orders(nss) :
            /\ ei' = [ei EXCEPT ![w] = r.x]
            /\ pending' = [pending EXCEPT ![j] = r.msgs \o Map(LAMBDA a : MSA(a, kSA[a]), oa)
                                                  \o Map(LAMBDA n : MNS(n, kNS[n]), on)
                                                  \o (IF insync THEN <<MInSync>> ELSE <<>>)]
            /\ nextJ' = j + 1
            /\ Join(w, j)
    /\ Begin /\ UNCHANGED <<insync, closing>>

ILeave(w, j) ==
    /\ Ready /\ j < nextJ /\ jw[j] = w /\ jst[j] # "none"
    /\ ei' = IF ei[w].out = j THEN [ei EXCEPT ![w] = [@ EXCEPT !.out = 0]] ELSE ei
    /\ Leave(w, j)
    /\ Begin /\ UNCHANGED <<insync, pending, closing, nextJ>>

\* ---- dataplane updates ----------------------------------------------------------------------------------
Joined == { w \in W : ei[w].out # 0 }

EpChoices == { [ver |-> v, pols |-> ps, profs |-> fs] : v \in 1..MaxVer,
               ps \in SUBSET { p \in Pol : kPol[p].ver # 0 }, fs \in SUBSET { f \in Prof : kProf[f].ver # 0 } }
ObjChoices == { [ver |-> v, refs |-> rs] : v \in 1..MaxVer, rs \in SUBSET { s \in Sets : kSet[s].on } }

IEp(w, e) ==
    /\ Ready
    /\ IF ei[w].out # 0
         THEN \E r \in SyncEndpoint(e, ei[w], kPol, kProf, kSet) :
                /\ ei' = [ei EXCEPT ![w] = r.x]
                /\ pending' = [pending EXCEPT ![ei[w].out] = r.msgs]
         ELSE UNCHANGED <<ei, pending>>
    /\ InEp(w, e)
    /\ Begin /\ UNCHANGED <<insync, closing, nextJ>>

IEpRemove(w) ==
    /\ Ready /\ kEp[w].ver # 0
    /\ IF ei[w].out # 0
         THEN pending' = [pending EXCEPT ![ei[w].out] = <<MWepRm>>] /\ closing' = {ei[w].out}
         ELSE UNCHANGED <<pending, closing>>
    /\ ei' = [ei EXCEPT ![w] = NoEI]
    /\ InEpRemove(w)
    /\ Begin /\ UNCHANGED <<insync, nextJ>>

\* handleActivePolicyUpdate / handleActiveProfileUpdate: per joined endpoint naming the object:
\* getIPSetsSync (with the NEW tables), adds, the update, deletes
ObjSync(w, kp, kf, m) ==
    LET x == ei[w]
        newS == Needed(kEp[w], kp, kf)
    IN { [msgs |-> Map(LAMBDA s : MSet(s, kSet[s].m), oa) \o <<m>> \o Map(LAMBDA s : MSetRm(s), od),
          x |-> [x EXCEPT !.sSet = newS]] : oa \in Orders(newS \ x.sSet), od \in Orders(x.sSet \ newS) }

IPol(p, o) ==
    /\ Ready
    /\ LET kp == [kPol EXCEPT ![p] = o]
           ws == { w \in Joined : p \in kEp[w].pols }
       IN \E ch \in [ws -> UNION { ObjSync(w, kp, kProf, MPol(p, o)) : w \in ws }] :
            /\ \A w \in ws : ch[w] \in ObjSync(w, kp, kProf, MPol(p, o))
            /\ ei' = [w \in W |-> IF w \in ws THEN [ch[w].x EXCEPT !.sPol = @ \cup {p}] ELSE ei[w]]
            /\ pending' = [j \in J |-> IF \E w \in ws : ei[w].out = j
                                         THEN ch[CHOOSE w \in ws : ei[w].out = j].msgs ELSE pending[j]]
    /\ InPol(p, o)
    /\ Begin /\ UNCHANGED <<insync, closing, nextJ>>

IPolRemove(p) ==
    /\ Ready /\ kPol[p].ver # 0 /\ \A w \in W : p \notin kEp[w].pols
    /\ InPol(p, NoObj)
    /\ Begin /\ UNCHANGED <<ei, insync, pending, closing, nextJ>>

IProf(f, o) ==
    /\ Ready
    /\ LET kf == [kProf EXCEPT ![f] = o]
           ws == { w \in Joined : f \in kEp[w].profs }
       IN \E ch \in [ws -> UNION { ObjSync(w, kPol, kf, MProf(f, o)) : w \in ws }] :
            /\ \A w \in ws : ch[w] \in ObjSync(w, kPol, kf, MProf(f, o))
            /\ ei' = [w \in W |-> IF w \in ws THEN [ch[w].x EXCEPT !.sProf = @ \cup {f}] ELSE ei[w]]
            /\ pending' = [j \in J |-> IF \E w \in ws : ei[w].out = j
                                         THEN ch[CHOOSE w \in ws : ei[w].out = j].msgs ELSE pending[j]]
    /\ InProf(f, o)
    /\ Begin /\ UNCHANGED <<insync, closing, nextJ>>

IProfRemove(f) ==
    /\ Ready /\ kProf[f].ver # 0 /\ \A w \in W : f \notin kEp[w].profs
    /\ InProf(f, NoObj)
    /\ Begin /\ UNCHANGED <<ei, insync, pending, closing, nextJ>>

Refs(w, s) == s \in Needed(kEp[w], kPol, kProf)      \* referencesIPSet

ISet(s, m) ==
    /\ Ready
    /\ IF kSet[s].on
         THEN LET ws == { w \in Joined : Refs(w, s) } IN
              /\ ei' = [w \in W |-> IF w \in ws THEN [ei[w] EXCEPT !.sSet = @ \cup {s}] ELSE ei[w]]
              /\ pending' = [j \in J |-> IF \E w \in ws : ei[w].out = j THEN <<MSet(s, m)>> ELSE pending[j]]
         ELSE UNCHANGED <<ei, pending>>
    /\ InSet(s, [on |-> TRUE, m |-> m])
    /\ Begin /\ UNCHANGED <<insync, closing, nextJ>>

IDelta(s, add, rem) ==
    /\ Ready /\ kSet[s].on /\ add \cap kSet[s].m = {} /\ rem \subseteq kSet[s].m /\ add \cup rem # {}
    /\ LET ws == { w \in Joined : Refs(w, s) } IN
       pending' = [j \in J |-> IF \E w \in ws : ei[w].out = j THEN <<MDelta(s, add, rem)>> ELSE pending[j]]
    /\ InDelta(s, add, rem)
    /\ Begin /\ UNCHANGED <<ei, insync, closing, nextJ>>

ISetRemove(s) ==
    /\ Ready /\ kSet[s].on
    /\ \A p \in Pol : s \notin kPol[p].refs
    /\ \A f \in Prof : s \notin kProf[f].refs
    /\ InSet(s, NoSet)
    /\ Begin /\ UNCHANGED <<ei, insync, pending, closing, nextJ>>

ToAll(m) == pending' = [j \in J |-> IF \E w \in Joined : ei[w].out = j THEN <<m>> ELSE pending[j]]

ISA(a, v) == Ready /\ ToAll(MSA(a, v)) /\ InSA(a, v) /\ Begin /\ UNCHANGED <<ei, insync, closing, nextJ>>
ISARemove(a) == Ready /\ kSA[a] # 0 /\ ToAll(MSARm(a)) /\ InSA(a, 0) /\ Begin /\ UNCHANGED <<ei, insync, closing, nextJ>>
INS(n, v) == Ready /\ ToAll(MNS(n, v)) /\ InNS(n, v) /\ Begin /\ UNCHANGED <<ei, insync, closing, nextJ>>
INSRemove(n) == Ready /\ kNS[n] # 0 /\ ToAll(MNSRm(n)) /\ InNS(n, 0) /\ Begin /\ UNCHANGED <<ei, insync, closing, nextJ>>

IInSync ==
    /\ Ready
    /\ IF insync THEN UNCHANGED pending ELSE ToAll(MInSync)
    /\ insync' = TRUE
    /\ InInSync
    /\ Begin /\ UNCHANGED <<ei, closing, nextJ>>

\* ---- delivery of the queued messages, end of step ---------------------------------------------------------
Emit(j) ==
    /\ phase = "emit" /\ pending[j] # <<>>
    /\ \A i \in J : i < j => pending[i] = <<>>          \* fixed order across joins (irrelevant to P)
    /\ LET m == Head(pending[j]) IN
       /\ bad' = (bad \/ ~(jst[j] \in {"active", "gone"}) \/ (jst[j] = "active" /\ ~MsgOK(held[j], m)))
       /\ held' = [held EXCEPT ![j] = Apply(held[j], m)]
    /\ pending' = [pending EXCEPT ![j] = Tail(@)]
    /\ UNCHANGED <<kEp, kPol, kProf, kSet, kSA, kNS, jw, jst, ei, insync, closing, phase, nextJ, nsteps>>

IStepDone ==
    /\ phase = "emit" /\ \A j \in J : pending[j] = <<>>
    /\ bad' = (bad \/ ~Complete \/ (\E j \in closing : jst[j] = "active"))
    /\ closing' = {} /\ phase' = "ready"
    /\ UNCHANGED <<pvars, ei, insync, pending, nextJ, nsteps>>

INext ==
    \/ \E w \in W : IJoin(w)
    \/ \E w \in W, j \in J : ILeave(w, j)
    \/ \E w \in W, e \in EpChoices : IEp(w, e)
    \/ \E w \in W : IEpRemove(w)
    \/ \E p \in Pol, o \in ObjChoices : IPol(p, o)
    \/ \E p \in Pol : IPolRemove(p)
    \/ \E f \in Prof, o \in ObjChoices : IProf(f, o)
    \/ \E f \in Prof : IProfRemove(f)
    \/ \E s \in Sets, m \in SUBSET Members : ISet(s, m)
    \/ \E s \in Sets, a \in SUBSET Members, r \in SUBSET Members : IDelta(s, a, r)
    \/ \E s \in Sets : ISetRemove(s)
    \/ \E a \in SAs, v \in 1..MaxVer : ISA(a, v)
    \/ \E a \in SAs : ISARemove(a)
    \/ \E n \in NSs, v \in 1..MaxVer : INS(n, v)
    \/ \E n \in NSs : INSRemove(n)
    \/ IInSync
    \/ \E j \in J : Emit(j)
    \/ IStepDone

ISpec == IInit /\ [][INext]_vars

\* I => P
PropertyHolds == ~bad
\* implementation sanity: the synced-* bookkeeping is exactly what the client holds
SyncedIsHeld ==
    phase = "ready" => \A w \in W : ei[w].out # 0 =>
        LET h == held[ei[w].out] IN
        /\ ei[w].sPol = { p \in Pol : h.pol[p].ver # 0 }
        /\ ei[w].sProf = { f \in Prof : h.prof[f].ver # 0 }
        /\ ei[w].sSet = { s \in Sets : h.set[s].on }
=============================================================================
