CONSTANTS
  W = {"w1", "w2"}
  Pol = {"p1", "p2"}
  Prof = {}
  Sets = {"s1", "s2"}
  SAs = {}
  NSs = {}
  J = {1, 2, 3}
  Members = {"m1"}
  MaxVer = 1
  MaxSteps = 5
INIT IInit
NEXT INext
INVARIANTS PropertyHolds SyncedIsHeld
CHECK_DEADLOCK FALSE
