CONSTANTS
  W = {"w1", "w2"}
  Pol = {"p1", "p2"}
  Prof = {"f1"}
  Sets = {"s1", "s2"}
  SAs = {"a1"}
  NSs = {"n1"}
  J = {1, 2, 3}
  Members = {"m1"}
  MaxVer = 2
  MaxSteps = 3
  SimLen = 100
  WJoin = 1
  WEp = 1
  WObj = 1
INIT GInit
NEXT GNext
VIEW GView
ACTION_CONSTRAINT EmitEdge
CHECK_DEADLOCK FALSE
