---------------------------- MODULE P_PolicySync ----------------------------
(* C31 property layer.  What the calculation graph has told the policy-sync Processor ("known"), and,
   per join (one gRPC connection of one workload, identified by its join UID), what a client holds
   after applying the stream it has received so far ("held").  The Processor may send ANY message to
   an active join at any time, subject to:
     NoDangling  after every message of a stream: the held endpoint only names held policies and
                 profiles, held policies/profiles only name held IP sets, and an IP set delta is only
                 sent for a held IP set ("never references something not yet sent");
     Complete    after every input has been processed: every active join holds exactly its own
                 endpoint (latest version), the latest versions of exactly the policies and profiles
                 that endpoint names, exactly the IP sets those name with their full membership, and
                 all service accounts and namespaces (the Processor gives every workload all of them);
     Silence     nothing is sent on a join's channel after its leave request, or after a newer join
                 of the same workload; and the channel of an active join is not closed.
   Absent objects are version 0 / "on = FALSE" so that all values of one kind have one shape.       *)
EXTENDS Naturals, Sequences, FiniteSets

CONSTANTS W, Pol, Prof, Sets, SAs, NSs,   \* identifier universes
          J                               \* join UIDs

VARIABLES kEp,     \* [W -> EpRec]          endpoints the calc graph has announced
          kPol,    \* [Pol -> ObjRec]       active policies   [ver, refs]
          kProf,   \* [Prof -> ObjRec]      active profiles
          kSet,    \* [Sets -> SetRec]      IP sets [on, m]
          kSA,     \* [SAs -> Nat]          service accounts (version, 0 = absent)
          kNS,     \* [NSs -> Nat]
          jw,      \* [J -> W \cup {""}]    workload of a join
          jst,     \* [J -> {"none", "active", "gone", "closed"}]
          held     \* [J -> HeldRec]
pvars == <<kEp, kPol, kProf, kSet, kSA, kNS, jw, jst, held>>

NoEp  == [ver |-> 0, pols |-> {}, profs |-> {}]
NoObj == [ver |-> 0, refs |-> {}]
NoSet == [on |-> FALSE, m |-> {}]
NoHeld == [ep |-> NoEp, pol |-> [p \in Pol |-> NoObj], prof |-> [f \in Prof |-> NoObj],
           set |-> [s \in Sets |-> NoSet], sa |-> [a \in SAs |-> 0], ns |-> [n \in NSs |-> 0]]

Init ==
    /\ kEp = [w \in W |-> NoEp] /\ kPol = [p \in Pol |-> NoObj] /\ kProf = [f \in Prof |-> NoObj]
    /\ kSet = [s \in Sets |-> NoSet] /\ kSA = [a \in SAs |-> 0] /\ kNS = [n \in NSs |-> 0]
    /\ jw = [j \in J |-> ""] /\ jst = [j \in J |-> "none"] /\ held = [j \in J |-> NoHeld]

\* ---- messages ------------------------------------------------------------------------------------
\* a message is a record with field kind and (depending on kind) id, ver, refs/pols/profs/m/add/rem, all
\* set-valued fields being SETS here (the trace spec converts JSON arrays)
Apply(h, m) ==
    CASE m.kind = "wep_update"  -> [h EXCEPT !.ep = [ver |-> m.ver, pols |-> m.pols, profs |-> m.profs]]
      [] m.kind = "wep_remove"  -> [h EXCEPT !.ep = NoEp]
      [] m.kind = "pol_update"  -> [h EXCEPT !.pol[m.id] = [ver |-> m.ver, refs |-> m.refs]]
      [] m.kind = "pol_remove"  -> [h EXCEPT !.pol[m.id] = NoObj]
      [] m.kind = "prof_update" -> [h EXCEPT !.prof[m.id] = [ver |-> m.ver, refs |-> m.refs]]
      [] m.kind = "prof_remove" -> [h EXCEPT !.prof[m.id] = NoObj]
      [] m.kind = "set_update"  -> [h EXCEPT !.set[m.id] = [on |-> TRUE, m |-> m.m]]
      [] m.kind = "set_delta"   -> [h EXCEPT !.set[m.id] = [on |-> h.set[m.id].on, m |-> (h.set[m.id].m \cup m.add) \ m.rem]]
      [] m.kind = "set_remove"  -> [h EXCEPT !.set[m.id] = NoSet]
      [] m.kind = "sa_update"   -> [h EXCEPT !.sa[m.id] = m.ver]
      [] m.kind = "sa_remove"   -> [h EXCEPT !.sa[m.id] = 0]
      [] m.kind = "ns_update"   -> [h EXCEPT !.ns[m.id] = m.ver]
      [] m.kind = "ns_remove"   -> [h EXCEPT !.ns[m.id] = 0]
      [] m.kind = "insync"      -> h

NoDangling(h) ==
    /\ h.ep.ver # 0 => /\ \A p \in h.ep.pols : h.pol[p].ver # 0
                       /\ \A f \in h.ep.profs : h.prof[f].ver # 0
    /\ \A p \in Pol : h.pol[p].ver # 0 => \A s \in h.pol[p].refs : h.set[s].on
    /\ \A f \in Prof : h.prof[f].ver # 0 => \A s \in h.prof[f].refs : h.set[s].on

\* may message m be sent to a client holding h ?
MsgOK(h, m) ==
    /\ m.kind = "set_delta" => h.set[m.id].on
    /\ NoDangling(Apply(h, m))

NeededSets(e) == UNION ({ kPol[p].refs : p \in e.pols } \cup { kProf[f].refs : f \in e.profs })
Want(w) ==
    LET e == kEp[w] IN
    [ep |-> e,
     pol |-> [p \in Pol |-> IF p \in e.pols THEN kPol[p] ELSE NoObj],
     prof |-> [f \in Prof |-> IF f \in e.profs THEN kProf[f] ELSE NoObj],
     set |-> [s \in Sets |-> IF s \in NeededSets(e) THEN kSet[s] ELSE NoSet],
     sa |-> kSA, ns |-> kNS]
Complete == \A j \in J : jst[j] = "active" => held[j] = Want(jw[j])

\* ---- inputs ----------------------------------------------------------------------------------------
CurJoins(w) == { j \in J : jw[j] = w /\ jst[j] \in {"active", "gone"} }

Join(w, j) ==
    /\ jst[j] = "none"
    /\ jst' = [i \in J |-> IF i = j THEN "active" ELSE IF i \in CurJoins(w) THEN "closed" ELSE jst[i]]
    /\ jw' = [jw EXCEPT ![j] = w]
    /\ held' = [held EXCEPT ![j] = NoHeld]
    /\ UNCHANGED <<kEp, kPol, kProf, kSet, kSA, kNS>>
\* a leave request carries the join UID; it ends that join (whether or not the Processor still
\* considers it current) - nothing may be sent to it any more
Leave(w, j) ==
    /\ jst' = [jst EXCEPT ![j] = IF jst[j] = "none" THEN "none" ELSE "closed"]
    /\ UNCHANGED <<kEp, kPol, kProf, kSet, kSA, kNS, jw, held>>

InEp(w, e) == kEp' = [kEp EXCEPT ![w] = e] /\ UNCHANGED <<kPol, kProf, kSet, kSA, kNS, jw, jst, held>>
\* the endpoint is removed: the Processor tells the client and hangs up; the property says nothing
\* about that join from then on ("gone") until it leaves or re-joins
InEpRemove(w) ==
    /\ kEp' = [kEp EXCEPT ![w] = NoEp]
    /\ jst' = [j \in J |-> IF j \in CurJoins(w) THEN "gone" ELSE jst[j]]
    /\ UNCHANGED <<kPol, kProf, kSet, kSA, kNS, jw, held>>
InPol(p, o)  == kPol' = [kPol EXCEPT ![p] = o] /\ UNCHANGED <<kEp, kProf, kSet, kSA, kNS, jw, jst, held>>
InProf(f, o) == kProf' = [kProf EXCEPT ![f] = o] /\ UNCHANGED <<kEp, kPol, kSet, kSA, kNS, jw, jst, held>>
InSet(s, r)  == kSet' = [kSet EXCEPT ![s] = r] /\ UNCHANGED <<kEp, kPol, kProf, kSA, kNS, jw, jst, held>>
InDelta(s, add, rem) ==
    /\ kSet' = [kSet EXCEPT ![s] = [on |-> kSet[s].on, m |-> (kSet[s].m \cup add) \ rem]]
    /\ UNCHANGED <<kEp, kPol, kProf, kSA, kNS, jw, jst, held>>
InSA(a, v) == kSA' = [kSA EXCEPT ![a] = v] /\ UNCHANGED <<kEp, kPol, kProf, kSet, kNS, jw, jst, held>>
InNS(n, v) == kNS' = [kNS EXCEPT ![n] = v] /\ UNCHANGED <<kEp, kPol, kProf, kSet, kSA, jw, jst, held>>
InInSync == UNCHANGED pvars

\* ---- outputs -----------------------------------------------------------------------------------------
Out(j, m) ==
    /\ jst[j] \in {"active", "gone"}                       \* Silence
    /\ jst[j] = "active" => MsgOK(held[j], m)              \* NoDangling
    /\ held' = [held EXCEPT ![j] = Apply(held[j], m)]
    /\ UNCHANGED <<kEp, kPol, kProf, kSet, kSA, kNS, jw, jst>>
Closed(j) == jst[j] # "active" /\ UNCHANGED pvars
StepDone == Complete /\ UNCHANGED pvars
=============================================================================
