CONSTANTS
  NameSeq <- N3
  Cidrs <- Fam2
  BlockSpots <- Spots1
  CidrOverlap <- TabOverlap
  CidrCovers <- TabCovers
  MaxFail = 1
  Ties = FALSE
INIT IInit
NEXT INext
INVARIANTS TypeOK RefinesP RefinesPF Idempotent TrueNeverOverlaps
CHECK_DEADLOCK FALSE
