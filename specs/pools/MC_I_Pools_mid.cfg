CONSTANTS
  NameSeq <- N3
  Cidrs <- Fam3
  BlockSpots <- Spots1
  CidrOverlap <- TabOverlap
  CidrCovers <- TabCovers
  Ties = TRUE
INIT Init
NEXT INext
INVARIANTS TypeOK RefinesP Idempotent TrueNeverOverlaps
CHECK_DEADLOCK FALSE
