CONSTANTS
  NameSeq <- N3
  Cidrs <- Fam3
  BlockSpots <- Spots1
  CidrOverlap <- TabOverlap
  CidrCovers <- TabCovers
  MaxFail = 1
  Ties = TRUE
INIT IInit
NEXT INext
INVARIANTS TypeOK RefinesP RefinesPF Idempotent TrueNeverOverlaps
CHECK_DEADLOCK FALSE
