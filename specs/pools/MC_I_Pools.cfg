CONSTANTS
  NameSeq <- N3
  Cidrs <- Fam5
  BlockSpots <- Spots1
  CidrOverlap <- TabOverlap
  CidrCovers <- TabCovers
  Ties = FALSE
INIT Init
NEXT INext
INVARIANTS TypeOK RefinesP Idempotent TrueNeverOverlaps
CHECK_DEADLOCK FALSE
