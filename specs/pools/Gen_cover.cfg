CONSTANTS
  NameSeq <- N2
  Cidrs <- Fam3
  BlockSpots <- Spots1
  CidrOverlap <- TabOverlap
  CidrCovers <- TabCovers
  MaxFail = 1
  Ties = TRUE
  SimLen = 60
INIT GInit
NEXT GNext
VIEW GView
ACTION_CONSTRAINT EmitEdge
CHECK_DEADLOCK FALSE
