CONSTANTS
  NameSeq <- N2
  Cidrs <- Fam3
  BlockSpots <- Spots2
  CidrOverlap <- TabOverlap
  CidrCovers <- TabCovers
  Ties = TRUE
  SimLen = 60
INIT GInit
NEXT GNext
VIEW GView
ACTION_CONSTRAINT EmitEdge
CHECK_DEADLOCK FALSE
