CONSTANTS
  NameSeq <- N2
  Cidrs <- Fam5
  BlockSpots <- Spots2
  CidrOverlap <- TabOverlap
  CidrCovers <- TabCovers
  Ties = TRUE
INIT Init
NEXT INext
INVARIANTS TypeOK RefinesP Idempotent TrueNeverOverlaps
CHECK_DEADLOCK FALSE
