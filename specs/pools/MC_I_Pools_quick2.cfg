CONSTANTS
  NameSeq <- N2
  Cidrs <- Fam3
  BlockSpots <- Spots2
  CidrOverlap <- TabOverlap
  CidrCovers <- TabCovers
  MaxFail = 1
  Ties = TRUE
INIT IInit
NEXT INext
INVARIANTS TypeOK RefinesP RefinesPF Idempotent TrueNeverOverlaps
CHECK_DEADLOCK FALSE
