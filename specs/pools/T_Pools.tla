------------------------------ MODULE T_Pools ------------------------------
(* Trace specification for C39.  Every recorded step carries the pool objects as the (miniature) API
   server holds them afterwards.  Environment steps must be exactly what module Pools' API-server
   semantics produce (binding check of the harness); a `reconcile` step of the REAL controller is
   accepted iff Pools!ReconcileOK holds between the state before it (= the informer snapshot the harness
   handed to the controller) and the recorded state after it, with CIDR arithmetic from module Nets.   *)
EXTENDS TraceLib, Nets

VARIABLES pools, blocks, unsettled

P == INSTANCE Pools WITH CidrOverlap <- Intersects, CidrCovers <- Covers

PoolRec(r) == [cidr |-> r.cidr, disabled |-> r.disabled, deleting |-> r.deleting, created |-> r.created,
               cond |-> r.cond, fin |-> r.fin]
PoolsOf(s) == [n \in { s[i].name : i \in DOMAIN s } |-> PoolRec(s[CHOOSE i \in DOMAIN s : s[i].name = n])]
BlocksOf(s) == SeqToSet(s)

\* the recorded post-state
Post == PoolsOf(Cur.pools)
Same == pools' = Post /\ blocks' = BlocksOf(Cur.blocks)

TInit == l = 1 /\ P!Init

TReset  == IsEvent("reset") /\ pools' = << >> /\ blocks' = {} /\ unsettled' = {} /\ Cur.pools = << >> /\ Cur.blocks = << >>
TCreate == IsEvent("create") /\ P!Create(Cur.name, Cur.cidr, Cur.disabled, Cur.created) /\ Same
TSetDis == IsEvent("set_disabled") /\ P!SetDisabled(Cur.name, Cur.v) /\ Same
TDelete == IsEvent("delete") /\ P!Delete(Cur.name) /\ Same
TBlkAdd == IsEvent("block_add") /\ P!BlockAppears(Cur.cidr) /\ Same
TBlkDel == IsEvent("block_del") /\ P!BlockVanishes(Cur.cidr) /\ Same
\* a Reconcile that returns an error against a healthy API server has not reconciled: not accepted
\* ... unless the harness made status writes fail in this pass: then the error must be explained by them, and
\* the pass is judged by ReconcileFailOK
Failed == IF "failed" \in DOMAIN Cur THEN SeqToSet(Cur.failed) ELSE {}
TReconcile == /\ IsEvent("reconcile")
              /\ (Cur.err = "") = (Failed = {})
              /\ P!ReconcileF(Post, Failed)
              /\ blocks = BlocksOf(Cur.blocks)

TNext == TReset \/ TCreate \/ TSetDis \/ TDelete \/ TBlkAdd \/ TBlkDel \/ TReconcile
TSpec == TInit /\ [][TNext]_<<pools, blocks, unsettled, l>>
=============================================================================
