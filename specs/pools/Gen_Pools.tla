----------------------------- MODULE Gen_Pools -----------------------------
(* Behaviour generator for C39 (leg A): the actions of I_Pools with a history variable.
   - Gen_cover*.cfg: exhaustive; VIEW <<pools, blocks>>; for EVERY reachable abstract state the history
     leading to it followed by `reconcile` is printed (the real Reconcile is a function of the snapshot,
     so this replays Reconcile on every reachable snapshot, reached through the real code's own writes);
   - Gen_sim.cfg: `-simulate` random walks over the larger family.                                  *)
EXTENDS I_Pools, Json

CONSTANTS SimLen
VARIABLE hist
gvars == <<pools, blocks, unsettled, nfail, hist>>

GInit == IInit /\ hist = <<>>
Step(a, r) == a /\ hist' = Append(hist, r)

GNext ==
  \/ /\ Len(hist) = SimLen /\ hist' = Append(hist, [op |-> "end"]) /\ UNCHANGED <<pools, blocks, unsettled, nfail>>
  \/ /\ Len(hist) < SimLen
     /\ \/ \E n \in AllNames, c \in Cidrs, dis \in BOOLEAN, tie \in BOOLEAN :
              Step(ICreate(n, c, dis, tie), [op |-> "create", n |-> n, cidr |-> c, dis |-> dis, tie |-> tie])
        \/ \E n \in AllNames, v \in BOOLEAN : Step(ISetDisabled(n, v), [op |-> "set_disabled", n |-> n, v |-> v])
        \/ \E n \in AllNames : Step(IDelete(n), [op |-> "delete", n |-> n])
        \/ \E b \in BlockSpots : Step(IBlockAppears(b), [op |-> "block_add", cidr |-> b])
        \/ \E b \in BlockSpots : Step(IBlockVanishes(b), [op |-> "block_del", cidr |-> b])
        \/ Step(IReconcile, [op |-> "reconcile"])
        \/ \E f \in AllNames : Step(IReconcileFail(f), [op |-> "reconcile", fail |-> <<f>>])

GView == <<pools, blocks, unsettled, nfail>>
\* one behaviour per reachable abstract state: printed on the Reconcile edge leaving it
EmitEdge == (hist'[Len(hist')].op = "reconcile") => PrintT("BEH " \o ToJson(hist'))
EmitAtLen == Len(hist) = SimLen + 1 => PrintT("BEH " \o ToJson(hist))
=============================================================================
