------------------------------ MODULE I_Pools ------------------------------
(* C39 implementation layer: the reconcile pass of kube-controllers/pkg/controllers/ippool
   transcribed as a function of the informer snapshot:
     reconcileConditions  sort by (category, creation stamp, name); walk the sorted list keeping the
                          set of CIDRs inserted in the overlap trie; disabled -> False (not inserted);
                          deleting -> False (inserted); overlapping something inserted -> False;
                          otherwise True (inserted)
     reconcileFinalizer   on the pools with the conditions just written: not deleting: False -> drop
                          the finalizer, else add it; deleting with finalizer: keep it while a block
                          lies inside the pool, else remove it (the API server then removes the pool)
   TLC checks exhaustively that every Reconcile of this design is accepted by the property layer
   (Pools!ReconcileOK) from every reachable state; Gen_Pools uses it to generate behaviours.      *)
EXTENDS Pools, Sequences, FiniteSets, Nets

VARIABLE nfail

CONSTANTS MaxFail,      \* how many reconciles with an injected status-write failure a behaviour may contain
          NameSeq,      \* all pool names, in ascending (Go string) order
          Cidrs,        \* CIDRs pools may take
          BlockSpots,   \* CIDRs of blocks that may exist
          Ties          \* BOOLEAN: may two pools share a creation stamp?

\* tables over the model's CIDRs, computed once (TLC caches constant definitions)
OvTab  == [c \in Cidrs |-> { d \in Cidrs : Intersects(c, d) }]
CovTab == [c \in Cidrs |-> { b \in BlockSpots : Covers(c, b) }]
TabOverlap(c, d) == d \in OvTab[c]
TabCovers(c, b)  == b \in CovTab[c]

AllNames == { NameSeq[i] : i \in DOMAIN NameSeq }
Idx(n) == CHOOSE i \in DOMAIN NameSeq : NameSeq[i] = n

\* (a pool without condition that carries the finalizer was judged active by a pass whose status write failed:
\*  category 0 - repaired order, hooks/fix-C39-unwritten-active-pool.patch)
Cat(p) == IF p.cond = "T" /\ ~p.deleting THEN 0
          ELSE IF p.deleting THEN 1
          ELSE IF p.cond = "F" THEN 2
          ELSE IF p.fin THEN 0 ELSE 3

\* poolSortFunc: n sorts strictly before m
Before(ps, n, m) ==
    \/ Cat(ps[n]) < Cat(ps[m])
    \/ Cat(ps[n]) = Cat(ps[m]) /\ ps[n].created < ps[m].created
    \/ Cat(ps[n]) = Cat(ps[m]) /\ ps[n].created = ps[m].created /\ Idx(n) < Idx(m)

Sorted(ps) ==
    LET N == DOMAIN ps
        Rank(n) == Cardinality({ m \in N : Before(ps, m, n) }) + 1
    IN [i \in 1..Cardinality(N) |-> CHOOSE n \in N : Rank(n) = i]

\* the walk: st = [trie: set of names inserted, cond: name -> new condition]
RECURSIVE Walk(_, _, _, _)
Walk(ps, order, i, st) ==
    IF i > Len(order) THEN st
    ELSE LET n == order[i]
             p == ps[n]
             hit == \E t \in st.trie : CidrOverlap(ps[t].cidr, p.cidr)
         IN IF p.disabled THEN Walk(ps, order, i + 1, [st EXCEPT !.cond[n] = "F"])
            ELSE IF p.deleting THEN Walk(ps, order, i + 1, [trie |-> st.trie \cup {n}, cond |-> [st.cond EXCEPT ![n] = "F"]])
            ELSE IF hit THEN Walk(ps, order, i + 1, [st EXCEPT !.cond[n] = "F"])
            ELSE Walk(ps, order, i + 1, [trie |-> st.trie \cup {n}, cond |-> [st.cond EXCEPT ![n] = "T"]])

NewConds(ps) == Walk(ps, Sorted(ps), 1, [trie |-> {}, cond |-> [n \in DOMAIN ps |-> ps[n].cond]]).cond

\* F = pools whose status write fails if attempted.  The finalizer pass acts on the conditions the controller
\* computed (its local copies), the API server keeps the old condition of a pool whose write failed.
IReconcileResultF(ps, blk, F) ==
    LET nc == NewConds(ps)
        fin(n) == IF ~ps[n].deleting THEN nc[n] # "F"
                  ELSE ps[n].fin /\ HasBlocks(ps[n], blk)
        keep == { n \in DOMAIN ps : ps[n].deleting => fin(n) }
    IN [n \in keep |-> [ps[n] EXCEPT !.cond = IF n \in F THEN ps[n].cond ELSE nc[n], !.fin = fin(n)]]
\* the writes that were attempted and failed (a write is attempted when the condition changes)
IFailed(ps, F) == { n \in F \cap DOMAIN ps : NewConds(ps)[n] # ps[n].cond }
IReconcileResult(ps, blk) == IReconcileResultF(ps, blk, {})

\* creation stamps are kept dense (1..k) so that the state space is finite: order is all that matters
Compress(ps) ==
    LET S == { ps[n].created : n \in DOMAIN ps }
        R(x) == Cardinality({ y \in S : y < x }) + 1
    IN [n \in DOMAIN ps |-> [ps[n] EXCEPT !.created = R(ps[n].created)]]

ICreate(n, c, dis, tie) ==
    /\ n \notin Names
    /\ tie => (Ties /\ Names # {})
    /\ Create(n, c, dis, IF tie THEN MaxStamp(pools) ELSE MaxStamp(pools) + 1)
    /\ UNCHANGED nfail
ISetDisabled(n, v) == SetDisabled(n, v) /\ UNCHANGED nfail
IDelete(n) ==
    /\ n \in Names /\ ~pools[n].deleting
    /\ pools' = Compress(IF pools[n].fin THEN [pools EXCEPT ![n].deleting = TRUE] ELSE Drop(pools, n))
    /\ unsettled' = unsettled \cap DOMAIN pools'
    /\ UNCHANGED <<blocks, nfail>>
IBlockAppears(b) == BlockAppears(b) /\ UNCHANGED nfail
IBlockVanishes(b) == BlockVanishes(b) /\ UNCHANGED nfail
IInit == Init /\ nfail = 0
IReconcile ==
    /\ pools' = Compress(IReconcileResult(pools, blocks))
    /\ unsettled' = {}
    /\ UNCHANGED <<blocks, nfail>>
\* a pass in which the status write of pool f is rejected (only passes that really attempt that write)
IReconcileFail(f) ==
    /\ nfail < MaxFail
    /\ IFailed(pools, {f}) = {f}
    /\ pools' = Compress(IReconcileResultF(pools, blocks, {f}))
    /\ unsettled' = {f} \cap DOMAIN pools'
    /\ nfail' = nfail + 1
    /\ UNCHANGED blocks

INext ==
    \/ \E n \in AllNames, c \in Cidrs, dis \in BOOLEAN, tie \in BOOLEAN : ICreate(n, c, dis, tie)
    \/ \E n \in AllNames, v \in BOOLEAN : ISetDisabled(n, v)
    \/ \E n \in AllNames : IDelete(n)
    \/ \E b \in BlockSpots : IBlockAppears(b) \/ IBlockVanishes(b)
    \/ IReconcile
    \/ \E f \in AllNames : IReconcileFail(f)

\* ---- what TLC checks --------------------------------------------------------------------------------
\* from every reachable state, the design's Reconcile is one the property layer accepts
RefinesP == ReconcileOK(pools, blocks, IReconcileResult(pools, blocks))
\* ... and so is a pass in which one status write is rejected
RefinesPF == \A f \in Names : IFailed(pools, {f}) = {f} =>
                 ReconcileFailOK(pools, blocks, IReconcileResultF(pools, blocks, {f}), {f})
\* and it is idempotent (a second pass on its own result changes nothing)
Idempotent == LET r == IReconcileResult(pools, blocks) IN
              DOMAIN r = Names => IReconcileResult(r, blocks) = r
\* pools marked Allocatable=True never overlap, reconciled or not (the environment cannot set it)
TrueNeverOverlaps ==
    nfail = 0 =>        \* (a rejected status write can leave a stale True on a pool that was disabled meanwhile)
    \A m, n \in Names : (m # n /\ pools[m].cond = "T" /\ pools[n].cond = "T") => ~Overlap(pools[m], pools[n])
TypeOK ==
    /\ Names \subseteq AllNames /\ blocks \subseteq BlockSpots /\ ApiInv /\ unsettled \subseteq Names
    /\ \A n \in Names : pools[n].cidr \in Cidrs /\ pools[n].cond \in Conds

\* ---- model values for the cfg files (a laminar family: A > B > D, A > C, E apart; G is IPv6) ----------
cA == [a |-> <<10, 0, 0, 0>>, n |-> 16]
cB == [a |-> <<10, 0, 0, 0>>, n |-> 24]
cC == [a |-> <<10, 0, 1, 0>>, n |-> 24]
cD == [a |-> <<10, 0, 0, 0>>, n |-> 25]
cE == [a |-> <<10, 1, 0, 0>>, n |-> 16]
Fam5 == {cA, cB, cC, cD, cE}
Fam3 == {cA, cB, cE}
Fam2 == {cA, cB}
b1 == [a |-> <<10, 0, 0, 0>>, n |-> 26]       \* inside A, B, D
b2 == [a |-> <<10, 0, 0, 128>>, n |-> 26]     \* inside A, B
b3 == [a |-> <<10, 0, 1, 64>>, n |-> 26]      \* inside A, C
b4 == [a |-> <<10, 1, 7, 0>>, n |-> 26]       \* inside E
Spots1 == {b1}
Spots2 == {b1, b3}
Spots3 == {b1, b2, b3}
N2 == <<"p1", "p2">>
N3 == <<"p1", "p2", "p3">>
=============================================================================
