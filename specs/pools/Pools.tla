------------------------------- MODULE Pools -------------------------------
(* C39 property layer (P_Pools): IP pools as the API server holds them, the environment's actions with
   API-server semantics, and the judgement of one Reconcile of the pool controller
   (kube-controllers/pkg/controllers/ippool) as a relation between the informer snapshot (= the
   pre-state; Reconcile is atomic on it) and the API-server state after it.

   A pool is a record  [cidr, disabled, deleting, created, cond, fin]:
     cidr     CIDR record of module Nets            disabled  Spec.Disabled
     deleting DeletionTimestamp set                 created   creation stamp (integer; order only)
     cond     Allocatable condition "none"|"T"|"F"  fin       carries the controller's finalizer
   `pools` is a function whose DOMAIN is the set of existing pool names; `blocks` a set of block CIDRs.

   "Allocatable" is what IPAM's pool filter (libcalico-go/lib/clientv3 filterIPPool) accepts: enabled,
   not deleting, and NOT marked Allocatable=False.  A pool without a condition is therefore allocatable;
   `Confirmed` is the stricter "has Allocatable=True".                                              *)
EXTENDS Integers, TLC

\* CIDR arithmetic is a parameter: the trace spec binds it to module Nets (prefix arithmetic on the CIDRs
\* found in the trace), the exhaustive design runs to tables computed once from Nets over the model's family
CONSTANTS CidrOverlap(_, _),     \* the two CIDRs share an address            (Nets!Intersects)
          CidrCovers(_, _)       \* the second CIDR lies inside the first      (Nets!Covers)

VARIABLES pools, blocks,
          unsettled     \* pools whose most recent status (condition) write was rejected by the API server
pvars == <<pools, blocks, unsettled>>

Conds == {"none", "T", "F"}
Names == DOMAIN pools

Overlap(p, q)   == CidrOverlap(p.cidr, q.cidr)
Eligible(p)     == ~p.disabled /\ ~p.deleting
Alloc(p)        == Eligible(p) /\ p.cond # "F"
Confirmed(p)    == Eligible(p) /\ p.cond = "T"
Masker(p)       == p.deleting /\ ~p.disabled          \* a terminating pool (not administratively disabled)
HasBlocks(p, b) == \E c \in b : CidrCovers(p.cidr, c)

MaxStamp(ps) == IF DOMAIN ps = {} THEN 0
                ELSE LET S == { ps[n].created : n \in DOMAIN ps } IN CHOOSE m \in S : \A x \in S : x <= m

Drop(f, n) == [x \in (DOMAIN f) \ {n} |-> f[x]]

\* an API object with a deletion timestamp and no finalizer does not exist
ApiInv == \A n \in Names : pools[n].deleting => pools[n].fin

Init == pools = << >> /\ blocks = {} /\ unsettled = {}

\* ---- environment (API-server semantics) ----------------------------------------------------------
Create(n, c, dis, stamp) ==
    /\ n \notin Names
    /\ stamp >= MaxStamp(pools) /\ stamp > 0
    /\ pools' = (n :> [cidr |-> c, disabled |-> dis, deleting |-> FALSE, created |-> stamp,
                       cond |-> "none", fin |-> FALSE]) @@ pools
    /\ UNCHANGED <<blocks, unsettled>>
SetDisabled(n, v) ==
    /\ n \in Names /\ pools[n].disabled # v
    /\ pools' = [pools EXCEPT ![n].disabled = v]
    /\ UNCHANGED <<blocks, unsettled>>
\* delete: with a finalizer the object stays, marked; without, it is gone
Delete(n) ==
    /\ n \in Names /\ ~pools[n].deleting
    /\ pools' = IF pools[n].fin THEN [pools EXCEPT ![n].deleting = TRUE] ELSE Drop(pools, n)
    /\ unsettled' = unsettled \cap DOMAIN pools'
    /\ UNCHANGED blocks
BlockAppears(b) == b \notin blocks /\ blocks' = blocks \cup {b} /\ UNCHANGED <<pools, unsettled>>
BlockVanishes(b) == b \in blocks /\ blocks' = blocks \ {b} /\ UNCHANGED <<pools, unsettled>>

\* ---- judgement of Reconcile: pre = snapshot, blk = block snapshot, post = API state afterwards --------
\* The controller owns only cond and fin; a pool object disappears only by finalization of a deleting pool.
Frame(pre, post) ==
    /\ DOMAIN post \subseteq DOMAIN pre
    /\ \A n \in DOMAIN post :
          /\ post[n].cidr = pre[n].cidr /\ post[n].disabled = pre[n].disabled
          /\ post[n].deleting = pre[n].deleting /\ post[n].created = pre[n].created
          /\ post[n].cond \in Conds /\ post[n].fin \in BOOLEAN
          /\ post[n].deleting => post[n].fin
    /\ \A n \in (DOMAIN pre) \ (DOMAIN post) : pre[n].deleting

\* (1) no two allocatable pools overlap
NoOverlap(post) ==
    \A m, n \in DOMAIN post : (m # n /\ Alloc(post[m]) /\ Alloc(post[n])) => ~Overlap(post[m], post[n])

\* A pool the controller has judged active: it carries Allocatable=True, or - when the status write of that
\* judgement was rejected - no condition but already the finalizer (only pools judged allocatable get it).
Conf(pre, uns, n) == \/ Confirmed(pre[n])
                     \/ n \in uns /\ Eligible(pre[n]) /\ pre[n].cond = "none" /\ pre[n].fin
\* priority among rivals: pools judged active first, then terminating pools, then by creation
Precedes(pre, uns, n, m) ==
    IF Masker(pre[m]) THEN Conf(pre, uns, n)
    ELSE \/ Conf(pre, uns, n) /\ ~Conf(pre, uns, m)
         \/ Conf(pre, uns, n) = Conf(pre, uns, m) /\ pre[n].created < pre[m].created

\* what can explain a pool losing (or not getting) allocatable status: an overlapping pool that is
\* allocatable afterwards, or an overlapping terminating pool
Blockers(pre, post, n) ==
    { m \in (DOMAIN pre) \ {n} :
        /\ Overlap(pre[m], pre[n])
        /\ \/ Masker(pre[m])
           \/ m \in DOMAIN post /\ Alloc(post[m]) }

\* (2) a pool that was already allocatable is never displaced by a newer overlapping pool:
\*     if it lost the status and something overlapping holds it (or masks), at least one such rival is
\*     not newer than it.  (Losing the status with no rival at all is not the subject of the property.)
\*     A pool without condition whose last status write was rejected and that was never given the finalizer is
\*     not "already allocatable": the rejected write was Allocatable=False (allocatable pools get the finalizer).
Established(pre, uns, n) == Alloc(pre[n]) /\ ~(n \in uns /\ pre[n].cond = "none" /\ ~pre[n].fin)
NotDisplaced(pre, post, uns) ==
    \A n \in DOMAIN post :
        (Established(pre, uns, n) /\ ~Alloc(post[n]) /\ Blockers(pre, post, n) # {})
            => \E m \in Blockers(pre, post, n) : ~Precedes(pre, uns, n, m)

\* (3) a terminating pool keeps masking overlapping pools until it is gone (from the snapshot);
\*     a pool that was judged active while the terminating pool did not mask it is left to (2)
Masking(pre, post, uns) ==
    \A t \in DOMAIN pre : Masker(pre[t]) =>
        \A q \in (DOMAIN post) \ {t} :
            (Overlap(pre[t], pre[q]) /\ ~Conf(pre, uns, q)) => ~Alloc(post[q])

\* (4) the finalizer of a terminating pool, or of a pool that is allocatable afterwards, is not removed
\*     while address blocks exist inside it ...
LostFin(pre, post, n) == pre[n].fin /\ (n \notin DOMAIN post \/ ~post[n].fin)
FinKept(pre, blk, post) ==
    \A n \in DOMAIN pre : (LostFin(pre, post, n) /\ HasBlocks(pre[n], blk)) =>
        /\ ~pre[n].deleting
        /\ ~Alloc(post[n])
\*     ... and an allocatable pool carries it (else the API server deletes the pool at once, whatever
\*     blocks appear in the meantime: block creation does not trigger a reconcile)
AllocHasFin(post) == \A n \in DOMAIN post : Alloc(post[n]) => post[n].fin

ReconcileOK(pre, blk, post) ==
    /\ Frame(pre, post)
    /\ NoOverlap(post)
    /\ NotDisplaced(pre, post, unsettled)
    /\ Masking(pre, post, unsettled)
    /\ FinKept(pre, blk, post)
    /\ AllocHasFin(post)

\* ---- Reconcile with failing status writes ----------------------------------------------------------------
\* `failed` = the pools whose condition (status) write was rejected by the API server during this pass.  A failed
\* write leaves the stored condition as it was.  The pass is accepted iff it would have been accepted had those
\* writes landed with SOME condition: every clause is judged on the state in which the failed pools carry the
\* condition the controller tried to give them (existentially quantified - the property layer does not know it).
\* Everything that did reach the API server (the other pools' conditions, all finalizers) is judged as is; so a
\* pool that is made allocatable although an overlapping terminating pool's own status write failed is rejected.
Override(post, c) == [n \in DOMAIN post |-> IF n \in DOMAIN c THEN [post[n] EXCEPT !.cond = c[n]] ELSE post[n]]
ReconcileFailOK(pre, blk, post, failed) ==
    /\ failed \subseteq DOMAIN pre
    /\ \A n \in failed \cap DOMAIN post : post[n].cond = pre[n].cond
    /\ \E c \in [failed \cap DOMAIN post -> Conds] : ReconcileOK(pre, blk, Override(post, c))

Reconcile(post) == ReconcileOK(pools, blocks, post) /\ pools' = post /\ unsettled' = {} /\ UNCHANGED blocks
ReconcileF(post, failed) ==
    /\ ReconcileFailOK(pools, blocks, post, failed)
    /\ pools' = post /\ unsettled' = failed \cap DOMAIN post /\ UNCHANGED blocks
=============================================================================
