CONSTANTS
  NameSeq <- N3
  Cidrs <- Fam3
  BlockSpots <- Spots1
  CidrOverlap <- TabOverlap
  CidrCovers <- TabCovers
  MaxFail = 0
  Ties = FALSE
  SimLen = 60
INIT GInit
NEXT GNext
VIEW GView
ACTION_CONSTRAINT EmitEdge
CHECK_DEADLOCK FALSE
