CONSTANTS
  NameSeq <- N3
  Cidrs <- Fam5
  BlockSpots <- Spots3
  CidrOverlap <- TabOverlap
  CidrCovers <- TabCovers
  MaxFail = 1
  Ties = TRUE
  SimLen = 24
INIT GInit
NEXT GNext
INVARIANT EmitAtLen
CHECK_DEADLOCK FALSE
