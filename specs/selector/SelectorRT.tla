---------------------------- MODULE SelectorRT ----------------------------
(* C06 property layer.  One record per selector expression fed to the real
   libcalico-go/lib/selector/parser.  The record is accepted iff

     - Validate accepted the text exactly when Parse did, and
     - if Parse accepted it: the canonical text (Selector.String()) parsed again (and validated),
       gave the same canonical text and the same UniqueID, and the re-parsed selector matches exactly
       the same label maps - judged both by the real evaluator's answers over the exhaustive set of
       label maps of the bounded vocabulary and by the reference semantics `Eval` (module Selectors)
       applied to the syntactic export of both node trees.

   Nothing here accepts or rejects the *grammar*: which texts parse is the parser's business
   (the property does not ask for an acceptor).                                                   *)
EXTENDS Selectors, FiniteSets

\* all label maps over keys K with values in V (partial functions K -> V); JSON objects are records,
\* and records are functions with a string domain, so the logged maps are compared with these directly
AllMaps(K, V) == UNION { [D -> V] : D \in SUBSET K }

SeqSet(s) == { s[i] : i \in DOMAIN s }

\* the logged list of label maps is exactly the exhaustive set, each map once
MapsExhaustive(maps, K, V) ==
    /\ SeqSet(maps) = AllMaps(K, V)
    /\ Len(maps) = Cardinality(AllMaps(K, V))

\* the real evaluator's answers agree with the reference semantics on every map
EvalsOK(ast, evals, maps, ct) ==
    /\ Len(evals) = Len(maps)
    /\ \A j \in DOMAIN maps : evals[j] = Eval(ast, maps[j], ct)

ParseValidateAgree(r) == r.parse_ok = r.validate_ok

RoundTripOK(r, maps, ct) ==
    r.parse_ok =>
        /\ EvalsOK(r.ast, r.evals, maps, ct)          \* meaning of the parsed selector (oracle: Eval)
        /\ r.re_ok /\ r.re_validate_ok                \* canonical text is accepted again (both entry points)
        /\ r.re_canon = r.canon                       \* same canonical text
        /\ r.re_uid = r.uid                           \* same identity hash
        /\ r.re_evals = r.evals                       \* real evaluator: same label maps matched
        /\ (r.re_ast # r.ast => EvalsOK(r.re_ast, r.re_evals, maps, ct))   \* and by the reference semantics

Accept(r, maps, ct) == ParseValidateAgree(r) /\ RoundTripOK(r, maps, ct)
=============================================================================
