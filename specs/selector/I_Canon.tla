------------------------------ MODULE I_Canon ------------------------------
(* C06 implementation layer: a token-level model of the canonical printer (ast.go collectFragments)
   and of the precedence parser (parser.go parseOrExpression / parseAndExpression / parseOperation),
   with label operations as atomic tokens.  TLC enumerates every tree up to MaxDepth over the atoms
   and checks, as invariants over the enumeration (one initial state per tree),

     RoundTrip   : Parse(Canon(t)) = t            for every tree without a negation directly under a
                                                  negation (the only trees the parser builds),
     Idempotent  : Canon(Parse(Canon(t))) = Canon(t)   for those trees,
     MeaningKept : for EVERY tree, also !(!x): Parse(Canon(t)) has the same truth table as t.

   KnownGap documents the C06 finding: Canon(!(!x)) = "!!x" parses to x, so the canonical text is not
   a fixed point when negations were separated by parentheses in the source text.

   The quoting rule (appendLabelOpAndQuotedString): a literal is delimited by ' iff it contains ",
   else by "; QuoteSafe checks that the delimiter never occurs inside any literal the tokenizer can
   have produced (a literal delimited by one quote character cannot contain that character, and there
   are no escapes, so it never contains both).                                                     *)
EXTENDS Naturals, Sequences, FiniteSets, TLC

CONSTANTS Atoms, MaxDepth, Tri      \* Tri: also 3-ary chains over the atoms

\* ---- trees -----------------------------------------------------------------------------------------
Leaf(a) == [op |-> "leaf", a |-> a]
Not(t) == [op |-> "not", x |-> t]
Nary(op, args) == [op |-> op, args |-> args]

\* one more level of nesting over the trees in S (3-ary chains only over the atoms, to bound the count);
\* T0..T2 are constant-level definitions so that TLC computes each of them once
Step(S, tri) ==
    S \cup { Not(t) : t \in S }
      \cup { Nary(op, <<x, y>>) : op \in {"and", "or"}, x \in S, y \in S }
      \cup (IF tri THEN { Nary(op, <<x, y, z>>) : op \in {"and", "or"}, x \in S, y \in S, z \in S } ELSE {})
T0 == { Leaf(a) : a \in Atoms }
T1 == Step(T0, Tri)
T2 == Step(T1, FALSE)
Trees(d) == CASE d = 0 -> T0 [] d = 1 -> T1 [] d = 2 -> T2

\* ---- printer ---------------------------------------------------------------------------------------
Tok(k) == [t |-> k]
RECURSIVE Canon(_)
RECURSIVE PrintArgs(_, _, _)
PrintArgs(args, i, sym) ==
    IF i > Len(args) THEN <<>>
    ELSE (IF i > 1 THEN <<Tok(sym)>> ELSE <<>>) \o Canon(args[i]) \o PrintArgs(args, i + 1, sym)
Canon(t) ==
    CASE t.op = "leaf" -> <<[t |-> "leaf", a |-> t.a]>>
      [] t.op = "not"  -> <<Tok("not")>> \o Canon(t.x)
      [] t.op = "and"  -> <<Tok("lp")>> \o PrintArgs(t.args, 1, "and") \o <<Tok("rp")>>
      [] t.op = "or"   -> <<Tok("lp")>> \o PrintArgs(t.args, 1, "or") \o <<Tok("rp")>>

\* ---- parser (results: [ok, node, rest]) ---------------------------------------------------------
Fail == [ok |-> FALSE, node |-> Leaf("none"), rest |-> <<>>]
Ok(n, r) == [ok |-> TRUE, node |-> n, rest |-> r]
Kind(ts) == IF ts = <<>> THEN "eof" ELSE Head(ts).t

RECURSIVE ParseOr(_)
RECURSIVE ParseAnd(_)
RECURSIVE ParseOp(_)
RECURSIVE OrLoop(_, _)
RECURSIVE AndLoop(_, _)

\* leading "!" tokens collapse to one boolean
RECURSIVE StripNots(_, _)
StripNots(ts, neg) == IF Kind(ts) = "not" THEN StripNots(Tail(ts), ~neg) ELSE [neg |-> neg, ts |-> ts]

ParseOp(ts0) ==
    LET s == StripNots(ts0, FALSE)
        ts == s.ts
        r == CASE Kind(ts) = "leaf" -> Ok(Leaf(Head(ts).a), Tail(ts))
               [] Kind(ts) = "lp" -> LET inner == ParseOr(Tail(ts)) IN
                                      IF inner.ok /\ Kind(inner.rest) = "rp" THEN Ok(inner.node, Tail(inner.rest)) ELSE Fail
               [] OTHER -> Fail
    \* negation of a (parenthesised) negation collapses, like adjacent "!" tokens
    IN IF r.ok /\ s.neg THEN Ok(IF r.node.op = "not" THEN r.node.x ELSE Not(r.node), r.rest) ELSE r

AndLoop(nodes, ts) ==
    IF Kind(ts) = "and"
      THEN LET r == ParseOp(Tail(ts)) IN IF r.ok THEN AndLoop(Append(nodes, r.node), r.rest) ELSE Fail
      ELSE Ok(IF Len(nodes) = 1 THEN nodes[1] ELSE Nary("and", nodes), ts)
ParseAnd(ts) == LET r == ParseOp(ts) IN IF r.ok THEN AndLoop(<<r.node>>, r.rest) ELSE Fail

OrLoop(nodes, ts) ==
    IF Kind(ts) = "or"
      THEN LET r == ParseAnd(Tail(ts)) IN IF r.ok THEN OrLoop(Append(nodes, r.node), r.rest) ELSE Fail
      ELSE Ok(IF Len(nodes) = 1 THEN nodes[1] ELSE Nary("or", nodes), ts)
ParseOr(ts) == LET r == ParseAnd(ts) IN IF r.ok THEN OrLoop(<<r.node>>, r.rest) ELSE Fail

Parse(ts) == LET r == ParseOr(ts) IN IF r.ok /\ r.rest = <<>> THEN r ELSE Fail

\* ---- meaning: truth table over valuations of the atoms -----------------------------------------
RECURSIVE Holds(_, _)
Holds(t, V) ==
    CASE t.op = "leaf" -> t.a \in V
      [] t.op = "not"  -> ~Holds(t.x, V)
      [] t.op = "and"  -> \A i \in DOMAIN t.args : Holds(t.args[i], V)
      [] t.op = "or"   -> \E i \in DOMAIN t.args : Holds(t.args[i], V)
SameMeaning(s, t) == \A V \in SUBSET Atoms : Holds(s, V) = Holds(t, V)

RECURSIVE NotUnderNot(_)
NotUnderNot(t) ==
    CASE t.op = "leaf" -> FALSE
      [] t.op = "not"  -> t.x.op = "not" \/ NotUnderNot(t.x)
      [] OTHER -> \E i \in DOMAIN t.args : NotUnderNot(t.args[i])

\* ---- the walk over the enumeration ------------------------------------------------------------
\* every tree is an initial state; the invariants below are evaluated on each of them
VARIABLE cur
vars == <<cur>>
Init == cur \in Trees(MaxDepth)
Next == cur' = cur

RoundTrip   == ~NotUnderNot(cur) => LET r == Parse(Canon(cur)) IN r.ok /\ r.node = cur
Idempotent  == ~NotUnderNot(cur) => Canon(Parse(Canon(cur)).node) = Canon(cur)
MeaningKept == LET r == Parse(Canon(cur)) IN r.ok /\ SameMeaning(r.node, cur)

\* whatever the tree (also !(!x), which only an older parser could build), the parser's answer for the
\* canonical text has no negation directly under a negation
ParserNormal == ~NotUnderNot(Parse(Canon(cur)).node)

\* regression lemma for the C06 finding fixed in /repo 88cb2cf: "!(!a)" parses to a (it used to parse to
\* !(!a), whose canonical text "!!a" parses to a: canonical text and UniqueID were not a fixed point)
ParenNegCollapses ==
    \A a \in Atoms :
        /\ Parse(<<Tok("not"), Tok("lp"), Tok("not"), [t |-> "leaf", a |-> a], Tok("rp")>>).node = Leaf(a)
        /\ Parse(<<Tok("not"), Tok("lp"), Tok("lp"), Tok("not"), [t |-> "leaf", a |-> a], Tok("rp"), Tok("rp")>>).node = Leaf(a)
        /\ Parse(<<Tok("not"), Tok("lp"), Tok("not"), Tok("lp"), Tok("not"), [t |-> "leaf", a |-> a], Tok("rp"), Tok("rp")>>).node = Not(Leaf(a))
ASSUME ParenNegCollapses

\* ---- quoting -------------------------------------------------------------------------------------
Chars == {"dq", "sq", "x"}
Literals == UNION { [1..n -> Chars] : n \in 0..3 }
Has(s, c) == \E i \in DOMAIN s : s[i] = c
Lexable(s) == ~(Has(s, "dq") /\ Has(s, "sq"))            \* what the tokenizer can produce
QuoteFor(s) == IF Has(s, "dq") THEN "sq" ELSE "dq"      \* appendLabelOpAndQuotedString / collectInOpFragments
QuoteSafe == \A s \in Literals : Lexable(s) => ~Has(s, QuoteFor(s))
ASSUME QuoteSafe
=============================================================================
