CONSTANTS
  Atoms = {"p", "q", "r"}
  MaxDepth = 2
  Tri = TRUE
INIT Init
NEXT Next
INVARIANTS RoundTrip Idempotent MeaningKept ParserNormal
CHECK_DEADLOCK FALSE
