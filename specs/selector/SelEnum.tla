------------------------------ MODULE SelEnum ------------------------------
(* Enumeration of selector ASTs (format of module Selectors) over a tiny vocabulary, shared by the
   behaviour generator Gen_Selector (C06, C07) and the design model I_Restr (C07):
     - every leaf (all, global, has, the five label/value operators, in / not in with every subset of
       the value vocabulary),
     - every AST of depth 2: !leaf, leaf && leaf, leaf || leaf  (all ordered pairs),
     - depth 3 over a reduced leaf set: !(l op l), (l op l) op l, l op (l op l), (!l) op l, 3-ary chains. *)
EXTENDS Naturals, Sequences

KeySeq == <<"a", "b">>
ValSeq == <<"x", "xy">>
SetSeq == << <<>>, <<"x">>, <<"xy">>, <<"x", "xy">> >>

RECURSIVE Flatten(_)
Flatten(ss) == IF ss = <<>> THEN <<>> ELSE Head(ss) \o Flatten(Tail(ss))

\* sequence of f[i, j] over the index ranges
Cross(n, m, F(_, _)) == [i \in 1..(n * m) |-> F(((i - 1) \div m) + 1, ((i - 1) % m) + 1)]

KV(op) == Cross(Len(KeySeq), Len(ValSeq), LAMBDA i, j : [op |-> op, k |-> KeySeq[i], v |-> ValSeq[j]])
KS(op) == Cross(Len(KeySeq), Len(SetSeq), LAMBDA i, j : [op |-> op, k |-> KeySeq[i], vs |-> SetSeq[j]])
HasSeq == [i \in 1..Len(KeySeq) |-> [op |-> "has", k |-> KeySeq[i]]]

Leaves == <<[op |-> "all"], [op |-> "global"]>> \o HasSeq
          \o KV("eq") \o KV("ne") \o KV("contains") \o KV("startswith") \o KV("endswith")
          \o KS("in") \o KS("notin")

Not(a) == [op |-> "not", a |-> a]
Bin(op, a, b) == [op |-> op, args |-> <<a, b>>]
Tri(op, a, b, c) == [op |-> op, args |-> <<a, b, c>>]

Nots(S) == [i \in 1..Len(S) |-> Not(S[i])]
Bins(op, S, T) == Cross(Len(S), Len(T), LAMBDA i, j : Bin(op, S[i], T[j]))

Depth2 == Nots(Leaves) \o Bins("and", Leaves, Leaves) \o Bins("or", Leaves, Leaves)

\* reduced leaf set for depth 3
L3 == << [op |-> "eq", k |-> "a", v |-> "x"], [op |-> "ne", k |-> "b", v |-> "x"], [op |-> "has", k |-> "a"],
         [op |-> "in", k |-> "b", vs |-> <<"x", "xy">>], [op |-> "startswith", k |-> "a", v |-> "x"],
         [op |-> "notin", k |-> "a", vs |-> <<"xy">>] >>
B3 == Bins("and", L3, L3) \o Bins("or", L3, L3)
Depth3Seq ==
    Nots(B3)
    \o Bins("and", B3, L3) \o Bins("or", B3, L3) \o Bins("and", L3, B3) \o Bins("or", L3, B3)
    \o Bins("and", Nots(L3), L3) \o Bins("or", L3, Nots(L3))
    \o Flatten([i \in 1..Len(L3) |-> Cross(Len(L3), Len(L3), LAMBDA j, m : Tri("and", L3[i], L3[j], L3[m]))])
    \o Flatten([i \in 1..Len(L3) |-> Cross(Len(L3), Len(L3), LAMBDA j, m : Tri("or", L3[i], L3[j], L3[m]))])


\* AND of a leaf over label k with an OR of eq / in leaves over the SAME label, the OR's values in both
\* orders (the restriction derivation must cope with value lists that are not sorted), OR first or last
OrEq(k, i, j) == Bin("or", [op |-> "eq", k |-> k, v |-> ValSeq[i]], [op |-> "eq", k |-> k, v |-> ValSeq[j]])
OrIn(k, i, j) == Bin("or", [op |-> "in", k |-> k, vs |-> <<ValSeq[i]>>], [op |-> "eq", k |-> k, v |-> ValSeq[j]])
SameLabelOrs(k) == Cross(Len(ValSeq), Len(ValSeq), LAMBDA i, j : OrEq(k, i, j)) \o Cross(Len(ValSeq), Len(ValSeq), LAMBDA i, j : OrIn(k, i, j))
SameLabelLeaves(k) == <<[op |-> "has", k |-> k]>> \o [i \in 1..Len(ValSeq) |-> [op |-> "eq", k |-> k, v |-> ValSeq[i]]]
                      \o [i \in 1..Len(SetSeq) |-> [op |-> "in", k |-> k, vs |-> SetSeq[i]]]
SameLabelSeq == Flatten([n \in 1..Len(KeySeq) |->
                    Bins("and", SameLabelLeaves(KeySeq[n]), SameLabelOrs(KeySeq[n]))
                    \o Bins("and", SameLabelOrs(KeySeq[n]), SameLabelLeaves(KeySeq[n]))])
=============================================================================
