CONSTANTS
  Chunk = 60
  Depth3 = TRUE
INIT GInit
NEXT GNext
CHECK_DEADLOCK FALSE
