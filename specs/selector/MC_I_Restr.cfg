CONSTANTS
  Depth3 = TRUE
INIT Init
NEXT Next
INVARIANTS SoundAll IndexSound
CHECK_DEADLOCK FALSE
