CONSTANTS
  Depth3 = FALSE
INIT Init
NEXT Next
INVARIANTS SoundAll IndexSound
CHECK_DEADLOCK FALSE
