CONSTANTS
  Atoms = {"p", "q"}
  MaxDepth = 2
  Tri = FALSE
INIT Init
NEXT Next
INVARIANTS RoundTrip Idempotent MeaningKept ParserNormal
CHECK_DEADLOCK FALSE
