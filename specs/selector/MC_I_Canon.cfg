CONSTANTS
  Atoms = {"p", "q"}
  MaxDepth = 2
INIT Init
NEXT Next
INVARIANTS RoundTrip Idempotent MeaningKept ParserNormal
CHECK_DEADLOCK FALSE
