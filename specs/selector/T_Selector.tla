---------------------------- MODULE T_Selector ----------------------------
(* Trace specification for C06.  A trace is: reset (vocabulary, label-value character table, the
   exhaustive list of label maps) followed by one "expr" record per expression.                  *)
EXTENDS TraceLib, SelectorRT

VARIABLES keys, vals, maps, ct0
vars == <<keys, vals, maps, ct0>>

TInit == l = 1 /\ keys = {} /\ vals = {} /\ maps = <<>> /\ ct0 = <<>>

TReset ==
    /\ IsEvent("reset")
    /\ keys' = SeqToSet(Cur.keys) /\ vals' = SeqToSet(Cur.vals)
    /\ maps' = Cur.maps /\ ct0' = Cur.ct
    /\ MapsExhaustive(Cur.maps, SeqToSet(Cur.keys), SeqToSet(Cur.vals))

\* the character table of the expression's own strings, merged over the table of the vocabulary
TExpr ==
    /\ IsEvent("expr")
    /\ Accept(Cur, maps, IF Has(Cur, "ct") THEN Cur.ct @@ ct0 ELSE ct0)
    /\ UNCHANGED vars

TNext == TReset \/ TExpr
TSpec == TInit /\ [][TNext]_<<vars, l>>
=============================================================================
