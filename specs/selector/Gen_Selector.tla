---------------------------- MODULE Gen_Selector ----------------------------
(* Behaviour generator for C06/C07 (leg A): prints the ASTs of module SelEnum in chunks, one `BEH` line
   per chunk.  The driver renders each AST to text in several spellings and feeds it to the real parser. *)
EXTENDS SelEnum, TLC, Json

CONSTANTS Chunk, Depth3         \* ASTs per behaviour; include the depth-3 families

All == Leaves \o Depth2 \o (IF Depth3 THEN Depth3Seq ELSE <<>>)
\* NB: the sequence is bound once by a LET (TLC memoises LET-bound values); referring to `All` inside
\* the loops would rebuild the whole sequence at every use.
\* every chunk also carries Extra trees of the same-label AND/OR family (round robin), so that whatever
\* chunks the quick tier samples, that family is represented
Extra == 4
ChunkOf(A, S, c) ==
    LET lo == (c - 1) * Chunk + 1
        hi == IF c * Chunk < Len(A) THEN c * Chunk ELSE Len(A)
    IN [j \in 1..(hi - lo + 1) |-> [op |-> "ast", ast |-> A[lo + j - 1]]]
       \o [j \in 1..Extra |-> [op |-> "ast", ast |-> S[(((c - 1) * Extra + j - 1) % Len(S)) + 1]]]

ASSUME PrintT(<<"GEN_ASTS", Len(Leaves), Len(Depth2), IF Depth3 THEN Len(Depth3Seq) ELSE 0>>)
ASSUME LET A == All
           S == SameLabelSeq
           nch == (Len(A) + Chunk - 1) \div Chunk
       IN \A c \in 1..nch : PrintT("BEH " \o ToJson(ChunkOf(A, S, c)))

VARIABLE done
GInit == done = FALSE
GNext == done' = TRUE
=============================================================================
