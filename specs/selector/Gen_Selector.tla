---------------------------- MODULE Gen_Selector ----------------------------
(* Behaviour generator for C06/C07 (leg A): prints the ASTs of module SelEnum in chunks, one `BEH` line
   per chunk.  The driver renders each AST to text in several spellings and feeds it to the real parser. *)
EXTENDS SelEnum, TLC, Json

CONSTANTS Chunk, Depth3         \* ASTs per behaviour; include the depth-3 families

All == Leaves \o Depth2 \o (IF Depth3 THEN Depth3Seq ELSE <<>>)
NChunks == (Len(All) + Chunk - 1) \div Chunk
ChunkOf(c) == LET lo == (c - 1) * Chunk + 1
                  hi == IF c * Chunk < Len(All) THEN c * Chunk ELSE Len(All)
              IN [j \in 1..(hi - lo + 1) |-> [op |-> "ast", ast |-> All[lo + j - 1]]]

ASSUME PrintT(<<"GEN_ASTS", Len(Leaves), Len(Depth2), IF Depth3 THEN Len(Depth3Seq) ELSE 0, Len(All)>>)
ASSUME \A c \in 1..NChunks : PrintT("BEH " \o ToJson(ChunkOf(c)))

VARIABLE done
GInit == done = FALSE
GNext == done' = TRUE
=============================================================================
