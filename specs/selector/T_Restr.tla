------------------------------ MODULE T_Restr ------------------------------
(* Trace specification for the restriction-soundness leg of C07: the "expr" records of the selector
   driver (run with VERIF_RESTR=1) carry, for every accepted expression, the syntactic export of the
   node tree and of Selector.LabelRestrictions().  The summary must be Sound for ALL label maps of the
   trace's vocabulary (TLC enumerates them: AllMaps(keys, vals)).                                    *)
EXTENDS TraceLib, Restrictions

VARIABLES keys, vals, ct0
vars == <<keys, vals, ct0>>
TInit == l = 1 /\ keys = {} /\ vals = {} /\ ct0 = <<>>

TReset == IsEvent("reset") /\ keys' = SeqToSet(Cur.keys) /\ vals' = SeqToSet(Cur.vals) /\ ct0' = Cur.ct
TExpr ==
    /\ IsEvent("expr")
    /\ Cur.parse_ok => Sound(Cur.ast, Cur.restr, AllMaps(keys, vals), Cur.ct @@ ct0)
    /\ UNCHANGED vars
TNext == TReset \/ TExpr
=============================================================================
