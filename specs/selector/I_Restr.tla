------------------------------ MODULE I_Restr ------------------------------
(* C07 implementation layer for the label-restriction summaries: the derivation rules of
   libcalico-go/lib/selector/parser/ast.go (the LabelRestrictions methods of every node type,
   AndNode's merge, OrNode's merge, NotNode's special case for !has()), transcribed.

   TLC checks, for EVERY tree of module SelEnum (all leaves, all depth-2 trees, the depth-3 families)
   and ALL label maps over the vocabulary, that the derived summary never excludes a label map the
   selector matches (invariant SoundAll), and - for the way labelrestrictionindex uses it - that indexing
   the selector under its most restricted label alone still finds it for every matching label map
   (invariant IndexSound).                                                                          *)
EXTENDS SelEnum, Restrictions, TLC

CONSTANT Depth3

All == Leaves \o SameLabelSeq \o Depth2 \o (IF Depth3 THEN Depth3Seq ELSE <<>>)
Keys == { KeySeq[i] : i \in DOMAIN KeySeq }
Vals == { ValSeq[i] : i \in DOMAIN ValSeq }
CTab == [x |-> <<"x">>, xy |-> <<"x", "y">>]
Maps == AllMaps(Keys, Vals)

\* a restriction in the model: values as a set; `hasvals` distinguishes nil from the empty slice
R(p, a, h, vs) == [present |-> p, absent |-> a, hasvals |-> h, vals |-> vs]
Zero == R(FALSE, FALSE, FALSE, {})
One(k, r) == [x \in {k} |-> r]
None == <<>>                                  \* nil map
Get(m, k) == IF k \in DOMAIN m THEN m[k] ELSE Zero
SetOf(s) == { s[i] : i \in DOMAIN s }

\* AndNode: fold the operands' maps into lr
AndMerge(lr, op) ==
    [k \in DOMAIN lr \cup DOMAIN op |->
        IF k \notin DOMAIN op THEN lr[k]
        ELSE LET b == Get(lr, k)
                 r == op[k]
             IN R(b.present \/ r.present, b.absent \/ r.absent,
                  b.hasvals \/ r.hasvals,
                  IF ~b.hasvals THEN r.vals ELSE IF r.hasvals THEN b.vals \cap r.vals ELSE b.vals)]
\* OrNode: only labels of the accumulated map survive, and only if still useful
OrMerge(lr, op) ==
    LET merged(k) ==
            LET r == lr[k]
                o == Get(op, k)
                p == r.present /\ o.present
                h == p /\ r.hasvals /\ o.hasvals
            IN R(p, r.absent /\ o.absent, h, IF h THEN r.vals \cup o.vals ELSE {})
        keep == { k \in DOMAIN lr : merged(k).present \/ merged(k).absent }
    IN [k \in keep |-> merged(k)]

RECURSIVE LR(_)
RECURSIVE FoldAnd(_, _, _)
RECURSIVE FoldOr(_, _, _)
FoldAnd(args, i, acc) == IF i > Len(args) THEN acc ELSE FoldAnd(args, i + 1, AndMerge(acc, LR(args[i])))
FoldOr(args, i, acc) == IF i > Len(args) THEN acc ELSE FoldOr(args, i + 1, OrMerge(acc, LR(args[i])))
LR(n) ==
    CASE n.op = "eq" -> One(n.k, R(TRUE, FALSE, TRUE, {n.v}))
      [] n.op = "in" -> One(n.k, R(TRUE, FALSE, n.vs # <<>>, SetOf(n.vs)))      \* `a in {}`: nil slice
      [] n.op \in {"has", "contains", "startswith", "endswith"} -> One(n.k, R(TRUE, FALSE, FALSE, {}))
      [] n.op \in {"ne", "notin", "all", "global"} -> None
      [] n.op = "not" -> IF n.a.op = "has" THEN One(n.a.k, R(FALSE, TRUE, FALSE, {})) ELSE None
      [] n.op = "and" -> FoldAnd(n.args, 1, None)
      [] n.op = "or"  -> FoldOr(n.args, 2, LR(n.args[1]))

\* ---- meaning of the model's restrictions (values as a set) ---------------------------------------
SatOne(L, k, r) ==
    /\ r.present => k \in DOMAIN L
    /\ r.absent => k \notin DOMAIN L
    /\ r.hasvals => (k \in DOMAIN L /\ L[k] \in r.vals)
Sat(L, m) == \A k \in DOMAIN m : SatOne(L, k, m[k])

\* labelrestrictionindex: the selector is filed under ONE label (the most restricted one); possible(r) as
\* in PossibleToSatisfy; a selector whose chosen restriction is impossible is not filed at all, one with
\* values is filed under each value, one with only `present` under the wildcard, anything else is
\* "unoptimized" (always a candidate).
Possible(r) == ~(r.present /\ r.absent) /\ ~(r.hasvals /\ r.vals = {})
FoundVia(L, k, r) ==
    IF ~Possible(r) THEN FALSE
    ELSE IF r.hasvals THEN k \in DOMAIN L /\ L[k] \in r.vals
    ELSE IF r.present THEN k \in DOMAIN L
    ELSE TRUE

\* one initial state per tree (the sequence is bound once by the LET: TLC memoises LET-bound values,
\* whereas every reference to `All` would rebuild the whole sequence)
VARIABLE ast
Init == LET A == All IN \E i \in DOMAIN A : ast = A[i]
Next == ast' = ast

SoundAll == LET m == LR(ast) IN \A L \in Maps : Eval(ast, L, CTab) => Sat(L, m)
IndexSound == LET m == LR(ast) IN \A L \in Maps : Eval(ast, L, CTab) => \A k \in DOMAIN m : FoundVia(L, k, m[k])
=============================================================================
