---------------------------- MODULE Gen_CalcEnv ----------------------------
(* Behaviour generator (leg A) for the calculation-graph checks: module CalcEnv's environment actions plus Flush,
   with a history variable.  Keys and values are abstract ("k1".., 1..n); the driver binds them to catalogue keys
   and variants (seeded), so one behaviour is replayed against many concrete resources.
     Gen_cover*.cfg : VIEW hides hist; ACTION_CONSTRAINT prints, for every transition of the environment's state
                      graph, the BFS path to it plus the transition
     Gen_sim.cfg    : -simulate walks of SimLen steps
   The driver completes every behaviour with the catch-up suffix (deliver the truth for every key still behind,
   in-sync, flush), which is CatchUp .. FinalFlush of the environment; "write" records carry the truth for that.   *)
EXTENDS CalcEnv, Json

CONSTANT SimLen
VARIABLES hist, sinceFlush
gvars == <<truth, delivered, seen, insync, phase, writes, hist, sinceFlush>>

GInit == EnvInit /\ hist = <<>> /\ sinceFlush = FALSE
Step(a, r) == a /\ hist' = Append(hist, r)
Dlv(k, why) == [op |-> "deliver", k |-> k, v |-> delivered'[k], why |-> why]

Flush == /\ phase = "run" /\ sinceFlush /\ UNCHANGED envVars

GNext ==
  \/ /\ Len(hist) = SimLen /\ hist' = Append(hist, [op |-> "end"]) /\ UNCHANGED envVars /\ UNCHANGED sinceFlush
  \/ /\ Len(hist) < SimLen
     /\ \/ \E k \in Keys, v \in Vals \cup {Nil} : Step(Write(k, v), [op |-> "write", k |-> k, v |-> v]) /\ UNCHANGED sinceFlush
        \/ \E k \in Keys : Step(Deliver(k) /\ phase = "run", Dlv(k, "deliver")) /\ sinceFlush' = TRUE
        \/ \E k \in Keys, v \in Vals \cup {Nil} : Step(DeliverStale(k, v), Dlv(k, "stale")) /\ sinceFlush' = TRUE
        \/ \E k \in Keys : Step(DeliverDup(k), Dlv(k, "dup")) /\ sinceFlush' = TRUE
        \/ \E k \in Keys : Step(SpuriousDelete(k), Dlv(k, "spurious-delete")) /\ sinceFlush' = TRUE
        \/ Step(InSync /\ phase = "run", [op |-> "status", s |-> "in-sync"]) /\ sinceFlush' = TRUE
        \/ Step(Flush, [op |-> "flush"]) /\ sinceFlush' = FALSE

GView == <<truth, delivered, seen, insync, sinceFlush>>
EmitEdge == PrintT("BEH " \o ToJson(hist'))
EmitAtLen == Len(hist) = SimLen + 1 => PrintT("BEH " \o ToJson(hist))
=============================================================================
