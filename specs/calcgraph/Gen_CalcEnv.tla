---------------------------- MODULE Gen_CalcEnv ----------------------------
(* Behaviour generator (leg A) for the calculation-graph checks: module CalcEnv's environment actions plus Flush,
   with a history variable.  Keys and values are abstract ("k1".., 1..n); the driver binds them to catalogue keys
   and variants (seeded), so one behaviour is replayed against many concrete resources.
     Gen_cover*.cfg : VIEW hides hist; ACTION_CONSTRAINT prints, for every transition of the environment's state
                      graph, the BFS path to it plus the transition
     Gen_sim.cfg    : -simulate walks of SimLen steps
     Gen_win.cfg    : -simulate walks in which every flush window holds 2-4 deliveries (MinWin/MaxWin) over 3 keys that
                      the driver binds to a *group* of related catalogue keys (object, activity key, ...): "sent, then
                      edited and deactivated in one window", "removal flushed, later activated and deactivated in one window"
   The driver completes every behaviour with the catch-up suffix (deliver the truth for every key still behind,
   in-sync, flush), which is CatchUp .. FinalFlush of the environment; "write" records carry the truth for that.   *)
EXTENDS CalcEnv, Json

CONSTANTS SimLen,
          MinWin,     \* a flush is only taken after at least MinWin deliveries / status changes since the last one
          MaxWin      \* 0 = unbounded; otherwise at most MaxWin of them (then only Flush or Write is possible)
VARIABLES hist, sinceFlush      \* sinceFlush: number of deliveries since the last flush, capped
gvars == <<truth, delivered, seen, insync, phase, writes, hist, sinceFlush>>

Cap == IF MaxWin > MinWin THEN MaxWin ELSE MinWin
Bump == sinceFlush' = IF sinceFlush < Cap THEN sinceFlush + 1 ELSE sinceFlush
Room == MaxWin = 0 \/ sinceFlush < MaxWin
GInit == EnvInit /\ hist = <<>> /\ sinceFlush = 0
Step(a, r) == a /\ hist' = Append(hist, r)
Dlv(k, why) == [op |-> "deliver", k |-> k, v |-> delivered'[k], why |-> why]

Flush == /\ phase = "run" /\ sinceFlush >= MinWin /\ UNCHANGED envVars

GNext ==
  \/ /\ Len(hist) = SimLen /\ hist' = Append(hist, [op |-> "end"]) /\ UNCHANGED envVars /\ UNCHANGED sinceFlush
  \/ /\ Len(hist) < SimLen
     /\ \/ \E k \in Keys, v \in Vals \cup {Nil} : Step(Write(k, v), [op |-> "write", k |-> k, v |-> v]) /\ UNCHANGED sinceFlush
        \/ Room /\ \E k \in Keys : Step(Deliver(k) /\ phase = "run", Dlv(k, "deliver")) /\ Bump
        \/ Room /\ \E k \in Keys, v \in Vals \cup {Nil} : Step(DeliverStale(k, v), Dlv(k, "stale")) /\ Bump
        \/ Room /\ \E k \in Keys : Step(DeliverDup(k), Dlv(k, "dup")) /\ Bump
        \/ Room /\ \E k \in Keys : Step(SpuriousDelete(k), Dlv(k, "spurious-delete")) /\ Bump
        \/ Step(InSync /\ phase = "run", [op |-> "status", s |-> "in-sync"]) /\ Bump
        \/ Step(Flush, [op |-> "flush"]) /\ sinceFlush' = 0

GView == <<truth, delivered, seen, insync, sinceFlush>>
EmitEdge == PrintT("BEH " \o ToJson(hist'))
EmitAtLen == Len(hist) = SimLen + 1 => PrintT("BEH " \o ToJson(hist))
=============================================================================
