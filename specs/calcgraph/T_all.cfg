CONSTANT Checks = {"c02", "fresh", "c03", "c04", "c05", "c43"}
INIT TInit
NEXT TNext
CONSTRAINT HWMConstraint
POSTCONDITION TraceAcceptedHWM
CHECK_DEADLOCK FALSE
