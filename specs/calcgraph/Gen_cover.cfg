CONSTANTS
  Keys = {"k1", "k2"}
  Vals = {1, 2}
  MaxWrites = 3
  MinWin = 1
  MaxWin = 0
  SimLen = 100
INIT GInit
NEXT GNext
VIEW GView
ACTION_CONSTRAINT EmitEdge
CHECK_DEADLOCK FALSE
