CONSTANTS
  Keys = {"k1", "k2", "k3", "k4", "k5"}
  Vals = {1, 2, 3}
  MaxWrites = 1000
  MinWin = 1
  MaxWin = 0
  SimLen = 40
INIT GInit
NEXT GNext
INVARIANT EmitAtLen
CHECK_DEADLOCK FALSE
