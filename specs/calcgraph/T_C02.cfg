CONSTANT Checks = {"c02"}
INIT TInit
NEXT TNext
CONSTRAINT HWMConstraint
POSTCONDITION TraceAcceptedHWM
CHECK_DEADLOCK FALSE
