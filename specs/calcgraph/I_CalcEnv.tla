----------------------------- MODULE I_CalcEnv -----------------------------
(* Implementation layer / environment for the calculation-graph checks.

   Environment: module CalcEnv (Write / Deliver / DeliverStale / DeliverDup / SpuriousDelete / InSync / CatchUp),
   plus Flush at arbitrary points and a final flush after catch-up.

   Design: a cut-down calculation graph (one endpoint, one policy that may reference one IP set with up to two
   members, one tunnel endpoint, one route that needs it) whose output is a function of `delivered`, feeding a
   transcription of felix/calc/event_sequencer.go (pending* / sent* state, the Flush() phase order).  TLC checks,
   for all delivery histories and flush points, that the message stream satisfies the property layer P_Calc:
   C02 after every single message, C01 (dp = the state computed from `delivered` alone) at the final flush.     *)
EXTENDS CalcEnv

VARIABLES g,           \* what the graph last told the sequencer (its output for the previous `delivered`)
          sq,          \* EventSequencer: pending* and sent*
          epDirty,     \* PolicyResolver.dirtyEndpoints
          outq, dp, win
vars == <<truth, delivered, seen, insync, phase, writes, g, sq, epDirty, outq, dp, win>>

P == INSTANCE P_Calc

\* ---------------------------------------------------------------------------------------------
\* the cut-down calculation graph: output as a function of the delivered state
\* ---------------------------------------------------------------------------------------------
Get(dl, k) == IF k \in Keys THEN dl[k] ELSE Nil
M(v) == [a |-> <<10, 0, 0, v>>, n |-> 32, proto |-> "", port |-> 0]
MJ(v) == [s |-> "m", a |-> <<10, 0, 0, v>>, n |-> 32, proto |-> "", port |-> 0]
Out(dl) ==
    LET ep == Get(dl, "ep")  pol == Get(dl, "pol")  mem == Get(dl, "mem")  node == Get(dl, "node")  blk == Get(dl, "blk")
        polActive == ep # Nil /\ pol # Nil /\ (pol = 1 \/ ep = 1)       \* policy 1 selects every endpoint, 2 only variant 1
        setActive == polActive /\ pol = 1                               \* only policy variant 1 has a rule selector
    IN [ep |-> ep, pol |-> IF polActive THEN pol ELSE Nil, set |-> setActive,
        mems |-> IF setActive /\ mem # Nil THEN {mem} ELSE {}, vtep |-> node, route |-> blk]
NoOut == Out([k \in Keys |-> Nil])

Rule(refs) == [action |-> "allow", nmatch |-> Len(refs), proto |-> "", src |-> refs, dst |-> <<>>, nsrc |-> <<>>, ndst |-> <<>>,
               srcnp |-> <<>>, dstnp |-> <<>>, nsrcnp |-> <<>>, ndstnp |-> <<>>, dstipport |-> <<>>, srcnum |-> FALSE, dstnum |-> FALSE]
PolBody(v) == [tier |-> "default", untracked |-> FALSE, prednat |-> FALSE, raw |-> "",
               inr |-> <<Rule(IF v = 1 THEN <<"S">> ELSE <<>>)>>, outr |-> <<>>]
EpBody(epv, polv) == [profiles |-> <<>>, utiers |-> <<>>, ptiers |-> <<>>, ftiers |-> <<>>, raw |-> IF epv = 1 THEN "e1" ELSE "e2",
                      tiers |-> IF polv = Nil THEN <<>> ELSE <<[name |-> "default", da |-> "", ing |-> <<"P">>, eg |-> <<>>]>>]
VtepBody(v) == [ipv4 |-> "t", parent |-> "p", mac |-> "m", raw |-> IF v = 1 THEN "v1" ELSE "v2"]
RouteBody(v) == [dst |-> [a |-> <<10, 0, 1, 0>>, n |-> 29], types |-> <<"REMOTE_WORKLOAD">>, pool |-> "VXLAN", node |-> "N", nodeIp |-> "",
                 sameSubnet |-> FALSE, nat |-> FALSE, localWorkload |-> FALSE, borrowed |-> FALSE,
                 tunnel |-> [ipip |-> FALSE, vxlan |-> FALSE, wireguard |-> FALSE], raw |-> IF v = 1 THEN "r1" ELSE "r2"]
Msg(kind, id, body) == [kind |-> kind, id |-> id, body |-> body]
NoBody == [raw |-> ""]

\* C01: what the dataplane must hold once `delivered` has been flushed in sync
WantDP(dl) ==
    LET o == Out(dl) IN
    [P!EmptyDP EXCEPT
        !.ipsets = IF o.set THEN "S" :> [typ |-> "net", members |-> { M(v) : v \in o.mems }] ELSE <<>>,
        !.policies = IF o.pol # Nil THEN "P" :> PolBody(o.pol) ELSE <<>>,
        !.weps = IF o.ep # Nil THEN "E" :> EpBody(o.ep, o.pol) ELSE <<>>,
        !.vteps = IF o.vtep # Nil THEN "N" :> VtepBody(o.vtep) ELSE <<>>,
        !.routes = IF o.route # Nil THEN "R" :> RouteBody(o.route) ELSE <<>>]

\* ---------------------------------------------------------------------------------------------
\* EventSequencer (felix/calc/event_sequencer.go), one field per pending*/sent* member that matters here
\* ---------------------------------------------------------------------------------------------
SqInit == [pSetAdd |-> FALSE, pSetDel |-> FALSE, pMemAdd |-> {}, pMemDel |-> {},
           pPol |-> Nil, pPolDel |-> FALSE, pEp |-> <<>>, pEpDel |-> FALSE,
           pVtep |-> Nil, pVtepDel |-> FALSE, pRoute |-> Nil, pRouteDel |-> FALSE,
           sSet |-> FALSE, sPol |-> FALSE, sEp |-> FALSE, sVtep |-> FALSE, sRoute |-> FALSE]

OnIPSetAdded(s) == [s EXCEPT !.pSetAdd = TRUE, !.pSetDel = FALSE, !.pMemAdd = {}, !.pMemDel = {}]
OnIPSetRemoved(s) == [s EXCEPT !.pSetDel = s.sSet, !.pSetAdd = FALSE, !.pMemAdd = {}, !.pMemDel = {}]
OnMemberAdded(s, m) == IF m \in s.pMemDel THEN [s EXCEPT !.pMemDel = @ \ {m}] ELSE [s EXCEPT !.pMemAdd = @ \cup {m}]
OnMemberRemoved(s, m) == IF m \in s.pMemAdd THEN [s EXCEPT !.pMemAdd = @ \ {m}] ELSE [s EXCEPT !.pMemDel = @ \cup {m}]
OnPolicyActive(s, v) == [s EXCEPT !.pPolDel = FALSE, !.pPol = v]
OnPolicyInactive(s) == [s EXCEPT !.pPol = Nil, !.pPolDel = s.sPol]
OnEndpointUpdate(s, body) == [s EXCEPT !.pEpDel = FALSE, !.pEp = <<body>>]
OnEndpointDelete(s) == [s EXCEPT !.pEp = <<>>, !.pEpDel = s.sEp]
OnVTEPUpdate(s, v) == [s EXCEPT !.pVtepDel = FALSE, !.pVtep = v]
OnVTEPRemove(s) == [s EXCEPT !.pVtep = Nil, !.pVtepDel = s.sVtep]
OnRouteUpdate(s, v) == [s EXCEPT !.pRouteDel = FALSE, !.pRoute = v]
OnRouteRemove(s) == [s EXCEPT !.pRoute = Nil, !.pRouteDel = s.sRoute]

RECURSIVE AddAll(_, _), RemoveAll(_, _), SetToSeqM(_)
AddAll(s, S) == IF S = {} THEN s ELSE LET x == CHOOSE y \in S : TRUE IN AddAll(OnMemberAdded(s, x), S \ {x})
RemoveAll(s, S) == IF S = {} THEN s ELSE LET x == CHOOSE y \in S : TRUE IN RemoveAll(OnMemberRemoved(s, x), S \ {x})
SetToSeqM(S) == IF S = {} THEN <<>> ELSE LET x == CHOOSE y \in S : TRUE IN <<MJ(x)>> \o SetToSeqM(S \ {x})

\* the graph's callbacks when its output moves from o to n, in the order the real nodes call them
\* (rule scanner: new IP sets, then dropped IP sets, then the policy callback; index: member deltas;
\*  active rules calculator: inactive policies after the endpoint match stopped)
Callbacks(s, o, n) ==
    LET s1 == IF n.set /\ ~o.set THEN AddAll(OnIPSetAdded(s), n.mems) ELSE s
        s2 == IF o.set /\ ~n.set THEN OnIPSetRemoved(s1) ELSE s1
        s3 == IF n.pol # Nil /\ n.pol # o.pol THEN OnPolicyActive(s2, n.pol) ELSE s2
        s4 == IF n.set /\ o.set THEN RemoveAll(AddAll(s3, n.mems \ o.mems), o.mems \ n.mems) ELSE s3
        s5 == IF n.pol = Nil /\ o.pol # Nil THEN OnPolicyInactive(s4) ELSE s4
        \* VXLANResolver.sendVTEPUpdateOrRemove: a changed VTEP is removed and re-added
        s6 == IF n.vtep = o.vtep THEN s5
              ELSE IF n.vtep = Nil THEN OnVTEPRemove(s5)
              ELSE IF o.vtep = Nil THEN OnVTEPUpdate(s5, n.vtep) ELSE OnVTEPUpdate(OnVTEPRemove(s5), n.vtep)
        s7 == IF n.route = o.route THEN s6 ELSE IF n.route = Nil THEN OnRouteRemove(s6) ELSE OnRouteUpdate(s6, n.route)
    IN s7

\* Flush(): the messages of one flush, in the phase order of the code, and the sequencer state afterwards
FlushMsgs(s) ==
    (IF s.pSetAdd THEN <<Msg("ipset_update", "S", [typ |-> "net", n |-> Cardinality(s.pMemAdd), members |-> SetToSeqM(s.pMemAdd)])>> ELSE <<>>)
    \o (IF ~s.pSetAdd /\ (s.pMemAdd # {} \/ s.pMemDel # {})
          THEN <<Msg("ipset_delta", "S", [added |-> SetToSeqM(s.pMemAdd), removed |-> SetToSeqM(s.pMemDel),
                                          nadded |-> Cardinality(s.pMemAdd), nremoved |-> Cardinality(s.pMemDel)])>> ELSE <<>>)
    \o (IF s.pPol # Nil THEN <<Msg("policy_update", "P", PolBody(s.pPol))>> ELSE <<>>)
    \o (IF s.pEp # <<>> THEN <<Msg("wep_update", "E", s.pEp[1])>> ELSE <<>>)
    \o (IF s.pEpDel THEN <<Msg("wep_remove", "E", NoBody)>> ELSE <<>>)
    \o (IF s.pPolDel THEN <<Msg("policy_remove", "P", NoBody)>> ELSE <<>>)
    \o (IF s.pSetDel THEN <<Msg("ipset_remove", "S", NoBody)>> ELSE <<>>)
    \o (IF s.pRouteDel THEN <<Msg("route_remove", "R", NoBody)>> ELSE <<>>)
    \o (IF s.pVtepDel THEN <<Msg("vtep_remove", "N", NoBody)>> ELSE <<>>)
    \o (IF s.pVtep # Nil THEN <<Msg("vtep_update", "N", VtepBody(s.pVtep))>> ELSE <<>>)
    \o (IF s.pRoute # Nil THEN <<Msg("route_update", "R", RouteBody(s.pRoute))>> ELSE <<>>)
AfterFlush(s) ==
    [s EXCEPT !.sSet = (s.sSet \/ s.pSetAdd) /\ ~s.pSetDel, !.sPol = (s.sPol \/ s.pPol # Nil) /\ ~s.pPolDel,
              !.sEp = (s.sEp \/ s.pEp # <<>>) /\ ~s.pEpDel, !.sVtep = (s.sVtep \/ s.pVtep # Nil) /\ ~s.pVtepDel,
              !.sRoute = (s.sRoute \/ s.pRoute # Nil) /\ ~s.pRouteDel,
              !.pSetAdd = FALSE, !.pSetDel = FALSE, !.pMemAdd = {}, !.pMemDel = {}, !.pPol = Nil, !.pPolDel = FALSE,
              !.pEp = <<>>, !.pEpDel = FALSE, !.pVtep = Nil, !.pVtepDel = FALSE, !.pRoute = Nil, !.pRouteDel = FALSE]

\* ---------------------------------------------------------------------------------------------
\* composition
\* ---------------------------------------------------------------------------------------------
Init == /\ EnvInit /\ g = NoOut /\ sq = SqInit /\ epDirty = FALSE /\ outq = <<>> /\ dp = P!EmptyDP /\ win = P!EmptyWin

\* one OnUpdates call: the graph recomputes its output and calls the sequencer
Graph == LET n == Out(delivered') IN
         /\ g' = n /\ sq' = Callbacks(sq, g, n)
         /\ epDirty' = (epDirty \/ n.ep # g.ep \/ n.pol # g.pol)
         /\ UNCHANGED <<outq, dp, win>>
Idle == outq = <<>>

\* CalcGraph.Flush (PolicyResolver: endpoints only once in sync) followed by EventSequencer.Flush
DoFlush(final) ==
    /\ Idle /\ (IF final THEN phase = "catchup" /\ CaughtUp ELSE phase = "run")
    /\ LET s1 == IF insync /\ epDirty
                   THEN (IF g.ep = Nil THEN OnEndpointDelete(sq) ELSE OnEndpointUpdate(sq, EpBody(g.ep, g.pol))) ELSE sq
       IN /\ outq' = FlushMsgs(s1) \o <<Msg("flushed", "", NoBody)>> /\ sq' = AfterFlush(s1)
          /\ epDirty' = (epDirty /\ ~insync)
    /\ phase' = IF final THEN "done" ELSE phase
    /\ UNCHANGED <<truth, delivered, seen, insync, writes, g, dp, win>>

EmitOne ==
    /\ outq # <<>>
    /\ LET m == Head(outq) IN
       IF m.kind = "flushed" THEN win' = P!EmptyWin /\ dp' = dp
       ELSE dp' = P!Apply(dp, m) /\ win' = P!WinNext(win, m)
    /\ outq' = Tail(outq)
    /\ UNCHANGED <<truth, delivered, seen, insync, phase, writes, g, sq, epDirty>>

WriteStep == \E k \in Keys, v \in Vals \cup {Nil} : Write(k, v) /\ Idle /\ UNCHANGED <<g, sq, epDirty, outq, dp, win>>
DeliverStep == \E k \in Keys : Deliver(k) /\ Idle /\ Graph
StaleStep == \E k \in Keys, v \in Vals \cup {Nil} : DeliverStale(k, v) /\ Idle /\ Graph
DupStep == \E k \in Keys : DeliverDup(k) /\ Idle /\ Graph
SpuriousStep == \E k \in Keys : SpuriousDelete(k) /\ Idle /\ Graph
InSyncStep == InSync /\ Idle /\ UNCHANGED <<g, sq, epDirty, outq, dp, win>>
CatchUpStep == CatchUp /\ Idle /\ UNCHANGED <<g, sq, epDirty, outq, dp, win>>
FlushStep == DoFlush(FALSE)
FinalFlushStep == DoFlush(TRUE)

Next == WriteStep \/ DeliverStep \/ StaleStep \/ DupStep \/ SpuriousStep \/ InSyncStep \/ CatchUpStep
        \/ FlushStep \/ FinalFlushStep \/ EmitOne
Spec == Init /\ [][Next]_vars

\* ---------------------------------------------------------------------------------------------
\* I_CalcEnv => P_Calc
\* ---------------------------------------------------------------------------------------------
C02_RefIntegrity == P!RefBad(dp) = ""
C02_EmitSound == (outq # <<>> /\ Head(outq).kind # "flushed") =>
                     /\ P!EmitBad(dp, Head(outq), insync) = ""
                     /\ P!WinBad(dp, win, Head(outq)) = ""
C01_Converged == (phase = "done" /\ outq = <<>>) => dp = WantDP(delivered)
Quiescent == (phase = "done" /\ outq = <<>>) => (sq = [SqInit EXCEPT !.sSet = sq.sSet, !.sPol = sq.sPol, !.sEp = sq.sEp, !.sVtep = sq.sVtep, !.sRoute = sq.sRoute])
=============================================================================
