CONSTANTS
  Keys = {"k1", "k2", "k3"}
  Vals = {1, 2, 3}
  MaxWrites = 1000
  MinWin = 2
  MaxWin = 4
  SimLen = 60
INIT GInit
NEXT GNext
INVARIANT EmitAtLen
CHECK_DEADLOCK FALSE
