CONSTANTS
  Keys = {"ep", "pol", "mem", "node", "blk"}
  Vals = {1, 2}
  MaxWrites = 4
INIT Init
NEXT Next
INVARIANTS C02_RefIntegrity C02_EmitSound C01_Converged Quiescent
CHECK_DEADLOCK FALSE
