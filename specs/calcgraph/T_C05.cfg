CONSTANT Checks = {"c05"}
INIT TInit
NEXT TNext
CONSTRAINT HWMConstraint
POSTCONDITION TraceAcceptedHWM
CHECK_DEADLOCK FALSE
