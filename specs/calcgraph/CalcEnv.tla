------------------------------ MODULE CalcEnv ------------------------------
(* The environment of the calculation graph = the syncer contract of felix/design/calc-graph.md.
   `truth` is the datastore, `delivered` the last value Felix was told per key.  Write / Deliver / DeliverStale
   (an older value: reversion) / DeliverDup / SpuriousDelete / InSync in any order, then CatchUp (deliver the truth
   for every key still behind, in any order) and in-sync.  Shared by I_CalcEnv (design leg) and Gen_CalcEnv
   (behaviour generator).                                                                                        *)
EXTENDS Integers, Sequences, FiniteSets, TLC

CONSTANTS Keys,        \* abstract keys; the design model interprets "ep" "pol" "mem" "node" "blk"
          Vals,        \* non-nil values, 1..n
          MaxWrites    \* bound on datastore writes
Nil == 0

VARIABLES truth, delivered, seen, insync, phase, writes
envVars == <<truth, delivered, seen, insync, phase, writes>>

EnvInit == /\ truth = [k \in Keys |-> Nil] /\ delivered = [k \in Keys |-> Nil] /\ seen = [k \in Keys |-> {Nil}]
           /\ insync = FALSE /\ phase = "run" /\ writes = 0

Write(k, v) == /\ phase = "run" /\ writes < MaxWrites /\ truth[k] # v
               /\ truth' = [truth EXCEPT ![k] = v] /\ seen' = [seen EXCEPT ![k] = @ \cup {v}] /\ writes' = writes + 1
               /\ UNCHANGED <<delivered, insync, phase>>
\* every delivery is one call of OnUpdates with (k, v)
Deliver(k) == /\ phase \in {"run", "catchup"} /\ delivered[k] # truth[k]
              /\ delivered' = [delivered EXCEPT ![k] = truth[k]] /\ UNCHANGED <<truth, seen, insync, phase, writes>>
DeliverStale(k, v) == /\ phase = "run" /\ v \in seen[k] /\ v # truth[k] /\ v # delivered[k]
                      /\ delivered' = [delivered EXCEPT ![k] = v] /\ UNCHANGED <<truth, seen, insync, phase, writes>>
DeliverDup(k) == /\ phase = "run" /\ UNCHANGED envVars
SpuriousDelete(k) == /\ phase = "run" /\ truth[k] # Nil /\ delivered[k] # Nil
                     /\ delivered' = [delivered EXCEPT ![k] = Nil] /\ UNCHANGED <<truth, seen, insync, phase, writes>>
InSync == /\ ~insync /\ phase \in {"run", "catchup"} /\ insync' = TRUE /\ UNCHANGED <<truth, delivered, seen, phase, writes>>
CatchUp == /\ phase = "run" /\ phase' = "catchup" /\ UNCHANGED <<truth, delivered, seen, insync, writes>>
CaughtUp == delivered = truth /\ insync

=============================================================================
