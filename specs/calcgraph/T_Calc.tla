------------------------------- MODULE T_Calc -------------------------------
(* Trace specification for the calculation-graph checks.  One TLC run validates many concatenated traces
   recorded from the real ValidationFilter -> CalcGraph -> EventSequencer pipeline.

   events   reset{universe}  deliver{k,v}  status{s}  emit{m}  flushed{}  fresh{fed,msgs,absent}  panic{msg}

   Every action first asks the property layer P_Calc what it says about the event (a reason string, "" = fine).
   A non-empty reason is printed as <<"BAD", reason, line>>, stored in `bad`, and the line is NOT consumed; no
   action is enabled once bad # "", so the high-water mark is exactly the rejected line.
   Checks selects which requirements this run judges:
     "c02"    per-message soundness + referential integrity + VTEP/route order inside a flush
     "fresh"  C01: at every in-sync flush, dp = what a fresh real pipeline emits for the delivered state
     "c03" "c04" "c05" "c43"   the Want-based requirements at every in-sync flush                       *)
EXTENDS TraceLib, FiniteSets

CONSTANT Checks

VARIABLES uni, delivered, dsInSync, dp, win, bad, async
vars == <<uni, delivered, dsInSync, dp, win, bad, async>>

Cat == JsonDeserialize("catalogue.json")
P == INSTANCE P_Calc
U == Cat[uni]

On(c) == c \in Checks
Pick(rs) == LET nz == { i \in DOMAIN rs : rs[i] # "" } IN IF nz = {} THEN "" ELSE rs[CHOOSE i \in nz : \A j \in nz : i <= j]

\* Step(e, nb, upd): event e; if the verdict nb is "" apply upd and consume the line, else record the verdict
Is(e) == bad = "" /\ l <= NTrace /\ Trace[l].ev = e
Verdict(nb) == /\ PrintT(<<"BAD", nb, l>>) /\ bad' = nb /\ l' = l
               /\ UNCHANGED <<uni, delivered, dsInSync, dp, win, async>>

TInit == /\ HWMInit /\ l = 1 /\ uni = "" /\ delivered = <<>> /\ dsInSync = FALSE /\ dp = P!EmptyDP /\ win = P!EmptyWin
         /\ bad = "" /\ async = FALSE

TReset ==
    /\ Is("reset") /\ l' = l + 1
    /\ uni' = Cur.universe
    /\ delivered' = [k \in DOMAIN Cat[Cur.universe].keys |-> "nil"]
    /\ dsInSync' = FALSE /\ dp' = P!EmptyDP /\ win' = P!EmptyWin /\ bad' = ""
    /\ async' = ("async" \in DOMAIN Cur)

TDeliver ==
    /\ Is("deliver") /\ l' = l + 1
    /\ delivered' = [delivered EXCEPT ![Cur.k] = Cur.v]
    /\ UNCHANGED <<uni, dsInSync, dp, win, bad, async>>

TStatus ==
    /\ Is("status") /\ l' = l + 1
    /\ dsInSync' = (dsInSync \/ Cur.s = "in-sync")
    /\ UNCHANGED <<uni, delivered, dp, win, bad, async>>

TEmit ==
    /\ Is("emit")
    /\ LET m == Cur.m
           d2 == P!Apply(dp, m)
           nb == IF On("c02")
                   THEN Pick(<<P!EmitBad(dp, m, dsInSync), P!RefBad(d2), IF async THEN "" ELSE P!WinBad(dp, win, m)>>)
                   ELSE ""
       IN IF nb # "" THEN Verdict(nb)
          ELSE /\ dp' = d2 /\ win' = P!WinNext(win, m) /\ l' = l + 1
               /\ UNCHANGED <<uni, delivered, dsInSync, async, bad>>

\* quiescent point: if the datastore is in sync, the flushed dataplane state must be what the statements require
TFlushed ==
    /\ Is("flushed")
    /\ LET nb == IF ~dsInSync THEN ""
                 ELSE Pick(<<IF On("c03") THEN P!C03Bad(U, delivered, dp) ELSE "",
                             IF On("c05") THEN P!C05Bad(U, delivered, dp) ELSE "",
                             IF On("c04") THEN P!C04Bad(U, delivered, dp) ELSE "",
                             IF On("c43") THEN P!C43Bad(U, delivered, dp) ELSE "">>)
       IN IF nb # "" THEN Verdict(nb)
          ELSE /\ win' = P!EmptyWin /\ l' = l + 1 /\ UNCHANGED <<uni, delivered, dsInSync, dp, async, bad>>

\* the fresh-instance oracle: a newly built real pipeline was fed `fed` only, told in-sync and flushed; `msgs` is
\* everything it emitted.  absent = TRUE: the values that fail validation were left out of `fed` (C05: invalid = absent).
Components == <<"ipsets", "policies", "profiles", "weps", "heps", "vteps", "routes", "other">>
FreshBad(fd) ==
    LET diff == { i \in DOMAIN Components : dp[Components[i]] # fd[Components[i]] }
    IN IF diff = {} THEN "" ELSE "differs-from-fresh:" \o Components[CHOOSE i \in diff : \A j \in diff : i <= j]
FedOK(fed, absent) ==
    LET expect == { k \in DOMAIN delivered : delivered[k] # "nil" /\ (absent => U.keys[k].variants[delivered[k]].valid) }
    IN DOMAIN fed = expect /\ \A k \in expect : fed[k] = delivered[k]
TFresh ==
    /\ Is("fresh")
    /\ dsInSync
    /\ FedOK(Cur.fed, Cur.absent)                         \* the driver fed the oracle what it says (else: no match)
    /\ LET nb == IF (~Cur.absent /\ On("fresh")) \/ (Cur.absent /\ On("c05"))
                   THEN FreshBad(P!FoldApply(P!EmptyDP, Cur.msgs, 1)) ELSE ""
       IN IF nb # "" THEN Verdict(nb)
          ELSE l' = l + 1 /\ UNCHANGED <<uni, delivered, dsInSync, dp, win, async, bad>>

\* the real pipeline panicked on a datastore history
TPanic == Is("panic") /\ Verdict("panic")

TNext == TReset \/ TDeliver \/ TStatus \/ TEmit \/ TFlushed \/ TFresh \/ TPanic
TSpec == TInit /\ [][TNext]_<<vars, l>>

=============================================================================
