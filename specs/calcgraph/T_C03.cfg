CONSTANT Checks = {"c03"}
INIT TInit
NEXT TNext
CONSTRAINT HWMConstraint
POSTCONDITION TraceAcceptedHWM
CHECK_DEADLOCK FALSE
