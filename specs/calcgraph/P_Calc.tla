------------------------------- MODULE P_Calc -------------------------------
(* Property layer for the Felix calculation graph (C01 C02 C03 C04-graph C05 C43-resolver).

   Pure operators only (no variables): the trace specification T_Calc and the design model I_CalcEnv
   both evaluate them on their own state.

   dp            the dataplane state described by everything emitted so far = the fold of Apply over the
                 emitted messages, as records keyed by strings
   EmitBad       C02, judged at every emitted message: delta / removal soundness, no in-sync before the
                 datastore said so
   RefBad        C02, judged on the dp reached after every message: referential integrity
   Want*         C01/C03/C04/C05/C43: what the property statements require of dp once the delivered state
                 has been flushed in sync, computed from the *catalogue projection* of the delivered values
                 (U = one universe of catalogue.json, produced from the same Go value table the driver uses)

   Every *Bad operator returns "" when the requirement holds and a short reason otherwise.
   Nothing here constrains the relative order of unrelated message kinds.                        *)
EXTENDS Integers, Sequences, FiniteSets, TLC, Selectors, Nets

ToSet(s) == { s[i] : i \in DOMAIN s }
Put(f, k, v) == [x \in (DOMAIN f) \cup {k} |-> IF x = k THEN v ELSE f[x]]
Del(f, k) == [x \in (DOMAIN f) \ {k} |-> f[x]]
NoDup(s) == Cardinality(ToSet(s)) = Len(s)
First(S) == CHOOSE x \in S : TRUE          \* only used to name one offender in a reason string

\* ------------------------------------------------------------------------------------------------
\* dp and Apply
\* ------------------------------------------------------------------------------------------------
EmptyDP == [ipsets |-> <<>>, policies |-> <<>>, profiles |-> <<>>, weps |-> <<>>, heps |-> <<>>,
            vteps |-> <<>>, routes |-> <<>>, other |-> <<>>, insync |-> FALSE]

Mem(m) == [a |-> m.a, n |-> m.n, proto |-> m.proto, port |-> m.port]
Mems(s) == { Mem(s[i]) : i \in DOMAIN s }
OtherKey(m) == m.comp \o "|" \o m.id

Apply(d, m) ==
    CASE m.kind = "ipset_update"   -> [d EXCEPT !.ipsets = Put(@, m.id, [typ |-> m.body.typ, members |-> Mems(m.body.members)])]
      [] m.kind = "ipset_delta"    -> IF m.id \in DOMAIN d.ipsets
                                        THEN [d EXCEPT !.ipsets[m.id].members = (@ \ Mems(m.body.removed)) \cup Mems(m.body.added)]
                                        ELSE d
      [] m.kind = "ipset_remove"   -> [d EXCEPT !.ipsets = Del(@, m.id)]
      [] m.kind = "policy_update"  -> [d EXCEPT !.policies = Put(@, m.id, m.body)]
      [] m.kind = "policy_remove"  -> [d EXCEPT !.policies = Del(@, m.id)]
      [] m.kind = "profile_update" -> [d EXCEPT !.profiles = Put(@, m.id, m.body)]
      [] m.kind = "profile_remove" -> [d EXCEPT !.profiles = Del(@, m.id)]
      [] m.kind = "wep_update"     -> [d EXCEPT !.weps = Put(@, m.id, m.body)]
      [] m.kind = "wep_remove"     -> [d EXCEPT !.weps = Del(@, m.id)]
      [] m.kind = "hep_update"     -> [d EXCEPT !.heps = Put(@, m.id, m.body)]
      [] m.kind = "hep_remove"     -> [d EXCEPT !.heps = Del(@, m.id)]
      [] m.kind = "vtep_update"    -> [d EXCEPT !.vteps = Put(@, m.id, m.body)]
      [] m.kind = "vtep_remove"    -> [d EXCEPT !.vteps = Del(@, m.id)]
      [] m.kind = "route_update"   -> [d EXCEPT !.routes = Put(@, m.id, m.body)]
      [] m.kind = "route_remove"   -> [d EXCEPT !.routes = Del(@, m.id)]
      [] m.kind = "other_set"      -> [d EXCEPT !.other = Put(@, OtherKey(m), m.body)]
      [] m.kind = "other_del"      -> [d EXCEPT !.other = Del(@, OtherKey(m))]
      [] m.kind = "insync"         -> [d EXCEPT !.insync = TRUE]
      [] OTHER                     -> d            \* notready: carries no dataplane state

RECURSIVE FoldApply(_, _, _)
FoldApply(d, msgs, i) == IF i > Len(msgs) THEN d ELSE FoldApply(Apply(d, msgs[i]), msgs, i + 1)

\* ------------------------------------------------------------------------------------------------
\* C02: per-message soundness
\* ------------------------------------------------------------------------------------------------
EmitBad(d, m, dsInSync) ==
    CASE m.kind = "ipset_update" ->
            IF m.body.n # Cardinality(Mems(m.body.members)) THEN "ipset-update-duplicate-member" ELSE ""
      [] m.kind = "ipset_delta" ->
            IF m.id \notin DOMAIN d.ipsets THEN "delta-for-missing-ipset"
            ELSE IF Mems(m.body.added) \cap d.ipsets[m.id].members # {} THEN "delta-adds-present-member"
            ELSE IF ~(Mems(m.body.removed) \subseteq d.ipsets[m.id].members) THEN "delta-removes-absent-member"
            ELSE IF m.body.nadded # Cardinality(Mems(m.body.added)) \/ m.body.nremoved # Cardinality(Mems(m.body.removed))
                    \/ Mems(m.body.added) \cap Mems(m.body.removed) # {} THEN "delta-duplicate-member"
            ELSE ""
      [] m.kind = "ipset_remove"   -> IF m.id \in DOMAIN d.ipsets THEN "" ELSE "remove-of-missing-ipset"
      [] m.kind = "policy_remove"  -> IF m.id \in DOMAIN d.policies THEN "" ELSE "remove-of-missing-policy"
      [] m.kind = "profile_remove" -> IF m.id \in DOMAIN d.profiles THEN "" ELSE "remove-of-missing-profile"
      [] m.kind = "wep_remove"     -> IF m.id \in DOMAIN d.weps THEN "" ELSE "remove-of-missing-endpoint"
      [] m.kind = "hep_remove"     -> IF m.id \in DOMAIN d.heps THEN "" ELSE "remove-of-missing-endpoint"
      [] m.kind = "vtep_remove"    -> IF m.id \in DOMAIN d.vteps THEN "" ELSE "remove-of-missing-vtep"
      [] m.kind = "route_remove"   -> IF m.id \in DOMAIN d.routes THEN "" ELSE "remove-of-missing-route"
      [] m.kind = "other_del"      -> IF OtherKey(m) \in DOMAIN d.other THEN "" ELSE "remove-of-missing-" \o m.comp
      [] m.kind = "insync"         -> IF dsInSync THEN "" ELSE "insync-before-datastore"
      [] OTHER -> ""

RuleRefs(r) == ToSet(r.src) \cup ToSet(r.dst) \cup ToSet(r.nsrc) \cup ToSet(r.ndst) \cup ToSet(r.srcnp)
               \cup ToSet(r.dstnp) \cup ToSet(r.nsrcnp) \cup ToSet(r.ndstnp) \cup ToSet(r.dstipport)
RulesRefs(b) == UNION ({ RuleRefs(b.inr[i]) : i \in DOMAIN b.inr } \cup { RuleRefs(b.outr[i]) : i \in DOMAIN b.outr })
TierPols(ts) == UNION { ToSet(ts[i].ing) \cup ToSet(ts[i].eg) : i \in DOMAIN ts }
EpPols(e) == TierPols(e.tiers) \cup TierPols(e.utiers) \cup TierPols(e.ptiers) \cup TierPols(e.ftiers)

\* referential integrity of a dp (C02 "present before / not removed while referenced")
RefBad(d) ==
    IF \E p \in DOMAIN d.policies : ~(RulesRefs(d.policies[p]) \subseteq DOMAIN d.ipsets) THEN "policy-references-missing-ipset"
    ELSE IF \E p \in DOMAIN d.profiles : ~(RulesRefs(d.profiles[p]) \subseteq DOMAIN d.ipsets) THEN "profile-references-missing-ipset"
    ELSE IF \E e \in DOMAIN d.weps : ~(EpPols(d.weps[e]) \subseteq DOMAIN d.policies) THEN "endpoint-references-missing-policy"
    ELSE IF \E e \in DOMAIN d.heps : ~(EpPols(d.heps[e]) \subseteq DOMAIN d.policies) THEN "endpoint-references-missing-policy"
    ELSE IF \E e \in DOMAIN d.weps : ~(ToSet(d.weps[e].profiles) \subseteq DOMAIN d.profiles) THEN "endpoint-references-missing-profile"
    ELSE IF \E e \in DOMAIN d.heps : ~(ToSet(d.heps[e].profiles) \subseteq DOMAIN d.profiles) THEN "endpoint-references-missing-profile"
    ELSE ""

\* A route needs the tunnel endpoint of its node when it is a remote-workload route of a VXLAN pool that is
\* neither direct (same subnet) nor itself a tunnel address (felix/dataplane/linux vxlan_mgr.tunnelRoute).
NeedsVTEP(r) == "REMOTE_WORKLOAD" \in ToSet(r.types) /\ r.pool = "VXLAN" /\ "REMOTE_TUNNEL" \notin ToSet(r.types) /\ ~r.sameSubnet

\* The graph legitimately holds routes whose node has no tunnel endpoint (yet / any more): the endpoint is then
\* simply unknown.  What the statement requires is the relative order inside one flush: an endpoint that appears
\* in a flush appears before the routes of that flush that need it, and an endpoint that disappears in a flush
\* disappears after the routes of that flush that needed it.  win = [routes: dst of needing routes updated in this
\* flush, vtepsGone: nodes whose endpoint was removed in this flush].
EmptyWin == [routes |-> {}, vtepsGone |-> {}]
WinBad(d, w, m) ==
    CASE m.kind = "vtep_update" ->
            IF m.id \notin DOMAIN d.vteps /\ \E r \in w.routes : r \in DOMAIN d.routes /\ NeedsVTEP(d.routes[r]) /\ d.routes[r].node = m.id
            THEN "route-before-its-vtep" ELSE ""
      [] m.kind = "route_remove" ->
            IF m.id \in DOMAIN d.routes /\ NeedsVTEP(d.routes[m.id]) /\ d.routes[m.id].node \in w.vtepsGone
            THEN "vtep-removed-before-its-route" ELSE ""
      [] OTHER -> ""
WinNext(w, m) ==
    CASE m.kind = "route_update" -> IF NeedsVTEP(m.body) THEN [w EXCEPT !.routes = @ \cup {m.id}] ELSE w
      [] m.kind = "vtep_remove"  -> [w EXCEPT !.vtepsGone = @ \cup {m.id}]
      [] OTHER -> w

\* ------------------------------------------------------------------------------------------------
\* Reading the delivered state through the catalogue.  U = universe record, dl = delivered: key id -> variant name
\* C05: a value that fails validation is read exactly like an absent one.
\* ------------------------------------------------------------------------------------------------
Present(U, dl, k) == dl[k] # "nil" /\ U.keys[k].variants[dl[k]].valid
Val(U, dl, k) == U.keys[k].variants[dl[k]]
Live(U, dl, kind) == { k \in DOMAIN U.keys : U.keys[k].kind = kind /\ Present(U, dl, k) }

ProfLabelsOf(U, dl, name) ==
    LET ks == { k \in Live(U, dl, "proflabels") : Val(U, dl, k).name = name }
    IN IF ks = {} THEN <<>> ELSE Val(U, dl, First(ks)).labels
\* effective labels: own labels override those inherited from the profiles (no two profiles of one item carry the
\* same label name in the shipped catalogues, so the choice among parents never matters)
Eff(U, dl, k) ==
    LET v == Val(U, dl, k) IN
    EffLabels(v.labels, [i \in DOMAIN v.profiles |-> ProfLabelsOf(U, dl, v.profiles[i])], FALSE)

Endpoints(U, dl) == Live(U, dl, "wep") \cup Live(U, dl, "hep")
LocalEps(U, dl) == { k \in Endpoints(U, dl) : Val(U, dl, k).local }
Items(U, dl) == Endpoints(U, dl) \cup Live(U, dl, "netset")        \* everything that can contribute to an IP set

PolMatches(U, dl, p, e) == Eval(Val(U, dl, p).sel, Eff(U, dl, e), U.ct)
ActivePols(U, dl) == { p \in Live(U, dl, "policy") : \E e \in LocalEps(U, dl) : PolMatches(U, dl, p, e) }
ActiveProfiles(U, dl) == UNION { ToSet(Val(U, dl, e).profiles) : e \in LocalEps(U, dl) }

\* ---- lexicographic order on names: U.ct gives the characters of a string, U.ord their code points ----
Codes(U, s) == [i \in DOMAIN U.ct[s] |-> U.ord[U.ct[s][i]]]
RECURSIVE SeqLeq(_, _, _)
SeqLeq(x, y, i) == IF i > Len(x) THEN TRUE ELSE IF i > Len(y) THEN FALSE
                   ELSE IF x[i] < y[i] THEN TRUE ELSE IF x[i] > y[i] THEN FALSE ELSE SeqLeq(x, y, i + 1)
StrLeq(U, s, t) == SeqLeq(Codes(U, s), Codes(U, t), 1)
\* (order, name) with an unset order last
OrdLeq(U, h1, o1, n1, h2, o2, n2) ==
    IF h1 /\ h2 THEN (o1 < o2 \/ (o1 = o2 /\ StrLeq(U, n1, n2)))
    ELSE IF h1 THEN TRUE ELSE IF h2 THEN FALSE ELSE StrLeq(U, n1, n2)

\* ------------------------------------------------------------------------------------------------
\* C03: per-endpoint policy lists, and only applicable policies are sent
\* ------------------------------------------------------------------------------------------------
PolById(U, dl, id) == First({ p \in Live(U, dl, "policy") : Val(U, dl, p).id = id })
TierKeyOf(U, dl, name) == { k \in Live(U, dl, "tier") : Val(U, dl, k).name = name }

\* a list of policy ids is acceptable for (endpoint e, tier name tn, direction) iff it holds exactly the matching
\* policies of that tier and direction, each once, in non-decreasing (order, name)
PolListBad(U, dl, e, tn, ingress, lst) ==
    LET want == { Val(U, dl, p).id : p \in { q \in Live(U, dl, "policy") :
                      /\ Val(U, dl, q).tier = tn /\ PolMatches(U, dl, q, e)
                      /\ ~Val(U, dl, q).untracked /\ ~Val(U, dl, q).prednat
                      /\ IF ingress THEN Val(U, dl, q).ingress ELSE Val(U, dl, q).egress } }
    IN  IF ~NoDup(lst) THEN "policy-listed-twice"
        ELSE IF ToSet(lst) # want THEN "wrong-policy-set"
        ELSE IF \E i \in 1..(Len(lst) - 1) :
                   LET a == Val(U, dl, PolById(U, dl, lst[i]))  b == Val(U, dl, PolById(U, dl, lst[i + 1]))
                   IN ~OrdLeq(U, a.hasOrder, a.order, a.name, b.hasOrder, b.order, b.name)
             THEN "policies-out-of-order"
        ELSE ""

TiersBad(U, dl, e, ts) ==
    LET names == { ts[i].name : i \in DOMAIN ts }
        needed == { Val(U, dl, p).tier : p \in { q \in Live(U, dl, "policy") :
                        PolMatches(U, dl, q, e) /\ ~Val(U, dl, q).untracked /\ ~Val(U, dl, q).prednat
                        /\ (Val(U, dl, q).ingress \/ Val(U, dl, q).egress) } }
        listBad == { r \in { PolListBad(U, dl, e, ts[i].name, TRUE, ts[i].ing) : i \in DOMAIN ts }
                         \cup { PolListBad(U, dl, e, ts[i].name, FALSE, ts[i].eg) : i \in DOMAIN ts } : r # "" }
    IN  IF Cardinality(names) # Len(ts) THEN "tier-listed-twice"
        ELSE IF ~(needed \subseteq names) THEN "tier-missing"
        ELSE IF listBad # {} THEN First(listBad)
        \* order among tiers that exist in the datastore: ascending (order, name), unset order last.
        \* Tiers that do not exist (policies naming a tier that was never created) are not constrained.
        ELSE IF \E i, j \in DOMAIN ts :
                   /\ i < j /\ TierKeyOf(U, dl, ts[i].name) # {} /\ TierKeyOf(U, dl, ts[j].name) # {}
                   /\ LET a == Val(U, dl, First(TierKeyOf(U, dl, ts[i].name)))  b == Val(U, dl, First(TierKeyOf(U, dl, ts[j].name)))
                      IN ~OrdLeq(U, a.hasOrder, a.order, a.name, b.hasOrder, b.order, b.name)
             THEN "tiers-out-of-order"
        ELSE ""

EpBad(U, dl, e, b) ==     \* b = the emitted endpoint body
    IF b.profiles # Val(U, dl, e).profiles THEN "endpoint-profile-list"
    ELSE IF TiersBad(U, dl, e, b.tiers) # "" THEN TiersBad(U, dl, e, b.tiers)
    ELSE IF TierPols(b.utiers) \cup TierPols(b.ptiers) # {} THEN "unexpected-untracked-or-prednat-policy"
    ELSE ""

C03Bad(U, dl, d) ==
    LET lw == { e \in LocalEps(U, dl) : U.keys[e].kind = "wep" }
        lh == { e \in LocalEps(U, dl) : U.keys[e].kind = "hep" }
        epb == { r \in { EpBad(U, dl, e, d.weps[Val(U, dl, e).id]) : e \in { x \in lw : Val(U, dl, x).id \in DOMAIN d.weps } }
                       \cup { EpBad(U, dl, e, d.heps[Val(U, dl, e).id]) : e \in { x \in lh : Val(U, dl, x).id \in DOMAIN d.heps } } : r # "" }
    IN  IF DOMAIN d.weps # { Val(U, dl, e).id : e \in lw } THEN "wrong-set-of-workload-endpoints"
        ELSE IF DOMAIN d.heps # { Val(U, dl, e).id : e \in lh } THEN "wrong-set-of-host-endpoints"
        ELSE IF DOMAIN d.policies # { Val(U, dl, p).id : p \in ActivePols(U, dl) } THEN "wrong-set-of-active-policies"
        ELSE IF epb # {} THEN First(epb)
        ELSE ""

\* ------------------------------------------------------------------------------------------------
\* C05: profiles - real rules when the profile exists and is valid, deny stand-in otherwise
\* ------------------------------------------------------------------------------------------------
ProfRulesKey(U, dl, name) == { k \in Live(U, dl, "profrules") : Val(U, dl, k).name = name }
BareDeny(rs) == Len(rs) = 1 /\ rs[1].action = "deny" /\ rs[1].nmatch = 0
Actions(rs) == [i \in DOMAIN rs |-> rs[i].action]
C05Bad(U, dl, d) ==
    IF DOMAIN d.profiles # ActiveProfiles(U, dl) THEN "wrong-set-of-active-profiles"
    ELSE IF \E n \in DOMAIN d.profiles : ProfRulesKey(U, dl, n) = {} /\ ~(BareDeny(d.profiles[n].inr) /\ BareDeny(d.profiles[n].outr))
         THEN "missing-or-invalid-profile-not-denied"
    ELSE IF \E n \in DOMAIN d.profiles : ProfRulesKey(U, dl, n) # {} /\
                LET v == Val(U, dl, First(ProfRulesKey(U, dl, n)))
                IN Actions(d.profiles[n].inr) # Actions(v.inr) \/ Actions(d.profiles[n].outr) # Actions(v.outr)
         THEN "profile-rules-not-the-real-rules"
    ELSE IF \E p \in ActivePols(U, dl) : Val(U, dl, p).id \in DOMAIN d.policies /\
                LET v == Val(U, dl, p)  b == d.policies[v.id]
                IN Actions(b.inr) # Actions(v.inr) \/ Actions(b.outr) # Actions(v.outr) \/ b.tier # v.tier
         THEN "policy-rules-not-the-real-rules"
    ELSE ""

\* ------------------------------------------------------------------------------------------------
\* C04 (graph level): IP-set membership
\* ------------------------------------------------------------------------------------------------
Half(c, bit) ==        \* the two halves of a (canonical) CIDR
    LET cc == Canon(c)  i == (c.n \div 8) + 1  w == Pow2(7 - (c.n % 8))
    IN [a |-> [j \in DOMAIN cc.a |-> IF j = i /\ bit = 1 THEN cc.a[j] + w ELSE cc.a[j]], n |-> c.n + 1]
RECURSIVE CoveredBy(_, _)
CoveredBy(c, S) ==     \* every address of c is in some member of S
    IF \E s \in S : Covers(s, c) THEN TRUE
    ELSE IF ~\E s \in S : StrictlyCovers(c, s) THEN FALSE
    ELSE CoveredBy(Half(c, 0), S) /\ CoveredBy(Half(c, 1), S)
SameAddresses(A, B) == (\A c \in A : CoveredBy(c, B)) /\ (\A c \in B : CoveredBy(c, A))

NetOf(m) == [a |-> m.a, n |-> m.n]
ProtoOK(setProto, p) == setProto = "any" \/ setProto = p
IPSetBad(U, dl, desc, set) ==
    LET match == { k \in Items(U, dl) : Eval(desc.sel, Eff(U, dl, k), U.ct) }
    IN IF desc.port = ""
       THEN LET want == UNION { ToSet(Val(U, dl, k).nets) : k \in match }
                got == { NetOf(m) : m \in set.members }
            IN IF \E m \in set.members : m.proto # "" \/ m.port # 0 THEN "port-member-in-net-set"
               ELSE IF ~SameAddresses(got, want) THEN "ipset-addresses-differ"
               ELSE IF U.nft /\ \E x, y \in got : x # y /\ Covers(x, y) THEN "overlapping-members-not-suppressed"
               ELSE ""
       ELSE LET want == UNION { { [a |-> nt.a, n |-> nt.n, proto |-> pt.proto, port |-> pt.port] :
                                     nt \in ToSet(Val(U, dl, k).nets),
                                     pt \in { q \in ToSet(Val(U, dl, k).ports) : q.name = desc.port /\ ProtoOK(desc.proto, q.proto) } }
                                : k \in match }
            IN IF set.members # want THEN "named-port-members-differ" ELSE ""

\* The rule itself must select what its selectors say (the statement is about "the IP set emitted for a rule selector"):
\* for every probe address x, "x belongs to an item that matches the positive selector and not the negated one"
\* (or, without a positive selector, "x belongs to no item matching the negated one") must equal what the emitted
\* rule says through the IP sets it references.  Probes = every address that starts a net of some item + an outsider.
\* Directions that involve named ports are judged through the named-port sets above only.
Probes(U, dl) == { Addr(FirstAddr(nt)) : nt \in UNION { ToSet(Val(U, dl, k).nets) : k \in Items(U, dl) } } \cup { Addr(<<203, 0, 113, 7>>) }
Holders(U, dl, x) == { k \in Items(U, dl) : \E nt \in ToSet(Val(U, dl, k).nets) : Covers(nt, x) }
InSet(d, id, x) == id \in DOMAIN d.ipsets /\ \E m \in d.ipsets[id].members : m.proto = "" /\ Covers(NetOf(m), x)
DirSays(U, dl, hasPos, pos, hasNeg, neg, x) ==
    IF hasPos THEN \E k \in Holders(U, dl, x) : Eval(pos, Eff(U, dl, k), U.ct) /\ (hasNeg => ~Eval(neg, Eff(U, dl, k), U.ct))
    ELSE ~(hasNeg /\ \E k \in Holders(U, dl, x) : Eval(neg, Eff(U, dl, k), U.ct))
RuleSays(d, posIds, negIds, x) == (\A i \in DOMAIN posIds : InSet(d, posIds[i], x)) /\ (\A i \in DOMAIN negIds : ~InSet(d, negIds[i], x))
RuleSelBad(U, dl, d, c, e) ==     \* c = catalogue rule skeleton, e = emitted rule
    LET srcJudged == c.srcnp = <<>> /\ c.nsrcnp = <<>> /\ e.srcnp = <<>> /\ e.nsrcnp = <<>>
        dstJudged == c.dstnp = <<>> /\ c.ndstnp = <<>> /\ e.dstnp = <<>> /\ e.ndstnp = <<>> /\ e.dstipport = <<>>
    IN \E x \in Probes(U, dl) :
          \/ srcJudged /\ DirSays(U, dl, c.has_src, c.src, c.has_nsrc, c.nsrc, x) # RuleSays(d, e.src, e.nsrc, x)
          \/ dstJudged /\ DirSays(U, dl, c.has_dst, c.dst, c.has_ndst, c.ndst, x) # RuleSays(d, e.dst, e.ndst, x)
RulesSelBad(U, dl, d, cat, em) ==   \* cat, em = [inr, outr] of the catalogue value and of the emitted object
    \/ Len(cat.inr) = Len(em.inr) /\ \E i \in DOMAIN cat.inr : RuleSelBad(U, dl, d, cat.inr[i], em.inr[i])
    \/ Len(cat.outr) = Len(em.outr) /\ \E i \in DOMAIN cat.outr : RuleSelBad(U, dl, d, cat.outr[i], em.outr[i])

C04Bad(U, dl, d) ==
    LET used == UNION ({ RulesRefs(d.policies[p]) : p \in DOMAIN d.policies } \cup { RulesRefs(d.profiles[p]) : p \in DOMAIN d.profiles })
        bad == { r \in { IPSetBad(U, dl, U.ipsets[s], d.ipsets[s]) : s \in (DOMAIN d.ipsets) \cap (DOMAIN U.ipsets) } : r # "" }
    IN  IF DOMAIN d.ipsets # used THEN "ipset-not-referenced-or-missing"
        ELSE IF bad # {} THEN First(bad)
        ELSE IF \E p \in Live(U, dl, "policy") : Val(U, dl, p).id \in DOMAIN d.policies
                     /\ RulesSelBad(U, dl, d, Val(U, dl, p), d.policies[Val(U, dl, p).id]) THEN "policy-rule-selects-wrong-addresses"
        ELSE IF \E p \in Live(U, dl, "profrules") : Val(U, dl, p).name \in DOMAIN d.profiles
                     /\ RulesSelBad(U, dl, d, Val(U, dl, p), d.profiles[Val(U, dl, p).name]) THEN "profile-rule-selects-wrong-addresses"
        ELSE ""

\* ------------------------------------------------------------------------------------------------
\* C43 (resolver level): routes for blocks and borrowed addresses
\* ------------------------------------------------------------------------------------------------
NodeKey(U, dl, name) == { k \in Live(U, dl, "node") : Val(U, dl, k).name = name }
PoolOf(U, dl, c) ==      \* the most specific live pool covering CIDR c ({} if none)
    LET cov == { k \in Live(U, dl, "pool") : Covers(Val(U, dl, k).cidr, c) }
    IN { k \in cov : \A j \in cov : Val(U, dl, j).cidr.n <= Val(U, dl, k).cidr.n }
PoolType(pv) == IF pv.lbonly THEN "NONE" ELSE IF pv.vxlan # "never" THEN "VXLAN"
                ELSE IF pv.ipip # "never" THEN "IPIP" ELSE "NO_ENCAP"
CrossSubnet(pv) == pv.vxlan = "cross-subnet" \/ pv.ipip = "cross-subnet"
\* per address family of the destination: a node's address / subnet / printed address
NHas(v, c) == IF IsV4(c) THEN v.hasV4 ELSE v.hasV6
NAddr(v, c) == IF IsV4(c) THEN v.addr ELSE v.addr6
NSubnet(v, c) == IF IsV4(c) THEN v.subnet ELSE v.subnet6
NAddrS(v, c) == IF IsV4(c) THEN v.addrs ELSE v.addrs6
\* the owner is in the local subnet: both nodes known with an address of the destination's family, owner's address inside our subnet
InLocalSubnet(U, dl, owner, c) ==
    /\ NodeKey(U, dl, U.local) # {} /\ NodeKey(U, dl, owner) # {}
    /\ LET me == Val(U, dl, First(NodeKey(U, dl, U.local)))  o == Val(U, dl, First(NodeKey(U, dl, owner)))
       IN NHas(me, c) /\ NHas(o, c) /\ ContainsAddr(NSubnet(me, c), NAddr(o, c).a)

\* requirement on the route emitted for destination CIDR c owned by node `owner` (a block, or a borrowed /32)
RoutesAt(d, c) == { id \in DOMAIN d.routes : d.routes[id].dst = c }
RouteBad(U, dl, d, c, owner, borrowed) ==
    IF RoutesAt(d, c) = {} THEN "route-missing"
    ELSE LET r == d.routes[First(RoutesAt(d, c))]
             ps == PoolOf(U, dl, c)
             remote == owner # U.local
         IN IF r.node # owner THEN "route-names-wrong-node"
            ELSE IF remote /\ "REMOTE_WORKLOAD" \notin ToSet(r.types) THEN "remote-route-not-remote-workload"
            ELSE IF ~remote /\ "LOCAL_WORKLOAD" \notin ToSet(r.types) THEN "local-route-not-local-workload"
            ELSE IF ps # {} /\ r.pool # PoolType(Val(U, dl, First(ps))) THEN "route-pool-type"
            ELSE IF ps = {} /\ r.pool # "NONE" THEN "route-pool-type"
            \* direct vs tunnel: only meaningful when the pool encapsulates (an unencapsulated route is direct anyway)
            ELSE IF remote /\ ps # {} /\ PoolType(Val(U, dl, First(ps))) \in {"VXLAN", "IPIP"}
                    /\ r.sameSubnet # (CrossSubnet(Val(U, dl, First(ps))) /\ InLocalSubnet(U, dl, owner, c)) THEN "same-subnet-flag"
            ELSE IF remote /\ NodeKey(U, dl, owner) # {} /\ NHas(Val(U, dl, First(NodeKey(U, dl, owner))), c)
                    /\ r.nodeIp # NAddrS(Val(U, dl, First(NodeKey(U, dl, owner))), c) THEN "route-stale-node-address"
            ELSE IF borrowed /\ ~r.borrowed THEN "borrowed-flag"
            ELSE ""

\* Only "plain" destinations are judged here: CIDRs whose route carries nothing but workload types (the same CIDR
\* can also be a tunnel or host address, whose own semantics then shape the route; those are left to the fresh
\* oracle of C01).
PlainAt(d, c) == \A id \in RoutesAt(d, c) : ToSet(d.routes[id].types) \subseteq {"REMOTE_WORKLOAD", "LOCAL_WORKLOAD"}
C43Bad(U, dl, d) ==
    LET blocks == { k \in Live(U, dl, "block") : Val(U, dl, k).host # "" /\ PlainAt(d, Val(U, dl, k).cidr) }
        blockBad == { r \in { RouteBad(U, dl, d, Val(U, dl, k).cidr, Val(U, dl, k).host, FALSE) : k \in blocks } : r # "" }
        \* a borrowed address: allocated inside a block to a node other than the block's
        borrows == UNION { { <<k, al>> : al \in { x \in ToSet(Val(U, dl, k).allocs) : x.host # "" /\ x.host # Val(U, dl, k).host } } : k \in Live(U, dl, "block") }
        lweps == { e \in LocalEps(U, dl) : U.keys[e].kind = "wep" }
        wepNets == UNION { ToSet(Val(U, dl, e).nets) : e \in lweps }
        plain == { b \in borrows : PlainAt(d, b[2].addr) /\ b[2].addr \notin wepNets }
        borrowBad == { r \in { RouteBad(U, dl, d, b[2].addr, b[2].host, Val(U, dl, b[1]).host # "") : b \in plain } : r # "" }
        \* local workloads: their /32 must be flagged so that no blackhole for the local block covers it
        wepBad == { nt \in wepNets : RoutesAt(d, nt) = {} \/ \E id \in RoutesAt(d, nt) : ~d.routes[id].localWorkload }
        \* a remote node's tunnel address that lies in a block owned by another node is a borrowed address: its route
        \* must say so (the route manager programs borrowed tunnel addresses individually)
        tunBad == { k \in Live(U, dl, "node") :
                      LET v == Val(U, dl, k) IN
                      /\ v.name # U.local /\ v.hasVxlan
                      /\ \E b \in Live(U, dl, "block") : /\ Val(U, dl, b).host # "" /\ Val(U, dl, b).host # v.name
                                                         /\ Covers(Val(U, dl, b).cidr, v.vxlanAddr)
                      /\ (RoutesAt(d, v.vxlanAddr) = {} \/ \E id \in RoutesAt(d, v.vxlanAddr) : ~d.routes[id].borrowed) }
    IN  IF blockBad # {} THEN "block:" \o First(blockBad)
        ELSE IF borrowBad # {} THEN "borrowed:" \o First(borrowBad)
        ELSE IF wepBad # {} THEN "local-workload-route-not-flagged"
        ELSE IF tunBad # {} THEN "borrowed-tunnel-address-not-flagged"
        ELSE ""
=============================================================================
