------------------------------ MODULE MC_NfUnit ------------------------------
(* Unit facts of the kernel model and of the reference semantics, checked by TLC at start-up (ASSUME): goto
   versus jump return semantics, mark arithmetic, interface wildcards, set dimensions, verdict maps, hook
   walk, tier walk.  A failing ASSUME is a harness error (the model is wrong), never a verdict.        *)
EXTENDS PolicyProbes, Netfilter, TLC

VARIABLE x
R(m, a) == [m |-> m, a |-> a]
Acc == [k |-> "accept"]   Drop == [k |-> "drop"]   Ret == [k |-> "return"]
Jump(t) == [k |-> "jump", t |-> t]   Goto(t) == [k |-> "goto", t |-> t]
Set(b) == [k |-> "setmark", clr |-> <<>>, xor |-> <<>>, or |-> <<b>>]
MarkIs(b) == [k |-> "mark", mask |-> <<b>>, val |-> <<b>>, neg |-> FALSE]
In(name, wild) == [k |-> "iface", dir |-> "in", name |-> name, wild |-> wild, neg |-> FALSE]
S0 == ("s" :> [type |-> "net", members |-> << [a |-> <<10, 0, 0, 0>>, n |-> 8] >>])
     @@ ("np" :> [type |-> "ipport", members |-> << [a |-> <<10, 0, 0, 1>>, p |-> 6, port |-> 80] >>])
P(chains) == [flavour |-> "ipt", chains |-> chains, maps |-> ("m" :> << [key |-> <<99, 97>>, a |-> Goto("X")] >>)]
Pkt == [ipv |-> 4, proto |-> 6, src |-> <<10, 0, 0, 1>>, dst |-> <<10, 0, 0, 1>>, sport |-> 5, dport |-> 80, icmpType |-> 0, icmpCode |-> 0]
       @@ [iif |-> <<99, 97, 108, 105, 49>>] @@ NfPktDefaults

\* jump returns to the caller's next rule; goto returns to the caller's caller
ASSUME RunChain(P(("a" :> <<R(<<>>, Jump("b")), R(<<>>, Set(1))>>) @@ ("b" :> <<R(<<>>, Ret), R(<<>>, Drop)>>)), S0, Pkt, "a", {}).st.mark = {1}
ASSUME LET res == RunChain(P(("a" :> <<R(<<>>, Jump("b")), R(<<>>, Set(1)), R(<<>>, Acc)>>) @@ ("b" :> <<R(<<>>, Goto("c")), R(<<>>, Drop)>>)
                              @@ ("c" :> <<R(<<>>, Set(2))>>)), S0, Pkt, "a", {})
       IN res.v = "accept" /\ res.st.mark = {1, 2} /\ res.st.path = <<"a", "b", "c">>
\* leaving the program
ASSUME RunChain(P(("a" :> <<R(<<MarkIs(3)>>, Drop), R(<<>>, Goto("ext"))>>)), S0, Pkt, "a", {}).t = "ext"
\* xt_MARK --set-mark v/m = (mark & ~m) ^ v ; nft "mark & A ^ X"
ASSUME NfSetMark({0, 3}, [clr |-> <<3, 4>>, xor |-> <<4>>, or |-> <<>>]) = {0, 4}
ASSUME NfSetMark({0, 4}, [clr |-> <<>>, xor |-> <<4>>, or |-> <<>>]) = {0}
\* interface wildcard = prefix, otherwise exact
ASSUME NfMatch(S0, In(<<99, 97, 108, 105>>, TRUE), Pkt, NfState0({}))
ASSUME ~NfMatch(S0, In(<<99, 97, 108, 105>>, FALSE), Pkt, NfState0({}))
ASSUME ~NfMatch(S0, In(<<99, 97, 108, 105, 49, 50>>, TRUE), Pkt, NfState0({}))
\* sets: hash:net by one flag; hash:ip,port needs two dimensions and the packet's protocol
ASSUME NfSetTest(S0["s"], <<"src">>, Pkt) /\ NfSetTest(S0["np"], <<"dst", "dst">>, Pkt)
ASSUME ~NfSetTest(S0["np"], <<"dst">>, Pkt) /\ ~NfSetTest(S0["np"], <<"dst", "src">>, Pkt)
ASSUME ~NfSetTest(S0["np"], <<"dst", "dst">>, [Pkt EXCEPT !.proto = 17])
\* verdict map: hit executes the element's verdict, miss continues
ASSUME RunChain(P(("a" :> <<R(<<>>, [k |-> "vmap", dir |-> "in", map |-> "m"]), R(<<>>, Drop)>>)), S0, Pkt, "a", {}).v = "drop"
ASSUME RunChain(P(("a" :> <<R(<<>>, [k |-> "vmap", dir |-> "in", map |-> "m"]), R(<<>>, Drop)>>)), S0, [Pkt EXCEPT !.iif = <<99, 97>>], "a", {}).t = "X"
\* what the kernel refuses
ASSUME NfRuleRefusals("ipt", S0, R(<<[k |-> "ports", side |-> "dst", r |-> <<<<80, 80>>>>, neg |-> FALSE, l4 |-> 0]>>, Acc)) = {"ipt-ports-without-protocol"}
ASSUME NfPortSlots(<<<<1, 1>>, <<2, 9>>>>) = 3
\* hook walk: ACCEPT ends a table only, the mark persists, DROP is final
ASSUME LET T == ("raw" :> [prog |-> P(("PRE" :> <<R(<<>>, Set(5)), R(<<>>, Acc), R(<<>>, Drop)>>)), base |-> ("PREROUTING" :> "PRE")])
                @@ ("filter" :> [prog |-> P(("IN" :> <<R(<<MarkIs(5)>>, Drop)>>)), base |-> ("INPUT" :> "IN")])
           res == Path(T, S0, << [hook |-> "PREROUTING", pkt |-> Pkt], [hook |-> "INPUT", pkt |-> Pkt] >>, {})
       IN res.v = "drop" /\ res.t = "IN"
\* reference semantics: staged never counts, pass -> next tier, default action, profiles, final deny
Rule(act, proto) == [action |-> act, ipv |-> 0, proto |-> proto, notProto |-> 0, srcNets |-> <<>>, notSrcNets |-> <<>>, dstNets |-> <<>>,
                     notDstNets |-> <<>>, srcPorts |-> <<>>, notSrcPorts |-> <<>>, dstPorts |-> <<>>, notDstPorts |-> <<>>, srcNamed |-> <<>>,
                     notSrcNamed |-> <<>>, dstNamed |-> <<>>, notDstNamed |-> <<>>, srcSets |-> <<>>, notSrcSets |-> <<>>, dstSets |-> <<>>,
                     notDstSets |-> <<>>, dstIpPortSets |-> <<>>, icmp |-> <<>>, notIcmp |-> <<>>]
Pol(st, rs) == [name |-> "p", staged |-> st, rules |-> rs]
Tier(d, ps) == [name |-> "t", defaultAction |-> d, policies |-> ps]
Q == [ipv |-> 4, proto |-> 6, src |-> <<10, 0, 0, 1>>, dst |-> <<10, 0, 0, 2>>, sport |-> 5, dport |-> 80, icmpType |-> 0, icmpCode |-> 0]
ASSUME EndpointVerdict(<<Tier("Deny", <<Pol(TRUE, <<Rule("deny", 0)>>)>>)>>, << <<Rule("allow", 6)>> >>, Q, S0) = "allow"
ASSUME EndpointVerdict(<<Tier("Deny", <<Pol(FALSE, <<Rule("allow", 17)>>)>>)>>, << <<Rule("allow", 6)>> >>, Q, S0) = "deny"
ASSUME EndpointVerdict(<<Tier("Pass", <<Pol(FALSE, <<Rule("allow", 17)>>)>>)>>, << <<Rule("allow", 6)>> >>, Q, S0) = "allow"
ASSUME EndpointVerdict(<<Tier("Deny", <<Pol(FALSE, <<Rule("pass", 6)>>), Pol(FALSE, <<Rule("deny", 0)>>)>>),
                         Tier("Deny", <<Pol(FALSE, <<Rule("log", 0), Rule("allow", 6)>>)>>)>>, <<>>, Q, S0) = "allow"
ASSUME EndpointVerdict(<<>>, <<>>, Q, S0) = "deny"
ASSUME AddrInc(<<10, 0, 255, 255>>) = <<10, 1, 0, 0>> /\ AddrDec(<<10, 1, 0, 0>>) = <<10, 0, 255, 255>>
ASSUME PrintT("NFUNIT ok")

Init == x = 0
Next == FALSE /\ x' = x
=============================================================================
