------------------------------ MODULE Gen_C09 ------------------------------
(* Enumerates ALL small endpoint layouts (C09 "small scope is exhaustive"): every layout is printed as one
   behaviour ("BEH [layout]") and rendered by the Go driver.
     policy  : staged or enforced, 1..MaxRules distinct rules over the alphabet Letters
               (A = allow tcp/80, D = deny from 10.0.0.0/8, P = pass udp: overlapping matches)
     tier    : default action Deny / Pass, 1..2 policies, inline (one group per policy) or one group
     layouts : (a) one tier of 1..2 policies;  (b) two tiers of one policy each
     profile : none, or one profile with one rule out of ProfLetters                                *)
EXTENDS Naturals, Sequences, FiniteSets, TLC, Json

CONSTANTS Letters, ProfLetters, MaxRules
VARIABLE x

RuleSeqs == { <<a>> : a \in Letters } \cup
            (IF MaxRules >= 2 THEN { s \in { <<a, b>> : a \in Letters, b \in Letters } : s[1] # s[2] } ELSE {})
Policies == [staged : BOOLEAN, rules : RuleSeqs]
Tier1 == { [def |-> d, grouped |-> FALSE, pols |-> <<p>>] : d \in {"Deny", "Pass"}, p \in Policies }
Tier2 == { [def |-> d, grouped |-> g, pols |-> <<p, q>>] : d \in {"Deny", "Pass"}, g \in BOOLEAN, p \in Policies, q \in Policies }
TierSeqs == { <<t>> : t \in Tier1 \cup Tier2 } \cup { <<t, u>> : t \in Tier1, u \in Tier1 }
Profs == {<<>>} \cup { <<a>> : a \in ProfLetters }
Layouts == { [tiers |-> ts, prof |-> pr] : ts \in TierSeqs, pr \in Profs }

ASSUME PrintT(<<"NLAYOUTS", Cardinality(Layouts)>>)
ASSUME \A L \in Layouts : PrintT("BEH " \o ToJson(<<L>>))

Init == x = 0
Next == FALSE /\ x' = x
=============================================================================
