------------------------------- MODULE T_C08 -------------------------------
(* C08: one proto.Rule rendered by the real ProtoRuleToIptablesRules (iptables and nftables factories),
   executed by the kernel model, must take the rule's action exactly when PolicySem!RuleMatches, and
   otherwise fall through to the next rule (a sentinel appended here) with the accept / pass / drop
   mark bits unchanged.  One trace line = one case; the universal quantifier over probe packets and
   initial marks is inside the step.                                                              *)
EXTENDS TraceLib, PolicyProbes, Netfilter

C08Bits(c, n) == NfElems(c.marks[n])

\* the rendered rules followed by a sentinel that leaves the program
C08Prog(c) ==
    [flavour |-> c.prog.flavour,
     chains |-> ("rule" :> (c.prog.chains["rule"] \o << [m |-> <<>>, a |-> [k |-> "goto", t |-> "SENTINEL"]] >>)),
     maps |-> c.prog.maps]

(* Initial marks.  Policy chains are only entered with the accept and drop bits clear (the endpoint
   chain returns as soon as accept is set, nothing survives a set drop bit) and, for policies, with the
   pass bit clear; profile chains can be entered with the pass bit set.  The two scratch bits are
   arbitrary; "all clear" and "all set" are the two values that expose a missing initialisation.      *)
C08Marks(c) ==
    LET s0 == C08Bits(c, "s0")  s1 == C08Bits(c, "s1")  pass == C08Bits(c, "pass")
    IN { {}, s0 \cup s1 \cup (IF PSAction(c.rule) = "pass" THEN {} ELSE pass) }

C08Verdict(c, P, p, m0, hit) ==
    LET res == RunChain(P, c.ksets, p @@ NfPktDefaults, "rule", m0)
        acc == C08Bits(c, "accept")   pass == C08Bits(c, "pass")
        keep == acc \cup pass \cup C08Bits(c, "drop")
        act == PSAction(c.rule)
        through == res.v = "ext" /\ res.t = "SENTINEL" /\ (res.st.mark \cap keep) = (m0 \cap keep)
    IN IF hit
       THEN CASE act = "allow" -> res.v = "return" /\ acc \subseteq res.st.mark
              [] act = "pass"  -> res.v = "return" /\ pass \subseteq res.st.mark
              [] act = "deny"  -> res.v = c.deny
              [] act = "log"   -> through
       ELSE through

C08CaseOK(c) ==
    /\ c.panic = ""
    /\ LET P == C08Prog(c)
           probes == RuleProbes(c.rule, c.ipv, c.ipsets)
           marks == C08Marks(c)
       IN /\ NfWellFormed(P, c.ksets)
          /\ \A p \in probes : LET hit == RuleMatches(c.rule, p, c.ipsets) IN \A m0 \in marks : C08Verdict(c, P, p, m0, hit)
          /\ PrintT(<<"NPROBE", Cardinality(probes), Cardinality(marks),
                      Cardinality({ p \in probes : RuleMatches(c.rule, p, c.ipsets) }), c.t>>)

TInit == l = 1
\* every case is consumed; a case the property rejects is reported (the orchestrator re-executes it and asks
\* for the diagnosis below before it reports anything)
TCase == IsEvent("reset") /\ IF C08CaseOK(Cur) THEN TRUE ELSE PrintT(<<"REJECT", Cur.t>>)
TNext == TCase

\* ---- diagnosis / classification of (re-executed) rejected cases ---------------------------------------
(* Classification of the known scratch-bit finding: the rule renders three or more positive match blocks (two
   or more "if the scratch bit is clear, clear the all-blocks bit" rules), every failing probe is a packet the
   rule must NOT match but the program takes the action for, and every failure disappears when the scratch bit is
   cleared after each of those rules (the program that resets the bit between blocks is correct).  Anything else
   is an ordinary verdict rejection.                                                                       *)
C08IsFinish(c, r) ==
    /\ r.a.k = "setmark" /\ NfElems(r.a.clr) = C08Bits(c, "s0") /\ r.a.xor = <<>> /\ r.a.or = <<>>
    /\ Len(r.m) = 1 /\ r.m[1].k = "mark" /\ NfElems(r.m[1].mask) = C08Bits(c, "s1") /\ r.m[1].val = <<>> /\ ~r.m[1].neg
RECURSIVE C08Repair(_, _, _)
C08Repair(c, rs, i) ==
    IF i > Len(rs) THEN <<>>
    ELSE (IF C08IsFinish(c, rs[i])
          THEN <<rs[i], [m |-> <<>>, a |-> [k |-> "setmark", clr |-> c.marks.s1, xor |-> <<>>, or |-> <<>>]]>>
          ELSE <<rs[i]>>) \o C08Repair(c, rs, i + 1)
C08Bad(c, P) ==
    { pm \in RuleProbes(c.rule, c.ipv, c.ipsets) \X C08Marks(c) :
         ~C08Verdict(c, P, pm[1], pm[2], RuleMatches(c.rule, pm[1], c.ipsets)) }
C08Diag(c) ==
    IF c.panic # "" THEN <<"CLASS", "panic", c.panic>>
    ELSE LET P == C08Prog(c)
             bad == C08Bad(c, P)
             one == CHOOSE pm \in bad : TRUE
             res == RunChain(P, c.ksets, one[1] @@ NfPktDefaults, "rule", one[2])
             nfinish == Cardinality({ i \in DOMAIN P.chains["rule"] : C08IsFinish(c, P.chains["rule"][i]) })
             repaired == [P EXCEPT !.chains = ("rule" :> C08Repair(c, P.chains["rule"], 1))]
             leak == /\ nfinish >= 2
                     /\ \A pm \in bad : ~RuleMatches(c.rule, pm[1], c.ipsets)
                     /\ C08Bad(c, repaired) = {}
         IN IF ~NfWellFormed(P, c.ksets) THEN <<"CLASS", "refused", NfRefusals(P, c.ksets)>>
            ELSE IF bad = {} THEN <<"CLASS", "none">>
            ELSE <<"CLASS", "verdict", IF leak THEN "multi-positive-block" ELSE PSAction(c.rule),
                   IF RuleMatches(c.rule, one[1], c.ipsets) THEN "hit" ELSE "miss",
                   "failing probes", Cardinality(bad), "packet", one[1], "mark0", one[2],
                   "result", res.v, res.t, res.st.mark>>
DCase == IsEvent("reset") /\ PrintT(<<"DIAG", Cur.t, C08Diag(Cur)>>)
DNext == DCase
=============================================================================
