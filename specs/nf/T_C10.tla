------------------------------- MODULE T_C10 -------------------------------
(* C10: dispatch chains rendered by the real renderer (iptables: interface-name prefix tree; nftables:
   verdict maps from DispatchMappings, namespaced by the real table layer), executed by the kernel model.
   Workload dispatch: a packet from/to a known workload interface leaves the dispatch program into that
   interface's own chain (the chain the renderer produces for that endpoint) - the first and only
   endpoint chain it reaches - and any other interface name carrying a workload prefix is denied.
   Host dispatch: a known host interface goes to its own chain, anything else to the wildcard host
   endpoint's chain iff one is configured, otherwise the packet simply returns (no policy).          *)
EXTENDS TraceLib, Netfilter, FiniteSets

NoSets == ("_none" :> [type |-> "net", members |-> <<>>])
Names(c) == { c.own[i].name : i \in DOMAIN c.own }
Prefixes(c) == NfElems(c.prefixes)
HasWlPrefix(c, x) == \E p \in Prefixes(c) : NfIsPrefix(p, x)
Chars == {48, 49, 97, 122}

\* every name, every name +- one character, every proper prefix, last character changed
Variants(n) ==
    {n} \cup { Append(n, ch) : ch \in Chars }
    \cup { SubSeq(n, 1, k) : k \in 1..(Len(n) - 1) }
    \cup (IF Len(n) = 0 THEN {} ELSE { [n EXCEPT ![Len(n)] = ch] : ch \in Chars })
ProbeNames(c) ==
    { x \in UNION { Variants(n) : n \in Names(c) \cup Prefixes(c) \cup { Append(p, 120) : p \in Prefixes(c) } } : Len(x) > 0 }
    \cup { <<108, 111>>, <<101, 116, 104, 57>> }                       \* "lo", "eth9"

Pkt(x, dir) ==
    [ipv |-> 4, proto |-> 6, src |-> <<10, 0, 0, 1>>, dst |-> <<10, 0, 0, 2>>, sport |-> 1, dport |-> 2, icmpType |-> 0, icmpCode |-> 0]
    @@ (IF dir = "in" THEN [iif |-> x] ELSE [oif |-> x]) @@ NfPktDefaults

OwnOf(c, x) == CHOOSE i \in DOMAIN c.own : c.own[i].name = x
Known(c, x) == \E i \in DOMAIN c.own : c.own[i].name = x

\* ---- workload dispatch ----------------------------------------------------------------------------
WlOK(c, x, root, dir, field) ==
    LET res == RunChain(c.prog, NoSets, Pkt(x, dir), root, {})
    IN IF Known(c, x) THEN res.v = "ext" /\ res.t = c.own[OwnOf(c, x)][field]
       ELSE res.v = c.deny
WlCaseOK(c) ==
    LET xs == { x \in ProbeNames(c) : HasWlPrefix(c, x) }
    IN /\ NfWellFormed(c.prog, NoSets)
       /\ \A x \in xs : WlOK(c, x, c.fromRoot, "in", "from") /\ WlOK(c, x, c.toRoot, "out", "to")
       /\ PrintT(<<"NPROBE", Cardinality(xs), 2, Cardinality(xs \cap Names(c)), c.t>>)

\* ---- host endpoint dispatch -----------------------------------------------------------------------
HostDirs == <<[f |-> "from", dir |-> "in"], [f |-> "to", dir |-> "out"], [f |-> "fromFwd", dir |-> "in"], [f |-> "toFwd", dir |-> "out"]>>
HostOK(c, x, d) ==
    LET root == c.roots[d.f]
        res == RunChain(c.prog, NoSets, Pkt(x, d.dir), root, {})
    IN IF root = "" THEN TRUE
       ELSE IF Known(c, x) THEN res.v = "ext" /\ res.t = c.own[OwnOf(c, x)][d.f]
       ELSE IF c.wild = <<>> THEN res.v = "return"
       ELSE IF d.f = "to" /\ c.skipWl /\ HasWlPrefix(c, x) THEN TRUE   \* traffic to a local workload: not host endpoint traffic
       ELSE res.v = "ext" /\ res.t = c.wild[1][d.f]
HostCaseOK(c) ==
    LET xs == ProbeNames(c)
    IN /\ NfWellFormed(c.prog, NoSets)
       /\ \A x \in xs : \A i \in DOMAIN HostDirs : HostOK(c, x, HostDirs[i])
       /\ PrintT(<<"NPROBE", Cardinality(xs), Cardinality({ i \in DOMAIN HostDirs : c.roots[HostDirs[i].f] # "" }),
                   Cardinality(xs \cap Names(c)), c.t>>)

C10CaseOK(c) == IF c.sub = "workload" THEN WlCaseOK(c) ELSE HostCaseOK(c)

TInit == l = 1
TCase == IsEvent("reset") /\ IF C10CaseOK(Cur) THEN TRUE ELSE PrintT(<<"REJECT", Cur.t>>)
TNext == TCase

C10Diag(c) ==
    IF ~NfWellFormed(c.prog, NoSets) THEN <<"CLASS", "refused", NfRefusals(c.prog, NoSets)>>
    ELSE IF c.sub = "workload" THEN
        LET bad == { xd \in { x \in ProbeNames(c) : HasWlPrefix(c, x) } \X {"in", "out"} :
                        ~(IF xd[2] = "in" THEN WlOK(c, xd[1], c.fromRoot, "in", "from") ELSE WlOK(c, xd[1], c.toRoot, "out", "to")) }
            one == CHOOSE xd \in bad : TRUE
            res == RunChain(c.prog, NoSets, Pkt(one[1], one[2]), IF one[2] = "in" THEN c.fromRoot ELSE c.toRoot, {})
        IN IF bad = {} THEN <<"CLASS", "none">>
           ELSE <<"CLASS", "verdict", "workload", IF Known(c, one[1]) THEN "known" ELSE "unknown", "failing probes", Cardinality(bad),
                  "iface", one[1], one[2], "result", res.v, res.t, "path", res.st.path>>
    ELSE
        LET bad == { xd \in ProbeNames(c) \X DOMAIN HostDirs : ~HostOK(c, xd[1], HostDirs[xd[2]]) }
            one == CHOOSE xd \in bad : TRUE
            res == RunChain(c.prog, NoSets, Pkt(one[1], HostDirs[one[2]].dir), c.roots[HostDirs[one[2]].f], {})
        IN IF bad = {} THEN <<"CLASS", "none">>
           ELSE <<"CLASS", "verdict", "host", IF Known(c, one[1]) THEN "known" ELSE "unknown", "failing probes", Cardinality(bad),
                  "iface", one[1], HostDirs[one[2]].f, "result", res.v, res.t, "path", res.st.path>>
DCase == IsEvent("reset") /\ PrintT(<<"DIAG", Cur.t, C10Diag(Cur)>>)
DNext == DCase
=============================================================================
