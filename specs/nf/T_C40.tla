------------------------------- MODULE T_C40 -------------------------------
(* C40 (and the rule half of C41): all static chains of the raw, mangle and filter tables, the base-chain
   hook rules, dispatch chains, endpoint chains and policy chains as programmed for one generated host,
   executed by the kernel model along whole packet paths (Netfilter!Path).  Four invariants:
     (i)   failsafe-port traffic to / from the host is never dropped, whatever host endpoint policy
           (untracked, pre-DNAT, normal) is configured;
     (ii)  a new connection's packet from an interface with a workload prefix that Felix has no endpoint
           for is dropped on the input path and on the forward path;
     (iii) workload -> host: the workload's egress policy decides before the endpoint-to-host action:
           denied by policy => dropped even if the action is ACCEPT; allowed => the action applies;
     (iv)  IPIP / VXLAN packets to the host whose source is not in the all-hosts / all-vxlan set are dropped.
   C41 rule half: wherever the flow-offload statement fires, the flow is established (conntrack state
   ESTABLISHED or RELATED - "NEW and INVALID packets still traverse policy", felix/design/dataplane.md)
   and neither address is in the no-flow-offload set.                                              *)
EXTENDS TraceLib, PolicyProbes, Netfilter

Eth0 == <<101, 116, 104, 48>>
Eth1 == <<101, 116, 104, 49>>
V(c) == c.ipv
HostIP(c) == IF V(c) = 4 THEN <<10, 0, 0, 9>> ELSE <<253, 0, 0, 0, 0, 0, 0, 0, 0, 0, 0, 0, 0, 0, 0, 9>>
OtherIP(c) == IF V(c) = 4 THEN <<10, 0, 0, 77>> ELSE <<253, 0, 0, 0, 0, 0, 0, 0, 0, 0, 0, 0, 0, 0, 0, 119>>

Base(c) == [ipv |-> V(c), proto |-> 6, src |-> DefaultSrc(V(c)), dst |-> HostIP(c), sport |-> 40000, dport |-> 8080,
            icmpType |-> 0, icmpCode |-> 0]
NF(p, iif, oif, ct, srcLocal, dstLocal) ==
    [iif |-> iif, oif |-> oif, ct |-> ct, srcLocal |-> srcLocal, dstLocal |-> dstLocal] @@ p @@ NfPktDefaults

\* ---- the three kinds of path ------------------------------------------------------------------------
ToHost(c, p, iif, ct) ==
    LET q == NF(p, iif, <<>>, ct, FALSE, TRUE)
    IN Path(c.tables, c.ksets, << [hook |-> "PREROUTING", pkt |-> q], [hook |-> "INPUT", pkt |-> q] >>, {})
FromHost(c, p, oif, ct) ==
    LET q == NF(p, <<>>, oif, ct, TRUE, FALSE)
    IN Path(c.tables, c.ksets, << [hook |-> "OUTPUT", pkt |-> q], [hook |-> "POSTROUTING", pkt |-> q] >>, {})
Forwarded(c, p, iif, oif, ct) ==
    Path(c.tables, c.ksets, << [hook |-> "PREROUTING", pkt |-> NF(p, iif, <<>>, ct, FALSE, FALSE)],
                              [hook |-> "FORWARD", pkt |-> NF(p, iif, oif, ct, FALSE, FALSE)],
                              [hook |-> "POSTROUTING", pkt |-> NF(p, <<>>, oif, ct, FALSE, FALSE)] >>, {})

AllWellFormed(c) == \A tb \in DOMAIN c.tables : NfWellFormed(c.tables[tb].prog, c.ksets)
AllRefusals(c) == UNION { NfRefusals(c.tables[tb].prog, c.ksets) : tb \in DOMAIN c.tables }

WlNames(c) == { c.workloads[i].name : i \in DOMAIN c.workloads }
HostIfaces(c) == {Eth0, Eth1}

\* ---- (i) failsafes -------------------------------------------------------------------------------
FsApplies(c, f) == f.net = <<>> \/ PSIsV(f.net[1], V(c))
FsPeers(c, f) == IF f.net = <<>> THEN {DefaultSrc(V(c)), OtherIP(c)} ELSE {FirstAddr(f.net[1]), LastAddr(f.net[1])}
InvFailsafe(c) ==
    /\ \A i \in DOMAIN c.cfg.failsafeIn : LET f == c.cfg.failsafeIn[i] IN
          FsApplies(c, f) => \A a \in FsPeers(c, f), x \in HostIfaces(c) :
              ToHost(c, [Base(c) EXCEPT !.proto = f.p, !.dport = f.port, !.src = a], x, "NEW").v = "accept"
    /\ \A i \in DOMAIN c.cfg.failsafeOut : LET f == c.cfg.failsafeOut[i] IN
          FsApplies(c, f) => \A a \in FsPeers(c, f), x \in HostIfaces(c) :
              FromHost(c, [Base(c) EXCEPT !.proto = f.p, !.dport = f.port, !.src = HostIP(c), !.dst = a], x, "NEW").v = "accept"
NFailsafe(c) == 4 * (Cardinality({ i \in DOMAIN c.cfg.failsafeIn : FsApplies(c, c.cfg.failsafeIn[i]) })
                     + Cardinality({ i \in DOMAIN c.cfg.failsafeOut : FsApplies(c, c.cfg.failsafeOut[i]) }))

\* ---- (ii) unknown workload interfaces ---------------------------------------------------------------
UnknownIfaces(c) ==
    { x \in { Append(p, 122) : p \in NfElems(c.prefixes) } \cup { Append(n, 120) : n \in WlNames(c) }
            \cup { SubSeq(n, 1, Len(n) - 1) : n \in WlNames(c) } :
        x \notin WlNames(c) /\ \E p \in NfElems(c.prefixes) : NfIsPrefix(p, x) }
SomePackets(c) ==
    { Base(c), [Base(c) EXCEPT !.proto = 17, !.dport = 53], [Base(c) EXCEPT !.src = OtherIP(c), !.dport = 22],
      [Base(c) EXCEPT !.proto = IF V(c) = 4 THEN 1 ELSE 58, !.sport = 0, !.dport = 0, !.icmpType = 8] }
    \cup { [Base(c) EXCEPT !.proto = c.cfg.failsafeIn[i].p, !.dport = c.cfg.failsafeIn[i].port] : i \in DOMAIN c.cfg.failsafeIn }
InvUnknown(c) ==
    \A x \in UnknownIfaces(c), p \in SomePackets(c) :
        /\ ToHost(c, p, x, "NEW").v = "drop"
        /\ \A o \in {Eth0} \cup WlNames(c) : Forwarded(c, [p EXCEPT !.dst = OtherIP(c)], x, o, "NEW").v = "drop"
NUnknown(c) == Cardinality(UnknownIfaces(c)) * Cardinality(SomePackets(c)) * (2 + Cardinality(WlNames(c)))

\* ---- (iii) workload -> host ---------------------------------------------------------------------------
WlRules(w) ==
    UNION { UNION { PSElems(w.egressTiers[i].policies[j].rules) : j \in DOMAIN w.egressTiers[i].policies } : i \in DOMAIN w.egressTiers }
    \cup UNION { PSElems(w.egressProfiles[i]) : i \in DOMAIN w.egressProfiles }
\* packets the static chains deal with before (or instead of) the workload's policy, by design
StaticSpecial(c, p) ==
    \/ V(c) = 6 /\ p.proto = 58 /\ p.icmpType \in {130, 131, 132, 133, 135, 136}
    \/ c.cfg.ipip /\ p.proto = 4
    \/ c.cfg.vxlan /\ p.proto = 17 /\ p.dport = c.cfg.vxlanPort
WlProbes(c, w) == { p \in SomePackets(c) \cup RulesProbes(WlRules(w), V(c), c.ipsets) : ~StaticSpecial(c, p) }
WlToHostOK(c, w, p) ==
    LET res == ToHost(c, p, w.name, "NEW")
        want == EndpointVerdict(w.egressTiers, w.egressProfiles, p, c.ipsets)
    IN IF want = "deny" THEN res.v = "drop"
       ELSE IF c.cfg.epToHost \in {"DROP", "REJECT"} THEN res.v = "drop"
       ELSE c.wildcard \/ (res.v = "accept" /\ \E k \in DOMAIN res.st.path : res.st.path[k] = w.from)
InvWlToHost(c) == \A i \in DOMAIN c.workloads : \A p \in WlProbes(c, c.workloads[i]) : WlToHostOK(c, c.workloads[i], p)
NWlToHost(c) == LET S == { Cardinality(WlProbes(c, c.workloads[i])) : i \in DOMAIN c.workloads } IN
                IF S = {} THEN 0 ELSE Cardinality(S) * (CHOOSE x \in S : \A y \in S : y <= x)

\* ---- (iv) tunnel ingress from non-cluster sources -------------------------------------------------------
InKSet(c, name, a) == \E i \in DOMAIN c.ksets[name].members : ContainsAddr(c.ksets[name].members[i], a)
TunnelSrcs(c, name) ==
    { a \in {DefaultSrc(V(c)), OtherIP(c)} \cup UNION { EdgeAddrs(c.ksets[name].members[i]) : i \in DOMAIN c.ksets[name].members } :
        ~InKSet(c, name, a) }
InvTunnel(c) ==
    /\ c.cfg.ipip => \A a \in TunnelSrcs(c, c.setNames.hosts), x \in HostIfaces(c) \cup WlNames(c) :
          ToHost(c, [Base(c) EXCEPT !.proto = 4, !.sport = 0, !.dport = 0, !.src = a], x, "NEW").v = "drop"
    /\ c.cfg.vxlan => \A a \in TunnelSrcs(c, c.setNames.vxlan), x \in HostIfaces(c) \cup WlNames(c) :
          ToHost(c, [Base(c) EXCEPT !.proto = 17, !.dport = c.cfg.vxlanPort, !.src = a], x, "NEW").v = "drop"
NTunnel(c) == (IF c.cfg.ipip THEN Cardinality(TunnelSrcs(c, c.setNames.hosts)) ELSE 0)
              + (IF c.cfg.vxlan THEN Cardinality(TunnelSrcs(c, c.setNames.vxlan)) ELSE 0)

C40CaseOK(c) ==
    /\ AllWellFormed(c)
    /\ InvFailsafe(c) /\ InvUnknown(c) /\ InvWlToHost(c) /\ InvTunnel(c)
    /\ PrintT(<<"NPROBE", NFailsafe(c) + NUnknown(c) + NWlToHost(c) + NTunnel(c), 1,
                (IF NFailsafe(c) > 0 THEN 1 ELSE 0) + (IF NUnknown(c) > 0 THEN 1 ELSE 0) + (IF NWlToHost(c) > 0 THEN 1 ELSE 0)
                + (IF NTunnel(c) > 0 THEN 1 ELSE 0), c.t>>)

TInit == l = 1
TCase == IsEvent("reset") /\ IF C40CaseOK(Cur) THEN TRUE ELSE PrintT(<<"REJECT", Cur.t>>)
TNext == TCase

C40Diag(c) ==
    IF ~AllWellFormed(c) THEN <<"CLASS", "refused", AllRefusals(c)>>
    ELSE IF ~InvFailsafe(c) THEN <<"CLASS", "invariant", "failsafe">>
    ELSE IF ~InvUnknown(c) THEN <<"CLASS", "invariant", "unknown-workload-interface">>
    ELSE IF ~InvWlToHost(c) THEN
        LET bad == { wp \in UNION { {i} \X WlProbes(c, c.workloads[i]) : i \in DOMAIN c.workloads } : ~WlToHostOK(c, c.workloads[wp[1]], wp[2]) }
            one == CHOOSE wp \in bad : TRUE
            res == ToHost(c, one[2], c.workloads[one[1]].name, "NEW")
        IN <<"CLASS", "invariant", "workload-to-host", "want", EndpointVerdict(c.workloads[one[1]].egressTiers, c.workloads[one[1]].egressProfiles, one[2], c.ipsets),
             "action", c.cfg.epToHost, "packet", one[2], "result", res.v, res.t, "path", res.st.path>>
    ELSE IF ~InvTunnel(c) THEN <<"CLASS", "invariant", "tunnel">>
    ELSE <<"CLASS", "none">>
DCase == IsEvent("reset") /\ PrintT(<<"DIAG", Cur.t, C40Diag(Cur)>>)
DNext == DCase

\* ---- C41 rule half ---------------------------------------------------------------------------------------
CtStates == {"NEW", "ESTABLISHED", "RELATED", "INVALID", "UNTRACKED"}
OffAddrs(c) ==
    {DefaultSrc(V(c)), OtherIP(c)}
    \cup UNION { EdgeAddrs(c.ksets[c.setNames.noOffload].members[i]) : i \in DOMAIN c.ksets[c.setNames.noOffload].members }
\* interface pairs: host-to-host interface, and to / from every workload
OffIfacePairs(c) == {<<Eth0, Eth1>>} \cup { <<w, Eth0>> : w \in WlNames(c) } \cup { <<Eth0, w>> : w \in WlNames(c) }
OffRuns(c) ==
    { [ct |-> ct, src |-> s, dst |-> d,
       res |-> Forwarded(c, [Base(c) EXCEPT !.src = s, !.dst = d], io[1], io[2], ct)] :
        ct \in CtStates, s \in OffAddrs(c), d \in OffAddrs(c), io \in OffIfacePairs(c) }
OffOK(c, r) ==
    r.res.st.offload => /\ r.ct \in {"ESTABLISHED", "RELATED"}
                        /\ ~InKSet(c, c.setNames.noOffload, r.src) /\ ~InKSet(c, c.setNames.noOffload, r.dst)
C41CaseOK(c) ==
    LET runs == OffRuns(c)
    IN /\ AllWellFormed(c)
       /\ \A r \in runs : OffOK(c, r)
       /\ PrintT(<<"NPROBE", Cardinality(CtStates) * Cardinality(OffAddrs(c)) * Cardinality(OffAddrs(c)) * Cardinality(OffIfacePairs(c)),
                   1, Cardinality({ r \in runs : r.res.st.offload }), c.t>>)
TCase41 == IsEvent("reset") /\ IF C41CaseOK(Cur) THEN TRUE ELSE PrintT(<<"REJECT", Cur.t>>)
TNext41 == TCase41
C41Diag(c) ==
    IF ~AllWellFormed(c) THEN <<"CLASS", "refused", AllRefusals(c)>>
    ELSE LET bad == { r \in OffRuns(c) : ~OffOK(c, r) }
             one == CHOOSE r \in bad : TRUE
         IN IF bad = {} THEN <<"CLASS", "none">>
            ELSE <<"CLASS", "offload", one.ct, "src-excluded", InKSet(c, c.setNames.noOffload, one.src),
                   "dst-excluded", InKSet(c, c.setNames.noOffload, one.dst), "src", one.src, "dst", one.dst>>
DCase41 == IsEvent("reset") /\ PrintT(<<"DIAG", Cur.t, C41Diag(Cur)>>)
DNext41 == DCase41
=============================================================================
