INIT TInit
NEXT TNext41
POSTCONDITION TraceAccepted
CHECK_DEADLOCK FALSE
