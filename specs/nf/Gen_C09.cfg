CONSTANTS
  Letters = {"A", "D", "P"}
  ProfLetters = {"A", "D"}
  MaxRules = 2
INIT Init
NEXT Next
CHECK_DEADLOCK FALSE
