CONSTANTS
  Letters = {"A", "D", "P"}
  ProfLetters = {"A", "D"}
  MaxRules = 1
INIT Init
NEXT Next
CHECK_DEADLOCK FALSE
