INIT TInit
NEXT DNext41
POSTCONDITION TraceAccepted
CHECK_DEADLOCK FALSE
