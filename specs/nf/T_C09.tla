------------------------------- MODULE T_C09 -------------------------------
(* C09: the endpoint chain rendered by the real renderer (with the policy, policy-group and profile chains
   it reaches), executed by the kernel model for a new connection's packet, reaches the verdict of
   PolicySem!EndpointVerdict: tiers in order, first allow/deny decides, pass -> next tier, a tier with an
   enforced policy for the direction and no match denies unless its default action is Pass, staged
   policies never count, then profiles, then deny.
   Verdict of a rendered endpoint chain: RETURN with the accept mark bit set = allow (the calling static
   chain accepts); DROP / REJECT (as configured) = deny; anything else is no verdict at all.
   "forward" chains (host endpoint apply-on-forward) have no profiles: no tiers = allow; when every tier
   passes, the statement says nothing and nothing is demanded.                                     *)
EXTENDS TraceLib, PolicyProbes, Netfilter

C09Bits(c, n) == NfElems(c.marks[n])

C09AllRules(c) ==
    UNION { UNION { PSElems(c.tiers[i].policies[j].rules) : j \in DOMAIN c.tiers[i].policies } : i \in DOMAIN c.tiers }
    \cup UNION { PSElems(c.profiles[i]) : i \in DOMAIN c.profiles }

C09Blank(v) == [ipv |-> v, proto |-> 6, src |-> DefaultSrc(v), dst |-> DefaultDst(v), sport |-> 1024, dport |-> 1024,
                icmpType |-> 0, icmpCode |-> 0]
C09Probes(c) == {C09Blank(c.ipv)} \cup RulesProbes(C09AllRules(c), c.ipv, c.ipsets)

\* the endpoint chain clears the accept and pass bits itself: any initial mark must give the same verdict
C09Marks(c) == { {}, C09Bits(c, "accept") \cup C09Bits(c, "pass") \cup C09Bits(c, "s0") \cup C09Bits(c, "s1") }

C09Want(c, p) ==
    IF c.ctype = "normal" THEN EndpointVerdict(c.tiers, c.profiles, p, c.ipsets)
    ELSE IF c.tiers = <<>> THEN "allow" ELSE TiersVerdict(c.tiers, p, c.ipsets)

C09Got(c, p, m0) ==
    LET res == RunChain(c.prog, c.ksets, p @@ NfPktDefaults, c.entry, m0)
    IN IF res.v = "return" /\ C09Bits(c, "accept") \subseteq res.st.mark THEN "allow"
       ELSE IF res.v = c.deny THEN "deny"
       ELSE IF res.v = "return" THEN "next"
       ELSE res.v

C09Verdict(c, p, m0, want) == want = "next" \/ C09Got(c, p, m0) = want

C09CaseOK(c) ==
    LET probes == C09Probes(c)
        marks == C09Marks(c)
    IN /\ NfWellFormed(c.prog, c.ksets)
       /\ \A p \in probes : LET want == C09Want(c, p) IN \A m0 \in marks : C09Verdict(c, p, m0, want)
       /\ PrintT(<<"NPROBE", Cardinality(probes), Cardinality(marks),
                   Cardinality({ C09Want(c, p) : p \in probes }), c.t>>)

TInit == l = 1
TCase == IsEvent("reset") /\ IF C09CaseOK(Cur) THEN TRUE ELSE PrintT(<<"REJECT", Cur.t>>)
TNext == TCase

C09Diag(c) ==
    LET bad == { pm \in C09Probes(c) \X C09Marks(c) : ~C09Verdict(c, pm[1], pm[2], C09Want(c, pm[1])) }
        one == CHOOSE pm \in bad : TRUE
        res == RunChain(c.prog, c.ksets, one[1] @@ NfPktDefaults, c.entry, one[2])
    IN IF ~NfWellFormed(c.prog, c.ksets) THEN <<"CLASS", "refused", NfRefusals(c.prog, c.ksets)>>
       ELSE IF bad = {} THEN <<"CLASS", "none">>
       ELSE <<"CLASS", "verdict", C09Want(c, one[1]), C09Got(c, one[1], one[2]), "failing probes", Cardinality(bad),
              "packet", one[1], "mark0", one[2], "result", res.v, res.t, res.st.mark, "path", res.st.path>>
DCase == IsEvent("reset") /\ PrintT(<<"DIAG", Cur.t, C09Diag(Cur)>>)
DNext == DCase
=============================================================================
