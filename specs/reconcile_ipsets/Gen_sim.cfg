CONSTANTS
  Ids = {"a", "b"}
  Rich = 2
  SimLen = 14
  Sim = TRUE
INIT GInit
NEXT GNext
INVARIANT EmitAtLen
CHECK_DEADLOCK FALSE
