CONSTANTS
  Ids = {"a"}
  Rich = 0
  SimLen = 4
  Sim = FALSE
INIT GInit
NEXT GNext
VIEW GView
ACTION_CONSTRAINT EmitEdge
CHECK_DEADLOCK FALSE
