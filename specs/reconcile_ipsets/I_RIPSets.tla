---------------------------- MODULE I_RIPSets ----------------------------
(* C16 implementation layer / design leg: a reconciler shaped like felix/ipsets/ipsets.go running
   against the property layer RIPSets and the finite environment RIPSetsEnv, one action per kernel
   command (ipset restore is not atomic):
     - view   : what the reconciler believes the kernel holds (setNameToProgrammedMetadata.Dataplane()
                + the members' dataplane side), refreshed by a resync, updated by its own writes;
     - queue  : the remaining lines of the current `ipset restore` session, planned from view and
                desired exactly as writeUpdates does: missing set -> create + adds; parameters differ ->
                create temp, adds, swap; else dels of undesired members, then adds of missing ones;
     - a line the kernel rejects or the environment makes fail aborts the session and forces a resync;
     - deletions (one per ApplyDeletions, as MaxIPSetDeletionsPerIteration = 1) only after the tables.
   TLC checks exhaustively that every step this reconciler takes satisfies the preconditions of the
   property layer (invariants AcceptedStep etc.): temp-set-and-swap and the update/tables/delete order are sufficient for
   C16 under every interleaving of out-of-band edits and command failures in the model.           *)
EXTENDS RIPSetsEnv

CONSTANTS MaxEdits, MaxFails,
          Single          \* BOOLEAN: the caller also adds / removes single members (AddMembers / RemoveMembers)
VARIABLES view, queue, st, nEdits, nFails
ivars == <<view, queue, st, nEdits, nFails>>
\* st: [needResync, planned: BOOLEAN, stage: "out" | "upd" | "tab" | "del0" | "del"]  (one round = int_dataplane.apply())

SetToSeq(S) == CHOOSE s \in [1..Cardinality(S) -> S] : \A i, j \in 1..Cardinality(S) : i # j => s[i] # s[j]
RECURSIVE Concat(_)
Concat(ss) == IF ss = <<>> THEN <<>> ELSE Head(ss) \o Concat(Tail(ss))

TempNames == {"cali4t0", "cali4t1", "cali4t2", "cali4t3", "cali4t4"}
FreeTemp(v) == CHOOSE t \in TempNames : t \notin DOMAIN v
Line(kind, n, x) == [kind |-> kind, set |-> n, x |-> x]

PlanOne(v, n, w) ==
    IF n \notin DOMAIN v
      THEN <<Line("create", n, w)>> \o [i \in 1..Cardinality(w.members) |-> Line("add", n, SetToSeq(w.members)[i])]
    ELSE IF Params(v[n]) # Params(w)
      THEN LET t == FreeTemp(v) IN
           <<Line("create", t, w)>> \o [i \in 1..Cardinality(w.members) |-> Line("add", t, SetToSeq(w.members)[i])]
           \o <<Line("swap", n, t)>>
    ELSE LET dels == v[n].members \ w.members
             adds == w.members \ v[n].members IN
         [i \in 1..Cardinality(dels) |-> Line("del", n, SetToSeq(dels)[i])]
         \o [i \in 1..Cardinality(adds) |-> Line("add", n, SetToSeq(adds)[i])]
Plan(v) == LET ids == SetToSeq(DOMAIN desired) IN
           Concat([i \in 1..Len(ids) |-> PlanOne(v, MainName(ids[i]), desired[ids[i]])])

\* kernel semantics of one restore line: <<accepted, new kernel>>
Eff(k, c) ==
    CASE c.kind = "create" -> IF c.set \in DOMAIN k THEN <<FALSE, k>>
                              ELSE <<TRUE, Put(k, c.set, [type |-> c.x.type, max |-> c.x.max, members |-> {}])>>
      [] c.kind = "add" -> IF c.set \notin DOMAIN k \/ c.x \in k[c.set].members THEN <<FALSE, k>>
                           ELSE <<TRUE, [k EXCEPT ![c.set].members = @ \cup {c.x}]>>
      [] c.kind = "del" -> IF c.set \notin DOMAIN k THEN <<FALSE, k>>
                           ELSE <<TRUE, [k EXCEPT ![c.set].members = @ \ {c.x}]>>
      [] c.kind = "swap" -> IF c.set \notin DOMAIN k \/ c.x \notin DOMAIN k THEN <<FALSE, k>>
                            ELSE <<TRUE, [k EXCEPT ![c.set] = k[c.x], ![c.x] = k[c.set]]>>
\* the reconciler's own bookkeeping of the same line
Book(v, c) ==
    CASE c.kind = "create" -> Put(v, c.set, [type |-> c.x.type, max |-> c.x.max, members |-> {}])
      [] c.kind = "add" -> [v EXCEPT ![c.set].members = @ \cup {c.x}]
      [] c.kind = "del" -> [v EXCEPT ![c.set].members = @ \ {c.x}]
      [] c.kind = "swap" -> [v EXCEPT ![c.set] = v[c.x], ![c.x] = v[c.set]]

IInit == \E k \in StartKernels :
            /\ kernel = k /\ desired = [x \in {} |-> 0] /\ refs = {}
            /\ belief = [stale |-> DOMAIN k, leak |-> {}]
            /\ phase = [at |-> "idle", envFail |-> FALSE, born |-> {}]
            /\ view = [x \in {} |-> 0] /\ queue = <<>>
            /\ st = [needResync |-> TRUE, planned |-> FALSE, stage |-> "out"]
            /\ nEdits = 0 /\ nFails = 0

\* ---- caller ---------------------------------------------------------------------------------------
ISet == st.stage = "out" /\ \E id \in Ids : \E s \in SetMenu(id) : SetSet(id, s) /\ UNCHANGED ivars
IAdd == Single /\ st.stage = "out" /\ \E id \in DOMAIN desired : \E m \in Pool(id) : m \notin desired[id].members /\ AddMembers(id, {m}) /\ UNCHANGED ivars
IDel == Single /\ st.stage = "out" /\ \E id \in DOMAIN desired : \E m \in desired[id].members : RemoveMembers(id, {m}) /\ UNCHANGED ivars
IRemove == st.stage = "out" /\ \E id \in DOMAIN desired : RemoveSet(id) /\ UNCHANGED ivars
IQueueResync == st.stage = "out" /\ ~st.needResync /\ QueueResync /\ st' = [st EXCEPT !.needResync = TRUE] /\ UNCHANGED <<view, queue, nEdits, nFails>>
\* ---- environment ----------------------------------------------------------------------------------
IEdit == /\ nEdits < MaxEdits /\ nEdits' = nEdits + 1
         /\ \E e \in Edits : EditFn(kernel, refs, e) # kernel /\ ExternalEdit(EditFn(kernel, refs, e))
         /\ UNCHANGED <<view, queue, st, nFails>>
\* ---- ApplyUpdates ---------------------------------------------------------------------------------
IUpdatesBegin == st.stage = "out" /\ UpdatesBegin /\ st' = [st EXCEPT !.planned = FALSE, !.stage = "upd"] /\ UNCHANGED <<view, queue, nEdits, nFails>>
\* list the names, then every owned set (drawn as one step: no edit interleaves in the model)
IResync == /\ phase.at = "updates" /\ st.needResync /\ queue = <<>>
           /\ view' = [n \in { x \in DOMAIN kernel : Owned(x) } |-> kernel[n]]
           /\ belief' = [stale |-> {}, leak |-> {}]
           /\ st' = [st EXCEPT !.needResync = FALSE, !.planned = FALSE]
           /\ UNCHANGED <<kernel, desired, refs, phase, queue, nEdits, nFails>>
IPlan == /\ phase.at = "updates" /\ ~st.needResync /\ ~st.planned /\ queue = <<>>
         /\ queue' = Plan(view) /\ st' = [st EXCEPT !.planned = TRUE]
         /\ UNCHANGED <<kernel, desired, refs, belief, phase, view, nEdits, nFails>>
IStep == /\ phase.at = "updates" /\ queue # <<>>
         /\ LET c == Head(queue)
                r == Eff(kernel, c) IN
            /\ Cmd(c.kind, c.set, r[1], FALSE, r[2])
            /\ IF r[1] THEN queue' = Tail(queue) /\ view' = Book(view, c) /\ UNCHANGED st
                       ELSE queue' = <<>> /\ UNCHANGED view /\ st' = [st EXCEPT !.needResync = TRUE, !.planned = FALSE]
         /\ UNCHANGED <<nEdits, nFails>>
\* the environment makes the next line fail (nothing is applied)
IInject == /\ phase.at = "updates" /\ queue # <<>> /\ nFails < MaxFails /\ nFails' = nFails + 1
           /\ Cmd(Head(queue).kind, Head(queue).set, FALSE, TRUE, kernel)
           /\ queue' = <<>> /\ st' = [st EXCEPT !.needResync = TRUE, !.planned = FALSE]
           /\ UNCHANGED <<view, nEdits>>
IUpdatesEnd == /\ phase.at = "updates" /\ queue = <<>> /\ st.planned /\ ~st.needResync
               /\ UpdatesEnd(TRUE) /\ st' = [st EXCEPT !.stage = "tab"] /\ UNCHANGED <<view, queue, nEdits, nFails>>
\* ---- tables, ApplyDeletions ---------------------------------------------------------------------------
ITables == /\ st.stage = "tab" /\ \E R \in {{}, DesiredNames \cap DOMAIN kernel} : TablesApply(R)
           /\ st' = [st EXCEPT !.stage = "del0"] /\ UNCHANGED <<view, queue, nEdits, nFails>>
Strays(v) == { n \in DOMAIN v : n \notin DesiredNames }
IDeletionsBegin == st.stage = "del0" /\ DeletionsBegin /\ st' = [st EXCEPT !.stage = "del"] /\ UNCHANGED <<view, queue, nEdits, nFails>>
IDestroy == /\ phase.at = "deletions" /\ Strays(view) # {}
            /\ LET n == CHOOSE x \in Strays(view) : TRUE
                   ok == n \in DOMAIN kernel IN
               /\ Cmd("destroy", n, ok, FALSE, IF ok THEN Drop(kernel, n) ELSE kernel)
               /\ view' = Drop(view, n)
            /\ UNCHANGED <<queue, st, nEdits, nFails>>
\* (ApplyDeletions is repeated by the main loop until nothing is pending)
IDeletionsEnd == /\ phase.at = "deletions" /\ Strays(view) = {}
                 /\ DeletionsEnd(Strays(view) # {})
                 /\ st' = [st EXCEPT !.stage = "out"] /\ UNCHANGED <<view, queue, nEdits, nFails>>

INext == ISet \/ IAdd \/ IDel \/ IRemove \/ IQueueResync \/ IEdit \/ IUpdatesBegin \/ IResync \/ IPlan \/ IStep
         \/ IInject \/ IUpdatesEnd \/ ITables \/ IDeletionsBegin \/ IDestroy \/ IDeletionsEnd

\* ---- what TLC checks -----------------------------------------------------------------------------------
\* the reconciler's next step satisfies the property layer's preconditions
AcceptedStep ==
    (phase.at = "updates" /\ queue # <<>>) =>
       LET c == Head(queue)
           r == Eff(kernel, c) IN
       /\ ForeignSame(kernel, r[2]) /\ RefStepOK(kernel, r[2])
AcceptedEnd ==
    (phase.at = "updates" /\ queue = <<>> /\ st.planned /\ ~st.needResync) =>
       DesiredExact(kernel, DesiredNames \ belief.stale)
AcceptedDestroy ==
    (phase.at = "deletions" /\ Strays(view) # {}) =>
       LET n == CHOOSE x \in Strays(view) : TRUE IN n \notin DesiredNames /\ n \notin refs
AcceptedDeletionsEnd ==
    (phase.at = "deletions" /\ Strays(view) = {}) => NoStray(kernel, belief.stale \cup belief.leak \cup refs)
TypeOK == /\ \A n \in DOMAIN kernel : kernel[n].type \in {"hash:ip", "hash:net"} /\ kernel[n].max \in {1234, 5678}
          /\ refs \subseteq DOMAIN kernel
IView == <<kernel, desired, refs, belief, phase, view, queue, st, nEdits, nFails>>
=============================================================================
