------------------------------ MODULE RIPSets ------------------------------
(* C16 property layer: felix/ipsets.IPSets reconciling the kernel's IP sets (the package's own mock
   dataplane) with the desired sets, in the order of int_dataplane.apply(): ApplyUpdates (creates and
   content updates), then the tables are applied (rules start/stop referencing sets), then ApplyDeletions.

   kernel  : name :-> [type, max, members]      every IP set the kernel holds, Felix's or not
   desired : id   :-> [type, max, members]      what the caller asked for; the kernel name of id is
                                                MainName(id); ownership of a kernel name is decided by
                                                the configured prefixes (Owned), here, not in Go
   refs    : names of sets that rules in the kernel reference (set by TablesApply)
   belief  : stale = names whose kernel state was changed behind Felix's back (or all, after a
             restart) and that Felix has not listed since;  leak = names whose destroy the
             environment made fail, and sets created in a restore session that then failed (Felix
             deals with both only after the next resync)

   The property (C16) is the conjunction of the preconditions of Cmd, UpdatesEnd, DeletionsEnd, Final:
     at EVERY kernel command the mock sees
       - a set that is not Felix's is left exactly as it was;
       - no destroy is attempted on a desired set or on a set a rule references;
       - a set that a rule references does not vanish, and if it is desired its visible content only
         moves towards the desired content: members are only removed if undesired and only added if
         desired; while its parameters differ from the desired ones the live set is not edited at all
         and the command that changes the parameters (swap) installs exactly the desired content;
     after a successful ApplyUpdates + ApplyDeletions round every desired set that Felix has no excuse
     not to know is exactly as desired (type, parameters, members), and when no more deletions are
     pending no other Felix-owned set is left (except those whose destroy the environment refused);
     after a completed resync (Final) both hold without excuses; ApplyUpdates only fails when the
     environment made commands fail.                                                               *)
EXTENDS Naturals, Sequences, FiniteSets, TLC

VARIABLES kernel, desired, refs, belief, phase
vars == <<kernel, desired, refs, belief, phase>>

HasPrefix(s, p) == Len(s) >= Len(p) /\ SubSeq(s, 1, Len(p)) = p
\* NewIPVersionConfig(IPFamilyV4, "cali", ["felix-", "cali"], ...): versioned prefixes
Owned(n) == HasPrefix(n, "cali4") \/ HasPrefix(n, "felix-4")
MainName(id) == "cali40" \o id
DesiredNames == { MainName(id) : id \in DOMAIN desired }
IdOf(n) == CHOOSE id \in DOMAIN desired : MainName(id) = n
Want(n) == desired[IdOf(n)]

Put(f, x, v) == [c \in DOMAIN f \cup {x} |-> IF c = x THEN v ELSE f[c]]
Drop(f, x) == [c \in DOMAIN f \ {x} |-> f[c]]
Changed(k1, k2) == { n \in DOMAIN k1 \cup DOMAIN k2 : n \notin DOMAIN k1 \/ n \notin DOMAIN k2 \/ k1[n] # k2[n] }
Params(s) == [type |-> s.type, max |-> s.max]

\* ---- the property -------------------------------------------------------------------------------
ForeignSame(k1, k2) == \A n \in Changed(k1, k2) : Owned(n)

\* one kernel command moved the kernel from k1 to k2
RefStepOK(k1, k2) ==
    \A n \in refs \cap DOMAIN k1 :
       /\ n \in DOMAIN k2
       /\ n \in DesiredNames =>
            LET w == Want(n) IN
            \* what somebody else put into a set that is then swapped in is not Felix's doing
            \/ \E t \in (belief.stale \cap DOMAIN k1) \ {n} : k1[t] = k2[n]
            \/ IF Params(k2[n]) # Params(k1[n])
                 THEN k2[n] = w                                        \* parameters replaced: complete new content
                 ELSE IF Params(k1[n]) # Params(w) /\ n \notin belief.stale
                        THEN k2[n] = k1[n]                             \* replacement pending (and known to be): live set untouched
                        ELSE /\ (k1[n].members \ k2[n].members) \cap w.members = {}
                             /\ (k2[n].members \ k1[n].members) \subseteq w.members

DesiredExact(k, names) == \A n \in names : n \in DOMAIN k /\ k[n] = Want(n)
NoStray(k, excused) == \A n \in DOMAIN k : Owned(n) /\ n \notin DesiredNames => n \in excused

\* ---- actions ------------------------------------------------------------------------------------
Idle == phase.at = "idle"
Reset(k) == /\ kernel' = k /\ desired' = [x \in {} |-> 0] /\ refs' = {}
            /\ belief' = [stale |-> DOMAIN k, leak |-> {}]
            /\ phase' = [at |-> "idle", envFail |-> FALSE, born |-> {}]

\* AddOrReplaceIPSet / AddMembers / RemoveMembers / RemoveIPSet
SetSet(id, s) == Idle /\ desired' = Put(desired, id, s) /\ UNCHANGED <<kernel, refs, belief, phase>>
AddMembers(id, ms) == Idle /\ id \in DOMAIN desired
                      /\ desired' = [desired EXCEPT ![id].members = @ \cup ms] /\ UNCHANGED <<kernel, refs, belief, phase>>
RemoveMembers(id, ms) == Idle /\ id \in DOMAIN desired
                         /\ desired' = [desired EXCEPT ![id].members = @ \ ms] /\ UNCHANGED <<kernel, refs, belief, phase>>
RemoveSet(id) == Idle /\ desired' = Drop(desired, id) /\ UNCHANGED <<kernel, refs, belief, phase>>

\* other software edits the kernel (it cannot remove a set that rules reference: the kernel refuses)
ExternalEdit(k) == /\ refs \subseteq DOMAIN k
                   /\ kernel' = k
                   /\ belief' = [belief EXCEPT !.stale = @ \cup Changed(kernel, k)]
                   /\ UNCHANGED <<desired, refs, phase>>
QueueResync == Idle /\ UNCHANGED vars
Restart == /\ Idle /\ desired' = [x \in {} |-> 0]
           /\ belief' = [stale |-> DOMAIN kernel, leak |-> {}]
           /\ UNCHANGED <<kernel, refs, phase>>

UpdatesBegin == Idle /\ phase' = [at |-> "updates", envFail |-> FALSE, born |-> {}] /\ UNCHANGED <<kernel, desired, refs, belief>>
\* Felix lists the set names / one set
ListNames(ok) == /\ phase.at = "updates"
                 /\ IF ok THEN belief' = [belief EXCEPT !.stale = @ \cap DOMAIN kernel, !.leak = @ \cap DOMAIN kernel] /\ UNCHANGED phase
                          ELSE phase' = [phase EXCEPT !.envFail = TRUE] /\ UNCHANGED belief
                 /\ UNCHANGED <<kernel, desired, refs>>
ListSet(n, ok) == /\ phase.at = "updates"
                  /\ IF ok THEN belief' = [stale |-> belief.stale \ {n}, leak |-> belief.leak \ {n}] /\ UNCHANGED phase
                           ELSE phase' = [phase EXCEPT !.envFail = TRUE] /\ UNCHANGED belief
                  /\ UNCHANGED <<kernel, desired, refs>>
\* one kernel command (an `ipset restore` line, or `ipset destroy`); kind "destroy" = attempt to destroy n
Cmd(kind, n, ok, injected, k) ==
    /\ phase.at \in {"updates", "deletions"}
    /\ ForeignSame(kernel, k)
    /\ RefStepOK(kernel, k)
    /\ kind = "destroy" => n \notin DesiredNames /\ n \notin refs
    /\ kernel' = k
    \* sets created in this phase before a command failed (temporary sets of an aborted restore session)
    \* are not in Felix's books; it finds them at the next resync
    /\ LET born == phase.born \cup (DOMAIN k \ DOMAIN kernel)
           \* content that somebody else put into a set travels with a swap
           tainted == { x \in Changed(kernel, k) \cap DOMAIN k : \E t \in belief.stale \cap DOMAIN kernel : kernel[t] = k[x] }
       IN
       /\ belief' = [stale |-> belief.stale \cup tainted,
                     leak |-> IF ok THEN belief.leak
                              ELSE belief.leak \cup born \cup (IF kind = "destroy" /\ injected THEN {n} ELSE {})]
       /\ phase' = [phase EXCEPT !.born = born, !.envFail = @ \/ (~ok /\ injected)]
    /\ UNCHANGED <<desired, refs>>
\* a restore session that fails without having executed a line (start / pipe failures)
RestoreFail == /\ phase.at = "updates" /\ phase' = [phase EXCEPT !.envFail = TRUE]
               /\ belief' = [belief EXCEPT !.leak = @ \cup phase.born]
               /\ UNCHANGED <<kernel, desired, refs>>
UpdatesEnd(ok) ==
    /\ phase.at = "updates"
    /\ IF ok THEN DesiredExact(kernel, DesiredNames \ belief.stale) ELSE phase.envFail
    /\ phase' = [phase EXCEPT !.at = "idle"]
    /\ UNCHANGED <<kernel, desired, refs, belief>>
\* the tables have been applied: rules now reference exactly R (sets that exist)
TablesApply(R) == Idle /\ R \subseteq DOMAIN kernel /\ refs' = R /\ UNCHANGED <<kernel, desired, belief, phase>>
DeletionsBegin == Idle /\ phase' = [at |-> "deletions", envFail |-> FALSE, born |-> {}] /\ UNCHANGED <<kernel, desired, refs, belief>>
DeletionsEnd(resched) ==
    /\ phase.at = "deletions"
    /\ ~resched => NoStray(kernel, belief.stale \cup belief.leak \cup refs)
    /\ phase' = [phase EXCEPT !.at = "idle"]
    /\ UNCHANGED <<kernel, desired, refs, belief>>
\* a requested resync has been drained completely (no injected failure since): no excuses left
Final == /\ Idle
         /\ DesiredExact(kernel, DesiredNames)
         /\ NoStray(kernel, refs)
         /\ belief' = [stale |-> {}, leak |-> {}]
         /\ UNCHANGED <<kernel, desired, refs, phase>>
=============================================================================
