---------------------------- MODULE Gen_RIPSets ----------------------------
(* Behaviour generator for C16 (leg A): start kernels x desired-set histories x out-of-band edits x
   injected command failures x resyncs x restarts.  "round" = one pass of int_dataplane.apply():
   ApplyUpdates, tables (rules reference the sets in `use`), ApplyDeletions; rfail / lfail = failures
   of the restore / list commands (the mock's failure points), dfail = the next destroy fails,
   allfail = every restore fails (ApplyUpdates gives up, Felix restarts), pre = an out-of-band edit
   made right before the at-th kernel command of the round.  The kernel predicted here (Converge) only
   steers exploration; verdicts come from validating the recorded trace against RIPSets.          *)
EXTENDS RIPSetsEnv, Json

CONSTANTS SimLen, Sim
VARIABLE hist
gvars == <<kernel, desired, refs, belief, phase, hist>>

Pick(S) == IF Sim /\ S # {} THEN {RandomElement(S)} ELSE S
Rarely(n) == IF Sim THEN RandomElement(1..n) = 1 ELSE TRUE
SetToSeq(S) == CHOOSE s \in [1..Cardinality(S) -> S] : \A i, j \in 1..Cardinality(S) : i # j => s[i] # s[j]
SetJ(s) == [type |-> s.type, max |-> s.max, members |-> SetToSeq(s.members)]
KJ(k) == [n \in DOMAIN k |-> SetJ(k[n])]
EditJ(e) == IF "s" \in DOMAIN e THEN [e EXCEPT !.s = SetJ(e.s)] ELSE e

GInit == \E k \in StartKernels :
            /\ kernel = k /\ desired = [x \in {} |-> 0] /\ refs = {}
            /\ belief = [stale |-> DOMAIN k, leak |-> {}]
            /\ phase = [at |-> "idle", envFail |-> FALSE, born |-> {}]
            /\ hist = <<[op |-> "start", kernel |-> KJ(k)]>>

Step(a, r) == a /\ hist' = Append(hist, r)
NoEdit == [kind |-> "none"]
RFail == {<<"post-del">>, <<"pre-update">>, <<"write-ip">>, <<"post-update">>} \cup (IF Rich >= 1 THEN {<<"start">>, <<"pipe">>, <<"close">>, <<"post-del", "post-update">>} ELSE {})
LFail == {<<"rc">>} \cup (IF Rich >= 1 THEN {<<"read">>, <<"start">>} ELSE {})

GRound(use, rf, lf, df, af, at, e) ==
    LET k1 == IF at = 0 THEN kernel ELSE EditFn(kernel, refs, e)
        R == { MainName(id) : id \in use }
    IN  /\ Idle
        /\ (at # 0 => k1 # kernel)
        /\ kernel' = IF af THEN k1 ELSE Converge(k1, desired, {})
        /\ desired' = IF af THEN [x \in {} |-> 0] ELSE desired
        /\ refs' = IF af THEN refs ELSE R
        /\ belief' = [stale |-> {}, leak |-> {}]
        /\ UNCHANGED phase
RoundRec(use, rf, lf, df, af, at, e) ==
    [op |-> "round", use |-> SetToSeq(use), rfail |-> rf, lfail |-> lf, dfail |-> df, allfail |-> af,
     pre |-> [at |-> at, edit |-> EditJ(e)]]

GNext ==
  \/ /\ Len(hist) = SimLen /\ hist' = Append(hist, [op |-> "end"]) /\ UNCHANGED vars
  \/ /\ Len(hist) < SimLen
     /\ \/ \E id \in Pick(Ids) : \E s \in Pick(SetMenu(id)) :
              /\ (IF id \in DOMAIN desired THEN desired[id] # s ELSE TRUE)
              /\ Step(SetSet(id, s), [op |-> "set", id |-> id, type |-> s.type, max |-> s.max, members |-> SetToSeq(s.members)])
        \/ \E id \in Pick(DOMAIN desired) : \E ms \in Pick(SUBSET Pool(id) \ {{}}) :
              /\ ~(ms \subseteq desired[id].members)
              /\ Step(AddMembers(id, ms), [op |-> "add", id |-> id, members |-> SetToSeq(ms)])
        \/ \E id \in Pick(DOMAIN desired) : \E ms \in Pick(SUBSET Pool(id) \ {{}}) :
              /\ ms \cap desired[id].members # {}
              /\ Step(RemoveMembers(id, ms), [op |-> "del", id |-> id, members |-> SetToSeq(ms)])
        \/ Rarely(2) /\ \E id \in Pick(DOMAIN desired) : Step(RemoveSet(id), [op |-> "remove", id |-> id])
        \/ \E e \in Pick({ x \in Edits : EditFn(kernel, refs, x) # kernel }) :
              Step(ExternalEdit(EditFn(kernel, refs, e)), [op |-> "edit", edit |-> EditJ(e)])
        \/ Rarely(3) /\ Step(QueueResync, [op |-> "resync"])
        \/ Rarely(4) /\ Step(Restart, [op |-> "restart"])
        \/ \E use \in Pick(SUBSET DOMAIN desired) :
              \/ Step(GRound(use, <<>>, <<>>, FALSE, FALSE, 0, NoEdit), RoundRec(use, <<>>, <<>>, FALSE, FALSE, 0, NoEdit))
              \/ \E rf \in Pick(RFail) : Step(GRound(use, rf, <<>>, FALSE, FALSE, 0, NoEdit), RoundRec(use, rf, <<>>, FALSE, FALSE, 0, NoEdit))
              \/ \E lf \in Pick(LFail) : Step(GRound(use, <<>>, lf, FALSE, FALSE, 0, NoEdit), RoundRec(use, <<>>, lf, FALSE, FALSE, 0, NoEdit))
              \/ Step(GRound(use, <<>>, <<>>, TRUE, FALSE, 0, NoEdit), RoundRec(use, <<>>, <<>>, TRUE, FALSE, 0, NoEdit))
              \/ Rarely(3) /\ Step(GRound(use, <<>>, <<>>, FALSE, TRUE, 0, NoEdit), RoundRec(use, <<>>, <<>>, FALSE, TRUE, 0, NoEdit))
              \/ \E e \in Pick({ x \in Edits : EditFn(kernel, refs, x) # kernel }), at \in Pick({1, 2, 3}) :
                    Step(GRound(use, <<>>, <<>>, FALSE, FALSE, at, e), RoundRec(use, <<>>, <<>>, FALSE, FALSE, at, e))

GView == <<kernel, desired, refs>>
EmitEdge == PrintT("BEH " \o ToJson(hist'))
EmitAtLen == Len(hist) = SimLen + 1 => PrintT("BEH " \o ToJson(hist))
=============================================================================
