CONSTANTS
  Ids = {"a"}
  Rich = 0
  SimLen = 3
  Sim = FALSE
INIT GInit
NEXT GNext
VIEW GView
ACTION_CONSTRAINT EmitEdge
CHECK_DEADLOCK FALSE
