CONSTANTS
  Ids = {"a"}
  Rich = 0
  MaxEdits = 1
  MaxFails = 1
  Single = FALSE
INIT IInit
NEXT INext
INVARIANTS TypeOK AcceptedStep AcceptedEnd AcceptedDestroy AcceptedDeletionsEnd
VIEW IView
CHECK_DEADLOCK FALSE
