CONSTANTS
  Ids = {"a", "b"}
  Rich = 1
  MaxEdits = 1
  MaxFails = 1
INIT IInit
NEXT INext
INVARIANTS TypeOK AcceptedStep AcceptedEnd AcceptedDestroy AcceptedDeletionsEnd
VIEW IView
CHECK_DEADLOCK FALSE
