CONSTANTS
  Ids = {"a"}
  Rich = 0
  MaxEdits = 2
  MaxFails = 1
  Single = TRUE
INIT IInit
NEXT INext
INVARIANTS TypeOK AcceptedStep AcceptedEnd AcceptedDestroy AcceptedDeletionsEnd
VIEW IView
CHECK_DEADLOCK FALSE
