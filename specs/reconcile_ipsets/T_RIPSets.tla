---------------------------- MODULE T_RIPSets ----------------------------
(* Trace specification for C16: replays what the in-package driver recorded from the real ipsets.IPSets
   over the package's mock dataplane - desired-set calls, out-of-band edits, every kernel command (each
   `ipset restore` line, each `ipset destroy`, each `ipset list`) with the whole mock kernel after it -
   against the property layer RIPSets.  A "mock_assert" line (the mock's own contract check failed on a
   command Felix issued) has no action here and therefore rejects the trace.                        *)
EXTENDS TraceLib

VARIABLES kernel, desired, refs, belief, phase
P == INSTANCE RIPSets
vars == <<kernel, desired, refs, belief, phase>>

S(j) == [type |-> j.type, max |-> j.max, members |-> SeqToSet(j.members)]
K(j) == [n \in DOMAIN j |-> S(j[n])]

TInit == /\ l = 1
         /\ kernel = <<>> /\ desired = <<>> /\ refs = {}
         /\ belief = [stale |-> {}, leak |-> {}]
         /\ phase = [at |-> "idle", envFail |-> FALSE, born |-> {}]

TReset     == IsEvent("reset") /\ P!Reset(K(Cur.kernel))
TSet       == IsEvent("set") /\ P!SetSet(Cur.id, S(Cur.s))
TAdd       == IsEvent("add") /\ P!AddMembers(Cur.id, SeqToSet(Cur.members))
TDel       == IsEvent("del") /\ P!RemoveMembers(Cur.id, SeqToSet(Cur.members))
TRemove    == IsEvent("remove") /\ P!RemoveSet(Cur.id)
TEdit      == IsEvent("edit") /\ P!ExternalEdit(K(Cur.kernel))
TResync    == IsEvent("resync") /\ P!QueueResync
TRestart   == IsEvent("restart") /\ P!Restart
TUpdBegin  == IsEvent("updates_begin") /\ P!UpdatesBegin
TList      == IsEvent("list") /\ IF Cur.all THEN P!ListNames(Cur.ok) ELSE P!ListSet(Cur.set, Cur.ok)
TCmd       == IsEvent("cmd") /\ P!Cmd(Cur.kind, Cur.set, Cur.ok, Cur.injected, K(Cur.kernel))
TRestFail  == IsEvent("restore_fail") /\ P!RestoreFail
TUpdEnd    == IsEvent("updates_end") /\ P!UpdatesEnd(Cur.ok)
TTables    == IsEvent("tables") /\ P!TablesApply(SeqToSet(Cur.refs))
TDelBegin  == IsEvent("deletions_begin") /\ P!DeletionsBegin
TDelEnd    == IsEvent("deletions_end") /\ P!DeletionsEnd(Cur.resched)
TFinal     == IsEvent("final") /\ P!Final

TNext == TReset \/ TSet \/ TAdd \/ TDel \/ TRemove \/ TEdit \/ TResync \/ TRestart \/ TUpdBegin \/ TList \/ TCmd
         \/ TRestFail \/ TUpdEnd \/ TTables \/ TDelBegin \/ TDelEnd \/ TFinal
TSpec == TInit /\ [][TNext]_<<vars, l>>
=============================================================================
