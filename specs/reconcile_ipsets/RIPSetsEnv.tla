---------------------------- MODULE RIPSetsEnv ----------------------------
(* Finite environment for C16 shared by the design-leg model (I_RIPSets) and the behaviour generator
   (Gen_RIPSets): desired-set menus, start kernels (stale temporary sets, stale main sets, sets with
   wrong content or parameters, foreign sets) and out-of-band edits.                                *)
EXTENDS RIPSets

CONSTANTS Ids,            \* subset of {"a", "b"}
          Rich            \* 0..2 size of the menus

TypeOf(id) == IF id = "a" THEN "hash:ip" ELSE "hash:net"
Pool(id) == IF id = "a" THEN {"10.0.0.1", "10.0.0.2"} \cup (IF Rich >= 1 THEN {"10.0.0.3"} ELSE {})
            ELSE {"10.1.0.0/24"} \cup (IF Rich >= 1 THEN {"10.2.0.0/16"} ELSE {})
Maxes == {1234} \cup (IF Rich >= 1 \/ TRUE THEN {5678} ELSE {})
SetRec(t, mx, ms) == [type |-> t, max |-> mx, members |-> ms]
SetMenu(id) == IF Rich >= 1 THEN { SetRec(TypeOf(id), mx, ms) : mx \in Maxes, ms \in SUBSET Pool(id) }
               ELSE { SetRec(TypeOf(id), 1234, {"10.0.0.1"}), SetRec(TypeOf(id), 1234, {"10.0.0.1", "10.0.0.2"}),
                      SetRec(TypeOf(id), 5678, {"10.0.0.1", "10.0.0.2"}), SetRec(TypeOf(id), 1234, {}) }

\* ---- start kernels ----------------------------------------------------------------------------------
\* foreign names include ones that merely CONTAIN a Felix prefix (an operator's backup copy, another tool's set)
StaleSets == [n \in {"cali40a", "cali40old", "cali4t0", "cali4t1", "felix-4old", "other", "cali60a", "bak-cali40a", "fw-felix-4-allow"} |->
                CASE n = "cali40a" -> SetRec("hash:ip", 5678, {"10.0.0.2", "10.0.0.9"})
                  [] n = "cali40old" -> SetRec("hash:ip", 1234, {"10.0.0.1"})
                  [] n = "cali4t0" -> SetRec("hash:ip", 1234, {"10.0.0.7"})
                  [] n = "cali4t1" -> SetRec("hash:net", 1234, {})
                  [] n = "felix-4old" -> SetRec("hash:net", 1234, {"10.9.0.0/16"})
                  [] n = "other" -> SetRec("hash:ip", 1234, {"10.0.0.1"})
                  [] n = "cali60a" -> SetRec("hash:ip", 1234, {"10.0.0.2"})
                  [] n = "bak-cali40a" -> SetRec("hash:ip", 1234, {"10.0.0.1", "10.0.0.5"})
                  [] n = "fw-felix-4-allow" -> SetRec("hash:net", 1234, {"10.8.0.0/16"})]
StartSets == IF Rich >= 2 THEN SUBSET DOMAIN StaleSets
             ELSE IF Rich >= 1 THEN {{}, {"cali40a", "cali4t0", "other", "bak-cali40a"}, {"cali40old", "cali4t1", "felix-4old", "cali60a", "fw-felix-4-allow"}, DOMAIN StaleSets}
             ELSE {{}, {"cali40a", "cali4t0", "other", "bak-cali40a", "fw-felix-4-allow"}}
StartKernels == { [n \in X |-> StaleSets[n]] : X \in StartSets }

\* ---- out-of-band edits ---------------------------------------------------------------------------------
EditNames == {"cali40a", "cali4t0", "other"} \cup (IF Rich >= 1 THEN {"cali40b", "cali40old"} ELSE {})
Edits ==
    IF Rich = 0
      THEN { [kind |-> "addm", set |-> "cali40a", member |-> "10.0.0.9"], [kind |-> "addm", set |-> "cali4t0", member |-> "10.0.0.9"],
             [kind |-> "delm", set |-> "cali40a", member |-> "10.0.0.1"], [kind |-> "destroy", set |-> "cali40a"],
             [kind |-> "create", set |-> "cali4t0", s |-> SetRec("hash:ip", 1234, {"10.0.0.8"})],
             [kind |-> "setmax", set |-> "cali40a", s |-> SetRec("hash:ip", 5678, {})],
             [kind |-> "addm", set |-> "other", member |-> "10.0.0.9"],
             [kind |-> "create", set |-> "x-cali4t9", s |-> SetRec("hash:ip", 1234, {"10.0.0.8"})],
             [kind |-> "create", set |-> "old-felix-4x", s |-> SetRec("hash:ip", 1234, {})] }
      ELSE
    \* (members are written in the syntax of the set's type: cali40b is a hash:net set)
    { [kind |-> "addm", set |-> n, member |-> m] : n \in EditNames \ {"cali40b"}, m \in {"10.0.0.9", "10.0.0.1"} }
    \cup { [kind |-> "addm", set |-> "cali40b", member |-> m] : m \in {"10.9.0.0/16", "10.1.0.0/24"} }
    \cup { [kind |-> "delm", set |-> n, member |-> m] : n \in EditNames \ {"cali40b"}, m \in {"10.0.0.1", "10.0.0.2"} }
    \cup { [kind |-> "delm", set |-> "cali40b", member |-> m] : m \in {"10.1.0.0/24", "10.2.0.0/16"} }
    \cup { [kind |-> "destroy", set |-> n] : n \in EditNames }
    \cup { [kind |-> "create", set |-> n, s |-> SetRec("hash:ip", 1234, {"10.0.0.8"})] :
             n \in {"cali40a", "cali4t0", "cali4t1", "cali40old", "x-cali4t9", "old-felix-4x", "my-cali60b"} }
    \cup { [kind |-> "setmax", set |-> n, s |-> SetRec("hash:ip", 5678, {})] : n \in {"cali40a", "other"} }

EditFn(k, R, e) ==
    LET n == e.set IN
    CASE e.kind = "addm" -> IF n \in DOMAIN k THEN [k EXCEPT ![n].members = @ \cup {e.member}] ELSE k
      [] e.kind = "delm" -> IF n \in DOMAIN k THEN [k EXCEPT ![n].members = @ \ {e.member}] ELSE k
      [] e.kind = "destroy" -> IF n \in DOMAIN k /\ n \notin R THEN Drop(k, n) ELSE k
      [] e.kind = "create" -> IF n \notin DOMAIN k THEN Put(k, n, e.s) ELSE k
      [] e.kind = "setmax" -> IF n \in DOMAIN k /\ n \notin R THEN [k EXCEPT ![n].max = e.s.max] ELSE k

\* the kernel a fault-free reconciliation leads to (prediction used by the generator only)
Converge(k, d, R) ==
    LET names == { n \in DOMAIN k : ~Owned(n) \/ n \in R } \cup { MainName(id) : id \in DOMAIN d }
    IN  [n \in names |-> IF \E id \in DOMAIN d : MainName(id) = n THEN d[CHOOSE id \in DOMAIN d : MainName(id) = n] ELSE k[n]]
=============================================================================
