CONSTANT SharedErr = FALSE
INIT Init
NEXT Next
INVARIANTS RaceFree Completes Verdict
CHECK_DEADLOCK FALSE
