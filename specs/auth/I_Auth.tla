------------------------------- MODULE I_Auth -------------------------------
(* C34 implementation layer: AuthorizeTierOperation as it is structured in
   apiserver/pkg/registry/projectcalico/authorizer/authorizer.go - a parent that forks three checker
   goroutines (getTier, policy, wildcard) and joins them with a WaitGroup.  Every access to a variable
   shared between goroutines is its own action, so TLC's interleavings contain every completion order.

   Happens-before in this structure: the `go` statements (parent before child) and wg.Done -> wg.Wait
   (child before the parent's continuation).  The three children are mutually unordered, so two
   accesses by different children to one variable, at least one a write, are a data race.

   SharedErr = TRUE transcribes the pinned commit: each child assigns the enclosing function's `err`
   (`decisionX, _, err = a.Authorize(...)`) and reads it back (`if err != nil`).  MC_I_Auth_asis.cfg
   shows TLC finding the race (DESIGN section 8 item 3); it documents the defect and is not part of
   the check.  SharedErr = FALSE is the intended design (goroutine-local error variables).        *)
EXTENDS Naturals, FiniteSets, Sequences, TLC

CONSTANT SharedErr

VARIABLES table, pphase, preq,     \* property-layer state (table = what the authorizer will answer)
          pc,                      \* [Checks -> "start" | "asked" | "wroteDecision" | "wroteErr" | "readErr" | "done"]
          dec,                     \* [Checks -> decision written by the child | "unset"] (decisionGetTier, ...)
          acc,                     \* accesses to shared variables by the children since the fork: {<<var, proc, kind>>}
          parent                   \* "forked" | "joined" | "returned"
vars == <<table, pphase, preq, pc, dec, acc, parent>>

P == INSTANCE P_Auth WITH phase <- pphase, table <- table, req <- preq

Req0 == [verb |-> "create", resource |-> "networkpolicies", ns |-> "ns1", name |-> "pol", tier |-> "t1"]

Init == /\ table \in P!Tables
        /\ pphase = "called" /\ preq = Req0
        /\ pc = [c \in P!Checks |-> "start"]
        /\ dec = [c \in P!Checks |-> "unset"]
        /\ acc = {}
        /\ parent = "forked"

DecVar(c) == "decision:" \o c
\* a.Authorize(ctx, attrs) returns
AskStep(c) ==
    /\ pc[c] = "start"
    /\ P!Ask(c, P!Question(preq, c), table[c].d, table[c].e)
    /\ pc' = [pc EXCEPT ![c] = "asked"]
    /\ UNCHANGED <<dec, acc, parent>>
\* decisionX = ...   (each child has its own decision variable; the parent reads it after the join)
WriteDecision(c) ==
    /\ pc[c] = "asked"
    /\ dec' = [dec EXCEPT ![c] = table[c].d]
    /\ acc' = acc \cup {<<DecVar(c), c, "w">>}
    /\ pc' = [pc EXCEPT ![c] = "wroteDecision"]
    /\ UNCHANGED <<table, pphase, preq, parent>>
\* ..., err = ...    (shared variable of the enclosing function, or a goroutine-local one)
WriteErr(c) ==
    /\ pc[c] = "wroteDecision"
    /\ acc' = IF SharedErr THEN acc \cup {<<"err", c, "w">>} ELSE acc
    /\ pc' = [pc EXCEPT ![c] = "wroteErr"]
    /\ UNCHANGED <<table, pphase, preq, dec, parent>>
\* if err != nil { log }
ReadErr(c) ==
    /\ pc[c] = "wroteErr"
    /\ acc' = IF SharedErr THEN acc \cup {<<"err", c, "r">>} ELSE acc
    /\ pc' = [pc EXCEPT ![c] = "readErr"]
    /\ UNCHANGED <<table, pphase, preq, dec, parent>>
\* defer wg.Done()
Done(c) ==
    /\ pc[c] = "readErr"
    /\ pc' = [pc EXCEPT ![c] = "done"]
    /\ UNCHANGED <<table, pphase, preq, dec, acc, parent>>
\* wg.Wait() returns: everything the children did happens-before what follows
Join ==
    /\ parent = "forked" /\ \A c \in P!Checks : pc[c] = "done"
    /\ parent' = "joined" /\ acc' = {}
    /\ UNCHANGED <<table, pphase, preq, pc, dec>>
Return ==
    /\ parent = "joined"
    /\ P!Result(dec["getTier"] = "Allow" /\ (dec["policy"] = "Allow" \/ dec["wildcard"] = "Allow"))
    /\ parent' = "returned"
    /\ UNCHANGED <<pc, dec, acc>>

Next == (\E c \in P!Checks : AskStep(c) \/ WriteDecision(c) \/ WriteErr(c) \/ ReadErr(c) \/ Done(c)) \/ Join \/ Return

\* ---- what TLC checks ----------------------------------------------------------------------------
RaceFree == ~\E a, b \in acc : a[1] = b[1] /\ a[2] # b[2] /\ (a[3] = "w" \/ b[3] = "w")
\* the call always completes, with the verdict of the statement (Return is enabled iff Result accepts)
Completes == (parent = "joined") => ENABLED Return
Verdict == (parent = "returned") => pphase = "done"
=============================================================================
