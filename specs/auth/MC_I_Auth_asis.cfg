CONSTANT SharedErr = TRUE
INIT Init
NEXT Next
INVARIANTS RaceFree Completes Verdict
CHECK_DEADLOCK FALSE
