------------------------------ MODULE Gen_Auth ------------------------------
(* Case generator for C34 (leg A): every authorizer table (3 decisions x error flag for each of the
   three checks = 216) x every completion order of the three checks (6) = 1296 cases, each printed as
   a one-record behaviour.  The driver scripts the stub authorizer with the table and releases the
   three blocked Authorize calls in the given order.                                               *)
EXTENDS Naturals, Sequences, FiniteSets, TLC, Json

Checks == <<"getTier", "policy", "wildcard">>
Decisions == {"Allow", "Deny", "NoOpinion"}
Perms == { p \in [1..3 -> 1..3] : \A i, j \in 1..3 : i # j => p[i] # p[j] }

VARIABLES d, e, ord
vars == <<d, e, ord>>

GInit == /\ d \in [1..3 -> Decisions]
         /\ e \in [1..3 -> BOOLEAN]
         /\ ord \in Perms
GNext == UNCHANGED vars

EmitCase == PrintT("BEH " \o ToJson(<<[op |-> "case",
                                        table |-> [i \in 1..3 |-> [check |-> Checks[i], d |-> d[i], e |-> e[i]]],
                                        order |-> [i \in 1..3 |-> Checks[ord[i]]]]>>))
=============================================================================
