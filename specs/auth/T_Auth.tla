------------------------------- MODULE T_Auth -------------------------------
(* Trace specification for C34: one trace per call of the real AuthorizeTierOperation against a
   scripted, gated stub authorizer, executed under the Go race detector.
     reset   - the stub's table for this call and the order in which the driver releases the checks
     call    - the request put in the context (verb, resource, namespace, name) and the tier
     ask     - one Authorize call of the real code, logged when the driver releases it: which check the
               stub took it for, the question asked (verb, resource, namespace, name), the answer the stub
               really gave; cancelled = the question's context had been cancelled by the implementation
               when the stub came to answer it (the stub then answers "no opinion" + the context's error)
     result  - what AuthorizeTierOperation returned (allowed = nil error)
     race    - the race detector reported a data race during this call: never accepted.
               Strict = TRUE : no action consumes it (the trace is rejected at that line).
               Strict = FALSE: it is consumed and "REJECT <t> <line> <signature>" is printed, so that one
               pass over a large file lists every report (the detector reports each distinct pair of
               racing stacks once per process, i.e. in several different calls).                    *)
EXTENDS TraceLib

CONSTANT Strict
VARIABLES phase, table, req
vars == <<phase, table, req>>

P == INSTANCE P_Auth

TableOf(rows) == [c \in P!Checks |->
                    LET i == CHOOSE j \in DOMAIN rows : rows[j].check = c IN [d |-> rows[i].d, e |-> rows[i].e]]
ReqOf(ev) == [verb |-> ev.verb, resource |-> ev.resource, ns |-> ev.ns, name |-> ev.name, tier |-> ev.tier]
QOf(ev) == [verb |-> ev.verb, resource |-> ev.resource, ns |-> ev.ns, name |-> ev.name]

TInit == l = 1 /\ phase = "idle" /\ table = [c \in P!Checks |-> [d |-> "Deny", e |-> FALSE]]
         /\ req = [verb |-> "", resource |-> "", ns |-> "", name |-> "", tier |-> ""]

TReset == /\ IsEvent("reset")
          /\ phase' = "idle" /\ table' = TableOf(Cur.table) /\ UNCHANGED req
TCall  == /\ IsEvent("call") /\ phase = "idle"
          /\ P!Start(table, ReqOf(Cur))
TAsk   == /\ IsEvent("ask")
          /\ IF Cur.cancelled THEN P!AskCancelled(Cur.check, QOf(Cur))
                              ELSE P!Ask(Cur.check, QOf(Cur), Cur.d, Cur.e)
TResult == /\ IsEvent("result")
           /\ P!Result(Cur.allowed)

TRaceReported == /\ IsEvent("race") /\ ~Strict
                 /\ PrintT("REJECT " \o ToString(Cur.t) \o " " \o ToString(l) \o " " \o Cur.sig)
                 /\ UNCHANGED vars

TNext == TReset \/ TCall \/ TAsk \/ TResult \/ TRaceReported
TSpec == TInit /\ [][TNext]_<<vars, l>>
=============================================================================
