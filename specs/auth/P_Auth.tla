------------------------------- MODULE P_Auth -------------------------------
(* C34 property layer.  "A request on a tiered policy is allowed exactly when the user may get the
   tier and may perform the operation either on the policy's name or on the tier's wildcard, whatever
   the underlying authorizer answers and however its concurrent checks interleave."

   The underlying authorizer is a table: for each of the three questions, the decision it gives (and
   whether it also returns an error).  One call of AuthorizeTierOperation:
       Call(req)            the request (verb, resource, namespace, name) and the tier
       Ask(check, q, d, e)  the implementation puts question q to the authorizer and is answered (d, e);
                            q must be the question the statement names for `check`, and (d, e) is the
                            table's entry (any number of questions, in any order - a sequential or
                            short-circuiting implementation satisfies the statement as well)
       AskCancelled(check, q) the implementation cancelled the context of a question before it was answered
                            (the authorizer then answers "no opinion" + error, whatever its table says)
       Result(allowed)      allowed  <=>  table[getTier] = Allow /\ (table[policy] = Allow \/ table[wildcard] = Allow)
   A data-race report of the race detector is an event no action accepts.                         *)
EXTENDS Naturals, Sequences

Checks    == {"getTier", "policy", "wildcard"}
Decisions == {"Allow", "Deny", "NoOpinion"}
Answers   == [d : Decisions, e : BOOLEAN]
Tables    == [Checks -> Answers]

VARIABLES phase,      \* "idle" | "called" | "done"
          table,      \* the authorizer's answers for this call
          req         \* [verb, resource, ns, name, tier]
vars == <<phase, table, req>>

Expected(t) == t["getTier"].d = "Allow" /\ (t["policy"].d = "Allow" \/ t["wildcard"].d = "Allow")

\* the three questions (verb, resource, namespace, name) the statement names
Question(r, check) ==
    CASE check = "getTier"  -> [verb |-> "get",  resource |-> "tiers",                 ns |-> "",   name |-> r.tier]
      [] check = "policy"   -> [verb |-> r.verb, resource |-> "tier." \o r.resource,   ns |-> r.ns, name |-> r.name]
      [] check = "wildcard" -> [verb |-> r.verb, resource |-> "tier." \o r.resource,   ns |-> r.ns, name |-> r.tier \o ".*"]

Init == phase = "idle" /\ table \in Tables /\ req = [verb |-> "", resource |-> "", ns |-> "", name |-> "", tier |-> ""]

Start(t, r) == phase' = "called" /\ table' = t /\ req' = r
Ask(check, q, d, e) ==
    /\ phase = "called"
    /\ check \in Checks
    /\ q = Question(req, check)
    /\ table[check] = [d |-> d, e |-> e]
    /\ UNCHANGED vars
\* The implementation cancelled the question's context before the authorizer answered it: the authorizer
\* then gives no answer from its table (a webhook returns "no opinion" with the context's error).  That
\* is the implementation's own doing, so the verdict is still judged against the table.
AskCancelled(check, q) ==
    /\ phase = "called"
    /\ check \in Checks
    /\ q = Question(req, check)
    /\ UNCHANGED vars
Result(allowed) ==
    /\ phase = "called"
    /\ allowed = Expected(table)
    /\ phase' = "done" /\ UNCHANGED <<table, req>>
=============================================================================
