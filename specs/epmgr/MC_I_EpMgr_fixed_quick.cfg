CONSTANTS
  Ids <- MCIds2
  Names = {"cali0", "cali1"}
  Variants = {1, 2}
  AllowRename = TRUE
  AllowBatchRace = TRUE
  Fixed = TRUE
INIT IInit
NEXT INext
INVARIANT ExactAfterDrain
CHECK_DEADLOCK FALSE
