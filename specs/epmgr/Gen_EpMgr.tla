------------------------------ MODULE Gen_EpMgr ------------------------------
(* Behaviour generator for C44: all words of MaxOps update/remove operations over Ids x Names x {up,down},
   each optionally followed by a CompleteDeferredWork ("flush"), printed when complete (the observations
   after every flush of a word cover all its prefixes).  Also used with -simulate.               *)
EXTENDS EpMgr, TLC, Json

CONSTANTS MaxOps, SimLen
VARIABLES hist, nops, lastFlush
gvars == <<eps, dp, hist, nops, lastFlush>>

\* the generated endpoints: addresses and profile derived from (id, name-independent) so that the
\* owner of a chain / route is recognisable
Ord(i) == i[1] * 100 + i[2] * 10 + i[3]
Rec(i, n, u) == [live |-> TRUE, name |-> n, up |-> u]

GIds3 == {<<1,2,1>>, <<2,1,1>>, <<1,1,2>>}
GIds4 == GIds3 \cup {<<1,2,2>>}

GInit == eps = [i \in Ids |-> Dead] /\ dp = <<>> /\ hist = <<>> /\ nops = 0 /\ lastFlush = TRUE

Op(r) == hist' = Append(hist, r)

GUpdate(i, n, u) ==
    /\ nops < MaxOps
    /\ eps' = [eps EXCEPT ![i] = [Dead EXCEPT !.live = TRUE, !.name = n, !.up = u]]
    /\ Op([op |-> "update", id |-> i, name |-> n, up |-> u])
    /\ nops' = nops + 1 /\ lastFlush' = FALSE /\ UNCHANGED dp
GRemove(i) ==
    /\ nops < MaxOps
    /\ eps[i].live
    /\ eps' = [eps EXCEPT ![i] = Dead]
    /\ Op([op |-> "remove", id |-> i])
    /\ nops' = nops + 1 /\ lastFlush' = FALSE /\ UNCHANGED dp
GFlush ==
    /\ ~lastFlush
    /\ Op([op |-> "flush"])
    /\ lastFlush' = TRUE /\ UNCHANGED <<eps, dp, nops>>

GNext ==
    \/ \E i \in Ids, n \in Names, u \in BOOLEAN : GUpdate(i, n, u)
    \/ \E i \in Ids : GRemove(i)
    \/ GFlush

\* exhaustive mode: print complete words (MaxOps operations, flushed)
EmitWord == (nops = MaxOps /\ lastFlush) => PrintT("BEH " \o ToJson(hist))

\* simulate mode: print the walk once when it reaches SimLen (then stutter on an "end" marker)
SNext ==
    \/ /\ Len(hist) = SimLen /\ hist' = Append(hist, [op |-> "end"]) /\ UNCHANGED <<eps, dp, nops, lastFlush>>
    \/ /\ Len(hist) < SimLen /\ GNext
EmitAtLen == Len(hist) = SimLen + 1 => PrintT("BEH " \o ToJson(hist))
=============================================================================
