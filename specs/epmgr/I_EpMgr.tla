------------------------------ MODULE I_EpMgr ------------------------------
(* Implementation-shaped model of endpointManager.resolveWorkloadEndpoints (endpoint_mgr.go): the pending
   update map drained in ARBITRARY order (Go map iteration), the active / shadowed maps, the interface-name
   index, and the per-name dataplane state (chains, routes; the dispatch entries are rendered from the
   active map).  One action per pending entry processed; CompleteDeferredWork = drain until empty.

   TLC checks that after every complete drain the dataplane projection is EpMgr!F(eps) - for every
   processing order - under an environment selected by two constants:
     AllowRename     an update may change the interface name of a live endpoint
     AllowBatchRace  an update/removal of a claimant of a name may share a batch with the removal of that
                     name's active endpoint
   With both FALSE the invariant holds (design configs of the check).  With either TRUE TLC produces the
   counterexamples documented in notes/C44.md (MC_I_EpMgr_rename.cfg, MC_I_EpMgr_race.cfg): those are
   statements about this model; the verdicts come from the real code's traces only.                  *)
EXTENDS EpMgr, TLC

CONSTANTS AllowRename, AllowBatchRace, Variants,
          Fixed      \* TRUE: the repaired algorithm (hooks/fix-C44-shadowing.patch); FALSE: the algorithm as found

VARIABLES pend,      \* Ids -> [has, rec]        pendingWlEpUpdates (rec = Dead for a removal)
          active,    \* Ids -> rec               activeWlEndpoints (Dead = absent)
          nameToId,  \* Names -> Ids \cup {None} activeWlIfaceNameToID
          shadowed,  \* Ids -> rec               shadowedWlEndpoints (Dead = absent)
          idChains,  \* Ids -> Names \cup {""}   name for which activeWlIDToChains[id] was rendered
          chains,    \* Names -> [has, c]        filter table: the cali-tw/fw chains of a name
          rts,       \* Names -> set             route table per interface
          draining   \* BOOLEAN                  inside CompleteDeferredWork
ivars == <<eps, dp, pend, active, nameToId, shadowed, idChains, chains, rts, draining>>

None == <<0, 0, 0>>
NoPend == [has |-> FALSE, rec |-> Dead]
NoChain == [has |-> FALSE, c |-> Carry(Dead)]

IInit == /\ eps = [i \in Ids |-> Dead] /\ dp = <<>>
         /\ pend = [i \in Ids |-> NoPend]
         /\ active = [i \in Ids |-> Dead] /\ shadowed = [i \in Ids |-> Dead]
         /\ nameToId = [n \in Names |-> None]
         /\ idChains = [i \in Ids |-> ""]
         /\ chains = [n \in Names |-> NoChain] /\ rts = [n \in Names |-> {}]
         /\ draining = FALSE

\* ---- environment ---------------------------------------------------------------------------------
\* names whose active endpoint has a removal pending / names claimed by endpoints with anything pending
RemovalPendingOn(n) == \E x \in Ids : pend[x].has /\ ~pend[x].rec.live /\ active[x].live /\ active[x].name = n
TouchedClaimant(n, x) == \E y \in Ids \ {x} : pend[y].has /\ ((eps[y].live /\ eps[y].name = n) \/ (shadowed[y].live /\ shadowed[y].name = n))
IUpdate(i, r) ==
    /\ ~draining
    \* "rename" as the manager sees it: any record it still holds for i (processed or not) has another name;
    \* a removal and a re-creation with another name inside one batch are coalesced into exactly that
    /\ AllowRename \/ \A h \in {eps[i], active[i], shadowed[i], pend[i].rec} : ~h.live \/ h.name = r.name
    /\ AllowBatchRace \/ ~RemovalPendingOn(r.name)
    /\ Update(i, r)
    /\ pend' = [pend EXCEPT ![i] = [has |-> TRUE, rec |-> r]]
    /\ UNCHANGED <<active, nameToId, shadowed, idChains, chains, rts, draining>>
IRemove(i) ==
    /\ ~draining /\ eps[i].live
    /\ AllowBatchRace \/ (~RemovalPendingOn(eps[i].name) /\ ~TouchedClaimant(eps[i].name, i))
    /\ Remove(i)
    /\ pend' = [pend EXCEPT ![i] = [has |-> TRUE, rec |-> Dead]]
    /\ UNCHANGED <<active, nameToId, shadowed, idChains, chains, rts, draining>>

\* ---- resolveWorkloadEndpoints, one pending entry at a time ----------------------------------------
\* removeActiveWorkload(old, id) as a state transformer on a record of the mutable maps
St == [active |-> active, nameToId |-> nameToId, shadowed |-> shadowed, idChains |-> idChains,
       chains |-> chains, rts |-> rts, pend |-> pend]
DropChains(s, i) == IF s.idChains[i] = "" THEN s.chains ELSE [s.chains EXCEPT ![s.idChains[i]] = NoChain]
RemoveActive(s, i) ==
    LET old == s.active[i] IN
    [s EXCEPT !.chains = DropChains(s, i),
              !.idChains = [s.idChains EXCEPT ![i] = ""],
              !.rts = IF old.live THEN [s.rts EXCEPT ![old.name] = {}] ELSE s.rts,
              !.nameToId = IF old.live THEN [s.nameToId EXCEPT ![old.name] = None] ELSE s.nameToId,
              !.active = [s.active EXCEPT ![i] = Dead]]
BestShadowed(s, n) ==
    \* repaired: a shadowed endpoint with a newer pending update/removal is superseded by it, never re-queued
    LET c == { x \in Ids : s.shadowed[x].live /\ s.shadowed[x].name = n /\ (Fixed => ~s.pend[x].has) }
    IN IF c = {} THEN None ELSE CHOOSE x \in c : \A y \in c : y = x \/ Less(x, y)
\* re-queue the best endpoint shadowed on name n (the name's active endpoint has gone away)
Promote(s, n) ==
    LET b == BestShadowed(s, n) IN
    IF b = None THEN s
    ELSE [s EXCEPT !.pend = [s.pend EXCEPT ![b] = [has |-> TRUE, rec |-> s.shadowed[b]]],
                   !.shadowed = [s.shadowed EXCEPT ![b] = Dead]]
Activate(s, i, w) ==
    LET old == s.active[i]
        renamed == old.live /\ old.name # w.name
        s0 == IF renamed
              THEN [s EXCEPT !.chains = DropChains(s, i),
                             !.rts = [s.rts EXCEPT ![old.name] = {}],
                             !.nameToId = [s.nameToId EXCEPT ![old.name] = None]]
              ELSE s
        \* repaired: the old name lost its active endpoint -> promote; the shadow copy of i is dropped
        sd == [s0 EXCEPT !.shadowed = [s0.shadowed EXCEPT ![i] = Dead]]
        s1 == IF Fixed THEN (IF renamed THEN Promote(sd, old.name) ELSE sd) ELSE s0
    IN [s1 EXCEPT !.chains = [s1.chains EXCEPT ![w.name] = [has |-> TRUE, c |-> Carry(w)]],
                  !.idChains = [s1.idChains EXCEPT ![i] = w.name],
                  !.rts = [s1.rts EXCEPT ![w.name] = IF w.up THEN w.nets ELSE {}],
                  !.active = [s1.active EXCEPT ![i] = w],
                  !.nameToId = [s1.nameToId EXCEPT ![w.name] = i],
                  !.pend = [s1.pend EXCEPT ![i] = NoPend]]
Shadow(s, i, w) ==
    \* repaired: an endpoint that was active under another name gives that state up before being shadowed
    LET old == s.active[i]
        s1 == IF Fixed /\ old.live THEN Promote(RemoveActive(s, i), old.name) ELSE s
    IN [s1 EXCEPT !.shadowed = [s1.shadowed EXCEPT ![i] = w], !.pend = [s1.pend EXCEPT ![i] = NoPend]]
ProcessUpdate(s, i, w) ==
    LET ex == s.nameToId[w.name] IN
    IF ex # None /\ ex # i
    THEN IF Less(ex, i)
         THEN Shadow(s, i, w)
         ELSE Activate(RemoveActive([s EXCEPT !.shadowed = [s.shadowed EXCEPT ![ex] = s.active[ex]]], ex), i, w)
    ELSE Activate(s, i, w)
ProcessRemove(s, i) ==
    LET old == s.active[i]
        s1 == RemoveActive(s, i)
        s2 == [s1 EXCEPT !.pend = [s1.pend EXCEPT ![i] = NoPend], !.shadowed = [s1.shadowed EXCEPT ![i] = Dead]]
    IN IF old.live THEN Promote(s2, old.name) ELSE s2
Apply(s) == /\ active' = s.active /\ nameToId' = s.nameToId /\ shadowed' = s.shadowed
            /\ idChains' = s.idChains /\ chains' = s.chains /\ rts' = s.rts /\ pend' = s.pend

IBegin == ~draining /\ draining' = TRUE
          /\ UNCHANGED <<eps, dp, pend, active, nameToId, shadowed, idChains, chains, rts>>
IStep(i) ==
    /\ draining /\ pend[i].has
    /\ Apply(IF pend[i].rec.live THEN ProcessUpdate(St, i, pend[i].rec) ELSE ProcessRemove(St, i))
    /\ UNCHANGED <<eps, dp, draining>>
\* what the mocks would show: chains and routes per name, dispatch entries from the active map
Proj == [n \in { m \in Names : chains[m].has \/ rts[m] # {} \/ (\E x \in Ids : active[x].live /\ active[x].name = m) } |->
            [c |-> chains[n], routes |-> rts[n], disp |-> \E x \in Ids : active[x].live /\ active[x].name = n]]
Want(e) == [n \in Claimed(e) |-> [c |-> [has |-> TRUE, c |-> F(e)[n]], routes |-> F(e)[n].routes, disp |-> TRUE]]
IEnd ==
    /\ draining /\ \A i \in Ids : ~pend[i].has
    /\ draining' = FALSE
    /\ Flush
    /\ UNCHANGED <<pend, active, nameToId, shadowed, idChains, chains, rts>>

INext ==
    \/ \E i \in Ids, n \in Names, u \in BOOLEAN, v \in Variants :
          IUpdate(i, [live |-> TRUE, name |-> n, up |-> u, nets |-> {<<i, v>>}, profiles |-> <<i>>])
    \/ \E i \in Ids : IRemove(i) \/ IStep(i)
    \/ IBegin \/ IEnd

\* the property on the implementation model: a finished drain leaves exactly F(eps), whatever the order
ExactAfterDrain == (~draining /\ \A i \in Ids : ~pend[i].has) => Proj = Want(eps)
=============================================================================
