------------------------------- MODULE EpMgr -------------------------------
(* C44, property layer.  The endpoint manager is told about local workload endpoints
   (id |-> interface name, admin state, addresses, profiles); several live endpoints may claim the same
   interface name and an endpoint may change its name.  After each CompleteDeferredWork the dataplane
   state hanging off interface names must be F(eps), a function of the CURRENT endpoint set only:

     * every name claimed by some live endpoint carries the cali-tw-/cali-fw- chains, the dispatch
       entries and the routes of exactly one endpoint: the preferred claimant = the smallest id in
       lexicographic (orchestrator, workload, endpoint) order (wlIdsAscending in endpoint_mgr.go);
     * routes exist only if that endpoint is administratively up (its chains then jump to its
       profiles; an admin-down endpoint has the "admin disabled" drop chains and no routes);
     * nothing (chain, dispatch entry, route) exists for a name that no live endpoint claims.

   Ids are triples of naturals (the driver renders <<1,2,1>> as ("o1","w2","e1"): single digits, so the
   string order used by the code is the numeric order used here).                                    *)
EXTENDS Naturals, Sequences, FiniteSets

CONSTANTS Ids, Names

Less(a, b) == \/ a[1] < b[1]
              \/ a[1] = b[1] /\ a[2] < b[2]
              \/ a[1] = b[1] /\ a[2] = b[2] /\ a[3] < b[3]

Dead == [live |-> FALSE, name |-> "", up |-> FALSE, nets |-> {}, profiles |-> <<>>]

VARIABLES eps,     \* Ids -> endpoint record: the current set, as told to the manager
          dp       \* the dataplane projection as of the last CompleteDeferredWork
vars == <<eps, dp>>

Claimants(e, n) == { i \in DOMAIN e : e[i].live /\ e[i].name = n }
Claimed(e) == { e[i].name : i \in { j \in DOMAIN e : e[j].live } }
Preferred(e, n) == CHOOSE i \in Claimants(e, n) : \A j \in Claimants(e, n) : j = i \/ Less(i, j)

\* what one interface name must carry
Carry(p) == [up       |-> p.up,
             profiles |-> IF p.up THEN p.profiles ELSE <<>>,
             routes   |-> IF p.up THEN p.nets ELSE {}]
F(e) == [n \in Claimed(e) |-> Carry(e[Preferred(e, n)])]

Init == eps = [i \in Ids |-> Dead] /\ dp = F(eps)

Update(i, r) == eps' = [eps EXCEPT ![i] = r] /\ UNCHANGED dp
Remove(i)    == eps' = [eps EXCEPT ![i] = Dead] /\ UNCHANGED dp
Flush        == dp' = F(eps) /\ UNCHANGED eps          \* CompleteDeferredWork: this IS the property

\* ---- the observable rendering of a projection (names of chains are part of the observation) ----
TwChain(n) == "cali-tw-" \o n
FwChain(n) == "cali-fw-" \o n
SmChain(n) == "cali-sm-" \o n
\* per-endpoint chains: to-workload chains jump to the inbound profile chains, from-workload to outbound
EpChains(d) ==
    { [chain |-> TwChain(n), disabled |-> ~d[n].up,
       profiles |-> [k \in DOMAIN d[n].profiles |-> "cali-pri-" \o d[n].profiles[k]]] : n \in DOMAIN d }
    \cup
    { [chain |-> FwChain(n), disabled |-> ~d[n].up,
       profiles |-> [k \in DOMAIN d[n].profiles |-> "cali-pro-" \o d[n].profiles[k]]] : n \in DOMAIN d }
MarkChains(d) == { SmChain(n) : n \in DOMAIN d }
Routes(d) == { [iface |-> n, cidrs |-> d[n].routes] : n \in { m \in DOMAIN d : d[m].routes # {} } }
DispFrom(d) == { FwChain(n) : n \in DOMAIN d }
DispTo(d) == { TwChain(n) : n \in DOMAIN d }
=============================================================================
