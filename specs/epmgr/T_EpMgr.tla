------------------------------ MODULE T_EpMgr ------------------------------
(* Trace specification for C44.  Replays the workload endpoint messages given to the real endpointManager
   against EpMgr and requires, at every CompleteDeferredWork, that every logged projection of the mocks
   (one per distinct outcome over the lock-step repetitions on fresh managers) is the rendering of F(eps).

   A trace whose observation is not F(eps) is REJECTED: <<"REJECT", trace, line, kind>> is printed and
   the rest of that trace is skipped, so that one TLC run classifies every trace of the file (the
   orchestrator re-executes and reports each rejected trace).                                     *)
EXTENDS TraceLib, FiniteSets

VARIABLES eps, dp, cfg, skip

IsEpEv(e) == e.ev \in {"update", "remove"}
TIds == { Trace[i].id : i \in { j \in 1..NTrace : IsEpEv(Trace[j]) } }
TNames == { Trace[i].name : i \in { j \in 1..NTrace : Trace[j].ev = "update" } }

D == INSTANCE EpMgr WITH Ids <- TIds, Names <- TNames
Dead0 == [i \in TIds |-> D!Dead]

RecOf(c) == [live |-> TRUE, name |-> c.name, up |-> c.up,
             nets |-> IF cfg.fam = 4 THEN SeqToSet(c.nets4) ELSE SeqToSet(c.nets6),
             profiles |-> c.profiles]

\* ---- does an observed projection o render the wanted projection w ? --------------------------------
ObsRoutes(o) == { [iface |-> o.routes[k].iface, cidrs |-> SeqToSet(o.routes[k].cidrs)] : k \in DOMAIN o.routes }
MapKeys(w) == { "cali-from-wl-dispatch:" \o n : n \in DOMAIN w } \cup { "cali-to-wl-dispatch:" \o n : n \in DOMAIN w }
Matches(o, w) ==
    /\ SeqToSet(o.chains) = D!EpChains(w)
    /\ Len(o.chains) = Cardinality(D!EpChains(w))
    /\ SeqToSet(o.marks) = (IF cfg.ipvs THEN D!MarkChains(w) ELSE {})
    /\ ObsRoutes(o) = D!Routes(w)
    /\ Len(o.routes) = Cardinality(D!Routes(w))
    /\ \A k \in DOMAIN o.routes : Len(o.routes[k].cidrs) = Cardinality(SeqToSet(o.routes[k].cidrs))
    /\ o.other_routes = <<>>
    /\ SeqToSet(o.disp_from) = D!DispFrom(w)
    /\ SeqToSet(o.disp_to) = D!DispTo(w)
    /\ SeqToSet(o.map_keys) = (IF cfg.mode = "nft" THEN MapKeys(w) ELSE {})

\* ---- classification of a mismatch (only a label for the report; the verdict is ~Matches) ----------
ObsNames(o) ==
    { n \in TNames :
        \/ \E k \in DOMAIN o.chains : o.chains[k].chain \in {D!TwChain(n), D!FwChain(n)}
        \/ D!SmChain(n) \in SeqToSet(o.marks)
        \/ \E k \in DOMAIN o.routes : o.routes[k].iface = n
        \/ D!FwChain(n) \in SeqToSet(o.disp_from) \/ D!TwChain(n) \in SeqToSet(o.disp_to) }
Kind(o, w) ==
    LET stale == ObsNames(o) \ DOMAIN w # {}
        missing == \E n \in DOMAIN w :
                       ~ \E k \in DOMAIN o.chains : o.chains[k].chain = D!TwChain(n)
    IN (IF stale THEN "stale-name+" ELSE "") \o (IF missing THEN "missing-name+" ELSE "")
       \o (IF ~stale /\ ~missing THEN "wrong-content" ELSE "")

FirstBad(s, w) == CHOOSE k \in DOMAIN s : ~Matches(s[k], w) /\ \A j \in 1..(k - 1) : Matches(s[j], w)

TInit == l = 1 /\ eps = Dead0 /\ dp = <<>> /\ cfg = [mode |-> "ipt", fam |-> 4, ipvs |-> FALSE] /\ skip = FALSE

TReset ==
    /\ IsEvent("reset")
    /\ eps' = Dead0 /\ dp' = <<>> /\ skip' = FALSE
    /\ cfg' = [mode |-> Cur.mode, fam |-> Cur.fam, ipvs |-> Cur.ipvs]
TSkip ==
    /\ skip /\ l <= NTrace /\ Trace[l].ev # "reset" /\ l' = l + 1
    /\ UNCHANGED <<eps, dp, cfg, skip>>
TUpdate == ~skip /\ IsEvent("update") /\ D!Update(Cur.id, RecOf(Cur)) /\ UNCHANGED <<cfg, skip>>
TRemove == ~skip /\ IsEvent("remove") /\ D!Remove(Cur.id) /\ UNCHANGED <<cfg, skip>>
\* interface oper-state changes are not inputs of the property: they must not change the projection
TIface  == ~skip /\ IsEvent("iface") /\ UNCHANGED <<eps, dp, cfg, skip>>
TFlush  ==
    /\ ~skip /\ IsEvent("flush")
    /\ D!Flush
    /\ UNCHANGED cfg
    /\ IF \A k \in DOMAIN Cur.dps : Matches(Cur.dps[k], dp')
       THEN skip' = FALSE
       ELSE /\ PrintT(<<"REJECT", Cur.t, l, Kind(Cur.dps[FirstBad(Cur.dps, dp')], dp')>>)
            /\ skip' = TRUE

\* the real manager panicked: never an accepted observation
TPanic ==
    /\ ~skip /\ IsEvent("panic")
    /\ PrintT(<<"REJECT", Cur.t, l, "panic">>)
    /\ skip' = TRUE /\ UNCHANGED <<eps, dp, cfg>>

TNext == TReset \/ TSkip \/ TUpdate \/ TRemove \/ TIface \/ TFlush \/ TPanic
=============================================================================
