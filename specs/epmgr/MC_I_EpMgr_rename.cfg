CONSTANTS
  Ids <- MCIds2
  Names = {"cali0", "cali1"}
  Variants = {1}
  AllowRename = TRUE
  AllowBatchRace = FALSE
  Fixed = FALSE
INIT IInit
NEXT INext
INVARIANT ExactAfterDrain
CHECK_DEADLOCK FALSE
