CONSTANTS
  Ids <- GIds3
  Names = {"cali0", "cali1"}
  MaxOps = 3
  SimLen = 0
INIT GInit
NEXT GNext
INVARIANT EmitWord
CHECK_DEADLOCK FALSE
