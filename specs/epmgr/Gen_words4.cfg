CONSTANTS
  Ids <- GIds3
  Names = {"cali0", "cali1"}
  MaxOps = 4
  SimLen = 0
INIT GInit
NEXT GNext
INVARIANT EmitWord
CHECK_DEADLOCK FALSE
