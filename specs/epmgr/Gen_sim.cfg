CONSTANTS
  Ids <- GIds4
  Names = {"cali0", "cali1", "cali2"}
  MaxOps = 1000
  SimLen = 16
INIT GInit
NEXT SNext
INVARIANT EmitAtLen
CHECK_DEADLOCK FALSE
