CONSTANTS
  Ids <- MCIds3
  Names = {"cali0", "cali1"}
  Variants = {1}
  AllowRename = TRUE
  AllowBatchRace = TRUE
  Fixed = TRUE
INIT IInit
NEXT INext
INVARIANT ExactAfterDrain
CHECK_DEADLOCK FALSE
