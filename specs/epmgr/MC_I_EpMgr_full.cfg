CONSTANTS
  Ids <- MCIds3
  Names = {"cali0", "cali1"}
  Variants = {1}
  AllowRename = FALSE
  AllowBatchRace = FALSE
  Fixed = FALSE
INIT IInit
NEXT INext
INVARIANT ExactAfterDrain
CHECK_DEADLOCK FALSE
