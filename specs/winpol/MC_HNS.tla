------------------------------- MODULE MC_HNS -------------------------------
(* Sanity ("design") leg of C30: constant-level unit tests of the HNS evaluation model and of the Windows
   reference, so that a slip in the models themselves is a harness error and not a verdict.  T_Win EXTENDS
   this module, so the ASSUMEs are evaluated at the start of every validation run (MC_HNS.cfg runs them alone). *)
EXTENDS WinSem, TLC

UTC(a, n) == [a |-> a, n |-> n]
UTR(prio, action, dir, proto, la, ra, lp, rp) ==
    [prio |-> prio, action |-> action, dir |-> dir, ruleType |-> "Switch", proto |-> proto, localAddrs |-> la,
     remoteAddrs |-> ra, localPorts |-> lp, remotePorts |-> rp, id |-> ""]
UTP(proto, src, sport, dst, dport) ==
    [ipv |-> 4, proto |-> proto, src |-> src, dst |-> dst, sport |-> sport, dport |-> dport, icmpType |-> 0, icmpCode |-> 0]
UTWeb == UTP(6, <<10, 0, 0, 1>>, 40000, <<10, 65, 0, 2>>, 80)

\* lower priority number first; direction decides which side is local
ASSUME HNSVerdict(<<UTR(1001, "Block", "In", 256, <<>>, <<>>, <<>>, <<>>),
                    UTR(1000, "Allow", "In", 6, <<>>, <<UTC(<<10, 0, 0, 0>>, 8)>>, << <<80, 80>> >>, <<>>)>>, UTWeb, "In") = "allow"
ASSUME HNSVerdict(<<UTR(1000, "Block", "In", 256, <<>>, <<>>, <<>>, <<>>),
                    UTR(1001, "Allow", "In", 6, <<>>, <<>>, <<>>, <<>>)>>, UTWeb, "In") = "deny"
\* equal priority and different actions: no verdict is read off
ASSUME HNSVerdict(<<UTR(1000, "Block", "In", 256, <<>>, <<>>, <<>>, <<>>),
                    UTR(1000, "Allow", "In", 6, <<>>, <<>>, <<>>, <<>>)>>, UTWeb, "In") = "ambiguous"
ASSUME HNSVerdict(<<UTR(1000, "Allow", "In", 17, <<>>, <<>>, <<>>, <<>>)>>, UTWeb, "In") = "default"
\* outbound: local = source, remote = destination
ASSUME HNSVerdict(<<UTR(1000, "Allow", "Out", 6, <<>>, <<UTC(<<10, 65, 0, 2>>, 32)>>, <<>>, << <<80, 81>> >>)>>, UTWeb, "Out") = "allow"
ASSUME HNSVerdict(<<UTR(1000, "Allow", "Out", 6, <<>>, <<>>, << <<80, 81>> >>, <<>>)>>, UTWeb, "Out") = "default"
ASSUME HNSVerdict(<<UTR(1000, "Allow", "In", 6, <<>>, <<>>, <<>>, <<>>)>>, UTWeb, "Out") = "default"
\* Host rules do not filter the endpoint's switch port
ASSUME HNSVerdict(<<[UTR(100, "Allow", "In", 256, <<>>, <<>>, <<>>, <<>>) EXCEPT !.ruleType = "Host"]>>, UTWeb, "In") = "default"
\* a port list never matches a protocol without ports
ASSUME ~HNSRuleMatches(UTR(1, "Allow", "In", 256, <<>>, <<>>, << <<0, 65535>> >>, <<>>), [UTWeb EXCEPT !.proto = 1, !.dport = 0], "In")

\* reference: default tier with a policy -> profiles not consulted, pass out of the last tier is a deny
UTRule(a) == [WinBlankRule EXCEPT !.action = a]
UTTcp80(a) == [WinBlankRule EXCEPT !.action = a, !.proto = 6, !.dstPorts = << <<80, 80>> >>]
UTCase(tname, rules, da) ==
    [tiers |-> <<[name |-> tname, defaultAction |-> da, ingress |-> <<[name |-> "p", staged |-> FALSE, rules |-> rules]>>, egress |-> <<>>]>>,
     profiles |-> <<[name |-> "prof", ingress |-> <<UTRule("allow")>>, egress |-> <<UTRule("allow")>>]>>,
     sets |-> [_none |-> [type |-> "net", members |-> <<>>]], hostAddrs |-> <<UTC(<<192, 0, 2, 1>>, 32)>>, static |-> <<>>]
ASSUME WinReference(UTCase("default", <<UTTcp80("pass")>>, "Deny"), "In", UTWeb) = "deny"
ASSUME WinReference(UTCase("tier-a", <<UTTcp80("pass")>>, "Deny"), "In", UTWeb) = "allow"
ASSUME WinReference(UTCase("tier-a", <<UTTcp80("deny")>>, "Pass"), "In", [UTWeb EXCEPT !.dport = 81]) = "allow"
ASSUME WinReference(UTCase("default", <<UTTcp80("deny")>>, "Pass"), "In", [UTWeb EXCEPT !.dport = 81]) = "deny"
ASSUME WinReference(UTCase("default", <<UTTcp80("deny")>>, "Deny"), "Out", UTWeb) = "allow"      \* no egress policy: profiles
ASSUME WinReference(UTCase("default", <<UTTcp80("deny")>>, "Deny"), "In", [UTWeb EXCEPT !.src = <<192, 0, 2, 1>>]) = "allow"
ASSUME WinSupportedRule(UTTcp80("pass")) /\ ~WinSupportedRule([UTTcp80("allow") EXCEPT !.notProto = 17])
=============================================================================
