CONSTANTS
  Acts = {"allow", "deny", "pass"}
  MatchIds = {1,6}
  MaxTiers = 2
  MaxPol = 2
  MaxRules = 2
  MaxTotal = 3
