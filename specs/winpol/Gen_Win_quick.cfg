CONSTANTS
  Acts = {"allow", "deny", "pass"}
  MatchIds = {1,2,4,6,7}
  MaxTiers = 2
  MaxPol = 2
  MaxRules = 2
  MaxTotal = 2
