------------------------------- MODULE Gen_Win -------------------------------
(* C30 small-scope generator: ALL tier layouts of at most MaxTiers tiers x MaxPol policies x MaxRules rules
   (at most MaxTotal rules in all) over a tiny rule alphabet, for each direction, tier default action and
   position of the default tier.  The alphabet is chosen so that the matches of two rules can be equal,
   nested, overlapping or disjoint in protocol, address and port - the cases the tier flattener
   (flattener.go combineRules) has to intersect.  Every layout is printed as one `BEH` line and replayed
   through the real code by the drivers; the alphabet is printed once so that the Go side never has to
   know it:   BEH {"alphabet": {code: PolicySem rule}, "sets": PolicySem ipsets}      BEH {"layout": {...}}
   layout = {"dir": "In"|"Out", "tiers": [{"name","defaultAction","policies":[[code]]}], "profile":[code]} *)
EXTENDS Integers, Sequences, FiniteSets, TLC, Json, WinSem

CONSTANTS Acts,        \* subset of {"allow","deny","pass"}
          MatchIds,    \* subset of DOMAIN Matches
          MaxTiers, MaxPol, MaxRules, MaxTotal

Net10 == [a |-> <<10, 0, 0, 0>>, n |-> 8]
Net10_1 == [a |-> <<10, 1, 0, 0>>, n |-> 16]
Net11 == [a |-> <<11, 0, 0, 0>>, n |-> 8]
Matches ==
    << [WinBlankRule EXCEPT !.proto = 6, !.dstPorts = << <<80, 80>> >>],                                \* 1 tcp dport 80
       [WinBlankRule EXCEPT !.proto = 6, !.srcNets = <<Net10>>, !.dstPorts = << <<80, 81>> >>],       \* 2 tcp 10/8 -> 80-81
       WinBlankRule,                                                                                    \* 3 anything
       [WinBlankRule EXCEPT !.proto = 6, !.dstPorts = << <<443, 443>> >>],                              \* 4 tcp dport 443 (disjoint from 1, 2)
       [WinBlankRule EXCEPT !.srcNets = <<Net10_1, Net11>>],                                            \* 5 from 10.1/16 or 11/8
       [WinBlankRule EXCEPT !.proto = 17, !.dstNets = <<Net10>>, !.srcPorts = << <<53, 53>> >>],        \* 6 udp sport 53 -> 10/8
       [WinBlankRule EXCEPT !.srcNets = <<Net10>>, !.srcSets = <<"s:enumA">>],                           \* 7 from 10/8 AND in set A
       [WinBlankRule EXCEPT !.proto = 6, !.dstSets = <<"s:enumA">>, !.dstPorts = << <<80, 80>> >>],     \* 8 tcp to set A port 80
       [WinBlankRule EXCEPT !.srcSets = <<"s:enumE">>] >>                                               \* 9 from the empty set E (never matches)

\* the IP sets of the alphabet: A overlaps 10/8 partly (10.1/16 and 10.1.2.3 inside, 11.0.0.1 outside), E is empty
EnumSets == ("s:enumA" :> [type |-> "net", members |-> <<Net10_1, [a |-> <<11, 0, 0, 1>>, n |-> 32], [a |-> <<10, 1, 2, 3>>, n |-> 32]>>])
            @@ ("s:enumE" :> [type |-> "net", members |-> <<>>])

Code(a, k) == a \o ":" \o ToString(k)
Codes == { Code(a, k) : a \in Acts, k \in MatchIds }
ProfileCode == Code("allow", 3)                  \* the endpoint's single profile: allow everything
Alphabet ==
    [ c \in Codes \cup {ProfileCode} |->
        LET ak == CHOOSE x \in (Acts \cup {"allow"}) \X (MatchIds \cup {3}) : Code(x[1], x[2]) = c
        IN [Matches[ak[2]] EXCEPT !.action = ak[1]] ]

SeqsUpTo(S, n) == UNION { [1..k -> S] : k \in 1..n }          \* non-empty sequences over S of length <= n
PolicySet == SeqsUpTo(Codes, MaxRules)
TierPolicies == SeqsUpTo(PolicySet, MaxPol)
RECURSIVE SumLen(_, _)
SumLen(s, i) == IF i = 0 THEN 0 ELSE SumLen(s, i - 1) + Len(s[i])
RulesIn(pols) == SumLen(pols, Len(pols))
RECURSIVE SumRules(_, _)
SumRules(ts, i) == IF i = 0 THEN 0 ELSE SumRules(ts, i - 1) + RulesIn(ts[i])

\* the policies of n tiers with at most MaxTotal rules in all
TiersOf(n) ==
    LET T == { x \in TierPolicies : RulesIn(x) <= MaxTotal - (n - 1) }
    IN { x \in [1..n -> T] : SumRules(x, n) <= MaxTotal }

\* where the default tier is (the Windows dataplane treats it specially: WinSem!WinProfilesApply)
NameChoices(n) == IF n = 1 THEN { <<"default">>, <<"tier-a">> }
                  ELSE { <<"tier-a", "default">>, <<"default", "tier-z">>, <<"tier-a", "tier-z">> }
Defaults == {"Deny", "Pass"}

LayoutsOf(n) ==
    { [dir |-> d,
       tiers |-> [i \in 1..n |-> [name |-> nm[i], defaultAction |-> da[i], policies |-> tp[i]]],
       profile |-> <<ProfileCode>>] :
        d \in {"In", "Out"}, tp \in TiersOf(n), nm \in NameChoices(n), da \in [1..n -> Defaults] }

ASSUME MaxTiers \in 1..2
ASSUME PrintT("BEH " \o ToJson([alphabet |-> Alphabet, sets |-> EnumSets]))
ASSUME \A n \in 1..MaxTiers : \A lay \in LayoutsOf(n) : PrintT("BEH " \o ToJson([layout |-> lay]))
=============================================================================
