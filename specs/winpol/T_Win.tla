-------------------------------- MODULE T_Win --------------------------------
(* C30 trace spec: every line of the trace is one case rendered by the real Windows dataplane code
   (format: WinSem.tla).  A case is accepted iff WinSem!WinCaseOK: no panic, and for every probe connection
   in both directions the HNS model's verdict on the applied rules equals the reference (L2), and the same
   for every single PolicySets.GetPolicySetRules result against its tier reference (L1).

   T_Win.cfg      strict: the first rejected case stops validation (used to confirm single cases)
   T_Win_diag.cfg accepts every line but prints `WIN {"kind":"reject"|"stat",...}` lines; the orchestrator
                  uses it as the bulk pass and confirms rejected cases with the strict config             *)
EXTENDS TraceLib, WinSem, MC_HNS      \* MC_HNS: constant-level unit tests of the models (ASSUMEs)

TInit == l = 1

TCase == IsEvent("case") /\ WinCaseOK(Cur)
TNext == TCase

\* bulk pass: never blocks; one "WIN <json>" line per case (and one more per rejected case)
TDiag == /\ IsEvent("case")
         /\ LET probes == WinProbes(Cur)
                l2 == WinL2Eval(Cur, probes)
                ok == WinCaseOKWith(Cur, probes, l2)
            IN /\ ok \/ PrintT("WIN " \o ToJson([kind |-> "reject", case |-> Cur.case, witness |-> WinWitness(Cur, probes, l2),
                                                      svcmix |-> WinOnlySvcMix(Cur, probes)]))
               \* probes, rules applied, GetPolicySetRules calls, verdicts reached (how non-trivial the case is)
               /\ PrintT("WIN " \o ToJson([kind |-> "stat", case |-> Cur.case, ok |-> ok, inscope |-> WinCaseInScope(Cur),
                                           probes |-> Cardinality(probes), judged |-> Cardinality(l2),
                                           l1 |-> Len(Cur.calls) * Cardinality(probes),
                                           acl |-> Len(Cur.acl), reached |-> SetToSeq({ x[4] : x \in l2 })]))
=============================================================================
