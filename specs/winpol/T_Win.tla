-------------------------------- MODULE T_Win --------------------------------
(* C30 trace spec: every line of the trace is one case rendered by the real Windows dataplane code
   (format: WinSem.tla).  A case is accepted iff WinSem!WinCaseOK: no panic, and for every probe connection
   in both directions the HNS model's verdict on the applied rules equals the reference (L2), and the same
   for every single PolicySets.GetPolicySetRules result against its tier reference (L1).

   T_Win.cfg      strict: the first rejected case stops validation (used to confirm single cases)
   T_Win_diag.cfg accepts every line but prints <<"REJECT", case, witness>> / <<"STAT", ...>> lines; the
                  orchestrator uses it as the bulk pass and confirms every REJECT with the strict config *)
EXTENDS TraceLib, WinSem

TInit == l = 1

TCase == IsEvent("case") /\ WinCaseOK(Cur)
TNext == TCase

\* verdicts reached by the probes of a case (how non-trivial the case is)
TReached(c, probes) ==
    { WinReference(c, dir, p) : <<dir, p>> \in { <<d, q>> \in WinDirs \X probes : WinJudged(c, d, q) } }

TDiag == /\ IsEvent("case")
         /\ WinCaseOK(Cur) \/ PrintT(<<"REJECT", Cur.case, WinWitness(Cur)>>)
         /\ WinCaseInScope(Cur) \/ PrintT(<<"OUTOFSCOPE", Cur.case>>)
         /\ LET probes == WinProbes(Cur)
            IN PrintT(<<"STAT", Cur.case, Cardinality(probes), Len(Cur.acl), Len(Cur.calls), TReached(Cur, probes)>>)
=============================================================================
