CONSTANTS
  Acts = {"allow", "deny", "pass"}
  MatchIds = {1,2,3,4,5,6,7,8,9}
  MaxTiers = 2
  MaxPol = 2
  MaxRules = 2
  MaxTotal = 2
