------------------------------- MODULE WinSem -------------------------------
(* C30 - reference side: what the HNS rules that felix/dataplane/windows renders for ONE workload endpoint
   must decide, for the policies / tier layouts the Windows dataplane supports.

   The reference is specs/lib/PolicySem (RuleMatches / PolicyVerdict / TierVerdict / TiersVerdict) plus the
   Windows-specific behaviours that the code DOCUMENTS (comments / log messages / its own unit tests).
   Each of them is a named definition below (Win...).  Behaviours of the code that change a verdict and
   are NOT documented are not part of this reference - they show up as rejected cases.

   ---- case record (one ndjson line written by the in-package driver) ---------------------------------
   { "case": n, "cls": s,
     "sets":     PolicySem ipsets,
     "tiers":    [ {"name": s, "defaultAction": "Deny"|"Pass", "ingress": [policy], "egress": [policy]} ],
                 policy = PolicySem policy {"name","staged","rules"}; tier order = evaluation order;
                 exactly what the WorkloadEndpoint message's TierInfo list says
     "profiles": [ {"name": s, "ingress": [rule], "egress": [rule]} ],
     "polsets":  { setId: {"ingress": [rule], "egress": [rule]} }   what was handed to
                 PolicySets.AddOrReplacePolicySet by the real policyManager (staged policies never are)
     "hostAddrs": [CIDR],                   the node's own addresses (endpointManager.OnHostAddrsUpdate)
     "static":   [aclrule],                 static-rules.json as loaded (HNS IR, see module HNS)
     "panic":    "" | text,                 a panic raised by the real code while rendering
     "acl":      [aclrule],                 the rules the endpoint manager applied to the HNS endpoint
     "calls":    [ {"ids": [setId], "dir": "In"|"Out", "drop": BOOLEAN, "rules": [aclrule]} ] }
                 every PolicySets.GetPolicySetRules call the endpoint manager made, with its result      *)
EXTENDS PolicyProbes, HNS, SequencesExt

WinDirs == {"In", "Out"}
WinOfDir(x, dir) == IF dir = "In" THEN x.ingress ELSE x.egress
WinSeq(f) == IF DOMAIN f = {} THEN <<>> ELSE f          \* a function with empty domain as the empty sequence

\* ---- the antecedent: "policies that use only match criteria the Windows dataplane supports" ----------
(* policysets.protoRuleToHnsRules skips (logs "not supported") rules with any negated match, an ICMP
   type/code, or named ports.  IP version 6 rules / CIDRs are no-ops on the IPv4-only dataplane, which is
   also what PolicySem says for IPv4 packets, so they are in scope.  Action "log" is skipped, which is
   PolicySem's meaning of "log" for the verdict.                                                        *)
WinSupportedRule(r) ==
    /\ r.notProto = 0
    /\ r.notSrcNets = <<>> /\ r.notDstNets = <<>> /\ r.notSrcPorts = <<>> /\ r.notDstPorts = <<>>
    /\ r.notSrcSets = <<>> /\ r.notDstSets = <<>> /\ r.notSrcNamed = <<>> /\ r.notDstNamed = <<>>
    /\ r.icmp = <<>> /\ r.notIcmp = <<>>
    /\ r.srcNamed = <<>> /\ r.dstNamed = <<>>
(* Shapes the calculation graph can produce (felix/calc/rule_scanner.go): at most one positive selector
   IP set per side; service (ip,port) sets only as the destination of egress rules.                     *)
WinWellFormedRule(r, dir) ==
    /\ Len(r.srcSets) <= 1 /\ Len(r.dstSets) <= 1 /\ Len(r.dstIpPortSets) <= 1
    /\ r.dstIpPortSets # <<>> => dir = "Out" /\ r.dstPorts = <<>> /\ r.dstNets = <<>> /\ r.dstSets = <<>>
WinRuleInScope(r, dir) == WinSupportedRule(r) /\ WinWellFormedRule(r, dir)

WinDirRules(c, dir) ==
    UNION { UNION { PSElems(WinOfDir(c.tiers[i], dir)[j].rules) : j \in DOMAIN WinOfDir(c.tiers[i], dir) } : i \in DOMAIN c.tiers }
    \cup UNION { PSElems(WinOfDir(c.profiles[i], dir)) : i \in DOMAIN c.profiles }
WinCaseInScope(c) == \A dir \in WinDirs : \A r \in WinDirRules(c, dir) : WinRuleInScope(r, dir)

\* ---- named Windows deviations from PolicySem!EndpointVerdict (all documented in the code) ------------
WinDirTier(t, dir) == [name |-> t.name, defaultAction |-> t.defaultAction, policies |-> WinOfDir(t, dir)]
WinTiers(c, dir) == WinSeq([i \in DOMAIN c.tiers |-> WinDirTier(c.tiers[i], dir)])

(* WinProfilesApply - endpoint_mgr.go: "If _no_ policies apply at all, then we fall through to the profiles.
   Otherwise, there's no way to get from policies to profiles." / "If the default tier does not have policies
   in a direction, then a profile should be added for that direction."  As everywhere in PolicySem, a
   staged policy does not count as a policy.                                                            *)
WinDefaultTierHasPolicy(c, dir) ==
    \E i \in DOMAIN c.tiers : c.tiers[i].name = "default" /\ PSEnforced(WinDirTier(c.tiers[i], dir)) # {}
WinProfilesApply(c, dir) == ~WinDefaultTierHasPolicy(c, dir)

(* WinProfilesAsLastTier - the endpoint's profiles are rendered as ONE more tier after the policy tiers
   (one GetPolicySetRules call over all profile ids, end-of-tier drop): first matching rule of the first
   profile that has one decides.                                                                        *)
WinProfileTier(c, dir) ==
    [name |-> "profiles", defaultAction |-> "Deny",
     policies |-> WinSeq([i \in DOMAIN c.profiles |->
                    [name |-> c.profiles[i].name, staged |-> FALSE, rules |-> WinOfDir(c.profiles[i], dir)]])]
WinRendered(c, dir) == WinTiers(c, dir) \o (IF WinProfilesApply(c, dir) THEN <<WinProfileTier(c, dir)>> ELSE <<>>)

(* WinPassOutOfLastTierIsDeny - flattener.go: "there could still be rules with `pass` action which should be
   `passed` to `default-deny`": a pass (rule action or tier default action Pass) out of the last rendered
   tier is a deny.  (PolicySem would continue with the profiles / the next profile.)                   *)
WinPolicyVerdict(c, dir, p) ==
    LET v == TiersVerdict(WinRendered(c, dir), p, c.sets)
    IN IF v = "next" THEN "deny" ELSE v

(* WinHostToEndpointAllowed - endpoint_mgr.go nodeToEndpointRule: "allows traffic from the node IP to the
   endpoint", ahead of all policy (priority 900 < 1000).                                                *)
WinHostAllowed(c, dir, p) == dir = "In" /\ \E i \in DOMAIN c.hostAddrs : ContainsAddr(c.hostAddrs[i], p.src)

(* WinStaticRulesFirst - static-rules.json rules are placed in front of the policy rules; the property
   says nothing about them, so connections matched by a static rule are not judged.                    *)
WinStaticMatches(c, dir, p) == \E i \in DOMAIN c.static : HNSRuleMatches(c.static[i], p, dir)

WinJudged(c, dir, p) == ~WinStaticMatches(c, dir, p)
WinReference(c, dir, p) == IF WinHostAllowed(c, dir, p) THEN "allow" ELSE WinPolicyVerdict(c, dir, p)

\* ---- one PolicySets.GetPolicySetRules call (priority bumping, end-of-tier rule, chunking) -------------
(* Documented in GetPolicySetRules: rules of the listed sets in order, "first-rule-wins" by priority; an
   unknown set id ends the list ("Unable to find Policy set, replacing with a deny rule"); then the
   end-of-tier rule: Block when endOfTierDrop, else pass.  Verdicts: "allow" | "deny" | "pass".         *)
RECURSIVE WinKnownPrefix(_, _, _)
WinKnownPrefix(ids, i, polsets) ==
    IF i > Len(ids) \/ ids[i] \notin DOMAIN polsets THEN i - 1 ELSE WinKnownPrefix(ids, i + 1, polsets)
RECURSIVE WinConcat(_, _, _, _)
WinConcat(ids, n, polsets, dir) ==
    IF n = 0 THEN <<>> ELSE WinConcat(ids, n - 1, polsets, dir) \o WinOfDir(polsets[ids[n]], dir)
WinCallReference(c, call, p) ==
    LET n == WinKnownPrefix(call.ids, 1, c.polsets)
        v == PolicyVerdict(WinConcat(call.ids, n, c.polsets, call.dir), p, c.sets)
    IN IF v = "nomatch" THEN (IF call.drop THEN "deny" ELSE "pass") ELSE v

\* ---- probe connections (chosen from the case itself; choosing is not judging) -------------------------
WinBig == 24          \* address lists / IP sets longer than this are sampled for probe selection
WinManyPorts == 6     \* port lists longer than this are sampled for probe selection
WinSampleIdx(n) == { i \in {1, 2, n \div 2, 3999, 4000, 4001, 4002, 7999, 8000, 8001, n - 1, n} : 1 <= i /\ i <= n }
WinSampleOver(s, k) == IF Len(s) <= k THEN s ELSE SetToSeq({ s[i] : i \in WinSampleIdx(Len(s)) })
WinSample(s) == WinSampleOver(s, WinBig)
WinAclLists(rules) == UNION { { rules[i].localAddrs, rules[i].remoteAddrs } : i \in DOMAIN rules }
\* the long address lists the real code rendered
WinLongLists(c) ==
    LET lists == WinAclLists(c.acl) \cup UNION { WinAclLists(c.calls[k].rules) : k \in DOMAIN c.calls }
    IN { l \in lists : Len(l) > WinBig }
\* their first / last elements (= the chunk boundaries) ...
WinIRBoundary(c) == UNION { { l[1], l[Len(l)] } : l \in WinLongLists(c) }
\* ... and, for a big IP set, a few members that appear in NO rendered long list and a few rendered entries that
\* are not members (both empty when the chunks add up to the set): a lost or invented chunk is probed directly
WinFew(S, k) == LET q == SetToSeq(S) IN { q[i] : i \in 1..(IF Len(q) < k THEN Len(q) ELSE k) }
WinDivergent(c, members) ==
    LET ref == PSElems(members)
        ir == UNION { PSElems(l) : l \in WinLongLists(c) }
    IN WinFew(ref \ ir, 6) \cup WinFew(ir \ ref, 4)
WinProbeSets(c) ==
    [id \in DOMAIN c.sets |->
        IF Len(c.sets[id].members) <= WinBig THEN c.sets[id]
        ELSE [type |-> c.sets[id].type,
              members |-> SetToSeq(PSElems(WinSample(c.sets[id].members))
                                   \cup (IF c.sets[id].type = "net"
                                         THEN WinIRBoundary(c) \cup WinDivergent(c, c.sets[id].members) ELSE {}))]]
\* the action plays no role in choosing probes: rules that differ only in the action share their probes
WinProbeRule(r) == [r EXCEPT !.action = "allow", !.srcPorts = WinSampleOver(@, WinManyPorts), !.dstPorts = WinSampleOver(@, WinManyPorts)]

WinBlankRule ==
    [action |-> "allow", ipv |-> 0, proto |-> 0, notProto |-> 0, srcNets |-> <<>>, notSrcNets |-> <<>>, dstNets |-> <<>>,
     notDstNets |-> <<>>, srcPorts |-> <<>>, notSrcPorts |-> <<>>, dstPorts |-> <<>>, notDstPorts |-> <<>>,
     srcNamed |-> <<>>, notSrcNamed |-> <<>>, dstNamed |-> <<>>, notDstNamed |-> <<>>, srcSets |-> <<>>,
     notSrcSets |-> <<>>, dstSets |-> <<>>, notDstSets |-> <<>>, dstIpPortSets |-> <<>>, icmp |-> <<>>, notIcmp |-> <<>>]
\* a static ACL rule / the host addresses written as a PolicySem rule, only to derive probes from their edges
WinStaticAsRule(s) ==
    [WinBlankRule EXCEPT !.proto = IF s.proto = HNSAnyProto THEN 0 ELSE s.proto,
        !.srcNets = IF s.dir = "In" THEN s.remoteAddrs ELSE s.localAddrs,
        !.dstNets = IF s.dir = "In" THEN s.localAddrs ELSE s.remoteAddrs,
        !.srcPorts = IF s.dir = "In" THEN s.remotePorts ELSE s.localPorts,
        !.dstPorts = IF s.dir = "In" THEN s.localPorts ELSE s.remotePorts]
WinHostAsRule(c) == [WinBlankRule EXCEPT !.srcNets = c.hostAddrs]

(* The tier flattener turns a pass rule r1 and a rule r2 of a later tier into one rule "r1 and r2".  Per-rule
   probes never mix the fields of two rules, so for every such pair a synthetic rule that takes each match
   field from r2 when r2 sets it and from r1 otherwise contributes its probes too (e.g. r2's protocol with
   r1's port).  Only used to choose probes.                                                              *)
WinMerge(r1, r2) ==
    [r2 EXCEPT !.proto = IF @ # 0 THEN @ ELSE r1.proto,
               !.srcNets = IF @ # <<>> THEN @ ELSE r1.srcNets, !.dstNets = IF @ # <<>> THEN @ ELSE r1.dstNets,
               !.srcPorts = IF @ # <<>> THEN @ ELSE r1.srcPorts, !.dstPorts = IF @ # <<>> THEN @ ELSE r1.dstPorts,
               !.srcSets = IF @ # <<>> THEN @ ELSE r1.srcSets, !.dstSets = IF @ # <<>> THEN @ ELSE r1.dstSets]
WinTierRules(c, dir, i) ==
    UNION { PSElems(WinOfDir(c.tiers[i], dir)[j].rules) : j \in DOMAIN WinOfDir(c.tiers[i], dir) }
WinLaterRules(c, dir, i) ==
    UNION { WinTierRules(c, dir, j) : j \in (i + 1)..Len(c.tiers) }
    \cup UNION { PSElems(WinOfDir(c.profiles[k], dir)) : k \in DOMAIN c.profiles }
WinMergedAt(c, dir, i) ==
    LET pass == { x \in WinTierRules(c, dir, i) : PSAction(x) = "pass" /\ x.dstIpPortSets = <<>> }
        later == { x \in WinLaterRules(c, dir, i) : x.dstIpPortSets = <<>> }
    IN UNION { { WinMerge(pr[1], pr[2]), WinMerge(pr[2], pr[1]) } : pr \in pass \X later }
WinMergedRules(c, dir) == UNION { WinMergedAt(c, dir, i) : i \in DOMAIN c.tiers }

WinProbeRules(c) ==
    { WinProbeRule(r) : r \in WinDirRules(c, "In") \cup WinDirRules(c, "Out")
                              \cup WinMergedRules(c, "In") \cup WinMergedRules(c, "Out") }
    \cup { WinStaticAsRule(c.static[i]) : i \in DOMAIN c.static }
    \cup { WinHostAsRule(c), WinBlankRule }
\* the same connections are tried in both directions
WinProbes(c) == RulesProbes(WinProbeRules(c), 4, WinProbeSets(c))

\* ---- the property ---------------------------------------------------------------------------------------
\* every judged (direction, probe) with the HNS model's verdict on the applied rules and the reference
WinL2Eval(c, probes) ==
    LET rin == WinRendered(c, "In")
        rout == WinRendered(c, "Out")
        Ref(dir, p) ==
            IF WinHostAllowed(c, dir, p) THEN "allow"
            ELSE LET v == TiersVerdict(IF dir = "In" THEN rin ELSE rout, p, c.sets)
                 IN IF v = "next" THEN "deny" ELSE v                \* = WinReference(c, dir, p)
    IN { <<x[1], x[2], HNSVerdict(c.acl, x[2], x[1]), Ref(x[1], x[2])>> :
            x \in { y \in WinDirs \X probes : WinJudged(c, y[1], y[2]) } }
\* the same for GetPolicySetRules call number k
WinL1Eval(c, k, probes) ==
    LET call == c.calls[k]
        n == WinKnownPrefix(call.ids, 1, c.polsets)
        rules == WinConcat(call.ids, n, c.polsets, call.dir)
        Ref(p) == LET v == PolicyVerdict(rules, p, c.sets)
                  IN IF v = "nomatch" THEN (IF call.drop THEN "deny" ELSE "pass") ELSE v   \* = WinCallReference
    IN { <<k, p, HNSVerdict(call.rules, p, call.dir), Ref(p)>> : p \in { q \in probes : WinJudged(c, call.dir, q) } }

WinBad(eval) == { x \in eval : x[3] # x[4] }
WinL1Bad(c, probes) == UNION { WinBad(WinL1Eval(c, k, probes)) : k \in DOMAIN c.calls }

WinCaseOKWith(c, probes, l2eval) ==
    ~WinCaseInScope(c) \/ (c.panic = "" /\ WinBad(l2eval) = {} /\ WinL1Bad(c, probes) = {})
WinCaseOK(c) == LET probes == WinProbes(c) IN WinCaseOKWith(c, probes, WinL2Eval(c, probes))

(* Classification of a rejected case (a label for known_findings.json, not a verdict): policysets.go renders a
   rule with a destination service set (DstIpPortSetIds) from the set members alone and ignores the rule's
   protocol and source-side matches ("mutually exclusive with other fields ... The API validates against
   this" - the API only forbids destination-side fields next to services).  WinOnlySvcMix holds when the case
   has such a rule and is accepted once those extra matches are dropped from the REFERENCE side.        *)
WinSvcExtra(r) == r.dstIpPortSets # <<>> /\ (r.proto # 0 \/ r.srcNets # <<>> \/ r.srcSets # <<>> \/ r.srcPorts # <<>>)
WinSvcStrip(r) == IF WinSvcExtra(r) THEN [r EXCEPT !.proto = 0, !.srcNets = <<>>, !.srcSets = <<>>, !.srcPorts = <<>>] ELSE r
WinSvcStripRules(rs) == WinSeq([i \in DOMAIN rs |-> WinSvcStrip(rs[i])])
WinSvcStripPols(ps) == WinSeq([i \in DOMAIN ps |-> [ps[i] EXCEPT !.rules = WinSvcStripRules(ps[i].rules)]])
WinSvcStripCase(c) ==
    [c EXCEPT
       !.tiers = WinSeq([i \in DOMAIN c.tiers |->
                    [c.tiers[i] EXCEPT !.ingress = WinSvcStripPols(c.tiers[i].ingress), !.egress = WinSvcStripPols(c.tiers[i].egress)]]),
       !.profiles = WinSeq([i \in DOMAIN c.profiles |->
                    [c.profiles[i] EXCEPT !.ingress = WinSvcStripRules(c.profiles[i].ingress),
                                          !.egress = WinSvcStripRules(c.profiles[i].egress)]]),
       !.polsets = [id \in DOMAIN c.polsets |->
                    [ingress |-> WinSvcStripRules(c.polsets[id].ingress), egress |-> WinSvcStripRules(c.polsets[id].egress)]]]
WinOnlySvcMix(c, probes) ==
    /\ \E dir \in WinDirs : \E r \in WinDirRules(c, dir) : WinSvcExtra(r)
    /\ LET c2 == WinSvcStripCase(c) IN WinCaseOKWith(c2, probes, WinL2Eval(c2, probes))

\* a printable explanation of a rejected case
WinWitness(c, probes, l2eval) ==
    IF c.panic # "" THEN <<"panic", c.panic>>
    ELSE LET b2 == WinBad(l2eval)
             b1 == WinL1Bad(c, probes)
         IN IF b2 # {}
            THEN LET w == CHOOSE x \in b2 : TRUE IN <<"L2", w[1], w[3], w[4], Cardinality(b2), w[2]>>
            ELSE LET w == CHOOSE x \in b1 : TRUE
                 IN <<"L1", c.calls[w[1]].dir, w[3], w[4], Cardinality(b1), w[2], c.calls[w[1]].ids>>
=============================================================================
