INIT TInit
NEXT TDiag
POSTCONDITION TraceAccepted
CHECK_DEADLOCK FALSE
