CONSTANTS
  Ids = {"w1", "w2", "h1"}
  AddrSets <- GAddrSetsCover
  Feats <- GFeatsCover
  SimLen = 40
INIT GInit
NEXT GNext
VIEW GView
ACTION_CONSTRAINT EmitEdge
CHECK_DEADLOCK FALSE
