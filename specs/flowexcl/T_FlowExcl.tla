---------------------------- MODULE T_FlowExcl ----------------------------
(* Trace specification for C41 (state half): replays the endpoint messages given to the real
   flowtableExclusionManager (IPv4 and IPv6 instances) against FlowExcl, and requires that the set each
   instance programmed at every CompleteDeferredWork is exactly Want4 / Want6 of the current endpoints. *)
EXTENDS TraceLib, FiniteSets

VARIABLES eps, set4, set6

IsUpd(e) == e.ev \in {"wep_update", "hep_update", "wep_remove", "hep_remove"}
TIds == { Trace[i].id : i \in { j \in 1..NTrace : IsUpd(Trace[j]) } }

D == INSTANCE FlowExcl WITH Ids <- TIds, AddrSets <- {}, Feats <- {}

\* an address as given to the manager is [ip |-> "10.65.0.1", len |-> 32] (the driver renders ip/len,
\* or the bare ip when len = 0); the set holds bare addresses
Ips(seq) == { seq[i].ip : i \in DOMAIN seq }
RecOf(c) == [live |-> TRUE, v4 |-> Ips(c.v4), v6 |-> Ips(c.v6), f |-> c.f]

TInit == l = 1 /\ eps = [i \in TIds |-> D!Dead] /\ set4 = {} /\ set6 = {}

TReset  == IsEvent("reset") /\ eps' = [i \in TIds |-> D!Dead] /\ set4' = {} /\ set6' = {}
TUpdate == (IsEvent("wep_update") \/ IsEvent("hep_update")) /\ D!Update(Cur.id, RecOf(Cur))
TRemove == (IsEvent("wep_remove") \/ IsEvent("hep_remove")) /\ D!Remove(Cur.id)
\* CompleteDeferredWork on both instances followed by a read of the recorded sets
TFlush  ==
    /\ IsEvent("flush")
    /\ D!Flush
    /\ SeqToSet(Cur.set4) = set4'
    /\ SeqToSet(Cur.set6) = set6'

\* a "panic" event (the real manager panicked; logged by the driver) has no action: such a trace is rejected
TNext == TReset \/ TUpdate \/ TRemove \/ TFlush
=============================================================================
