---------------------------- MODULE Gen_FlowExcl ----------------------------
(* Behaviour generator for C41 (state half): FlowExcl's actions with a history variable.
   cover: one behaviour per transition of the abstract (eps, set4, set6) graph; simulate: random walks. *)
EXTENDS FlowExcl, Sequences, TLC, Json

CONSTANTS SimLen
VARIABLE hist
gvars == <<eps, set4, set6, hist>>

A(v4, v6) == [v4 |-> v4, v6 |-> v6]
GAddrSets == { A({}, {}), A({"a"}, {"x"}), A({"b"}, {"x"}), A({"a", "b"}, {"y"}) }
F(d, bw, pr, mc) == [dscp |-> d, ibw |-> bw, ebw |-> 0, ipr |-> pr, epr |-> 0, imc |-> 0, emc |-> mc]
GAddrSetsCover == { A({"a"}, {"x"}), A({"a", "b"}, {}) }
GFeatsCover == { NoFeat, F(0, 1000, 0, 0), F(1, 0, 0, 0) }
GFeats == { NoFeat, F(0, 1000, 0, 0), F(1, 0, 0, 0), F(0, 1000, 0, 7) }
GFeatsBig == GFeats \cup { F(0, 0, 50, 0), [NoFeat EXCEPT !.epr = 9], [NoFeat EXCEPT !.imc = 3], F(2, 5, 0, 0) }

SetToSeq(S) == CHOOSE s \in [1..Cardinality(S) -> S] : \A i, j \in 1..Cardinality(S) : i # j => s[i] # s[j]
IsHep(i) == i \in {"h1", "h2"}
\* host endpoints carry QoS policies (DSCP) only
FeatOK(i, f) == IsHep(i) => f = [NoFeat EXCEPT !.dscp = f.dscp]

GInit == Init /\ hist = <<>>
Step(a, r) == a /\ hist' = Append(hist, r)

GNext ==
  \/ /\ Len(hist) = SimLen /\ hist' = Append(hist, [op |-> "end"]) /\ UNCHANGED vars
  \/ /\ Len(hist) < SimLen
     /\ \/ \E i \in Ids, a \in AddrSets, f \in Feats :
              /\ FeatOK(i, f)
              /\ Step(Update(i, Ep(a, f)),
                      [op |-> "update", id |-> i, v4 |-> SetToSeq(a.v4), v6 |-> SetToSeq(a.v6), f |-> f])
        \/ \E i \in Ids : eps[i].live /\ Step(Remove(i), [op |-> "remove", id |-> i])
        \/ \E i \in Ids : ~eps[i].live /\ Len(hist) < 2 /\ Step(Remove(i), [op |-> "remove", id |-> i])
        \/ Step(Flush, [op |-> "flush"])

GView == <<eps, set4, set6>>
EmitEdge == PrintT("BEH " \o ToJson(hist'))
EmitAtLen == Len(hist) = SimLen + 1 => PrintT("BEH " \o ToJson(hist))
=============================================================================
