CONSTANTS
  Ids = {"w1", "w2", "w3", "h1", "h2"}
  AddrSets <- GAddrSets
  Feats <- GFeatsBig
  SimLen = 30
INIT GInit
NEXT GNext
INVARIANT EmitAtLen
CHECK_DEADLOCK FALSE
