---------------------------- MODULE MC_I_FlowExcl ----------------------------
EXTENDS I_FlowExcl
A(v4, v6) == [v4 |-> v4, v6 |-> v6]
MCAddrSets == { A({}, {}), A({"a"}, {"x"}), A({"b"}, {"x"}), A({"a", "b"}, {}) }
MCAddrSetsQuick == { A({}, {}), A({"a"}, {"x"}), A({"a", "b"}, {}) }
MCAddrSetsBig == { A({}, {}), A({"a"}, {"x"}), A({"b"}, {"x"}), A({"a", "b"}, {}), A({"b"}, {"y"}) }
F(d, bw, pr, mc) == [dscp |-> d, ibw |-> bw, ebw |-> 0, ipr |-> pr, epr |-> 0, imc |-> 0, emc |-> mc]
\* none, bandwidth only (no hooks needed), DSCP, ingress packet rate, egress max connections
MCFeats == { NoFeat, F(0, 1000, 0, 0), F(1, 0, 0, 0), F(0, 0, 50, 0), F(0, 1000, 0, 7) }
MCFeatsQuick == { NoFeat, F(0, 1000, 0, 0), F(1, 0, 0, 0), F(0, 1000, 0, 7) }
=============================================================================
