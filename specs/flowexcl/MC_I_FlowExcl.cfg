CONSTANTS
  Ids = {"w1", "w2", "h1"}
  AddrSets <- MCAddrSetsBig
  Feats <- MCFeats
INIT IInit
NEXT INext
INVARIANTS ExactWhenClean MapMirrorsEps
CHECK_DEADLOCK FALSE
