------------------------------ MODULE FlowExcl ------------------------------
(* C41 (state half), property layer.  The flowtable exclusion set ("no-flow-offload") must contain,
   after each CompleteDeferredWork, exactly the current addresses of every workload / host endpoint
   that needs per-packet hooks: DSCP marking (QoS policies), or a connection or packet-rate limit in
   either direction.  Bandwidth limits alone do NOT need the hooks (they run in tc).
   One instance per IP family; both are fed the same endpoint messages.                          *)
EXTENDS Naturals, FiniteSets

CONSTANTS Ids,        \* workload and host endpoint ids (disjoint name spaces, "w.." / "h..")
          AddrSets,   \* the choices of [v4 |-> set of addresses, v6 |-> set of addresses]
          Feats       \* the choices of feature records

\* a feature record: number of DSCP (QoS) policies and the QoSControls numbers (0 = unset)
NoFeat == [dscp |-> 0, ibw |-> 0, ebw |-> 0, ipr |-> 0, epr |-> 0, imc |-> 0, emc |-> 0]
NeedsHooks(f) == f.dscp > 0 \/ f.ipr # 0 \/ f.epr # 0 \/ f.imc # 0 \/ f.emc # 0

Dead == [live |-> FALSE, v4 |-> {}, v6 |-> {}, f |-> NoFeat]
Ep(a, f) == [live |-> TRUE, v4 |-> a.v4, v6 |-> a.v6, f |-> f]

VARIABLES eps,        \* Ids -> endpoint record: what the manager has been told
          set4, set6  \* the programmed exclusion sets (as of the last CompleteDeferredWork)
vars == <<eps, set4, set6>>

Excluded(e) == { i \in DOMAIN e : e[i].live /\ NeedsHooks(e[i].f) }
Want4(e) == UNION { e[i].v4 : i \in Excluded(e) }
Want6(e) == UNION { e[i].v6 : i \in Excluded(e) }

Init == eps = [i \in Ids |-> Dead] /\ set4 = {} /\ set6 = {}

Update(i, r) == eps' = [eps EXCEPT ![i] = r] /\ UNCHANGED <<set4, set6>>
Remove(i)    == eps' = [eps EXCEPT ![i] = Dead] /\ UNCHANGED <<set4, set6>>
\* CompleteDeferredWork: this IS the property
Flush        == set4' = Want4(eps) /\ set6' = Want6(eps) /\ UNCHANGED eps

Next == \/ \E i \in Ids, a \in AddrSets, f \in Feats : Update(i, Ep(a, f))
        \/ \E i \in Ids : Remove(i)
        \/ Flush
Spec == Init /\ [][Next]_vars
=============================================================================
