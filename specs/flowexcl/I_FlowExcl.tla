----------------------------- MODULE I_FlowExcl -----------------------------
(* Implementation-shaped model of flowtableExclusionManager (flowtable_mgr.go): a map of the addresses
   of the endpoints that need hooks, a dirty flag, and a rewrite of the whole set only when dirty.
   TLC checks that whenever the manager is clean the programmed sets are exactly FlowExcl's Want.   *)
EXTENDS FlowExcl

VARIABLES ips,     \* Ids -> [has |-> BOOLEAN, v4, v6]   (wepIPs / hepIPs)
          dirty
ivars == <<eps, set4, set6, ips, dirty>>
NoIps == [has |-> FALSE, v4 |-> {}, v6 |-> {}]

IInit == Init /\ ips = [i \in Ids |-> NoIps] /\ dirty = TRUE

IDrop(i) == IF ips[i].has THEN ips' = [ips EXCEPT ![i] = NoIps] /\ dirty' = TRUE
            ELSE UNCHANGED <<ips, dirty>>
IUpdate(i, r) ==
    /\ Update(i, r)
    /\ IF NeedsHooks(r.f)
       THEN ips' = [ips EXCEPT ![i] = [has |-> TRUE, v4 |-> r.v4, v6 |-> r.v6]] /\ dirty' = TRUE
       ELSE IDrop(i)
IRemove(i) == Remove(i) /\ IDrop(i)
IFlush ==
    /\ UNCHANGED <<eps, ips>>
    /\ IF dirty
       THEN /\ set4' = UNION { ips[i].v4 : i \in Ids }
            /\ set6' = UNION { ips[i].v6 : i \in Ids }
            /\ dirty' = FALSE
       ELSE UNCHANGED <<set4, set6, dirty>>

INext == \/ \E i \in Ids, a \in AddrSets, f \in Feats : IUpdate(i, Ep(a, f))
         \/ \E i \in Ids : IRemove(i)
         \/ IFlush

\* the property, stated on the implementation model: a clean manager has programmed exactly Want
ExactWhenClean == ~dirty => (set4 = Want4(eps) /\ set6 = Want6(eps))
MapMirrorsEps == \A i \in Ids : ips[i].has = (eps[i].live /\ NeedsHooks(eps[i].f))
=============================================================================
