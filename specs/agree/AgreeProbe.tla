----------------------------- MODULE AgreeProbe -----------------------------
(* C12 pass 1: for every generated endpoint policy state and each direction, choose the probe packets from the
   rules of that direction (enforced, staged and profile rules): PolicyProbes!RulesProbes, thinned per rule to
   CapHit matching and CapMiss non-matching probes.  One BEH line per case: [case, pkts = <<ingress, egress>>].  *)
EXTENDS TraceLib, PolicyProbes, SequencesExt

CONSTANTS CapHit, CapMiss

TInit == l = 1

ThinTo(S, n, salt) ==
    IF Cardinality(S) <= n THEN S
    ELSE LET s == SetToSeq(S)  step == (Len(s) + n - 1) \div n
         IN { s[i] : i \in { j \in 1..Len(s) : j % step = (salt % step) } }

DirRules(d) ==
    UNION { UNION { PSElems(d.tiers[i].policies[j].rules) : j \in DOMAIN d.tiers[i].policies } : i \in DOMAIN d.tiers }
    \cup UNION { PSElems(d.profiles[i]) : i \in DOMAIN d.profiles }

\* rules with source-side named ports: every probe also with source and destination port swapped, so that both "source
\* port is a member's port, destination port is not" and the converse are present
Swapped(P) == { [p EXCEPT !.sport = p.dport, !.dport = p.sport] : p \in P }
RuleCaseProbes(r, c) ==
    LET P0 == RuleProbes(r, c.ipv, c.ipsets)
        P == IF r.srcNamed # <<>> \/ r.notSrcNamed # <<>> THEN P0 \cup Swapped(P0) ELSE P0
        hit == { p \in P : RuleMatches(r, p, c.ipsets) }
    IN ThinTo(hit, CapHit, c.case) \cup ThinTo(P \ hit, CapMiss, c.case)

Blank(v) == [ipv |-> v, proto |-> 6, src |-> DefaultSrc(v), dst |-> DefaultDst(v), sport |-> 1024, dport |-> 1024,
             icmpType |-> 0, icmpCode |-> 0]
DirProbes(d, c) == {Blank(c.ipv), [Blank(c.ipv) EXCEPT !.proto = 17]} \cup UNION { RuleCaseProbes(r, c) : r \in DirRules(d) }

TStep == /\ l <= NTrace
         /\ PrintT("BEH " \o ToJson([case |-> Cur.case,
                                     pkts |-> << SetToSeq(DirProbes(Cur.dirs[1], Cur)), SetToSeq(DirProbes(Cur.dirs[2], Cur)) >>]))
         /\ l' = l + 1
=============================================================================
