------------------------------ MODULE T_Agree ------------------------------
(* C12: for the same endpoint policy state and packet, the iptables and nftables programs (rendered by the real
   renderer, executed here by the kernel model), the BPF program (real extractRules + real polprog.Builder, executed
   by harness/ebpfvm; recorded verdict) and the application-layer policy checker (real policystore + checker.Evaluate;
   recorded verdict) reach the same allow/deny verdict.  Agreement is decided through the reference: each of the
   four must equal PolicySem!EndpointVerdict, so a disagreement names the deviating implementation.             *)
EXTENDS TraceLib, PolicyProbes, Netfilter

Impls == {"ipt", "nft", "bpf", "chk"}
AgBits(c, n) == NfElems(c.marks[n])

NfGot(c, nf, dir, p) ==
    LET res == RunChain(nf.prog, nf.ksets, p @@ NfPktDefaults, nf[dir], {})
    IN IF res.v = "return" /\ AgBits(c, "accept") \subseteq res.st.mark THEN "allow"
       ELSE IF res.v = c.deny THEN "deny"
       ELSE "error:" \o res.v

Got(c, impl, di, res) ==
    CASE impl = "ipt" -> NfGot(c, c.ipt, c.dirs[di].dir, res.pkt)
      [] impl = "nft" -> NfGot(c, c.nft, c.dirs[di].dir, res.pkt)
      [] impl = "bpf" -> res.bpf
      [] impl = "chk" -> res.chk

WantWith(c, di, p, sets) == EndpointVerdict(c.dirs[di].tiers, c.dirs[di].profiles, p, sets)
Want(c, di, p) == WantWith(c, di, p, c.ipsets)

\* all (direction, result index) pairs
Obs(c) == UNION { {di} \X DOMAIN c.results[di] : di \in DOMAIN c.results }

Loadable(c) == NfWellFormed(c.ipt.prog, c.ipt.ksets) /\ NfWellFormed(c.nft.prog, c.nft.ksets)

AgreeCaseOK(c) ==
    /\ Loadable(c)
    /\ \A o \in Obs(c) : LET res == c.results[o[1]][o[2]]
                             want == Want(c, o[1], res.pkt)
                         IN \A impl \in Impls : Got(c, impl, o[1], res) = want
    /\ PrintT(<<"NPROBE", Cardinality(Obs(c)), 4, Cardinality({ Want(c, o[1], c.results[o[1]][o[2]].pkt) : o \in Obs(c) }), c.t>>)

TInit == l = 1
TCase == IsEvent("case") /\ IF AgreeCaseOK(Cur) THEN TRUE ELSE PrintT(<<"REJECT", Cur.t>>)
TNext == TCase

(* Diagnosis: which implementation deviates, and how.  Tag "namedport": the deviating implementation is the checker
   and every one of its deviations disappears when the reference is evaluated with all named-port IP sets of the
   case emptied - i.e. the checker behaves exactly as if named ports never matched (it looks the bare port number
   up in a set whose members are "ip,proto:port").                                                             *)
\* Tag "netset-prefix": the checker behaves exactly as if the CIDR-set (NET) members whose prefix is longer than /24 (/120)
\* but shorter than a full address did not exist (policystore's trie stops at its per-/24 bitmap node and never looks at
\* the children that hold /25../31 resp. /121../127 prefixes).
AgW(c) == IF c.ipv = 4 THEN 32 ELSE 128
RECURSIVE AgFilter(_, _, _)
AgFilter(ms, i, w) == IF i > Len(ms) THEN <<>>
                      ELSE (IF ms[i].n > w - 8 /\ ms[i].n < w THEN <<>> ELSE <<ms[i]>>) \o AgFilter(ms, i + 1, w)
NoLongPrefix(c) == [id \in DOMAIN c.ipsets |-> IF c.ipsets[id].type = "net"
                                               THEN [type |-> "net", members |-> AgFilter(c.ipsets[id].members, 1, AgW(c))]
                                               ELSE c.ipsets[id]]
\* Tag "ipportset-sctp": the checker behaves exactly as if the SCTP members of the service ip+port sets (dstIpPortSetIds)
\* did not exist (its protocol-number-to-name table used to build the "ip,proto:port" key has no entry for 132).
RECURSIVE AgNoSctp(_, _)
AgNoSctp(ms, i) == IF i > Len(ms) THEN <<>> ELSE (IF ms[i].p = 132 THEN <<>> ELSE <<ms[i]>>) \o AgNoSctp(ms, i + 1)
NoSvcSctp(c) == [id \in DOMAIN c.ipsets |-> IF id \in NfElems(c.svc) THEN [type |-> "ipport", members |-> AgNoSctp(c.ipsets[id].members, 1)]
                                            ELSE c.ipsets[id]]
ChkIsExactly(c, sets) == \A o \in Obs(c) : c.results[o[1]][o[2]].chk = WantWith(c, o[1], c.results[o[1]][o[2]].pkt, sets)
NoNamed(c) == [id \in DOMAIN c.ipsets |-> IF id \in NfElems(c.named) THEN [type |-> "ipport", members |-> <<>>] ELSE c.ipsets[id]]
Devs(c, impl) == { o \in Obs(c) : Got(c, impl, o[1], c.results[o[1]][o[2]]) # Want(c, o[1], c.results[o[1]][o[2]].pkt) }
AgreeDiag(c) ==
    IF ~Loadable(c) THEN <<"CLASS", "refused", NfRefusals(c.ipt.prog, c.ipt.ksets) \cup NfRefusals(c.nft.prog, c.nft.ksets)>>
    ELSE LET bad == { impl \in Impls : Devs(c, impl) # {} }
             One(impl) == CHOOSE o \in Devs(c, impl) : TRUE
             Tag(impl) == IF impl # "chk" THEN "-"
                          ELSE IF c.named # <<>> /\ ChkIsExactly(c, NoNamed(c)) THEN "namedport"
                          ELSE IF ChkIsExactly(c, NoLongPrefix(c)) THEN "netset-prefix"
                          ELSE IF c.svc # <<>> /\ ChkIsExactly(c, NoSvcSctp(c)) THEN "ipportset-sctp"
                          ELSE "-"
         IN IF bad = {} THEN <<"CLASS", "none">>
            ELSE <<"CLASS", "agree",
                   { <<impl, Want(c, One(impl)[1], c.results[One(impl)[1]][One(impl)[2]].pkt),
                       Got(c, impl, One(impl)[1], c.results[One(impl)[1]][One(impl)[2]]), Tag(impl), Cardinality(Devs(c, impl)),
                       c.dirs[One(impl)[1]].dir, c.results[One(impl)[1]][One(impl)[2]].pkt>> : impl \in bad }>>
DCase == IsEvent("case") /\ PrintT(<<"DIAG", Cur.t, AgreeDiag(Cur)>>)
DNext == DCase
=============================================================================
