------------------------------ MODULE T_Agree ------------------------------
(* C12: for the same endpoint policy state and packet, the iptables and nftables programs (rendered by the real
   renderer, executed here by the kernel model), the BPF program (real extractRules + real polprog.Builder, executed
   by harness/ebpfvm; recorded verdict) and the application-layer policy checker (real policystore + checker.Evaluate;
   recorded verdict) reach the same allow/deny verdict.  Agreement is decided through the reference: each of the
   four must equal PolicySem!EndpointVerdict, so a disagreement names the deviating implementation.             *)
EXTENDS TraceLib, PolicyProbes, Netfilter

Impls == {"ipt", "nft", "bpf", "chk"}
AgBits(c, n) == NfElems(c.marks[n])

NfGot(c, nf, dir, p) ==
    LET res == RunChain(nf.prog, nf.ksets, p @@ NfPktDefaults, nf[dir], {})
    IN IF res.v = "return" /\ AgBits(c, "accept") \subseteq res.st.mark THEN "allow"
       ELSE IF res.v = c.deny THEN "deny"
       ELSE "error:" \o res.v

Got(c, impl, di, res) ==
    CASE impl = "ipt" -> NfGot(c, c.ipt, c.dirs[di].dir, res.pkt)
      [] impl = "nft" -> NfGot(c, c.nft, c.dirs[di].dir, res.pkt)
      [] impl = "bpf" -> res.bpf
      [] impl = "chk" -> res.chk

WantWith(c, di, p, sets) == EndpointVerdict(c.dirs[di].tiers, c.dirs[di].profiles, p, sets)
Want(c, di, p) == WantWith(c, di, p, c.ipsets)

\* all (direction, result index) pairs
Obs(c) == UNION { {di} \X DOMAIN c.results[di] : di \in DOMAIN c.results }

Loadable(c) == NfWellFormed(c.ipt.prog, c.ipt.ksets) /\ NfWellFormed(c.nft.prog, c.nft.ksets)

AgreeCaseOK(c) ==
    /\ Loadable(c)
    /\ \A o \in Obs(c) : LET res == c.results[o[1]][o[2]]
                             want == Want(c, o[1], res.pkt)
                         IN \A impl \in Impls : Got(c, impl, o[1], res) = want
    /\ PrintT(<<"NPROBE", Cardinality(Obs(c)), 4, Cardinality({ Want(c, o[1], c.results[o[1]][o[2]].pkt) : o \in Obs(c) }), c.t>>)

TInit == l = 1
TCase == IsEvent("case") /\ IF AgreeCaseOK(Cur) THEN TRUE ELSE PrintT(<<"REJECT", Cur.t>>)
TNext == TCase

(* Diagnosis: which implementation deviates, and how.  Tag "namedport": the deviating implementation is the checker
   and every one of its deviations disappears when the reference is evaluated with all named-port IP sets of the
   case emptied - i.e. the checker behaves exactly as if named ports never matched (it looks the bare port number
   up in a set whose members are "ip,proto:port").                                                             *)
NoNamed(c) == [id \in DOMAIN c.ipsets |-> IF id \in NfElems(c.named) THEN [type |-> "ipport", members |-> <<>>] ELSE c.ipsets[id]]
Devs(c, impl) == { o \in Obs(c) : Got(c, impl, o[1], c.results[o[1]][o[2]]) # Want(c, o[1], c.results[o[1]][o[2]].pkt) }
AgreeDiag(c) ==
    IF ~Loadable(c) THEN <<"CLASS", "refused", NfRefusals(c.ipt.prog, c.ipt.ksets) \cup NfRefusals(c.nft.prog, c.nft.ksets)>>
    ELSE LET bad == { impl \in Impls : Devs(c, impl) # {} }
             One(impl) == CHOOSE o \in Devs(c, impl) : TRUE
             Tag(impl) == IF impl = "chk" /\ c.named # <<>>
                             /\ \A o \in Devs(c, impl) : c.results[o[1]][o[2]].chk = WantWith(c, o[1], c.results[o[1]][o[2]].pkt, NoNamed(c))
                             /\ \A q \in Obs(c) \ Devs(c, impl) : c.results[q[1]][q[2]].chk = WantWith(c, q[1], c.results[q[1]][q[2]].pkt, NoNamed(c))
                          THEN "namedport" ELSE "-"
         IN IF bad = {} THEN <<"CLASS", "none">>
            ELSE <<"CLASS", "agree",
                   { <<impl, Want(c, One(impl)[1], c.results[One(impl)[1]][One(impl)[2]].pkt),
                       Got(c, impl, One(impl)[1], c.results[One(impl)[1]][One(impl)[2]]), Tag(impl), Cardinality(Devs(c, impl)),
                       c.dirs[One(impl)[1]].dir, c.results[One(impl)[1]][One(impl)[2]].pkt>> : impl \in bad }>>
DCase == IsEvent("case") /\ PrintT(<<"DIAG", Cur.t, AgreeDiag(Cur)>>)
DNext == DCase
=============================================================================
