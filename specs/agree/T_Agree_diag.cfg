INIT TInit
NEXT DNext
POSTCONDITION TraceAccepted
CHECK_DEADLOCK FALSE
