CONSTANTS
  CapHit = 40
  CapMiss = 30
INIT TInit
NEXT TStep
CHECK_DEADLOCK FALSE
