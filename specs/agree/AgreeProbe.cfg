CONSTANTS
  CapHit = 12
  CapMiss = 10
INIT TInit
NEXT TStep
CHECK_DEADLOCK FALSE
