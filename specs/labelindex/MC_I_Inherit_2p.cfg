CONSTANTS
  Items = {"i1"}
  Parents = {"p1", "p2"}
  SelIds = {"s1"}
INIT IInit
NEXT INext
INVARIANTS QuiescentExact TypeOK
CHECK_DEADLOCK TRUE
