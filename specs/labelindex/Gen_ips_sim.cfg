CONSTANTS
  Eps = {"n1", "n2"}
  Weps = {"e1", "e2"}
  Parents = {"p1", "p2"}
  SetIds = {"s1", "s2"}
  WithPorts = TRUE
  Small = FALSE
  SimLen = 25
INIT GInit
NEXT GNext
INVARIANT EmitAtLen
CHECK_DEADLOCK FALSE
