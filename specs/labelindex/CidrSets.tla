------------------------------ MODULE CidrSets ------------------------------
(* Sets of CIDRs as sets of addresses (on top of specs/lib/Nets.tla): used by the C04 property layer
   (IpSets) and by the design model of reference counting + overlap suppression (I_IpSets).        *)
EXTENDS Nets

\* the half of c whose next bit is b
Half(c, b) ==
    LET i == (c.n \div 8) + 1
        bit == Pow2(7 - (c.n % 8))
        base == Canon(c).a
    IN [a |-> [j \in 1..Len(base) |-> IF j = i THEN base[j] + b * bit ELSE base[j]], n |-> c.n + 1]

\* every address of c is an address of some member of S
RECURSIVE CoveredBy(_, _)
CoveredBy(c, S) ==
    LET rel == { s \in S : Intersects(s, c) } IN
    IF \E s \in rel : Covers(s, c) THEN TRUE
    ELSE IF rel = {} THEN FALSE
    ELSE c.n < Width(c) /\ CoveredBy(Half(c, 0), rel) /\ CoveredBy(Half(c, 1), rel)

SameAddresses(S, T) == (\A c \in S : CoveredBy(c, T)) /\ (\A c \in T : CoveredBy(c, S))
Antichain(S) == \A c \in S, d \in S : c # d => ~Covers(c, d)
Maximal(S) == { c \in S : ~\E d \in S : StrictlyCovers(d, c) }
\* the index never hands a /0 to the dataplane: it contributes the two /1s instead
Norm(c) == IF c.n = 0 THEN { Half(c, 0), Half(c, 1) } ELSE { Canon(c) }

=============================================================================
