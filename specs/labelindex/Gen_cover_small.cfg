CONSTANTS
  Items = {"i1"}
  Parents = {"p1"}
  SelIds = {"s1"}
  SimLen = 60
INIT GInit
NEXT GNext
VIEW GView
ACTION_CONSTRAINT EmitEdge
CHECK_DEADLOCK FALSE
