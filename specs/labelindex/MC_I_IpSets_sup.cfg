CONSTANTS
  Eps = {"e1", "e2"}
  Suppress = TRUE
  Full = FALSE
INIT Init
NEXT Next
INVARIANTS RefsExact CoversSame ExactMembers NoInside Clean TrieExact
CHECK_DEADLOCK FALSE
