------------------------------ MODULE I_Inherit ------------------------------
(* C07 implementation layer: the re-evaluation strategy of label_inheritance_index.go.

     UpdateLabels / DeleteLabels(i)   : item i becomes dirty; flushUpdates re-evaluates i against every
                                        selector (deleted item: stops for every reported match of i)
     UpdateParentLabels / DeleteParentLabels(p) : every item that lists p becomes dirty (flushChildren)
     UpdateSelector(s)                : scanAllLabels: s against every item
     DeleteSelector(s)                : stops for every reported match of s

   `pending` is the set of (selector, item) pairs still to be re-evaluated inside the call; they are
   processed in an arbitrary order (Go map iteration), one updateMatches per step.  TLC checks that this
   strategy satisfies the property layer: every step is an allowed Started/Stopped (or silent), and
   when nothing is pending the reported relation is exact (QuiescentExact) - i.e. the dirty sets are
   large enough.                                                                                      *)
EXTENDS InheritMC

VARIABLE pending
ivars == <<items, plabels, sels, matched, busy, ct, pending>>

IInit == MCInit /\ pending = {}

Children(p) == { i \in DOMAIN items : p \in SeqSet(items[i].parents) }

\* pairs the code re-evaluates, as a function of the call and of the state *after* the inputs changed
Dirty(c) ==
    CASE c.op \in {"update_labels"} -> { <<s, c.id>> : s \in DOMAIN sels' }
      [] c.op = "delete_labels"     -> { p \in matched : p[2] = c.id }
      [] c.op \in {"update_parent", "delete_parent"} ->
              { <<s, i>> : s \in DOMAIN sels', i \in { j \in DOMAIN items' : c.id \in SeqSet(items'[j].parents) } }
      [] c.op = "update_sel"        -> { <<c.id, i>> : i \in DOMAIN items' }
      [] c.op = "delete_sel"        -> { p \in matched : p[1] = c.id }

ICall == pending = {} /\ SomeCall(LAMBDA c : pending' = Dirty(c))

\* one updateMatches / deleteMatch
IStep ==
    \E p \in pending :
        /\ pending' = pending \ {p}
        /\ IF p \in Want /\ p \notin matched THEN Started(p[1], p[2])
           ELSE IF p \notin Want /\ p \in matched THEN Stopped(p[1], p[2])
           ELSE UNCHANGED vars

IDone == pending = {} /\ Done /\ UNCHANGED pending

INext == ICall \/ IStep \/ IDone

\* the property layer's requirement at the end of a call, as an invariant of the strategy
QuiescentExact == (pending = {}) => matched = Want
TypeOK == matched \subseteq (SelIds \X Items) /\ pending \subseteq (SelIds \X Items)
=============================================================================
