------------------------------ MODULE LabelIdx ------------------------------
(* C07 property layer.

   (1) felix/labelindex.InheritIndex: items (endpoints) carry their own labels and an ordered list of
       parent ids (profiles); parents carry labels; selectors are registered under ids.  The index
       reports matches through OnMatchStarted / OnMatchStopped.  The property:
         - when a public call has returned, the reported match relation (starts seen minus stops seen)
           is exactly  { <<s, i>> : Eval(sels[s], effective labels of i) };
         - every OnMatchStarted is for a pair that is not currently reported and does match now, every
           OnMatchStopped for a pair that is currently reported and does not match now (hence starts and
           stops alternate per pair: never two starts, never a stop without a start, no glitches).
       Effective labels: own labels win; otherwise the FIRST parent in the item's parent list that has
       the label wins (itemData.GetHandle walks the parents in order) - EffLabels(.., .., FALSE).

   (2) the candidate-pruning indexes:
         - Satisfies / Sound: a label-restriction summary (Selector.LabelRestrictions()) never excludes a
           label map the selector matches (TLC quantifies over all label maps of the vocabulary);
         - labelrestrictionindex.AllPotentialMatches(item) must yield every registered selector that
           matches the item's effective labels;
         - labelnamevalueindex strategies must scan every item whose own labels satisfy the restriction
           they were asked for.                                                                       *)
EXTENDS Restrictions

VARIABLES items,      \* id |-> [labels |-> label map, parents |-> sequence of parent ids]
          plabels,    \* parent id |-> label map (only parents whose labels are known)
          sels,       \* selector id |-> AST
          matched,    \* set of <<selector id, item id>>: starts seen minus stops seen
          busy,       \* a public call is in progress (callbacks may arrive)
          ct          \* character table of the label values (for the sub-string operators)
vars == <<items, plabels, sels, matched, busy, ct>>

Put(f, k, v) == [x \in DOMAIN f \cup {k} |-> IF x = k THEN v ELSE f[x]]
Drop(f, k) == [x \in DOMAIN f \ {k} |-> f[x]]
SeqSet(s) == { s[i] : i \in DOMAIN s }

Init == items = <<>> /\ plabels = <<>> /\ sels = <<>> /\ matched = {} /\ busy = FALSE /\ ct = <<>>

\* ---- effective labels and the match relation (this is the property) --------------------------------
ParentLabelSeq(it, pl) ==
    [j \in 1..Len(it.parents) |-> IF it.parents[j] \in DOMAIN pl THEN pl[it.parents[j]] ELSE <<>>]
EffOf(it, pl) == EffLabels(it.labels, ParentLabelSeq(it, pl), FALSE)
Eff(i) == EffOf(items[i], plabels)
Matches(s, i) == Eval(sels[s], Eff(i), ct)
Want == { p \in (DOMAIN sels) \X (DOMAIN items) : Matches(p[1], p[2]) }

\* ---- public calls: they change the inputs; the callbacks that follow must repair `matched` -------
Call(body) == ~busy /\ busy' = TRUE /\ body /\ UNCHANGED <<matched, ct>>
UpdateLabels(i, labels, parents) ==
    Call(items' = Put(items, i, [labels |-> labels, parents |-> parents]) /\ UNCHANGED <<plabels, sels>>)
DeleteLabels(i) == Call(items' = Drop(items, i) /\ UNCHANGED <<plabels, sels>>)
UpdateParent(p, labels) == Call(plabels' = Put(plabels, p, labels) /\ UNCHANGED <<items, sels>>)
DeleteParent(p) == Call(plabels' = Drop(plabels, p) /\ UNCHANGED <<items, sels>>)
UpdateSel(s, ast) == Call(sels' = Put(sels, s, ast) /\ UNCHANGED <<items, plabels>>)
DeleteSel(s) == Call(sels' = Drop(sels, s) /\ UNCHANGED <<items, plabels>>)

\* ---- callbacks ---------------------------------------------------------------------------------------
Started(s, i) ==
    /\ busy
    /\ <<s, i>> \notin matched /\ <<s, i>> \in Want
    /\ matched' = matched \cup {<<s, i>>}
    /\ UNCHANGED <<items, plabels, sels, busy, ct>>
Stopped(s, i) ==
    /\ busy
    /\ <<s, i>> \in matched /\ <<s, i>> \notin Want
    /\ matched' = matched \ {<<s, i>>}
    /\ UNCHANGED <<items, plabels, sels, busy, ct>>
\* the call returns: the reported relation is exact
Done == busy /\ matched = Want /\ busy' = FALSE /\ UNCHANGED <<items, plabels, sels, matched, ct>>

\* ---- label restrictions ----------------------------------------------------------------------------
\* SatisfiesOne / Satisfies / Sound / AllMaps: module Restrictions (specs/lib)

\* candidate sets produced by the real indexes
CandidatesOK(got, labels, selmap, tab) ==        \* labelrestrictionindex.AllPotentialMatches
    /\ got \subseteq DOMAIN selmap
    /\ \A s \in DOMAIN selmap : Eval(selmap[s], labels, tab) => s \in got
ScanOK(got, k, r, own) ==                        \* labelnamevalueindex StrategyFor(k, r).Scan; own: id |-> labels
    /\ got \subseteq DOMAIN own
    /\ \A i \in DOMAIN own : SatisfiesOne(own[i], k, r) => i \in got
=============================================================================
