------------------------------ MODULE T_IpSets ------------------------------
(* Trace specification for C04 (index level): replays the calls, member callbacks and call returns
   recorded from the real SelectorAndNamedPortIndex on module IpSets.                               *)
EXTENDS TraceLib, IpSets

TInit == l = 1 /\ Init

WithCt == IF Has(Cur, "ct") THEN Cur.ct @@ ct ELSE ct
TCall(body) == ~busy /\ busy' = TRUE /\ body /\ ct' = WithCt /\ UNCHANGED suppress

TReset ==
    /\ IsEvent("reset")
    /\ eps' = <<>> /\ plabels' = <<>> /\ sets' = <<>> /\ emitted' = <<>> /\ busy' = FALSE
    /\ ct' = IF Has(Cur, "ct") THEN Cur.ct ELSE <<>>
    /\ suppress' = Cur.suppress

TUpdateEp == IsEvent("update_ep") /\ TCall(eps' = Put(eps, Cur.id, Cur.rec) /\ UNCHANGED <<plabels, sets, emitted>>)
TDeleteEp == IsEvent("delete_ep") /\ TCall(eps' = Drop(eps, Cur.id) /\ UNCHANGED <<plabels, sets, emitted>>)
TUpdateParent == IsEvent("update_parent") /\ TCall(plabels' = Put(plabels, Cur.id, Cur.labels) /\ UNCHANGED <<eps, sets, emitted>>)
TDeleteParent == IsEvent("delete_parent") /\ TCall(plabels' = Drop(plabels, Cur.id) /\ UNCHANGED <<eps, sets, emitted>>)
TUpdateSet ==
    /\ IsEvent("update_set")
    /\ TCall(/\ sets' = Put(sets, Cur.id, Cur.def)
             /\ emitted' = IF Cur.id \in DOMAIN emitted THEN emitted ELSE Put(emitted, Cur.id, {})
             /\ UNCHANGED <<eps, plabels>>)
TDeleteSet == IsEvent("delete_set") /\ TCall(sets' = Drop(sets, Cur.id) /\ emitted' = Drop(emitted, Cur.id) /\ UNCHANGED <<eps, plabels>>)
TAdded == IsEvent("added") /\ Added(Cur.set, Cur.m)
TRemoved == IsEvent("removed") /\ Removed(Cur.set, Cur.m)
\* Strict = TRUE (second, non-verdict run): the members must literally be the contributed ones
CONSTANT Strict
TDone == IsEvent("done") /\ Done /\ (Strict => StrictMembers)

TNext == TReset \/ TUpdateEp \/ TDeleteEp \/ TUpdateParent \/ TDeleteParent \/ TUpdateSet \/ TDeleteSet
         \/ TAdded \/ TRemoved \/ TDone
=============================================================================
