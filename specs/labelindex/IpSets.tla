------------------------------- MODULE IpSets -------------------------------
(* C04 (index level) property layer: felix/labelindex.SelectorAndNamedPortIndex.

   Inputs: endpoints / network sets (labels, ordered parent ids, CIDRs, named ports), parent labels
   (profiles), IP sets (selector + optional named port with protocol).  Outputs: OnMemberAdded /
   OnMemberRemoved callbacks; `emitted[s]` is adds seen minus removes seen.

   The property, checked whenever a public call has returned:
     - named-port IP set: emitted[s] is exactly the set of (address, protocol, port) of the matching
       endpoints' named ports with that name and protocol;
     - selector-only IP set: emitted[s] covers exactly the addresses of the CIDRs of the endpoints and
       network sets whose effective labels match (address-level: {0.0.0.0/1, 128.0.0.0/1} and {0.0.0.0/0}
       are the same addresses - the index splits /0 because the dataplane cannot take it);
     - with overlap suppression (the index is built with it when nftables is used): additionally no
       emitted member lies inside another;
     - "each member once": an add is never reported for a member that is currently reported, a remove
       never for one that is not.
   StrictMembers (not a verdict; reported as drift) says in addition that the members are literally the
   contributed CIDRs (with /0 split in two /1s), respectively the maximal ones among them.          *)
EXTENDS Selectors, CidrSets, TLC

VARIABLES eps,        \* id |-> [labels, parents, nets (sequence of CIDRs), ports (sequence of [name, proto, port])]
          plabels,    \* parent id |-> label map
          sets,       \* IP set id |-> [ast, proto ("none" | "tcp" | "udp" | "sctp"), port (name)]
          emitted,    \* IP set id |-> set of members reported so far
          busy, ct,
          suppress    \* overlap suppression enabled for this index instance
vars == <<eps, plabels, sets, emitted, busy, ct, suppress>>

Put(f, k, v) == [x \in DOMAIN f \cup {k} |-> IF x = k THEN v ELSE f[x]]
Drop(f, k) == [x \in DOMAIN f \ {k} |-> f[x]]
SeqSet(s) == { s[i] : i \in DOMAIN s }

Init == eps = <<>> /\ plabels = <<>> /\ sets = <<>> /\ emitted = <<>> /\ busy = FALSE /\ ct = <<>> /\ suppress = FALSE

IsCidr(m) == "n" \in DOMAIN m

\* ---- what each IP set should contain ---------------------------------------------------------------
ParentLabelSeq(e) == [j \in 1..Len(e.parents) |-> IF e.parents[j] \in DOMAIN plabels THEN plabels[e.parents[j]] ELSE <<>>]
Eff(e) == EffLabels(e.labels, ParentLabelSeq(e), FALSE)       \* own labels, then the first parent that has the label
Matching(s) == { i \in DOMAIN eps : Eval(sets[s].ast, Eff(eps[i]), ct) }

Contribution(e, st) ==
    IF st.proto = "none"
      THEN UNION { Norm(e.nets[i]) : i \in DOMAIN e.nets }
      ELSE { [a |-> e.nets[i].a, proto |-> e.ports[j].proto, port |-> e.ports[j].port] :
                <<i, j>> \in { p \in (DOMAIN e.nets) \X (DOMAIN e.ports) :
                                  e.ports[p[2]].name = st.port /\ e.ports[p[2]].proto = st.proto } }
WantMembers(s) == UNION { Contribution(eps[i], sets[s]) : i \in Matching(s) }

SetOK(s) ==
    IF sets[s].proto # "none"
      THEN emitted[s] = WantMembers(s)
      ELSE /\ \A m \in emitted[s] : IsCidr(m)
           /\ SameAddresses(emitted[s], WantMembers(s))
           /\ suppress => Antichain(emitted[s])
AllSetsOK == DOMAIN emitted = DOMAIN sets /\ \A s \in DOMAIN sets : SetOK(s)

StrictMembers ==
    \A s \in DOMAIN sets :
        emitted[s] = IF suppress /\ sets[s].proto = "none" THEN Maximal(WantMembers(s)) ELSE WantMembers(s)

\* ---- public calls ----------------------------------------------------------------------------------
Call(body) == ~busy /\ busy' = TRUE /\ body /\ UNCHANGED <<ct, suppress>>
UpdateEp(i, rec) == Call(eps' = Put(eps, i, rec) /\ UNCHANGED <<plabels, sets, emitted>>)
DeleteEp(i) == Call(eps' = Drop(eps, i) /\ UNCHANGED <<plabels, sets, emitted>>)
UpdateParent(p, labels) == Call(plabels' = Put(plabels, p, labels) /\ UNCHANGED <<eps, sets, emitted>>)
DeleteParent(p) == Call(plabels' = Drop(plabels, p) /\ UNCHANGED <<eps, sets, emitted>>)
\* a new id starts empty; redefining an existing id keeps what was reported (the callbacks must repair it)
UpdateSet(s, rec) ==
    Call(/\ sets' = Put(sets, s, rec)
         /\ emitted' = IF s \in DOMAIN emitted THEN emitted ELSE Put(emitted, s, {})
         /\ UNCHANGED <<eps, plabels>>)
\* deleting an IP set drops its members en masse, without callbacks
DeleteSet(s) == Call(sets' = Drop(sets, s) /\ emitted' = Drop(emitted, s) /\ UNCHANGED <<eps, plabels>>)

\* ---- callbacks -------------------------------------------------------------------------------------
Added(s, m) ==
    /\ busy /\ s \in DOMAIN emitted /\ m \notin emitted[s]
    /\ emitted' = [emitted EXCEPT ![s] = @ \cup {m}]
    /\ UNCHANGED <<eps, plabels, sets, busy, ct, suppress>>
Removed(s, m) ==
    /\ busy /\ s \in DOMAIN emitted /\ m \in emitted[s]
    /\ emitted' = [emitted EXCEPT ![s] = @ \ {m}]
    /\ UNCHANGED <<eps, plabels, sets, busy, ct, suppress>>
Done == busy /\ AllSetsOK /\ busy' = FALSE /\ UNCHANGED <<eps, plabels, sets, emitted, ct, suppress>>
=============================================================================
