CONSTANTS
  Eps = {"n1", "n2"}
  Weps = {}
  Parents = {}
  SetIds = {"s1"}
  WithPorts = FALSE
  Small = TRUE
  SimLen = 60
INIT GInit
NEXT GNext
VIEW GView
ACTION_CONSTRAINT EmitEdge
CHECK_DEADLOCK FALSE
