----------------------------- MODULE T_LabelIdx -----------------------------
(* Trace specification for C07.  Three kinds of traces (reset.kind):
     inherit : calls / callbacks / done markers of the real InheritIndex, replayed on LabelIdx;
     ridx    : labelrestrictionindex.LabelRestrictionIndex - AddSelector / DeleteSelector / AllPotentialMatches;
     kvidx   : labelnamevalueindex.LabelNameValueIndex - Add / Remove / StrategyFor(k, r).Scan.
   Wherever a selector is registered its LabelRestrictions() (logged field by field) must be Sound for
   ALL label maps over the trace's vocabulary.                                                      *)
EXTENDS TraceLib, LabelIdx

VARIABLES keys, vals, own
tvars == <<keys, vals, own>>
allvars == <<vars, tvars>>

TInit == l = 1 /\ Init /\ keys = {} /\ vals = {} /\ own = <<>>

WithCt == IF Has(Cur, "ct") THEN Cur.ct @@ ct ELSE ct
Maps == AllMaps(keys, vals)

TReset ==
    /\ IsEvent("reset")
    /\ items' = <<>> /\ plabels' = <<>> /\ sels' = <<>> /\ matched' = {} /\ busy' = FALSE
    /\ ct' = IF Has(Cur, "ct") THEN Cur.ct ELSE <<>>
    /\ keys' = SeqToSet(Cur.keys) /\ vals' = SeqToSet(Cur.vals) /\ own' = <<>>

\* ---- inherit ---------------------------------------------------------------------------------------
\* like LabelIdx!Call but also extends the character table with the call's strings
TCall(body) == ~busy /\ busy' = TRUE /\ body /\ ct' = WithCt /\ UNCHANGED <<matched, tvars>>
TUpdateLabels ==
    /\ IsEvent("update_labels")
    /\ TCall(items' = Put(items, Cur.id, [labels |-> Cur.labels, parents |-> Cur.parents]) /\ UNCHANGED <<plabels, sels>>)
TDeleteLabels == IsEvent("delete_labels") /\ TCall(items' = Drop(items, Cur.id) /\ UNCHANGED <<plabels, sels>>)
TUpdateParent == IsEvent("update_parent") /\ TCall(plabels' = Put(plabels, Cur.id, Cur.labels) /\ UNCHANGED <<items, sels>>)
TDeleteParent == IsEvent("delete_parent") /\ TCall(plabels' = Drop(plabels, Cur.id) /\ UNCHANGED <<items, sels>>)
TUpdateSel ==
    /\ IsEvent("update_sel")
    /\ Sound(Cur.ast, Cur.restr, Maps, WithCt)
    /\ TCall(sels' = Put(sels, Cur.id, Cur.ast) /\ UNCHANGED <<items, plabels>>)
TDeleteSel == IsEvent("delete_sel") /\ TCall(sels' = Drop(sels, Cur.id) /\ UNCHANGED <<items, plabels>>)
TStarted == IsEvent("started") /\ Started(Cur.sel, Cur.item) /\ UNCHANGED tvars
TStopped == IsEvent("stopped") /\ Stopped(Cur.sel, Cur.item) /\ UNCHANGED tvars
TDone == IsEvent("done") /\ Done /\ UNCHANGED tvars

\* ---- labelrestrictionindex ---------------------------------------------------------------------
TRAdd ==
    /\ IsEvent("r_add")
    /\ Sound(Cur.ast, Cur.restr, Maps, WithCt)
    /\ sels' = Put(sels, Cur.id, Cur.ast) /\ ct' = WithCt
    /\ UNCHANGED <<items, plabels, matched, busy, tvars>>
TRDel == IsEvent("r_del") /\ sels' = Drop(sels, Cur.id) /\ UNCHANGED <<items, plabels, matched, busy, ct, tvars>>
TRQuery ==
    /\ IsEvent("r_query")
    /\ CandidatesOK(SeqToSet(Cur.got), Cur.labels, sels, ct)
    /\ UNCHANGED allvars

\* ---- labelnamevalueindex -----------------------------------------------------------------------
TKvAdd == IsEvent("kv_add") /\ Cur.id \notin DOMAIN own /\ own' = Put(own, Cur.id, Cur.labels) /\ UNCHANGED <<vars, keys, vals>>
TKvDel == IsEvent("kv_del") /\ Cur.id \in DOMAIN own /\ own' = Drop(own, Cur.id) /\ UNCHANGED <<vars, keys, vals>>
TKvScan ==
    /\ IsEvent("kv_scan")
    /\ ScanOK(SeqToSet(Cur.got), Cur.k, Cur.r, own)
    /\ UNCHANGED allvars

TNext == TReset \/ TUpdateLabels \/ TDeleteLabels \/ TUpdateParent \/ TDeleteParent \/ TUpdateSel \/ TDeleteSel
         \/ TStarted \/ TStopped \/ TDone \/ TRAdd \/ TRDel \/ TRQuery \/ TKvAdd \/ TKvDel \/ TKvScan
TSpec == TInit /\ [][TNext]_<<allvars, l>>
=============================================================================
