CONSTANT Strict = TRUE
INIT TInit
NEXT TNext
POSTCONDITION TraceAccepted
CHECK_DEADLOCK FALSE
