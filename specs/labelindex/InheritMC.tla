------------------------------ MODULE InheritMC ------------------------------
(* Finite universe shared by the design leg (I_Inherit) and the behaviour generator (Gen_Inherit).   *)
EXTENDS LabelIdx, TLC

CONSTANTS Items, Parents, SelIds

ItemLabelPool == { <<>>, [a |-> "x"], [a |-> "y"] }
ParentLabelPool == { <<>>, [a |-> "x"], [a |-> "y"], [b |-> "x"] }
ParentSeqs == { <<>> } \cup { <<p>> : p \in Parents } \cup { <<p, q>> : p, q \in Parents }   \* also <<p, p>>
CTab == [x |-> <<"x">>, y |-> <<"y">>]

Eq(k, v) == [op |-> "eq", k |-> k, v |-> v]
Ne(k, v) == [op |-> "ne", k |-> k, v |-> v]
HasL(k) == [op |-> "has", k |-> k]
NotN(a) == [op |-> "not", a |-> a]
\* selectors that tell apart: own vs inherited value, first vs second parent, absent label
SelPool == << Eq("a", "x"), Ne("a", "x"), HasL("a"), NotN(HasL("a")),
              [op |-> "and", args |-> <<HasL("b"), Ne("a", "y")>>],
              [op |-> "or", args |-> <<Eq("a", "y"), HasL("b")>>] >>

MCInit == items = <<>> /\ plabels = <<>> /\ sels = <<>> /\ matched = {} /\ busy = FALSE /\ ct = CTab

\* every public call with every argument of the universe
SomeCall(C(_)) ==
    \/ \E i \in Items, L \in ItemLabelPool, ps \in ParentSeqs :
          UpdateLabels(i, L, ps) /\ C([op |-> "update_labels", id |-> i, labels |-> L, parents |-> ps])
    \/ \E i \in Items : DeleteLabels(i) /\ C([op |-> "delete_labels", id |-> i])
    \/ \E p \in Parents, L \in ParentLabelPool :
          UpdateParent(p, L) /\ C([op |-> "update_parent", id |-> p, labels |-> L])
    \/ \E p \in Parents : DeleteParent(p) /\ C([op |-> "delete_parent", id |-> p])
    \/ \E s \in SelIds, n \in DOMAIN SelPool :
          UpdateSel(s, SelPool[n]) /\ C([op |-> "update_sel", id |-> s, ast |-> SelPool[n]])
    \/ \E s \in SelIds : DeleteSel(s) /\ C([op |-> "delete_sel", id |-> s])
=============================================================================
