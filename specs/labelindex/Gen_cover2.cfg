CONSTANTS
  Items = {"i1", "i2"}
  Parents = {"p1"}
  SelIds = {"s1", "s2"}
  SimLen = 60
INIT GInit
NEXT GNext
VIEW GView
ACTION_CONSTRAINT EmitEdge
CHECK_DEADLOCK FALSE
