----------------------------- MODULE Gen_IpSets -----------------------------
(* Behaviour generator for C04 (index level): the public calls of IpSets over the universe of IpSetsMC
   with a history variable; a call is followed by Settle (the callbacks are the implementation's job; here
   the reported members jump to the literal contributed members).  The driver replays every behaviour
   twice: without and with overlap suppression.
     Gen_ips_cover.cfg : VIEW without hist + ACTION_CONSTRAINT, one behaviour per transition of the
                         abstract state graph (network sets only);
     Gen_ips_sim.cfg   : -simulate random walks (network sets, workload endpoints with named ports,
                         parents).                                                                   *)
EXTENDS IpSetsMC, Json

CONSTANT SimLen
VARIABLE hist

GInit == MCInit /\ hist = <<>>
Settle == /\ busy /\ busy' = FALSE
          /\ emitted' = [s \in DOMAIN sets |-> WantMembers(s)]
          /\ UNCHANGED <<eps, plabels, sets, ct, suppress, hist>>
GNext ==
    \/ /\ ~busy /\ Len(hist) = SimLen /\ hist' = Append(hist, [op |-> "end"]) /\ UNCHANGED vars
    \/ /\ ~busy /\ Len(hist) < SimLen /\ SomeCall(LAMBDA c : hist' = Append(hist, c))
    \/ Settle
GView == <<eps, plabels, sets, busy>>
EmitEdge == IF hist' # hist THEN PrintT("BEH " \o ToJson(hist')) ELSE TRUE
EmitAtLen == Len(hist) = SimLen + 1 => PrintT("BEH " \o ToJson(hist))
=============================================================================
