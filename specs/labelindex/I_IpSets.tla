------------------------------ MODULE I_IpSets ------------------------------
(* C04 implementation layer: the member bookkeeping of named_port_index.go for ONE selector-only IP set,
   with selector matching abstracted away (an endpoint either contributes its CIDR list or is absent):

     memberToRefCount : how many endpoint contributions hold each member; onMemberAdded at 0 -> 1,
                        onMemberRemoved at 1 -> 0; an endpoint update first increments every new
                        contribution (temporary over-count), then decrements every old one;
     memberDeduplicator (overlap suppression): a trie of all referenced CIDRs;
        Add(c):    covered := some trie entry covers c;  trie += c;
                   if covered: emit nothing, else emit add c and remove ClosestDescendants(c)
        Remove(c): masked := ClosestDescendants(c);  trie -= c;
                   if some trie entry still covers c: emit nothing, else emit remove c and add masked.

   TLC explores every sequence of endpoint updates over the universe and checks after each one that the
   emitted members cover exactly the contributed addresses, that (with suppression) they are exactly the
   maximal contributed CIDRs - hence an antichain -, that reference counts equal multiplicities, and that
   every emitted add/remove was for an absent/present member (flag `clean`).                        *)
EXTENDS CidrSets, TLC

CONSTANTS Eps, Suppress, Full
\* universe: nested, sibling, duplicate and /0-derived CIDRs
C8 == [a |-> <<10, 0, 0, 0>>, n |-> 8]
C24 == [a |-> <<10, 0, 0, 0>>, n |-> 24]
C25a == [a |-> <<10, 0, 0, 0>>, n |-> 25]
C25b == [a |-> <<10, 0, 0, 128>>, n |-> 25]
C32 == [a |-> <<10, 0, 0, 1>>, n |-> 32]
H0 == [a |-> <<0, 0, 0, 0>>, n |-> 1]
Univ == IF Full THEN {C8, C24, C25a, C25b, C32, H0} ELSE {C8, C24, C25b, C32}
NetLists == { <<>> } \cup { <<c>> : c \in Univ } \cup { <<c, d>> : c, d \in Univ }

VARIABLES contrib,     \* endpoint |-> its CIDR list (<<>> when absent / not matching)
          refs,        \* member |-> reference count
          trie,        \* set of CIDRs in the suppressor's trie
          emitted,     \* members reported to the dataplane
          clean        \* no add of a present member / remove of an absent member so far
vars == <<contrib, refs, trie, emitted, clean>>

Init == contrib = [e \in Eps |-> <<>>] /\ refs = [c \in Univ |-> 0] /\ trie = {} /\ emitted = {} /\ clean = TRUE

ClosestDescendants(T, c) ==
    { d \in T : StrictlyCovers(c, d) /\ ~\E m \in T : StrictlyCovers(c, m) /\ StrictlyCovers(m, d) }

\* state threaded through the member operations: [refs, trie, emitted, clean]
EmitAdd(st, S) == [st EXCEPT !.clean = @ /\ (S \cap st.emitted = {}), !.emitted = @ \cup S]
EmitRem(st, S) == [st EXCEPT !.clean = @ /\ (S \subseteq st.emitted), !.emitted = @ \ S]

MemberAdded(st, c) ==
    IF ~Suppress THEN EmitAdd(st, {c})
    ELSE LET covered == \E t \in st.trie : Covers(t, c)
             st1 == [st EXCEPT !.trie = @ \cup {c}]
         IN IF covered THEN st1
            ELSE EmitRem(EmitAdd(st1, {c}), ClosestDescendants(st1.trie, c))
MemberRemoved(st, c) ==
    IF ~Suppress THEN EmitRem(st, {c})
    ELSE LET masked == ClosestDescendants(st.trie, c)
             st1 == [st EXCEPT !.trie = @ \ {c}]
         IN IF \E t \in st1.trie : Covers(t, c) THEN st1
            ELSE EmitAdd(EmitRem(st1, {c}), masked)

IncRef(st, c) ==
    LET st1 == IF st.refs[c] = 0 THEN MemberAdded(st, c) ELSE st
    IN [st1 EXCEPT !.refs[c] = @ + 1]
DecRef(st, c) ==
    LET st1 == IF st.refs[c] = 1 THEN MemberRemoved(st, c) ELSE st
    IN [st1 EXCEPT !.refs[c] = @ - 1]

RECURSIVE Fold(_, _, _, _)
Fold(Op(_, _), st, list, i) == IF i > Len(list) THEN st ELSE Fold(Op, Op(st, list[i]), list, i + 1)

\* scanEndpointAgainstIPSets: incref the new contribution, then decref the old one
SetEndpoint(e, nets) ==
    LET st0 == [refs |-> refs, trie |-> trie, emitted |-> emitted, clean |-> clean]
        st1 == Fold(IncRef, st0, nets, 1)
        st2 == Fold(DecRef, st1, contrib[e], 1)
    IN /\ contrib' = [contrib EXCEPT ![e] = nets]
       /\ refs' = st2.refs /\ trie' = st2.trie /\ emitted' = st2.emitted /\ clean' = st2.clean

Next == \E e \in Eps, nets \in NetLists : nets # contrib[e] /\ SetEndpoint(e, nets)

\* ---- what must hold after every endpoint update -------------------------------------------------
Contributed == UNION { { contrib[e][i] : i \in DOMAIN contrib[e] } : e \in Eps }
Multiplicity(c) == LET occ(e) == { i \in DOMAIN contrib[e] : contrib[e][i] = c }
                   IN  IF Eps = {} THEN 0 ELSE
                       LET RECURSIVE Sum(_)
                           Sum(S) == IF S = {} THEN 0 ELSE LET x == CHOOSE y \in S : TRUE IN Cardinality(occ(x)) + Sum(S \ {x})
                       IN Sum(Eps)
RefsExact == \A c \in Univ : refs[c] = Multiplicity(c)
CoversSame == SameAddresses(emitted, Contributed)
ExactMembers == emitted = IF Suppress THEN Maximal(Contributed) ELSE Contributed
NoInside == Suppress => Antichain(emitted)
Clean == clean
TrieExact == Suppress => trie = Contributed
=============================================================================
