----------------------------- MODULE Gen_Inherit -----------------------------
(* Behaviour generator for C07 (leg A): the public calls of LabelIdx over the universe of InheritMC,
   with a history variable.  The callbacks are the implementation's business: here a call is followed by
   Settle (the reported relation jumps to the exact one).
     Gen_cover*.cfg : VIEW without hist + ACTION_CONSTRAINT: one behaviour per transition of the
                      abstract (items, plabels, sels) state graph;
     Gen_sim.cfg    : -simulate random walks of SimLen calls.                                        *)
EXTENDS InheritMC, Json

CONSTANT SimLen
VARIABLE hist
gvars == <<items, plabels, sels, matched, busy, ct, hist>>

GInit == MCInit /\ hist = <<>>
Settle == busy /\ matched' = Want /\ busy' = FALSE /\ UNCHANGED <<items, plabels, sels, ct, hist>>

GNext ==
    \/ /\ ~busy /\ Len(hist) = SimLen /\ hist' = Append(hist, [op |-> "end"]) /\ UNCHANGED vars
    \/ /\ ~busy /\ Len(hist) < SimLen /\ SomeCall(LAMBDA c : hist' = Append(hist, c))
    \/ Settle

GView == <<items, plabels, sels, busy>>
EmitEdge == IF hist' # hist THEN PrintT("BEH " \o ToJson(hist')) ELSE TRUE
EmitAtLen == Len(hist) = SimLen + 1 => PrintT("BEH " \o ToJson(hist))
=============================================================================
