CONSTANTS
  Items = {"i1", "i2", "i3"}
  Parents = {"p1", "p2"}
  SelIds = {"s1", "s2"}
  SimLen = 30
INIT GInit
NEXT GNext
INVARIANT EmitAtLen
CHECK_DEADLOCK FALSE
