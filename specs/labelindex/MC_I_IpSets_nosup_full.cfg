CONSTANTS
  Eps = {"e1", "e2"}
  Suppress = FALSE
  Full = TRUE
INIT Init
NEXT Next
INVARIANTS RefsExact CoversSame ExactMembers NoInside Clean TrieExact
CHECK_DEADLOCK FALSE
