CONSTANTS
  Items = {"i1", "i2"}
  Parents = {"p1", "p2"}
  SelIds = {"s1", "s2"}
INIT IInit
NEXT INext
INVARIANTS QuiescentExact TypeOK
CHECK_DEADLOCK TRUE
