------------------------------ MODULE IpSetsMC ------------------------------
(* Finite universe for the C04 behaviour generator.                                                  *)
EXTENDS IpSets

CONSTANTS Eps, Weps, Parents, SetIds, WithPorts, Small   \* Eps: network-set ids, Weps: workload-endpoint ids

N(a, n) == [a |-> a, n |-> n]
C0 == N(<<0, 0, 0, 0>>, 0)
C8 == N(<<10, 0, 0, 0>>, 8)
C24 == N(<<10, 0, 0, 0>>, 24)
C25a == N(<<10, 0, 0, 0>>, 25)
C25b == N(<<10, 0, 0, 128>>, 25)
C32 == N(<<10, 0, 0, 1>>, 32)
H0 == N(<<0, 0, 0, 0>>, 1)
V6 == N(<<253, 0, 0, 0, 0, 0, 0, 0, 0, 0, 0, 0, 0, 0, 0, 0>>, 64)
V6h == N(<<253, 0, 0, 0, 0, 0, 0, 0, 0, 0, 0, 0, 0, 0, 0, 1>>, 128)

\* network-set CIDR lists: nested, sibling halves, duplicates, /0 (alone and next to one of its halves), IPv6
NetLists == IF Small THEN { <<>>, <<C24>>, <<C24, C32>>, <<C25a, C25b>>, <<C0>> }
            ELSE { <<>>, <<C24>>, <<C32>>, <<C24, C32>>, <<C25a, C25b>>, <<C32, C32>>, <<C0>>, <<H0, C8>>, <<V6, V6h>> }
\* workload endpoints: single addresses and named ports
EpNetLists == { <<C32>>, <<C32, N(<<10, 0, 0, 2>>, 32)>>, <<V6h>> }
PortLists == { <<>>, <<[name |-> "http", proto |-> "tcp", port |-> 80]>>,
               <<[name |-> "http", proto |-> "tcp", port |-> 80], [name |-> "http", proto |-> "udp", port |-> 80],
                 [name |-> "http", proto |-> "tcp", port |-> 8080], [name |-> "dns", proto |-> "udp", port |-> 53]>> }
LabelPool == { <<>>, [a |-> "x"] }
ParentLabelPool == { <<>>, [a |-> "x"], [a |-> "y"] }
ParentSeqs == { <<>> } \cup { <<p>> : p \in Parents } \cup { <<p, q>> : p, q \in Parents }   \* also a profile listed twice
CTab == [x |-> <<"x">>, y |-> <<"y">>]

SelPool == << [op |-> "all"], [op |-> "eq", k |-> "a", v |-> "x"], [op |-> "not", a |-> [op |-> "has", k |-> "a"]] >>
SetDefs == { [ast |-> SelPool[n], proto |-> "none", port |-> ""] : n \in DOMAIN SelPool }
            \cup (IF WithPorts THEN { [ast |-> SelPool[n], proto |-> pr, port |-> "http"] : n \in {1, 2}, pr \in {"tcp", "udp"} } ELSE {})

NetsetRecs == { [kind |-> "netset", labels |-> L, parents |-> ps, nets |-> nl, ports |-> <<>>] :
                    L \in LabelPool, ps \in ParentSeqs, nl \in NetLists }
WepRecs == { [kind |-> "wep", labels |-> L, parents |-> ps, nets |-> nl, ports |-> pl] :
                 L \in LabelPool, ps \in ParentSeqs, nl \in EpNetLists, pl \in PortLists }

MCInit == eps = <<>> /\ plabels = <<>> /\ sets = <<>> /\ emitted = <<>> /\ busy = FALSE /\ ct = CTab /\ suppress = FALSE

SomeCall(C(_)) ==
    \/ \E i \in Eps, r \in NetsetRecs : UpdateEp(i, r) /\ C([op |-> "update_ep", id |-> i, rec |-> r])
    \/ \E i \in Weps, r \in WepRecs : UpdateEp(i, r) /\ C([op |-> "update_ep", id |-> i, rec |-> r])
    \/ \E i \in Eps \cup Weps : DeleteEp(i) /\ C([op |-> "delete_ep", id |-> i])
    \/ \E p \in Parents, L \in ParentLabelPool : UpdateParent(p, L) /\ C([op |-> "update_parent", id |-> p, labels |-> L])
    \/ \E p \in Parents : DeleteParent(p) /\ C([op |-> "delete_parent", id |-> p])
    \/ \E s \in SetIds, d \in SetDefs : UpdateSet(s, d) /\ C([op |-> "update_set", id |-> s, def |-> d])
    \/ \E s \in SetIds : DeleteSet(s) /\ C([op |-> "delete_set", id |-> s])
=============================================================================
