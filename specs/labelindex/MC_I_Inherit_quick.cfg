CONSTANTS
  Items = {"i1", "i2"}
  Parents = {"p1"}
  SelIds = {"s1"}
INIT IInit
NEXT INext
INVARIANTS QuiescentExact TypeOK
CHECK_DEADLOCK TRUE
