CONSTANTS
  U <- U4s
  Vals = {}
  Keys <- K3
  SimLen = 60
INIT GInit
NEXT GNext
VIEW GView
ACTION_CONSTRAINT EmitEdge
CHECK_DEADLOCK FALSE
