------------------------------ MODULE T_Trie ------------------------------
(* Trace specification for C36: replays the calls recorded from the real felix/ip.CIDRTrie and
   felix/calc.IpTrie against module Trie and requires every recorded query answer to be the one obtained
   by prefix arithmetic over the stored prefixes.

   events   reset {q: [cidr...], prefs: [ns...]}     query list for this trace (same family throughout)
            upd {c, v} / del {c}                      CIDRTrie.Update / Delete, followed by  obs
            kins {c, k} / kdel {c, k}                 IpTrie.InsertKey / DeleteKey, followed by  kobs
            obs  {all, vis, get[], lpm[], cov[], isect[], cby[], cd[], path[]}   (arrays parallel to q)
            kobs {keys[], lpm[], lpmns[][]}                                       (arrays parallel to q)

   What is demanded where the wording of the property leaves room (see notes/C36.md):
   - LPM is demanded for host queries; for a non-host query it is only checked when the driver asked
     (lpm[i].v >= 0, enabled by VERIF_C36_LPM_CIDR=1) - the real trie answers with a stored prefix that is
     LONGER than the query there;
   - Intersects must be TRUE when a stored prefix lies inside the query and FALSE when no stored prefix
     overlaps it; when the only overlap is a stored prefix strictly covering the query either answer is
     accepted (the real code says FALSE; its only caller ORs it with Covers);
   - ClosestDescendants is exact for a stored parent; for a parent that is not stored the real code answers
     either nothing or the exact set (depending on whether an internal node happens to exist), both accepted;
   - CoveredBy is demanded on a non-empty trie only (it dereferences the nil root on an empty one).        *)
EXTENDS TraceLib, FiniteSets

VARIABLES S, K, qs, prefs

D == INSTANCE Trie WITH U <- {}, Vals <- {}, Keys <- {}
vars == <<S, K, qs, prefs>>

TInit == l = 1 /\ D!Init /\ qs = <<>> /\ prefs = <<>>

NoDup(s) == Len(s) = Cardinality(SeqToSet(s))
Entries(cs) == { [c |-> c, v |-> S[c]] : c \in cs }

TReset == /\ IsEvent("reset") /\ S' = D!Empty /\ K' = D!Empty
          /\ qs' = Cur.q /\ prefs' = Cur.prefs
TUpd  == IsEvent("upd") /\ Cur.v > 0 /\ D!Update(Cur.c, Cur.v) /\ UNCHANGED <<qs, prefs>>
TDel  == IsEvent("del") /\ D!Delete(Cur.c) /\ UNCHANGED <<qs, prefs>>
TKIns == IsEvent("kins") /\ D!KIns(Cur.c, Cur.k) /\ UNCHANGED <<qs, prefs>>
TKDel == IsEvent("kdel") /\ D!KDel(Cur.c, Cur.k) /\ UNCHANGED <<qs, prefs>>

ObsOK(i) ==
    LET q == qs[i]
        stored == q \in D!Stored
    IN  /\ Cur.get[i] = D!Get(q)
        /\ LET r == Cur.lpm[i]
               m == D!LPMSet(q)
           IN  (D!IsHost(q) \/ r.v >= 0) =>
                   IF m = {} THEN r.v = 0 ELSE r.c \in m /\ r.v = S[r.c]
        /\ Cur.cov[i] = D!CoversQ(q)
        /\ (D!InsideQ(q) => Cur.isect[i])
        /\ (Cur.isect[i] => D!OverlapQ(q))
        /\ (D!Stored # {} => Cur.cby[i] = (IF D!CoveredByQ(q) THEN 1 ELSE 0))
        /\ LET r == Cur.cd[i]
           IN  /\ NoDup(r)
               /\ IF stored THEN SeqToSet(r) = D!ClosestDesc(q)
                  ELSE r = <<>> \/ SeqToSet(r) = D!ClosestDesc(q)
        /\ LET r == Cur.path[i]
           IN  IF stored THEN NoDup(r) /\ SeqToSet(r) = Entries(D!Ancestors(q)) ELSE r = <<>>

\* NB: the checks are compared with TRUE so that TLC evaluates them as values; written as plain conjuncts
\* of the action, every disjunction inside them would be split into separate (identical) successor states.
ObsAllOK == /\ NoDup(Cur.all) /\ SeqToSet(Cur.all) = Entries(D!Stored)
            /\ NoDup(Cur.vis) /\ SeqToSet(Cur.vis) = Entries(D!Stored)
            /\ \A i \in 1..Len(qs) : ObsOK(i)
TObs == /\ IsEvent("obs")
        /\ ObsAllOK = TRUE
        /\ UNCHANGED vars

Found(r) == [ns |-> r.ns, nm |-> r.nm]
KObsOK(i) ==
    LET q == qs[i] IN
    /\ NoDup(Cur.keys[i]) /\ SeqToSet(Cur.keys[i]) = D!KeysAt(q)
    /\ D!IsHost(q) =>
         /\ LET r == Cur.lpm[i] m == D!KLPM(q.a) IN IF m = {} THEN ~r.f ELSE r.f /\ Found(r) \in m
         /\ \A j \in 1..Len(prefs) :
               LET r == Cur.lpmns[i][j] m == D!KLPMNs(q.a, prefs[j])
               IN  IF m = {} THEN ~r.f ELSE r.f /\ Found(r) \in m

TKObs == /\ IsEvent("kobs")
         /\ (\A i \in 1..Len(qs) : KObsOK(i)) = TRUE
         /\ UNCHANGED vars

TNext == TReset \/ TUpd \/ TDel \/ TKIns \/ TKDel \/ TObs \/ TKObs
TSpec == TInit /\ [][TNext]_<<vars, l>>
=============================================================================
