-------------------------------- MODULE Trie --------------------------------
(* C36 property layer.  The CIDR trie (felix/ip/trie.go) is a map  prefix |-> value ; the network-set
   LPM index (felix/calc/iplpm.go) is a map  prefix |-> non-empty set of keys.  Every query must give
   the answer obtained by plain prefix arithmetic (module Nets) over the stored prefixes.
   The state keeps nothing else: S and K are functions whose DOMAIN is the set of stored prefixes.

   A CIDR is a Nets record [a |-> <<octets>>, n |-> length], always canonical (host bits zero).
   Values are positive integers, 0 stands for "nil".  A key is a record [ns |-> 0..., nm |-> 1...],
   ns = 0 meaning a global (un-namespaced) network set.                                           *)
EXTENDS Nets, TLC

CONSTANTS U,        \* prefixes the design/generator configurations range over
          Vals,     \* values stored in the CIDR trie
          Keys      \* network-set keys of the LPM index

VARIABLES S,        \* CIDRTrie : stored prefix |-> value
          K         \* IpTrie   : stored prefix |-> non-empty set of keys
vars == <<S, K>>

Nil == 0
Stored == DOMAIN S
KStored == DOMAIN K
Empty == [c \in {} |-> 0]

Init == S = Empty /\ K = Empty

\* ---- mutations ---------------------------------------------------------------------------------
Update(c, v) == S' = [x \in Stored \cup {c} |-> IF x = c THEN v ELSE S[x]] /\ UNCHANGED K
Delete(c)    == S' = [x \in Stored \ {c} |-> S[x]] /\ UNCHANGED K
KIns(c, k)   == K' = [x \in KStored \cup {c} |-> IF x = c THEN (IF c \in KStored THEN K[c] ELSE {}) \cup {k} ELSE K[x]]
                /\ UNCHANGED S
\* DeleteKey is only specified for a key that is present (that is how its caller uses it)
KDel(c, k)   == /\ c \in KStored /\ k \in K[c]
                /\ K' = [x \in (IF K[c] = {k} THEN KStored \ {c} ELSE KStored) |-> IF x = c THEN K[c] \ {k} ELSE K[x]]
                /\ UNCHANGED S

\* ---- queries of the CIDR trie, computed directly over the stored prefixes ---------------------
IsHost(q) == q.n = Width(q)
Get(q) == IF q \in Stored THEN S[q] ELSE Nil
\* most specific stored prefixes covering the whole of q (for a host q this is Nets!LPM)
LPMSet(q) == LET cov == { c \in Stored : Covers(c, q) } IN { c \in cov : \A d \in cov : d.n <= c.n }
CoversQ(q) == \E c \in Stored : Covers(c, q)
InsideQ(q) == \E c \in Stored : Covers(q, c)                 \* some stored prefix lies inside q
OverlapQ(q) == \E c \in Stored : Intersects(c, q)
CoveredByQ(q) == \A c \in Stored : Covers(q, c)
Ancestors(q) == { c \in Stored : Covers(c, q) }              \* includes q itself when stored
Descendants(p) == { d \in Stored : StrictlyCovers(p, d) }
ClosestDesc(p) == { d \in Descendants(p) : ~ \E e \in Descendants(p) : StrictlyCovers(e, d) }

\* ---- queries of the LPM index -----------------------------------------------------------------
KeysAt(q) == IF q \in KStored THEN K[q] ELSE {}
KCov(addr) == { c \in KStored : ContainsAddr(c, addr) }
\* keys that may be answered for addr: the keys of the longest covering prefix
KLPM(addr) == LET cov == KCov(addr) IN UNION { K[c] : c \in { c \in cov : \A d \in cov : d.n <= c.n } }
\* with namespace isolation: classes in priority order (preferred namespace, global, any other);
\* inside the winning class the longest prefix carrying a key of that class
Class(k, pref) == IF pref # 0 /\ k.ns = pref THEN 1 ELSE IF k.ns = 0 THEN 2 ELSE 3
KClassBest(addr, pref, cl) ==
    LET cand == UNION { { <<c, k>> : k \in { k \in K[c] : Class(k, pref) = cl } } : c \in KCov(addr) }
    IN  { p[2] : p \in { p \in cand : \A r \in cand : r[1].n <= p[1].n } }
KLPMNs(addr, pref) ==
    LET b1 == KClassBest(addr, pref, 1) IN
    IF b1 # {} THEN b1
    ELSE LET b2 == KClassBest(addr, pref, 2) IN
         IF b2 # {} THEN b2 ELSE KClassBest(addr, pref, 3)

\* ---- next-state relation for the design and generator configurations -------------------------
Next ==
    \/ \E c \in U, v \in Vals : Update(c, v)
    \/ \E c \in U : Delete(c)
    \/ \E c \in U, k \in Keys : KIns(c, k)
    \/ \E c \in U, k \in Keys : KDel(c, k)

\* ---- sanity theorems about the oracle itself (checked exhaustively by the design leg): the
\*      definitions above are cross-checked against independently phrased ones -------------------
TypeOK == /\ Stored \subseteq U /\ \A c \in Stored : S[c] \in Vals
          /\ KStored \subseteq U /\ \A c \in KStored : K[c] # {} /\ K[c] \subseteq Keys
LPMUnique == \A q \in U : Cardinality(LPMSet(q)) <= 1 /\ (LPMSet(q) # {} <=> CoversQ(q))
LPMIsNetsLPM == \A q \in U : IsHost(q) => LPMSet(q) = LPM(Stored, q.a)
OverlapSplit == \A q \in U : OverlapQ(q) <=> (CoversQ(q) \/ InsideQ(q))
ClosestOK == \A p \in U :
    /\ \A d, e \in ClosestDesc(p) : d # e => ~Intersects(d, e)            \* an antichain
    /\ \A d \in Descendants(p) : \E e \in ClosestDesc(p) : Covers(e, d)   \* that masks every descendant
KLPMOK == \A q \in { q \in U : IsHost(q) } :
    LET cov == KCov(q.a) IN
    /\ (KLPM(q.a) = {} <=> cov = {})
    /\ \A pref \in {0} \cup { k.ns : k \in Keys } :
          LET r == KLPMNs(q.a, pref) IN
          /\ (r = {} <=> cov = {})
          /\ r \subseteq UNION { K[c] : c \in cov }
Sane == TypeOK /\ LPMUnique /\ LPMIsNetsLPM /\ OverlapSplit /\ ClosestOK /\ KLPMOK
=============================================================================
