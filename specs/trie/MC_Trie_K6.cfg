CONSTANTS
  U <- U6s
  Vals = {}
  Keys <- K3
INIT Init
NEXT Next
INVARIANT Sane
CHECK_DEADLOCK FALSE
