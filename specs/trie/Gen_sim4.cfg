CONSTANTS
  U <- U4
  Vals = {1, 2, 3}
  Keys <- K4
  SimLen = 30
INIT GInit
NEXT GNext
INVARIANT EmitAtLen
CHECK_DEADLOCK FALSE
