CONSTANTS
  U <- U4c
  Vals = {1, 2}
  Keys = {}
  SimLen = 60
INIT GInit
NEXT GNext
VIEW GView
ACTION_CONSTRAINT EmitEdge
CHECK_DEADLOCK FALSE
