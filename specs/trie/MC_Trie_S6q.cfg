CONSTANTS
  U <- U6q
  Vals = {1, 2}
  Keys = {}
INIT Init
NEXT Next
INVARIANT Sane
CHECK_DEADLOCK FALSE
