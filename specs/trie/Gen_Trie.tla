------------------------------ MODULE Gen_Trie ------------------------------
(* Behaviour generator for C36 (leg A): module Trie's actions with a history variable.
   - Gen_cover*.cfg : one behaviour per transition of the abstract state graph (VIEW + ACTION_CONSTRAINT);
   - Gen_sim*.cfg   : random walks (-simulate), printed when they reach SimLen.
   The first record of every behaviour carries the list of query prefixes the driver has to ask after
   every mutation: the universe plus the first and last address of every prefix (as host prefixes). *)
EXTENDS MC_Trie, Json

CONSTANTS SimLen
VARIABLE hist
gvars == <<S, K, hist>>

Queries == U \cup { Addr(FirstAddr(c)) : c \in U } \cup { Addr(LastAddr(c)) : c \in U }
GInit == Init /\ hist = << [op |-> "init", q |-> Queries] >>

Step(a, r) == a /\ hist' = Append(hist, r)

GNext ==
  \/ /\ Len(hist) = SimLen /\ hist' = Append(hist, [op |-> "end"]) /\ UNCHANGED vars
  \/ /\ Len(hist) < SimLen
     /\ \/ \E c \in U, v \in Vals : Step(Update(c, v), [op |-> "upd", c |-> c, v |-> v])
        \/ \E c \in U : Step(Delete(c), [op |-> "del", c |-> c])
        \/ \E c \in U, k \in Keys : Step(KIns(c, k), [op |-> "kins", c |-> c, k |-> k])
        \/ \E c \in U, k \in Keys : Step(KDel(c, k), [op |-> "kdel", c |-> c, k |-> k])

GView == <<S, K>>
EmitEdge == PrintT("BEH " \o ToJson(hist'))
EmitAtLen == Len(hist) = SimLen + 1 => PrintT("BEH " \o ToJson(hist))
=============================================================================
