CONSTANTS
  U <- U4s
  Vals = {}
  Keys <- K3
INIT Init
NEXT Next
INVARIANT Sane
CHECK_DEADLOCK FALSE
