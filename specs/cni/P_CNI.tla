------------------------------- MODULE P_CNI -------------------------------
(* C38 property layer: "CNI delete is idempotent and leaves no address behind".

   The only state is the IPAM datastore projected as the set of allocated addresses with the handle id
   each one is recorded under (block allocation -> attribute -> handle id; an ordinal whose attribute
   carries ReleasedAt is in cool-down, i.e. released, and is not in the set).

   A container c = [id, pod, ns, fams] has two handles: the primary "<net>.<containerID>" and the
   legacy workload-ID handle "<namespace>.<pod>" (what v2.x-era plugins recorded; shared by all the
   containers of one pod).  Every CNI call is ONE action, judged from the store before the call, the
   call's result and the store after it.  The layer is deliberately weak:
     - nothing is said about what a FAILED add or a FAILED delete leaves behind (partial adds and
       partial deletes are allowed; the property is about the following successful delete);
     - nothing is said about handle objects, blocks, affinities, or which address is chosen.
   What is demanded (the statement of C38):
     AddHolds    a successful add returned an address for every requested family and the store now
                 records every returned address as allocated to "<net>.<containerID>";
     DelCleans   after a SUCCESSFUL delete of c no address is allocated to either handle of c,
                 whatever happened before;
     DelIdem     a delete of a container that owns nothing succeeds unless a datastore fault was
                 injected into that very call;
     Frame       no call changes an allocation recorded under a handle that is not one of the calling
                 container's two handles (a delete never frees another container's addresses; an add
                 never takes or frees them either);
     HeldKept    "a successful add HOLDS an address for every requested family": the addresses returned
                 by a container's successful adds (`held`) stay allocated to "<net>.<containerID>" until
                 a delete of that container releases them (a successful delete, or a failed one that
                 was partially effective).  In particular a later add for the same container id and
                 network - successful or failed, e.g. a retried dual-stack add that comes back one
                 family short and rolls back - never frees addresses held from an EARLIER successful add. *)
EXTENDS Naturals, FiniteSets, Sequences, TLC

VARIABLES alloc,        \* set of [a |-> address, h |-> handle id]
          held          \* subset of alloc (invariant): addresses returned by successful adds and not released
                        \* by a delete since, recorded with the primary handle of the container they were returned to

HC(net, c) == net \o "." \o c.id            \* primary handle
HL(c)      == c.ns \o "." \o c.pod          \* legacy workload-ID handle
Handles(net, c) == {HC(net, c), HL(c)}

Owned(S, H)  == { p \in S : p.h \in H }
Others(S, H) == { p \in S : p.h \notin H }

Frame(old, new, H) == Others(new, H) = Others(old, H)

\* ---- judgements (pure predicates over the store before / after; no primes) ----------------------
\* fams: set of requested families; ips: set of [a |-> address, fam |-> "v4" | "v6"] returned by the add
AddHolds(net, c, fams, ips, new) ==
    /\ \A f \in fams : \E r \in ips : r.fam = f
    /\ \A r \in ips : [a |-> r.a, h |-> HC(net, c)] \in new

JudgeAdd(net, c, fams, ok, ips, old, hd, new) ==
    /\ Frame(old, new, Handles(net, c))
    /\ ok => AddHolds(net, c, fams, ips, new)
    /\ hd \subseteq new                                                 \* HeldKept

HeldAfterAdd(net, c, ok, ips, hd) ==
    IF ok THEN hd \cup { [a |-> r.a, h |-> HC(net, c)] : r \in ips } ELSE hd

JudgeDel(net, c, ok, faulted, old, new) ==
    /\ Frame(old, new, Handles(net, c))
    /\ ok => Owned(new, Handles(net, c)) = {}                          \* DelCleans
    /\ (~faulted /\ Owned(old, Handles(net, c)) = {}) => ok            \* DelIdem

\* environment: somebody (an old plugin) allocates under the legacy handle of c's pod
JudgeLegacy(c, old, hd, new) == Frame(old, new, {HL(c)}) /\ hd \subseteq new

\* ---- actions ---------------------------------------------------------------------------------------
Add(net, c, fams, ok, ips, new)   == /\ JudgeAdd(net, c, fams, ok, ips, alloc, held, new)
                                     /\ alloc' = new
                                     /\ held' = HeldAfterAdd(net, c, ok, ips, held)
\* a delete (successful, or failed but partially effective) ends the hold on whatever it released; Frame
\* guarantees that this can only concern the deleted container's own handles
Del(net, c, ok, faulted, new)     == /\ JudgeDel(net, c, ok, faulted, alloc, new)
                                     /\ alloc' = new
                                     /\ held' = held \cap new
Legacy(c, new)                    == JudgeLegacy(c, alloc, held, new) /\ alloc' = new /\ UNCHANGED held
Reset(new)                        == alloc' = new /\ held' = {}

HeldAllocated == held \subseteq alloc
=============================================================================
