CONSTANTS
  Net = "net1"
  Containers <- CS3
  Caps <- CapsQuick
  ErrKs <- ErrKsFull
  ConfKs <- ConfKsFull
  MaxFaults = 1
  SimLen = 5
INIT GInit
NEXT GNext
VIEW GView
ACTION_CONSTRAINT EmitEdge
CHECK_DEADLOCK FALSE
