CONSTANTS
  Net = "net1"
  Containers <- CS3
  Caps <- CapsQuick
  ErrKs <- ErrKsQuick
  ConfKs <- ConfKsQuick
  MaxFaults = 1
  SimLen = 4
INIT GInit
NEXT GNext
VIEW GView
ACTION_CONSTRAINT EmitEdge
CHECK_DEADLOCK FALSE
