CONSTANTS
  Net = "net1"
  Containers <- CS4
  Caps <- CapsFull
INIT IInit
NEXT INext
INVARIANT TypeOK
PROPERTY Refines
CHECK_DEADLOCK FALSE
