CONSTANTS
  Net = "net1"
  Containers <- CS3
  Caps <- CapsMC
INIT IInit
NEXT INext
INVARIANT TypeOK
PROPERTY Refines
CHECK_DEADLOCK FALSE
