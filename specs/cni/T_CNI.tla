------------------------------ MODULE T_CNI ------------------------------
(* Trace specification for C38: every recorded call of the real cmdAdd / cmdDel (and every legacy
   allocation made by the harness) is one action of the property layer P_CNI; the store after the call
   is the allocation projection the driver read from the datastore snapshot.

   events:  reset  {net, containers:[{id,pod,ns,fams}], cap4, cap6, alloc}
            add    {c, ok, fired, ips:[{a,fam}], alloc}      del {c, ok, fired, alloc}
            legacy {c, alloc}
   alloc:   [{a, fam, h, cooling}] - every non-free ordinal of every block; an ordinal whose attribute
            carries ReleasedAt (cooling) is released, not allocated.                                  *)
EXTENDS TraceLib, FiniteSets

VARIABLES alloc, held, cfg, busy      \* busy = <<non-free v4 ordinals, non-free v6 ordinals>> (allocated or cooling)

P == INSTANCE P_CNI
tvars == <<alloc, held, cfg, busy>>

AllocOf(e) == { [a |-> p.a, h |-> p.h] : p \in { q \in SeqToSet(e.alloc) : ~q.cooling } }
Cont(id)   == CHOOSE c \in SeqToSet(cfg.containers) : c.id = id
Known(id)  == \E c \in SeqToSet(cfg.containers) : c.id = id
IpsOf(e)   == { [a |-> r.a, fam |-> r.fam] : r \in SeqToSet(e.ips) }

BusyOf(e)  == << Cardinality({ i \in DOMAIN e.alloc : e.alloc[i].fam = "v4" }),
                 Cardinality({ i \in DOMAIN e.alloc : e.alloc[i].fam = "v6" }) >>

TInit == l = 1 /\ alloc = {} /\ held = {} /\ cfg = [net |-> "", containers |-> <<>>, cap |-> <<0, 0>>] /\ busy = <<0, 0>>

\* ---- drift (never a verdict): does an UN-FAULTED call behave as the implementation layer I_CNI says? ---------
\* An un-faulted add succeeds iff every requested family has a free address; an un-faulted add that fails while
\* every requested family has a pool leaves the primary handle as it was (the dual-stack rollback of
\* design/ipam/ipam-cni.md); an un-faulted delete succeeds.  A mismatch prints <<"DRIFT", what, line>> and the
\* event is still judged by P_CNI alone.
Drift(what, holds) == IF holds THEN TRUE ELSE PrintT(<<"DRIFT", what, l>>)
DriftAdd(c, new) ==
    LET w4 == "v4" \in SeqToSet(c.fams)
        w6 == "v6" \in SeqToSet(c.fams)
        room == (w4 => busy[1] < cfg.cap[1]) /\ (w6 => busy[2] < cfg.cap[2])
        pools == (w4 => cfg.cap[1] > 0) /\ (w6 => cfg.cap[2] > 0)
        hc == {P!HC(cfg.net, c)}
    IN IF Cur.fired THEN TRUE
       ELSE /\ Drift("add-outcome", Cur.ok = room)
            /\ Drift("add-rollback", (~Cur.ok /\ pools) => P!Owned(new, hc) = P!Owned(alloc, hc))
DriftDel == IF Cur.fired THEN TRUE ELSE Drift("del-outcome", Cur.ok)

TReset == /\ IsEvent("reset")
          /\ cfg' = [net |-> Cur.net, containers |-> Cur.containers, cap |-> <<Cur.cap4, Cur.cap6>>]
          /\ P!Reset(AllocOf(Cur))
          /\ busy' = BusyOf(Cur)

TAdd == /\ IsEvent("add")
        /\ Known(Cur.c)
        /\ LET c == Cont(Cur.c) IN /\ P!Add(cfg.net, c, SeqToSet(c.fams), Cur.ok, IpsOf(Cur), AllocOf(Cur))
                                   /\ DriftAdd(c, AllocOf(Cur))
        /\ busy' = BusyOf(Cur)
        /\ UNCHANGED cfg

TDel == /\ IsEvent("del")
        /\ Known(Cur.c)
        /\ P!Del(cfg.net, Cont(Cur.c), Cur.ok, Cur.fired, AllocOf(Cur))
        /\ DriftDel
        /\ busy' = BusyOf(Cur)
        /\ UNCHANGED cfg

TLegacy == /\ IsEvent("legacy")
           /\ Known(Cur.c)
           /\ P!Legacy(Cont(Cur.c), AllocOf(Cur))
           /\ busy' = BusyOf(Cur)
           /\ UNCHANGED cfg

TNext == TReset \/ TAdd \/ TDel \/ TLegacy
TSpec == TInit /\ [][TNext]_<<tvars, l>>
=============================================================================
