------------------------------ MODULE Gen_CNI ------------------------------
(* Behaviour generator for C38 (leg A): I_CNI's actions with a history variable.  A behaviour is
   <<init record, call records...>>; a call record names the container and the fault plan of that CNI
   call: kind "" (none), "error" (the k-th datastore call of the CNI call fails with a transport error)
   or "conflict" (its k-th compare-and-swap call fails with an update conflict).  The model cannot know
   which phase the k-th real datastore call belongs to, so a planned fault may hit any phase or be
   absorbed (all outcomes of I_CNI are allowed); the behaviours are INPUTS for the real code, the real
   outcome is judged by P_CNI.

   - Gen_cover*.cfg: VIEW <<capacities, allocated and held counts per handle, the fault plan used so far>> and
     ACTION_CONSTRAINT EmitEdge: one behaviour per transition of that abstract graph, i.e. every
     (abstract store state, call, fault position) pair, and for every fault position the un-faulted
     calls that follow it (the "following successful delete").  At most MaxFaults faulted calls.
   - Gen_sim.cfg: -simulate, random walks with any number of faulted calls.                        *)
EXTENDS I_CNI, Json

CONSTANTS ErrKs,        \* call indexes for kind "error"
          ConfKs,       \* compare-and-swap call indexes for kind "conflict"
          MaxFaults,    \* faulted calls per behaviour (cover mode)
          SimLen        \* calls per behaviour

VARIABLES hist, fk      \* fk: the fault plans used so far (sequence of <<kind, k>>)
gvars == <<alloc, held, cap, last, hist, fk>>

FamSeq(F) == (IF "v4" \in F THEN <<"v4">> ELSE <<>>) \o (IF "v6" \in F THEN <<"v6">> ELSE <<>>)
RECURSIVE CSeq(_)
CSeq(S) == IF S = {} THEN <<>>
           ELSE LET x == CHOOSE x \in S : TRUE IN
                <<[id |-> x.id, pod |-> x.pod, ns |-> x.ns, fams |-> FamSeq(x.fams)]>> \o CSeq(S \ {x})

GInit == /\ IInit
         /\ hist = <<[op |-> "init", net |-> Net, cap4 |-> cap[1], cap6 |-> cap[2], containers |-> CSeq(Containers)]>>
         /\ fk = <<>>

Plans == {<<"", 0>>} \cup { <<"error", k>> : k \in ErrKs } \cup { <<"conflict", k>> : k \in ConfKs }

Call(op, c, pl) == /\ hist' = Append(hist, [op |-> op, c |-> c.id, kind |-> pl[1], k |-> pl[2]])
                   /\ fk' = IF pl[1] = "" THEN fk ELSE Append(fk, pl)
                   /\ Len(fk') <= MaxFaults

GNext ==
  \/ /\ Len(hist) = SimLen + 1 /\ hist' = Append(hist, [op |-> "end"]) /\ UNCHANGED <<alloc, held, cap, last, fk>>
  \/ /\ Len(hist) < SimLen + 1
     /\ \/ \E c \in Containers, pl \in Plans, f \in AddFaults : IAdd(c, pl[1] # "", f) /\ Call("add", c, pl)
        \/ \E c \in Containers, pl \in Plans, f \in DelFaults : IDel(c, pl[1] # "", f) /\ Call("del", c, pl)
        \/ \E c \in Containers, fam \in {"v4", "v6"} :
              /\ ILegacy(c, fam)
              /\ hist' = Append(hist, [op |-> "legacy", c |-> c.id, fam |-> fam])
              /\ UNCHANGED fk

\* abstract store: how many v4 / v6 addresses each handle owns
Handles == { HCc(c) : c \in Containers } \cup { HLc(c) : c \in Containers }
Count(h, fam) == Cardinality({ p \in alloc : p.h = h /\ p.a[1] = fam })
HeldCount(h) == Cardinality({ p \in held : p.h = h })
GView == <<cap, [h \in Handles |-> <<Count(h, "v4"), Count(h, "v6"), HeldCount(h)>>], fk>>
EmitEdge == PrintT("BEH " \o ToJson(hist'))
ErrKsFull == 1..36
ConfKsFull == 1..8
ErrKsQuick == {2, 5, 9, 14, 20, 27}
ConfKsQuick == {1, 3}
ErrKsSim == {1, 4, 8, 13, 19, 26}
ConfKsSim == {1, 2, 4}
EmitAtLen == Len(hist) = SimLen + 2 => PrintT("BEH " \o ToJson(hist))
=============================================================================
