------------------------------- MODULE I_CNI -------------------------------
(* C38 implementation layer: cmdAdd / cmdDel of cni-plugin/pkg/ipamplugin as phases over an abstract
   IPAM store, with at most one injected datastore fault per CNI call.  TLC checks exhaustively that
   this design satisfies every judgement of the property layer P_CNI (property Refines), and the
   module is the generator of behaviours for leg A (Gen_CNI).  It decides no verdicts.

   cmdAdd:  v4 phase (AutoAssign v4: an address, or "short" when the pool is dry, or a hard error),
            v6 phase (likewise; a missing v6 pool is a hard error "cannot find a qualified ippool"),
            on a hard error the add returns at once and what the other family got STAYS allocated;
            when exactly one of two requested families is short the other one is rolled back
            (ReleaseIPs; its failure is only logged) and the add fails; an add succeeds only with an
            address for every requested family.
   cmdDel:  ReleaseByHandle("<net>.<containerID>") then ReleaseByHandle("<ns>.<pod>"); "not found" is
            success; any other error aborts the delete (possibly after some blocks were released).
   A planned fault may also be absorbed (retries, or the call index is never reached): outcome "none". *)
EXTENDS Naturals, FiniteSets, Sequences, TLC

CONSTANTS Net,          \* network name
          Containers,   \* set of [id, pod, ns, fams]
          Caps          \* set of <<number of v4 addresses, number of v6 addresses>> (0 v6 = no v6 pool)

VARIABLES alloc,        \* as in P_CNI: set of [a, h]
          held,         \* as in P_CNI: addresses returned by successful adds, not yet released by a delete
          cap,          \* the pool capacities of this run
          last          \* the last call with its result (what P_CNI judges)

P == INSTANCE P_CNI
ivars == <<alloc, held, cap, last>>

Addr4 == { <<"v4", i>> : i \in 1..cap[1] }
Addr6 == { <<"v6", i>> : i \in 1..cap[2] }
NoPool6 == cap[2] = 0
Free(S) == { a \in S : \A p \in alloc : p.a # a }
Pair(a, h) == [a |-> a, h |-> h]
HCc(c) == P!HC(Net, c)
HLc(c) == P!HL(c)

IInit == /\ alloc = {} /\ held = {} /\ cap \in Caps /\ last = [op |-> "init"]

\* outcome of one family phase when no hard error hits it
Phase(want, S) == IF ~want THEN {<<"skip", 0>>} ELSE IF Free(S) = {} THEN {<<"short", 0>>} ELSE Free(S)
Got(r) == r[1] \in {"v4", "v6"}

\* f: "none" | "v4" (hard error in the v4 phase) | "v6" (hard error in the v6 phase) | "rb" (the rollback fails)
IAdd(c, planned, f) ==
    LET w4 == "v4" \in c.fams
        w6 == "v6" \in c.fams
    IN
    /\ f # "none" => planned
    /\ \E r4 \in Phase(w4, Addr4), r6 \in Phase(w6, Addr6) :
         LET hard4 == w4 /\ f = "v4"
             hard6 == w6 /\ ~hard4 /\ (f = "v6" \/ NoPool6)
             k4 == IF Got(r4) /\ ~hard4 THEN {r4} ELSE {}           \* what the v4 phase allocated
             k6 == IF Got(r6) /\ ~hard4 /\ ~hard6 THEN {r6} ELSE {}
             partial == ~hard4 /\ ~hard6 /\ w4 /\ w6 /\ ((k4 = {}) # (k6 = {}))
             ok == ~hard4 /\ ~hard6 /\ (w4 => k4 # {}) /\ (w6 => k6 # {})
             kept == IF partial /\ f # "rb" THEN {} ELSE k4 \cup k6     \* rollback releases the lone family
         IN
         /\ f = "v4" => w4
         /\ f = "v6" => w6 /\ ~NoPool6
         /\ f = "rb" => partial
         /\ alloc' = alloc \cup { Pair(a, HCc(c)) : a \in kept }      \* the rollback releases by ADDRESS: only this call's
         /\ held' = IF ok THEN held \cup { Pair(a, HCc(c)) : a \in kept } ELSE held
         /\ last' = [op |-> "add", c |-> c, ok |-> ok, faulted |-> planned,
                     ips |-> IF ok THEN { [a |-> a, fam |-> a[1]] : a \in kept } ELSE {}]
    /\ UNCHANGED cap

\* f: "none" | "hc" (hard error while releasing the primary handle) | "hl" (... the legacy handle)
IDel(c, planned, f) ==
    LET hc == P!Owned(alloc, {HCc(c)})
        hl == P!Owned(alloc, {HLc(c)})
    IN
    /\ f # "none" => planned
    /\ \/ /\ f = "none"
          /\ alloc' = alloc \ (hc \cup hl)
          /\ last' = [op |-> "del", c |-> c, ok |-> TRUE, faulted |-> planned, ips |-> {}]
       \/ /\ f = "hc"
          /\ \E S \in SUBSET hc : /\ (S # hc \/ hc = {})               \* some block was not reached
                                  /\ alloc' = alloc \ S
          /\ last' = [op |-> "del", c |-> c, ok |-> FALSE, faulted |-> planned, ips |-> {}]
       \/ /\ f = "hl"
          /\ \E S \in SUBSET hl : /\ (S # hl \/ hl = {})
                                  /\ alloc' = alloc \ (hc \cup S)
          /\ last' = [op |-> "del", c |-> c, ok |-> FALSE, faulted |-> planned, ips |-> {}]
    /\ held' = held \cap alloc'
    /\ UNCHANGED cap

\* an old plugin allocates one address of family fam under the pod's workload-ID handle
ILegacy(c, fam) ==
    LET S == IF fam = "v4" THEN Addr4 ELSE Addr6 IN
    /\ Free(S) # {}
    /\ \E a \in Free(S) : alloc' = alloc \cup {Pair(a, HLc(c))}
    /\ last' = [op |-> "legacy", c |-> c, ok |-> TRUE, faulted |-> FALSE, ips |-> {}]
    /\ UNCHANGED <<cap, held>>

AddFaults == {"none", "v4", "v6", "rb"}
DelFaults == {"none", "hc", "hl"}

INext ==
    \/ \E c \in Containers, pl \in BOOLEAN, f \in AddFaults : IAdd(c, pl, f)
    \/ \E c \in Containers, pl \in BOOLEAN, f \in DelFaults : IDel(c, pl, f)
    \/ \E c \in Containers, fam \in {"v4", "v6"} : ILegacy(c, fam)

ISpec == IInit /\ [][INext]_ivars

\* ---- the design satisfies the property layer -----------------------------------------------------
Judge(r, old, hd, new, hd2) ==
    CASE r.op = "add"    -> /\ P!JudgeAdd(Net, r.c, r.c.fams, r.ok, r.ips, old, hd, new)
                            /\ hd2 = P!HeldAfterAdd(Net, r.c, r.ok, r.ips, hd)
      [] r.op = "del"    -> P!JudgeDel(Net, r.c, r.ok, r.faulted, old, new) /\ hd2 = hd \cap new
      [] r.op = "legacy" -> P!JudgeLegacy(r.c, old, hd, new) /\ hd2 = hd
      [] OTHER           -> FALSE
Refines == [][Judge(last', alloc, held, alloc', held')]_ivars

\* structural sanity of the abstract store: one owner per address, nothing beyond the pools
TypeOK == /\ \A p, q \in alloc : p.a = q.a => p = q
          /\ \A p \in alloc : p.a \in Addr4 \cup Addr6
          /\ P!HeldAllocated

\* ---- container universes (cfg files cannot write records) -----------------------------------------
\* cid1 and cid2 are two containers of the same pod (container restart); cid3 is another pod, v4 only
C(id, pod, fams) == [id |-> id, pod |-> pod, ns |-> "ns1", fams |-> fams]
CS2 == { C("cid1", "p1", {"v4", "v6"}), C("cid2", "p1", {"v4", "v6"}) }
CS3 == CS2 \cup { C("cid3", "p2", {"v4"}) }
CS4 == CS3 \cup { C("cid4", "p2", {"v6"}) }
CapsQuick == { <<2, 1>>, <<2, 0>> }
CapsFull  == { <<2, 1>>, <<2, 0>>, <<1, 2>>, <<4, 2>> }
CapsMC    == { <<2, 1>>, <<2, 0>>, <<1, 2>>, <<2, 2>> }
=============================================================================
