CONSTANTS
  Net = "net1"
  Containers <- CS3
  Caps <- CapsFull
  ErrKs <- ErrKsSim
  ConfKs <- ConfKsSim
  MaxFaults = 99
  SimLen = 9
INIT GInit
NEXT GNext
INVARIANT EmitAtLen
CHECK_DEADLOCK FALSE
