CONSTANTS
  G = 1
  GV = 9
  Nodes = {"n1"}
  PodNames = {"p1"}
  VMNames = {}
  BlockIds = {"10.0.1.0/30"}
  IPsOf <- IPsTwo
  PodIPChoices <- IPChoices2
  AllocChoices <- QuickChoices
  Cap = 6
  ShortSleep = 3
  LongSleep = 27
  MaxSyncs = 3
  MaxSeq = 2
  MaxFail = 0
INIT IInit
NEXT INext
INVARIANTS CallsOK Live Consistent
CONSTRAINT StateBound
CHECK_DEADLOCK FALSE
