-------------------------------- MODULE T_GC --------------------------------
(* Trace specification for C23: replays what the in-package driver recorded from the REAL IPAM garbage
   collector against module GC.  World changes, deliveries and clock readings are inputs; every call the
   controller made on the IPAM client (release_ips / release_block / release_host) is accepted only if
   GC's judgement holds at that moment; every `state` line (projection of the controller's maps) must
   be what follows from the blocks delivered; `final` must satisfy the bounded liveness claim.      *)
EXTENDS TraceLib, FiniteSets

VARIABLES knodes, pods, pcache, vms, store, view, seen, firstInv, firstEmpty, syncNo, cur, frozen, since

TG == Trace[1].G
TGV == Trace[1].GV
P == INSTANCE GC WITH G <- TG, GV <- TGV
vars == <<knodes, pods, pcache, vms, store, view, seen, firstInv, firstEmpty, syncNo, cur, frozen, since>>

TInit == l = 1 /\ P!Init

Rows(s) == SeqToSet(s)
Dump == [blocks |-> Rows(Cur.blocks), allocs |-> Rows(Cur.allocs), nodesByBlock |-> Rows(Cur.nodesByBlock),
         blocksByNode |-> Rows(Cur.blocksByNode), empty |-> Rows(Cur.empty), byNode |-> Rows(Cur.byNode),
         byHandle |-> Rows(Cur.byHandle), confirmed |-> Rows(Cur.confirmed)]

TReset ==
    /\ IsEvent("reset")
    /\ knodes' = {} /\ pods' = << >> /\ pcache' = << >> /\ vms' = {}
    /\ store' = << >> /\ view' = << >> /\ seen' = << >> /\ firstInv' = << >> /\ firstEmpty' = << >>
    /\ syncNo' = 0 /\ cur' = P!NoSync /\ frozen' = FALSE /\ since' = << >>
    /\ Cur.G = TG /\ Cur.GV = TGV

TNodeAdd == IsEvent("node_add") /\ P!NodeAdd(Cur.n)
TNodeDel == IsEvent("node_del") /\ P!NodeDel(Cur.n)
TPodSet  == IsEvent("pod_set") /\ P!PodSet(Cur.p, Cur.node, Rows(Cur.ips), Cur.cached)
TPodDel  == IsEvent("pod_del") /\ P!PodDel(Cur.p, Cur.cached)
TPodSync == IsEvent("pod_cache_sync") /\ P!PodCacheSync(Cur.p)
TVMSet   == IsEvent("vm_set") /\ P!VMSet(Cur.v, Cur.exists)
TBlkNew  == IsEvent("block_create") /\ P!BlockCreate(Cur.b, Cur.aff)
TBlkDel  == IsEvent("block_delete") /\ P!BlockDelete(Cur.b)
TAssign  == /\ IsEvent("assign")
            /\ P!Assign(Cur.b, Cur.ip, Cur.handle, Cur.kind, Cur.owner, Cur.node)
            /\ store'[Cur.b].seqno = Cur.seq
TFree    == IsEvent("free") /\ P!Free(Cur.b, Cur.ip)
TDeliver == IsEvent("deliver") /\ P!Deliver(Cur.b)
TDelGone == IsEvent("deliver_gone") /\ P!DeliverGone(Cur.b)
\* witness behaviours announce the delivery semantics they use; nothing to judge
TOptions == IsEvent("options") /\ UNCHANGED vars
TState   == IsEvent("state") /\ P!BookkeepingOK(Dump) /\ UNCHANGED vars

TSyncBegin == IsEvent("sync_begin") /\ P!SyncBegin(Cur.tb, Cur.full)
TSyncEnd   == IsEvent("sync_end") /\ P!SyncEnd(Cur.ta)
TRelIPs ==
    /\ IsEvent("release_ips")
    /\ cur # P!NoSync
    /\ Len(Cur.opts) = Cardinality(Rows(Cur.opts))
    /\ P!ReleaseIPsOK(Rows(Cur.opts), Cur.tc)
    /\ Rows(Cur.released) = P!Released(Rows(Cur.opts), Cur.fail)
    /\ P!ReleaseIPsEffect(Rows(Cur.opts), Cur.fail)
TRelBlock ==
    /\ IsEvent("release_block")
    /\ cur # P!NoSync
    /\ P!ReleaseBlockOK(Cur.b, Cur.host, Cur.mbe, Cur.tc)
    /\ Cur.err = ~P!BlockReleasable(Cur.b, Cur.fail)
    /\ P!ReleaseBlockEffect(Cur.b, Cur.fail)
TRelHost ==
    /\ IsEvent("release_host")
    /\ cur # P!NoSync
    /\ P!ReleaseHostOK(Cur.host, Cur.mbe)
    /\ Cur.err = (Cur.fail \/ P!HostLeftovers(Cur.host) # {})
    /\ P!ReleaseHostEffect(Cur.host, Cur.fail)
TFreeze == IsEvent("freeze") /\ P!Freeze
TFinal  == IsEvent("final") /\ P!FinalOK /\ frozen /\ UNCHANGED vars

TNext == TReset \/ TNodeAdd \/ TNodeDel \/ TPodSet \/ TPodDel \/ TPodSync \/ TVMSet \/ TBlkNew \/ TBlkDel
         \/ TAssign \/ TFree \/ TDeliver \/ TDelGone \/ TState \/ TSyncBegin \/ TSyncEnd \/ TRelIPs \/ TRelBlock
         \/ TRelHost \/ TFreeze \/ TFinal \/ TOptions
TSpec == TInit /\ [][TNext]_<<vars, l>>
=============================================================================
