CONSTANTS
  G = 1
  GV = 9
  Nodes = {"n1", "n2"}
  PodNames = {"p1", "p2"}
  VMNames = {}
  BlockIds = {"10.0.1.0/30", "10.0.2.0/30"}
  IPsOf <- IPsSim
  PodIPChoices <- IPChoicesB
  AllocChoices <- MidChoices
  Cap = 40
  ShortSleep = 3
  LongSleep = 27
  MaxSyncs = 1000
  MaxSeq = 1000
  MaxFail = 2
  SimLen = 45
INIT GInit
NEXT GNext
INVARIANT EmitAtLen
CHECK_DEADLOCK FALSE
