-------------------------------- MODULE I_GC --------------------------------
(* C23 implementation layer: the IPAM garbage collector of kube-controllers/pkg/controllers/node
   transcribed at the grain of its IPAM-client calls, on LOGICAL time, together with the environment of
   module GC.  One sync is  ISyncBegin (checkAllocations) ; IGc (garbageCollectKnownLeaks) ;
   IBlock* (releaseUnusedBlocks, one emptyBlocks entry per step, any order) ; INodes (releaseNodes) ;
   ISyncEnd.  Map-iteration order of the real code is nondeterminism here (releaseUnusedBlocks).

   Time: `now` is always 0 and a sleep shifts every stored instant into the past (saturating at -Cap),
   so that the state space is finite; G = 1, short sleep = 3, GV = 9, long sleep = 27.

   TLC checks (CallsOK) that every IPAM call this design is about to make is accepted by the property
   layer (GC!ReleaseIPsOK / ReleaseBlockOK / ReleaseHostOK), and GC!FinalOK (bounded liveness).     *)
EXTENDS GC

CONSTANTS Nodes, PodNames, VMNames, BlockIds,   \* universes (strings)
          IPsOf(_),                             \* block -> set of its addresses (strings)
          PodIPChoices,                         \* sets of addresses a pod may report
          AllocChoices,                         \* set of [handle, kind, owner] an assignment may use
          Cap, ShortSleep, LongSleep,
          MaxSyncs, MaxSeq, MaxFail

VARIABLES nodeMap,   \* Calico nodes the controller has a k8s name for (kubernetesNodesByCalicoName)
          ast,       \* [handle, ip] |-> [seq, leakedAt, conf, knode]  (allocation objects)
          leaks,     \* ids in the confirmedLeaks index
          dirty, fullReq,
          tracker,   \* blockReleaseTracker: block |-> first time marked empty
          pc, todo, toRel, failK, nfail
ivars == <<nodeMap, ast, leaks, dirty, fullReq, tracker, pc, todo, toRel, failK, nfail>>
vars == <<gvars, ivars>>

NoTime == 1                                     \* instants are <= 0
Id(a) == [handle |-> a.handle, ip |-> a.ip]
AllocOf(id) == CHOOSE a \in ViewAllocs : Id(a) = id
Fresh(a) == [seq |-> a.seq, leakedAt |-> NoTime, conf |-> FALSE, knode |-> ""]
Back(x, d) == IF x = NoTime THEN NoTime ELSE IF x - d < -Cap THEN -Cap ELSE x - d

IInit ==
    /\ Init
    /\ nodeMap = {} /\ ast = << >> /\ leaks = {} /\ dirty = {} /\ fullReq = FALSE /\ tracker = << >>
    /\ pc = "idle" /\ todo = {} /\ toRel = {} /\ failK = "" /\ nfail = 0

Idle == pc = "idle" /\ ~frozen
ictl == <<ast, leaks, dirty, fullReq, tracker, pc, todo, toRel, failK, nfail>>

\* ---- environment ------------------------------------------------------------------------------------
INodeAdd(n) == Idle /\ NodeAdd(n) /\ nodeMap' = nodeMap \cup {n} /\ UNCHANGED ictl
INodeDel(n, deliver) ==
    /\ Idle /\ NodeDel(n)
    /\ nodeMap' = IF deliver THEN nodeMap \ {n} ELSE nodeMap
    /\ UNCHANGED ictl
IPodSet(p, node, ips, cached) == Idle /\ PodSet(p, node, ips, cached) /\ UNCHANGED ivars
\* the informer's delete handler marks the node of the deleted (cached) pod dirty
DirtyOnCacheDelete(p) ==
    IF p \in DOMAIN pcache /\ p \notin DOMAIN pcache' /\ pcache[p].node # "" THEN dirty \cup {pcache[p].node} ELSE dirty
IPodDel(p, cached) ==
    /\ Idle /\ PodDel(p, cached)
    /\ dirty' = DirtyOnCacheDelete(p)
    /\ UNCHANGED <<nodeMap, ast, leaks, fullReq, tracker, pc, todo, toRel, failK, nfail>>
IPodCacheSync(p) ==
    /\ Idle /\ (p \in DOMAIN pods \/ p \in DOMAIN pcache) /\ PodCacheSync(p)
    /\ (IF p \in DOMAIN pods /\ p \in DOMAIN pcache THEN pcache[p] # pods[p] ELSE TRUE)
    /\ dirty' = DirtyOnCacheDelete(p)
    /\ UNCHANGED <<nodeMap, ast, leaks, fullReq, tracker, pc, todo, toRel, failK, nfail>>
IVMSet(v, e) == Idle /\ (v \in vms) # e /\ VMSet(v, e) /\ UNCHANGED ivars
\* watch semantics (E3): a block is re-created only after the deletion of its predecessor was delivered
IBlockCreate(b, aff) == Idle /\ b \notin DOMAIN view /\ BlockCreate(b, aff) /\ UNCHANGED ivars
IBlockDelete(b) == Idle /\ BlockDelete(b) /\ UNCHANGED ivars
\* assumption E4: a handle belongs to one node (it names a container sandbox, or a node's tunnel device)
HandleFor(ch, node) == ch.handle \o "@" \o node
IAssign(b, ip, ch, node) ==
    /\ Idle /\ b \in DOMAIN store /\ store[b].seqno < MaxSeq
    /\ Assign(b, ip, HandleFor(ch, node), ch.kind, ch.owner, node) /\ UNCHANGED ivars
IFree(b, ip) == Idle /\ b \in DOMAIN store /\ store[b].seqno < MaxSeq /\ Free(b, ip) /\ UNCHANGED ivars

\* onBlockUpdated / onBlockDeleted
IDeliver(b) ==
    /\ pc = "idle"
    /\ (b \in DOMAIN store \/ b \in DOMAIN view)
    /\ (IF b \in DOMAIN store /\ b \in DOMAIN seen THEN seen[b] # store[b] ELSE TRUE)
    /\ Deliver(b)
    /\ LET old == IF b \in DOMAIN view THEN view[b].allocs ELSE {}
           new == IF b \in DOMAIN store THEN store[b].allocs ELSE {}
           oldIds == { Id(a) : a \in old }
           newIds == { Id(a) : a \in new }
           NewOf(id) == CHOOSE a \in new : Id(a) = id
           gone == oldIds \ newIds
           added == newIds \ oldIds
           touched == { a.node : a \in { x \in old : Id(x) \in gone } \cup { x \in new : Id(x) \in added } } \ {""}
       IN /\ ast' = [id \in ((DOMAIN ast) \ gone) \cup newIds |->
                        IF id \in added THEN Fresh(NewOf(id))
                        ELSE IF id \in newIds /\ ast[id].seq # NewOf(id).seq
                             THEN [Fresh(NewOf(id)) EXCEPT !.knode = ast[id].knode]
                             ELSE ast[id]]
          /\ leaks' = leaks \ gone
          /\ dirty' = dirty \cup touched
          /\ tracker' = IF b \notin DOMAIN store \/ (store[b].aff # "" /\ store[b].allocs # {})
                        THEN Drop(tracker, b) ELSE tracker
    /\ UNCHANGED <<nodeMap, fullReq, pc, todo, toRel, failK, nfail>>

ISleep(d) ==
    /\ pc = "idle"
    /\ firstInv' = [k \in DOMAIN firstInv |-> [firstInv[k] EXCEPT !.t = Back(@, d)]]
    /\ firstEmpty' = [b \in DOMAIN firstEmpty |-> [firstEmpty[b] EXCEPT !.t = Back(@, d)]]
    /\ since' = [i \in DOMAIN since |-> [since[i] EXCEPT !.tb = Back(@, d), !.ta = Back(@, d)]]
    /\ ast' = [id \in DOMAIN ast |-> [ast[id] EXCEPT !.leakedAt = Back(@, d)]]
    /\ tracker' = [b \in DOMAIN tracker |-> Back(tracker[b], d)]
    /\ UNCHANGED <<knodes, pods, pcache, vms, store, view, seen, syncNo, cur, frozen>>
    /\ UNCHANGED <<nodeMap, leaks, dirty, fullReq, pc, todo, toRel, failK, nfail>>

IFreeze ==
    /\ pc = "idle" /\ Freeze
    /\ nodeMap' = nodeMap \cap knodes               \* the syncer has caught up on node resources too
    /\ UNCHANGED ictl

\* ---- allocationIsValid ---------------------------------------------------------------------------------
Valid(a, kn, P) ==
    CASE a.kind = "tunnel" -> kn # ""
      [] a.kind = "vm"     -> a.owner \in vms
      [] a.kind = "pod"    -> /\ a.owner \in DOMAIN P
                              /\ ~(P[a.owner].node # "" /\ kn # "" /\ P[a.owner].node # kn)
                              /\ (P[a.owner].ips = {} \/ a.ip \in P[a.owner].ips)
      [] OTHER             -> TRUE

\* ---- checkAllocations -----------------------------------------------------------------------------------
KnodeOf(n) == IF n \in nodeMap \/ n \in knodes THEN n ELSE ""
NodeExists(n) == KnodeOf(n) # "" /\ n \in knodes
AllocsOn(n) == { a \in ViewAllocs : a.node = n }
GraceOf(a) == IF a.kind = "vm" THEN GV ELSE G

\* the allocation object after the scan has looked at it
Scanned(a) ==
    LET s0 == [ast[Id(a)] EXCEPT !.knode = KnodeOf(a.node)]
        kn == KnodeOf(a.node)
    IN IF a.kind \notin {"pod", "vm"} THEN s0
       ELSE IF Valid(a, kn, pcache) THEN [s0 EXCEPT !.leakedAt = NoTime, !.conf = FALSE]
       ELSE IF ~NodeExists(a.node) THEN [s0 EXCEPT !.conf = TRUE]
       ELSE LET at == IF s0.leakedAt = NoTime THEN 0 ELSE s0.leakedAt
            IN [s0 EXCEPT !.leakedAt = at, !.conf = (s0.conf \/ (0 - at > GraceOf(a)))]
CanDelete(n) == \A a \in AllocsOn(n) : /\ a.kind \in {"pod", "vm", "tunnel"}
                                      /\ (a.kind \in {"pod", "vm"} => ~Valid(a, KnodeOf(n), pcache))

ISyncBegin(full, fk) ==
    /\ pc = "idle"
    /\ fk \in {"", "ips", "block", "host"} /\ (fk # "" => (nfail < MaxFail /\ ~frozen))
    /\ frozen => full
    /\ syncNo < MaxSyncs
    /\ SyncBegin(0, full)
    /\ LET doFull == full \/ fullReq
           scan == IF doFull THEN ({ seen[b].aff : b \in DOMAIN seen } \cup { a.node : a \in ViewAllocs }) \ {""}
                   ELSE dirty
           scannedIds == { Id(a) : a \in { x \in ViewAllocs : x.node \in scan } }
           released == { n \in scan : ~NodeExists(n) /\ CanDelete(n) }
           ast1 == [id \in DOMAIN ast |-> IF id \in scannedIds THEN Scanned(AllocOf(id)) ELSE ast[id]]
           \* tunnel addresses of nodes that are going to be released become confirmed leaks
           ast2 == [id \in DOMAIN ast1 |->
                      IF AllocOf(id).kind = "tunnel" /\ AllocOf(id).node \in released
                      THEN [ast1[id] EXCEPT !.conf = TRUE] ELSE ast1[id]]
           podvm == { id \in scannedIds : AllocOf(id).kind \in {"pod", "vm"} }
           \* index maintenance happens only on the not-valid branch
           notValid == { id \in podvm : ~Valid(AllocOf(id), KnodeOf(AllocOf(id).node), pcache) }
       IN /\ ast' = ast2
          /\ leaks' = ((leaks \ { id \in notValid : ~ast2[id].conf }) \cup { id \in notValid : ast2[id].conf })
                      \cup { id \in DOMAIN ast2 : AllocOf(id).kind = "tunnel" /\ AllocOf(id).node \in released }
          /\ dirty' = (dirty \ scan) \cup released
          /\ toRel' = released
    /\ fullReq' = FALSE
    /\ failK' = fk /\ nfail' = IF fk # "" THEN nfail + 1 ELSE nfail
    /\ pc' = "gc" /\ todo' = {}
    /\ UNCHANGED <<nodeMap, tracker>>

\* ---- garbageCollectKnownLeaks ---------------------------------------------------------------------------------
\* Two passes (this is the repaired order, hooks/fix-C23-handle-all-or-none.patch): first the final re-validation
\* of every entry of the confirmedLeaks index (cache when the node is gone, live API otherwise; a valid one is
\* resurrected and loses its confirmed flag), then the all-or-none handle check on the settled flags.  The
\* original code interleaved both in map-iteration order, which made the handle check order-dependent.
GcResult ==
    LET FinalValid(id) == LET o == ast[id] IN Valid(AllocOf(id), o.knode, IF o.knode = "" THEN pcache ELSE pods)
        res == { id \in leaks : FinalValid(id) }
        ast1 == [id \in DOMAIN ast |-> IF id \in res THEN [ast[id] EXCEPT !.leakedAt = NoTime, !.conf = FALSE] ELSE ast[id]]
        rest == leaks \ res
        ok == { id \in rest : \A m \in DOMAIN ast1 : m.handle = id.handle => ast1[m].conf }
    IN [ast |-> ast1, leaks |-> rest,
        opts |-> { [ip |-> id.ip, handle |-> id.handle, seq |-> ast1[id].seq] : id \in ok }]

IGc ==
    /\ pc = "gc"
    /\   LET r == GcResult
             fail == failK = "ips"
             rel == Released(r.opts, fail)
             relIds == { [handle |-> o.handle, ip |-> o.ip] : o \in rel }
         IN IF r.opts = {}
            THEN /\ ast' = r.ast /\ leaks' = r.leaks /\ dirty' = dirty
                 /\ pc' = "blocks"
                 /\ todo' = { b \in DOMAIN seen : seen[b].aff # "" /\ seen[b].allocs = {} }
                 /\ UNCHANGED gvars
            ELSE /\ ReleaseIPsEffect(r.opts, fail)
                 /\ ast' = [id \in (DOMAIN r.ast) \ relIds |-> r.ast[id]]
                 /\ leaks' = r.leaks \ relIds
                 /\ dirty' = dirty \cup ({ AllocOf(id).node : id \in relIds } \ {""})
                 /\ pc' = IF fail THEN "end" ELSE "blocks"          \* an error aborts the sync
                 /\ todo' = IF fail THEN {} ELSE { b \in DOMAIN seen : seen[b].aff # "" /\ seen[b].allocs = {} }
    /\ UNCHANGED <<nodeMap, fullReq, tracker, toRel, failK, nfail>>

\* ---- releaseUnusedBlocks: one entry of emptyBlocks per step -----------------------------------------------------
BlocksOfNode(n) == { c \in DOMAIN seen : seen[c].aff = n }
WouldRelease(b) ==
    /\ b \in DOMAIN seen
    /\ Cardinality(BlocksOfNode(seen[b].aff)) > 1
    /\ b \in DOMAIN tracker /\ 0 - tracker[b] > G
IBlock(b) ==
    /\ pc = "blocks" /\ b \in todo
    /\ todo' = todo \ {b}
    /\ IF b \notin DOMAIN seen \/ Cardinality(BlocksOfNode(seen[b].aff)) <= 1
         THEN UNCHANGED <<gvars, tracker, ast>>
       ELSE IF b \notin DOMAIN tracker
         THEN tracker' = Put(tracker, b, 0) /\ UNCHANGED <<gvars, ast>>
       ELSE IF ~(0 - tracker[b] > G)
         THEN UNCHANGED <<gvars, tracker, ast>>
       ELSE /\ ReleaseBlockEffect(b, failK = "block")
            /\ IF BlockReleasable(b, failK = "block")
                 THEN tracker' = Drop(tracker, b) /\ ast' = ast
                 ELSE UNCHANGED <<tracker, ast>>
    /\ UNCHANGED <<nodeMap, leaks, dirty, fullReq, pc, toRel, failK, nfail>>
IBlocksDone ==
    /\ pc = "blocks" /\ todo = {}
    /\ pc' = "nodes"
    /\ UNCHANGED gvars /\ UNCHANGED <<nodeMap, ast, leaks, dirty, fullReq, tracker, todo, toRel, failK, nfail>>

\* ---- releaseNodes -------------------------------------------------------------------------------------------------
INode(n) ==
    /\ pc = "nodes" /\ n \in toRel
    /\ toRel' = toRel \ {n}
    /\ ReleaseHostEffect(n, failK = "host")
    /\ dirty' = IF failK = "host" \/ HostLeftovers(n) # {} THEN dirty ELSE dirty \ {n}
    /\ UNCHANGED <<nodeMap, ast, leaks, fullReq, tracker, pc, todo, failK, nfail>>
INodesDone ==
    /\ pc = "nodes" /\ toRel = {}
    /\ pc' = "end"
    /\ UNCHANGED gvars /\ UNCHANGED <<nodeMap, ast, leaks, dirty, fullReq, tracker, todo, toRel, failK, nfail>>

LastN(s, n) == IF Len(s) <= n THEN s ELSE SubSeq(s, Len(s) - n + 1, Len(s))
ISyncEnd ==
    /\ pc = "end"
    /\ cur' = NoSync
    /\ since' = IF frozen THEN LastN(Append(since, [tb |-> cur.tb, ta |-> 0, full |-> cur.full, clean |-> cur.clean]), 3)
                ELSE since
    /\ UNCHANGED <<knodes, pods, pcache, vms, store, view, seen, firstInv, firstEmpty, syncNo, frozen>>
    /\ pc' = "idle" /\ failK' = "" /\ toRel' = {} /\ todo' = {}
    /\ UNCHANGED <<nodeMap, ast, leaks, dirty, fullReq, tracker, nfail>>

IPs == UNION { IPsOf(b) : b \in BlockIds }
INext ==
    \/ \E n \in Nodes : INodeAdd(n) \/ \E d \in BOOLEAN : INodeDel(n, d)
    \/ \E p \in PodNames, n \in Nodes, ips \in PodIPChoices, c \in BOOLEAN : IPodSet(p, n, ips, c)
    \/ \E p \in PodNames, c \in BOOLEAN : IPodDel(p, c)
    \/ \E p \in PodNames : IPodCacheSync(p)
    \/ \E v \in VMNames, e \in BOOLEAN : IVMSet(v, e)
    \/ \E b \in BlockIds, n \in Nodes : IBlockCreate(b, n)
    \/ \E b \in BlockIds : IBlockDelete(b) \/ IDeliver(b) \/ IBlock(b)
    \/ \E b \in BlockIds : \E ip \in IPsOf(b), ch \in AllocChoices, n \in Nodes : IAssign(b, ip, ch, n)
    \/ \E b \in BlockIds : \E ip \in IPsOf(b) : IFree(b, ip)
    \/ ISleep(ShortSleep) \/ (VMNames # {} /\ ISleep(LongSleep))
    \/ \E full \in BOOLEAN, fk \in {"", "ips", "block", "host"} : ISyncBegin(full, fk)
    \/ IGc \/ IBlocksDone \/ INodesDone \/ ISyncEnd \/ IFreeze
    \/ \E n \in Nodes : INode(n)

\* ---- what TLC checks ---------------------------------------------------------------------------------------
CallsOK ==
    /\ pc = "gc" => (GcResult.opts # {} => ReleaseIPsOK(GcResult.opts, 0))
    /\ pc = "blocks" => \A b \in todo : WouldRelease(b) => ReleaseBlockOK(b, seen[b].aff, TRUE, 0)
    /\ pc = "nodes" => \A n \in toRel : ReleaseHostOK(n, TRUE)
Live == pc = "idle" => FinalOK
Consistent ==
    /\ DOMAIN ast = { Id(a) : a \in ViewAllocs }
    /\ \A id \in DOMAIN ast : ast[id].seq = AllocOf(id).seq
    /\ leaks \subseteq DOMAIN ast
    /\ DOMAIN tracker \subseteq DOMAIN seen
    /\ DOMAIN view = DOMAIN seen
Bound == syncNo <= MaxSyncs
=============================================================================
