------------------------------- MODULE Gen_GC -------------------------------
(* Behaviour generator for C23 (leg A): world histories x sync points x time.  The environment actions of
   I_GC append the operation to `hist`; the controller's internal steps (which the real code decides)
   do not.  The driver replays the operations on the real controller; operations that do not apply to
   the world the real code produced are skipped.
   - Gen_cover.cfg : exhaustive, VIEW = everything but hist; one behaviour per distinct state in which a
                     sync has just completed (printed on the ISyncEnd edge)
   - Gen_sim*.cfg  : -simulate random walks                                                        *)
EXTENDS MC_I_GC, Json

CONSTANTS SimLen
VARIABLE hist
allvars == <<gvars, ivars, hist>>

GInit == IInit /\ hist = <<>>
Step(a, r) == a /\ hist' = Append(hist, r)
Quiet(a) == a /\ UNCHANGED hist
SetToSeq(S) == CHOOSE s \in [1..Cardinality(S) -> S] : \A i, j \in 1..Cardinality(S) : i # j => s[i] # s[j]

GNext ==
  \/ /\ Len(hist) = SimLen /\ pc = "idle" /\ hist' = Append(hist, [op |-> "end"]) /\ UNCHANGED <<gvars, ivars>>
  \/ /\ Len(hist) < SimLen
     /\ \/ \E n \in Nodes : Step(INodeAdd(n), [op |-> "node_add", n |-> n])
        \/ \E n \in Nodes, d \in BOOLEAN : Step(INodeDel(n, d), [op |-> "node_del", n |-> n, deliver |-> d])
        \/ \E p \in PodNames, n \in Nodes, ips \in PodIPChoices, c \in BOOLEAN :
              Step(IPodSet(p, n, ips, c), [op |-> "pod_set", p |-> p, node |-> n, ips |-> SetToSeq(ips), cached |-> c])
        \/ \E p \in PodNames, c \in BOOLEAN : Step(IPodDel(p, c), [op |-> "pod_del", p |-> p, cached |-> c])
        \/ \E p \in PodNames : Step(IPodCacheSync(p), [op |-> "pod_cache_sync", p |-> p])
        \/ \E v \in VMNames, e \in BOOLEAN : Step(IVMSet(v, e), [op |-> "vm_set", v |-> v, exists |-> e])
        \/ \E b \in BlockIds, n \in Nodes : Step(IBlockCreate(b, n), [op |-> "block_create", b |-> b, aff |-> n])
        \/ \E b \in BlockIds : Step(IBlockDelete(b), [op |-> "block_delete", b |-> b])
        \/ \E b \in BlockIds : Step(IDeliver(b), [op |-> "deliver", b |-> b])
        \/ \E b \in BlockIds : \E ip \in IPsOf(b), ch \in AllocChoices, n \in Nodes :
              Step(IAssign(b, ip, ch, n), [op |-> "assign", b |-> b, ip |-> ip, handle |-> HandleFor(ch, n),
                                           kind |-> ch.kind, owner |-> ch.owner, node |-> n])
        \/ \E b \in BlockIds : \E ip \in IPsOf(b) : Step(IFree(b, ip), [op |-> "free", b |-> b, ip |-> ip])
        \/ Step(ISleep(ShortSleep), [op |-> "sleep", d |-> "s"])
        \/ (VMNames # {} /\ Step(ISleep(LongSleep), [op |-> "sleep", d |-> "l"]))
        \/ \E full \in BOOLEAN, fk \in {"", "ips", "block", "host"} :
              Step(ISyncBegin(full, fk), [op |-> "sync", full |-> full, fail |-> fk])
  \/ Quiet(IGc) \/ Quiet(IBlocksDone) \/ Quiet(INodesDone) \/ Quiet(ISyncEnd)
  \/ \E b \in BlockIds : Quiet(IBlock(b))
  \/ \E n \in Nodes : Quiet(INode(n))

GView == <<gvars, ivars>>
EmitEdge == (pc = "end" /\ pc' = "idle") => PrintT("BEH " \o ToJson(hist'))
EmitAtLen == Len(hist) = SimLen + 1 => PrintT("BEH " \o ToJson(hist))
=============================================================================
