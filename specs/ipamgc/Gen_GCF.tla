------------------------------- MODULE Gen_GCF -------------------------------
(* Gen_GC restricted to histories in which an injected IPAM failure actually hit a call, so that a confirmed
   leak stayed queued across syncs (Gen_cover_tunnel.cfg: one node that is deleted and re-registers, its tunnel
   address, a failing ReleaseIPs, up to 3 syncs - exhaustively).                                          *)
EXTENDS Gen_GC

\* `hf` remembers that an injected IPAM failure actually hit a call (so a
\* confirmed leak stayed queued); only histories in which that happened are printed.
VARIABLE hf
GInitF == GInit /\ hf = FALSE
GNextF == GNext /\ hf' = (hf \/ (pc = "end" /\ ~cur.clean))
GViewF == <<gvars, ivars, hf>>
EmitEdgeFail == (pc = "end" /\ pc' = "idle" /\ hf') => PrintT("BEH " \o ToJson(hist'))
=============================================================================
