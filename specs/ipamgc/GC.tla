--------------------------------- MODULE GC ---------------------------------
(* C23 property layer (P_GC): the IPAM garbage collector of kube-controllers
   (kube-controllers/pkg/controllers/node/ipam.go, ipam_allocation.go) judged from outside.

   State = the TRUE world + a conservative shadow of what the controller can know.
     knodes   set of Kubernetes nodes that exist (the node informer cache equals the truth)
     pods     pod name |-> [node, ips]   as the API server holds them (truth)
     pcache   the same, as the pod informer cache holds them (may lag the truth)
     vms      set of existing virtual machines (cache = truth)
     store    block |-> [aff, allocs, seqno]   the IPAM datastore (truth)
     seen     block |-> the same shape: the last version DELIVERED to the controller by the syncer
     view     seen, minus the allocations the controller itself released successfully (it forgets
              those at once, before the syncer reports them)
     firstInv allocation key |-> start time of the earliest sync since which the controller may
              have considered it a leak candidate (see SyncBegin); firstEmpty likewise per block
     syncNo, cur   number of syncs begun; the running sync [tb, full, k] or NoSync
     frozen, since liveness bookkeeping: the syncs completed since the world was frozen
   An allocation is [ip, handle, seq, kind, owner, node], kind in pod | vm | tunnel | other.

   Time: integers on the HARNESS's monotonic clock.  Every judgement is conservative in the direction
   that favours the controller: a release is "too early" only if even the longest interval that the
   controller's own clock can have measured (from the START of the first sync that could observe the
   leak to a reading taken AFTER the release call was made) does not exceed the grace period.       *)
EXTENDS Integers, FiniteSets, Sequences, TLC

CONSTANTS G,       \* leak grace period for pod allocations
          GV       \* grace period for VM allocations (max(vmRecreationGracePeriod, G))

VARIABLES knodes, pods, pcache, vms, store, view, seen, firstInv, firstEmpty, syncNo, cur, frozen, since
gvars == <<knodes, pods, pcache, vms, store, view, seen, firstInv, firstEmpty, syncNo, cur, frozen, since>>

NoSync == [k |-> 0]
Key(a) == [ip |-> a.ip, handle |-> a.handle, seq |-> a.seq]
Allocs(f) == UNION { f[b].allocs : b \in DOMAIN f }
ViewAllocs == Allocs(view)
StoreAllocs == Allocs(store)
Restrict(f, S) == [x \in (DOMAIN f) \cap S |-> f[x]]
Drop(f, x) == [y \in (DOMAIN f) \ {x} |-> f[y]]
Put(f, x, v) == [y \in (DOMAIN f) \cup {x} |-> IF y = x THEN v ELSE f[y]]

\* ---- does the owner justify the allocation? (narrow: only clear-cut justification counts) ----------
Justified(a, P, V, N) ==
    CASE a.kind = "pod"    -> /\ a.owner \in DOMAIN P
                              /\ P[a.owner].node = a.node
                              /\ (P[a.owner].ips = {} \/ a.ip \in P[a.owner].ips)
      [] a.kind = "vm"     -> a.owner \in V
      [] a.kind = "tunnel" -> a.node \in N
      [] OTHER             -> TRUE          \* unknown owner: cannot be proven a leak, must be kept
JustTruth(a) == Justified(a, pods, vms, knodes)
JustCache(a) == Justified(a, pcache, vms, knodes)
Grace(a) == IF a.kind = "vm" THEN GV ELSE G
NodeGone(a) == a.node # "" /\ a.node \notin knodes

Init ==
    /\ knodes = {} /\ pods = << >> /\ pcache = << >> /\ vms = {}
    /\ store = << >> /\ view = << >> /\ seen = << >> /\ firstInv = << >> /\ firstEmpty = << >>
    /\ syncNo = 0 /\ cur = NoSync /\ frozen = FALSE /\ since = << >>

\* ---- environment ----------------------------------------------------------------------------------
ctl == <<view, seen, firstInv, firstEmpty, syncNo, cur, frozen, since>>
NodeAdd(n) == n \notin knodes /\ knodes' = knodes \cup {n}
              /\ UNCHANGED <<pods, pcache, vms, store>> /\ UNCHANGED ctl
\* a node is deleted only once the pod cache has caught up on the pods of that node (assumption E2)
NodeDel(n) == /\ n \in knodes
              /\ \A p \in DOMAIN pods : pods[p].node = n => (p \in DOMAIN pcache /\ pcache[p] = pods[p])
              /\ knodes' = knodes \ {n}
              /\ UNCHANGED <<pods, pcache, vms, store>> /\ UNCHANGED ctl
PodSet(p, node, ips, cached) ==
    /\ pods' = Put(pods, p, [node |-> node, ips |-> ips])
    /\ pcache' = IF cached THEN Put(pcache, p, [node |-> node, ips |-> ips]) ELSE pcache
    /\ (node \in knodes \/ cached)
    /\ UNCHANGED <<knodes, vms, store>> /\ UNCHANGED ctl
PodDel(p, cached) ==
    /\ p \in DOMAIN pods
    /\ pods' = Drop(pods, p)
    /\ pcache' = IF cached THEN Drop(pcache, p) ELSE pcache
    /\ UNCHANGED <<knodes, vms, store>> /\ UNCHANGED ctl
PodCacheSync(p) ==
    /\ pcache' = IF p \in DOMAIN pods THEN Put(pcache, p, pods[p]) ELSE Drop(pcache, p)
    /\ UNCHANGED <<knodes, pods, vms, store>> /\ UNCHANGED ctl
VMSet(v, exists) ==
    /\ vms' = IF exists THEN vms \cup {v} ELSE vms \ {v}
    /\ UNCHANGED <<knodes, pods, pcache, store>> /\ UNCHANGED ctl

world == <<knodes, pods, pcache, vms>>
BlockCreate(b, aff) ==
    /\ b \notin DOMAIN store
    /\ store' = Put(store, b, [aff |-> aff, allocs |-> {}, seqno |-> 0])
    /\ UNCHANGED world /\ UNCHANGED ctl
BlockDelete(b) ==
    /\ b \in DOMAIN store /\ store[b].allocs = {}
    /\ store' = Drop(store, b)
    /\ UNCHANGED world /\ UNCHANGED ctl
\* an address is assigned: it takes the block's next sequence number
Assign(b, ip, handle, kind, owner, node) ==
    /\ b \in DOMAIN store
    /\ \A a \in StoreAllocs : a.ip # ip
    /\ LET s == store[b].seqno + 1
           a == [ip |-> ip, handle |-> handle, seq |-> s, kind |-> kind, owner |-> owner, node |-> node]
       IN store' = [store EXCEPT ![b].allocs = @ \cup {a}, ![b].seqno = s]
    /\ UNCHANGED world /\ UNCHANGED ctl
Free(b, ip) ==
    /\ b \in DOMAIN store /\ \E a \in store[b].allocs : a.ip = ip
    /\ store' = [store EXCEPT ![b].allocs = { a \in @ : a.ip # ip }, ![b].seqno = @ + 1]
    /\ UNCHANGED world /\ UNCHANGED ctl

\* the syncer delivers the current state of block b (an update or a delete)
Deliver(b) ==
    /\ view' = IF b \in DOMAIN store THEN Put(view, b, store[b]) ELSE Drop(view, b)
    /\ seen' = IF b \in DOMAIN store THEN Put(seen, b, store[b]) ELSE Drop(seen, b)
    /\ firstInv' = Restrict(firstInv, { Key(a) : a \in Allocs(view') })
    /\ firstEmpty' = Restrict(firstEmpty, DOMAIN view')
    /\ UNCHANGED world /\ UNCHANGED <<store, syncNo, cur, frozen, since>>

\* the syncer reports that the incarnation of block b the controller knows is gone (watch semantics:
\* the deletion of a block is delivered before a re-created block of the same CIDR)
DeliverGone(b) ==
    /\ b \in DOMAIN view
    /\ view' = Drop(view, b) /\ seen' = Drop(seen, b)
    /\ firstInv' = Restrict(firstInv, { Key(a) : a \in Allocs(view') })
    /\ firstEmpty' = Restrict(firstEmpty, DOMAIN view')
    /\ UNCHANGED world /\ UNCHANGED <<store, syncNo, cur, frozen, since>>

\* ---- a sync of the controller ------------------------------------------------------------------------
\* tb is read by the harness before it calls syncIPAM.  The scan of a sync observes the caches; an
\* allocation it could see as unjustified gets (keeps) the earliest possible candidate time, and a FULL
\* sync that could only see it justified clears it (the timer must restart).
SyncBegin(tb, full) ==
    /\ cur = NoSync
    /\ syncNo' = syncNo + 1
    /\ cur' = [k |-> syncNo + 1, tb |-> tb, full |-> full, clean |-> TRUE]
    /\ firstInv' =
         LET keep == { a \in ViewAllocs : \/ ~JustCache(a)
                                         \/ (Key(a) \in DOMAIN firstInv /\ ~full) }
             AllocOfKey(k) == CHOOSE a \in keep : Key(a) = k
         IN [k \in { Key(a) : a \in keep } |->
                [t |-> IF k \in DOMAIN firstInv THEN firstInv[k].t ELSE tb,
                 \* the node was seen gone while the allocation was a candidate: no grace period applied
                 gone |-> (k \in DOMAIN firstInv /\ firstInv[k].gone) \/ NodeGone(AllocOfKey(k))]]
    /\ firstEmpty' =
         LET emp == { b \in DOMAIN view : view[b].aff # "" /\ view[b].allocs = {} }
         IN [b \in emp \cup ((DOMAIN firstEmpty) \cap (DOMAIN view)) |->
                IF b \in DOMAIN firstEmpty THEN firstEmpty[b] ELSE [t |-> tb, k |-> syncNo + 1]]
    /\ UNCHANGED world /\ UNCHANGED <<store, view, seen, frozen, since>>

\* -- ReleaseIPs(opts): opts is a set of [ip, handle, seq] (handle "" / seq -1 when not supplied);
\*    tc is read by the harness inside the call.
Timely(a, tc) ==
    \/ NodeGone(a)                               \* no grace period applies once the node is gone
    \/ Key(a) \in DOMAIN firstInv /\ firstInv[Key(a)].gone    \* ... or was gone when a sync judged it
    \/ Key(a) \in DOMAIN firstInv /\ tc - firstInv[Key(a)].t > Grace(a)
ReleaseOptOK(o, opts, tc) ==
    \E a \in ViewAllocs :
        /\ Key(a) = o                            \* carries the handle and sequence number it observed
        /\ ~JustTruth(a)                         \* at the time of release the owner does not justify it
        /\ Timely(a, tc)                         \* the applicable grace period has certainly elapsed
        /\ \A m \in ViewAllocs : m.handle = a.handle => Key(m) \in opts     \* all of the handle or none
ReleaseIPsOK(opts, tc) == \A o \in opts : ReleaseOptOK(o, opts, tc)

\* what the datastore does with the request: an address is released when it is allocated with that
\* handle and sequence number, reported as released also when it is not allocated at all
Released(opts, fail) ==
    IF fail THEN {}
    ELSE { o \in opts : \A a \in StoreAllocs : a.ip = o.ip => Key(a) = o }
ReleaseIPsEffect(opts, fail) ==
    LET rel == Released(opts, fail) IN
    /\ store' = [b \in DOMAIN store |->
                   IF \E a \in store[b].allocs : Key(a) \in rel
                   THEN [store[b] EXCEPT !.allocs = { a \in @ : Key(a) \notin rel }, !.seqno = @ + 1]
                   ELSE store[b]]
    /\ view' = [b \in DOMAIN view |-> [view[b] EXCEPT !.allocs = { a \in @ : Key(a) \notin rel }]]
    /\ firstInv' = Restrict(firstInv, { Key(a) : a \in Allocs(view') })
    /\ cur' = IF fail THEN [cur EXCEPT !.clean = FALSE] ELSE cur
    /\ UNCHANGED world /\ UNCHANGED <<seen, firstEmpty, syncNo, frozen, since>>

\* -- ReleaseBlockAffinity(block, mustBeEmpty)
ReleaseBlockOK(b, host, mbe, tc) ==
    /\ mbe
    /\ b \in DOMAIN view /\ host # "" /\ view[b].aff = host
    /\ view[b].allocs = {}                                           \* seen empty
    /\ Cardinality({ c \in DOMAIN view : view[c].aff = host }) >= 2  \* never a node's last block
    /\ b \in DOMAIN firstEmpty
    /\ firstEmpty[b].k < cur.k                                       \* a second observation ...
    /\ tc - firstEmpty[b].t > G                                      \* ... spanning the grace period
BlockReleasable(b, fail) == ~fail /\ b \in DOMAIN store /\ store[b].allocs = {}
ReleaseBlockEffect(b, fail) ==
    /\ IF BlockReleasable(b, fail)
         THEN /\ store' = Drop(store, b) /\ view' = Drop(view, b) /\ seen' = Drop(seen, b)
              /\ firstEmpty' = Drop(firstEmpty, b)
              /\ firstInv' = Restrict(firstInv, { Key(a) : a \in Allocs(view') })
         ELSE UNCHANGED <<store, view, seen, firstEmpty, firstInv>>
    /\ cur' = IF fail THEN [cur EXCEPT !.clean = FALSE] ELSE cur
    /\ UNCHANGED world /\ UNCHANGED <<syncNo, frozen, since>>

\* -- ReleaseHostAffinities(host, mustBeEmpty): the clean-up of a node that is gone
ReleaseHostOK(host, mbe) == mbe /\ host \notin knodes
HostLeftovers(host) == { b \in DOMAIN store : store[b].aff = host /\ store[b].allocs # {} }
ReleaseHostEffect(host, fail) ==
    /\ store' = IF fail THEN store
                ELSE Restrict(store, { b \in DOMAIN store : ~(store[b].aff = host /\ store[b].allocs = {}) })
    /\ cur' = IF fail THEN [cur EXCEPT !.clean = FALSE] ELSE cur
    /\ UNCHANGED world /\ UNCHANGED <<view, seen, firstInv, firstEmpty, syncNo, frozen, since>>

SyncEnd(ta) ==
    /\ cur # NoSync
    /\ cur' = NoSync
    /\ since' = IF frozen THEN Append(since, [tb |-> cur.tb, ta |-> ta, full |-> cur.full, clean |-> cur.clean])
                ELSE since
    /\ UNCHANGED world /\ UNCHANGED <<store, view, seen, firstInv, firstEmpty, syncNo, frozen>>

\* ---- bookkeeping: the controller's maps are exactly what follows from the blocks it has seen ---------
ViewBlocks == DOMAIN seen
AllocRows == UNION { { [block |-> b, ip |-> a.ip, handle |-> a.handle, seq |-> a.seq] : a \in view[b].allocs } : b \in DOMAIN view }
AffRows == { [block |-> b, node |-> seen[b].aff] : b \in { c \in DOMAIN seen : seen[c].aff # "" } }
EmptyRows == { [block |-> b, node |-> seen[b].aff] : b \in { c \in DOMAIN seen : seen[c].aff # "" /\ seen[c].allocs = {} } }
ByNodeRows == { [node |-> a.node, ip |-> a.ip, handle |-> a.handle] : a \in { x \in ViewAllocs : x.node # "" } }
ByHandleRows == { [handle |-> a.handle, ip |-> a.ip] : a \in ViewAllocs }
BookkeepingOK(d) ==
    /\ d.blocks = ViewBlocks
    /\ d.allocs = AllocRows
    /\ d.nodesByBlock = AffRows /\ d.blocksByNode = AffRows
    /\ d.empty = EmptyRows
    /\ d.byNode = ByNodeRows
    /\ d.byHandle = ByHandleRows
    /\ d.confirmed \subseteq { [handle |-> a.handle, ip |-> a.ip] : a \in ViewAllocs }

\* ---- liveness, in the only form claimed ----------------------------------------------------------------
\* Freeze: caches and deliveries have caught up; from now on only sleeps, full syncs and deliveries.
CaughtUp == \A b \in (DOMAIN store) \cup (DOMAIN view) :
                b \in DOMAIN store /\ b \in DOMAIN view /\ view[b] = store[b] /\ seen[b] = store[b]
Freeze ==
    /\ ~frozen /\ cur = NoSync /\ pcache = pods
    /\ CaughtUp
    /\ frozen' = TRUE /\ since' = << >>
    /\ UNCHANGED world /\ UNCHANGED <<store, view, seen, firstInv, firstEmpty, syncNo, cur>>

Leaked0(a) == /\ a.node # ""
              /\ \/ a.kind = "pod" /\ a.owner \notin DOMAIN pods
                 \/ a.kind = "vm" /\ a.owner \notin vms
CertainlyLeaked(a) ==
    \/ /\ a.kind \in {"pod", "vm"}
       /\ \A m \in ViewAllocs : m.handle = a.handle => Leaked0(m)
    \/ /\ a.kind = "tunnel" /\ NodeGone(a)
       /\ \A m \in ViewAllocs : (m.node = a.node /\ m # a) => (m.kind = "tunnel" \/ Leaked0(m))
       /\ \A m \in ViewAllocs : m.handle = a.handle => (m.kind = "tunnel" /\ m.node = a.node)
Spaced(g) ==
    LET n == Len(since) IN
    /\ n >= 3
    /\ \A i \in (n - 2)..n : since[i].full /\ since[i].clean
    /\ since[n - 1].tb - since[n - 2].ta > g
    /\ since[n].tb - since[n - 1].ta > g
\* after the world is frozen and 3 clean full syncs separated by more than the grace period have run,
\* no certainly-leaked allocation remains
FinalOK ==
    (frozen /\ cur = NoSync /\ CaughtUp)
        => \A a \in ViewAllocs : ~(CertainlyLeaked(a) /\ Spaced(Grace(a)))
=============================================================================
