CONSTANTS
  G = 1
  GV = 9
  Nodes = {"n1"}
  PodNames = {}
  VMNames = {}
  BlockIds = {"10.0.1.0/30", "10.0.2.0/30"}
  IPsOf <- IPsNone
  PodIPChoices <- IPChoices1
  AllocChoices <- NoChoices
  Cap = 6
  ShortSleep = 3
  LongSleep = 27
  MaxSyncs = 4
  MaxSeq = 2
  MaxFail = 0
INIT IInit
NEXT INext
INVARIANTS CallsOK Live Consistent
CONSTRAINT StateBound
CHECK_DEADLOCK FALSE
