CONSTANTS
  G = 1
  GV = 9
  Nodes = {"n1"}
  PodNames = {}
  VMNames = {}
  BlockIds = {"10.0.1.0/30"}
  IPsOf <- IPsTiny
  PodIPChoices <- IPChoices1
  AllocChoices <- TunnelChoices
  Cap = 6
  ShortSleep = 3
  LongSleep = 27
  MaxSyncs = 3
  MaxSeq = 2
  MaxFail = 1
  SimLen = 60
INIT GInitF
NEXT GNextF
VIEW GViewF
ACTION_CONSTRAINT EmitEdgeFail
CONSTRAINT StateBound
CHECK_DEADLOCK FALSE
