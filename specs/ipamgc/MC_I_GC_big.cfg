CONSTANTS
  G = 1
  GV = 9
  Nodes = {"n1"}
  PodNames = {"p1"}
  VMNames = {}
  BlockIds = {"10.0.1.0/30", "10.0.2.0/30"}
  IPsOf <- IPsTiny
  PodIPChoices <- IPChoices1
  AllocChoices <- QuickChoices
  Cap = 12
  ShortSleep = 3
  LongSleep = 27
  MaxSyncs = 3
  MaxSeq = 2
  MaxFail = 1
INIT IInit
NEXT INext
INVARIANTS CallsOK Live Consistent
CONSTRAINT StateBound
CHECK_DEADLOCK FALSE
