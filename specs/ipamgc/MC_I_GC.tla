------------------------------- MODULE MC_I_GC -------------------------------
(* Model values for the exhaustive design runs of I_GC. *)
EXTENDS I_GC

B1 == "10.0.1.0/30"
B2 == "10.0.2.0/30"
IPsTiny(b) == IF b = B1 THEN {"10.0.1.1"} ELSE {}
IPsTwo(b) == IF b = B1 THEN {"10.0.1.1", "10.0.1.2"} ELSE {}
IPsBoth(b) == IF b = B1 THEN {"10.0.1.1"} ELSE {"10.0.2.1"}

ChP1 == [handle |-> "k8s-pod-network.p1", kind |-> "pod", owner |-> "p1"]
ChP2 == [handle |-> "k8s-pod-network.p2", kind |-> "pod", owner |-> "p2"]
ChV1 == [handle |-> "k8s-pod-network.vm-v1", kind |-> "vm", owner |-> "v1"]
ChT  == [handle |-> "vxlan-tunnel-addr", kind |-> "tunnel", owner |-> ""]
ChO  == [handle |-> "misc", kind |-> "other", owner |-> ""]

IPChoices1 == {{}, {"10.0.1.1"}}
IPChoices2 == {{}, {"10.0.1.1"}, {"10.0.1.1", "10.0.1.2"}}
IPChoicesB == {{}, {"10.0.1.1"}, {"10.0.1.1", "10.0.2.1"}}

NoChoices == {}
TunnelChoices == {ChT}
IPsSim(b) == IF b = B1 THEN {"10.0.1.1", "10.0.1.2"} ELSE {"10.0.2.1"}
ChP1b == [handle |-> "k8s-pod-network.p1-b", kind |-> "pod", owner |-> "p1"]
VMChoices == {ChP1, ChV1, ChT}
IPsNone(b) == {}
QuickChoices == {ChP1}
MidChoices == {ChP1, ChP2, ChP1b, ChT, ChO}
FullChoices == {ChP1, ChP2, ChV1, ChT, ChO}
StateBound == syncNo <= MaxSyncs /\ \A b \in DOMAIN store : store[b].seqno <= MaxSeq
==============================================================================
