CONSTANTS
  G = 1
  GV = 9
  Nodes = {"n1"}
  PodNames = {"p1"}
  VMNames = {"v1"}
  BlockIds = {"10.0.1.0/30", "10.0.2.0/30"}
  IPsOf <- IPsSim
  PodIPChoices <- IPChoicesB
  AllocChoices <- VMChoices
  Cap = 60
  ShortSleep = 3
  LongSleep = 27
  MaxSyncs = 1000
  MaxSeq = 1000
  MaxFail = 1
  SimLen = 40
INIT GInit
NEXT GNext
INVARIANT EmitAtLen
CHECK_DEADLOCK FALSE
