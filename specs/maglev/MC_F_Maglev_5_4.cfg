CONSTANTS
  M = 5
  MaxN = 4
INIT FInit
NEXT FNext
INVARIANT FTableOK
CHECK_DEADLOCK FALSE
