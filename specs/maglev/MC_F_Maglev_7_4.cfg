CONSTANTS
  M = 7
  MaxN = 4
INIT FInit
NEXT FNext
INVARIANT FTableOK
CHECK_DEADLOCK FALSE
