CONSTANTS
  M = 5
  MaxN = 4
INIT GInit
NEXT GNext
ACTION_CONSTRAINT EmitEdge
CHECK_DEADLOCK FALSE
