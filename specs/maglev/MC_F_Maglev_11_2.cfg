CONSTANTS
  M = 11
  MaxN = 2
INIT FInit
NEXT FNext
INVARIANT FTableOK
CHECK_DEADLOCK FALSE
