CONSTANTS
  M = 11
  MaxN = 3
INIT FInit
NEXT FNext
INVARIANT FTableOK
CHECK_DEADLOCK FALSE
