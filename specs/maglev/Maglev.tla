------------------------------- MODULE Maglev -------------------------------
(* C33: Maglev lookup tables (felix/bpf/consistenthash).

   Property layer (the only source of verdicts) - for a table of size M generated for the backend set B:
     Full      every one of the M entries holds a backend of B (no empty entry); no table for B = {}
     Balanced  every backend's share is floor(M/N) or ceil(M/N), N = |B|   (the Maglev bound)
     SameEverywhere  the table is a function of (B, M) only: not of the order in which the backends were
                     added, nor of duplicated additions (checked through a memo in the trace spec)
   The CPU-byte-order clause of C33 is NOT decided here (see notes/C33.md).

   Implementation-shaped part (design leg, generator, drift): the Maglev population algorithm for
   backends 1..N (ids in the order of their names) with per-backend (offset, skip).                 *)
EXTENDS Integers, FiniteSets, Sequences, TLC

\* ---- property layer ------------------------------------------------------------------------------
Floor(M, N) == M \div N
Ceil(M, N) == (M + N - 1) \div N
ShareOK(M, N, c) == c = Floor(M, N) \/ c = Ceil(M, N)
\* counts: a function backend |-> number of entries (absent = 0); nils = number of empty entries
TableOK(M, B, len, nils, cnt) ==
    IF B = {} THEN len = 0
    ELSE /\ len = M /\ nils = 0
         /\ DOMAIN cnt \subseteq B
         /\ \A b \in B : ShareOK(M, Cardinality(B), IF b \in DOMAIN cnt THEN cnt[b] ELSE 0)
CountsOf(lut) == [b \in { lut[i] : i \in 1..Len(lut) } |-> Cardinality({ i \in 1..Len(lut) : lut[i] = b })]

\* ---- the population algorithm ---------------------------------------------------------------------
\* preference list of a backend: position j (0-based) prefers slot (offset + j*skip) mod M
Pref(o, s, M, j) == (o + j * s) % M
\* first preference index >= from whose slot is still free in lut (a function 0..M-1 -> backend or 0); M if none
RECURSIVE FirstFree(_, _, _, _, _)
FirstFree(lut, o, s, M, from) ==
    IF from >= M THEN M
    ELSE IF lut[Pref(o, s, M, from)] = 0 THEN from ELSE FirstFree(lut, o, s, M, from + 1)
\* os[b] = <<offset, skip>>;  one turn of backend b
Turn(lut, nxt, os, M, b) ==
    LET j == FirstFree(lut, os[b][1], os[b][2], M, nxt[b]) IN
    [lut |-> IF j < M THEN [lut EXCEPT ![Pref(os[b][1], os[b][2], M, j)] = b] ELSE lut,
     nxt |-> [nxt EXCEPT ![b] = j + 1],
     ok |-> j < M]
RECURSIVE Fill(_, _, _, _, _, _, _)
Fill(lut, nxt, os, M, N, b, n) ==
    IF n = M THEN lut
    ELSE LET t == Turn(lut, nxt, os, M, b) IN
         IF ~t.ok THEN lut      \* cannot happen for prime M (checked by the design leg)
         ELSE Fill(t.lut, t.nxt, os, M, N, (b % N) + 1, n + 1)
\* the table (as a sequence of length M) for backends 1..N
Populate(os, M, N) ==
    LET lut == Fill([i \in 0..(M - 1) |-> 0], [b \in 1..N |-> 0], os, M, N, 1, 0)
    IN  [i \in 1..M |-> lut[i - 1]]

IsPrime(m) == m >= 2 /\ \A d \in 2..(m - 1) : d * d > m \/ m % d # 0
=============================================================================
