CONSTANTS
  M = 5
  MaxN = 3
INIT GInit
NEXT GNext
ACTION_CONSTRAINT EmitEdge
CHECK_DEADLOCK FALSE
