------------------------------ MODULE I_Maglev ------------------------------
(* C33 implementation layer: ConsistentHash.Generate as a transition system - one action per turn of a
   backend (the inner loop that skips taken slots is part of the turn).  Init picks the number of backends
   and EVERY assignment of (offset, skip) to them; TLC checks that a turn always finds a free slot inside
   the preference list (the code would index past the permutation otherwise), and that at termination the
   table is full, balanced within the Maglev bound and equal to Maglev!Populate (the function used to
   compare real tables).                                                                          *)
EXTENDS Maglev

CONSTANTS M,        \* table size (prime)
          MaxN      \* backends 1..n, n <= MaxN

VARIABLES os, nb, lut, nxt, turn, n, bad
ivars == <<os, nb, lut, nxt, turn, n, bad>>

OS == (0..(M - 1)) \X (1..(M - 1))
IInit == /\ nb \in 1..MaxN
         /\ os \in [1..nb -> OS]
         /\ lut = [i \in 0..(M - 1) |-> 0] /\ nxt = [b \in 1..nb |-> 0]
         /\ turn = 1 /\ n = 0 /\ bad = FALSE

TakeTurn ==
    /\ n < M /\ ~bad
    /\ LET t == Turn(lut, nxt, os, M, turn) IN
       /\ lut' = t.lut /\ nxt' = t.nxt /\ bad' = ~t.ok
       /\ n' = IF t.ok THEN n + 1 ELSE n
    /\ turn' = (turn % nb) + 1
    /\ UNCHANGED <<os, nb>>
Done == n = M /\ UNCHANGED ivars
INext == TakeTurn \/ Done

AlwaysFindsSlot == ~bad
Finished == n = M
AsSeq == [i \in 1..M |-> lut[i - 1]]
AtEnd == Finished =>
    /\ TableOK(M, 1..nb, M, Cardinality({ i \in 0..(M - 1) : lut[i] = 0 }), CountsOf(AsSeq))
    /\ AsSeq = Populate(os, M, nb)
=============================================================================
