------------------------------ MODULE T_Maglev ------------------------------
(* Trace specification for C33.  Verdicts: module Maglev's property layer (Full, Balanced, SameEverywhere).
   With Exact = TRUE (T_Maglev_exact.cfg) tables generated with table-driven hashes are also compared with
   Maglev!Populate, and configured sizes with primality and the 5x factor - mismatches there are drift.

   events   reset {exact, os}                 os[b] = <<raw h1 value, raw h2 value>> of backend id b
            gen {m, backends, len, nils, hist, dig, full, lut}
                 backends = ids in AddBackend order (may repeat); len = length of the generated table;
                 nils = number of empty entries; hist = [[backend, entries]...]; dig = digest of the table;
                 full => lut is the table itself (ids, 0 for an empty entry)
            size {n, m}                       BPFLUTSizeMaglev() = m for BPFMaglevMaxEndpointsPerService = n  *)
EXTENDS TraceLib, Maglev

CONSTANT Exact
VARIABLES cfgv, memo
vars == <<cfgv, memo>>
EmptyFn == [x \in {} |-> 0]
TInit == l = 1 /\ cfgv = [exact |-> FALSE] /\ memo = EmptyFn

TReset == IsEvent("reset") /\ cfgv' = Cur /\ memo' = EmptyFn

Counts(e) == IF e.full THEN CountsOf(SelectSeq(e.lut, LAMBDA x : x # 0))
             ELSE LET h == e.hist IN [b \in { h[i][1] : i \in 1..Len(h) } |-> h[CHOOSE i \in 1..Len(h) : h[i][1] = b][2]]
Nils(e) == IF e.full THEN Cardinality({ i \in 1..Len(e.lut) : e.lut[i] = 0 }) ELSE e.nils
Length(e) == IF e.full THEN Len(e.lut) ELSE e.len
Seen(e) == [dig |-> e.dig, lut |-> IF e.full THEN e.lut ELSE <<>>]

\* offsets and skips as the code derives them from the two hash values
OSOf(os, m, N) == [b \in 1..N |-> << os[b][1] % m, (os[b][2] % (m - 1)) + 1 >>]
\* (Populate is phrased for backends 1..N; tables of other subsets are only checked by the property layer)
ExactOK(e, B) == (Exact /\ cfgv.exact /\ e.full /\ B # {} /\ B = 1..Cardinality(B)) =>
                    e.lut = Populate(OSOf(cfgv.os, e.m, Cardinality(B)), e.m, Cardinality(B))

GenOK == LET e == Cur
             B == SeqToSet(e.backends)
             key == <<B, e.m>>
         IN  /\ TableOK(e.m, B, Length(e), Nils(e), Counts(e))
             /\ key \in DOMAIN memo => memo[key] = Seen(e)
             /\ ExactOK(e, B)
TGen == /\ IsEvent("gen")
        /\ GenOK = TRUE
        /\ LET key == <<SeqToSet(Cur.backends), Cur.m>> IN
           memo' = [x \in DOMAIN memo \cup {key} |-> IF x = key THEN Seen(Cur) ELSE memo[x]]
        /\ UNCHANGED cfgv

\* a configured size must leave room for the configured number of endpoints
SizeOK == /\ Cur.m >= Cur.n
          /\ Exact => (IsPrime(Cur.m) /\ Cur.m >= 5 * Cur.n)
TSize == IsEvent("size") /\ SizeOK = TRUE /\ UNCHANGED vars

TNext == TReset \/ TGen \/ TSize
=============================================================================
