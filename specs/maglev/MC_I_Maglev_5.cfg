CONSTANTS
  M = 5
  MaxN = 3
INIT IInit
NEXT INext
INVARIANTS AlwaysFindsSlot AtEnd
CHECK_DEADLOCK FALSE
