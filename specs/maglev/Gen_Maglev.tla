----------------------------- MODULE Gen_Maglev -----------------------------
(* Behaviour generator for C33 (leg A): one behaviour per (number of backends, (offset, skip) assignment)
   for table size M - the inputs of I_Maglev's Init.  The driver feeds the real ConsistentHash through
   table-driven hash.Hash fakes so that backend b gets exactly (offset, skip) = os[b], adds the backends in
   several orders (with a duplicated addition) and records every generated table.                  *)
EXTENDS Maglev, Json
CONSTANTS M, MaxN
VARIABLES os, nb, emitted
OS == (0..(M - 1)) \X (1..(M - 1))
GInit == nb \in 1..MaxN /\ os \in [1..nb -> OS] /\ emitted = FALSE
GNext == ~emitted /\ emitted' = TRUE /\ UNCHANGED <<os, nb>>
EmitEdge == PrintT("BEH " \o ToJson(<< [op |-> "gen", m |-> M, os |-> os] >>))
=============================================================================
