CONSTANTS
  M = 7
  MaxN = 3
INIT GInit
NEXT GNext
ACTION_CONSTRAINT EmitEdge
CHECK_DEADLOCK FALSE
