------------------------------ MODULE F_Maglev ------------------------------
(* The same theorem as I_Maglev for larger tables, evaluated as a function (one state per assignment):
   for every (offset, skip) assignment the populated table is full and balanced.                   *)
EXTENDS Maglev
CONSTANTS M, MaxN
VARIABLES os, nb
OS == (0..(M - 1)) \X (1..(M - 1))
FInit == nb \in 1..MaxN /\ os \in [1..nb -> OS]
FNext == UNCHANGED <<os, nb>>
FTableOK == LET t == Populate(os, M, nb) IN
            TableOK(M, 1..nb, M, Cardinality({ i \in 1..M : t[i] = 0 }), CountsOf(t))
=============================================================================
