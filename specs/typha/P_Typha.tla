------------------------------ MODULE P_Typha ------------------------------
(* C24 property layer.  What the upstream syncer has written into Typha (every write of a key carries a
   strictly increasing version - its revision - and a value drawn from a small domain, so the SAME value can
   come back: A -> B -> A; a deletion is a version too), whether/when upstream reported in-sync,
   and, per client connection, what the client's SyncerCallbacks have been given.  Nothing about
   breadcrumbs, batching or the wire.  A client may be given anything at any time, subject to:
     WrittenUpstream   every delivered (key, version, value, deleted?) was written upstream before;
     Monotone          within a connection a key's versions never decrease;
     InSyncRule        in-sync is delivered only when upstream has reported in-sync and, for every
                       key, the connection's knowledge of it is at least as new as what the datastore
                       held when upstream (first) reported in-sync (a version >= that one; never
                       having been given the key is fine iff it was absent then or deleted since);
     Converged         when upstream has stopped and a sentinel written last has reached every
                       client, each client's view is exactly the upstream's final view (version AND
                       value of every present key, absence of every other key).
   Environment assumption (a syncer only reports changes): a write of a present key changes its value. *)
EXTENDS Naturals, Sequences, FiniteSets

CONSTANTS Keys, Clients

VARIABLES ucur,     \* [Keys -> [ver, val, present]] latest upstream write per key (ver 0 = never written)
          uhist,    \* set of upstream writes [k, ver, val, del]
          hasIS,    \* upstream has reported in-sync
          isnap,    \* ucur at the first upstream in-sync
          joined,   \* clients that have connected
          cview     \* [Clients -> [Keys -> [ver, val, present]]] last delivery per key on the connection
pvars == <<ucur, uhist, hasIS, isnap, joined, cview>>

Never == [ver |-> 0, val |-> 0, present |-> FALSE]
Blank == [k \in Keys |-> Never]

Init == ucur = Blank /\ uhist = {} /\ hasIS = FALSE /\ isnap = Blank /\ joined = {} /\ cview = [c \in Clients |-> Blank]

\* a delivered / written KV is [k, ver, val, del] (val = 0 for a deletion)
KVOK(view, u) == /\ [k |-> u.k, ver |-> u.ver, val |-> u.val, del |-> u.del] \in uhist
                 /\ u.ver >= view[u.k].ver
Apply1(view, u) == [view EXCEPT ![u.k] = [ver |-> u.ver, val |-> u.val, present |-> ~u.del]]
RECURSIVE KVsOK(_, _)
KVsOK(view, us) == IF us = <<>> THEN TRUE ELSE KVOK(view, Head(us)) /\ KVsOK(Apply1(view, Head(us)), Tail(us))
RECURSIVE ApplySeq(_, _)
ApplySeq(view, us) == IF us = <<>> THEN view ELSE ApplySeq(Apply1(view, Head(us)), Tail(us))

\* a key the connection has never been given counts as "absent": that is at least as new as the in-sync
\* snapshot iff the key was absent then, or has been deleted upstream since
InSyncOK(view) ==
    /\ hasIS
    /\ \A k \in Keys : IF view[k].ver # 0 THEN view[k].ver >= isnap[k].ver
                       ELSE \/ ~isnap[k].present
                            \/ \E h \in uhist : h.k = k /\ h.del /\ h.ver > isnap[k].ver
SameView(view) == \A k \in Keys : IF ucur[k].present THEN view[k] = ucur[k] ELSE ~view[k].present
ConvergedOK == \A c \in joined : SameView(cview[c])

\* ---- upstream ----------------------------------------------------------------------------------------
\* one upstream OnUpdates call carrying several writes
RECURSIVE UpsOK(_, _)
UpsOK(cur, us) == IF us = <<>> THEN TRUE
                  ELSE LET u == Head(us) IN
                       /\ u.ver > cur[u.k].ver
                       /\ (~u.del /\ cur[u.k].present) => u.val # cur[u.k].val     \* a syncer only reports changes
                       /\ u.del => cur[u.k].present
                       /\ UpsOK(Apply1(cur, u), Tail(us))
UpSeq(us) ==
    /\ UpsOK(ucur, us)
    /\ ucur' = ApplySeq(ucur, us)
    /\ uhist' = uhist \cup { [k |-> us[i].k, ver |-> us[i].ver, val |-> us[i].val, del |-> us[i].del] : i \in DOMAIN us }
    /\ UNCHANGED <<hasIS, isnap, joined, cview>>
UStatus(s) ==
    /\ hasIS' = (hasIS \/ s = "insync")
    /\ isnap' = IF s = "insync" /\ ~hasIS THEN ucur ELSE isnap
    /\ UNCHANGED <<ucur, uhist, joined, cview>>
\* ---- clients --------------------------------------------------------------------------------------------
CJoin(c) == joined' = joined \cup {c} /\ cview' = [cview EXCEPT ![c] = Blank] /\ UNCHANGED <<ucur, uhist, hasIS, isnap>>
CUpdates(c, us) ==
    /\ KVsOK(cview[c], us)
    /\ cview' = [cview EXCEPT ![c] = ApplySeq(@, us)]
    /\ UNCHANGED <<ucur, uhist, hasIS, isnap, joined>>
CStatus(c, s) == (s = "insync" => InSyncOK(cview[c])) /\ UNCHANGED pvars
Quiesce == ConvergedOK /\ UNCHANGED pvars
=============================================================================
