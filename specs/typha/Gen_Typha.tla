----------------------------- MODULE Gen_Typha -----------------------------
(* Behaviour generator for C24 (leg A): I_Typha with a history of the DRIVER's decisions - upstream
   writes and statuses, client joins (streamed or binary snapshot), holding / releasing a client's
   callbacks, and settle points (the driver waits there until every client that is not held has caught
   up).  The cache loop, the senders and the readers run by themselves.                             *)
EXTENDS I_Typha, Json

CONSTANTS SimLen, WJoin, WSettle, WHold, WInt
VARIABLE hist
gvars == <<vars, hist>>

GInit == Init /\ hist = <<>>
Step(a, r) == a /\ hist' = Append(hist, r)

DrainedNH == /\ inq = <<>> /\ pc = "idle"
             /\ \A c \in Clients : (cst[c] # "off" /\ ~held[c]) => (cst[c] = "follow" /\ ccr[c] = Len(crumbs) /\ net[c] = <<>>)
Settle == DrainedNH /\ UNCHANGED vars

Strip(us) == [i \in DOMAIN us |-> [k |-> us[i].k, val |-> us[i].val, del |-> us[i].del]]

GNext ==
  \/ /\ Len(hist) = SimLen /\ hist' = Append(hist, [op |-> "end"]) /\ UNCHANGED vars
  \/ /\ Len(hist) < SimLen
     /\ \/ \E us \in Batches : Step(Upstream(us), [op |-> "up", kvs |-> Strip(us)])
        \/ \E s \in Statuses : Step(Status(s), [op |-> "status", s |-> s])
        \/ \E c \in Clients, b \in BOOLEAN, w \in 1..WJoin : Step(Join(c), [op |-> "join", c |-> c, bin |-> b])
        \/ \E c \in Clients, w \in 1..WHold : Step(Hold(c), [op |-> "hold", c |-> c])
        \/ \E c \in Clients, w \in 1..WHold : Step(Release(c), [op |-> "release", c |-> c])
        \/ \E w \in 1..WSettle : (hist # <<>> /\ hist[Len(hist)].op # "settle") /\ Step(Settle, [op |-> "settle"])
        \/ \E w \in 1..WInt : (Fill \/ Publish \/ \E c \in Clients : SendSnap(c) \/ SnapDone(c) \/ Advance(c) \/ Recv(c)) /\ UNCHANGED hist

GView == vars
EmitEdge == (hist' # hist) => PrintT("BEH " \o ToJson(hist'))
EmitAtLen == Len(hist) = SimLen + 1 => PrintT("BEH " \o ToJson(hist))
=============================================================================
