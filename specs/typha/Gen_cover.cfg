CONSTANTS
  Keys = {"a", "b"}
  Clients = {"c1"}
  Vals = {1, 2}
  MaxVer = 1
  MaxBatch = 2
  MaxMsg = 1
  MaxStatus = 1
  MaxUpLen = 2
  MaxHold = 1
  SimLen = 100
  WJoin = 1
  WSettle = 1
  WHold = 1
  WInt = 1
INIT GInit
NEXT GNext
VIEW GView
ACTION_CONSTRAINT EmitEdge
CHECK_DEADLOCK FALSE
