CONSTANTS
  Keys = {"a"}
  Clients = {"c1"}
  Vals = {1, 2}
  MaxVer = 2
  MaxBatch = 2
  MaxMsg = 1
  MaxStatus = 1
  MaxUpLen = 1
  MaxHold = 1
SPECIFICATION FairSpec
INVARIANTS PropertyHolds Converged
PROPERTY EventuallyConverged
CHECK_DEADLOCK FALSE
