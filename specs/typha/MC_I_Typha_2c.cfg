CONSTANTS
  Keys = {"a"}
  Clients = {"c1", "c2"}
  Vals = {1, 2}
  MaxVer = 2
  MaxBatch = 2
  MaxMsg = 1
  MaxStatus = 1
  MaxUpLen = 1
  MaxHold = 1
INIT Init
NEXT Next
INVARIANTS PropertyHolds Converged ServerViewExact
CHECK_DEADLOCK FALSE
