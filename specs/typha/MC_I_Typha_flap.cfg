CONSTANTS
  Keys = {"a"}
  Clients = {"c1"}
  Vals = {1, 2}
  MaxVer = 3
  MaxBatch = 3
  MaxMsg = 1
  MaxStatus = 1
  MaxUpLen = 3
  MaxHold = 1
INIT Init
NEXT Next
INVARIANTS PropertyHolds Converged ServerViewExact
CHECK_DEADLOCK FALSE
