CONSTANTS
  Keys = {"a", "b"}
  Clients = {"c1"}
  Vals = {1}
  MaxVer = 1
  MaxBatch = 2
  MaxMsg = 1
  MaxStatus = 2
  MaxUpLen = 2
  MaxHold = 1
INIT Init
NEXT Next
INVARIANTS PropertyHolds Converged ServerViewExact
CHECK_DEADLOCK FALSE
