CONSTANTS
  Keys = {"a", "b"}
  Clients = {"c1", "c2"}
  Vals = {1, 2}
  MaxVer = 40
  MaxBatch = 2
  MaxMsg = 1
  MaxStatus = 40
  MaxUpLen = 2
  MaxHold = 40
  SimLen = 30
  WJoin = 2
  WSettle = 12
  WHold = 1
  WInt = 5
INIT GInit
NEXT GNext
INVARIANT EmitAtLen
CHECK_DEADLOCK FALSE
