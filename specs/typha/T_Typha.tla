------------------------------ MODULE T_Typha ------------------------------
(* Trace specification for C24.  One log ordered by the log's mutex (consistent with causality: an
   upstream write is logged before it is handed to Typha, a client callback at its entry):
     up / ustatus            the driver acting as the upstream syncer
     cjoin                   a client is started (new connection)
     c_upd / c_status        a client's SyncerCallbacks
     hold / release          a client's callbacks are blocked / unblocked (no property content)
     quiesce                 upstream has stopped, all gates open, a final marker has reached every client
   replayed against the property layer P_Typha.  KVs are [k, ver, val, del]: ver from the KV revision, val
   from the value's content (0 for a deletion).                                                   *)
EXTENDS TraceLib, FiniteSets

VARIABLES ucur, uhist, hasIS, isnap, joined, cview

Resets == { i \in 1..NTrace : Trace[i].ev = "reset" }
\* the keys named at reset plus every key the upstream ever writes (the driver's marker keys are fresh per settle point)
TKeys == UNION { SeqToSet(Trace[i].keys) : i \in Resets }
         \cup UNION { { Trace[i].kvs[j].k : j \in DOMAIN Trace[i].kvs } : i \in { n \in 1..NTrace : Trace[n].ev = "up" } }
TClients == UNION { SeqToSet(Trace[i].clients) : i \in Resets }

D == INSTANCE P_Typha WITH Keys <- TKeys, Clients <- TClients
vars == <<ucur, uhist, hasIS, isnap, joined, cview>>

TInit == l = 1 /\ D!Init
TReset ==
    /\ IsEvent("reset")
    /\ ucur' = D!Blank /\ uhist' = {} /\ hasIS' = FALSE /\ isnap' = D!Blank /\ joined' = {}
    /\ cview' = [c \in TClients |-> D!Blank]

TUp == IsEvent("up") /\ D!UpSeq(Cur.kvs)
TUStatus == IsEvent("ustatus") /\ D!UStatus(Cur.s)
TJoin == IsEvent("cjoin") /\ D!CJoin(Cur.c)
TCUpd == IsEvent("c_upd") /\ D!CUpdates(Cur.c, Cur.kvs)
TCStatus == IsEvent("c_status") /\ D!CStatus(Cur.c, Cur.s)
THold == (IsEvent("hold") \/ IsEvent("release")) /\ UNCHANGED vars
TQuiesce == IsEvent("quiesce") /\ D!Quiesce

TNext == TReset \/ TUp \/ TUStatus \/ TJoin \/ TCUpd \/ TCStatus \/ THold \/ TQuiesce
TSpec == TInit /\ [][TNext]_<<vars, l>>
=============================================================================
