CONSTANTS
  Keys = {"a"}
  Clients = {"c1"}
  Vals = {1, 2}
  MaxVer = 3
  MaxBatch = 3
  MaxMsg = 1
  MaxStatus = 1
  MaxUpLen = 3
  MaxHold = 0
  SimLen = 100
  WJoin = 1
  WSettle = 1
  WHold = 1
  WInt = 1
INIT GInit
NEXT GNext
VIEW GView
ACTION_CONSTRAINT EmitEdge
CHECK_DEADLOCK FALSE
