------------------------------ MODULE I_Typha ------------------------------
(* C24 implementation layer: typha snapcache.Cache + syncserver connection + syncclient, transcribed.
     upstream  -> inq (Cache.inputC)                       Upstream(us) / Status(s)
     cache loop: Fill (fillBatchFromInputQueue: first item, then opportunistically while
                 batchSize < MaxBatch) ; Publish (publishBreadcrumb: at most MaxBatch updates per
                 crumb, the pending status only on the last crumb of the batch, no crumb when nothing
                 changed)
     breadcrumb chain crumbs[i] = [deltas, status, kvs]
     per client c: Join (picks the current crumb), SendSnap (snapshot of THAT crumb in key order, MaxMsg
                 KVs per message), SnapDone (status if it differs from the zero value), Advance (follow
                 the chain, coalescing the deltas of several crumbs when behind, then the status of the
                 crumb reached), Recv (the client's read loop calling the SyncerCallbacks); held[c]
                 models a client whose callback blocks (slow client).
   The P_Typha variables are ghosts; its obligations are the invariants PropertyHolds / Converged and
   the liveness property EventuallyConverged (under weak fairness of the cache loop, the senders and
   the non-held readers).  All bounds are in action guards (no state constraint).                 *)
EXTENDS Naturals, Sequences, FiniteSets, TLC

CONSTANTS Keys, Clients, Vals, MaxVer, MaxBatch, MaxMsg, MaxStatus, MaxUpLen, MaxHold

VARIABLES inq, pendU, pendS, pc, kvs, crumbs,
          cst, ccr, cursor, csent, net, held,
          nstatus, nhold, bad,
          ucur, uhist, hasIS, isnap, joined, cview
ivars == <<inq, pendU, pendS, pc, kvs, crumbs, cst, ccr, cursor, csent, net, held, nstatus, nhold, bad>>
vars == <<inq, pendU, pendS, pc, kvs, crumbs, cst, ccr, cursor, csent, net, held, nstatus, nhold, bad,
          ucur, uhist, hasIS, isnap, joined, cview>>

P == INSTANCE P_Typha
Never == [ver |-> 0, val |-> 0, present |-> FALSE]
Blank == [k \in Keys |-> Never]
Statuses == {"wait", "resync", "insync"}

IU(us) == [t |-> "u", us |-> us, s |-> ""]
IS(s)  == [t |-> "s", us |-> <<>>, s |-> s]
MKVs(us) == [t |-> "kvs", us |-> us, s |-> ""]
MSt(s)   == [t |-> "st", us |-> <<>>, s |-> s]

Init ==
    /\ inq = <<>> /\ pendU = <<>> /\ pendS = "wait" /\ pc = "idle" /\ kvs = Blank
    /\ crumbs = << [deltas |-> <<>>, status |-> "wait", kvs |-> Blank] >>
    /\ cst = [c \in Clients |-> "off"] /\ ccr = [c \in Clients |-> 0] /\ cursor = [c \in Clients |-> <<>>]
    /\ csent = [c \in Clients |-> "wait"] /\ net = [c \in Clients |-> <<>>] /\ held = [c \in Clients |-> FALSE]
    /\ nstatus = 0 /\ nhold = 0 /\ bad = FALSE
    /\ P!Init

\* ---- upstream -----------------------------------------------------------------------------------------
\* a batch of writes (one OnUpdates call): a key may occur several times in it (a value flapping A -> B -> A,
\* delete + re-create ...); versions are consecutive per key; a syncer only reports changes
RECURSIVE Stamp(_, _)
Stamp(cur, ops) ==     \* ops: sequence of <<k, val>> (val = 0: delete); result [ok, us] with us a sequence of [k, ver, val, del]
    IF ops = <<>> THEN [ok |-> TRUE, us |-> <<>>]
    ELSE LET k == Head(ops)[1]  v == Head(ops)[2]
             ok == /\ cur[k].ver < MaxVer
                   /\ (v = 0) => cur[k].present
                   /\ (v # 0 /\ cur[k].present) => v # cur[k].val
             u == [k |-> k, ver |-> cur[k].ver + 1, val |-> v, del |-> (v = 0)]
         IN IF ~ok THEN [ok |-> FALSE, us |-> <<>>]
            ELSE LET r == Stamp([cur EXCEPT ![k] = [ver |-> u.ver, val |-> v, present |-> v # 0]], Tail(ops))
                 IN [ok |-> r.ok, us |-> <<u>> \o r.us]
OpSeqs == UNION { [1..n -> Keys \X (Vals \cup {0})] : n \in 1..MaxUpLen }
Batches == { r.us : r \in { x \in { Stamp(ucur, ops) : ops \in OpSeqs } : x.ok } }
RECURSIVE UpAll(_, _, _)
UpAll(cur, hist, us) ==
    IF us = <<>> THEN <<cur, hist>>
    ELSE LET u == Head(us) IN
         UpAll([cur EXCEPT ![u.k] = [ver |-> u.ver, val |-> u.val, present |-> ~u.del]],
               hist \cup {[k |-> u.k, ver |-> u.ver, val |-> u.val, del |-> u.del]}, Tail(us))
\* Cache.inputC has capacity 2 * MaxBatchSize: the producer blocks when it is full
Upstream(us) ==
    /\ Len(inq) < 2 * MaxBatch
    /\ inq' = Append(inq, IU(us))
    /\ LET r == UpAll(ucur, uhist, us) IN ucur' = r[1] /\ uhist' = r[2]
    /\ UNCHANGED <<pendU, pendS, pc, kvs, crumbs, cst, ccr, cursor, csent, net, held, nstatus, nhold, bad, hasIS, isnap, joined, cview>>
Status(s) ==
    /\ nstatus < MaxStatus /\ nstatus' = nstatus + 1
    /\ Len(inq) < 2 * MaxBatch
    /\ inq' = Append(inq, IS(s))
    /\ P!UStatus(s)
    /\ UNCHANGED <<pendU, pendS, pc, kvs, crumbs, cst, ccr, cursor, csent, net, held, nhold, bad>>

\* ---- cache loop --------------------------------------------------------------------------------------------
Size(it) == IF it.t = "s" THEN 1 ELSE Len(it.us)
RECURSIVE SizeOf(_)
SizeOf(q) == IF q = <<>> THEN 0 ELSE Size(Head(q)) + SizeOf(Tail(q))
RECURSIVE Updates(_)
Updates(q) == IF q = <<>> THEN <<>> ELSE (IF Head(q).t = "u" THEN Head(q).us ELSE <<>>) \o Updates(Tail(q))
RECURSIVE LastStatus(_, _)
LastStatus(q, dflt) == IF q = <<>> THEN dflt ELSE LastStatus(Tail(q), IF Head(q).t = "s" THEN Head(q).s ELSE dflt)

Fill ==
    /\ pc = "idle" /\ inq # <<>>
    /\ \E n \in 1..Len(inq) :
         /\ \A m \in 1..(n - 1) : SizeOf(SubSeq(inq, 1, m)) < MaxBatch
         /\ pendU' = Updates(SubSeq(inq, 1, n))
         /\ pendS' = LastStatus(SubSeq(inq, 1, n), pendS)
         /\ inq' = SubSeq(inq, n + 1, Len(inq))
    /\ pc' = "pub"
    /\ UNCHANGED <<kvs, crumbs, cst, ccr, cursor, csent, net, held, nstatus, nhold, bad, ucur, uhist, hasIS, isnap, joined, cview>>

\* the update loop of publishBreadcrumb: a value equal to the one in the LIVE map is squashed (WouldBeNoOp ignores
\* the revision); returns <<new map, deltas>>
RECURSIVE ApplyKVs(_, _, _)
ApplyKVs(m, ds, us) ==
    IF us = <<>> THEN <<m, ds>>
    ELSE LET u == Head(us) IN
         IF ~u.del /\ m[u.k].present /\ m[u.k].val = u.val THEN ApplyKVs(m, ds, Tail(us))
         ELSE ApplyKVs([m EXCEPT ![u.k] = [ver |-> u.ver, val |-> u.val, present |-> ~u.del]], Append(ds, u), Tail(us))
Publish ==
    /\ pc = "pub"
    /\ LET last == Len(pendU) <= MaxBatch
           us == IF last THEN pendU ELSE SubSeq(pendU, 1, MaxBatch)
           rest == IF last THEN <<>> ELSE SubSeq(pendU, MaxBatch + 1, Len(pendU))
           old == crumbs[Len(crumbs)]
           st == IF last /\ pendS # old.status THEN pendS ELSE old.status
           r == ApplyKVs(kvs, <<>>, us)
           kv2 == r[1]
           changed == r[2] # <<>> \/ st # old.status
       IN /\ pendU' = rest
          /\ kvs' = kv2
          /\ crumbs' = IF changed THEN Append(crumbs, [deltas |-> r[2], status |-> st, kvs |-> kv2]) ELSE crumbs
          /\ pc' = IF rest = <<>> THEN "idle" ELSE "pub"
    /\ UNCHANGED <<inq, pendS, cst, ccr, cursor, csent, net, held, nstatus, nhold, bad, ucur, uhist, hasIS, isnap, joined, cview>>

\* ---- connections -----------------------------------------------------------------------------------------------
\* the B-tree's key order: some fixed order (irrelevant to the property)
SortedKeys(S) == CHOOSE s \in [1..Cardinality(S) -> S] : \A i, j \in 1..Cardinality(S) : i # j => s[i] # s[j]
Join(c) ==
    /\ cst[c] = "off"
    /\ cst' = [cst EXCEPT ![c] = "snap"]
    /\ ccr' = [ccr EXCEPT ![c] = Len(crumbs)]
    /\ cursor' = [cursor EXCEPT ![c] = SortedKeys({ k \in Keys : crumbs[Len(crumbs)].kvs[k].present })]
    /\ P!CJoin(c)
    /\ UNCHANGED <<inq, pendU, pendS, pc, kvs, crumbs, csent, net, held, nstatus, nhold, bad, ucur, uhist, hasIS, isnap>>

SendSnap(c) ==
    /\ cst[c] = "snap" /\ cursor[c] # <<>>
    /\ LET n == IF Len(cursor[c]) < MaxMsg THEN Len(cursor[c]) ELSE MaxMsg
           snap == crumbs[ccr[c]].kvs
           us == [i \in 1..n |-> [k |-> cursor[c][i], ver |-> snap[cursor[c][i]].ver, val |-> snap[cursor[c][i]].val, del |-> FALSE]]
       IN /\ net' = [net EXCEPT ![c] = Append(@, MKVs(us))]
          /\ cursor' = [cursor EXCEPT ![c] = SubSeq(@, n + 1, Len(@))]
    /\ UNCHANGED <<inq, pendU, pendS, pc, kvs, crumbs, cst, ccr, csent, held, nstatus, nhold, bad, ucur, uhist, hasIS, isnap, joined, cview>>

SnapDone(c) ==
    /\ cst[c] = "snap" /\ cursor[c] = <<>>
    /\ cst' = [cst EXCEPT ![c] = "follow"]
    /\ LET st == crumbs[ccr[c]].status IN
       /\ net' = IF st # csent[c] THEN [net EXCEPT ![c] = Append(@, MSt(st))] ELSE net
       /\ csent' = [csent EXCEPT ![c] = st]
    /\ UNCHANGED <<inq, pendU, pendS, pc, kvs, crumbs, ccr, cursor, held, nstatus, nhold, bad, ucur, uhist, hasIS, isnap, joined, cview>>

RECURSIVE Deltas(_, _)
Deltas(i, n) == IF i > n THEN <<>> ELSE crumbs[i].deltas \o Deltas(i + 1, n)
Advance(c) ==
    /\ cst[c] = "follow" /\ ccr[c] < Len(crumbs)
    /\ \E n \in (ccr[c] + 1)..Len(crumbs) :
         LET ds == Deltas(ccr[c] + 1, n)
             st == crumbs[n].status
             m1 == IF ds # <<>> THEN <<MKVs(ds)>> ELSE <<>>
             m2 == IF st # csent[c] THEN <<MSt(st)>> ELSE <<>>
         IN /\ net' = [net EXCEPT ![c] = @ \o m1 \o m2]
            /\ csent' = [csent EXCEPT ![c] = st]
            /\ ccr' = [ccr EXCEPT ![c] = n]
    /\ UNCHANGED <<inq, pendU, pendS, pc, kvs, crumbs, cst, cursor, held, nstatus, nhold, bad, ucur, uhist, hasIS, isnap, joined, cview>>

Recv(c) ==
    /\ net[c] # <<>> /\ ~held[c]
    /\ LET m == Head(net[c]) IN
       IF m.t = "kvs"
         THEN /\ bad' = (bad \/ ~P!KVsOK(cview[c], m.us))
              /\ cview' = [cview EXCEPT ![c] = P!ApplySeq(@, m.us)]
         ELSE /\ bad' = (bad \/ (m.s = "insync" /\ ~P!InSyncOK(cview[c])))
              /\ UNCHANGED cview
    /\ net' = [net EXCEPT ![c] = Tail(@)]
    /\ UNCHANGED <<inq, pendU, pendS, pc, kvs, crumbs, cst, ccr, cursor, csent, held, nstatus, nhold, ucur, uhist, hasIS, isnap, joined>>

Hold(c) == nhold < MaxHold /\ nhold' = nhold + 1 /\ cst[c] # "off" /\ ~held[c] /\ held' = [held EXCEPT ![c] = TRUE]
           /\ UNCHANGED <<inq, pendU, pendS, pc, kvs, crumbs, cst, ccr, cursor, csent, net, nstatus, bad, ucur, uhist, hasIS, isnap, joined, cview>>
Release(c) == held[c] /\ held' = [held EXCEPT ![c] = FALSE]
           /\ UNCHANGED <<inq, pendU, pendS, pc, kvs, crumbs, cst, ccr, cursor, csent, net, nstatus, nhold, bad, ucur, uhist, hasIS, isnap, joined, cview>>

Next ==
    \/ \E us \in Batches : Upstream(us)
    \/ \E s \in Statuses : Status(s)
    \/ Fill \/ Publish
    \/ \E c \in Clients : Join(c) \/ SendSnap(c) \/ SnapDone(c) \/ Advance(c) \/ Recv(c) \/ Hold(c) \/ Release(c)

Spec == Init /\ [][Next]_vars
FairSpec == /\ Spec
            /\ WF_vars(Fill) /\ WF_vars(Publish)
            /\ \A c \in Clients : WF_vars(SendSnap(c)) /\ WF_vars(SnapDone(c)) /\ WF_vars(Advance(c))
                                  /\ WF_vars(Recv(c)) /\ WF_vars(Release(c))

\* ---- I => P -------------------------------------------------------------------------------------------------------------
PropertyHolds == ~bad
Drained == /\ inq = <<>> /\ pc = "idle"
           /\ \A c \in Clients : cst[c] # "off" => (cst[c] = "follow" /\ ccr[c] = Len(crumbs) /\ net[c] = <<>>)
Converged == Drained => P!ConvergedOK
\* the server's master map is the upstream's view once the input queue is drained
ServerViewExact == (inq = <<>> /\ pc = "idle") => kvs = ucur
EventuallyConverged == <>[](P!ConvergedOK)
=============================================================================
