---------------------------- MODULE MC_I_RouteMgr ----------------------------
EXTENDS I_RouteMgr, RouteUniverse
\* mid-size universe for the design leg: VXLAN (both flavours), no-encap and IPIP blocks of n2, a borrowed
\* address, a local block and a local workload / bare /32
MsgsMid == MsgsCover \cup {
    Remote("10.0.2.0/26", B2, "ipip", "n2", Ip2, FALSE),
    M("10.0.3.5/32", R(A2, TRUE, FALSE, FALSE, "vxlan", "n2", Ip2, FALSE, FALSE, TRUE)) }
MsgsTiny == {
    Remote("10.0.2.0/26", B2, "vxlan", "n2", Ip2, FALSE),
    Remote("10.0.2.0/26", B2, "vxlan", "n2", Ip2, TRUE),
    Remote("10.0.2.0/26", B2, "none", "n2", Ip2, FALSE),
    M("10.0.2.0/26", R(B2, FALSE, TRUE, FALSE, "vxlan", "n1", "172.0.0.2", TRUE, FALSE, FALSE)),
    M("10.0.1.0/26", R(LB, FALSE, TRUE, FALSE, "vxlan", "n1", "172.0.0.2", TRUE, FALSE, FALSE)),
    M("10.0.1.7/32", R(W1, FALSE, TRUE, FALSE, "vxlan", "n1", "172.0.0.2", TRUE, TRUE, FALSE)) }
VtepTiny == [n1 |-> {"10.0.1.1"}, n2 |-> {"10.0.2.1"}, n3 |-> {}]
HostMid == [n1 |-> {"172.0.0.2"}, n2 |-> {Ip2}, n3 |-> {}]
DstsOf(ms) == { m.dst : m \in ms }
DstsCover == DstsOf(MsgsCover)
DstsMid == DstsOf(MsgsMid)
DstsTiny == DstsOf(MsgsTiny)
=============================================================================
