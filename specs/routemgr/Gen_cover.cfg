CONSTANTS
  Dsts <- GDsts
  Nodes = {"n1", "n2", "n3"}
  Host = "n1"
  Msgs <- MsgsCover
  VtepAddrs <- VtepCover
  HostAddrs <- HostCover
  SimLen = 40
INIT GInit
NEXT GNext
VIEW GView
ACTION_CONSTRAINT EmitEdge
CHECK_DEADLOCK FALSE
