----------------------------- MODULE I_RouteMgr -----------------------------
(* Implementation-shaped model of route_mgr.go + vxlan_mgr.go / ipip_mgr.go / noencap_mgr.go: per manager
   kind the routesByDest / localIPAMBlocks key sets, the routesDirty flag, the sticky parent device and the
   targets last handed to the route table; CompleteDeferredWork recomputes only when dirty.
   TLC checks that whenever no manager is dirty, what is programmed is accepted by RouteMgr!Accept for the
   CURRENT messages, VTEPs and host metadata - whatever the order in which they arrived.               *)
EXTENDS RouteMgr

CONSTANTS Msgs, VtepAddrs, HostAddrs

VARIABLES rbd,    \* Kinds -> SUBSET Dsts     keys of routesByDest (the value is always the latest message)
          lib,    \* Kinds -> SUBSET Dsts     keys of localIPAMBlocks
          dirty,  \* Kinds -> BOOLEAN         routesDirty
          out     \* Kinds -> [direct, tunnel, blackhole]   last SetRoutes per class
ivars == <<routes, vtep, host, parentKnown, rbd, lib, dirty, out>>

NoOut == [direct |-> {}, tunnel |-> {}, blackhole |-> {}]
IInit == /\ Init
         /\ rbd = [k \in Kinds |-> {}] /\ lib = [k \in Kinds |-> {}]
         /\ dirty = [k \in Kinds |-> TRUE]            \* triggerRouteUpdate() in every constructor
         /\ out = [k \in Kinds |-> NoOut]

\* OnUpdate(RouteUpdate): deleteRoute, then re-add under the manager's own filters
WantsRoute(r, k) == r.pool = k /\ (r.rw \/ (r.rt /\ r.rw) \/ (r.rt /\ r.borrowed))
IsLocalBlock(r, k) == r.lw /\ r.pool = k /\ ~r.local_wl /\ ~FullLen(r.cidr)
IRouteUpdate(d, r) ==
    /\ RouteUpdate(d, r)
    /\ rbd' = [k \in Kinds |-> IF WantsRoute(r, k) THEN rbd[k] \cup {d} ELSE rbd[k] \ {d}]
    /\ lib' = [k \in Kinds |-> IF IsLocalBlock(r, k) THEN lib[k] \cup {d} ELSE lib[k] \ {d}]
    /\ dirty' = [k \in Kinds |-> dirty[k] \/ d \in rbd[k] \/ d \in lib[k] \/ WantsRoute(r, k) \/ IsLocalBlock(r, k)]
    /\ UNCHANGED out
IRouteRemove(d) ==
    /\ RouteRemove(d)
    /\ rbd' = [k \in Kinds |-> rbd[k] \ {d}]
    /\ lib' = [k \in Kinds |-> lib[k] \ {d}]
    /\ dirty' = [k \in Kinds |-> dirty[k] \/ d \in rbd[k] \/ d \in lib[k]]
    /\ UNCHANGED out
\* only the VXLAN manager listens to VTEPs; it always re-triggers its routes
IVtepUpdate(n, a) == VtepUpdate(n, a) /\ dirty' = [dirty EXCEPT !["vxlan"] = TRUE] /\ UNCHANGED <<rbd, lib, out>>
IVtepRemove(n)    == VtepRemove(n) /\ dirty' = [dirty EXCEPT !["vxlan"] = TRUE] /\ UNCHANGED <<rbd, lib, out>>
\* host metadata: IPIP re-triggers for every host, no-encap only for the local one
HostDirty(n) == [k \in Kinds |-> dirty[k] \/ k = "ipip" \/ (k = "none" /\ n = Host)]
IHostUpdate(n, a) == HostUpdate(n, a) /\ dirty' = HostDirty(n) /\ UNCHANGED <<rbd, lib, out>>
IHostRemove(n)    == HostRemove(n) /\ dirty' = HostDirty(n) /\ UNCHANGED <<rbd, lib, out>>

\* updateRoutes(): noEncapRoute first, else tunnelRouteFn, else nothing
Compute(k, pk) ==
    LET direct == { d \in rbd[k] : pk[k] /\ (k = "none" \/ routes[d].same) /\ routes[d].node_ip # "" }
        tunnel == { d \in rbd[k] \ direct : TunnelPossible(d, k) }
    IN [direct    |-> IF pk[k] THEN { DirectOf(d) : d \in direct } ELSE out[k].direct,
        tunnel    |-> { TunnelOf(d, k) : d \in tunnel },
        blackhole |-> { [cidr |-> routes[d].cidr, type |-> "blackhole"] : d \in lib[k] }]
IFlush ==
    /\ Flush
    /\ LET pk == parentKnown'
           d2 == [k \in Kinds |-> dirty[k] \/ (pk[k] /\ ~parentKnown[k])]     \* parent device just found
       IN /\ out' = [k \in Kinds |-> IF d2[k] THEN Compute(k, pk) ELSE out[k]]
          /\ dirty' = [k \in Kinds |-> FALSE]
    /\ UNCHANGED <<rbd, lib>>

INext ==
    \/ \E m \in Msgs : IRouteUpdate(m.dst, m.r)
    \/ \E d \in Dsts : IRouteRemove(d)
    \/ \E n \in Nodes : \E a \in VtepAddrs[n] : IVtepUpdate(n, a)
    \/ \E n \in Nodes : IVtepRemove(n)
    \/ \E n \in Nodes : \E a \in HostAddrs[n] : IHostUpdate(n, a)
    \/ \E n \in Nodes : IHostRemove(n)
    \/ IFlush

\* the property on the implementation model
Quiescent == \A k \in Kinds : ~dirty[k] /\ (parentKnown[k] \/ ~LocalAddrPresent(k))
AcceptedWhenQuiescent == Quiescent => Accept(out, parentKnown)
=============================================================================
