--------------------------- MODULE RouteUniverse ---------------------------
(* The concrete message universes used by the C43 manager-level generator and design configs:
   n1 is the local node (172.0.0.2 on eth0), n2 a remote node in the local subnet, n3 one outside it.  *)
EXTENDS Naturals

C(a, n) == [a |-> a, n |-> n]
R(cidr, rw, lw, rt, pool, node, ip, same, lwl, bor) ==
    [present |-> TRUE, cidr |-> cidr, rw |-> rw, lw |-> lw, rt |-> rt, pool |-> pool, node |-> node,
     node_ip |-> ip, same |-> same, local_wl |-> lwl, borrowed |-> bor]
M(d, r) == [dst |-> d, r |-> r]

B2 == C(<<10, 0, 2, 0>>, 26)
B3 == C(<<10, 0, 3, 0>>, 26)
LB == C(<<10, 0, 1, 0>>, 26)
W1 == C(<<10, 0, 1, 7>>, 32)
A2 == C(<<10, 0, 3, 5>>, 32)
T2 == C(<<10, 0, 2, 1>>, 32)
T3 == C(<<10, 0, 3, 9>>, 32)
Ip2 == "172.0.0.3"
Ip2b == "172.0.0.33"
Ip3 == "172.9.0.3"
Remote(d, c, pool, node, ip, same) == M(d, R(c, TRUE, FALSE, FALSE, pool, node, ip, same, FALSE, FALSE))

MsgsCover == {
    Remote("10.0.2.0/26", B2, "vxlan", "n2", Ip2, FALSE),
    Remote("10.0.2.0/26", B2, "vxlan", "n2", Ip2, TRUE),
    Remote("10.0.2.0/26", B2, "none", "n2", Ip2, FALSE),
    \* the same block after it changed owner to the local node (RouteUpdate -> RouteUpdate type flip, no remove)
    M("10.0.2.0/26", R(B2, FALSE, TRUE, FALSE, "vxlan", "n1", "172.0.0.2", TRUE, FALSE, FALSE)),
    M("10.0.1.0/26", R(LB, FALSE, TRUE, FALSE, "vxlan", "n1", "172.0.0.2", TRUE, FALSE, FALSE)),
    M("10.0.1.7/32", R(W1, FALSE, TRUE, FALSE, "vxlan", "n1", "172.0.0.2", TRUE, TRUE, FALSE)),
    M("10.0.1.7/32", R(W1, FALSE, TRUE, FALSE, "vxlan", "n1", "172.0.0.2", TRUE, FALSE, FALSE)) }
MsgsBig == MsgsCover \cup {
    Remote("10.0.2.0/26", B2, "vxlan", "n2", Ip2b, TRUE),
    Remote("10.0.2.0/26", B2, "ipip", "n2", Ip2, FALSE),
    Remote("10.0.2.0/26", B2, "ipip", "n2", Ip2, TRUE),
    Remote("10.0.2.0/26", B2, "none", "n2", Ip2b, FALSE),
    Remote("10.0.2.0/26", B2, "", "n2", Ip2, FALSE),
    \* owner flips local <-> remote for the other pool kinds and for the usually-local block
    M("10.0.2.0/26", R(B2, FALSE, TRUE, FALSE, "ipip", "n1", "172.0.0.2", TRUE, FALSE, FALSE)),
    M("10.0.2.0/26", R(B2, FALSE, TRUE, FALSE, "none", "n1", "172.0.0.2", TRUE, FALSE, FALSE)),
    Remote("10.0.1.0/26", LB, "vxlan", "n2", Ip2, FALSE),
    Remote("10.0.1.0/26", LB, "vxlan", "n3", Ip3, FALSE),
    Remote("10.0.1.0/26", LB, "ipip", "n2", Ip2, FALSE),
    Remote("10.0.1.0/26", LB, "none", "n2", Ip2, FALSE),
    Remote("10.0.3.0/26", B3, "vxlan", "n2", Ip2, TRUE),
    Remote("10.0.3.0/26", B3, "vxlan", "n3", Ip3, FALSE),
    Remote("10.0.3.0/26", B3, "ipip", "n3", Ip3, FALSE),
    Remote("10.0.3.0/26", B3, "none", "n3", Ip3, FALSE),
    \* an address of n3's block borrowed by a workload on n2
    M("10.0.3.5/32", R(A2, TRUE, FALSE, FALSE, "vxlan", "n2", Ip2, TRUE, FALSE, TRUE)),
    M("10.0.3.5/32", R(A2, TRUE, FALSE, FALSE, "vxlan", "n2", Ip2, FALSE, FALSE, TRUE)),
    M("10.0.3.5/32", R(A2, TRUE, FALSE, FALSE, "ipip", "n2", Ip2, FALSE, FALSE, TRUE)),
    \* n2's tunnel address (a /32 block of its own), and a tunnel address n2 borrowed from n3's block
    M("10.0.2.1/32", R(T2, TRUE, FALSE, TRUE, "vxlan", "n2", Ip2, FALSE, FALSE, FALSE)),
    M("10.0.3.9/32", R(T3, FALSE, FALSE, TRUE, "vxlan", "n2", Ip2, FALSE, FALSE, TRUE)),
    M("10.0.3.9/32", R(T3, FALSE, FALSE, TRUE, "ipip", "n2", Ip2, FALSE, FALSE, TRUE)),
    M("10.0.1.0/26", R(LB, FALSE, TRUE, FALSE, "ipip", "n1", "172.0.0.2", TRUE, FALSE, FALSE)),
    M("10.0.1.0/26", R(LB, FALSE, TRUE, FALSE, "none", "n1", "172.0.0.2", TRUE, FALSE, FALSE)),
    M("10.0.1.7/32", R(W1, FALSE, TRUE, FALSE, "none", "n1", "172.0.0.2", TRUE, TRUE, FALSE)) }

\* node -> possible VTEP addresses / host addresses ("" = host metadata without an IPv4 address)
VtepCover == [n1 |-> {"10.0.1.1"}, n2 |-> {"10.0.2.1", "10.0.2.99"}, n3 |-> {}]
VtepBig == [n1 |-> {"10.0.1.1"}, n2 |-> {"10.0.2.1", "10.0.2.99"}, n3 |-> {"10.0.3.1"}]
HostCover == [n1 |-> {"172.0.0.2"}, n2 |-> {}, n3 |-> {}]
HostBig == [n1 |-> {"172.0.0.2", ""}, n2 |-> {Ip2, Ip2b}, n3 |-> {Ip3}]
GDsts == { m.dst : m \in MsgsBig }

=============================================================================
