------------------------------ MODULE RouteMgr ------------------------------
(* C43, manager level, property layer.  The route managers of the Linux dataplane (vxlanManager,
   ipipManager, noEncapManager, each wrapping a routeManager) are told, in any order, about routes
   (proto RouteUpdate / RouteRemove), remote and local VTEPs (VXLAN) and host metadata (IPIP / no-encap),
   and program route-table targets per route class at each CompleteDeferredWork.

   A route message r is RELEVANT to the manager of pool kind K when r.pool = K and it describes a remote
   workload block / borrowed remote address (REMOTE_WORKLOAD) or a borrowed remote tunnel address.
   What must be programmed for it (statement of C43):
     * a DIRECT route via the owning node's address  (same-subnet class, parent device)  iff the pool is
       unencapsulated (K = "none") or the message says SameSubnet (= cross-subnet pool and the owner is
       in the local subnet; computed by the resolver);
     * otherwise a TUNNEL route over the pool's tunnel device whose gateway is the owner's current tunnel
       peer address (VXLAN: the owner's VTEP address; IPIP: the owner's host address), a bare device
       route for a remote tunnel address itself;
     * local blocks (LOCAL_WORKLOAD, not a workload's own route) get a blackhole; no blackhole ever
       equals a local workload's own /32 (/128);
     * nothing else is programmed in these classes.
   Transient lack of information is not a violation: while the manager cannot know its parent device
   (no local VTEP / host metadata seen yet) a direct-wanted route may be absent or fall back to the tunnel;
   while the owner's tunnel peer address is unknown a tunnel-wanted route is absent.  A full-length local
   block that is not (yet) a workload's own route may or may not be blackholed.                      *)
EXTENDS Nets

CONSTANTS Dsts,     \* route destinations (keys; the canonical CIDR strings)
          Nodes,    \* node names
          Host      \* the local node's name

Kinds == {"vxlan", "ipip", "none"}

VARIABLES routes,       \* Dsts -> route record (present = FALSE when never told / removed)
          vtep,         \* Nodes -> [present, addr]      VXLAN tunnel endpoints by node (incl. the local one)
          host,         \* Nodes -> [present, ip]        host metadata by node (incl. the local one)
          parentKnown   \* Kinds -> BOOLEAN              the manager has found its parent device (sticky)
vars == <<routes, vtep, host, parentKnown>>

NoRoute == [present |-> FALSE, cidr |-> [a |-> <<0, 0, 0, 0>>, n |-> 0], rw |-> FALSE, lw |-> FALSE, rt |-> FALSE,
            pool |-> "", node |-> "", node_ip |-> "", same |-> FALSE, local_wl |-> FALSE, borrowed |-> FALSE]
NoVtep == [present |-> FALSE, addr |-> ""]
NoHost == [present |-> FALSE, ip |-> ""]

Init == /\ routes = [d \in Dsts |-> NoRoute]
        /\ vtep = [n \in Nodes |-> NoVtep]
        /\ host = [n \in Nodes |-> NoHost]
        /\ parentKnown = [k \in Kinds |-> FALSE]

RouteUpdate(d, r) == routes' = [routes EXCEPT ![d] = r] /\ UNCHANGED <<vtep, host, parentKnown>>
RouteRemove(d)    == routes' = [routes EXCEPT ![d] = NoRoute] /\ UNCHANGED <<vtep, host, parentKnown>>
VtepUpdate(n, a)  == vtep' = [vtep EXCEPT ![n] = [present |-> TRUE, addr |-> a]] /\ UNCHANGED <<routes, host, parentKnown>>
VtepRemove(n)     == vtep' = [vtep EXCEPT ![n] = NoVtep] /\ UNCHANGED <<routes, host, parentKnown>>
HostUpdate(n, a)  == host' = [host EXCEPT ![n] = [present |-> a # "", ip |-> a]] /\ UNCHANGED <<routes, vtep, parentKnown>>
HostRemove(n)     == host' = [host EXCEPT ![n] = NoHost] /\ UNCHANGED <<routes, vtep, parentKnown>>

\* the local address from which the parent device is found: the local VTEP (VXLAN) / host metadata (others)
LocalAddrPresent(k) == IF k = "vxlan" THEN vtep[Host].present ELSE host[Host].present
\* CompleteDeferredWork of all managers
Flush == /\ parentKnown' = [k \in Kinds |-> parentKnown[k] \/ LocalAddrPresent(k)]
         /\ UNCHANGED <<routes, vtep, host>>

\* ---- what may / must be programmed (evaluated in the state after Flush) --------------------------------
Present == { d \in Dsts : routes[d].present }
Relevant(k) == { d \in Present : routes[d].pool = k /\ (routes[d].rw \/ (routes[d].rt /\ routes[d].borrowed)) }
DirectWanted(d, k) == k = "none" \/ routes[d].same
DirectPossible(d, k, pk) == pk[k] /\ routes[d].node_ip # ""
DirectOf(d) == [cidr |-> routes[d].cidr, gw |-> routes[d].node_ip]
\* a remote tunnel address itself is reached by a bare device route on the VXLAN device
NoGw(d, k) == k = "vxlan" /\ routes[d].rt
PeerKnown(d, k) == CASE k = "vxlan" -> routes[d].node \in Nodes /\ routes[d].node # Host /\ vtep[routes[d].node].present
                     [] k = "ipip"  -> routes[d].node \in Nodes /\ host[routes[d].node].present
                     [] OTHER       -> FALSE
TunnelPossible(d, k) == k # "none" /\ (NoGw(d, k) \/ PeerKnown(d, k))
TunnelOf(d, k) == [cidr |-> routes[d].cidr,
                   gw |-> IF NoGw(d, k) THEN ""
                          ELSE IF k = "vxlan" THEN vtep[routes[d].node].addr ELSE host[routes[d].node].ip]

LocalBlocks(k) == { d \in Present : routes[d].lw /\ routes[d].pool = k /\ ~routes[d].local_wl }
FullLen(c) == c.n = Width(c)
WorkloadNets == { routes[d].cidr : d \in { e \in Present : routes[e].local_wl } }

\* o: Kinds -> [direct, tunnel : sets of [cidr, gw]; blackhole : set of [cidr, type]]
AcceptKind(o, k, pk) ==
    \* every direct route is the wanted direct route of a relevant message
    /\ \A x \in o.direct : \E d \in Relevant(k) : DirectWanted(d, k) /\ DirectPossible(d, k, pk) /\ x = DirectOf(d)
    \* every tunnel route is the tunnel route of a relevant message that is tunnel-wanted, or cannot be direct yet
    /\ \A x \in o.tunnel : \E d \in Relevant(k) :
            /\ TunnelPossible(d, k) /\ x = TunnelOf(d, k)
            /\ ~DirectWanted(d, k) \/ ~DirectPossible(d, k, pk)
    \* everything that can be programmed as the statement requires is programmed
    /\ \A d \in Relevant(k) : (DirectWanted(d, k) /\ DirectPossible(d, k, pk)) => DirectOf(d) \in o.direct
    /\ \A d \in Relevant(k) : (~DirectWanted(d, k) /\ TunnelPossible(d, k)) => TunnelOf(d, k) \in o.tunnel
    \* one route per destination
    /\ \A x, y \in o.direct \cup o.tunnel : x.cidr = y.cidr => x = y
    /\ \A x \in o.direct : \A y \in o.tunnel : x.cidr # y.cidr
    \* blackholes: exactly the local blocks (full-length ones optional), never a workload's own address
    /\ \A b \in o.blackhole : b.type = "blackhole" /\ \E d \in LocalBlocks(k) : b.cidr = routes[d].cidr
    /\ \A d \in LocalBlocks(k) : ~FullLen(routes[d].cidr) => \E b \in o.blackhole : b.cidr = routes[d].cidr
    /\ \A b \in o.blackhole : \A w \in WorkloadNets : ~SameNet(b.cidr, w)
\* pk: the parentKnown function AFTER the CompleteDeferredWork that produced o
Accept(o, pk) == \A k \in Kinds : AcceptKind(o[k], k, pk)

Next == \/ \E d \in Dsts : RouteRemove(d)
        \/ \E n \in Nodes : VtepRemove(n) \/ HostRemove(n)
        \/ Flush
Spec == Init /\ [][Next]_vars
=============================================================================
