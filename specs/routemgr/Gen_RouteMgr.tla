---------------------------- MODULE Gen_RouteMgr ----------------------------
(* Behaviour generator for C43 (manager level): RouteMgr's actions over a concrete message universe with a
   history variable.  cover: one behaviour per transition of the abstract state graph (small universe);
   simulate: random walks over the large universe (all pool kinds, borrowed and tunnel addresses).   *)
EXTENDS RouteMgr, RouteUniverse, TLC, Json

CONSTANTS SimLen, Msgs, VtepAddrs, HostAddrs
VARIABLE hist
gvars == <<routes, vtep, host, parentKnown, hist>>

GInit == Init /\ hist = <<>>
Step(a, r) == a /\ hist' = Append(hist, r)

GNext ==
  \/ /\ Len(hist) = SimLen /\ hist' = Append(hist, [op |-> "end"]) /\ UNCHANGED vars
  \/ /\ Len(hist) < SimLen
     /\ \/ \E m \in Msgs : Step(RouteUpdate(m.dst, m.r), [op |-> "route_update", dst |-> m.dst, r |-> m.r])
        \/ \E d \in Dsts : routes[d].present /\ Step(RouteRemove(d), [op |-> "route_remove", dst |-> d])
        \/ \E n \in Nodes : \E a \in VtepAddrs[n] : Step(VtepUpdate(n, a), [op |-> "vtep_update", node |-> n, addr |-> a])
        \/ \E n \in Nodes : vtep[n].present /\ Step(VtepRemove(n), [op |-> "vtep_remove", node |-> n])
        \/ \E n \in Nodes : \E a \in HostAddrs[n] : Step(HostUpdate(n, a), [op |-> "host_update", node |-> n, ip |-> a])
        \/ \E n \in Nodes : host[n].present /\ Step(HostRemove(n), [op |-> "host_remove", node |-> n])
        \/ Step(Flush, [op |-> "flush"])

GView == <<routes, vtep, host, parentKnown>>
EmitEdge == PrintT("BEH " \o ToJson(hist'))
EmitAtLen == Len(hist) = SimLen + 1 => PrintT("BEH " \o ToJson(hist))
=============================================================================
