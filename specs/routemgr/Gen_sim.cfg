CONSTANTS
  Dsts <- GDsts
  Nodes = {"n1", "n2", "n3"}
  Host = "n1"
  Msgs <- MsgsBig
  VtepAddrs <- VtepBig
  HostAddrs <- HostBig
  SimLen = 30
INIT GInit
NEXT GNext
INVARIANT EmitAtLen
CHECK_DEADLOCK FALSE
