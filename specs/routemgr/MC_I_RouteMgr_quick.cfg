CONSTANTS
  Dsts <- DstsTiny
  Nodes = {"n1", "n2", "n3"}
  Host = "n1"
  Msgs <- MsgsTiny
  VtepAddrs <- VtepTiny
  HostAddrs <- HostCover
INIT IInit
NEXT INext
INVARIANT AcceptedWhenQuiescent
CHECK_DEADLOCK FALSE
