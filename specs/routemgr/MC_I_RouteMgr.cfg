CONSTANTS
  Dsts <- DstsMid
  Nodes = {"n1", "n2", "n3"}
  Host = "n1"
  Msgs <- MsgsMid
  VtepAddrs <- VtepCover
  HostAddrs <- HostMid
INIT IInit
NEXT INext
INVARIANT AcceptedWhenQuiescent
CHECK_DEADLOCK FALSE
