---------------------------- MODULE T_RouteMgr ----------------------------
(* Trace specification for C43 (manager level): replays the messages given to the real vxlanManager,
   ipipManager and noEncapManager (sharing one recording route table) against RouteMgr and requires that
   the route-table targets recorded per route class after each CompleteDeferredWork are accepted by
   RouteMgr!Accept (direct iff unencapsulated or SameSubnet, else tunnel with the owner's current peer
   address; blackholes for local blocks only, never a workload's own address; nothing else).        *)
EXTENDS TraceLib, FiniteSets

VARIABLES routes, vtep, host, parentKnown, cfg

TDsts == { Trace[i].dst : i \in { j \in 1..NTrace : Trace[j].ev \in {"route_update", "route_remove"} } }
TNodes == { Trace[i].node : i \in { j \in 1..NTrace : Trace[j].ev \in {"vtep_update", "vtep_remove", "host_update", "host_remove"} } }
          \cup { Trace[i].host : i \in { j \in 1..NTrace : Trace[j].ev = "reset" } }
\* all traces of one file use the same local node name
THost == Trace[1].host

D == INSTANCE RouteMgr WITH Dsts <- TDsts, Nodes <- TNodes, Host <- THost

NoCfg == [devs |-> [vxlan |-> "", ipip |-> "", none |-> "", parent |-> "", noif |-> ""]]

TInit == l = 1 /\ D!Init /\ cfg = NoCfg

TReset ==
    /\ IsEvent("reset") /\ Cur.host = THost
    /\ routes' = [d \in TDsts |-> D!NoRoute]
    /\ vtep' = [n \in TNodes |-> D!NoVtep]
    /\ host' = [n \in TNodes |-> D!NoHost]
    /\ parentKnown' = [k \in D!Kinds |-> FALSE]
    /\ cfg' = [devs |-> Cur.devs]
TRouteUpdate == IsEvent("route_update") /\ D!RouteUpdate(Cur.dst, Cur.r) /\ UNCHANGED cfg
TRouteRemove == IsEvent("route_remove") /\ D!RouteRemove(Cur.dst) /\ UNCHANGED cfg
TVtepUpdate  == IsEvent("vtep_update") /\ D!VtepUpdate(Cur.node, Cur.addr) /\ UNCHANGED cfg
TVtepRemove  == IsEvent("vtep_remove") /\ D!VtepRemove(Cur.node) /\ UNCHANGED cfg
THostUpdate  == IsEvent("host_update") /\ D!HostUpdate(Cur.node, Cur.ip) /\ UNCHANGED cfg
THostRemove  == IsEvent("host_remove") /\ D!HostRemove(Cur.node) /\ UNCHANGED cfg

\* ---- the recorded route table: a list of [class, iface, targets: list of [cidr, gw, type]] (non-empty only)
TunnelClass == [vxlan |-> "RouteClassVXLANTunnel", ipip |-> "RouteClassIPIPTunnel", none |-> "RouteClassNoEncap"]
DirectClass == [vxlan |-> "RouteClassVXLANSameSubnet", ipip |-> "RouteClassIPIPSameSubnet", none |-> "RouteClassNoEncap"]
BlackholeClass == [vxlan |-> "RouteClassBlackholeVXLAN", ipip |-> "RouteClassBlackholeIPIP", none |-> "RouteClassBlackholeNoEncap"]
Entries(tb) == SeqToSet(tb)
Targets(tb, class, iface) == UNION { SeqToSet(e.targets) : e \in { x \in Entries(tb) : x.class = class /\ x.iface = iface } }
GwOf(t) == [cidr |-> t.cidr, gw |-> t.gw]
OutOf(tb) ==
    [k \in D!Kinds |->
        [direct    |-> { GwOf(t) : t \in Targets(tb, DirectClass[k], cfg.devs.parent) },
         \* the no-encap manager has no tunnel device: nothing may ever be programmed as its "tunnel"
         tunnel    |-> IF k = "none" THEN {} ELSE { GwOf(t) : t \in Targets(tb, TunnelClass[k], cfg.devs[k]) },
         blackhole |-> { [cidr |-> t.cidr, type |-> t.type] : t \in Targets(tb, BlackholeClass[k], cfg.devs.noif) }]]
\* every recorded entry sits on the device its class belongs to, and lists a destination once
ExpectedPairs ==
    { <<DirectClass[k], cfg.devs.parent>> : k \in D!Kinds } \cup { <<TunnelClass[k], cfg.devs[k]>> : k \in {"vxlan", "ipip"} }
    \cup { <<BlackholeClass[k], cfg.devs.noif>> : k \in D!Kinds }
WellPlaced(tb) ==
    /\ \A e \in Entries(tb) : <<e.class, e.iface>> \in ExpectedPairs
    /\ \A e \in Entries(tb) : Cardinality({ t.cidr : t \in SeqToSet(e.targets) }) = Len(e.targets)
    /\ Cardinality({ <<e.class, e.iface>> : e \in Entries(tb) }) = Len(tb)
    \* direct routes are no-encap targets, blackholes are blackhole targets (checked in Accept)
    /\ \A k \in D!Kinds : \A t \in Targets(tb, DirectClass[k], cfg.devs.parent) : t.type = "noencap"

TFlush ==
    /\ IsEvent("flush")
    /\ D!Flush
    /\ UNCHANGED cfg
    /\ WellPlaced(Cur.tables)
    /\ D!Accept(OutOf(Cur.tables), parentKnown')

\* a "panic" event (the real manager panicked; logged by the driver) has no action: such a trace is rejected
TNext == TReset \/ TRouteUpdate \/ TRouteRemove \/ TVtepUpdate \/ TVtepRemove \/ THostUpdate \/ THostRemove \/ TFlush
=============================================================================
