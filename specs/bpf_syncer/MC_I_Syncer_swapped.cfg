\* NOT part of the check: demonstrates that the design spec refutes the phase order 1,4,3,2
\* (stale backends deleted before the frontends are rewritten): TLC reports CountInv violated.
CONSTANTS
  Svcs = {1, 2}
  Eps = {1, 2}
  Opts = {"np"}
  EpStates = {"none", "rl", "rr", "nr"}
  InitEpStates = {"rl", "rr"}
  NPIPs = {"192.168.0.1"}
  MaxChanges = 2
  MaxCrashes = 1
  Order <- OrderSwapped
INIT Init
NEXT Next
INVARIANTS CountInv KeysUnique ExactAtDone
CHECK_DEADLOCK FALSE
