------------------------------ MODULE I_Syncer ------------------------------
(* C42 implementation layer: felix/bpf/proxy/syncer.go transcribed at the grain of ONE ACTION PER MAP
   WRITE.

     Apply(state)
       first Apply of a Syncer  -> startupSync: load both maps, adopt the ids of the frontends that
                                   match a service of `state` (startupBuildPrev; two services sharing an
                                   id are both re-numbered), nextSvcID = 1 + max adopted id
       apply():  build the desired maps in memory (applySvc / updateService / applyDerived):
                   id      = previous id if the service existed and is unchanged, else newSvcID()
                   backends (id, 0..) = ready local endpoints, then ready remote ones
                   frontends: cluster IP, every external IP, every LB IP, node port x every node-port IP
                 phase 1  bpfSvcs.ApplyDeletionsOnly   - delete stale frontends
                 phase 2  bpfEps.ApplyUpdatesOnly      - write new / changed backends
                 phase 3  bpfSvcs.ApplyUpdatesOnly     - write new / changed frontends
                 phase 4  bpfEps.ApplyDeletionsOnly    - delete stale backends
               (the Maglev map between 2 and 3 is not modelled: no service uses it here)
       the order of writes inside a phase is the iteration order of a Go map: any order.

   Crash = the process dies between two writes (or while idle = plain restart); nothing but the maps
   survives; the next Apply is the first Apply of a new Syncer.

   TLC checks that the property layer's invariants hold here: P!CountInv in every state (= after every
   single write), and P!Exact(desired) whenever a sync has completed (pc = "done").
   `Order` permutes the four phases: <<1,2,3,4>> is the code; MC_I_Syncer_swapped.cfg shows that TLC
   refutes <<1,4,3,2>> (DESIGN's mutant "swapping phases 2 and 4").                                 *)
EXTENDS Integers, FiniteSets, Sequences, TLC

CONSTANTS Svcs,          \* service numbers, e.g. {1, 2}
          Eps,           \* endpoint numbers per service, e.g. {1, 2, 3}
          Opts,          \* which of "ext", "lb", "np", "xl" the environment may switch on
          EpStates,      \* endpoint states the environment uses, subset of {"none","rl","rr","nl","nr"}
          InitEpStates,  \* endpoint states a new service may start with
          NPIPs,         \* node-port IPs of the Syncer
          MaxChanges,    \* bound on environment edits
          MaxCrashes,    \* bound on crashes / restarts
          Order          \* phase order, <<1,2,3,4>> in the code

VARIABLES dsvc,          \* desired: [Svcs -> [on, ext, lb, np, xl : BOOLEAN]]
          dep,           \* desired: [Svcs \X Eps -> {"none","rl","rr","nl","nr"}]  ready/notready x local/remote
          fe, be,        \* the two BPF maps (property-layer format)
          synced,        \* Syncer.synced: FALSE for a fresh Syncer
          nextId,        \* Syncer.nextSvcID
          prev,          \* Syncer.prevSvcMap restricted to primary entries: [Svcs -> [has, id, cfg]]
          pc,            \* "idle" | "p1".."p4" (index into Order) | "done"
          wantFe, wantBe,\* the desired maps of the running apply()
          nchg, ncrash

ivars == <<dsvc, dep, fe, be, synced, nextId, prev, pc, wantFe, wantBe, nchg, ncrash>>

ZeroSrc == "0.0.0.0/0"
P == INSTANCE Syncer

CfgOff == [on |-> FALSE, ext |-> FALSE, lb |-> FALSE, np |-> FALSE, xl |-> FALSE]
NoPrev == [s \in Svcs |-> [has |-> FALSE, id |-> 0, cfg |-> CfgOff]]

\* ---- concrete addressing (opaque to the property layer) -----------------------------------------------
CIP(s) == "cip" \o ToString(s)
EXT(s) == "ext" \o ToString(s)
LBIP(s) == "lb" \o ToString(s)
NPort(s) == 30000 + s
EpIP(s, e) == "ep" \o ToString(s) \o "." \o ToString(e)

On == { s \in Svcs : dsvc[s].on }

\* the desired state in the property layer's format
SvcRec(s) == [cip |-> CIP(s), port |-> 80, proto |-> 6,
              ext |-> IF dsvc[s].ext THEN {EXT(s)} ELSE {},
              lb |-> IF dsvc[s].lb THEN {LBIP(s)} ELSE {},
              np |-> IF dsvc[s].np THEN NPort(s) ELSE 0,
              xl |-> dsvc[s].xl,
              eps |-> { [ip |-> EpIP(s, e), port |-> 8080, ready |-> dep[s, e] \in {"rl", "rr"}, local |-> dep[s, e] \in {"rl", "nl"}]
                        : e \in { x \in Eps : dep[s, x] # "none" } }]
Desired == [npips |-> NPIPs, svcs |-> { SvcRec(s) : s \in On }]

\* ---- updateService: ready local endpoints first, then ready remote ones (slice order = Eps order) -----
RECURSIVE SeqOf(_)
SeqOf(S) == IF S = {} THEN <<>> ELSE LET m == CHOOSE x \in S : \A y \in S : x <= y IN <<m>> \o SeqOf(S \ {m})
BackendList(s) == SeqOf({ e \in Eps : dep[s, e] = "rl" }) \o SeqOf({ e \in Eps : dep[s, e] = "rr" })
LocalCount(s) == Cardinality({ e \in Eps : dep[s, e] = "rl" })

BackendsOf(s, id) == LET bl == BackendList(s) IN
    { [id |-> id, idx |-> i - 1, ip |-> EpIP(s, bl[i]), port |-> 8080] : i \in 1..Len(bl) }
Front(ip, port, s, id, xl) ==
    [ip |-> ip, port |-> port, proto |-> 6, src |-> ZeroSrc, id |-> id,
     count |-> Len(BackendList(s)), local |-> LocalCount(s), xl |-> xl]
FrontendsOf(s, id) ==
    {Front(CIP(s), 80, s, id, FALSE)}                                                \* applySvc -> writeSvc
    \cup (IF dsvc[s].lb THEN {Front(LBIP(s), 80, s, id, dsvc[s].xl)} ELSE {})         \* applyDerived LoadBalancer
    \cup (IF dsvc[s].ext THEN {Front(EXT(s), 80, s, id, FALSE)} ELSE {})              \* applyDerived ExternalIP: no local flag
    \cup (IF dsvc[s].np THEN { Front(n, NPort(s), s, id, dsvc[s].xl) : n \in NPIPs } ELSE {})

\* ---- startupBuildPrev ------------------------------------------------------------------------------------
\* keys that svcMapToIPPortProtoMap cross-references (NB: not the LB IPs) and matchBpfSvc resolves
MatchedOf(s) == { f \in fe :
    \/ P!FKey(f) = P!Key(CIP(s), 80, 6)
    \/ dsvc[s].ext /\ P!FKey(f) = P!Key(EXT(s), 80, 6)
    \/ dsvc[s].np /\ \E n \in NPIPs : P!FKey(f) = P!Key(n, NPort(s), 6) }
Matched == UNION { MatchedOf(s) : s \in On }
DupIds == { i \in { f.id : f \in Matched } : \E s, t \in On : s # t /\ (\E f \in MatchedOf(s) : f.id = i) /\ (\E f \in MatchedOf(t) : f.id = i) }
StartupPrev == [s \in Svcs |->
    LET pf == { f \in fe : P!FKey(f) = P!Key(CIP(s), 80, 6) } IN
    IF s \in On /\ pf # {} /\ (CHOOSE f \in pf : TRUE).id \notin DupIds
      THEN [has |-> TRUE, id |-> (CHOOSE f \in pf : TRUE).id, cfg |-> dsvc[s]]
      ELSE [has |-> FALSE, id |-> 0, cfg |-> CfgOff]]
SetMax(S) == CHOOSE x \in S : \A y \in S : y <= x
StartupNextId == IF Matched = {} THEN 0 ELSE SetMax({ f.id : f \in Matched }) + 1

\* ---- environment -------------------------------------------------------------------------------------------
Cfgs == { c \in [on : {TRUE}, ext : BOOLEAN, lb : BOOLEAN, np : BOOLEAN, xl : BOOLEAN] :
            /\ (c.ext => "ext" \in Opts) /\ (c.lb => "lb" \in Opts)
            /\ (c.np => "np" \in Opts) /\ (c.xl => "xl" \in Opts) }

EnvSvcOn(s, c, a) ==     \* service added, together with its first endpoints
    /\ pc = "idle" /\ nchg < MaxChanges /\ ~dsvc[s].on
    /\ dsvc' = [dsvc EXCEPT ![s] = c]
    /\ dep' = [x \in Svcs \X Eps |-> IF x[1] = s THEN a[x[2]] ELSE dep[x]]
    /\ nchg' = nchg + 1
    /\ UNCHANGED <<fe, be, synced, nextId, prev, pc, wantFe, wantBe, ncrash>>

EnvSvcCfg(s, c) ==       \* external IP / LB IP / node port / externalTrafficPolicy changed
    /\ pc = "idle" /\ nchg < MaxChanges /\ dsvc[s].on /\ c # dsvc[s]
    /\ dsvc' = [dsvc EXCEPT ![s] = c]
    /\ nchg' = nchg + 1
    /\ UNCHANGED <<dep, fe, be, synced, nextId, prev, pc, wantFe, wantBe, ncrash>>

EnvSvcOff(s) ==          \* service deleted (its endpoints go with it)
    /\ pc = "idle" /\ nchg < MaxChanges /\ dsvc[s].on
    /\ dsvc' = [dsvc EXCEPT ![s] = CfgOff]
    /\ dep' = [x \in Svcs \X Eps |-> IF x[1] = s THEN "none" ELSE dep[x]]
    /\ nchg' = nchg + 1
    /\ UNCHANGED <<fe, be, synced, nextId, prev, pc, wantFe, wantBe, ncrash>>

EnvEp(s, e, st) ==       \* endpoint added / removed / readiness flip / local flip
    /\ pc = "idle" /\ nchg < MaxChanges /\ dsvc[s].on /\ st # dep[s, e]
    /\ dep' = [dep EXCEPT ![s, e] = st]
    /\ nchg' = nchg + 1
    /\ UNCHANGED <<dsvc, fe, be, synced, nextId, prev, pc, wantFe, wantBe, ncrash>>

\* ---- Apply ---------------------------------------------------------------------------------------------------
PhaseName(i) == IF i > 4 THEN "done" ELSE <<"p1", "p2", "p3", "p4">>[i]
PhaseIdx == CASE pc = "p1" -> 1 [] pc = "p2" -> 2 [] pc = "p3" -> 3 [] pc = "p4" -> 4 [] OTHER -> 0
Phase == IF PhaseIdx = 0 THEN 0 ELSE Order[PhaseIdx]     \* which of the code's four phases runs now

StartApply ==
    /\ pc = "idle"
    /\ LET pv == IF synced THEN prev ELSE StartupPrev
           nid == IF synced THEN nextId ELSE StartupNextId
           keep == { s \in On : pv[s].has /\ pv[s].cfg = dsvc[s] }
           fresh == On \ keep
       IN  \* state.SvcMap is a Go map: fresh ids are handed out in any order
           \E asg \in [fresh -> nid..(nid + Cardinality(fresh) - 1)] :
              /\ \A s, t \in fresh : s # t => asg[s] # asg[t]
              /\ LET idOf(s) == IF s \in keep THEN pv[s].id ELSE asg[s] IN
                 /\ wantBe' = UNION { BackendsOf(s, idOf(s)) : s \in On }
                 /\ wantFe' = UNION { FrontendsOf(s, idOf(s)) : s \in On }
                 /\ prev' = [s \in Svcs |-> IF s \in On THEN [has |-> TRUE, id |-> idOf(s), cfg |-> dsvc[s]]
                                                         ELSE [has |-> FALSE, id |-> 0, cfg |-> CfgOff]]
              /\ nextId' = nid + Cardinality(fresh)
    /\ pc' = "p1"
    /\ UNCHANGED <<dsvc, dep, fe, be, synced, nchg, ncrash>>

Same == <<dsvc, dep, synced, nextId, prev, wantFe, wantBe, nchg, ncrash>>

\* phase 1: one stale frontend deleted
DelFrontend(f) ==
    /\ Phase = 1 /\ f \in fe /\ ~\E w \in wantFe : P!FKey(w) = P!FKey(f)
    /\ P!FeDelete(P!FKey(f))
    /\ UNCHANGED <<pc, Same>>
\* phase 2: one new / changed backend written
PutBackend(b) ==
    /\ Phase = 2 /\ b \in wantBe /\ b \notin be
    /\ P!BeUpdate(b)
    /\ UNCHANGED <<pc, Same>>
\* phase 3: one new / changed frontend written
PutFrontend(f) ==
    /\ Phase = 3 /\ f \in wantFe /\ f \notin fe
    /\ P!FeUpdate(f)
    /\ UNCHANGED <<pc, Same>>
\* phase 4: one stale backend deleted
DelBackend(b) ==
    /\ Phase = 4 /\ b \in be /\ ~\E w \in wantBe : P!BKey(w) = P!BKey(b)
    /\ P!BeDelete(P!BKey(b))
    /\ UNCHANGED <<pc, Same>>

PhaseEmpty ==
    CASE Phase = 1 -> \A f \in fe : \E w \in wantFe : P!FKey(w) = P!FKey(f)
      [] Phase = 2 -> wantBe \subseteq be
      [] Phase = 3 -> wantFe \subseteq fe
      [] Phase = 4 -> \A b \in be : \E w \in wantBe : P!BKey(w) = P!BKey(b)
      [] OTHER -> FALSE
NextPhase ==             \* the ApplyXxxOnly call returns
    /\ PhaseIdx # 0 /\ PhaseEmpty
    /\ pc' = PhaseName(PhaseIdx + 1)
    /\ UNCHANGED <<fe, be, Same>>

Finish ==                \* Apply returns nil
    /\ pc = "done"
    /\ pc' = "idle" /\ synced' = TRUE
    /\ UNCHANGED <<dsvc, dep, fe, be, nextId, prev, wantFe, wantBe, nchg, ncrash>>

Crash ==                 \* the process dies (mid-sync, or idle = restart); a new Syncer will re-read the maps
    /\ ncrash < MaxCrashes
    /\ pc # "idle" \/ synced            \* restarting a Syncer that never ran changes nothing
    /\ ncrash' = ncrash + 1
    /\ pc' = "idle" /\ synced' = FALSE /\ nextId' = 0 /\ prev' = NoPrev
    /\ wantFe' = {} /\ wantBe' = {}
    /\ UNCHANGED <<dsvc, dep, fe, be, nchg>>

Init ==
    /\ dsvc = [s \in Svcs |-> CfgOff] /\ dep = [x \in Svcs \X Eps |-> "none"]
    /\ P!Init
    /\ synced = FALSE /\ nextId = 0 /\ prev = NoPrev /\ pc = "idle"
    /\ wantFe = {} /\ wantBe = {} /\ nchg = 0 /\ ncrash = 0

DelFrontends == \E f \in fe : DelFrontend(f)
PutBackends == \E b \in wantBe : PutBackend(b)
PutFrontends == \E f \in wantFe : PutFrontend(f)
DelBackends == \E b \in be : DelBackend(b)
Write == DelFrontends \/ PutBackends \/ PutFrontends \/ DelBackends
Env == \/ \E s \in Svcs, c \in Cfgs, a \in [Eps -> InitEpStates] : EnvSvcOn(s, c, a)
       \/ \E s \in Svcs, c \in Cfgs : EnvSvcCfg(s, c)
       \/ \E s \in Svcs : EnvSvcOff(s)
       \/ \E s \in Svcs, e \in Eps, st \in EpStates : EnvEp(s, e, st)

Next == \/ \E s \in Svcs, c \in Cfgs, a \in [Eps -> InitEpStates] : EnvSvcOn(s, c, a)
        \/ \E s \in Svcs, c \in Cfgs : EnvSvcCfg(s, c)
        \/ \E s \in Svcs : EnvSvcOff(s)
        \/ \E s \in Svcs, e \in Eps, st \in EpStates : EnvEp(s, e, st)
        \/ StartApply
        \/ DelFrontends \/ PutBackends \/ PutFrontends \/ DelBackends
        \/ NextPhase \/ Finish \/ Crash

Spec == Init /\ [][Next]_ivars

OrderCode == <<1, 2, 3, 4>>
OrderSwapped == <<1, 4, 3, 2>>        \* stale backends deleted before the frontends are updated

\* ---- what TLC checks ------------------------------------------------------------------------------------------
CountInv == P!CountInv                                   \* after every single write
KeysUnique == P!KeysUnique
ExactAtDone == pc = "done" => (P!WellFormed(Desired) /\ P!Exact(Desired))   \* after a completed sync
=============================================================================
