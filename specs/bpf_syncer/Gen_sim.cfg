CONSTANTS
  Svcs = {1, 2}
  Eps = {1, 2, 3}
  Opts = {"ext", "lb", "np", "xl"}
  EpStates = {"none", "rl", "rr", "nl", "nr"}
  InitEpStates = {"none", "rl", "rr"}
  NPIPs = {"192.168.0.1", "255.255.255.255"}
  MaxChanges = 1000
  MaxCrashes = 1000
  Order <- OrderCode
  SimLen = 8
  CrashAny = FALSE
  MaxK = 10
  RestartOdds = 3
  MaxPend = 3
INIT GInit
NEXT GNext
INVARIANT EmitAtLen
CHECK_DEADLOCK FALSE
