----------------------------- MODULE Gen_Syncer -----------------------------
(* Behaviour generator for C42 (leg A): module I_Syncer plus a history of what the ENVIRONMENT did.
   A behaviour is a sequence of
       [op |-> "sync",  svcs |-> <desired state>]            a complete Apply of that desired state
       [op |-> "crash", svcs |-> <desired state>, k |-> n]    Apply of that state, the process dies after
                                                              n map writes; a new Syncer follows
       [op |-> "restart"]                                     a new Syncer on the same maps
   Only the desired state and the crash point are taken from the model; ids, the order of writes and
   the expected map contents are NOT part of a behaviour (the real code decides them, module Syncer
   judges them).

   Gen_cover.cfg: exhaustive; VIEW without the history and ACTION_CONSTRAINT EmitEdge print, for every
     transition of I_Syncer's state graph that ends an Apply (completion, crash at every reachable
     write point) or restarts, the history reaching it: every crash point of every reachable sync.
   Gen_sim.cfg: `-simulate`; each random walk is printed when it has SimLen entries.  CrashOdds thins
     crashes (a coin drawn at StartApply), MaxPend bounds the edits between two syncs.            *)
EXTENDS I_Syncer, Json

CONSTANTS SimLen, CrashOdds, MaxPend
VARIABLES hist,     \* the behaviour so far
          nw,       \* map writes of the running Apply
          coin,     \* 1 = this Apply may crash
          pend      \* edits since the last Apply started
gvars == <<ivars, hist, nw, coin, pend>>

SetToSeq(S) == SeqOf(S)
EpsOf(s) == LET E == { e \in Eps : dep[s, e] # "none" } IN
            [i \in 1..Cardinality(E) |-> [e |-> SetToSeq(E)[i], st |-> dep[s, SetToSeq(E)[i]]]]
SvcOf(s) == [s |-> s, ext |-> dsvc[s].ext, lb |-> dsvc[s].lb, np |-> dsvc[s].np, xl |-> dsvc[s].xl, eps |-> EpsOf(s)]
DesiredSeq == [i \in 1..Cardinality(On) |-> SvcOf(SetToSeq(On)[i])]

GInit == Init /\ hist = <<>> /\ nw = 0 /\ coin = 0 /\ pend = 0

Going == Len(hist) < SimLen

GNext ==
    \/ /\ Len(hist) = SimLen /\ hist' = Append(hist, [op |-> "end"]) /\ UNCHANGED <<ivars, nw, coin, pend>>
    \/ /\ Going /\ pend < MaxPend /\ Env /\ pend' = pend + 1 /\ UNCHANGED <<hist, nw, coin>>
    \/ /\ Going /\ (pend > 0 \/ ~synced) /\ StartApply /\ nw' = 0 /\ pend' = 0 /\ coin' \in 1..CrashOdds /\ UNCHANGED hist
    \/ /\ Going /\ Write /\ nw' = nw + 1 /\ UNCHANGED <<hist, coin, pend>>
    \/ /\ Going /\ NextPhase /\ UNCHANGED <<hist, nw, coin, pend>>
    \/ /\ Going /\ Finish /\ hist' = Append(hist, [op |-> "sync", svcs |-> DesiredSeq]) /\ UNCHANGED <<nw, coin, pend>>
    \/ /\ Going /\ pc # "idle" /\ coin = 1 /\ nw > 0 /\ Crash        \* (a crash before the first write = restart)
       /\ hist' = Append(hist, [op |-> "crash", k |-> nw, svcs |-> DesiredSeq]) /\ UNCHANGED <<nw, coin, pend>>
    \/ /\ Going /\ pc = "idle" /\ pend = 0 /\ Crash
       /\ hist' = Append(hist, [op |-> "restart"]) /\ UNCHANGED <<nw, coin, pend>>

GView == <<ivars, pend>>
EmitEdge == (hist' # hist) => PrintT("BEH " \o ToJson(hist'))
EmitAtLen == Len(hist) = SimLen + 1 => PrintT("BEH " \o ToJson(hist))
=============================================================================
