----------------------------- MODULE Gen_Syncer -----------------------------
(* Behaviour generator for C42 (leg A): module I_Syncer plus a history of what the ENVIRONMENT did.
   A behaviour is a sequence of
       [op |-> "sync",  svcs |-> <desired state>]            a complete Apply of that desired state
       [op |-> "crash", svcs |-> <desired state>, k |-> n]    Apply of that state, the process dies after
                                                              n map writes; a new Syncer follows
       [op |-> "restart"]                                     a new Syncer on the same maps
   Only the desired state and the crash point are taken from the model; ids, the order of writes and
   the expected map contents are NOT part of a behaviour (the real code decides them, module Syncer
   judges them).

   Gen_cover.cfg: exhaustive; VIEW without the history and ACTION_CONSTRAINT EmitEdge print, for every
     transition of I_Syncer's state graph that ends an Apply (completion, crash at every reachable
     write point) or restarts, the history reaching it: every crash point of every reachable sync.
   Gen_sim.cfg: `-simulate`; each random walk is printed when it has SimLen entries.  The crash point
     of an Apply is drawn when it starts (uniform over 1..3*MaxK; an Apply with fewer writes completes), restarts
     are thinned by RestartOdds, MaxPend bounds the edits between two syncs.                      *)
EXTENDS I_Syncer, Json

CONSTANTS SimLen,       \* behaviour length (entries)
          MaxPend,      \* edits between two syncs
          CrashAny,     \* TRUE: an Apply may crash after any write (exhaustive cover);
                        \* FALSE: the crash point is drawn when the Apply starts (simulation)
          MaxK,         \* simulation: crash points are drawn from 0..3*MaxK (0 = none)
          RestartOdds   \* simulation: a restart is possible after one completed sync in RestartOdds
VARIABLES hist,     \* the behaviour so far
          nw,       \* map writes of the running Apply
          coin,     \* simulation: planned crash point of the running Apply (0: none)
          rcoin,    \* simulation: 1 = a restart may follow
          pend      \* edits since the last Apply started
gvars == <<ivars, hist, nw, coin, rcoin, pend>>

SetToSeq(S) == SeqOf(S)
EpsOf(s) == LET E == { e \in Eps : dep[s, e] # "none" } IN
            [i \in 1..Cardinality(E) |-> [e |-> SetToSeq(E)[i], st |-> dep[s, SetToSeq(E)[i]]]]
SvcOf(s) == [s |-> s, ext |-> dsvc[s].ext, lb |-> dsvc[s].lb, np |-> dsvc[s].np, xl |-> dsvc[s].xl, eps |-> EpsOf(s)]
DesiredSeq == [i \in 1..Cardinality(On) |-> SvcOf(SetToSeq(On)[i])]

GInit == Init /\ hist = <<>> /\ nw = 0 /\ coin = 0 /\ rcoin = 1 /\ pend = 0

Going == Len(hist) < SimLen
CrashNow == pc # "idle" /\ nw > 0 /\ (CrashAny \/ nw = coin)   \* (a crash before the first write = restart)
Forced == ~CrashAny /\ CrashNow                                \* simulation: the planned point is reached

GNext ==
    \/ /\ Len(hist) = SimLen /\ hist' = Append(hist, [op |-> "end"]) /\ UNCHANGED <<ivars, nw, coin, rcoin, pend>>
    \/ /\ Going /\ pend < MaxPend /\ Env /\ pend' = pend + 1 /\ UNCHANGED <<hist, nw, coin, rcoin>>
    \/ /\ Going /\ (pend > 0 \/ ~synced) /\ StartApply /\ nw' = 0 /\ pend' = 0
       /\ coin' \in (IF CrashAny THEN {0} ELSE 0..(3 * MaxK)) /\ UNCHANGED <<hist, rcoin>>
    \/ /\ Going /\ ~Forced /\ Write /\ nw' = nw + 1 /\ UNCHANGED <<hist, coin, rcoin, pend>>
    \/ /\ Going /\ ~Forced /\ NextPhase /\ UNCHANGED <<hist, nw, coin, rcoin, pend>>
    \/ /\ Going /\ Finish /\ hist' = Append(hist, [op |-> "sync", svcs |-> DesiredSeq])
       /\ rcoin' \in 1..RestartOdds /\ UNCHANGED <<nw, coin, pend>>
    \/ /\ Going /\ CrashNow /\ Crash
       /\ hist' = Append(hist, [op |-> "crash", k |-> nw, svcs |-> DesiredSeq]) /\ UNCHANGED <<nw, coin, rcoin, pend>>
    \/ /\ Going /\ pc = "idle" /\ pend = 0 /\ rcoin = 1 /\ Crash
       /\ hist' = Append(hist, [op |-> "restart"]) /\ UNCHANGED <<nw, coin, rcoin, pend>>

GView == <<ivars, pend>>
EmitEdge == (hist' # hist) => PrintT("BEH " \o ToJson(hist'))
EmitAtLen == Len(hist) = SimLen + 1 => PrintT("BEH " \o ToJson(hist))
=============================================================================
