------------------------------- MODULE Syncer -------------------------------
(* C42 property layer.  The BPF service load-balancing state is two maps:

     frontends  (ip, port, proto, src)  |->  [id, count, local, xl]
     backends   (id, idx)               |->  (ip, port)

   kept here as two sets of records (key fields + value fields in one record; KeysUnique says they are
   maps).  A frontend with id i and count n designates the backends (i,0) .. (i,n-1); when its
   external-local flag `xl` is set the dataplane uses only the first `local` of them for external
   clients.

   The property has two halves:
     CountInv  - an INVARIANT of every state, i.e. it must hold after EVERY individual map write
                 (each write is its own action below; who writes and in which order is left open);
     Exact(D)  - the condition of the SyncDone action: when a sync of the desired state D completes,
                 every frontend of every service lists exactly the service's ready endpoints (local ones
                 first; node ports and load-balancer IPs are local-only under externalTrafficPolicy:
                 Local) and nothing stale is left in either map.

   Deliberately NOT demanded (the statement does not fix them): which id a service gets, that the
   frontends of one service share an id, the order among local / among remote endpoints, the order of
   writes, the value of `local` on a frontend that is not local-only, whether external IPs honour
   externalTrafficPolicy, and whether a service without any ready endpoint has frontends at all
   (absent, or present with count 0, are both "lists exactly nothing").                        *)
EXTENDS Integers, FiniteSets, Sequences, TLC

CONSTANT ZeroSrc            \* the "any source" CIDR part of a frontend key

VARIABLES fe, be
vars == <<fe, be>>

FKey(f) == <<f.ip, f.port, f.proto, f.src>>
BKey(b) == <<b.id, b.idx>>

KeysUnique == /\ \A f, g \in fe : FKey(f) = FKey(g) => f = g
              /\ \A a, b \in be : BKey(a) = BKey(b) => a = b

HasBackend(id, i) == \E b \in be : b.id = id /\ b.idx = i

\* ---- half 1: after every single write --------------------------------------------------------------
CountInv == \A f \in fe : \A i \in 0..(f.count - 1) : HasBackend(f.id, i)

Init == fe = {} /\ be = {}

\* one action per single map write / delete
FeUpdate(f) == fe' = { g \in fe : FKey(g) # FKey(f) } \cup {f} /\ UNCHANGED be
FeDelete(k) == fe' = { g \in fe : FKey(g) # k } /\ UNCHANGED be
BeUpdate(b) == be' = { a \in be : BKey(a) # BKey(b) } \cup {b} /\ UNCHANGED fe
BeDelete(k) == be' = { a \in be : BKey(a) # k } /\ UNCHANGED fe

\* ---- half 2: after a completed sync -----------------------------------------------------------------
(* D = [npips : set of node-port IPs,
        svcs  : set of [cip, port, proto, ext : set of IPs, lb : set of IPs, np : node port or 0,
                        xl : externalTrafficPolicy Local, eps : set of [ip, port, ready, local]]]      *)
Addr(e) == <<e.ip, e.port>>
Ready(s) == { e \in s.eps : e.ready }
ReadyAddrs(s) == { Addr(e) : e \in Ready(s) }
LocalAddrs(s) == { Addr(e) : e \in { x \in Ready(s) : x.local } }

Key(ip, port, proto) == <<ip, port, proto, ZeroSrc>>
\* the frontends a service must have: <<key, kind>>
Fronts(s, npips) ==
    {<<Key(s.cip, s.port, s.proto), "cluster">>}
    \cup { <<Key(x, s.port, s.proto), "external">> : x \in s.ext }
    \cup { <<Key(x, s.port, s.proto), "lb">> : x \in s.lb }
    \cup (IF s.np = 0 THEN {} ELSE { <<Key(x, s.np, s.proto), "nodeport">> : x \in npips })

\* environment assumption: endpoints of one service have distinct addresses, frontends are not shared
WellFormed(D) ==
    /\ \A s \in D.svcs : Cardinality(ReadyAddrs(s)) = Cardinality(Ready(s))
    /\ \A s, t \in D.svcs : s # t =>
          { w[1] : w \in Fronts(s, D.npips) } \cap { w[1] : w \in Fronts(t, D.npips) } = {}

\* addresses found at backend indexes 0 .. n-1 of frontend f
Listed(f, n) == { <<b.ip, b.port>> : b \in { x \in be : x.id = f.id /\ x.idx < n } }

FrontOK(f, s, kind) ==
    LET nr == Cardinality(ReadyAddrs(s))
        nl == Cardinality(LocalAddrs(s))
        mustLocal == s.xl /\ kind \in {"lb", "nodeport"}
    IN  /\ f.count = nr
        /\ \A i \in 0..(nr - 1) : HasBackend(f.id, i)
        /\ Listed(f, nr) = ReadyAddrs(s)        \* nr indexes onto nr addresses: each ready endpoint exactly once
        /\ Listed(f, nl) = LocalAddrs(s)        \* local ones first
        /\ mustLocal => (f.xl /\ f.local = nl)  \* local-only where the traffic policy requires it
        /\ ~s.xl => ~f.xl                       \* ... and only there

NoStaleFrontend(D) ==
    LET want == UNION { Fronts(s, D.npips) : s \in D.svcs }
    IN  \A f \in fe : \E w \in want : w[1] = FKey(f)
NoStaleBackend == \A b \in be : \E f \in fe : f.id = b.id /\ b.idx < f.count
FrontendsExact(D) ==
    \A s \in D.svcs : \A w \in Fronts(s, D.npips) :
        LET fs == { f \in fe : FKey(f) = w[1] }
        IN  /\ ReadyAddrs(s) # {} => fs # {}
            /\ \A f \in fs : FrontOK(f, s, w[2])

Exact(D) == NoStaleFrontend(D) /\ FrontendsExact(D) /\ NoStaleBackend

SyncDone(D) == WellFormed(D) /\ Exact(D) /\ UNCHANGED vars
=============================================================================
