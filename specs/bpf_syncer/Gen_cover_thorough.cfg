CONSTANTS
  Svcs = {1, 2}
  Eps = {1, 2}
  Opts = {"np"}
  EpStates = {"none", "rl", "rr", "nr"}
  InitEpStates = {"none", "rl", "rr"}
  NPIPs = {"192.168.0.1"}
  MaxChanges = 2
  MaxCrashes = 1
  Order <- OrderCode
  SimLen = 50
  CrashAny = TRUE
  MaxK = 1
  RestartOdds = 1
  MaxPend = 2
INIT GInit
NEXT GNext
VIEW GView
ACTION_CONSTRAINT EmitEdge
CHECK_DEADLOCK FALSE
