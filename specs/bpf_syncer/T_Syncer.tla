------------------------------ MODULE T_Syncer ------------------------------
(* Trace specification for C42.  Every line recorded from the real felix/bpf/proxy.Syncer running over
   the recording maps is replayed against the property layer (module Syncer):

     write      one single Update / Delete of the frontend or the backend map.  The event carries the
                written record and the FULL decoded content of both maps after the write; the spec
                requires that content to be exactly "the previous content with this one write applied"
                (binding: no write is missing from the trace) and CountInv must hold in it - after
                every single write.  (CountInv is stated as the postcondition of the write step rather
                than as a cfg INVARIANT so that the rejected event is the offending write itself; the
                maps change in no other step.);
     sync_done  Apply returned.  With ok (returned nil) the completed-sync condition Exact(D) of module
                Syncer is evaluated for the desired state D that was handed to Apply; D is logged by
                the driver as reported by the service / endpoint objects themselves.  A crashed Apply
                only has to leave the maps as the last write left them;
     start      a new Syncer was created on the same maps (nothing changes);
     reset      new trace: empty maps.

   All semantics (ready endpoints, local-first, local-only, which frontends must exist, flag bits) is
   in TLA+; the driver only converts bytes to records.                                             *)
EXTENDS TraceLib, FiniteSets, Integers

VARIABLES fe, be
vars == <<fe, be>>

D == INSTANCE Syncer WITH ZeroSrc <- "0.0.0.0/0"

\* nat.NATFlgExternalLocal = 0x1
ExtLocalFlag(flags) == flags % 2 = 1

FeKeyOf(r) == <<r.ip, r.port, r.proto, r.src>>
FeRec(r) == [ip |-> r.ip, port |-> r.port, proto |-> r.proto, src |-> r.src,
             id |-> r.id, count |-> r.count, local |-> r.local, xl |-> ExtLocalFlag(r.flags)]
BeRec(r) == [id |-> r.id, idx |-> r.idx, ip |-> r.ip, port |-> r.port]
ToFe(seq) == { FeRec(seq[i]) : i \in DOMAIN seq }
ToBe(seq) == { BeRec(seq[i]) : i \in DOMAIN seq }

ToSvc(r) == [cip |-> r.cip, port |-> r.port, proto |-> r.proto,
             ext |-> SeqToSet(r.ext), lb |-> SeqToSet(r.lb), np |-> r.np, xl |-> r.etplocal,
             eps |-> { [ip |-> r.eps[i].ip, port |-> r.eps[i].port, ready |-> r.eps[i].ready, local |-> r.eps[i].local]
                       : i \in DOMAIN r.eps }]
ToDesired(e) == [npips |-> SeqToSet(e.npips), svcs |-> { ToSvc(e.svcs[i]) : i \in DOMAIN e.svcs }]

TInit == l = 1 /\ D!Init

TReset == IsEvent("reset") /\ fe' = {} /\ be' = {}
TStart == IsEvent("start") /\ UNCHANGED vars

TWrite ==
    /\ IsEvent("write")
    /\ \/ Cur.m = "fe" /\ Cur.op = "upd" /\ D!FeUpdate(FeRec(Cur.rec))
       \/ Cur.m = "fe" /\ Cur.op = "del" /\ D!FeDelete(FeKeyOf(Cur.rec))
       \/ Cur.m = "be" /\ Cur.op = "upd" /\ D!BeUpdate(BeRec(Cur.rec))
       \/ Cur.m = "be" /\ Cur.op = "del" /\ D!BeDelete(<<Cur.rec.id, Cur.rec.idx>>)
    \* the maps really are "the previous content with this single write applied"
    /\ fe' = ToFe(Cur.fe) /\ be' = ToBe(Cur.be)
    \* the property, half 1: after this single write every frontend's count refers to existing backends
    /\ D!CountInv' /\ D!KeysUnique'

TSyncDone ==
    /\ IsEvent("sync_done")
    /\ fe = ToFe(Cur.fe) /\ be = ToBe(Cur.be)
    /\ IF Cur.ok THEN D!SyncDone(ToDesired(Cur)) ELSE UNCHANGED vars

TNext == TReset \/ TStart \/ TWrite \/ TSyncDone
TSpec == TInit /\ [][TNext]_<<vars, l>>

\* implied by TWrite's postcondition (only TWrite and TReset change the maps); kept as a cross-check
CountInv == D!CountInv
KeysUnique == D!KeysUnique
=============================================================================
