\* quick design config: 2 services x 2 endpoints, node port on/off, <= 2 environment edits (adding a
\* service with its first endpoints is one edit), <= 1 crash / restart at any write point
CONSTANTS
  Svcs = {1, 2}
  Eps = {1, 2}
  Opts = {"np"}
  EpStates = {"none", "rl", "rr", "nr"}
  InitEpStates = {"rl", "rr"}
  NPIPs = {"192.168.0.1"}
  MaxChanges = 2
  MaxCrashes = 1
  Order <- OrderCode
INIT Init
NEXT Next
INVARIANTS CountInv KeysUnique ExactAtDone
CHECK_DEADLOCK FALSE
