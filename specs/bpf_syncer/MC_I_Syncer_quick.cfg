CONSTANTS
  Svcs = {1, 2}
  Eps = {1, 2}
  Opts = {"np", "xl"}
  NPIPs = {"192.168.0.1"}
  MaxChanges = 3
  MaxCrashes = 1
  Order <- OrderCode
INIT Init
NEXT Next
INVARIANTS CountInv KeysUnique ExactAtDone
CHECK_DEADLOCK FALSE
