\* second thorough design config: LB IPs (which startupBuildPrev does not adopt) and
\* externalTrafficPolicy: Local, <= 2 environment edits, <= 2 crashes / restarts at any write point
CONSTANTS
  Svcs = {1, 2}
  Eps = {1, 2}
  Opts = {"lb", "xl"}
  EpStates = {"none", "rl", "rr", "nr"}
  InitEpStates = {"rl", "rr"}
  NPIPs = {"192.168.0.1"}
  MaxChanges = 2
  MaxCrashes = 2
  Order <- OrderCode
INIT Init
NEXT Next
INVARIANTS CountInv KeysUnique ExactAtDone
CHECK_DEADLOCK FALSE
