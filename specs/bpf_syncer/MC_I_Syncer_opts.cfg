\* second thorough design config: all frontend kinds (external IP, LB IP, node port on two node-port IPs)
\* and externalTrafficPolicy, <= 2 environment edits, <= 2 crashes / restarts
CONSTANTS
  Svcs = {1, 2}
  Eps = {1, 2}
  Opts = {"ext", "lb", "np", "xl"}
  EpStates = {"none", "rl", "rr", "nr"}
  InitEpStates = {"rl", "rr"}
  NPIPs = {"192.168.0.1", "255.255.255.255"}
  MaxChanges = 2
  MaxCrashes = 2
  Order <- OrderCode
INIT Init
NEXT Next
INVARIANTS CountInv KeysUnique ExactAtDone
CHECK_DEADLOCK FALSE
