CONSTANTS
  Keys <- Keys3
  Tmpl <- Tmpl3
  KeyOrd <- Ord3
  InitEx <- Init3
  TO <- TOsmall
  RevAhead = {0, 1}
  MaxNow = 4
  MaxPkt = 2
  MaxScan = 2
  Batch = 1
  Split = FALSE
  RevRace = FALSE
INIT Init
NEXT Next
INVARIANTS TypeOK QueueDrained
PROPERTY Safe
CHECK_DEADLOCK FALSE
