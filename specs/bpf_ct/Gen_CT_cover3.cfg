CONSTANTS
  Keys <- Keys3
  Tmpl <- Tmpl3
  KeyOrd <- Ord3
  InitEx <- Init3all
  TO <- TOsmall
  RevAhead = {0, 1}
  MaxNow = 4
  MaxPkt = 1
  MaxScan = 1
  Batch = 1000
  Split = FALSE
  RevRace = FALSE
  SimLen = 60
  Unit = 2
INIT GInit
NEXT GNext
VIEW GView
ACTION_CONSTRAINT EmitEdge
CHECK_DEADLOCK FALSE
