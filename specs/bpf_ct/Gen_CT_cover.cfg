CONSTANTS
  Keys <- Keys2
  Tmpl <- Tmpl2
  KeyOrd <- Ord2
  InitEx <- Init2
  TO <- TOsmall
  RevAhead = {0, 1}
  MaxNow = 4
  MaxPkt = 2
  MaxScan = 1
  Batch = 1000
  Split = FALSE
  RevRace = FALSE
  SimLen = 60
  Unit = 2
INIT GInit
NEXT GNext
VIEW GView
ACTION_CONSTRAINT EmitEdge
CHECK_DEADLOCK FALSE
