-------------------------------- MODULE T_CT --------------------------------
(* Trace specification for C14.  Replays what the real Scanner + LivenessScanner (and the transcribed
   cleaner, and the harness' packets/ticks) did to the conntrack map against the property layer CT:
     - every packet and tick is an environment step (packets write last_seen = now);
     - every value the scanner read (iteration callback, lookup) is an observation;
     - EVERY removal from the conntrack map must be allowed by CT!Delete (judged idle past its timeout,
       last_seen unchanged since; NAT forward entries only with their reverse entry gone or justified);
     - the map contents reported at each iteration start and at the end equal the state computed here;
     - at the end (environment frozen, two complete scans) nothing removable is left.
   Cleanup-queue traffic and the cleaner's lookups/compares are recorded but carry no obligation here:
   the property does not say how the implementation arranges its judgement.                          *)
EXTENDS TraceLib, FiniteSets, Integers

VARIABLES ct, now, obs, to

TKeys == UNION { SeqToSet(Trace[i].keys) : i \in { j \in 1..NTrace : Trace[j].ev = "reset" } }

C == INSTANCE CT WITH Keys <- TKeys
vars == <<ct, now, obs, to>>

\* JSON record of an entry -> Entry
EntOf(r) == [ex |-> TRUE, ty |-> r.ty, pr |-> r.pr, a |-> r.a, b |-> r.b, dsr |-> r.dsr, rr |-> r.rr,
             ls |-> r.ls, rev |-> r.rev]
MapOf(m) == LET d == DOMAIN m IN [k \in TKeys |-> IF k \in d THEN EntOf(m[k]) ELSE C!Absent]
Unch == UNCHANGED vars

TInit == l = 1 /\ ct = [k \in TKeys |-> C!Absent] /\ now = 0 /\ obs = [k \in TKeys |-> C!NoObs]
         /\ to = [syn |-> 0, est |-> 0, fin |-> 0, rst |-> 0, udp |-> 0, icmp |-> 0, gen |-> 0, resid |-> 0]

TReset ==
    /\ IsEvent("reset")
    /\ ct' = MapOf(Cur.ents) /\ now' = Cur.now /\ obs' = [k \in TKeys |-> C!NoObs]
    /\ to' = [syn |-> Cur.to.syn, est |-> Cur.to.est, fin |-> Cur.to.fin, rst |-> Cur.to.rst, udp |-> Cur.to.udp,
              icmp |-> Cur.to.icmp, gen |-> Cur.to.gen, resid |-> Cur.to.resid]
TTick == IsEvent("tick") /\ C!Tick(Cur.d) /\ Cur.now = now'
TPkt ==
    /\ IsEvent("pkt")
    /\ C!PktSet([k \in DOMAIN Cur.ents |-> EntOf(Cur.ents[k])])
\* the scanner starts iterating: the map it sees is the map computed from the events so far
TIterBegin == IsEvent("ct_iter_begin") /\ MapOf(Cur.ents) = ct /\ Unch
TVisit == IsEvent("ct_visit") /\ Cur.k \in TKeys /\ C!Observe(Cur.k, EntOf(Cur.v))
TGet ==
    /\ IsEvent("ct_get") /\ Cur.k \in TKeys
    /\ Cur.found = ct[Cur.k].ex
    /\ IF Cur.found THEN EntOf(Cur.v) = ct[Cur.k] /\ C!Observe(Cur.k, EntOf(Cur.v)) ELSE Unch
TDelete ==
    /\ IsEvent("ct_delete") /\ Cur.k \in TKeys
    /\ Cur.existed = ct[Cur.k].ex
    /\ IF Cur.existed THEN Cur.ls = ct[Cur.k].ls /\ C!Delete(Cur.k) ELSE Unch
\* no obligation at the property layer
TOther ==
    /\ \E e \in {"scan_end", "ct_lookup", "cq_compare", "cq_begin", "cq_visit", "ccq_load", "ccq_visit", "ccq_update",
                 "ccq_delete", "ccq_get"} : IsEvent(e)
    /\ Unch
TFinal ==
    /\ IsEvent("final")
    /\ MapOf(Cur.ents) = ct /\ Cur.now = now
    /\ \A k \in TKeys : ~C!Removable(k)
    /\ Unch

TNext == TReset \/ TTick \/ TPkt \/ TIterBegin \/ TVisit \/ TGet \/ TDelete \/ TOther \/ TFinal
TSpec == TInit /\ [][TNext]_<<vars, l>>
=============================================================================
