--------------------------------- MODULE CT ---------------------------------
(* C14 property layer: BPF conntrack cleanup never removes a live connection.

   State: the conntrack map `ct`, the kernel clock `now` and, per key, the most relevant
   OBSERVATION the userspace scanner has made of that entry (`obs`: the entry value it read - via the
   map iteration or via a lookup - and the clock at that moment).  Nothing about queues, batches or
   the order of iteration appears here: the property layer only says when a cleanup DELETE is allowed.

     an entry k may be deleted by the cleanup machinery (scanner or kernel cleaner) only if
       - k is a normal or NAT-reverse entry and Justified(k), or
       - k is a NAT-forward entry and its reverse entry is absent (a forward entry alone carries no
         connection state; the packet path deletes it as well) or Justified(reverse of k)
     where Justified(g) == the scanner observed g with some last_seen L at a moment J such that the
       observed value was idle longer than the timeout for its protocol/state at J ("when it was
       judged it had been idle longer than the timeout"), and g's last_seen NOW still equals L ("it
       has not carried traffic since that judgement": every packet sets last_seen := now).
   The liveness of a NAT pair lives in the reverse entry (every packet of the connection, in either
   direction, refreshes the reverse entry; forward-direction packets also refresh the forward entry),
   so "NAT pairs are deleted consistently" == a forward entry is never removed while its reverse
   entry is present and not Justified.

   Expired() is the transcription of entryDone(..., finishedOnly=false) of felix/bpf/conntrack/cleanup.go
   with the timeouts of timeouts.go as the record `to` (the 2-minute "RST with residual traffic" rule is
   to.resid).  All times are in the same unit (the harness uses seconds).                            *)
EXTENDS Integers, FiniteSets, Sequences, TLC

CONSTANTS Keys       \* universe of conntrack keys (strings)

VARIABLES ct,        \* [Keys -> Entry]
          now,       \* kernel clock
          obs,       \* [Keys -> Obs]
          to         \* the configured timeouts [syn, est, fin, rst, udp, icmp, gen, resid : Nat]; never changes
                     \* within a run (a variable only because every recorded trace brings its own)
pvars == <<ct, now, obs, to>>

\* entry types
TNormal == 0
TFwd == 1
TRev == 2
\* leg flag bits (fields a = leg A->B, b = leg B->A)
BSyn == 1
BAck == 2
BFin == 4
BRst == 8
Bit(x, m) == (x \div m) % 2 = 1

\* Entry: ex (exists), ty (type), pr (IP protocol), a, b (leg flag bits), dsr (FlagNATFwdDsr), rr (value.RSTSeen() # 0),
\*        ls (last_seen), rev (NAT forward: key of the reverse entry, else "")
Absent == [ex |-> FALSE, ty |-> 0, pr |-> 0, a |-> 0, b |-> 0, dsr |-> FALSE, rr |-> FALSE, ls |-> 0, rev |-> ""]
NoObs == [set |-> FALSE, e |-> Absent, at |-> 0]

\* ---- the timeout rules (cleanup.go entryDone, finishedOnly = false) ---------------------------
Established(e) == Bit(e.a, BSyn) /\ Bit(e.a, BAck) /\ Bit(e.b, BSyn) /\ Bit(e.b, BAck)
RstSeen(e) == Bit(e.a, BRst) \/ Bit(e.b, BRst)
FinsSeen(e) == (e.dsr /\ (Bit(e.a, BFin) \/ Bit(e.b, BFin))) \/ (Bit(e.a, BFin) /\ Bit(e.b, BFin))

Expired(e, t) ==
    LET age == t - e.ls IN
    IF e.pr = 6 THEN
        \/ RstSeen(e) /\ age > to.rst
        \/ FinsSeen(e) /\ age > to.fin
        \/ /\ Established(e) \/ e.dsr
           /\ \/ e.rr /\ age > to.resid
              \/ age > to.est
        \/ /\ ~(Established(e) \/ e.dsr)
           /\ age > to.syn
    ELSE IF e.pr \in {1, 58} THEN age > to.icmp
    ELSE IF e.pr = 17 THEN age > to.udp
    ELSE age > to.gen

\* ---- the property ---------------------------------------------------------------------------------
Justified(g) ==
    /\ ct[g].ex
    /\ obs[g].set
    /\ obs[g].e.ls = ct[g].ls               \* not refreshed since the judgement
    /\ Expired(obs[g].e, obs[g].at)         \* idle past its timeout when judged

HasRev(k) == ct[k].ty = TFwd /\ ct[k].rev \in Keys

DeleteOK(k) ==
    IF ct[k].ty = TFwd
      THEN IF HasRev(k) /\ ct[ct[k].rev].ex THEN Justified(ct[k].rev) ELSE TRUE
      ELSE Justified(k)

\* bounded liveness, evaluated by the trace spec only after the environment has been frozen and the
\* scanner has completed full passes: nothing removable is left
Removable(k) ==
    /\ ct[k].ex
    /\ IF ct[k].ty = TFwd
         THEN IF HasRev(k) /\ ct[ct[k].rev].ex THEN Expired(ct[ct[k].rev], now) ELSE TRUE
         ELSE Expired(ct[k], now)

\* ---- actions --------------------------------------------------------------------------------------
Tick(d) == d >= 0 /\ now' = now + d /\ UNCHANGED <<ct, obs, to>>

\* a packet (or several entries written by one packet): every written entry exists with last_seen = now
PktSet(m) ==
    /\ DOMAIN m \subseteq Keys
    /\ \A k \in DOMAIN m : m[k].ex /\ m[k].ls = now
    /\ ct' = [k \in Keys |-> IF k \in DOMAIN m THEN m[k] ELSE ct[k]]
    /\ UNCHANGED <<now, obs, to>>

\* the scanner reads entry k as value e.  Only an observation with the largest last_seen can ever match
\* the entry again (last_seen never decreases), so that one is kept; ties: the later one.
ObsUpd(o, k, e, t) == [o EXCEPT ![k] = IF o[k].set /\ o[k].e.ls > e.ls THEN @
                                          ELSE [set |-> TRUE, e |-> e, at |-> t]]
Observe(k, e) == obs' = ObsUpd(obs, k, e, now) /\ UNCHANGED <<ct, now, to>>

Delete(k) ==
    /\ ct[k].ex
    /\ DeleteOK(k)
    /\ ct' = [ct EXCEPT ![k] = Absent]
    /\ UNCHANGED <<now, obs, to>>

\* as an action property for implementation-shaped specs: every step that removes an entry is allowed
SafeStep == \A k \in Keys : (ct[k].ex /\ ~ct'[k].ex) => DeleteOK(k)
=============================================================================
