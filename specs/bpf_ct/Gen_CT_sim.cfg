CONSTANTS
  Keys <- Keys4
  Tmpl <- Tmpl4
  KeyOrd <- Ord4
  InitEx <- Init4
  TO <- TOsmall
  RevAhead = {0, 1}
  MaxNow = 5
  MaxPkt = 99
  MaxScan = 99
  Batch = 1000
  Split = FALSE
  RevRace = FALSE
  SimLen = 40
  Unit = 2
INIT GInit
NEXT GNext
INVARIANT EmitAtLen
CHECK_DEADLOCK FALSE
