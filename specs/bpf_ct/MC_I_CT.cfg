CONSTANTS
  Keys <- Keys4
  Tmpl <- Tmpl4
  KeyOrd <- Ord4
  InitEx <- Init4
  TO <- TOsmall
  RevAhead = {0, 1}
  MaxNow = 4
  MaxPkt = 2
  MaxScan = 1
  Batch = 1000
  Split = FALSE
  RevRace = FALSE
INIT Init
NEXT Next
INVARIANTS TypeOK QueueDrained
PROPERTY Safe
CHECK_DEADLOCK FALSE
