-------------------------------- MODULE I_CT --------------------------------
(* C14 implementation layer: the userspace conntrack scanner, the kernel-side cleaner and packets.

   One THREAD (in Felix the scanner goroutine, which runs the BPF cleaner synchronously through
   BPF_PROG_TEST_RUN) executes Scanner.Scan() of felix/bpf/conntrack/scanner.go with one
   LivenessScanner (cleanup.go) and then the cleanup program of felix/bpf-gpl/conntrack_cleanup.c.
   One action per operation on the conntrack map / the cleanup-queue map ("gated map op" of the
   harness); everything the Go code does between two map operations (LivenessScanner.Check,
   handleNATEntries, the end-of-iteration flush of revNATKeyToFwdNATInfo, cachingmap bookkeeping)
   belongs to the action of the map operation that precedes it.

   PACKETS (the kernel packet path, bpf-gpl/conntrack.h) and TICK interleave with every thread step:
     plain packet    : entry.last_seen := now (re-creating a removed entry)
     NAT fwd packet  : forward AND reverse entry last_seen := now (conntrack.h writes the same `now` to both;
                       a forward hit without reverse deletes the forward entry and the new flow re-creates both)
     NAT rev packet  : reverse entry last_seen := now (the forward entry is not touched)

   The kernel cleaner (process_ccq_entry) is transcribed.  Split = FALSE: processing one queue entry
   (lookup, compare last_seen, delete) is ONE action - the assumption under which the protocol is meant
   to work; Split = TRUE: one action per lookup / compare / delete, which exposes the residual
   check-then-act window of the C program (MC_I_CT_split.cfg, expected counterexample).
   RevRace = FALSE restricts reverse-direction packets to pairs whose two timestamps differ; TRUE lifts
   that (MC_I_CT_eqts.cfg, expected counterexample: finding F1 of notes/C14.md).

   Abstractions: the map iteration delivers a snapshot taken when the iteration starts (this is what
   felix/bpf/mock.Map.Iter does; a kernel batch iteration lies between this and read-at-visit);
   LivenessScanner's 1-second cache of the kernel time is not modelled (a stale clock only
   under-estimates ages); cleanupBatchSize (1000 in the code) is the constant Batch; the order of the
   cleanup-queue writes of one ApplyAllChanges is fixed (KeyOrd) because nothing can observe it.     *)
EXTENDS Integers, FiniteSets, Sequences, TLC

CONSTANTS Keys, TO,
          Tmpl,        \* [Keys -> Entry]: the (static) type / protocol / state / reverse key of every key
          InitEx,      \* set of subsets of Keys: which entries exist initially
          RevAhead,    \* set of Nat: initial last_seen of NAT reverse entries (all other entries: 0); a reverse entry
                       \* ahead of its forward entry = the last packet of the connection went in the reverse direction
          KeyOrd,      \* sequence enumerating Keys (canonical order of queue writes)
          MaxNow, MaxPkt, MaxScan,   \* bounds; MaxPkt >= 99 / MaxScan >= 99: unbounded
          Batch, Split, RevRace

VARIABLES ct, now, obs, to,             \* property layer (module CT)
          pc, snap, todo, cur, jn, nexp, \* scanner: program counter, iteration snapshot, keys left, key being judged and
                                        \* the clock LivenessScanner.Check read for it, numExpired
          des, rmap,                    \* ctCleanupMap.Desired(), revNATKeyToFwdNATInfo
          ccq, loaded,                  \* the cleanup-queue map, cachingmap cache loaded
          ret,                          \* where runBPFCleaner returns to: "iter" | "idle"
          cqtodo, cqcur, cl,            \* cleaner: queue entries left, entry in progress, sub-step (Split)
          npkt, nscan
svars == <<to, pc, snap, todo, cur, jn, nexp, des, rmap, ccq, loaded, ret, cqtodo, cqcur, cl, nscan>>
vars == <<ct, now, obs, to, pc, snap, todo, cur, jn, nexp, des, rmap, ccq, loaded, ret, cqtodo, cqcur, cl, npkt, nscan>>

P == INSTANCE CT

D == ""                                  \* the dummy (all-zero) key
NoQ == [set |-> FALSE, rev |-> "", ts |-> 0, rts |-> 0]
Q(r, t, rt) == [set |-> TRUE, rev |-> r, ts |-> t, rts |-> rt]
EmptyQ == [k \in Keys |-> NoQ]
Ent(k, t) == [Tmpl[k] EXCEPT !.ls = t, !.ex = TRUE]

Fwds == { k \in Keys : Tmpl[k].ty = P!TFwd }
Revs == { k \in Keys : Tmpl[k].ty = P!TRev }
Plains == { k \in Keys : Tmpl[k].ty = P!TNormal }
FwdOf(r) == CHOOSE f \in Fwds : Tmpl[f].rev = r

Init ==
    /\ to = TO
    /\ \E S \in InitEx, d \in RevAhead :
          /\ now = d
          /\ ct = [k \in Keys |-> IF k \notin S THEN P!Absent ELSE IF k \in Revs THEN Ent(k, d) ELSE Ent(k, 0)]
    /\ obs = [k \in Keys |-> P!NoObs]
    /\ pc = "idle" /\ snap = [k \in Keys |-> P!Absent] /\ todo = {} /\ cur = "" /\ jn = 0 /\ nexp = 0
    /\ des = EmptyQ /\ rmap = EmptyQ /\ ccq = EmptyQ /\ loaded = FALSE /\ ret = "idle"
    /\ cqtodo = {} /\ cqcur = "" /\ cl = ""
    /\ npkt = 0 /\ nscan = 0

\* ---- Scanner.handleNATEntries (scanner.go) as a function on (desired queue, rev map) --------------
HandleFwd(d, m, key, ts, rts, revkey) ==
    IF ts = rts THEN [d |-> [d EXCEPT ![key] = Q(D, ts, rts)], m |-> m]
    ELSE IF ~m[revkey].set THEN [d |-> d, m |-> [m EXCEPT ![revkey] = Q(key, ts, rts)]]
    ELSE [d |-> [d EXCEPT ![key] = Q(revkey, ts, rts)], m |-> [m EXCEPT ![revkey] = NoQ]]
HandleRev(d, m, key, ts) ==
    IF m[key].set
      THEN [d |-> IF m[key].rev \in Keys THEN [d EXCEPT ![m[key].rev] = Q(key, m[key].ts, ts)] ELSE d,
            m |-> [m EXCEPT ![key] = NoQ]]
      ELSE [d |-> d, m |-> [m EXCEPT ![key] = Q(D, ts, 0)]]
\* the loop over revNATKeyToFwdNATInfo after the iteration
Flush(d, m) ==
    [x \in Keys |->
        IF \E k \in Keys : m[k].set /\ m[k].rev = x
          THEN LET k == CHOOSE kk \in Keys : m[kk].set /\ m[kk].rev = x IN Q(k, m[k].ts, m[k].rts)
        ELSE IF m[x].set /\ m[x].rev = D THEN Q(D, m[x].ts, m[x].rts)
        ELSE d[x]]

Pending(d, q) == { k \in Keys : d[k].set /\ q[k] # d[k] }
ApplyPc(d, q, ld) == IF ~ld \/ Pending(d, q) # {} THEN "apply" ELSE "clean"

\* what follows a finished iteration callback: batch cleaner run, end of iteration, or the next callback
AfterCb(d1, m1, n1, todo1) ==
    /\ nexp' = n1
    /\ todo' = todo1
    /\ cur' = "" /\ jn' = 0
    /\ IF n1 > 0 /\ n1 % Batch = 0
         THEN des' = d1 /\ rmap' = m1 /\ ret' = "iter" /\ pc' = ApplyPc(d1, ccq, loaded)
       ELSE IF todo1 = {}
         THEN LET d2 == Flush(d1, m1) IN
              des' = d2 /\ rmap' = EmptyQ /\ ret' = "idle" /\ pc' = ApplyPc(d2, ccq, loaded)
       ELSE des' = d1 /\ rmap' = m1 /\ pc' = "iter" /\ UNCHANGED ret

\* ---- thread: Scan() -------------------------------------------------------------------------------
IterBegin ==
    /\ pc = "idle"
    /\ MaxScan >= 99 \/ nscan < MaxScan
    /\ snap' = ct
    /\ LET t == { k \in Keys : ct[k].ex } IN
       IF t = {}
         THEN todo' = {} /\ pc' = ApplyPc(EmptyQ, ccq, loaded) /\ ret' = "idle"
         ELSE todo' = t /\ pc' = "iter" /\ UNCHANGED ret
    /\ des' = EmptyQ /\ nexp' = 0
    /\ UNCHANGED <<ct, now, obs, to, cur, jn, rmap, ccq, loaded, cqtodo, cqcur, cl, npkt, nscan>>

Visit(k) ==
    /\ pc = "iter" /\ k \in todo
    /\ obs' = P!ObsUpd(obs, k, snap[k], now)
    /\ LET sv == snap[k]
           todo1 == todo \ {k} IN
       IF sv.ty = P!TFwd
         THEN pc' = "get" /\ cur' = k /\ jn' = now /\ todo' = todo1 /\ UNCHANGED <<nexp, des, rmap, ret>>
       ELSE IF ~P!Expired(sv, now)
         THEN AfterCb(des, rmap, nexp, todo1)
       ELSE IF sv.ty = P!TNormal
         THEN AfterCb([des EXCEPT ![k] = Q(D, sv.ls, sv.ls)], rmap, nexp + 1, todo1)
       ELSE LET h == HandleRev(des, rmap, k, sv.ls) IN AfterCb(h.d, h.m, nexp + 1, todo1)
    /\ UNCHANGED <<ct, now, to, snap, ccq, loaded, cqtodo, cqcur, cl, npkt, nscan>>

\* LivenessScanner.Check on a NAT forward entry: look up the reverse entry (live, not the snapshot); the clock
\* was read before the lookup (jn)
Get ==
    /\ pc = "get"
    /\ LET f == cur
           sv == snap[cur]
           r == snap[cur].rev IN
       IF r \notin Keys \/ ~ct[r].ex
         THEN /\ LET h == HandleFwd(des, rmap, f, sv.ls, sv.ls, r) IN AfterCb(h.d, h.m, nexp + 1, todo)
              /\ UNCHANGED obs
         ELSE /\ obs' = P!ObsUpd(obs, r, ct[r], now)
              /\ IF P!Expired(ct[r], jn)
                   THEN LET h == HandleFwd(des, rmap, f, sv.ls, ct[r].ls, r) IN AfterCb(h.d, h.m, nexp + 1, todo)
                   ELSE AfterCb(des, rmap, nexp, todo)
    /\ UNCHANGED <<ct, now, to, snap, ccq, loaded, cqtodo, cqcur, cl, npkt, nscan>>

\* ---- thread: runBPFCleaner: ApplyAllChanges ----------------------------------------------------
ApplyLoad ==
    /\ pc = "apply" /\ ~loaded
    /\ loaded' = TRUE
    /\ pc' = ApplyPc(des, ccq, TRUE)
    /\ UNCHANGED <<ct, now, obs, to, snap, todo, cur, jn, nexp, des, rmap, ccq, ret, cqtodo, cqcur, cl, npkt, nscan>>

FirstPending == LET i == CHOOSE i \in 1..Len(KeyOrd) : KeyOrd[i] \in Pending(des, ccq)
                             /\ \A j \in 1..(i - 1) : KeyOrd[j] \notin Pending(des, ccq)
                IN KeyOrd[i]
ApplyUpd ==
    /\ pc = "apply" /\ loaded /\ Pending(des, ccq) # {}
    /\ LET k == FirstPending
           q2 == [ccq EXCEPT ![k] = des[k]] IN
       ccq' = q2 /\ pc' = ApplyPc(des, q2, TRUE)
    /\ UNCHANGED <<ct, now, obs, to, snap, todo, cur, jn, nexp, des, rmap, loaded, ret, cqtodo, cqcur, cl, npkt, nscan>>

\* ---- thread: the cleanup program ---------------------------------------------------------------
\* the cleaner has processed the whole queue: Desired().DeleteAll(), Dataplane().DeleteAll(), return
Finish(q) ==
    /\ cqcur' = "" /\ cl' = ""
    /\ IF ret = "iter"
         THEN IF todo = {}
                THEN LET d2 == Flush(EmptyQ, rmap) IN
                     des' = d2 /\ rmap' = EmptyQ /\ ret' = "idle" /\ pc' = ApplyPc(d2, q, loaded)
                     /\ UNCHANGED nscan
                ELSE des' = EmptyQ /\ pc' = "iter" /\ UNCHANGED <<rmap, ret, nscan>>
         ELSE des' = EmptyQ /\ pc' = "idle" /\ nscan' = (IF MaxScan >= 99 THEN nscan ELSE nscan + 1)
              /\ UNCHANGED <<rmap, ret>>

CqBegin ==
    /\ pc = "clean"
    /\ LET t == { k \in Keys : ccq[k].set } IN
       /\ cqtodo' = t
       /\ IF t = {} THEN Finish(ccq) ELSE pc' = "cqp" /\ UNCHANGED <<des, rmap, ret, cqcur, cl, nscan>>
    /\ UNCHANGED <<ct, now, obs, to, snap, todo, cur, jn, nexp, ccq, loaded, npkt>>

\* process_ccq_entry, lookups + compare + delete(s) in one step (Split = FALSE)
ProcCt(k) ==
    LET v == ccq[k] IN
    IF v.rev = D
      THEN IF ct[k].ex /\ ct[k].ls = v.ts THEN [ct EXCEPT ![k] = P!Absent] ELSE ct
      ELSE IF ct[k].ex /\ ct[k].rev # v.rev THEN ct
           ELSE IF ct[v.rev].ex /\ ct[v.rev].ls = v.rts
                  THEN [ct EXCEPT ![v.rev] = P!Absent, ![k] = P!Absent]
                  ELSE ct
CqProc(k) ==
    /\ pc = "cqp" /\ ~Split /\ k \in cqtodo
    /\ ct' = ProcCt(k)
    /\ cqcur' = k /\ pc' = "cqd"
    /\ UNCHANGED <<now, obs, to, snap, todo, cur, jn, nexp, des, rmap, ccq, loaded, ret, cqtodo, cl, npkt, nscan>>

\* cali_ccq_delete_elem(key) at the end of process_ccq_entry
CqDel ==
    /\ pc = "cqd"
    /\ ccq' = [ccq EXCEPT ![cqcur] = NoQ]
    /\ cqtodo' = cqtodo \ {cqcur}
    /\ IF cqtodo' = {} THEN Finish(ccq') ELSE pc' = "cqp" /\ cqcur' = "" /\ cl' = "" /\ UNCHANGED <<des, rmap, ret, nscan>>
    /\ UNCHANGED <<ct, now, obs, to, snap, todo, cur, jn, nexp, loaded, npkt>>

\* Split = TRUE: one action per lookup / compare / delete of process_ccq_entry
SUnch == UNCHANGED <<now, obs, to, snap, todo, cur, jn, nexp, des, rmap, ccq, loaded, ret, cqtodo, npkt, nscan>>
CqLookup(k) ==       \* first lookup: cali_ct_lookup_elem(key)
    /\ pc = "cqp" /\ Split /\ k \in cqtodo
    /\ cqcur' = k
    /\ IF ccq[k].rev = D
         THEN IF ct[k].ex THEN pc' = "cqs" /\ cl' = "cmp" ELSE pc' = "cqd" /\ cl' = ""
         ELSE IF ct[k].ex /\ ct[k].rev # ccq[k].rev THEN pc' = "cqd" /\ cl' = "" ELSE pc' = "cqs" /\ cl' = "cmpr"
    /\ UNCHANGED ct /\ SUnch
CqCompare ==         \* actual_ct_value->last_seen == value->last_seen (reads the live value)
    /\ pc = "cqs" /\ cl = "cmp"
    /\ IF ct[cqcur].ex /\ ct[cqcur].ls = ccq[cqcur].ts THEN cl' = "del" /\ pc' = "cqs" ELSE cl' = "" /\ pc' = "cqd"
    /\ UNCHANGED <<ct, cqcur>> /\ SUnch
CqCompareRev ==      \* lookup of the reverse entry and rev_ct_value->last_seen == value->rev_last_seen
    /\ pc = "cqs" /\ cl = "cmpr"
    /\ LET r == ccq[cqcur].rev IN
       IF ct[r].ex /\ ct[r].ls = ccq[cqcur].rts THEN cl' = "delr" /\ pc' = "cqs" ELSE cl' = "" /\ pc' = "cqd"
    /\ UNCHANGED <<ct, cqcur>> /\ SUnch
CqDelKey ==          \* cali_ct_delete_elem(key)
    /\ pc = "cqs" /\ cl \in {"del", "delf"}
    /\ ct' = [ct EXCEPT ![cqcur] = P!Absent]
    /\ cl' = "" /\ pc' = "cqd"
    /\ UNCHANGED cqcur /\ SUnch
CqDelRev ==          \* cali_ct_delete_elem(rev_key)
    /\ pc = "cqs" /\ cl = "delr"
    /\ ct' = [ct EXCEPT ![ccq[cqcur].rev] = P!Absent]
    /\ cl' = "delf" /\ pc' = "cqs"
    /\ UNCHANGED cqcur /\ SUnch

\* ---- environment ------------------------------------------------------------------------------------
\* timestamps are strictly increasing per entry: a packet never carries the very (coarse) time that is
\* already stored in an entry it hits (the kernel clock has nanosecond resolution)
Fresh(k) == ct[k].ex => ct[k].ls < now
PktOK == MaxPkt >= 99 \/ npkt < MaxPkt
PktCount == npkt' = (IF MaxPkt >= 99 THEN npkt ELSE npkt + 1)
PktPlain(k) ==
    /\ PktOK /\ k \in Plains
    /\ Fresh(k)
    /\ ct' = [ct EXCEPT ![k] = Ent(k, now)]
    /\ PktCount /\ UNCHANGED <<now, obs>> /\ UNCHANGED svars
PktFwd(f) ==
    /\ PktOK /\ f \in Fwds
    /\ LET r == Tmpl[f].rev IN
       /\ Fresh(f) /\ Fresh(r)
       /\ ct' = [ct EXCEPT ![f] = Ent(f, now), ![r] = Ent(r, now)]
    /\ PktCount /\ UNCHANGED <<now, obs>> /\ UNCHANGED svars
PktRev(r) ==
    /\ PktOK /\ r \in Revs
    /\ ct[r].ex /\ Fresh(r)
    /\ RevRace \/ ~(ct[FwdOf(r)].ex /\ ct[FwdOf(r)].ls = ct[r].ls)
    /\ ct' = [ct EXCEPT ![r] = Ent(r, now)]
    /\ PktCount /\ UNCHANGED <<now, obs>> /\ UNCHANGED svars
Tick ==
    /\ now < MaxNow
    /\ now' = now + 1
    /\ UNCHANGED <<ct, obs, npkt>> /\ UNCHANGED svars

Thread ==
    \/ IterBegin \/ Get \/ ApplyLoad \/ ApplyUpd \/ CqBegin \/ CqDel
    \/ \E k \in Keys : Visit(k) \/ CqProc(k) \/ CqLookup(k)
    \/ CqCompare \/ CqCompareRev \/ CqDelKey \/ CqDelRev
Env ==
    \/ \E k \in Keys : PktPlain(k) \/ PktFwd(k) \/ PktRev(k)
    \/ Tick
Next == Thread \/ Env

Spec == Init /\ [][Next]_vars
LSpec == Spec /\ WF_vars(Thread)

\* ---- what TLC checks --------------------------------------------------------------------------------
\* the property layer's rule for every removal
Safe == [][P!SafeStep]_vars
\* the queue is empty whenever the cleaner is not running (what runBPFCleaner's Dataplane().DeleteAll() assumes)
QueueDrained == pc \in {"idle", "iter", "get"} => ccq = EmptyQ
TypeOK ==
    /\ pc \in {"idle", "iter", "get", "apply", "clean", "cqp", "cqd", "cqs"}
    /\ \A k \in Keys : ct[k].ex => ct[k].ls <= now
\* liveness (design spec only): no entry stays removable forever
Live == \A k \in Keys : []<>(~P!Removable(k))
\* reachability probes (each is expected to be VIOLATED; used once while developing, see notes/C14.md)
ProbePairQueued == \A k \in Keys : ~(ccq[k].set /\ ccq[k].rev # D)
ProbeRevWaits == \A k \in Keys : ~(rmap[k].set /\ rmap[k].rev # D)

\* ---- model constants used by the MC_*.cfg / Gen_*.cfg files ----------------------------------------
E(ty, pr, a, b, rev) == [ex |-> TRUE, ty |-> ty, pr |-> pr, a |-> a, b |-> b, dsr |-> FALSE, rr |-> FALSE, ls |-> 0, rev |-> rev]
TOsmall == [syn |-> 1, est |-> 2, fin |-> 1, rst |-> 1, udp |-> 1, icmp |-> 1, gen |-> 3, resid |-> 120]
\* 2 plain entries (UDP; TCP SYN-sent) + 1 NAT pair (TCP established)
Keys4 == {"p1", "p2", "f1", "r1"}
Tmpl4 == [k \in Keys4 |-> CASE k = "p1" -> E(0, 17, 0, 0, "")
                            [] k = "p2" -> E(0, 6, 1, 0, "")
                            [] k = "f1" -> E(1, 6, 0, 0, "r1")
                            [] k = "r1" -> E(2, 6, 3, 3, "")]
Ord4 == <<"p1", "p2", "f1", "r1">>
Init4 == {Keys4, Keys4 \ {"r1"}}
\* 1 plain + 1 NAT pair
Keys3 == {"p1", "f1", "r1"}
Tmpl3 == [k \in Keys3 |-> Tmpl4[k]]
Ord3 == <<"p1", "f1", "r1">>
Init3 == {Keys3, Keys3 \ {"r1"}}
Init3all == {Keys3}
\* the NAT pair alone
Keys2 == {"f1", "r1"}
Tmpl2 == [k \in Keys2 |-> Tmpl4[k]]
Ord2 == <<"f1", "r1">>
Init2 == {Keys2, {"f1"}, {"r1"}}
=============================================================================
