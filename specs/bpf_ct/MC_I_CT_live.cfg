CONSTANTS
  Keys <- Keys2
  Tmpl <- Tmpl2
  KeyOrd <- Ord2
  InitEx <- Init2
  TO <- TOsmall
  RevAhead = {0, 1}
  MaxNow = 3
  MaxPkt = 99
  MaxScan = 99
  Batch = 1000
  Split = FALSE
  RevRace = TRUE
SPECIFICATION LSpec
PROPERTY Live
CHECK_DEADLOCK FALSE
