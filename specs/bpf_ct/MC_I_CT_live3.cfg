CONSTANTS
  Keys <- Keys3
  Tmpl <- Tmpl3
  KeyOrd <- Ord3
  InitEx <- Init3
  TO <- TOsmall
  RevAhead = {0, 1}
  MaxNow = 3
  MaxPkt = 99
  MaxScan = 99
  Batch = 1000
  Split = FALSE
  RevRace = TRUE
SPECIFICATION LSpec
PROPERTY Live
CHECK_DEADLOCK FALSE
