------------------------------- MODULE Gen_CT -------------------------------
(* Behaviour generator for C14 (leg A): module I_CT with a history variable.  A behaviour is
     <<[op |-> "init", now, unit, to, ents], step, step, ...>>
   where a step is a SCHEDULE entry for the harness:
     [op |-> "sc", x, (k)]  the scanner thread performs its pending gated map operation (x = the kind I_CT
                            expects: iter_begin | visit | get | ccq_load | ccq_update; k = key to visit)
     [op |-> "cl", x, (k)]  the same thread, inside the cleaner (cq_begin | cq_proc | cq_del | cq_cmp | ...)
     [op |-> "pkt", kind, k]  a packet: plain | fwd | rev
     [op |-> "tick", d]
   Gen_CT_cover.cfg : exhaustive, VIEW = I_CT's state, one behaviour per transition of the state graph
   Gen_CT_sim.cfg   : -simulate, one behaviour per random walk of length SimLen.                      *)
EXTENDS I_CT, Json

CONSTANTS SimLen, Unit
VARIABLES hist,
          vord     \* the order in which the current scan has visited keys: part of the VIEW, so that scans that differ
                   \* only in their iteration order (and reach the same I_CT state) are separate behaviours
gvars == <<vars, hist, vord>>

InitRec == [op |-> "init", now |-> now, unit |-> Unit, to |-> to,
            ents |-> [k \in Keys |-> [Tmpl[k] EXCEPT !.ex = ct[k].ex, !.ls = ct[k].ls]]]
GInit == Init /\ hist = <<InitRec>> /\ vord = <<>>

Step(a, r) == a /\ hist' = Append(hist, r) /\ UNCHANGED vord
StepV(a, r, v) == a /\ hist' = Append(hist, r) /\ vord' = v
Sc(x) == [op |-> "sc", x |-> x]
ScK(x, k) == [op |-> "sc", x |-> x, k |-> k]
Cl(x) == [op |-> "cl", x |-> x]
ClK(x, k) == [op |-> "cl", x |-> x, k |-> k]
Pkt(kind, k) == [op |-> "pkt", kind |-> kind, k |-> k]

GStep ==
    \/ StepV(IterBegin, Sc("iter_begin"), <<>>)
    \/ \E k \in Keys : StepV(Visit(k), ScK("visit", k), Append(vord, k))
    \/ Step(Get, Sc("get"))
    \/ Step(ApplyLoad, Sc("ccq_load"))
    \/ Step(ApplyUpd, Sc("ccq_update"))
    \/ Step(CqBegin, Cl("cq_begin"))
    \/ \E k \in Keys : Step(CqProc(k), ClK("cq_proc", k))
    \/ \E k \in Keys : Step(CqLookup(k), ClK("cq_proc", k))
    \/ Step(CqCompare, Cl("cq_cmp"))
    \/ Step(CqCompareRev, Cl("cq_cmpr"))
    \/ Step(CqDelKey, Cl(IF cl = "delf" THEN "cq_delf" ELSE "cq_delk"))
    \/ Step(CqDelRev, Cl("cq_delr"))
    \/ Step(CqDel, Cl("cq_del"))
    \/ \E k \in Keys : Step(PktPlain(k), Pkt("plain", k))
    \/ \E k \in Keys : Step(PktFwd(k), Pkt("fwd", k))
    \/ \E k \in Keys : Step(PktRev(k), Pkt("rev", k))
    \/ Step(Tick, [op |-> "tick", d |-> 1])

GNext ==
    \/ Len(hist) = SimLen /\ hist' = Append(hist, [op |-> "end"]) /\ UNCHANGED <<vars, vord>>
    \/ Len(hist) < SimLen /\ GStep

GView == <<vars, vord>>
EmitEdge == PrintT("BEH " \o ToJson(hist'))
EmitAtLen == Len(hist) = SimLen + 1 => PrintT("BEH " \o ToJson(hist))
=============================================================================
