-------------------------- MODULE T_ClusterRoutes --------------------------
(* Trace specification for C28.  One trace per case:
     reset    - the two raw settings, the pool's encapsulation mode, its CIDR and the CIDR of a block of
                the pool that belongs to a remote node
     felix    - what the real Felix side answered: the two accessors of felix/config after
                UpdateFrom({"ProgramClusterRoutes": raw}), and the routes the real calculation graph
                (felix/calc, built from that config and the real EncapsulationCalculator) emitted
     felix_dp - (second driver) whether the real dataplane managers of felix/dataplane/linux program a
                route for the remote block into the (mock) main routing table under that configuration
     bird     - the statements of BIRD's `calico_kernel_programming` filter that the real
                processIPPools of confd rendered (syntax only: CIDR and action per statement)
     verdict  - marks the end of the case: here the property is judged
   BIRD programs the pool's routes iff the filter accepts routes of the pool: the first statement
   whose CIDR is the pool's decides, and the template ends the filter with `accept;`.
   Felix programs them iff its calculation graph computes the cluster route for the remote block and
   the component that would write it is switched on for the pool's class (the accessor the dataplane
   consumes; for VXLAN there is no switch), and - when observed - the dataplane manager writes it.   *)
EXTENDS TraceLib, FiniteSets

VARIABLES case, felixObs, birdObs
vars == <<case, felixObs, birdObs>>

CR == INSTANCE ClusterRoutes WITH fv <- "absent", bv <- "absent", encap <- "none"

None == [ev |-> "none"]
TInit == l = 1 /\ case = None /\ felixObs = None /\ birdObs = None

\* ---- reading the observations -------------------------------------------------------------------
FelixComputes(f, c) == \E i \in DOMAIN f.routes :
                          f.routes[i].dst = c.block /\ f.routes[i].node = c.remote /\ f.routes[i].rtype = "REMOTE_WORKLOAD"
SwitchOn(f, class) == CASE class = "ipip" -> f.ipip [] class = "noencap" -> f.noencap [] class = "vxlan" -> TRUE
FelixPrograms(f, c) ==
    IF f.ev = "felix_dp" THEN f.programmed
    ELSE FelixComputes(f, c) /\ SwitchOn(f, CR!Class(c.encap))

Matching(b, c) == { i \in DOMAIN b.statements : b.statements[i].cidr = c.pool }
BirdPrograms(b, c) ==
    IF Matching(b, c) = {} THEN TRUE                      \* falls through to the template's final `accept;`
    ELSE b.statements[CHOOSE i \in Matching(b, c) : \A j \in Matching(b, c) : i <= j].action = "accept"

TReset == IsEvent("reset") /\ case' = Cur /\ felixObs' = None /\ birdObs' = None
TFelix == (IsEvent("felix") \/ IsEvent("felix_dp")) /\ case # None /\ felixObs' = Cur /\ UNCHANGED <<case, birdObs>>
TBird  == IsEvent("bird") /\ case # None /\ birdObs' = Cur /\ UNCHANGED <<case, felixObs>>
\* both sides observed: the statement about the pairing
TVerdict ==
    /\ IsEvent("verdict") /\ felixObs # None /\ birdObs # None
    /\ CR!Holds(case.felix, case.bgp, case.encap, FelixPrograms(felixObs, case), BirdPrograms(birdObs, case))
    /\ UNCHANGED vars
\* one side observed alone (dataplane driver): Felix must do what its own setting assigns, for the
\* settings that occur in some supported pairing (every setting does)
TVerdictFelix ==
    /\ IsEvent("verdict_felix") /\ felixObs # None
    /\ FelixPrograms(felixObs, case) = CR!FelixOwns(case.felix, case.encap)
    /\ UNCHANGED vars

TNext == TReset \/ TFelix \/ TBird \/ TVerdict \/ TVerdictFelix
TSpec == TInit /\ [][TNext]_<<vars, l>>
=============================================================================
