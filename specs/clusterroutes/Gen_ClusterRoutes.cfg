INIT GInit
NEXT GNext
INVARIANT EmitCase
CHECK_DEADLOCK FALSE
