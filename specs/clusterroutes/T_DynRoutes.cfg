INIT TInit
NEXT TNext
POSTCONDITION TraceAccepted
CHECK_DEADLOCK FALSE
