------------------------- MODULE Gen_ClusterRoutes -------------------------
(* Case generator for C28: all 6 x 6 setting pairings x 5 pool encapsulation modes for IPv4 pools,
   and the three encapsulation modes an IPv6 pool can have (VXLAN always / cross-subnet, none).     *)
EXTENDS ClusterRoutes, Sequences, TLC, Json

VARIABLE ipv
gvars == <<fv, bv, encap, ipv>>
GInit == Init /\ ipv \in {4, 6} /\ (ipv = 6 => Class(encap) # "ipip")
GNext == UNCHANGED gvars
EmitCase == PrintT("BEH " \o ToJson(<<[op |-> "case", felix |-> fv, bgp |-> bv, encap |-> encap, ipv |-> ipv]>>))
=============================================================================
