--------------------------- MODULE ClusterRoutes ---------------------------
(* C28 property layer.  "For each supported pairing of Felix's and BGP's cluster-route settings (and
   for absent or unrecognised values, which both treat as their defaults), every IP pool's cluster
   routes are programmed by exactly one of Felix and BIRD: VXLAN pools always by Felix, IPIP and
   unencapsulated pools by whichever side the pairing assigns."
   (design/cluster-route-programming/DESIGN.md section 1 in the repository is the source of the tables.) *)
EXTENDS Naturals, FiniteSets

Values   == {"Disabled", "Enabled", "EnabledIPIPOnly", "EnabledNoEncapOnly"}
Settings == Values \cup {"absent", "unrecognised"}
Encaps   == {"vxlan", "vxlan-cross", "ipip", "ipip-cross", "none"}
Sides    == {"felix", "bgp"}

Default(side) == IF side = "felix" THEN "EnabledIPIPOnly" ELSE "EnabledNoEncapOnly"
Eff(side, v)  == IF v \in Values THEN v ELSE Default(side)

Class(encap) == CASE encap \in {"vxlan", "vxlan-cross"} -> "vxlan"
                  [] encap \in {"ipip", "ipip-cross"}   -> "ipip"
                  [] encap = "none"                      -> "noencap"

\* which classes a value makes a component responsible for
Covers(v, class) == CASE class = "ipip"    -> v \in {"Enabled", "EnabledIPIPOnly"}
                      [] class = "noencap" -> v \in {"Enabled", "EnabledNoEncapOnly"}
                      [] class = "vxlan"   -> FALSE

\* the four supported (complementary) pairings, after defaulting
SupportedPairs == { <<"EnabledIPIPOnly", "EnabledNoEncapOnly">>, <<"Enabled", "Disabled">>,
                    <<"Disabled", "Enabled">>, <<"EnabledNoEncapOnly", "EnabledIPIPOnly">> }
Supported(fv, bv) == <<Eff("felix", fv), Eff("bgp", bv)>> \in SupportedPairs

\* who the pairing assigns the pool to
FelixOwns(fv, encap) == Class(encap) = "vxlan" \/ Covers(Eff("felix", fv), Class(encap))
BirdOwns(bv, encap)  == Class(encap) # "vxlan" /\ Covers(Eff("bgp", bv), Class(encap))

\* THE PROPERTY, as a judgement on what the two real components were observed to do for one pool
Holds(fv, bv, encap, felixPrograms, birdPrograms) ==
    Supported(fv, bv) =>
        /\ felixPrograms # birdPrograms                           \* exactly one of them
        /\ felixPrograms = FelixOwns(fv, encap)                   \* the one the pairing assigns (VXLAN: Felix)

\* ---- design leg: the assignment tables are complementary exactly on the supported pairings ---------
VARIABLES fv, bv, encap
vars == <<fv, bv, encap>>
Init == fv \in Settings /\ bv \in Settings /\ encap \in Encaps
Next == UNCHANGED vars
ExactlyOneWhenSupported == Supported(fv, bv) => (FelixOwns(fv, encap) # BirdOwns(bv, encap))
VXLANAlwaysFelix == Class(encap) = "vxlan" => (FelixOwns(fv, encap) /\ ~BirdOwns(bv, encap))
\* every unsupported effective pairing breaks some class (so "supported" is not an arbitrary list)
UnsupportedBreaks == (~Supported(fv, bv)) =>
    \E e \in Encaps : FelixOwns(fv, e) = BirdOwns(bv, e)
=============================================================================
