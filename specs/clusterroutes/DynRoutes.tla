----------------------------- MODULE DynRoutes -----------------------------
(* C28, dynamic leg - implementation-shaped model of the two consumers of the datastore, checked by TLC
   against DynRoutesProp at every quiescent state.

   confd (bgp_processor.go GetBirdBGPConfig): a render reads the cache revision, misses the cache, reads
   the BGPConfiguration (-> cluster-route policy), LATER reads the pools, and stores the result in the
   render cache stamped with the revision read AT THE START; a call that finds cache.rev = current
   revision returns the cached config.  RenderStart / RenderFinish are separate steps: updates can land
   between them (the real code holds no lock there).  StampAtFinish = TRUE is the defective variant
   (cache stamped with the revision current when the result is stored) - negative control.

   Felix (felix/calc EncapsulationResolver): after in-sync, EVERY pool update recomputes the
   Encapsulation message from the whole pool set and sends it.  Felix's own setting is fixed for the
   life of the process (a change restarts Felix).                                                    *)
EXTENDS DynRoutesProp, TLC

CONSTANTS Pools, PoolEncaps, FelixValues, BGPValues, MaxRev, StampAtFinish

VARIABLES fv, bgp, rev, pm, cache, inflight, held, lastCall, insync, msg
vars == <<fv, bgp, rev, pm, cache, inflight, held, lastCall, insync, msg>>

Absent  == "-"
EmptyFn == [p \in {} |-> "accept"]
Present(m) == { p \in Pools : m[p] # Absent }
PM(m)   == [p \in Present(m) |-> m[p]]
NoRender == [rev |-> 0, bgp |-> Absent]
NoMsg   == [ipip |-> FALSE, vxlan |-> FALSE, noencap |-> FALSE]

\* confd: one statement per pool (processIPPool), accept iff the policy derived from the BGP setting covers it
Render(bv, m) == [p \in Present(m) |-> IF CR!BirdOwns(bv, m[p]) THEN "accept" ELSE "reject"]
\* Felix: what a fresh EncapsulationCalculator answers for a pool set
Fresh(m) == [ipip    |-> \E p \in Present(m) : CR!Class(m[p]) = "ipip",
             vxlan   |-> \E p \in Present(m) : CR!Class(m[p]) = "vxlan",
             noencap |-> CR!Covers(CR!Eff("felix", fv), "noencap") /\ \E p \in Present(m) : CR!Class(m[p]) = "noencap"]
Sw == [ipip |-> CR!Covers(CR!Eff("felix", fv), "ipip"), noencap |-> CR!Covers(CR!Eff("felix", fv), "noencap")]

Init == /\ fv \in FelixValues /\ bgp \in BGPValues /\ rev = 1
        /\ pm = [p \in Pools |-> Absent]
        /\ cache = [rev |-> 0, cfg |-> EmptyFn] /\ inflight = NoRender /\ held = EmptyFn /\ lastCall = 0
        /\ insync = FALSE /\ msg = NoMsg

FelixSees(m) == msg' = IF insync THEN Fresh(m) ELSE msg
PoolSet(p, e) == /\ rev < MaxRev /\ pm[p] # e
                 /\ pm' = [pm EXCEPT ![p] = e] /\ rev' = rev + 1 /\ FelixSees(pm')
                 /\ UNCHANGED <<fv, bgp, cache, inflight, held, lastCall, insync>>
PoolDel(p) == /\ rev < MaxRev /\ pm[p] # Absent
              /\ pm' = [pm EXCEPT ![p] = Absent] /\ rev' = rev + 1 /\ FelixSees(pm')
              /\ UNCHANGED <<fv, bgp, cache, inflight, held, lastCall, insync>>
BGPUpdate(v) == /\ rev < MaxRev /\ v # bgp
                /\ bgp' = v /\ rev' = rev + 1
                /\ UNCHANGED <<fv, pm, cache, inflight, held, lastCall, insync, msg>>
RenderStart == /\ inflight = NoRender /\ cache.rev # rev
               /\ inflight' = [rev |-> rev, bgp |-> bgp]
               /\ UNCHANGED <<fv, bgp, rev, pm, cache, held, lastCall, insync, msg>>
RenderFinish == /\ inflight # NoRender
                /\ LET cfg == Render(inflight.bgp, pm) IN
                     /\ held' = cfg
                     /\ cache' = [rev |-> IF StampAtFinish THEN rev ELSE inflight.rev, cfg |-> cfg]
                /\ lastCall' = inflight.rev /\ inflight' = NoRender
                /\ UNCHANGED <<fv, bgp, rev, pm, insync, msg>>
RenderCached == /\ inflight = NoRender /\ cache.rev = rev
                /\ held' = cache.cfg /\ lastCall' = rev
                /\ UNCHANGED <<fv, bgp, rev, pm, cache, inflight, insync, msg>>
FelixInSync == /\ ~insync /\ insync' = TRUE /\ msg' = Fresh(pm)
               /\ UNCHANGED <<fv, bgp, rev, pm, cache, inflight, held, lastCall>>

Next == \/ \E p \in Pools, e \in PoolEncaps : PoolSet(p, e)
        \/ \E p \in Pools : PoolDel(p)
        \/ \E v \in BGPValues : BGPUpdate(v)
        \/ RenderStart \/ RenderFinish \/ RenderCached \/ FelixInSync
Spec == Init /\ [][Next]_vars

\* quiescent for BIRD: no render in flight and the last returned render was called after the last update
Quiescent == inflight = NoRender /\ lastCall = rev
QuiescentHolds ==
    Quiescent => /\ BirdSideOK(bgp, PM(pm), held)
                 /\ insync => (FelixSideOK(fv, PM(pm), Sw, msg) /\ PairOK(fv, bgp, PM(pm), held, Sw, msg))
\* Felix never waits for a render
FelixAlwaysTold == insync => FelixSideOK(fv, PM(pm), Sw, msg)
=============================================================================
