----------------------------- MODULE T_DynRoutes -----------------------------
(* Trace specification for the dynamic leg of C28.  One trace = one history replayed on the real confd
   client and the real Felix calculation graph (inpkg/confd/.../verif_c28dyn_test.go):
     reset         Felix's raw setting (fixed for the trace), the initial BGP setting, the two switches
                   felix/config answers (ProgramIPIPClusterRoutes / ProgramNoEncapClusterRoutes)
     pool_set / pool_del / bgp   one datastore update, delivered to both sides (revision + 1)
     render_start  the real GetBirdBGPConfig has read the cluster-route policy (logrus hook inside
                   processIPPools); updates logged between this and `render` landed mid-render
     render        GetBirdBGPConfig returned: the kernel-programming statements as syntax.  Without a
                   preceding render_start the call did not build anything (cache hit).
     insync        OnStatusUpdated(InSync) on Felix's calculation graph
     encap         a proto.Encapsulation message emitted by Felix's event sequencer
     quiesce       driver's mark "a render call was issued after the last update"; the spec re-derives
                   that (no render in flight, lastCall = rev) and then JUDGES DynRoutesProp.
   The spec tracks only what the events say (settings, pools, revision count, what BIRD holds, last
   message); whether a render was served from the cache is not assumed.                              *)
EXTENDS TraceLib, FiniteSets

VARIABLES fv, sw, bgp, pm, rev, inflight, lastCall, held, insync, msg
vars == <<fv, sw, bgp, pm, rev, inflight, lastCall, held, insync, msg>>

DP == INSTANCE DynRoutesProp

EmptyFn == [p \in {} |-> "accept"]
NoMsg == [ipip |-> FALSE, vxlan |-> FALSE, noencap |-> FALSE]
TInit == /\ l = 1 /\ fv = "-" /\ sw = [ipip |-> FALSE, noencap |-> FALSE] /\ bgp = "-" /\ pm = EmptyFn /\ rev = 0
         /\ inflight = 0 /\ lastCall = 0 /\ held = EmptyFn /\ insync = FALSE /\ msg = NoMsg

TReset == /\ IsEvent("reset") /\ "dyn" \in DOMAIN Cur
          /\ fv' = Cur.felix /\ sw' = [ipip |-> Cur.sw.ipip, noencap |-> Cur.sw.noencap] /\ bgp' = Cur.bgp
          /\ pm' = EmptyFn /\ rev' = 1 /\ inflight' = 0 /\ lastCall' = 0 /\ held' = EmptyFn /\ insync' = FALSE /\ msg' = NoMsg
Started == rev > 0
TPoolSet == /\ IsEvent("pool_set") /\ Started
            /\ pm' = [p \in DOMAIN pm \cup {Cur.pool} |-> IF p = Cur.pool THEN Cur.encap ELSE pm[p]]
            /\ rev' = rev + 1 /\ UNCHANGED <<fv, sw, bgp, inflight, lastCall, held, insync, msg>>
TPoolDel == /\ IsEvent("pool_del") /\ Started
            /\ pm' = [p \in DOMAIN pm \ {Cur.pool} |-> pm[p]]
            /\ rev' = rev + 1 /\ UNCHANGED <<fv, sw, bgp, inflight, lastCall, held, insync, msg>>
TBGP == /\ IsEvent("bgp") /\ Started /\ bgp' = Cur.v /\ rev' = rev + 1
        /\ UNCHANGED <<fv, sw, pm, inflight, lastCall, held, insync, msg>>
TRenderStart == /\ IsEvent("render_start") /\ Started /\ inflight = 0 /\ inflight' = rev
                /\ UNCHANGED <<fv, sw, bgp, pm, rev, lastCall, held, insync, msg>>
\* the first statement naming a CIDR decides for it
Stmts(ev) == LET s == ev.statements
                 first(c) == CHOOSE i \in DOMAIN s : s[i].cidr = c /\ \A j \in DOMAIN s : s[j].cidr = c => i <= j
             IN [c \in { s[i].cidr : i \in DOMAIN s } |-> s[first(c)].action]
TRender == /\ IsEvent("render") /\ Started
           /\ held' = Stmts(Cur)
           /\ lastCall' = IF inflight # 0 THEN inflight ELSE rev     \* the revision current when the call began
           /\ inflight' = 0
           /\ UNCHANGED <<fv, sw, bgp, pm, rev, insync, msg>>
TInSync == /\ IsEvent("insync") /\ Started /\ insync' = TRUE
           /\ UNCHANGED <<fv, sw, bgp, pm, rev, inflight, lastCall, held, msg>>
TEncap == /\ IsEvent("encap") /\ Started
          /\ msg' = [ipip |-> Cur.ipip, vxlan |-> Cur.vxlan, noencap |-> Cur.noencap]
          /\ UNCHANGED <<fv, sw, bgp, pm, rev, inflight, lastCall, held, insync>>
\* THE JUDGEMENT
TQuiesce == /\ IsEvent("quiesce") /\ Started /\ inflight = 0 /\ lastCall = rev
            /\ DP!BirdSideOK(bgp, pm, held)
            /\ (insync => (DP!FelixSideOK(fv, pm, sw, msg) /\ DP!PairOK(fv, bgp, pm, held, sw, msg))) = TRUE
            /\ UNCHANGED vars
\* `panic` and `render_error` events are never accepted

TNext == TReset \/ TPoolSet \/ TPoolDel \/ TBGP \/ TRenderStart \/ TRender \/ TInSync \/ TEncap \/ TQuiesce
TSpec == TInit /\ [][TNext]_<<vars, l>>
=============================================================================
