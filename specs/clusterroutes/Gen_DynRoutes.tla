---------------------------- MODULE Gen_DynRoutes ----------------------------
(* Behaviour generator for the dynamic leg of C28: random walks of DynRoutes (`-simulate`), one record
   per action, first record = the initial settings.  TLC's simulator picks uniformly among successor
   STATES, which would drown the three render actions among the 20-odd parametrised updates; so a walk
   alternates "pick a kind" (one successor per kind) and "take an action of that kind".            *)
EXTENDS DynRoutes, Sequences, Json

CONSTANTS SimLen
VARIABLES hist, kind
gvars == <<vars, hist, kind>>

\* "render2": a second ticket for the render actions (they are what separates the interleavings)
Kinds == {"pool_set", "pool_del", "bgp", "render", "render2", "insync"}
GInit == Init /\ hist = <<[op |-> "init", felix |-> fv, bgp |-> bgp]>> /\ kind = "-"

Step(a, r) == a /\ hist' = Append(hist, r) /\ kind' = "-"
Enabled(k) == CASE k = "pool_set" -> rev < MaxRev
                [] k = "pool_del" -> rev < MaxRev /\ Present(pm) # {}
                [] k = "bgp"      -> rev < MaxRev
                [] k \in {"render", "render2"} -> TRUE
                [] k = "insync"   -> ~insync
GNext ==
  \/ /\ Len(hist) = SimLen + 1 /\ hist' = Append(hist, [op |-> "end"]) /\ UNCHANGED <<vars, kind>>
  \/ /\ Len(hist) < SimLen + 1 /\ kind = "-"
     /\ kind' \in { k \in Kinds : Enabled(k) }
     /\ UNCHANGED <<vars, hist>>
  \/ /\ Len(hist) < SimLen + 1 /\ kind # "-"
     /\ \/ kind = "pool_set" /\ \E p \in Pools, e \in PoolEncaps : Step(PoolSet(p, e), [op |-> "pool_set", p |-> p, encap |-> e])
        \/ kind = "pool_del" /\ \E p \in Pools : Step(PoolDel(p), [op |-> "pool_del", p |-> p])
        \/ kind = "bgp" /\ \E v \in BGPValues : Step(BGPUpdate(v), [op |-> "bgp", v |-> v])
        \/ kind \in {"render", "render2"} /\ Step(RenderStart, [op |-> "render_start"])
        \/ kind \in {"render", "render2"} /\ Step(RenderFinish, [op |-> "render_finish"])
        \/ kind \in {"render", "render2"} /\ Step(RenderCached, [op |-> "render_cached"])
        \/ kind = "insync" /\ Step(FelixInSync, [op |-> "insync"])
EmitAtLen == Len(hist) = SimLen + 2 => PrintT("BEH " \o ToJson(hist))
=============================================================================
