INIT Init
NEXT Next
INVARIANTS ExactlyOneWhenSupported VXLANAlwaysFelix UnsupportedBreaks
CHECK_DEADLOCK FALSE
