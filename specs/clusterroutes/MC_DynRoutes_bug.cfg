CONSTANTS
  Pools = {"p1", "p2"}
  PoolEncaps = {"vxlan", "ipip", "none"}
  FelixValues = {"Disabled", "Enabled", "EnabledIPIPOnly", "EnabledNoEncapOnly", "absent", "unrecognised"}
  BGPValues = {"Disabled", "Enabled", "EnabledIPIPOnly", "EnabledNoEncapOnly", "absent", "unrecognised"}
  MaxRev = 4
  StampAtFinish = TRUE
INIT Init
NEXT Next
INVARIANTS QuiescentHolds FelixAlwaysTold
CHECK_DEADLOCK FALSE
