CONSTANTS
  Pools = {"p1", "p2", "p3"}
  PoolEncaps = {"vxlan", "vxlan-cross", "ipip", "ipip-cross", "none"}
  FelixValues = {"Disabled", "Enabled", "EnabledIPIPOnly", "EnabledNoEncapOnly", "absent", "unrecognised"}
  BGPValues = {"Disabled", "Enabled", "EnabledIPIPOnly", "EnabledNoEncapOnly", "absent", "unrecognised"}
  MaxRev = 12
  StampAtFinish = FALSE
  SimLen = 9
INIT GInit
NEXT GNext
INVARIANT EmitAtLen
CHECK_DEADLOCK FALSE
