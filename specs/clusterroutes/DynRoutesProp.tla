--------------------------- MODULE DynRoutesProp ---------------------------
(* C28, dynamic leg - property layer.  The statement of C28 ("every IP pool's cluster routes are
   programmed by exactly one of Felix and BIRD ... by whichever side the pairing assigns") read over a
   HISTORY of datastore updates: whenever the system is quiescent (every update has been delivered, the
   render that the last update triggers has returned, Felix's calculation graph is in sync and flushed)
   the judgement ClusterRoutes!Holds must be true for the CURRENT BGP setting and the CURRENT pools.
   Who owns a pool is taken from ClusterRoutes.tla (FelixOwns / BirdOwns / Holds); nothing is restated.

   Observables (syntax only, produced by the real code):
     held : pool -> "accept" | "reject"   the statements of calico_kernel_programming BIRD was last given
                                          (a pool without a statement falls to the template's `accept;`)
     sw   : [ipip, noencap]               the two switches Felix's dataplane consumes (config accessors)
     msg  : [ipip, vxlan, noencap]        the last Encapsulation message Felix's calculation graph sent
                                          to the dataplane connector (daemon.go restarts Felix with
                                          exactly these flags when they differ from the running ones)
   Felix programs a pool's cluster routes iff the manager for the pool's class exists (msg flag) and is
   switched on for cluster routes (sw; VXLAN has no switch).                                           *)
EXTENDS Naturals, FiniteSets

CR == INSTANCE ClusterRoutes WITH fv <- "absent", bv <- "absent", encap <- "none"

BirdProgramsPool(held, p) == IF p \in DOMAIN held THEN held[p] = "accept" ELSE TRUE
Flag(msg, class) == CASE class = "ipip" -> msg.ipip [] class = "noencap" -> msg.noencap [] class = "vxlan" -> msg.vxlan
SwitchOn(sw, class) == CASE class = "ipip" -> sw.ipip [] class = "noencap" -> sw.noencap [] class = "vxlan" -> TRUE
FelixProgramsPool(sw, msg, e) == SwitchOn(sw, CR!Class(e)) /\ Flag(msg, CR!Class(e))

\* pm : present pool -> encapsulation mode.
\* BIRD alone: every BGP setting occurs in a supported pairing and BIRD does not see Felix's setting, so
\* it must do what its own setting assigns (same reading as T_ClusterRoutes!TVerdictFelix for Felix).
BirdSideOK(bgp, pm, held) == \A p \in DOMAIN pm : BirdProgramsPool(held, p) = CR!BirdOwns(bgp, pm[p])
FelixSideOK(fv, pm, sw, msg) == \A p \in DOMAIN pm : FelixProgramsPool(sw, msg, pm[p]) = CR!FelixOwns(fv, pm[p])
\* the property itself, pool by pool
PairOK(fv, bgp, pm, held, sw, msg) ==
    \A p \in DOMAIN pm : CR!Holds(fv, bgp, pm[p], FelixProgramsPool(sw, msg, pm[p]), BirdProgramsPool(held, p))
=============================================================================
