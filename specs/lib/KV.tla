--------------------------------- MODULE KV ---------------------------------
(* A revisioned compare-and-swap key/value store (shared by C19-C23, C38, C39: the contract that
   harness/memkv implements and that every recorded store call is validated against).

   A store is a function  key |-> [rev |-> Nat \ {0}, val |-> value]  whose DOMAIN is the set of keys
   present.  `last` is a function key |-> the last revision ever used for that key (it outlives a
   delete, so that a re-created key never re-uses a revision: no ABA on revisions).
   A presented revision 0 means "no revision" (unconditional update / delete).

   Outcome of a call (what the implementation must answer):
     create : "exists" if present, else "ok"
     update : "notfound" if absent; "conflict" if rev # 0 and rev # stored rev; else "ok"
     delete : as update
     get    : "notfound" if absent, else "ok" (and it returns the stored rev and val)
   A successful write stores the presented value under a FRESH revision (greater than last[key]).   *)
EXTENDS Integers, Sequences, FiniteSets, TLC

Present(s, k) == k \in DOMAIN s
Put(s, k, v) == [x \in DOMAIN s \cup {k} |-> IF x = k THEN v ELSE s[x]]
Del(s, k)    == [x \in DOMAIN s \ {k} |-> s[x]]
Empty == << >>                         \* the function with empty domain

LastRev(last, k) == IF k \in DOMAIN last THEN last[k] ELSE 0
Fresh(last, k, r) == r > LastRev(last, k)

Outcome(s, op, k, rev) ==
    CASE op = "create" -> IF Present(s, k) THEN "exists" ELSE "ok"
      [] op \in {"update", "delete"} ->
            IF ~Present(s, k) THEN "notfound"
            ELSE IF rev # 0 /\ rev # s[k].rev THEN "conflict" ELSE "ok"
      [] op = "get" -> IF Present(s, k) THEN "ok" ELSE "notfound"
      [] OTHER -> "ok"

\* the store after a call with outcome "ok" (reads leave it unchanged)
After(s, op, k, nrev, val) ==
    CASE op \in {"create", "update", "apply"} -> Put(s, k, [rev |-> nrev, val |-> val])
      [] op = "delete" -> Del(s, k)
      [] OTHER -> s
LastAfter(last, op, k, nrev) ==
    IF op \in {"create", "update", "apply"} THEN Put(last, k, nrev) ELSE last

(* Conformance of one recorded call  e = [op, key, rev, err, nrev, orev, val]  (err = "" when ok):
   the answer is the one the contract prescribes; a read returns exactly what is stored; a write
   gets a fresh revision.  Injected faults are judged by the caller (store untouched).            *)
Conforms(s, last, e) ==
    LET want == Outcome(s, e.op, e.key, e.rev) IN
    /\ e.err = (IF want = "ok" THEN "" ELSE want)
    /\ (e.op = "get" /\ want = "ok") => (e.orev = s[e.key].rev /\ e.val = s[e.key].val)
    /\ (e.op \in {"create", "update", "apply"} /\ want = "ok") => Fresh(last, e.key, e.nrev)

\* a list call returned exactly the present keys selected by Sel(key, entry), with their rev and val
ListConforms(s, items, Sel(_, _)) ==
    LET want == { k \in DOMAIN s : Sel(k, s[k]) } IN
    /\ { items[i].key : i \in DOMAIN items } = want
    /\ Len(items) = Cardinality(want)
    /\ \A i \in DOMAIN items : items[i].rev = s[items[i].key].rev /\ items[i].val = s[items[i].key].val
=============================================================================
