----------------------------- MODULE PolicySem -----------------------------
(* Reference semantics of Calico policy at the level of felix/proto.Rule (what Felix's dataplanes receive
   after the calculation graph has turned selectors into IP sets).  Pure definitions: no constants, no
   variables, so it can be EXTENDed or INSTANCEd anywhere (all helper names start with "PS" or are
   specific enough not to clash).  Used by C08 C09 C40 (netfilter), and meant for C11 C12 C29 C30.

   ---- JSON / TLA+ data formats (JSON object = record, array = sequence, all fields always present) ----

   CIDR    {"a":[octets],"n":prefixlen}        4 octets = IPv4, 16 = IPv6            (module Nets)
   address [octets]

   rule    { "action": "allow" | "" | "deny" | "pass" | "next-tier" | "log",
             "ipv": 0 | 4 | 6,                      \* proto.Rule.IpVersion (0 = any)
             "proto": n, "notProto": n,             \* IP protocol NUMBER, 0 = not set
             "srcNets": [CIDR], "notSrcNets": [CIDR], "dstNets": [CIDR], "notDstNets": [CIDR],
             "srcPorts": [[lo,hi]], "notSrcPorts": [[lo,hi]], "dstPorts": [[lo,hi]], "notDstPorts": [[lo,hi]],
             "srcNamed": [setid], "notSrcNamed": [setid], "dstNamed": [setid], "notDstNamed": [setid],
                                                    \* named-port IP sets (members ip,proto,port)
             "srcSets": [setid], "notSrcSets": [setid], "dstSets": [setid], "notDstSets": [setid],
                                                    \* selector IP sets (members CIDR)
             "dstIpPortSets": [setid],              \* service IP sets (members ip,proto,port)
             "icmp": [] | [type] | [type,code], "notIcmp": [] | [type] | [type,code] }

   ipsets  { setid: {"type":"net",    "members":[CIDR]}
                  | {"type":"ipport", "members":[{"a":[octets],"p":proto,"port":n}]} }   (never empty: the
             exporters add a dummy "_none" set because an empty JSON object has no TLA+ counterpart)

   packet  { "ipv": 4|6, "proto": n, "src": [octets], "dst": [octets], "sport": n, "dport": n,
             "icmpType": n, "icmpCode": n }         \* sport/dport are 0 for protocols without ports

   policy  { "name": s, "staged": BOOLEAN, "rules": [rule] }       \* rules of ONE direction
   tier    { "name": s, "defaultAction": "Deny" | "Pass", "policies": [policy] }   \* policies of ONE direction
   profile [rule]                                                   \* rules of ONE direction

   Verdicts: RuleMatches -> BOOLEAN; PolicyVerdict -> "allow" | "deny" | "pass" | "nomatch";
             TierVerdict / TiersVerdict -> "allow" | "deny" | "next"; EndpointVerdict -> "allow" | "deny".  *)
EXTENDS Integers, Sequences, FiniteSets, Nets

PSElems(s) == { s[i] : i \in DOMAIN s }
PSMin(S) == CHOOSE x \in S : \A y \in S : x <= y

\* ---- actions ------------------------------------------------------------------------------------
PSAction(r) ==
    CASE r.action \in {"", "allow"}          -> "allow"
      [] r.action = "deny"                   -> "deny"
      [] r.action \in {"pass", "next-tier"}  -> "pass"
      [] r.action = "log"                    -> "log"

\* ---- IP version ---------------------------------------------------------------------------------
PSWidth(v) == IF v = 4 THEN 4 ELSE 16
PSIsV(c, v) == Len(c.a) = PSWidth(v)

(* A rule applies to IP version v when its ipVersion allows it and no CIDR match field is written
   entirely in the other family ("the rule is rendered for a version unless filtering its CIDRs to that
   version would remove one of its match fields", felix/rules FilterRuleToIPVersion; the API validator
   rejects mixed-family rules, so for valid rules this is "a rule with CIDRs has their family").       *)
PSFieldAllowsV(f, v) == f = <<>> \/ \E i \in DOMAIN f : PSIsV(f[i], v)
RuleAppliesToVersion(r, v) ==
    /\ r.ipv \in {0, v}
    /\ PSFieldAllowsV(r.srcNets, v) /\ PSFieldAllowsV(r.notSrcNets, v)
    /\ PSFieldAllowsV(r.dstNets, v) /\ PSFieldAllowsV(r.notDstNets, v)

\* ---- elementary predicates ----------------------------------------------------------------------
PortProtos == {6, 17, 132}                      \* TCP, UDP, SCTP: the protocols the API allows ports for
PSHasPorts(p) == p.proto \in PortProtos
PSInRanges(rs, x) == \E i \in DOMAIN rs : rs[i][1] <= x /\ x <= rs[i][2]
PSInNets(cs, a) == \E i \in DOMAIN cs : ContainsAddr(cs[i], a)      \* family mismatch never contains
PSInNetSet(S, a) == S.type = "net" /\ \E i \in DOMAIN S.members : ContainsAddr(S.members[i], a)
PSInPortSet(S, a, pr, port) ==
    S.type = "ipport" /\ \E i \in DOMAIN S.members :
        S.members[i].a = a /\ S.members[i].p = pr /\ S.members[i].port = port
PSIsIcmp(p) == (p.ipv = 4 /\ p.proto = 1) \/ (p.ipv = 6 /\ p.proto = 58)
PSIcmpIs(spec, p) == PSIsIcmp(p) /\ p.icmpType = spec[1] /\ (Len(spec) = 1 \/ p.icmpCode = spec[2])

\* ---- per-field match predicates (every one must hold) ---------------------------------------------
ProtoOK(r, p) == (r.proto = 0 \/ p.proto = r.proto) /\ (r.notProto = 0 \/ p.proto # r.notProto)

SrcAddrOK(r, p, sets) ==
    /\ r.srcNets = <<>> \/ PSInNets(r.srcNets, p.src)
    /\ ~PSInNets(r.notSrcNets, p.src)
    /\ \A i \in DOMAIN r.srcSets : PSInNetSet(sets[r.srcSets[i]], p.src)
    /\ \A i \in DOMAIN r.notSrcSets : ~PSInNetSet(sets[r.notSrcSets[i]], p.src)
DstAddrOK(r, p, sets) ==
    /\ r.dstNets = <<>> \/ PSInNets(r.dstNets, p.dst)
    /\ ~PSInNets(r.notDstNets, p.dst)
    /\ \A i \in DOMAIN r.dstSets : PSInNetSet(sets[r.dstSets[i]], p.dst)
    /\ \A i \in DOMAIN r.notDstSets : ~PSInNetSet(sets[r.notDstSets[i]], p.dst)

\* numeric ports and named ports of one side are alternatives (OR); the negated ones must all fail
SrcPortOK(r, p, sets) ==
    /\ \/ r.srcPorts = <<>> /\ r.srcNamed = <<>>
       \/ PSHasPorts(p) /\ PSInRanges(r.srcPorts, p.sport)
       \/ \E i \in DOMAIN r.srcNamed : PSInPortSet(sets[r.srcNamed[i]], p.src, p.proto, p.sport)
    /\ ~(PSHasPorts(p) /\ PSInRanges(r.notSrcPorts, p.sport))
    /\ \A i \in DOMAIN r.notSrcNamed : ~PSInPortSet(sets[r.notSrcNamed[i]], p.src, p.proto, p.sport)
DstPortOK(r, p, sets) ==
    /\ \/ r.dstPorts = <<>> /\ r.dstNamed = <<>>
       \/ PSHasPorts(p) /\ PSInRanges(r.dstPorts, p.dport)
       \/ \E i \in DOMAIN r.dstNamed : PSInPortSet(sets[r.dstNamed[i]], p.dst, p.proto, p.dport)
    /\ ~(PSHasPorts(p) /\ PSInRanges(r.notDstPorts, p.dport))
    /\ \A i \in DOMAIN r.notDstNamed : ~PSInPortSet(sets[r.notDstNamed[i]], p.dst, p.proto, p.dport)
    /\ \A i \in DOMAIN r.dstIpPortSets : PSInPortSet(sets[r.dstIpPortSets[i]], p.dst, p.proto, p.dport)

IcmpOK(r, p) ==
    /\ r.icmp = <<>> \/ PSIcmpIs(r.icmp, p)
    /\ r.notIcmp = <<>> \/ ~PSIcmpIs(r.notIcmp, p)

RuleMatches(r, p, sets) ==
    /\ RuleAppliesToVersion(r, p.ipv)
    /\ ProtoOK(r, p)
    /\ SrcAddrOK(r, p, sets) /\ DstAddrOK(r, p, sets)
    /\ SrcPortOK(r, p, sets) /\ DstPortOK(r, p, sets)
    /\ IcmpOK(r, p)

\* ---- policies, tiers, profiles --------------------------------------------------------------------
\* first matching rule whose action is not "log" decides
PolicyVerdict(rules, p, sets) ==
    LET hits == { i \in DOMAIN rules : PSAction(rules[i]) # "log" /\ RuleMatches(rules[i], p, sets) }
    IN IF hits = {} THEN "nomatch" ELSE PSAction(rules[PSMin(hits)])

PSEnforced(t) == { i \in DOMAIN t.policies : ~t.policies[i].staged }
(* A tier counts only if it holds an enforced (non-staged) policy for this direction; staged policies
   never influence the verdict.  Within the tier the first policy with a matching rule decides; no
   match at all = the tier's default action (deny unless "Pass").                                  *)
TierVerdict(t, p, sets) ==
    LET enf == PSEnforced(t)
        hits == { i \in enf : PolicyVerdict(t.policies[i].rules, p, sets) # "nomatch" }
    IN IF enf = {} THEN "next"
       ELSE IF hits = {} THEN (IF t.defaultAction = "Pass" THEN "next" ELSE "deny")
       ELSE LET v == PolicyVerdict(t.policies[PSMin(hits)].rules, p, sets)
            IN IF v = "pass" THEN "next" ELSE v

TiersVerdict(tiers, p, sets) ==
    LET dec == { i \in DOMAIN tiers : TierVerdict(tiers[i], p, sets) # "next" }
    IN IF dec = {} THEN "next" ELSE TierVerdict(tiers[PSMin(dec)], p, sets)

\* profiles in order: the first allow or deny decides (pass / no match: next profile); default deny
ProfilesVerdict(profiles, p, sets) ==
    LET dec == { i \in DOMAIN profiles : PolicyVerdict(profiles[i], p, sets) \in {"allow", "deny"} }
    IN IF dec = {} THEN "deny" ELSE PolicyVerdict(profiles[PSMin(dec)], p, sets)

EndpointVerdict(tiers, profiles, p, sets) ==
    LET tv == TiersVerdict(tiers, p, sets)
    IN IF tv # "next" THEN tv ELSE ProfilesVerdict(profiles, p, sets)
=============================================================================
