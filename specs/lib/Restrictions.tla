---------------------------- MODULE Restrictions ----------------------------
(* Meaning of the label-restriction summaries of libcalico-go/lib/selector/parser (LabelRestriction),
   used by C07 (and by the candidate-pruning indexes of felix/labelindex).
   A restriction map R is a function  label name |-> [present, absent, hasvals : BOOLEAN, vals : Seq(STRING)]
   (MustBePresent, MustBeAbsent, MustHaveOneOfValues # nil, MustHaveOneOfValues).
   "MustHaveOneOfValues, if non-nil, indicates that the label must have one of the listed values in order
   to match the selector" - so it implies presence.                                                 *)
EXTENDS Selectors, FiniteSets

LOCAL RSeqSet(s) == { s[i] : i \in DOMAIN s }

SatisfiesOne(L, k, r) ==
    /\ r.present => k \in DOMAIN L
    /\ r.absent => k \notin DOMAIN L
    /\ r.hasvals => (k \in DOMAIN L /\ L[k] \in RSeqSet(r.vals))
Satisfies(L, R) == \A k \in DOMAIN R : SatisfiesOne(L, k, R[k])

\* soundness: the summary never excludes a label map the selector matches
Sound(ast, R, Maps, tab) == \A L \in Maps : Eval(ast, L, tab) => Satisfies(L, R)

\* all label maps over keys K with values in V
AllMaps(K, V) == UNION { [D -> V] : D \in SUBSET K }
=============================================================================
