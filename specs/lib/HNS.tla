-------------------------------- MODULE HNS --------------------------------
(* Evaluation of a list of Windows HNS endpoint ACL policies (hcsshim hns.ACLPolicy, as produced by
   felix/dataplane/windows) on one connection.  Pure definitions (no constants, no variables); all names
   start with "HNS".  Used by C30.

   ---- rule IR (JSON object = record, every field always present) -----------------------------------
   aclrule { "prio":   n,                          \* ACLPolicy.Priority: LOWER number = evaluated FIRST
             "action": "Allow" | "Block" | "pass", \* ACLPolicy.Action verbatim ("pass" is Calico's pseudo
                                                   \* action; it only exists before tier flattening)
             "dir":    "In" | "Out",               \* ACLPolicy.Direction, seen from the endpoint
             "ruleType": "Switch" | "Host",        \* only Switch rules filter the endpoint's traffic
             "proto":  n,                          \* ACLPolicy.Protocol; 256 = any
             "localAddrs": [CIDR], "remoteAddrs": [CIDR],   \* comma separated ACLPolicy.LocalAddresses /
                                                   \* RemoteAddresses; "10.0.0.1" = /32; empty list = any
             "localPorts": [[lo,hi]], "remotePorts": [[lo,hi]],   \* ACLPolicy.LocalPorts / RemotePorts:
                                                   \* "80" = [80,80], "100-200" = [100,200]; empty = any
             "id": s }                             \* ACLPolicy.Id (informational)
   CIDR as in module Nets ({"a":[octets],"n":len}).  The exporter is a field-by-field copy that only
   splits the comma separated strings; a list element it cannot parse is a harness error, not a rule.

   connection = PolicySem packet ("src","dst","proto","sport","dport",...) + a direction:
     "In"  (towards the endpoint):  local = destination, remote = source
     "Out" (from the endpoint):     local = source,      remote = destination

   ---- evaluation ------------------------------------------------------------------------------------
   A rule matches when its direction is the connection's, its protocol is any or equal, and each
   non-empty address / port list contains the connection's value (ports only exist for TCP/UDP/SCTP).
   Among the matching Switch rules the ones with the numerically lowest priority decide.  Windows'
   tie-break between two matching rules of EQUAL priority differs from "first in the list" (comment in
   policysets.GetPolicySetRules), so the model does not pick one: if the deciding rules disagree the
   outcome is "ambiguous".  When nothing matches the outcome is "default" (whatever HNS does for
   unmatched traffic; Calico always appends a catch-all rule and never relies on it).               *)
EXTENDS Integers, Sequences, FiniteSets, Nets

HNSAnyProto == 256
HNSPortProtos == {6, 17, 132}

HNSLocalAddr(conn, dir) == IF dir = "In" THEN conn.dst ELSE conn.src
HNSRemoteAddr(conn, dir) == IF dir = "In" THEN conn.src ELSE conn.dst
HNSLocalPort(conn, dir) == IF dir = "In" THEN conn.dport ELSE conn.sport
HNSRemotePort(conn, dir) == IF dir = "In" THEN conn.sport ELSE conn.dport

HNSAddrOK(list, a) == list = <<>> \/ \E i \in DOMAIN list : ContainsAddr(list[i], a)
HNSPortOK(list, proto, port) ==
    list = <<>> \/ (proto \in HNSPortProtos /\ \E i \in DOMAIN list : list[i][1] <= port /\ port <= list[i][2])

HNSRuleMatches(r, conn, dir) ==
    /\ r.dir = dir
    /\ r.proto = HNSAnyProto \/ r.proto = conn.proto
    /\ HNSAddrOK(r.localAddrs, HNSLocalAddr(conn, dir))
    /\ HNSAddrOK(r.remoteAddrs, HNSRemoteAddr(conn, dir))
    /\ HNSPortOK(r.localPorts, conn.proto, HNSLocalPort(conn, dir))
    /\ HNSPortOK(r.remotePorts, conn.proto, HNSRemotePort(conn, dir))

HNSActionVerdict(a) ==
    CASE a = "Allow" -> "allow"
      [] a = "Block" -> "deny"
      [] a = "pass"  -> "pass"
      [] OTHER       -> "invalid-action"

\* indices of the matching Switch rules / of those among them that decide
HNSMatching(rules, conn, dir) ==
    { i \in DOMAIN rules : rules[i].ruleType = "Switch" /\ HNSRuleMatches(rules[i], conn, dir) }
HNSDeciding(rules, conn, dir) ==
    LET m == HNSMatching(rules, conn, dir)
    IN { i \in m : \A j \in m : rules[i].prio <= rules[j].prio }

HNSOutcomes(rules, conn, dir) ==
    { HNSActionVerdict(rules[i].action) : i \in HNSDeciding(rules, conn, dir) }

\* "allow" | "deny" | "pass" | "default" (nothing matched) | "ambiguous" (equal priority, different actions)
HNSVerdict(rules, conn, dir) ==
    LET o == HNSOutcomes(rules, conn, dir)
    IN IF o = {} THEN "default"
       ELSE IF Cardinality(o) = 1 THEN CHOOSE v \in o : TRUE
       ELSE "ambiguous"
=============================================================================
