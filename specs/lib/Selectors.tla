----------------------------- MODULE Selectors -----------------------------
(* Reference semantics of Calico selector expressions (shared by C01, C03, C04, C06, C07, C20, C29).

   AST (JSON produced by a purely syntactic export of the real parser's node tree):
     {"op":"all"} {"op":"global"}
     {"op":"eq"|"ne"|"contains"|"startswith"|"endswith", "k":<label>, "v":<string>}
     {"op":"in"|"notin", "k":<label>, "vs":[<string>...]}
     {"op":"has", "k":<label>}
     {"op":"not", "a":<node>}      {"op":"and"|"or", "args":[<node>...]}
   A label map is a function from label names to strings (JSON object -> TLA+ record).
   Sub-string operators need the characters of a string, which TLC cannot index; `ct` is a table
   string |-> sequence of one-character strings supplied by the exporter (pure syntax).         *)
EXTENDS Integers, Sequences, TLC

LOCAL SetOf(s) == { s[i] : i \in DOMAIN s }

IsPrefixSeq(s, t) == Len(s) <= Len(t) /\ \A j \in 1..Len(s) : t[j] = s[j]
IsSuffixSeq(s, t) == Len(s) <= Len(t) /\ \A j \in 1..Len(s) : t[Len(t) - Len(s) + j] = s[j]
IsInfixSeq(s, t)  == Len(s) <= Len(t) /\ \E i \in 0..(Len(t) - Len(s)) : \A j \in 1..Len(s) : t[i + j] = s[j]

HasLabel(L, k) == k \in DOMAIN L

RECURSIVE Eval(_, _, _)
Eval(n, L, ct) ==
    CASE n.op = "all"    -> TRUE
      [] n.op = "global" -> TRUE
      [] n.op = "eq"     -> HasLabel(L, n.k) /\ L[n.k] = n.v
      [] n.op = "ne"     -> ~(HasLabel(L, n.k) /\ L[n.k] = n.v)
      [] n.op = "in"     -> HasLabel(L, n.k) /\ L[n.k] \in SetOf(n.vs)
      [] n.op = "notin"  -> ~(HasLabel(L, n.k) /\ L[n.k] \in SetOf(n.vs))
      [] n.op = "has"    -> HasLabel(L, n.k)
      [] n.op = "contains"   -> HasLabel(L, n.k) /\ IsInfixSeq(ct[n.v], ct[L[n.k]])
      [] n.op = "startswith" -> HasLabel(L, n.k) /\ IsPrefixSeq(ct[n.v], ct[L[n.k]])
      [] n.op = "endswith"   -> HasLabel(L, n.k) /\ IsSuffixSeq(ct[n.v], ct[L[n.k]])
      [] n.op = "not"    -> ~Eval(n.a, L, ct)
      [] n.op = "and"    -> \A i \in DOMAIN n.args : Eval(n.args[i], L, ct)
      [] n.op = "or"     -> \E i \in DOMAIN n.args : Eval(n.args[i], L, ct)

\* Effective labels: own labels override labels inherited from parents (profiles), earlier parents in
\* the list are overridden by later ones only where the code says so - here: own > any parent; among
\* parents the *first* parent in `parentLabels` that has the key wins is NOT assumed: callers pass the
\* already-ordered sequence and choose the rule with `lastWins`.
EffLabels(own, parentLabels, lastWins) ==
    LET keys == DOMAIN own \cup UNION { DOMAIN parentLabels[i] : i \in DOMAIN parentLabels }
        FromParents(k) ==
            LET idx == { i \in DOMAIN parentLabels : k \in DOMAIN parentLabels[i] }
                pick == IF lastWins THEN CHOOSE i \in idx : \A j \in idx : j <= i
                                    ELSE CHOOSE i \in idx : \A j \in idx : i <= j
            IN parentLabels[pick][k]
    IN [k \in keys |-> IF k \in DOMAIN own THEN own[k] ELSE FromParents(k)]
=============================================================================
