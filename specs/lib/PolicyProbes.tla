---------------------------- MODULE PolicyProbes ----------------------------
(* Probe packets for a set of rules, computed from the rules themselves (DESIGN 3.2): CIDR edges +-1,
   port-range ends +-1, IP-set members and neighbours, named protocols + others, ICMP type/code +-1.

   The rule match is a conjunction of per-field predicates, so the full product of all boundary values
   is not needed.  For every rule we build "base" packets - one satisfying every field predicate that
   can be satisfied, plus, per field, one that fails exactly that field - and around every base a
   "star": each field in turn takes every boundary value of that field.  A wrong field predicate, a
   lost negation or a wrong and/or combination of two fields each have a witness in that set.
   Choosing probes uses PolicySem's per-field predicates, but only to *choose*; nothing is judged here. *)
EXTENDS PolicySem

\* ---- address arithmetic on octet sequences ------------------------------------------------------
RECURSIVE PPIncAt(_, _)
PPIncAt(a, i) == IF i = 0 THEN a
                 ELSE IF a[i] < 255 THEN [a EXCEPT ![i] = a[i] + 1]
                 ELSE PPIncAt([a EXCEPT ![i] = 0], i - 1)
RECURSIVE PPDecAt(_, _)
PPDecAt(a, i) == IF i = 0 THEN a
                 ELSE IF a[i] > 0 THEN [a EXCEPT ![i] = a[i] - 1]
                 ELSE PPDecAt([a EXCEPT ![i] = 255], i - 1)
AddrInc(a) == PPIncAt(a, Len(a))         \* wraps around at the all-ones address
AddrDec(a) == PPDecAt(a, Len(a))
EdgeAddrs(c) == { FirstAddr(c), LastAddr(c), AddrDec(FirstAddr(c)), AddrInc(LastAddr(c)) }

DefaultSrc(v) == IF v = 4 THEN <<198, 51, 100, 7>> ELSE <<32, 1, 13, 184, 170, 170, 0, 0, 0, 0, 0, 0, 0, 0, 0, 7>>
DefaultDst(v) == IF v = 4 THEN <<203, 0, 113, 9>> ELSE <<32, 1, 13, 184, 187, 187, 0, 0, 0, 0, 0, 0, 0, 0, 0, 9>>

\* ---- candidate values per field -------------------------------------------------------------------
PPCidrsOf(seqs, v) == { c \in UNION { PSElems(s) : s \in seqs } : PSIsV(c, v) }
PPNetSetCidrs(ids, sets, v) ==
    { c \in UNION { IF sets[id].type = "net" THEN PSElems(sets[id].members) ELSE {} : id \in ids } : PSIsV(c, v) }
PPPortSetMembers(ids, sets, v) ==
    { m \in UNION { IF sets[id].type = "ipport" THEN PSElems(sets[id].members) ELSE {} : id \in ids } : Len(m.a) = PSWidth(v) }

SrcPortSetIds(r) == PSElems(r.srcNamed) \cup PSElems(r.notSrcNamed)
DstPortSetIds(r) == PSElems(r.dstNamed) \cup PSElems(r.notDstNamed) \cup PSElems(r.dstIpPortSets)

SrcCand(r, v, sets) ==
    {DefaultSrc(v)}
    \cup UNION { EdgeAddrs(c) : c \in PPCidrsOf({r.srcNets, r.notSrcNets}, v)
                                     \cup PPNetSetCidrs(PSElems(r.srcSets) \cup PSElems(r.notSrcSets), sets, v) }
    \cup { m.a : m \in PPPortSetMembers(SrcPortSetIds(r), sets, v) }
DstCand(r, v, sets) ==
    {DefaultDst(v)}
    \cup UNION { EdgeAddrs(c) : c \in PPCidrsOf({r.dstNets, r.notDstNets}, v)
                                     \cup PPNetSetCidrs(PSElems(r.dstSets) \cup PSElems(r.notDstSets), sets, v) }
    \cup { m.a : m \in PPPortSetMembers(DstPortSetIds(r), sets, v) }

ProtoCand(r, v, sets) ==
    ({r.proto, r.notProto} \ {0}) \cup {6, 17, 47, IF v = 4 THEN 1 ELSE 58}
    \cup { m.p : m \in PPPortSetMembers(SrcPortSetIds(r) \cup DstPortSetIds(r), sets, v) }

PPRangeEdges(rs) == UNION { { rs[i][1] - 1, rs[i][1], rs[i][2], rs[i][2] + 1 } : i \in DOMAIN rs }
PPClip(S) == { x \in S : 0 <= x /\ x <= 65535 }
SportCand(r, v, sets) ==
    PPClip({0, 1024, 65535} \cup PPRangeEdges(r.srcPorts) \cup PPRangeEdges(r.notSrcPorts)
           \cup UNION { { m.port - 1, m.port, m.port + 1 } : m \in PPPortSetMembers(SrcPortSetIds(r), sets, v) })
DportCand(r, v, sets) ==
    PPClip({0, 1024, 65535} \cup PPRangeEdges(r.dstPorts) \cup PPRangeEdges(r.notDstPorts)
           \cup UNION { { m.port - 1, m.port, m.port + 1 } : m \in PPPortSetMembers(DstPortSetIds(r), sets, v) })

PPByte(S) == { x \in S : 0 <= x /\ x <= 255 }
IcmpTypeCand(r) ==
    PPByte({8} \cup (IF r.icmp = <<>> THEN {} ELSE { r.icmp[1] - 1, r.icmp[1], r.icmp[1] + 1 })
               \cup (IF r.notIcmp = <<>> THEN {} ELSE { r.notIcmp[1] - 1, r.notIcmp[1], r.notIcmp[1] + 1 }))
IcmpCodeCand(r) ==
    PPByte({0} \cup (IF Len(r.icmp) < 2 THEN {} ELSE { r.icmp[2] - 1, r.icmp[2], r.icmp[2] + 1 })
               \cup (IF Len(r.notIcmp) < 2 THEN {} ELSE { r.notIcmp[2] - 1, r.notIcmp[2], r.notIcmp[2] + 1 }))

\* ---- packets ----------------------------------------------------------------------------------------
\* ports exist only for port protocols, ICMP fields only for ICMP: normalise so that packets are realistic
PPNorm(p) ==
    LET hasPorts == p.proto \in {6, 17, 132, 136, 33}
        isIcmp == PSIsIcmp(p)
    IN [p EXCEPT !.sport = IF hasPorts THEN @ ELSE 0, !.dport = IF hasPorts THEN @ ELSE 0,
                 !.icmpType = IF isIcmp THEN @ ELSE 0, !.icmpCode = IF isIcmp THEN @ ELSE 0]

PPPick(S, P(_)) == IF \E x \in S : P(x) THEN CHOOSE x \in S : P(x) ELSE CHOOSE x \in S : TRUE
PPPickNot(S, P(_)) == IF \E x \in S : ~P(x) THEN CHOOSE x \in S : ~P(x) ELSE CHOOSE x \in S : TRUE

RuleProbes(r, v, sets) ==
    LET srcC == SrcCand(r, v, sets)     dstC == DstCand(r, v, sets)
        prC == ProtoCand(r, v, sets)
        spC == SportCand(r, v, sets)    dpC == DportCand(r, v, sets)
        itC == IcmpTypeCand(r)          icC == IcmpCodeCand(r)
        blank == [ipv |-> v, proto |-> 6, src |-> DefaultSrc(v), dst |-> DefaultDst(v), sport |-> 1024, dport |-> 1024,
                  icmpType |-> 8, icmpCode |-> 0]
        \* sequentially choose a value per field; want[f] says whether field f should satisfy its predicate
        Build(want) ==
            LET pr == IF want.proto THEN PPPick(prC, LAMBDA x : ProtoOK(r, [blank EXCEPT !.proto = x]))
                      ELSE PPPickNot(prC, LAMBDA x : ProtoOK(r, [blank EXCEPT !.proto = x]))
                b1 == [blank EXCEPT !.proto = pr]
                s == IF want.src THEN PPPick(srcC, LAMBDA x : SrcAddrOK(r, [b1 EXCEPT !.src = x], sets))
                     ELSE PPPickNot(srcC, LAMBDA x : SrcAddrOK(r, [b1 EXCEPT !.src = x], sets))
                b2 == [b1 EXCEPT !.src = s]
                d == IF want.dst THEN PPPick(dstC, LAMBDA x : DstAddrOK(r, [b2 EXCEPT !.dst = x], sets))
                     ELSE PPPickNot(dstC, LAMBDA x : DstAddrOK(r, [b2 EXCEPT !.dst = x], sets))
                b3 == [b2 EXCEPT !.dst = d]
                sp == IF want.sport THEN PPPick(spC, LAMBDA x : SrcPortOK(r, [b3 EXCEPT !.sport = x], sets))
                      ELSE PPPickNot(spC, LAMBDA x : SrcPortOK(r, [b3 EXCEPT !.sport = x], sets))
                b4 == [b3 EXCEPT !.sport = sp]
                dp == IF want.dport THEN PPPick(dpC, LAMBDA x : DstPortOK(r, [b4 EXCEPT !.dport = x], sets))
                      ELSE PPPickNot(dpC, LAMBDA x : DstPortOK(r, [b4 EXCEPT !.dport = x], sets))
                b5 == [b4 EXCEPT !.dport = dp]
                it == IF want.icmp THEN PPPick(itC, LAMBDA x : IcmpOK(r, [b5 EXCEPT !.icmpType = x]))
                      ELSE PPPickNot(itC, LAMBDA x : IcmpOK(r, [b5 EXCEPT !.icmpType = x]))
                b6 == [b5 EXCEPT !.icmpType = it]
                ic == PPPick(icC, LAMBDA x : IcmpOK(r, [b6 EXCEPT !.icmpCode = x]) = want.icmp)
            IN [b6 EXCEPT !.icmpCode = ic]
        allT == [proto |-> TRUE, src |-> TRUE, dst |-> TRUE, sport |-> TRUE, dport |-> TRUE, icmp |-> TRUE]
        bases == { Build(allT) } \cup { Build([allT EXCEPT ![f] = FALSE]) : f \in DOMAIN allT }
        Star(b) ==
            { [b EXCEPT !.src = x] : x \in srcC } \cup { [b EXCEPT !.dst = x] : x \in dstC }
            \cup { [b EXCEPT !.proto = x] : x \in prC }
            \cup { [b EXCEPT !.sport = x] : x \in spC } \cup { [b EXCEPT !.dport = x] : x \in dpC }
            \cup { [b EXCEPT !.icmpType = x] : x \in itC } \cup { [b EXCEPT !.icmpCode = x] : x \in icC }
        \* (address, protocol, port) jointly around every named-port / service set member
        srcM == PPPortSetMembers(SrcPortSetIds(r), sets, v)
        dstM == PPPortSetMembers(DstPortSetIds(r), sets, v)
        Joint(b) ==
            UNION { { [b EXCEPT !.src = m.a, !.proto = q, !.sport = x] : q \in {m.p, 6, 17}, x \in PPClip({m.port - 1, m.port, m.port + 1}) }
                    : m \in srcM }
            \cup UNION { { [b EXCEPT !.dst = m.a, !.proto = q, !.dport = x] : q \in {m.p, 6, 17}, x \in PPClip({m.port - 1, m.port, m.port + 1}) }
                         : m \in dstM }
    IN { PPNorm(p) : p \in UNION { Star(b) \cup Joint(b) : b \in bases } }

\* probes for a collection of rules: the union of the rules' own probes
RulesProbes(rs, v, sets) == UNION { RuleProbes(r, v, sets) : r \in rs }
=============================================================================
