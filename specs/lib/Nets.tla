-------------------------------- MODULE Nets --------------------------------
(* Plain prefix arithmetic on IPv4/IPv6 CIDRs (shared by C04 C08 C09 C17 C19-C23 C29 C30 C36 C39 C40 C43).
   TLC integers are 32-bit signed, so an address is a sequence of octets (4 or 16) and a CIDR is a
   record [a |-> <<octets>>, n |-> prefix length]  (JSON {"a":[10,0,0,0],"n":8}).
   An address is the CIDR with n = 8 * Len(a).                                                  *)
EXTENDS Integers, Sequences, FiniteSets

Pow2(k) == 2 ^ k
Width(c) == 8 * Len(c.a)
IsV4(c) == Len(c.a) = 4
SameFamily(c, d) == Len(c.a) = Len(d.a)

\* the first n bits of octet sequences x and y (same length) are equal
PrefixEq(x, y, n) ==
    LET full == n \div 8
        rem == n % 8
    IN  /\ \A i \in 1..full : x[i] = y[i]
        /\ rem > 0 => (x[full + 1] \div Pow2(8 - rem)) = (y[full + 1] \div Pow2(8 - rem))

\* d is inside (or equal to) c
Covers(c, d) == SameFamily(c, d) /\ c.n <= d.n /\ PrefixEq(c.a, d.a, c.n)
Addr(a) == [a |-> a, n |-> 8 * Len(a)]
ContainsAddr(c, a) == Covers(c, Addr(a))
Intersects(c, d) == Covers(c, d) \/ Covers(d, c)
StrictlyCovers(c, d) == Covers(c, d) /\ c.n < d.n

\* canonical form: host bits cleared
MaskOctet(o, keep) == (o \div Pow2(8 - keep)) * Pow2(8 - keep)       \* keep in 0..8 leading bits
Canon(c) ==
    [a |-> [i \in 1..Len(c.a) |->
                IF 8 * i <= c.n THEN c.a[i]
                ELSE IF 8 * (i - 1) >= c.n THEN 0
                ELSE MaskOctet(c.a[i], c.n - 8 * (i - 1))],
     n |-> c.n]
SameNet(c, d) == Canon(c) = Canon(d)

\* first / last address of a CIDR
FirstAddr(c) == Canon(c).a
LastAddr(c) ==
    [i \in 1..Len(c.a) |->
        IF 8 * i <= c.n THEN c.a[i]
        ELSE IF 8 * (i - 1) >= c.n THEN 255
        ELSE MaskOctet(c.a[i], c.n - 8 * (i - 1)) + Pow2(8 - (c.n - 8 * (i - 1))) - 1]

\* longest-prefix match of address a in a set S of CIDRs: the set of most specific covering members
\* (a singleton unless S holds two spellings of one network); {} when nothing covers a
LPM(S, a) ==
    LET cov == { c \in S : ContainsAddr(c, a) }
    IN { c \in cov : \A d \in cov : d.n <= c.n }

\* ordinal of address a inside CIDR c when the host part is at most 30 bits wide (blocks are small)
RECURSIVE HostVal(_, _, _)
HostVal(a, c, i) ==   \* value of octets i..Len(a) with the network bits masked away
    IF i > Len(a) THEN 0
    ELSE LET keep == IF 8 * i <= c.n THEN 8 ELSE IF 8 * (i - 1) >= c.n THEN 0 ELSE c.n - 8 * (i - 1)
             host == a[i] - MaskOctet(a[i], keep)
         IN host * Pow2(8 * (Len(a) - i)) + HostVal(a, c, i + 1)
Ordinal(c, a) == HostVal(a, c, (c.n \div 8) + 1)
Size(c) == Pow2(Width(c) - c.n)          \* only for Width(c) - c.n <= 30
=============================================================================
