------------------------------ MODULE TraceLib ------------------------------
(* Trace-validation plumbing shared by every T_<X> trace specification.
   The trace is an ndjson file (one JSON object per line, staged as trace.ndjson next to the spec);
   every line has "ev" (event name) and "t" (trace number).  Many traces are concatenated in one
   file; each begins with an {"ev":"reset"} line consumed by the trace spec's Reset action.
   Acceptance: every line was consumed (POSTCONDITION TraceAccepted); on failure the number of
   matched lines is printed as <<"TRACE_HWM", matched, total>> for the orchestrator.            *)
EXTENDS Naturals, Sequences, TLC, Json

VARIABLE l                       \* index of the next trace line to consume

Trace == ndJsonDeserialize("trace.ndjson")
NTrace == Len(Trace)

Cur == Trace[l]
IsEvent(e) == l <= NTrace /\ Trace[l].ev = e /\ l' = l + 1
TraceDone == l = NTrace + 1

\* deterministic (fully logged) traces: BFS depth = number of consumed lines
TraceAccepted ==
    LET d == TLCGet("stats").diameter IN
    IF d - 1 = NTrace THEN TRUE ELSE PrintT(<<"TRACE_HWM", d - 1, NTrace>>) /\ FALSE

\* traces with silent/unlogged steps: high-water mark register (needs -workers 1)
HWMInit == TLCSet(42, 0)
HWMConstraint == TLCSet(42, IF l - 1 > TLCGet(42) THEN l - 1 ELSE TLCGet(42))
TraceAcceptedHWM ==
    IF TLCGet(42) = NTrace THEN TRUE ELSE PrintT(<<"TRACE_HWM", TLCGet(42), NTrace>>) /\ FALSE

\* helpers for JSON-shaped values
SeqToSet(s) == { s[i] : i \in DOMAIN s }
Has(r, f) == f \in DOMAIN r
=============================================================================
