----------------------------- MODULE Netfilter -----------------------------
(* A kernel model for rendered iptables / nftables programs: the rule IR produced by harness/nfparse
   (pure syntax conversion of the text the real renderers emit) is *executed* here.

   program  [flavour |-> "ipt"|"nft", chains |-> [name |-> <<rule>>], maps |-> [name |-> <<[key, a]>>]]
   rule     [m |-> <<match>>, a |-> action]              all matches must hold, then the action runs
   sets     [kernel set name |-> [type |-> "net"|"ipport", members |-> <<...>>]]   (formats: PolicySem)
   packet   PolicySem packet fields (ipv proto src dst sport dport icmpType icmpCode) plus
            iif, oif (interface names as sequences of character codes; <<>> = none),
            ct ("NEW" "ESTABLISHED" "RELATED" "INVALID" "UNTRACKED"), ctdnat, srcLocal, dstLocal,
            rpfFail, ipvs (BOOLEAN)
   state    [mark |-> set of bit positions, notrack |-> BOOLEAN, offload |-> BOOLEAN, path |-> <<chain names entered>>]
   result   [v |-> "accept"|"drop"|"reject"|"return"|"ext", t |-> chain (for "ext"), st |-> state]
            "return": the chain ended or executed RETURN; "ext": control left the program through a
            jump/goto to a chain that is not part of it (the caller decides what that means).

   Matches: proto, net, ports (iptables multiport / nft "tcp dport {..}" with its implied l4proto),
   set (hash:net by one direction flag, hash:ip,port by two), mark/mask, iface ("+"/"*" suffix = prefix
   wildcard), ct state (incl. the virtual DNAT status), addrtype LOCAL, icmp (iptables: one negation for
   the type/code pair; nft: one comparison per field, each implying the ICMP protocol), rpf, ipvs.
   Actions: accept drop reject return jump goto setmark (clear/xor/or over bit sets) notrack offload
   vmap (nft verdict map on iifname/oifname); log/nflog/none continue.                              *)
EXTENDS Integers, Sequences, FiniteSets, Nets

NfElems(s) == { s[i] : i \in DOMAIN s }
NfPortProtos == {6, 17, 132, 136, 33}          \* protocols for which xt_multiport reads ports
NfInRanges(rs, x) == \E i \in DOMAIN rs : rs[i][1] <= x /\ x <= rs[i][2]
NfIsPrefix(p, s) == Len(p) <= Len(s) /\ SubSeq(s, 1, Len(p)) = p

NfState0(mark) == [mark |-> mark, notrack |-> FALSE, offload |-> FALSE, path |-> <<>>]
NfCtState(pkt, st) == IF st.notrack THEN "UNTRACKED" ELSE pkt.ct

\* ---- set lookup -----------------------------------------------------------------------------------
NfAddr(pkt, d) == IF d = "src" THEN pkt.src ELSE pkt.dst
NfPort(pkt, d) == IF d = "src" THEN pkt.sport ELSE pkt.dport
NfSetTest(S, dirs, pkt) ==
    IF S.type = "net"
    THEN \E i \in DOMAIN S.members : ContainsAddr(S.members[i], NfAddr(pkt, dirs[1]))
    ELSE /\ Len(dirs) >= 2              \* fewer dimensions than the set type has: ip_set_test says "no"
         /\ \E i \in DOMAIN S.members :
               /\ S.members[i].a = NfAddr(pkt, dirs[1])
               /\ S.members[i].p = pkt.proto
               /\ S.members[i].port = NfPort(pkt, dirs[2])

\* ---- one match ------------------------------------------------------------------------------------
NfMatch(S, m, pkt, st) ==
    CASE m.k = "proto" -> (pkt.proto = m.p) # m.neg
      [] m.k = "net"   -> ContainsAddr(m.c, NfAddr(pkt, m.side)) # m.neg
      [] m.k = "ports" ->
            IF m.l4 # 0
            THEN pkt.proto = m.l4 /\ (NfInRanges(m.r, NfPort(pkt, m.side)) # m.neg)     \* nft: implied "meta l4proto"
            ELSE (pkt.proto \in NfPortProtos /\ NfInRanges(m.r, NfPort(pkt, m.side))) # m.neg
      [] m.k = "set"   -> NfSetTest(S[m.name], m.dirs, pkt) # m.neg
      [] m.k = "mark"  -> ((st.mark \cap NfElems(m.mask)) = NfElems(m.val)) # m.neg
      [] m.k = "iface" ->
            LET name == IF m.dir = "in" THEN pkt.iif ELSE pkt.oif
            IN (IF m.wild THEN NfIsPrefix(m.name, name) ELSE name = m.name) # m.neg
      [] m.k = "ct"    ->
            (\E i \in DOMAIN m.states :
                IF m.states[i] = "DNAT" THEN pkt.ctdnat ELSE m.states[i] = NfCtState(pkt, st)) # m.neg
      [] m.k = "addrtype" ->
            (IF m.side = "src" THEN pkt.srcLocal ELSE pkt.dstLocal) # m.neg
      [] m.k = "icmp"  ->        \* iptables -m icmp / icmp6 (the rule carries -p icmp, see NfWellFormed)
            (pkt.icmpType = m.type /\ (m.code = -1 \/ pkt.icmpCode = m.code)) # m.neg
      [] m.k = "icmpf" ->        \* nft payload compare; "icmp type ..." implies the protocol
            /\ pkt.ipv = m.v /\ pkt.proto = (IF m.v = 4 THEN 1 ELSE 58)
            /\ ((IF m.f = "type" THEN pkt.icmpType ELSE pkt.icmpCode) = m.val) # m.neg
      [] m.k = "rpf"   -> pkt.rpfFail # m.neg
      [] m.k = "ipvs"  -> pkt.ipvs # m.neg

NfMatches(S, r, pkt, st) == \A i \in DOMAIN r.m : NfMatch(S, r.m[i], pkt, st)

\* ---- would the kernel load this program? ----------------------------------------------------------
(* iptables refuses a multiport / --dport match in a rule without a positive -p for a port protocol and an
   icmp/icmp6 match without -p icmp / ipv6-icmp, and a multiport match with more than 15 slots; both kernels refuse a reference to a set that does not
   exist; nft refuses a lookup whose key does not have the set's type, and nft's grammar wants the
   protocol keyword before every header field: "icmp type 8 code 0" is a syntax error (the "code"
   is not a keyword outside the icmp scope; nft 1.0.6: "Error: No symbol type information"), the
   accepted spelling is "icmp type 8 icmp code 0".                                                  *)
\* xt_multiport holds at most 15 port slots; a single port takes one, a range two
RECURSIVE NfSlotsFrom(_, _)
NfSlotsFrom(rs, i) == IF i > Len(rs) THEN 0 ELSE (IF rs[i][1] = rs[i][2] THEN 1 ELSE 2) + NfSlotsFrom(rs, i + 1)
NfPortSlots(rs) == NfSlotsFrom(rs, 1)
NfRuleRefusals(flavour, S, r) ==
    LET ms == NfElems(r.m)
        posProto == { m.p : m \in { x \in ms : x.k = "proto" /\ ~x.neg } }
        sm == { m \in ms : m.k = "set" }
    IN (IF \E m \in sm : m.name \notin DOMAIN S \/ Len(m.dirs) < 1 THEN {"unknown-set"} ELSE {})
       \cup (IF flavour = "nft" /\ \E m \in sm : m.name \in DOMAIN S
                                      /\ Len(m.dirs) # (IF S[m.name].type = "net" THEN 1 ELSE 2)
             THEN {"nft-set-key-type"} ELSE {})
       \cup (IF flavour = "ipt" /\ (\E m \in ms : m.k = "ports") /\ posProto \cap NfPortProtos = {}
             THEN {"ipt-ports-without-protocol"} ELSE {})
       \cup (IF flavour = "ipt" /\ \E m \in ms : m.k = "ports" /\ NfPortSlots(m.r) > 15
             THEN {"ipt-multiport-over-15-slots"} ELSE {})
       \cup (IF flavour = "ipt" /\ \E m \in ms : m.k = "icmp" /\ (IF m.v = 4 THEN 1 ELSE 58) \notin posProto
             THEN {"ipt-icmp-without-protocol"} ELSE {})
       \cup (IF flavour = "nft" /\ \E m \in ms : m.k = "icmpf" /\ m.bare THEN {"nft-bare-icmp-code"} ELSE {})
       \cup (IF Cardinality(posProto) > 1 THEN {"two-protocols"} ELSE {})
NfRefusals(P, S) ==
    UNION { UNION { NfRuleRefusals(P.flavour, S, P.chains[c][i]) : i \in DOMAIN P.chains[c] } : c \in DOMAIN P.chains }
NfWellFormed(P, S) == NfRefusals(P, S) = {}

\* ---- execution ------------------------------------------------------------------------------------
NfSetMark(mark, a) ==
    LET cleared == mark \ NfElems(a.clr)
        x == NfElems(a.xor)
    IN ((cleared \ x) \cup (x \ cleared)) \cup NfElems(a.or)

NfEnter(st, name) == [st EXCEPT !.path = Append(@, name)]

RECURSIVE NfExec(_, _, _, _, _, _)
RECURSIVE NfAct(_, _, _, _, _, _, _)

\* run chain `name` from rule `pc`
NfExec(P, S, pkt, name, pc, st) ==
    IF name \notin DOMAIN P.chains THEN [v |-> "ext", t |-> name, st |-> st]
    ELSE IF pc > Len(P.chains[name]) THEN [v |-> "return", t |-> "", st |-> st]
    ELSE LET r == P.chains[name][pc]
         IN IF NfMatches(S, r, pkt, st) THEN NfAct(P, S, pkt, name, pc, st, r.a)
            ELSE NfExec(P, S, pkt, name, pc + 1, st)

\* execute action a of rule pc of chain `name`
NfAct(P, S, pkt, name, pc, st, a) ==
    CASE a.k \in {"accept", "drop", "reject"} -> [v |-> a.k, t |-> "", st |-> st]
      [] a.k = "return"  -> [v |-> "return", t |-> "", st |-> st]
      [] a.k \in {"none", "log"} -> NfExec(P, S, pkt, name, pc + 1, st)
      [] a.k = "setmark" -> NfExec(P, S, pkt, name, pc + 1, [st EXCEPT !.mark = NfSetMark(@, a)])
      [] a.k = "notrack" -> NfExec(P, S, pkt, name, pc + 1, [st EXCEPT !.notrack = TRUE])
      [] a.k = "offload" -> NfExec(P, S, pkt, name, pc + 1, [st EXCEPT !.offload = TRUE])
      [] a.k = "jump"    ->
            LET res == NfExec(P, S, pkt, a.t, 1, NfEnter(st, a.t))
            IN IF res.v = "return" THEN NfExec(P, S, pkt, name, pc + 1, res.st) ELSE res
      [] a.k = "goto"    -> NfExec(P, S, pkt, a.t, 1, NfEnter(st, a.t))     \* no return address pushed
      [] a.k = "vmap"    ->
            LET key == IF a.dir = "in" THEN pkt.iif ELSE pkt.oif
                es == P.maps[a.map]
                hits == { i \in DOMAIN es : es[i].key = key }
            IN IF hits = {} THEN NfExec(P, S, pkt, name, pc + 1, st)
               ELSE NfAct(P, S, pkt, name, pc, st, es[CHOOSE i \in hits : TRUE].a)

RunChain(P, S, pkt, name, mark) == NfExec(P, S, pkt, name, 1, NfEnter(NfState0(mark), name))

\* default values of the netfilter-only packet fields
NfPktDefaults == [iif |-> <<>>, oif |-> <<>>, ct |-> "NEW", ctdnat |-> FALSE, srcLocal |-> FALSE, dstLocal |-> FALSE,
                  rpfFail |-> FALSE, ipvs |-> FALSE]

\* ---- hook traversal (C40) -------------------------------------------------------------------------
(* T is a record table name |-> [prog |-> program, base |-> [hook name |-> base chain name]] (a table has a
   base chain only at the hooks it is registered at).  A packet visits, at each hook of its path, the
   tables in priority order raw -> mangle -> filter (NAT is not modelled); the mark and the notrack /
   offload flags persist from table to table; ACCEPT / RETURN from / falling off a base chain continue
   with the next table (base chain policy ACCEPT); DROP / REJECT end the walk.
   hooks: sequence of [hook |-> name, pkt |-> packet as seen at that hook] (interfaces differ per hook).
   Result: [v |-> "accept" | "drop", t |-> where it was dropped, st |-> final state].                 *)
NfTableOrder == <<"raw", "mangle", "filter">>

RECURSIVE NfWalk(_, _, _, _, _)
NfWalk(T, S, hooks, pos, st) ==
    LET h == ((pos - 1) \div 3) + 1
        ti == ((pos - 1) % 3) + 1
    IN IF h > Len(hooks) THEN [v |-> "accept", t |-> "", st |-> st]
       ELSE LET tab == NfTableOrder[ti]
                hook == hooks[h].hook
            IN IF tab \notin DOMAIN T \/ hook \notin DOMAIN T[tab].base
               THEN NfWalk(T, S, hooks, pos + 1, st)
               ELSE LET bc == T[tab].base[hook]
                        res == NfExec(T[tab].prog, S, hooks[h].pkt, bc, 1, NfEnter(st, bc))
                    IN IF res.v \in {"drop", "reject"} THEN [v |-> "drop", t |-> bc, st |-> res.st]
                       ELSE IF res.v = "ext" THEN [v |-> "ext", t |-> res.t, st |-> res.st]
                       ELSE NfWalk(T, S, hooks, pos + 1, res.st)
Path(T, S, hooks, mark) == NfWalk(T, S, hooks, 1, NfState0(mark))
=============================================================================
