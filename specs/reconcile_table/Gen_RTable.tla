---------------------------- MODULE Gen_RTable ----------------------------
(* Behaviour generator for C15 (leg A): start kernels x desired histories x out-of-band edits x
   injected failures x restarts, chosen by TLC over the finite environment RTableEnv.  A behaviour is a
   list of records; the first one carries the start kernel and the insert mode, the driver replays
   the rest on iptables.Table (legacy + nft backend of the mock) and nftables.Table.
   The generator predicts the kernel with the reference reconciler (Target); the prediction only steers
   exploration - verdicts come from validating the recorded trace against RTable (T_RTable).

   "apply" records: fw / fr = number of writes / reads the environment makes fail (0, 1, 6 or 99 = all,
   which makes the Apply fail and - as in production, where Felix then exits - is followed by a
   restart); pre = an out-of-band edit made by other software right before Felix's read ("read") or
   between its read and its write ("write", together with a failing write when prefail - the
   kernel's compare-and-swap - or without).                                                    *)
EXTENDS RTableEnv, Json

CONSTANTS Composite,         \* TRUE: whole desired states are set in one step ("program"), for the cover idiom
          SimLen, Sim        \* Sim: -simulate mode (one random parameter choice per action class)
VARIABLE hist
gvars == <<cfg, desired, kernel, kmaps, belief, phase, known, hist>>

GInit == \E c \in Cfgs, k \in StartKernels :
            /\ (DOMAIN k = {} => c.ownsAll)
            /\ cfg = c /\ kernel = k /\ kmaps = [x \in {} |-> {}]
            /\ desired = [chains |-> [x \in {} |-> <<>>], force |-> {}, maps |-> [x \in {} |-> {}], ins |-> [x \in KCh |-> <<>>], app |-> [x \in KCh |-> <<>>]]
            /\ belief = [stale |-> TRUE, due |-> TRUE]
            /\ phase = [inApply |-> FALSE, readFailed |-> FALSE, envFail |-> FALSE, notified |-> FALSE, consistent |-> TRUE]
            /\ known = {}
            /\ hist = <<[op |-> "start", mode |-> c.mode, owns |-> c.ownsAll, kernel |-> k]>>

Step(a, r) == a /\ hist' = Append(hist, r)
NoEdit == [kind |-> "none"]
SetToSeqG(S) == CHOOSE q \in [1..Cardinality(S) -> S] : \A i, k \in 1..Cardinality(S) : i # k => q[i] # q[k]
Pick(S) == IF Sim /\ S # {} THEN {RandomElement(S)} ELSE S
Rarely(n) == IF Sim THEN RandomElement(1..n) = 1 ELSE TRUE

\* one whole Apply of the reference reconciler
GApply(fw, fr, pre, e, prefail) ==
    LET k1 == IF pre = "none" THEN kernel ELSE EditFn(kernel, e)
        fails == fw = 99 \/ fr = 99
    IN  /\ Idle /\ Consistent(desired)
        /\ (pre # "none" => k1 # kernel)
        /\ kernel' = IF fails THEN k1 ELSE Target(k1, desired)
        /\ kmaps' = IF fails THEN kmaps ELSE desired.maps
        /\ desired' = IF fails THEN EmptyDesired ELSE desired
        /\ belief' = IF fails THEN [stale |-> TRUE, due |-> TRUE] ELSE [stale |-> FALSE, due |-> FALSE]
        /\ UNCHANGED <<cfg, phase, known>>

\* complete desired states over the first kernel chain (the others stay unhooked)
K1 == "K1"
Des(ch, fs, i, a) == [chains |-> ch, force |-> fs, maps |-> [x \in {} |-> {}], ins |-> [k \in KCh |-> IF k = K1 THEN i ELSE <<>>], app |-> [k \in KCh |-> IF k = K1 THEN a ELSE <<>>]]
DesM(d, ms) == [d EXCEPT !.maps = [n \in {FwMap} |-> ms]]
MapsJ(m) == [n \in DOMAIN m |-> SetToSeqG(m[n])]
AB(ra, rb) == [c \in {"cali-a", "cali-b"} |-> IF c = "cali-a" THEN ra ELSE rb]
DesiredMenu ==
    { Des([c \in {} |-> <<>>], {}, <<>>, <<>>),
      Des([c \in {"cali-a"} |-> <<b(1)>>], {}, <<b(3), j(5, "cali-a")>>, <<>>),
      Des(AB(<<b(1), j(2, "cali-b")>>, <<b(1)>>), {}, <<b(3), j(5, "cali-a")>>, <<b(4)>>),
      Des(AB(<<b(1), b(2)>>, <<b(2)>>), {}, <<j(5, "cali-a")>>, <<b(4)>>),
      \* a referenced chain with zero rules
      Des(AB(<<b(1), j(2, "cali-b")>>, <<>>), {}, <<j(5, "cali-a")>>, <<>>),
      \* a force-programmed parent that nothing else references, with a child; and the child alone
      Des(AB(<<b(1), j(2, "cali-b")>>, <<b(1)>>), {"cali-a"}, <<b(3)>>, <<>>),
      Des([c \in {"cali-b"} |-> <<b(1)>>], {}, <<b(3)>>, <<>>),
      \* nftables verdict maps: a dispatch map with two / one interfaces, looked up from the hook rule
      DesM(Des(AB(<<b(1)>>, <<b(1)>>), {}, <<vm(6)>>, <<>>), {mm("e1", "cali-a"), mm("e2", "cali-b")}),
      DesM(Des(AB(<<b(1)>>, <<b(1)>>), {}, <<vm(6)>>, <<>>), {mm("e1", "cali-a")}) }
GProgram(d) == Idle /\ desired # d /\ desired' = d /\ UNCHANGED <<cfg, kernel, kmaps, belief, phase, known>>

ApplyRec(fw, fr, pre, e, prefail) == [op |-> "apply", fw |-> fw, fr |-> fr, pre |-> pre, edit |-> e, prefail |-> prefail]

GNext ==
  \/ /\ Len(hist) = SimLen /\ hist' = Append(hist, [op |-> "end"]) /\ UNCHANGED vars
  \/ /\ Len(hist) < SimLen
     /\ \/ Composite /\ \E d \in DesiredMenu : Step(GProgram(d), [op |-> "program", chains |-> d.chains, force |-> SetToSeqG(d.force), maps |-> MapsJ(d.maps), ins |-> d.ins[K1], app |-> d.app[K1]])
        \/ ~Composite /\ \E c \in Pick(DesChains) : \E m \in Pick(ChainMenu(c)) :
              /\ (IF c \in DOMAIN desired.chains THEN desired.chains[c] # m.rules \/ (c \in desired.force) # m.force ELSE TRUE)
              /\ Step(SetChain(c, m.rules, m.force), [op |-> "set_chain", name |-> c, rules |-> m.rules, force |-> m.force])
        \/ ~Composite /\ Rarely(3) /\ \E c \in Pick(DOMAIN desired.chains) : Step(RemoveChain(c), [op |-> "remove_chain", name |-> c])
        \/ ~Composite /\ \E k \in Pick(KCh), rs \in Pick(InsMenu) : desired.ins[k] # rs /\ Step(SetIns(k, rs), [op |-> "set_ins", chain |-> k, rules |-> rs])
        \/ ~Composite /\ \E k \in Pick(KCh), rs \in Pick(AppMenu) : desired.app[k] # rs /\ Step(SetApp(k, rs), [op |-> "set_app", chain |-> k, rules |-> rs])
        \/ \E e \in Pick({ x \in Edits : EditFn(kernel, x) # kernel }) : Step(ExternalEdit(EditFn(kernel, e)), [op |-> "edit", edit |-> e])
        \/ ~Composite /\ \E ms \in Pick(MapMenu) : (IF FwMap \in DOMAIN desired.maps THEN desired.maps[FwMap] # ms ELSE TRUE)
              /\ Step(SetMap(FwMap, ms), [op |-> "set_map", name |-> FwMap, members |-> SetToSeqG(ms)])
        \/ ~Composite /\ Rarely(3) /\ FwMap \in DOMAIN desired.maps /\ Step(RemoveMap(FwMap), [op |-> "remove_map", name |-> FwMap])
        \/ \E e \in Pick({ x \in MapEdits : EditFnM(kernel, kmaps, x)[2] # kmaps \/ x.kind = "deltable" }) :
              LET r == EditFnM(kernel, kmaps, e) IN
              Step(ExternalEditM(r[1], r[2]), [op |-> "edit", edit |-> (IF "members" \in DOMAIN e THEN [e EXCEPT !.members = SetToSeqG(@)] ELSE e)])
        \/ belief.stale /\ ~belief.due /\ Step(Tick, [op |-> "tick"])
        \/ Rarely(4) /\ Step(Restart, [op |-> "restart"])
        \/ Step(GApply(0, 0, "none", NoEdit, FALSE), ApplyRec(0, 0, "none", NoEdit, FALSE))
        \/ \E fw \in Pick({1, 6, 99}) : Step(GApply(fw, 0, "none", NoEdit, FALSE), ApplyRec(fw, 0, "none", NoEdit, FALSE))
        \/ \E fr \in Pick({1, 99}) : Step(GApply(0, fr, "none", NoEdit, FALSE), ApplyRec(0, fr, "none", NoEdit, FALSE))
        \/ \E e \in Pick({ x \in PreEdits : EditFn(kernel, x) # kernel }), pre \in Pick({"read", "write"}), pf \in Pick(BOOLEAN) :
              (pre = "read" => ~pf) /\ Step(GApply(0, 0, pre, e, pf), ApplyRec(0, 0, pre, e, pf))

GView == <<cfg, desired, kernel, kmaps, belief>>
GBound == \A c \in DOMAIN kernel : Len(kernel[c]) <= 4
EmitEdge == PrintT("BEH " \o ToJson(hist'))
EmitAtLen == Len(hist) = SimLen + 1 => PrintT("BEH " \o ToJson(hist))
=============================================================================
