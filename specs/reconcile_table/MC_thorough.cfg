CONSTANTS
  OurChains = {"cali-a", "cali-b", "cali-old", "felix-old"}
  KCh = {"K1"}
  Modes = {"insert", "append"}
  OwnsAllSet = {FALSE, TRUE}
  Rich = 0
  WithMaps = FALSE
  MaxLen = 4
  MaxEdits = 1
  EditInApply = TRUE
  StartExtras = {{}, {"cali-a", "cali-old", "felix-old", "other"}}
INIT MInit
NEXT MNext
INVARIANTS TypeOK Witness Satisfiable ConvergedMeans
CONSTRAINT Bound
VIEW MView
CHECK_DEADLOCK FALSE
