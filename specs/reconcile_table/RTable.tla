------------------------------ MODULE RTable ------------------------------
(* C15 property layer: reconciliation of one netfilter table (felix/iptables.Table over the
   repository's MockDataplane in legacy and nft-backend mode; felix/nftables.NftablesTable over the
   knftables fake) against a kernel that other software edits and whose commands may fail.

   kernel  : chain name |-> sequence of rules, rule = [h, id, tgt]
               h   = the Felix rule-hash found in the rule's comment ("" = none),
               id  = the rule's match (an integer written into the rule by whoever created it),
               tgt = the chain the rule jumps to ("" = terminal action).
             Ownership is decided HERE, not in Go: a rule is Felix-owned iff it carries a hash comment
             or (rules of pre-hash Felix versions) jumps to a chain with one of Felix's prefixes; a
             chain is Felix-owned iff its name is in OurChains (= the configured historic prefixes);
             nftables.Table owns its whole table (cfg.ownsAll).
   desired : what the caller asked for: Felix chains and, per kernel chain, the "insert" rules
             (InsertOrAppendRules) and the "append" rules (AppendRules).
   belief  : the property-level abstraction of "what Felix thinks is programmed":
               stale = the kernel was changed behind Felix's back (or Felix was restarted) after
                       the last successful read of the kernel by Felix;
               due   = since then Felix has had a documented reason to re-read (refresh interval
                       elapsed, it is a fresh process); within one Apply a rejected write is such
                       a reason too (phase.notified).
   The environment (ExternalEdit, failures, Tick, Restart) is unconstrained; Felix's steps are the
   kernel commands the mock sees (Read, Write) bracketed by ApplyBegin / ApplyEnd.

   The property (statement of C15) is the conjunction of the preconditions of Write and ApplyEnd:
     - every successful write leaves foreign chains and the foreign rules of every chain as they were
       (same rules, same relative order); a failed write leaves the kernel as it was;
     - after a successful Apply - unless the kernel was edited after Felix's last read and Felix
       had no documented reason to look again - Converged(kernel, desired);
     - a write made with accurate knowledge does not touch a non-empty chain that already holds
       its target content as rendered by Felix itself (minimality);
     - an Apply only fails when the environment made a command fail (a command that the kernel
       rejects on its merits excuses nothing: neither a failed Apply nor a non-minimal rewrite). *)
EXTENDS Naturals, Sequences, FiniteSets, TLC

CONSTANTS OurChains            \* chain names owned by Felix by name (configured prefixes)

VARIABLES cfg,                 \* [mode: "insert"|"append", ownsAll: BOOLEAN, kchains: set of kernel/base chains]
          desired,             \* [chains: name :-> Seq(body), force: set of names (ForceProgramming),
                               \*  ins: kchain -> Seq(body), app: kchain -> Seq(body)]
          kernel,              \* name :-> Seq([h, id, tgt])     (a tgt "@m" = verdict-map lookup in map m: `vmap @m`)
          kmaps,               \* nftables verdict maps in the kernel: name :-> set of [k, tgt] (interface k -> goto chain tgt)
          belief,              \* [stale: BOOLEAN, due: BOOLEAN]
          phase,               \* [inApply, readFailed, envFail, notified, consistent: BOOLEAN] (the last four: about this Apply)
          known                \* {<<chain, content>>}: renderings seen at the end of converged applies
vars == <<cfg, desired, kernel, kmaps, belief, phase, known>>

\* ---- helpers ---------------------------------------------------------------------------------
Body(r) == [id |-> r.id, tgt |-> r.tgt]
Bodies(s) == [i \in 1..Len(s) |-> Body(s[i])]
Marked(r) == r.h # ""
AllMarked(s) == \A i \in 1..Len(s) : Marked(s[i])
OwnedRule(r) == cfg.ownsAll \/ r.h # "" \/ r.tgt \in OurChains
OurChain(c) == cfg.ownsAll \/ c \in OurChains
ForeignRules(s) == SelectSeq(s, LAMBDA r : ~OwnedRule(r))
Drop(f, x) == [c \in DOMAIN f \ {x} |-> f[c]]
Put(f, x, v) == [c \in DOMAIN f \cup {x} |-> IF c = x THEN v ELSE f[c]]
Get(f, x) == IF x \in DOMAIN f THEN f[x] ELSE <<>>
IsMapRef(t) == Len(t) > 0 /\ SubSeq(t, 1, 1) = "@"
Targets(s) == { s[i].tgt : i \in 1..Len(s) } \ ({""} \cup { s[i].tgt : i \in { j \in 1..Len(s) : IsMapRef(s[j].tgt) } })
MapRefs(s) == { s[i].tgt : i \in { j \in 1..Len(s) : IsMapRef(s[j].tgt) } }
MapTargets(d) == UNION { { m.tgt : m \in d.maps[n] } : n \in DOMAIN d.maps }

EmptyDesired == [chains |-> [c \in {} |-> <<>>], force |-> {}, maps |-> [c \in {} |-> {}],
                 ins |-> [k \in cfg.kchains |-> <<>>], app |-> [k \in cfg.kchains |-> <<>>]]

\* chains Felix programs (table.go: a chain is programmed if and only if it is referenced): reachable through
\* jumps from the hook rules or from a chain with ForceProgramming ("a force-programmed chain refers to
\* itself"; nftables.Table has no ForceProgramming, there the flag is ignored)
HookTargets(d) == UNION { Targets(d.ins[k]) \cup Targets(d.app[k]) : k \in DOMAIN d.ins }
                  \cup (IF cfg.ownsAll THEN MapTargets(d) ELSE d.force \cap DOMAIN d.chains)
RECURSIVE Reach(_, _)
Reach(d, S) ==
    LET N == S \cup UNION { Targets(d.chains[c]) : c \in S \cap DOMAIN d.chains }
    IN  IF N = S THEN S ELSE Reach(d, N)
Ref(d) == Reach(d, HookTargets(d)) \cap DOMAIN d.chains
\* environment assumption at Apply (table.go: "consistent (i.e. there are no references to
\* nonexistent chains) by the time Apply() is called")
\* (and a rule only looks up a verdict map that the caller has defined)
AllMapRefs(d) == UNION { MapRefs(d.ins[k]) \cup MapRefs(d.app[k]) : k \in DOMAIN d.ins } \cup UNION { MapRefs(d.chains[c]) : c \in DOMAIN d.chains }
Consistent(d) == /\ Reach(d, HookTargets(d)) \subseteq DOMAIN d.chains
                 /\ AllMapRefs(d) \subseteq { "@" \o n : n \in DOMAIN d.maps }

\* ---- the property -----------------------------------------------------------------------------
FelixChainOK(k, d, c) == c \in DOMAIN k /\ Bodies(k[c]) = d.chains[c] /\ AllMarked(k[c])

\* a chain Felix hooks into (or any chain that is not Felix's): Felix's rules are exactly the
\* configured insert rules at the configured end, in order, and the configured append rules at the
\* very end; every other rule of the chain is foreign
HookChainOK(k, d, c) ==
    LET s == k[c]
        n == Len(s)
        ins == Get(d.ins, c)
        app == Get(d.app, c)
        li == Len(ins)
        la == Len(app)
        iFrom == IF cfg.mode = "insert" THEN 1 ELSE n - la - li + 1
        fFrom == IF cfg.mode = "insert" THEN li + 1 ELSE 1
        I == SubSeq(s, iFrom, iFrom + li - 1)
        F == SubSeq(s, fFrom, fFrom + (n - li - la) - 1)
        A == SubSeq(s, n - la + 1, n)
    IN  /\ n >= li + la
        /\ Bodies(I) = ins /\ AllMarked(I)
        /\ Bodies(A) = app /\ AllMarked(A)
        /\ \A i \in 1..Len(F) : ~OwnedRule(F[i])

\* (R = Ref(d), passed down so that the recursive reachability is computed once)
ChainAtTargetR(k, d, c, R) ==
    IF c \in cfg.kchains THEN c \in DOMAIN k /\ HookChainOK(k, d, c)
    ELSE IF OurChain(c) THEN c \in R /\ FelixChainOK(k, d, c)
    ELSE c \in DOMAIN k /\ HookChainOK(k, d, c)
ChainAtTarget(k, d, c) == ChainAtTargetR(k, d, c, Ref(d))

Converged(k, d) ==
    LET R == Ref(d) IN
    /\ \A c \in R : FelixChainOK(k, d, c)
    /\ \A c \in DOMAIN k :
          IF c \in cfg.kchains THEN HookChainOK(k, d, c)
          ELSE IF OurChain(c) THEN c \in R /\ FelixChainOK(k, d, c)       \* no stale / unreferenced chain
          ELSE HookChainOK(k, d, c)                                                 \* no stale hook rule
    /\ \A c \in cfg.kchains : (Len(d.ins[c]) + Len(d.app[c]) > 0) => c \in DOMAIN k

\* nftables verdict maps (the table is Felix's): every desired map exists with exactly the desired members,
\* no other map is left
ConvergedAll(k, km, d) == Converged(k, d) /\ km = d.maps

ForeignChains(k) == { c \in DOMAIN k : ~OurChain(c) }
ForeignSame(k1, k2) ==
    /\ ForeignChains(k1) = ForeignChains(k2)
    /\ \A c \in ForeignChains(k1) : ForeignRules(k1[c]) = ForeignRules(k2[c])

Minimal(k, d, touched) ==
    LET R == Ref(d) IN
    \A c \in touched : ~(c \in DOMAIN k /\ Len(k[c]) > 0 /\ <<c, k[c]>> \in known /\ ChainAtTargetR(k, d, c, R))

\* constructive witness of Converged /\ ForeignSame (used by the generator and checked in the design leg)
Mark(s) == [i \in 1..Len(s) |-> [h |-> "F", id |-> s[i].id, tgt |-> s[i].tgt]]
Target(k, d) ==
    LET R == Ref(d)
        keep == { c \in DOMAIN k : c \in cfg.kchains \/ ~OurChain(c) }
                \cup (IF cfg.ownsAll THEN cfg.kchains ELSE { c \in cfg.kchains : Len(d.ins[c]) + Len(d.app[c]) > 0 })
                \cup R
    IN  [c \in keep |->
           IF c \in cfg.kchains \/ ~OurChain(c)
             THEN LET f == ForeignRules(Get(k, c)) IN
                  IF cfg.mode = "insert" THEN Mark(Get(d.ins, c)) \o f \o Mark(Get(d.app, c))
                  ELSE f \o Mark(Get(d.ins, c)) \o Mark(Get(d.app, c))
             ELSE Mark(d.chains[c])]

\* ---- actions ----------------------------------------------------------------------------------
Idle == ~phase.inApply
ResetM(c, k, km) ==
    /\ cfg' = c /\ kernel' = k /\ kmaps' = km
    /\ desired' = [chains |-> [x \in {} |-> <<>>], force |-> {}, maps |-> [x \in {} |-> {}],
                   ins |-> [x \in c.kchains |-> <<>>], app |-> [x \in c.kchains |-> <<>>]]
    /\ belief' = [stale |-> TRUE, due |-> TRUE]
    /\ phase' = [inApply |-> FALSE, readFailed |-> FALSE, envFail |-> FALSE, notified |-> FALSE, consistent |-> TRUE]
    /\ known' = {}
Reset(c, k) == ResetM(c, k, [x \in {} |-> {}])

SetChain(c, rules, force) == Idle /\ desired' = [desired EXCEPT !.chains = Put(@, c, rules),
                                                                  !.force = IF force THEN @ \cup {c} ELSE @ \ {c}]
                      /\ UNCHANGED <<cfg, kernel, kmaps, belief, phase, known>>
RemoveChain(c) == Idle /\ desired' = [desired EXCEPT !.chains = Drop(@, c), !.force = @ \ {c}]
                  /\ UNCHANGED <<cfg, kernel, kmaps, belief, phase, known>>
SetIns(k, rules) == Idle /\ k \in cfg.kchains /\ desired' = [desired EXCEPT !.ins[k] = rules]
                    /\ UNCHANGED <<cfg, kernel, kmaps, belief, phase, known>>
SetApp(k, rules) == Idle /\ k \in cfg.kchains /\ desired' = [desired EXCEPT !.app[k] = rules]
                    /\ UNCHANGED <<cfg, kernel, kmaps, belief, phase, known>>
\* AddOrReplaceMap / RemoveMap (nftables.Table only)
SetMap(n, members) == Idle /\ desired' = [desired EXCEPT !.maps = Put(@, n, members)]
                      /\ UNCHANGED <<cfg, kernel, kmaps, belief, phase, known>>
RemoveMap(n) == Idle /\ desired' = [desired EXCEPT !.maps = Drop(@, n)]
                /\ UNCHANGED <<cfg, kernel, kmaps, belief, phase, known>>

\* other software (or an operator) rewrites the kernel in any way, at any time, also inside an Apply
ExternalEditM(k, km) == /\ kernel' = k /\ kmaps' = km /\ belief' = [belief EXCEPT !.stale = TRUE]
                        /\ UNCHANGED <<cfg, desired, phase, known>>
ExternalEdit(k) == ExternalEditM(k, kmaps)
\* the configured refresh interval elapses
Tick == Idle /\ belief' = [belief EXCEPT !.due = TRUE] /\ UNCHANGED <<cfg, desired, kernel, kmaps, phase, known>>
\* a new Felix process (new Table) on the same kernel: nothing is remembered
Restart == /\ Idle /\ desired' = EmptyDesired /\ belief' = [stale |-> TRUE, due |-> TRUE]
           /\ UNCHANGED <<cfg, kernel, kmaps, phase, known>>

\* Apply may be called at any time; when the caller breaks its side of the contract (a jump to an
\* undefined chain) only the foreign-content clauses are demanded of this Apply
ApplyBegin == /\ Idle
              /\ phase' = [inApply |-> TRUE, readFailed |-> FALSE, envFail |-> FALSE, notified |-> FALSE,
                           consistent |-> Consistent(desired)]
              /\ UNCHANGED <<cfg, desired, kernel, kmaps, belief, known>>
\* Felix reads the whole table (iptables-save / nft list)
Read(ok) == /\ phase.inApply
            /\ IF ok THEN belief' = [stale |-> FALSE, due |-> FALSE] /\ UNCHANGED phase
                     ELSE phase' = [phase EXCEPT !.readFailed = TRUE, !.envFail = TRUE] /\ UNCHANGED belief
            /\ UNCHANGED <<cfg, desired, kernel, kmaps, known>>
\* Felix writes (iptables-restore / nft transaction).  injected: the environment made it fail.
WriteM(ok, injected, k, km, touched) ==
    /\ phase.inApply
    /\ IF ok
         THEN /\ ForeignSame(kernel, k)
              /\ (phase.consistent /\ ~belief.stale /\ ~phase.envFail) => Minimal(kernel, desired, touched)
              /\ kernel' = k /\ kmaps' = km
              /\ UNCHANGED <<belief, phase>>
         ELSE /\ k = kernel /\ km = kmaps                  \* a rejected command changes nothing
              /\ UNCHANGED belief
              \* a rejected write is a reason to look again before this Apply completes; only a failure made by the
              \* environment excuses anything later in this Apply; a command the kernel rejects on its merits is
              \* Felix's own doing
              /\ phase' = [phase EXCEPT !.notified = TRUE, !.envFail = @ \/ injected]
              /\ UNCHANGED <<kernel, kmaps>>
    /\ UNCHANGED <<cfg, desired, known>>
Write(ok, injected, k, touched) == WriteM(ok, injected, k, kmaps, touched)
ConvergenceDue == ~belief.stale \/ ((belief.due \/ phase.notified) /\ ~phase.readFailed)
ApplyEnd(ok) ==
    /\ phase.inApply
    /\ IF ok
         THEN /\ (phase.consistent /\ ConvergenceDue) => ConvergedAll(kernel, kmaps, desired)
              /\ known' = IF phase.consistent /\ ~belief.stale /\ ConvergedAll(kernel, kmaps, desired)
                            THEN known \cup { <<c, kernel[c]>> : c \in DOMAIN kernel } ELSE known
         ELSE (phase.envFail \/ ~phase.consistent) /\ UNCHANGED known
    /\ phase' = [phase EXCEPT !.inApply = FALSE]
    /\ UNCHANGED <<cfg, desired, kernel, kmaps, belief>>
=============================================================================
