----------------------------- MODULE MC_RTable -----------------------------
(* Design leg for C15: the property layer RTable closed with the finite environment RTableEnv and a
   *reference reconciler* that, whenever it writes, writes Target(kernel, desired) and touches
   exactly the chains that are not at their target.  TLC checks exhaustively that
     - the reference reconciler is never blocked by a precondition of RTable (Satisfiable): the
       property is implementable from every reachable kernel/desired/belief combination, i.e. the
       spec does not demand the impossible;
     - Target really is a witness: Converged /\ ForeignSame, and it is a fixpoint;
     - types.                                                                                   *)
EXTENDS RTableEnv

CONSTANTS MaxLen, MaxEdits, EditInApply
VARIABLE nEdits

IdealTouched(k, d) ==
    LET T == Target(k, d)
        R == Ref(d) IN
    { c \in DOMAIN k \cup DOMAIN T : c \notin DOMAIN k \/ c \notin DOMAIN T \/ ~ChainAtTargetR(k, d, c, R) }

MInit == \E c \in Cfgs, k \in StartKernels : 
            /\ (DOMAIN k = {} => c.ownsAll)        \* iptables: the built-in chains always exist
            /\ cfg = c /\ kernel = k /\ kmaps = [x \in {} |-> {}]
            /\ desired = [chains |-> [x \in {} |-> <<>>], force |-> {}, maps |-> [x \in {} |-> {}], ins |-> [x \in KCh |-> <<>>], app |-> [x \in KCh |-> <<>>]]
            /\ belief = [stale |-> TRUE, due |-> TRUE]
            /\ phase = [inApply |-> FALSE, readFailed |-> FALSE, envFail |-> FALSE, notified |-> FALSE, consistent |-> TRUE]
            /\ known = {}
            /\ nEdits = 0

MSetChain == UNCHANGED nEdits /\ \E c \in DesChains : \E m \in ChainMenu(c) : SetChain(c, m.rules, m.force)
MRemoveChain == UNCHANGED nEdits /\ \E c \in DOMAIN desired.chains : RemoveChain(c)
MSetIns == UNCHANGED nEdits /\ \E k \in KCh, rs \in InsMenu : SetIns(k, rs)
MSetApp == UNCHANGED nEdits /\ \E k \in KCh, rs \in AppMenu : SetApp(k, rs)
MEdit == nEdits < MaxEdits /\ (EditInApply \/ Idle) /\ nEdits' = nEdits + 1 /\ \E e \in Edits : EditFn(kernel, e) # kernel /\ ExternalEdit(EditFn(kernel, e))
\* verdict maps exist for nftables.Table only
MSetMap == UNCHANGED nEdits /\ WithMaps /\ cfg.ownsAll /\ \E ms \in MapMenu : SetMap(FwMap, ms)
MRemoveMap == UNCHANGED nEdits /\ WithMaps /\ cfg.ownsAll /\ FwMap \in DOMAIN desired.maps /\ RemoveMap(FwMap)
MEditMap == /\ WithMaps /\ cfg.ownsAll /\ nEdits < MaxEdits /\ (EditInApply \/ Idle) /\ nEdits' = nEdits + 1
            /\ \E e \in MapEdits : LET r == EditFnM(kernel, kmaps, e) IN
                  (r[1] # kernel \/ r[2] # kmaps) /\ ExternalEditM(r[1], r[2])
MTick == UNCHANGED nEdits /\ belief.stale /\ ~belief.due /\ Tick
MRestart == UNCHANGED nEdits /\ Restart
MApplyBegin == UNCHANGED nEdits /\ Consistent(desired) /\ ApplyBegin
MReadOk == UNCHANGED nEdits /\ Read(TRUE)
MReadFail == UNCHANGED nEdits /\ ~phase.envFail /\ Read(FALSE)
\* the reference reconciler writes only with accurate knowledge
MWriteOk == UNCHANGED nEdits /\ ~belief.stale /\ WriteM(TRUE, FALSE, Target(kernel, desired), desired.maps, IdealTouched(kernel, desired))
MWriteFail == UNCHANGED nEdits /\ ~phase.envFail /\ Write(FALSE, TRUE, kernel, {})
\* an implementation that does not look (no reason to) and does nothing
MApplyEndOk == UNCHANGED nEdits /\ (~ConvergenceDue \/ ConvergedAll(kernel, kmaps, desired)) /\ ApplyEnd(TRUE)
MApplyEndFail == UNCHANGED nEdits /\ phase.envFail /\ ApplyEnd(FALSE)

MNext == \/ MEdit \/ MEditMap \/ MSetMap \/ MRemoveMap \/ MSetChain \/ MRemoveChain \/ MSetIns \/ MSetApp \/ MTick \/ MRestart
         \/ MApplyBegin \/ MReadOk \/ MReadFail \/ MWriteOk \/ MWriteFail \/ MApplyEndOk \/ MApplyEndFail

Bound == \A c \in DOMAIN kernel : Len(kernel[c]) <= MaxLen
MView == <<cfg, desired, kernel, kmaps, belief, phase, nEdits>>

\* ---- invariants --------------------------------------------------------------------------------
RuleOK(r) == r.h \in {"", "F", "STALE"} /\ r.id \in 1..9 /\ r.tgt \in {"", "@" \o FwMap} \cup OurChains \cup {"other"}
TypeOK ==
    /\ \A c \in DOMAIN kernel : \A i \in 1..Len(kernel[c]) : RuleOK(kernel[c][i])
    /\ DOMAIN desired.ins = KCh /\ DOMAIN desired.app = KCh
    /\ DOMAIN desired.chains \subseteq DesChains /\ desired.force \subseteq DOMAIN desired.chains
    /\ belief \in [stale : BOOLEAN, due : BOOLEAN]
\* whenever desired is consistent the witness satisfies the property and the reference reconciler's
\* write would be accepted by RTable!Write
Witness ==
    Consistent(desired) =>
      LET T == Target(kernel, desired) IN
      /\ Converged(T, desired)
      /\ ForeignSame(kernel, T)
      /\ Target(T, desired) = T
      /\ IdealTouched(T, desired) = {}
      /\ Minimal(kernel, desired, IdealTouched(kernel, desired))
\* the reference reconciler can always finish an Apply it started (after reading)
Satisfiable ==
    (phase.inApply /\ ~belief.stale /\ phase.consistent) => ConvergedAll(Target(kernel, desired), desired.maps, desired)
\* convergence is not vacuous: when it holds, Felix content is really the desired one
ConvergedMeans ==
    (Consistent(desired) /\ Converged(kernel, desired)) =>
       /\ \A c \in Ref(desired) : Bodies(kernel[c]) = desired.chains[c]
       /\ \A c \in DOMAIN kernel : OurChain(c) /\ c \notin KCh => c \in DOMAIN desired.chains
=============================================================================
