----------------------------- MODULE T_RTable -----------------------------
(* Trace specification for C15: replays what harness/cmd/rtable recorded from the real
   iptables.Table / nftables.NftablesTable - desired-state calls, out-of-band edits, every kernel
   command the mock saw with the whole table content after it, Apply results - against the property
   layer RTable.  Kernel contents are taken from the log; RTable's Write / ApplyEnd preconditions
   (foreign content identical, convergence, minimality, no unexplained failure) decide.        *)
EXTENDS TraceLib

VARIABLES cfg, desired, kernel, belief, phase, known

\* chain names Felix owns by name: the configured (historic) prefixes cali-, califw-, felix-, ...
\* instantiated over the name universe of the drivers
TOurChains == {"cali-a", "cali-b", "cali-c", "cali-old", "felix-old", "califw-x"}
P == INSTANCE RTable WITH OurChains <- TOurChains
vars == <<cfg, desired, kernel, belief, phase, known>>

Bodies(rs) == [i \in 1..Len(rs) |-> [id |-> rs[i].id, tgt |-> rs[i].tgt]]
TCfg(c) == [mode |-> c.mode, ownsAll |-> c.ownsAll, kchains |-> SeqToSet(c.kchains)]

TInit == /\ l = 1
         /\ cfg = [mode |-> "insert", ownsAll |-> FALSE, kchains |-> {}]
         /\ desired = [chains |-> <<>>, force |-> {}, ins |-> <<>>, app |-> <<>>]
         /\ kernel = <<>>
         /\ belief = [stale |-> TRUE, due |-> TRUE]
         /\ phase = [inApply |-> FALSE, readFailed |-> FALSE, envFail |-> FALSE, notified |-> FALSE, consistent |-> TRUE]
         /\ known = {}

TReset       == IsEvent("reset") /\ P!Reset(TCfg(Cur.cfg), Cur.kernel)
TSetChain    == IsEvent("set_chain") /\ P!SetChain(Cur.name, Bodies(Cur.rules), Cur.force)
TRemoveChain == IsEvent("remove_chain") /\ P!RemoveChain(Cur.name)
TSetIns      == IsEvent("set_ins") /\ P!SetIns(Cur.chain, Bodies(Cur.rules))
TSetApp      == IsEvent("set_app") /\ P!SetApp(Cur.chain, Bodies(Cur.rules))
TEdit        == IsEvent("edit") /\ P!ExternalEdit(Cur.kernel)
TTick        == IsEvent("tick") /\ P!Tick
TRestart     == IsEvent("restart") /\ P!Restart
TApplyBegin  == IsEvent("apply_begin") /\ P!ApplyBegin
TRead        == IsEvent("read") /\ P!Read(Cur.ok)
TWrite       == IsEvent("write") /\ P!Write(Cur.ok, Cur.injected, Cur.kernel, SeqToSet(Cur.touched))
TApplyEnd    == IsEvent("apply_end") /\ P!ApplyEnd(Cur.ok)

TNext == TReset \/ TSetChain \/ TRemoveChain \/ TSetIns \/ TSetApp \/ TEdit \/ TTick \/ TRestart
         \/ TApplyBegin \/ TRead \/ TWrite \/ TApplyEnd
TSpec == TInit /\ [][TNext]_<<vars, l>>
=============================================================================
