----------------------------- MODULE T_RTable -----------------------------
(* Trace specification for C15: replays what harness/cmd/rtable recorded from the real
   iptables.Table / nftables.NftablesTable - desired-state calls, out-of-band edits, every kernel
   command the mock saw with the whole table content after it, Apply results - against the property
   layer RTable.  Kernel contents are taken from the log; RTable's Write / ApplyEnd preconditions
   (foreign content identical, convergence, minimality, no unexplained failure) decide.        *)
EXTENDS TraceLib

VARIABLES cfg, desired, kernel, kmaps, belief, phase, known

\* chain names Felix owns by name: the configured (historic) prefixes cali-, califw-, felix-, ...
\* instantiated over the name universe of the drivers
TOurChains == {"cali-a", "cali-b", "cali-c", "cali-old", "felix-old", "califw-x"}
P == INSTANCE RTable WITH OurChains <- TOurChains
vars == <<cfg, desired, kernel, kmaps, belief, phase, known>>

Bodies(rs) == [i \in 1..Len(rs) |-> [id |-> rs[i].id, tgt |-> rs[i].tgt]]
\* verdict maps are logged as name |-> array of {k, tgt}
MS(a) == { [k |-> a[i].k, tgt |-> a[i].tgt] : i \in 1..Len(a) }
KM(j) == [n \in DOMAIN j |-> MS(j[n])]
TCfg(c) == [mode |-> c.mode, ownsAll |-> c.ownsAll, kchains |-> SeqToSet(c.kchains)]

TInit == /\ l = 1
         /\ cfg = [mode |-> "insert", ownsAll |-> FALSE, kchains |-> {}]
         /\ desired = [chains |-> <<>>, force |-> {}, maps |-> <<>>, ins |-> <<>>, app |-> <<>>]
         /\ kernel = <<>> /\ kmaps = <<>>
         /\ belief = [stale |-> TRUE, due |-> TRUE]
         /\ phase = [inApply |-> FALSE, readFailed |-> FALSE, envFail |-> FALSE, notified |-> FALSE, consistent |-> TRUE]
         /\ known = {}

TReset       == IsEvent("reset") /\ P!ResetM(TCfg(Cur.cfg), Cur.kernel, KM(Cur.maps))
TSetChain    == IsEvent("set_chain") /\ P!SetChain(Cur.name, Bodies(Cur.rules), Cur.force)
TRemoveChain == IsEvent("remove_chain") /\ P!RemoveChain(Cur.name)
TSetIns      == IsEvent("set_ins") /\ P!SetIns(Cur.chain, Bodies(Cur.rules))
TSetApp      == IsEvent("set_app") /\ P!SetApp(Cur.chain, Bodies(Cur.rules))
TEdit        == IsEvent("edit") /\ P!ExternalEditM(Cur.kernel, KM(Cur.maps))
TSetMap      == IsEvent("set_map") /\ P!SetMap(Cur.name, MS(Cur.members))
TRemoveMap   == IsEvent("remove_map") /\ P!RemoveMap(Cur.name)
TTick        == IsEvent("tick") /\ P!Tick
TRestart     == IsEvent("restart") /\ P!Restart
TApplyBegin  == IsEvent("apply_begin") /\ P!ApplyBegin
TRead        == IsEvent("read") /\ P!Read(Cur.ok)
TWrite       == IsEvent("write") /\ P!WriteM(Cur.ok, Cur.injected, Cur.kernel, KM(Cur.maps), SeqToSet(Cur.touched))
TApplyEnd    == IsEvent("apply_end") /\ P!ApplyEnd(Cur.ok)

TNext == TReset \/ TSetMap \/ TRemoveMap \/ TSetChain \/ TRemoveChain \/ TSetIns \/ TSetApp \/ TEdit \/ TTick \/ TRestart
         \/ TApplyBegin \/ TRead \/ TWrite \/ TApplyEnd
TSpec == TInit /\ [][TNext]_<<vars, l>>
=============================================================================
