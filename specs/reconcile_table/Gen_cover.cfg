CONSTANTS
  OurChains = {"cali-a", "cali-b", "cali-old", "felix-old"}
  KCh = {"K1"}
  Modes = {"insert"}
  OwnsAllSet = {FALSE}
  Rich = 0
  WithMaps = FALSE
  StartExtras = {{"cali-a", "cali-old", "felix-old", "other"}}
  SimLen = 4
  Composite = TRUE
  Sim = FALSE
INIT GInit
NEXT GNext
VIEW GView
CONSTRAINT GBound
ACTION_CONSTRAINT EmitEdge
CHECK_DEADLOCK FALSE
