CONSTANTS
  OurChains = {"cali-a", "cali-b", "cali-old", "felix-old"}
  KCh = {"K1"}
  Modes = {"insert"}
  OwnsAllSet = {TRUE}
  Rich = 0
  WithMaps = TRUE
  MaxLen = 3
  MaxEdits = 1
  EditInApply = FALSE
  StartExtras = {{"cali-a", "cali-old", "felix-old", "other"}}
INIT MInit
NEXT MNext
INVARIANTS TypeOK Witness Satisfiable ConvergedMeans
CONSTRAINT Bound
VIEW MView
CHECK_DEADLOCK FALSE
