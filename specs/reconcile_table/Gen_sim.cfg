CONSTANTS
  OurChains = {"cali-a", "cali-b", "cali-old", "felix-old"}
  KCh = {"K1", "K2"}
  Modes = {"insert", "append"}
  OwnsAllSet = {FALSE}
  Rich = 2
  WithMaps = FALSE
  StartExtras = {{}, {"cali-a"}, {"cali-old", "other"}, {"cali-a", "cali-old", "felix-old", "other"}}
  SimLen = 16
  Composite = FALSE
  Sim = TRUE
INIT GInit
NEXT GNext
INVARIANT EmitAtLen
CHECK_DEADLOCK FALSE
