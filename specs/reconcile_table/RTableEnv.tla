---------------------------- MODULE RTableEnv ----------------------------
(* Finite environment for C15 shared by the design-leg model (MC_RTable) and the behaviour
   generator (Gen_RTable): the menus of desired chains / hook rules, of start kernels and of
   out-of-band edits.  Abstract kernel chains "K1", "K2" are mapped by the driver to the backend's
   names (FORWARD/INPUT for iptables, filter-FORWARD/filter-INPUT for nftables).               *)
EXTENDS RTable

CONSTANTS KCh,            \* kernel chains of the model, e.g. {"K1"} or {"K1", "K2"}
          Modes,          \* subset of {"insert", "append"}
          OwnsAllSet,     \* subset of BOOLEAN (TRUE = nftables.Table semantics)
          Rich,           \* 0..2: size of the menus
          WithMaps,       \* BOOLEAN: design-leg variant with nftables verdict maps (slim chain menus)
          StartExtras     \* sets of pre-existing non-kernel chains to start from (subsets of DOMAIN ExtraChains)

b(i) == [id |-> i, tgt |-> ""]
j(i, c) == [id |-> i, tgt |-> c]
f(i) == [h |-> "", id |-> i, tgt |-> ""]                     \* a foreign rule
st(i, t) == [h |-> "STALE", id |-> i, tgt |-> t]            \* a rule of an earlier Felix (other hash)
old(i, t) == [h |-> "", id |-> i, tgt |-> t]                 \* pre-hash Felix hook rule (jump to one of our chains)

\* nftables verdict maps (workload dispatch): interface -> goto chain; vm = the rule that looks the map up
FwMap == "filter-cali-fw"
mm(k, t) == [k |-> k, tgt |-> t]
vm(i) == [id |-> i, tgt |-> "@" \o FwMap]
MapMenu == {{mm("e1", "cali-a")}, {mm("e1", "cali-a"), mm("e2", "cali-b")}} \cup (IF Rich >= 1 THEN {{}, {mm("e2", "cali-a")}} ELSE {})
MapEdits == {[kind |-> "deltable"], [kind |-> "delmember", map |-> FwMap, k |-> "e1"]}
            \cup (IF Rich >= 1 THEN {[kind |-> "delmap", map |-> FwMap], [kind |-> "addmember", map |-> FwMap, k |-> "e9", tgt |-> "cali-a"],
                                     [kind |-> "addmap", map |-> "filter-cali-old", members |-> {mm("e1", "cali-a")}]} ELSE {})
\* effect of a map edit on <<chains, maps>> (deltable: `nft delete table`, only the nftables table is one object)
EditFnM(k, km, e) ==
    CASE e.kind = "deltable" -> <<IF cfg.ownsAll THEN [c \in {} |-> <<>>] ELSE k, [c \in {} |-> {}]>>
      [] e.kind = "delmap" -> <<k, [n \in DOMAIN km \ {e.map} |-> km[n]]>>
      [] e.kind = "addmap" -> <<k, [n \in DOMAIN km \cup {e.map} |-> IF n = e.map THEN e.members ELSE km[n]]>>
      [] e.kind = "delmember" -> <<k, IF e.map \in DOMAIN km THEN [km EXCEPT ![e.map] = { m \in @ : m.k # e.k }] ELSE km>>
      [] e.kind = "addmember" -> <<k, IF e.map \in DOMAIN km THEN [km EXCEPT ![e.map] = @ \cup {mm(e.k, e.tgt)}] ELSE km>>

DesChains == {"cali-a", "cali-b"}
\* (rules, ForceProgramming) variants; cali-a may jump to cali-b, cali-b may have zero rules
cm(rs, fp) == [rules |-> rs, force |-> fp]
ChainMenu(c) ==
    IF WithMaps THEN {cm(<<b(1)>>, FALSE)} ELSE
    IF c = "cali-a"
      THEN {cm(<<b(1)>>, FALSE), cm(<<b(1), j(2, "cali-b")>>, FALSE), cm(<<b(1), j(2, "cali-b")>>, TRUE)}
           \cup (IF Rich >= 1 THEN {cm(<<>>, FALSE), cm(<<b(1), b(2)>>, FALSE)} ELSE {})
           \cup (IF Rich >= 2 THEN {cm(<<b(2), b(1)>>, FALSE), cm(<<b(1), b(2), b(3)>>, FALSE), cm(<<b(2)>>, TRUE)} ELSE {})
      ELSE {cm(<<b(1)>>, FALSE), cm(<<>>, FALSE)} \cup (IF Rich >= 1 THEN {cm(<<b(1), b(2)>>, FALSE)} ELSE {})
                      \cup (IF Rich >= 2 THEN {cm(<<b(2)>>, TRUE), cm(<<b(3), b(1)>>, FALSE)} ELSE {})
InsMenu == IF WithMaps THEN {<<>>, <<vm(6)>>} ELSE {<<>>, <<b(3), j(5, "cali-a")>>}
           \cup (IF Rich >= 1 THEN {<<j(5, "cali-a")>>} ELSE {})
           \cup (IF Rich >= 2 THEN {<<j(6, "cali-b"), j(5, "cali-a")>>, <<b(3)>>} ELSE {})
AppMenu == (IF WithMaps THEN {<<>>} ELSE {<<>>, <<b(4)>>}) \cup (IF Rich >= 2 THEN {<<j(6, "cali-b")>>} ELSE {})

\* ---- out-of-band edits -------------------------------------------------------------------------
InsertAt(s, i, r) == SubSeq(s, 1, i) \o <<r>> \o SubSeq(s, i + 1, Len(s))       \* i = 0 .. Len(s)
RemoveAt(s, i) == SubSeq(s, 1, i - 1) \o SubSeq(s, i + 1, Len(s))
Swap12(s) == <<s[2], s[1]>> \o SubSeq(s, 3, Len(s))
Edits ==
    IF WithMaps THEN { [kind |-> "delchain", chain |-> "cali-a"], [kind |-> "ins", chain |-> "cali-a", pos |-> 0, rule |-> f(7)] } ELSE
    { [kind |-> "ins", chain |-> k, pos |-> p, rule |-> r] :
        k \in KCh, p \in {0, 9},
        r \in {f(7), st(1, "")} \cup (IF Rich >= 1 THEN {old(8, "cali-old")} ELSE {})
                                \cup (IF Rich >= 2 THEN {f(9), st(5, "cali-a")} ELSE {}) }
    \cup { [kind |-> "ins", chain |-> "cali-a", pos |-> p, rule |-> r] :
             p \in {0} \cup (IF Rich >= 1 THEN {9} ELSE {}), r \in {f(7)} \cup (IF Rich >= 1 THEN {st(2, "")} ELSE {}) }
    \cup { [kind |-> "del", chain |-> c, pos |-> p] :
             c \in KCh \cup {"cali-a"} \cup (IF Rich >= 1 THEN {"cali-b"} ELSE {}), p \in {1} \cup (IF Rich >= 1 THEN {2} ELSE {}) }
    \cup { [kind |-> "swap", chain |-> c] : c \in {"cali-a"} \cup (IF Rich >= 1 THEN KCh ELSE {}) }
    \cup { [kind |-> "restamp", chain |-> c, pos |-> p] : c \in KCh \cup (IF Rich >= 1 THEN {"cali-a"} ELSE {}), p \in {1} }
    \cup { [kind |-> "restamp", chain |-> "cali-a", pos |-> 9] }
    \cup { [kind |-> "replace", chain |-> c, pos |-> 9, rule |-> r] :
             c \in {"cali-a"} \cup (IF Rich >= 1 THEN KCh \cup {"cali-b"} ELSE {}), r \in {st(4, "")} \cup (IF Rich >= 1 THEN {f(7)} ELSE {}) }
    \cup { [kind |-> "flush", chain |-> c] : c \in IF Rich >= 1 THEN DesChains ELSE {} }
    \cup { [kind |-> "delchain", chain |-> c] : c \in {"cali-a", "cali-b"} }
    \cup { [kind |-> "addchain", chain |-> c, rules |-> rs] :
             c \in {"cali-old"} \cup (IF Rich >= 1 THEN {"felix-old"} ELSE {}), rs \in {<<st(1, "")>>} }
    \cup { [kind |-> "addchain", chain |-> "other", rules |-> rs] :
             rs \in {<<f(7), old(8, "cali-old"), f(9)>>} \cup (IF Rich >= 1 THEN {<<f(7)>>} ELSE {}) }
    \cup (IF Rich >= 1 THEN { [kind |-> "addchain", chain |-> "cali-b", rules |-> <<st(1, ""), f(7)>>] } ELSE {})

\* edits made while an Apply is running (a subset, to keep the generator's branching down)
PreEdits == IF Rich >= 2 THEN Edits
            ELSE { e \in Edits : \/ e.kind = "ins" /\ e.chain \in KCh /\ e.pos = 0
                                 \/ e.kind = "replace" /\ e.chain = "cali-a" /\ e.rule.h # ""
                                 \/ e.kind = "del" /\ e.pos = 1
                                 \/ e.kind = "addchain" /\ e.chain = "cali-old" }

EditFn(k, e) ==
    LET c == e.chain IN
    CASE e.kind = "ins" ->
           IF c \in DOMAIN k THEN Put(k, c, InsertAt(k[c], IF e.pos > Len(k[c]) THEN Len(k[c]) ELSE e.pos, e.rule)) ELSE k
      [] e.kind = "del" -> IF c \in DOMAIN k /\ e.pos <= Len(k[c]) THEN Put(k, c, RemoveAt(k[c], e.pos)) ELSE k
      [] e.kind = "swap" -> IF c \in DOMAIN k /\ Len(k[c]) >= 2 THEN Put(k, c, Swap12(k[c])) ELSE k
      [] e.kind = "restamp" ->      \* same rule, hash of another Felix generation (pos 9 = last rule)
           LET p == IF e.pos = 9 THEN Len(k[c]) ELSE e.pos IN
           IF c \in DOMAIN k /\ Len(k[c]) >= 1 /\ p <= Len(k[c]) /\ k[c][p].h # ""
             THEN Put(k, c, [k[c] EXCEPT ![p] = [@ EXCEPT !.h = "STALE"]]) ELSE k
      [] e.kind = "replace" ->      \* another rule in the place of an existing one (pos 9 = last rule)
           LET p == IF e.pos = 9 THEN Len(k[c]) ELSE e.pos IN
           IF c \in DOMAIN k /\ Len(k[c]) >= 1 /\ p <= Len(k[c]) /\ \A i \in 1..Len(k[c]) : k[c][i] # e.rule
             THEN Put(k, c, [k[c] EXCEPT ![p] = e.rule]) ELSE k
      [] e.kind = "flush" -> IF c \in DOMAIN k THEN Put(k, c, <<>>) ELSE k
      [] e.kind = "delchain" -> Drop(k, c)
      [] e.kind = "addchain" -> Put(k, c, e.rules)

\* ---- start kernels ------------------------------------------------------------------------------
KStartMenu == {<<f(7), st(1, ""), f(9)>>} \cup (IF Rich >= 1 THEN {<<>>, <<f(7)>>, <<old(8, "cali-old"), f(7)>>} ELSE {})
              \cup (IF Rich >= 2 THEN {<<st(5, "cali-a")>>, <<f(7), f(9), old(8, "felix-old")>>} ELSE {})
ExtraChains == [c \in {"cali-a", "cali-old", "felix-old", "other"} |->
                  CASE c = "cali-a" -> <<st(1, ""), st(3, "")>>
                    [] c = "cali-old" -> <<st(2, "")>>
                    [] c = "felix-old" -> <<>>
                    [] c = "other" -> <<f(7), old(8, "cali-old")>>]
StartKernels ==
    { [c \in KCh \cup X |-> IF c \in KCh THEN km[c] ELSE ExtraChains[c]] :
        km \in [KCh -> KStartMenu], X \in StartExtras }
    \cup { [c \in {} |-> <<>>] }
Cfgs == { [mode |-> m, ownsAll |-> o, kchains |-> KCh] : m \in Modes, o \in OwnsAllSet } \ {[mode |-> "append", ownsAll |-> TRUE, kchains |-> KCh]}
=============================================================================
