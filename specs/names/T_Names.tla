------------------------------ MODULE T_Names ------------------------------
(* Trace specification for C37: every name the real code produced is replayed against the property layer
   of module Names: it fits the limit of its name space, the same identity always gets the same name, and
   no two identities of one name space share a name.

   events   reset {}
            name {dom, id, name, chars, panic, scheme, pre, suf, max}
               dom    name space: "ipt" / "nft" (chains of one table of that dataplane), "ipset", or "raw:..."
                      (direct calls of GetLengthLimitedID/EndpointChainName with a small limit)
               id     the identity (what was named, including its role, e.g. policy+direction), a string
               name   the produced name; chars = its characters as code points (TLC cannot index strings)
               panic  TRUE when the call panicked instead of answering (never accepted)
               scheme TRUE when pre/suf/max are the inputs handed to GetLengthLimitedID (drift check only)
   Limits: the kernel limits are constants HERE (28 for an iptables chain, 256 for an nftables chain as
   knftables.NameLengthMax has it, 31 for an ipset); a "raw" name space uses the limit that was asked for.  *)
EXTENDS TraceLib, Names

CONSTANT Exact
vars == <<byId, byName>>
TInit == l = 1 /\ PInit
TReset == IsEvent("reset") /\ byId' = EmptyFn /\ byName' = EmptyFn

LimitOf(e) == IF e.dom = "ipt" THEN 28 ELSE IF e.dom = "nft" THEN 256 ELSE IF e.dom = "ipset" THEN 31 ELSE e.max

\* implementation-shaped expectation (drift): verbatim unless too long, or exactly as long as the limit and
\* starting with the marker "_" (95); otherwise prefix, marker, hash characters up to exactly max
SchemeOK(e) ==
    LET p == e.pre
        s == IF e.suf = <<>> THEN <<95>> ELSE e.suf
        total == Len(p) + Len(s)
    IN  IF total > e.max \/ (total = e.max /\ s[1] = 95)
        THEN Len(e.chars) = e.max /\ SubSeq(e.chars, 1, Len(p) + 1) = p \o <<95>>
        ELSE e.chars = p \o s

TName == /\ IsEvent("name")
         /\ Cur.panic = FALSE
         /\ Named(Cur.dom, Cur.id, Cur.name, Len(Cur.chars), LimitOf(Cur))
         /\ ((Exact /\ Cur.scheme) => SchemeOK(Cur)) = TRUE
TNext == TReset \/ TName
=============================================================================
