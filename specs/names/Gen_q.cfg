CONSTANTS
  Letters = {"_", "a"}
  Max = 6
  Prefixes <- PQ
INIT GInit
NEXT GNext
ACTION_CONSTRAINT EmitEdge
CHECK_DEADLOCK FALSE
