CONSTANTS
  Letters = {"_", "a"}
  L = 12
  TailMax = 3
  Prefixes <- PQ
INIT GInit
NEXT GNext
ACTION_CONSTRAINT EmitEdge
CHECK_DEADLOCK FALSE
