------------------------------ MODULE MC_Names ------------------------------
(* Design leg of C37: for every pair of distinct non-empty suffixes over Letters (up to Max + 1 - plen + 1
   characters, i.e. on both sides of the limit) and every prefix length, the scheme's names fit the limit
   and cannot collide; a behaviour names two suffixes one after the other through the property layer.  *)
EXTENDS Names
CONSTANTS Letters, Marker, Max, PLens
VARIABLES plen, first, second, phase
vars == <<byId, byName, plen, first, second, phase>>

MaxSuf == Max + 2 - 1
Suffixes == UNION { [1..n -> Letters] : n \in 1..MaxSuf }
\* an abstract spelling of a scheme name as a value of the property layer: equal values iff MayCollide
Spell(p, s) == LET n == SchemeName(p, s, Max, Marker) IN
               IF n.short THEN <<"short", n.of>> ELSE <<"verbatim", n.known>>

MInit == PInit /\ plen \in PLens /\ first \in Suffixes /\ second \in Suffixes /\ first # second /\ phase = 0
NameFirst == /\ phase = 0 /\ phase' = 1
             /\ Named("d", first, Spell(plen, first), SchemeName(plen, first, Max, Marker).len, Max)
             /\ UNCHANGED <<plen, first, second>>
NameSecond == /\ phase = 1 /\ phase' = 2
              /\ Named("d", second, Spell(plen, second), SchemeName(plen, second, Max, Marker).len, Max)
              /\ UNCHANGED <<plen, first, second>>
MNext == NameFirst \/ NameSecond

\* the scheme never produces two names that may be the same string, and there is room for the hash
NoCollision == ~MayCollide(SchemeName(plen, first, Max, Marker), SchemeName(plen, second, Max, Marker))
RoomForHash == Max - 1 - plen >= 1
\* ... hence the property layer accepts both namings: no behaviour gets stuck before phase 2
BothNamed == phase < 2 => ENABLED MNext
=============================================================================
