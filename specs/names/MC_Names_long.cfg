CONSTANTS
  Letters = {"_", "a"}
  Marker = "_"
  Max = 6
  PLens = {2}
INIT MInit
NEXT MNext
INVARIANTS NoCollision RoomForHash BothNamed
CHECK_DEADLOCK FALSE
