------------------------------ MODULE Gen_Names ------------------------------
(* Behaviour generator for C37 (leg A): for a (prefix, limit) configuration one behaviour listing EVERY
   non-empty suffix over Letters on both sides of the limit; the driver names them all with the real
   GetLengthLimitedID / EndpointChainName (twice, in two orders) inside one name space.            *)
EXTENDS Integers, Sequences, TLC, Json
CONSTANTS Letters, Max, Prefixes
VARIABLES pre, emitted
Suffixes(p) == UNION { [1..n -> Letters] : n \in 1..(Max + 2 - Len(p)) }
PQ == {<<"p">>, <<"q", "-">>, <<"_">>}
PT == {<<"p">>, <<"q", "-">>, <<"_">>, <<"c", "-", "_">>}
GInit == pre \in Prefixes /\ emitted = FALSE
GNext == ~emitted /\ emitted' = TRUE /\ UNCHANGED pre
EmitEdge == PrintT("BEH " \o ToJson(<< [op |-> "raw", pre |-> pre, max |-> Max, ids |-> Suffixes(pre)] >>))
=============================================================================
