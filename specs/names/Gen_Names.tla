------------------------------ MODULE Gen_Names ------------------------------
(* Behaviour generator for C37 (leg A): for each prefix one behaviour listing EVERY identity of the form
        head ++ filler ++ tail      head over Letters, 0..2 characters;  tail over Letters, 0..TailMax characters
   with a fixed filler of L characters that are not in Letters, and the limit set to  Len(prefix) + L + 3 : the
   identities lie on both sides of the limit (total length L .. L+2+TailMax), those of exactly the limit's
   length come with and without a leading marker.  The filler only serves to leave L+2 characters for the hash
   (with a 3-character hash a thousand identities DO collide - the collision-resistance assumption needs room).
   The driver names them all with the real GetLengthLimitedID and, in reverse order, with EndpointChainName,
   inside one name space.                                                                            *)
EXTENDS Integers, Sequences, TLC, Json
CONSTANTS Letters, L, TailMax, Prefixes
VARIABLES pre, emitted
Str(n) == UNION { [1..k -> Letters] : k \in 0..n }
Filler == [i \in 1..L |-> "x"]
Ids == { h \o Filler \o t : h \in Str(2), t \in Str(TailMax) }
PQ == {<<"p">>, <<"q", "-">>, <<"_">>}
PT == {<<"p">>, <<"q", "-">>, <<"_">>, <<"c", "-", "_">>}
GInit == pre \in Prefixes /\ emitted = FALSE
GNext == ~emitted /\ emitted' = TRUE /\ UNCHANGED pre
EmitEdge == PrintT("BEH " \o ToJson(<< [op |-> "raw", pre |-> pre, max |-> Len(pre) + L + 3, ids |-> Ids] >>))
=============================================================================
