CONSTANTS
  Letters = {"_", "a", "b"}
  Marker = "_"
  Max = 4
  PLens = {2}
INIT MInit
NEXT MNext
INVARIANTS NoCollision RoomForHash BothNamed
CHECK_DEADLOCK FALSE
