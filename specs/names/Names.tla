-------------------------------- MODULE Names --------------------------------
(* C37: length-limited kernel object names (libcalico-go/lib/hash GetLengthLimitedID and its users in
   felix/rules and felix/ipsets).

   Property layer (used by the trace spec, the only source of verdicts) - within one name space (one
   kernel table / the ipset list):
       Fits       Len(name) <= the limit of the name space
       Function   the same identity always gets the same name
       Injective  distinct identities get distinct names
   state: byId (identity |-> name) and byName (name |-> identity) per name space.

   Scheme layer (design leg): GetLengthLimitedID's scheme with the hash as an ABSTRACT INJECTIVE function.
   A name is  prefix ++ suffix  (verbatim) or  prefix ++ Marker ++ H(suffix)  cut to exactly Max characters.
   The characters H produces are unknown (they may look like anything, including a verbatim suffix), so two
   names MAY collide when their lengths agree and every known position agrees; two shortened names collide
   iff their suffixes are equal (injectivity of H - collision resistance of the truncated SHA-256 is
   ASSUMED, not decided).  TLC checks MayCollide is impossible for distinct non-empty suffixes.      *)
EXTENDS Integers, FiniteSets, Sequences, TLC

\* ---- property layer --------------------------------------------------------------------------------
VARIABLES byId, byName
pvars == <<byId, byName>>
EmptyFn == [x \in {} |-> 0]
PInit == byId = EmptyFn /\ byName = EmptyFn

\* identity `id` of name space `dom` was given `name` (a string) of `len` characters; limit `lim`
Named(dom, id, name, len, lim) ==
    LET ki == <<dom, id>>
        kn == <<dom, name>>
    IN  /\ len <= lim
        /\ IF ki \in DOMAIN byId THEN byId[ki] = name /\ UNCHANGED pvars
           ELSE /\ kn \notin DOMAIN byName
                /\ byId' = [x \in DOMAIN byId \cup {ki} |-> IF x = ki THEN name ELSE byId[x]]
                /\ byName' = [x \in DOMAIN byName \cup {kn} |-> IF x = kn THEN id ELSE byName[x]]

\* ---- scheme layer ------------------------------------------------------------------------------------
\* suffixes are non-empty sequences of letters; plen = length of the fixed prefix
Shortened(plen, s, max, marker) == plen + Len(s) > max \/ (plen + Len(s) = max /\ s[1] = marker)
SchemeName(plen, s, max, marker) ==
    IF Shortened(plen, s, max, marker)
    THEN [short |-> TRUE, len |-> max, known |-> <<marker>>, of |-> s]      \* then max-1-plen unknown hash characters
    ELSE [short |-> FALSE, len |-> plen + Len(s), known |-> s, of |-> s]
MayCollide(a, b) ==
    IF a.short /\ b.short THEN a.of = b.of
    ELSE IF ~a.short /\ ~b.short THEN a.known = b.known
    ELSE a.len = b.len /\ a.known[1] = b.known[1]
=============================================================================
