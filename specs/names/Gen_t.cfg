CONSTANTS
  Letters = {"_", "a", "-"}
  Max = 7
  Prefixes <- PT
INIT GInit
NEXT GNext
ACTION_CONSTRAINT EmitEdge
CHECK_DEADLOCK FALSE
