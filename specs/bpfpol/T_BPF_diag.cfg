INIT TInit
NEXT TDiag
CHECK_DEADLOCK FALSE
