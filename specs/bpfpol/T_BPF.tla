-------------------------------- MODULE T_BPF --------------------------------
(* C11 pass 2: every recorded (configuration, packet state, outcome of the compiled program run by the
   eBPF interpreter) must agree with BPFSem!BPFVerdict.  Outcome fields per result:
     "verdict": "allow" | "deny" | "xdp_pass" | "error:<why>"   (derived purely syntactically by the driver
                 from pol_rc and the tail-call target: rc=1 & tail=allow index -> allow; rc=2 & tail=deny
                 index -> deny; exit code 2 with rc untouched on XDP -> xdp_pass; anything else -> error)
     "log": BOOLEAN (FlagLogPacket set), "subprogs": n                                              *)
EXTENDS TraceLib, BPFSem

TInit == l = 1

LogRuleMatches(c, p) == \E r \in AllRules(c.cfg) : PSAction(r) = "log" /\
                            (RuleMatches(r, p, c.sets) \/ RuleMatches(r, PreNat(p), c.sets))
ResultOK(c, res) ==
    /\ res.verdict = BPFVerdict(c.cfg, res.pkt, c.sets)
    /\ res.log => LogRuleMatches(c, res.pkt)

TCase == /\ IsEvent("case")
         /\ Cur.built                                   \* compiling a valid configuration never fails
         /\ \A i \in DOMAIN Cur.results : ResultOK(Cur, Cur.results[i])
TNext == TCase
\* diagnosis (T_BPF_diag.cfg): accept everything but print the mismatching results
TDiag == /\ IsEvent("case")
         /\ \A i \in DOMAIN Cur.results :
               ResultOK(Cur, Cur.results[i])
               \/ PrintT(<<"MISMATCH", Cur.case, i, Cur.results[i].verdict, BPFVerdict(Cur.cfg, Cur.results[i].pkt, Cur.sets),
                           Cur.results[i].log, Cur.results[i].pkt>>)
=============================================================================
