INIT TInit
NEXT TStep
CHECK_DEADLOCK FALSE
