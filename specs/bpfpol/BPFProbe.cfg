CONSTANT MaxBase = 150
INIT TInit
NEXT TStep
CHECK_DEADLOCK FALSE
