CONSTANTS
  CapHit = 10
  CapMiss = 8
INIT TInit
NEXT TStep
CHECK_DEADLOCK FALSE
