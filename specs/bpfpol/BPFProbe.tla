------------------------------ MODULE BPFProbe ------------------------------
(* C11 pass 1: choose the probe packet states for every generated configuration, from the
   configuration itself (PolicyProbes!RulesProbes: CIDR edges, port-range ends, set members,
   protocols, ICMP types), crossed with the BPF-specific dimensions: to/from host flags and a
   pre-NAT destination that equals or differs from the post-NAT one.  Prints one BEH line per case. *)
EXTENDS TraceLib, PolicyProbes, BPFSem, SequencesExt

CONSTANTS CapHit,         \* per rule: cap on probe packets that the rule matches
          CapMiss         \* per rule: cap on probe packets that it does not match

TInit == l = 1

\* deterministic thinning of a set to about n elements (evenly spaced in TLC's enumeration order)
ThinTo(S, n) == IF Cardinality(S) <= n THEN S
                ELSE LET s == SetToSeq(S)  step == (Len(s) + n - 1) \div n
                     IN { s[i] : i \in { j \in 1..Len(s) : j % step = (Cur.case % step) } }

\* host flags: forwarded, to host, from host.  When some tier is matched against the pre-NAT destination
\* (pre-DNAT tiers, or untracked policy in an XDP program) the packet is also tried with DNAT in effect, in
\* both roles: p's destination as the pre-NAT one with another probe's destination after NAT, and vice versa.
Flags == { <<FALSE, FALSE>>, <<TRUE, FALSE>>, <<FALSE, TRUE>> }
Variants(p, others, usesPre) ==
    { p @@ [preDst |-> p.dst, preDport |-> p.dport, toHost |-> f[1], fromHost |-> f[2]] : f \in Flags }
    \cup (IF ~usesPre THEN {} ELSE
           { p @@ [preDst |-> q.dst, preDport |-> q.dport, toHost |-> f[1], fromHost |-> f[2]] : q \in others, f \in {<<FALSE, FALSE>>, <<TRUE, FALSE>>} }
           \cup { [p EXCEPT !.dst = q.dst, !.dport = q.dport] @@ [preDst |-> p.dst, preDport |-> p.dport, toHost |-> f[1], fromHost |-> f[2]]
                   : q \in others, f \in {<<FALSE, FALSE>>, <<TRUE, FALSE>>} })

\* Very long port / CIDR lists (the oversized cases that force the builder to split a program in the middle
\* of a list) are SAMPLED for the purpose of choosing probes: first and last entries plus ~24 evenly spaced
\* ones, so that entries on both sides of any split point are probed.  The verdict is still judged against
\* the full rule.
SampleIdx(n) == IF n <= 40 THEN 1..n
                ELSE {1, 2, n - 1, n} \cup { (k * n) \div 25 : k \in 1..24 } \cup { ((k * n) \div 25) + 1 : k \in 1..24 }
SampleSeq(q) == IF Len(q) <= 40 THEN q ELSE LET idx == SetToSeq(SampleIdx(Len(q))) IN [i \in 1..Len(idx) |-> q[idx[i]]]
ThinRule(r) == [r EXCEPT !.srcPorts = SampleSeq(@), !.dstPorts = SampleSeq(@), !.notSrcPorts = SampleSeq(@), !.notDstPorts = SampleSeq(@),
                         !.srcNets = SampleSeq(@), !.dstNets = SampleSeq(@), !.notSrcNets = SampleSeq(@), !.notDstNets = SampleSeq(@)]

IsLong(r) == Len(r.srcPorts) > 40 \/ Len(r.dstPorts) > 40 \/ Len(r.notSrcPorts) > 40 \/ Len(r.notDstPorts) > 40 \/ Len(r.srcNets) > 40 \/ Len(r.dstNets) > 40 \/ Len(r.notSrcNets) > 40 \/ Len(r.notDstNets) > 40
\* per rule: probes chosen from the (sampled) rule, split by whether the FULL rule matches them; matching ones are
\* the scarce, interesting kind (they decide "allow expected"), so they get their own quota - a larger one for the
\* oversized rules, whose list entries on both sides of a program split must be exercised
RuleCaseProbes(r, c) ==
    LET P == RuleProbes(ThinRule(r), c.cfg.ipv, c.sets)
        hit == { p \in P : RuleMatches(r, p, c.sets) }
    IN ThinTo(hit, IF IsLong(r) THEN 6 * CapHit ELSE CapHit) \cup ThinTo(P \ hit, CapMiss)

CaseProbes(c) ==
    LET base == UNION { RuleCaseProbes(r, c) : r \in AllRules(c.cfg) }
        \* alternative destinations: one probe per distinct destination port (at most 4), so that DNAT changes the port
        dports == { q.dport : q \in base }
        dsel == IF Cardinality(dports) <= 4 THEN dports
                ELSE LET s == SetToSeq(dports) IN { s[1], s[2], s[(Len(s) + 1) \div 2], s[Len(s)] }
        alt == { CHOOSE q \in base : q.dport = d : d \in dsel }
        blank == [ipv |-> c.cfg.ipv, proto |-> 6, src |-> DefaultSrc(c.cfg.ipv), dst |-> DefaultDst(c.cfg.ipv),
                  sport |-> 1024, dport |-> 1024, icmpType |-> 0, icmpCode |-> 0]
        pkts == IF base = {} THEN {blank} ELSE base
    IN UNION { Variants(p, alt, c.cfg.xdp \/ c.cfg.preDnat # <<>>) : p \in pkts }

TStep == /\ l <= NTrace
         /\ PrintT("BEH " \o ToJson([case |-> Cur.case, pkts |-> SetToSeq(CaseProbes(Cur))]))
         /\ l' = l + 1
=============================================================================
