------------------------------ MODULE BPFProbe ------------------------------
(* C11 pass 1: choose the probe packet states for every generated configuration, from the
   configuration itself (PolicyProbes!RulesProbes: CIDR edges, port-range ends, set members,
   protocols, ICMP types), crossed with the BPF-specific dimensions: to/from host flags and a
   pre-NAT destination that equals or differs from the post-NAT one.  Prints one BEH line per case. *)
EXTENDS TraceLib, PolicyProbes, BPFSem, SequencesExt

CONSTANT MaxBase          \* cap on the number of base probe packets per case (deterministic thinning)

TInit == l = 1

Thin(S) == IF Cardinality(S) <= MaxBase THEN S
           ELSE LET s == SetToSeq(S)  step == (Len(s) + MaxBase - 1) \div MaxBase
                IN { s[i] : i \in { j \in 1..Len(s) : j % step = (Cur.case % step) } }

\* host flags: forwarded, to host, from host; pre-NAT destination variants only matter when some tier is
\* matched against the pre-NAT destination (pre-DNAT tiers, or untracked policy in an XDP program)
Variants(p, others, usesPre) ==
    { p @@ [preDst |-> pd.dst, preDport |-> pd.dport, toHost |-> f[1], fromHost |-> f[2]] :
        pd \in (IF usesPre THEN {p} \cup others ELSE {p}),
        f \in { <<FALSE, FALSE>>, <<TRUE, FALSE>>, <<FALSE, TRUE>> } }

CaseProbes(c) ==
    LET base == Thin(RulesProbes(AllRules(c.cfg), c.cfg.ipv, c.sets))
        \* a few alternative pre-NAT destinations taken from the probes themselves
        alt == IF Cardinality(base) <= 3 THEN base
               ELSE LET s == SetToSeq(base) IN { s[1], s[(Len(s) + 1) \div 2], s[Len(s)] }
        blank == [ipv |-> c.cfg.ipv, proto |-> 6, src |-> DefaultSrc(c.cfg.ipv), dst |-> DefaultDst(c.cfg.ipv),
                  sport |-> 1024, dport |-> 1024, icmpType |-> 0, icmpCode |-> 0]
        pkts == IF base = {} THEN {blank} ELSE base
    IN UNION { Variants(p, alt, c.cfg.xdp \/ c.cfg.preDnat # <<>>) : p \in pkts }

TStep == /\ l <= NTrace
         /\ PrintT("BEH " \o ToJson([case |-> Cur.case, pkts |-> SetToSeq(CaseProbes(Cur))]))
         /\ l' = l + 1
=============================================================================
