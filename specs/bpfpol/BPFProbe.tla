------------------------------ MODULE BPFProbe ------------------------------
(* C11 pass 1: choose the probe packet states for every generated configuration, from the
   configuration itself (PolicyProbes!RulesProbes: CIDR edges, port-range ends, set members,
   protocols, ICMP types), crossed with the BPF-specific dimensions: to/from host flags and a
   pre-NAT destination that equals or differs from the post-NAT one.  Prints one BEH line per case. *)
EXTENDS TraceLib, PolicyProbes, BPFSem, SequencesExt

CONSTANT MaxBase          \* cap on the number of base probe packets per case (deterministic thinning)

TInit == l = 1

Thin(S) == IF Cardinality(S) <= MaxBase THEN S
           ELSE LET s == SetToSeq(S)  step == (Len(s) + MaxBase - 1) \div MaxBase
                IN { s[i] : i \in { j \in 1..Len(s) : j % step = (Cur.case % step) } }

\* host flags: forwarded, to host, from host.  When some tier is matched against the pre-NAT destination
\* (pre-DNAT tiers, or untracked policy in an XDP program) the packet is also tried with DNAT in effect, in
\* both roles: p's destination as the pre-NAT one with another probe's destination after NAT, and vice versa.
Flags == { <<FALSE, FALSE>>, <<TRUE, FALSE>>, <<FALSE, TRUE>> }
Variants(p, others, usesPre) ==
    { p @@ [preDst |-> p.dst, preDport |-> p.dport, toHost |-> f[1], fromHost |-> f[2]] : f \in Flags }
    \cup (IF ~usesPre THEN {} ELSE
           { p @@ [preDst |-> q.dst, preDport |-> q.dport, toHost |-> f[1], fromHost |-> f[2]] : q \in others, f \in {<<FALSE, FALSE>>, <<TRUE, FALSE>>} }
           \cup { [p EXCEPT !.dst = q.dst, !.dport = q.dport] @@ [preDst |-> p.dst, preDport |-> p.dport, toHost |-> f[1], fromHost |-> f[2]]
                   : q \in others, f \in {<<FALSE, FALSE>>, <<TRUE, FALSE>>} })

CaseProbes(c) ==
    LET base == Thin(RulesProbes(AllRules(c.cfg), c.cfg.ipv, c.sets))
        \* a few alternative pre-NAT destinations taken from the probes themselves
        \* alternative destinations: one probe per distinct destination port (at most 4), so that DNAT changes the port
        dports == { q.dport : q \in base }
        dsel == IF Cardinality(dports) <= 4 THEN dports
                ELSE LET s == SetToSeq(dports) IN { s[1], s[2], s[(Len(s) + 1) \div 2], s[Len(s)] }
        alt == { CHOOSE q \in base : q.dport = d : d \in dsel }
        blank == [ipv |-> c.cfg.ipv, proto |-> 6, src |-> DefaultSrc(c.cfg.ipv), dst |-> DefaultDst(c.cfg.ipv),
                  sport |-> 1024, dport |-> 1024, icmpType |-> 0, icmpCode |-> 0]
        pkts == IF base = {} THEN {blank} ELSE base
    IN UNION { Variants(p, alt, c.cfg.xdp \/ c.cfg.preDnat # <<>>) : p \in pkts }

TStep == /\ l <= NTrace
         /\ PrintT("BEH " \o ToJson([case |-> Cur.case, pkts |-> SetToSeq(CaseProbes(Cur))]))
         /\ l' = l + 1
=============================================================================
