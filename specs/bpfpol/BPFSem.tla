------------------------------- MODULE BPFSem -------------------------------
(* C11: reference semantics of a BPF policy-program configuration (felix/bpf/polprog.Rules), built on
   PolicySem's rule matching.  This is the meaning documented on polprog.Rules and in the comments of
   Builder.Instructions, not a transcription of the emitted code:

     1. pre-DNAT host tiers (matched against the pre-NAT destination): allow ends host policy, deny
        drops, no decision continues;
     2. traffic to or from the host: normal host policy (tiers, then host profiles, default deny),
        unless SuppressNormalHostPolicy, in which case host policy allows;
        forwarded traffic: apply-on-forward tiers: allow / deny / no decision = host policy allows;
     3. once host policy allows: on a host interface the packet is allowed; on a workload interface
        the workload tiers and then the profiles decide, default deny.
     XDP programs carry only untracked policy in hostNormal (matched pre-NAT): allow, deny, or
     "xdp_pass" (no decision).

   cfg   { "forHost": BOOLEAN, "suppress": BOOLEAN, "xdp": BOOLEAN, "ipv": 4|6,
           "tiers","preDnat","forward","hostNormal": [ptier], "profiles","hostProfiles": [[rule]] }
   ptier { "end": "deny" | "pass", "policies": [[rule]] }             \* polprog.Tier: no staged notion here
   pkt   PolicySem packet + { "preDst": [octets], "preDport": n, "toHost": BOOLEAN, "fromHost": BOOLEAN }
   In a tier the first matching non-log rule decides (allow / deny / pass = leave the tier); when nothing
   matches, the tier's end action applies (deny, or pass = next tier).  A "log" rule never decides.     *)
EXTENDS PolicySem

\* verdict of a flat rule list: "allow" | "deny" | "pass" | "nomatch"   (PolicySem!PolicyVerdict)
Flat(pols) == IF pols = <<>> THEN <<>> ELSE
    LET RECURSIVE Cat(_)
        Cat(i) == IF i > Len(pols) THEN <<>> ELSE pols[i] \o Cat(i + 1)
    IN Cat(1)

PTierVerdict(t, p, sets) ==
    LET v == PolicyVerdict(Flat(t.policies), p, sets)
    IN CASE v = "allow" -> "allow"
         [] v = "deny" -> "deny"
         [] v = "pass" -> "next"
         [] v = "nomatch" -> IF t.end = "pass" THEN "next" ELSE "deny"

PTiersVerdict(ts, p, sets) ==
    LET dec == { i \in DOMAIN ts : PTierVerdict(ts[i], p, sets) # "next" }
    IN IF dec = {} THEN "next" ELSE PTierVerdict(ts[PSMin(dec)], p, sets)

\* profiles: first allow wins; deny, pass/next-tier or the end of the list deny
\* (writeProfile maps "pass"/"next-tier" to deny)
PProfilesVerdict(profiles, p, sets) ==
    LET dec == { i \in DOMAIN profiles : PolicyVerdict(profiles[i], p, sets) # "nomatch" }
    IN IF dec = {} THEN "deny"
       ELSE IF PolicyVerdict(profiles[PSMin(dec)], p, sets) = "allow" THEN "allow" ELSE "deny"

PreNat(p) == [p EXCEPT !.dst = p.preDst, !.dport = p.preDport]

WorkloadVerdict(cfg, p, sets) ==
    IF cfg.forHost THEN "allow"
    ELSE LET tv == PTiersVerdict(cfg.tiers, p, sets)
         IN IF tv # "next" THEN tv ELSE PProfilesVerdict(cfg.profiles, p, sets)

HostNormalVerdict(cfg, p, sets) ==       \* "hostallow" | "deny"
    LET tv == PTiersVerdict(cfg.hostNormal, p, sets)
    IN IF tv = "allow" THEN "hostallow"
       ELSE IF tv = "deny" THEN "deny"
       ELSE IF PProfilesVerdict(cfg.hostProfiles, p, sets) = "allow" THEN "hostallow" ELSE "deny"

BPFVerdict(cfg, p, sets) ==
    IF cfg.xdp THEN
        LET tv == PTiersVerdict(cfg.hostNormal, PreNat(p), sets)
        IN IF tv = "allow" THEN WorkloadVerdict(cfg, p, sets)
           ELSE IF tv = "deny" THEN "deny" ELSE "xdp_pass"
    ELSE
        LET pre == PTiersVerdict(cfg.preDnat, PreNat(p), sets)
            host == IF pre = "allow" THEN "hostallow"
                    ELSE IF pre = "deny" THEN "deny"
                    ELSE IF p.toHost \/ p.fromHost
                         THEN (IF cfg.suppress THEN "hostallow" ELSE HostNormalVerdict(cfg, p, sets))
                         ELSE (IF PTiersVerdict(cfg.forward, p, sets) = "deny" THEN "deny" ELSE "hostallow")
        IN IF host = "deny" THEN "deny" ELSE WorkloadVerdict(cfg, p, sets)

\* "log" rules the packet passes on its way must set the log flag iff ... (not part of the verdict;
\* checked only as: the flag is set only if some log rule in the configuration matches the packet)
AllRules(cfg) ==
    LET TR(ts) == UNION { PSElems(Flat(ts[i].policies)) : i \in DOMAIN ts }
        PR(ps) == UNION { PSElems(ps[i]) : i \in DOMAIN ps }
    IN TR(cfg.tiers) \cup TR(cfg.preDnat) \cup TR(cfg.forward) \cup TR(cfg.hostNormal)
       \cup PR(cfg.profiles) \cup PR(cfg.hostProfiles)
=============================================================================
