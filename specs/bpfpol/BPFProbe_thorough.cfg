CONSTANT MaxBase = 1500
INIT TInit
NEXT TStep
CHECK_DEADLOCK FALSE
