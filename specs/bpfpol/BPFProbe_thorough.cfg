CONSTANTS
  CapHit = 60
  CapMiss = 40
INIT TInit
NEXT TStep
CHECK_DEADLOCK FALSE
