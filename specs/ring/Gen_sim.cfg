CONSTANTS
  Keys = {"A", "B"}
  N = 5
  PushAfter = 1
  Agg = 2
  MaxT = 1000
  MaxFlows = 1000
  SimLen = 18
INIT GInit
NEXT GNext
INVARIANT EmitAtLen
CHECK_DEADLOCK FALSE
