------------------------------- MODULE I_Ring -------------------------------
(* C32 implementation layer: goldmane/pkg/storage BucketRing as a ring of N slots (time unit = one
   bucket interval): bstart (start time per slot), head, per-slot per-key packet sums, pushed flags;
   AddFlow = findBucket arithmetic; Rollover = advance head, recycle the slot, then (with a sink)
   EmitFlowCollections: walk back from `now - pushAfter` in windows of bucketsToAggregate slots until a
   pushed slot or until the head falls strictly inside the next window; emit the non-empty windows
   oldest first and mark their slots pushed.
   The property layer P_Ring runs alongside as ghost state; TLC checks that every emission is one
   P_Ring!EmitAllowed accepts (disjoint from earlier windows, complete, counted once) and that every
   retained accepted flow is counted in exactly the slot whose interval contains its start time.

   Configurations are restricted to (N - 1 - PushAfter) % Agg # 0 (see ASSUME): otherwise the walk
   back, when no slot is pushed yet, reaches a window that ends or starts exactly at the head slot,
   which `indexBetween` (a strict test) does not catch - the walk wraps into the newest buckets
   (notes/C32.md).  Goldmane's defaults (242, 30, 20) satisfy the restriction.                     *)
EXTENDS Integers, Sequences, FiniteSets, TLC

CONSTANTS Keys, N, PushAfter, Agg, MaxT, MaxFlows
ASSUME N >= PushAfter + Agg + 2 /\ Agg >= 1 /\ (N - 1 - PushAfter) % Agg # 0

VARIABLES bstart, head, cnt, pushed,                   \* implementation state
          n, interval, boh, eoh, acc, emitted,         \* property-layer (ghost) state
          viol                                         \* some emission was not allowed by P_Ring
ivars == <<bstart, head, cnt, pushed>>
pvars == <<n, interval, boh, eoh, acc, emitted>>
vars == <<bstart, head, cnt, pushed, n, interval, boh, eoh, acc, emitted, viol>>

P == INSTANCE P_Ring

Slots == 0..(N - 1)
Zero == [k \in Keys |-> 0]
Mod(i) == i % N

\* NewBucketRing(N, 1, now = Now0): the newest slot starts one interval in the future.  Now0 is
\* well above zero because 0 means "open end" in query ranges (as in the real API, where times are
\* Unix seconds).
Now0 == 20
RInit ==
    /\ n = N /\ interval = 1 /\ eoh = Now0 + 2 /\ boh = Now0 + 2 - N /\ acc = <<>> /\ emitted = {}
    /\ head = 0
    /\ bstart = [j \in Slots |-> IF j = 0 THEN Now0 + 1 ELSE Now0 + 1 - N + j]
    /\ cnt = [j \in Slots |-> Zero]
    /\ pushed = [j \in Slots |-> FALSE]
    /\ viol = FALSE

HeadEnd == bstart[head] + 1
BoH == bstart[Mod(head + 1)]

\* AddFlow(flow): findBucket(flow.StartTime)
AddFlow(k, t) ==
    /\ Len(acc) < MaxFlows
    /\ IF t >= HeadEnd \/ t < BoH
         THEN UNCHANGED cnt                                   \* "Unable to sort flow into a bucket"
         ELSE LET idx == Mod(head - (HeadEnd - 1 - t) + N) IN
              cnt' = [cnt EXCEPT ![idx][k] = @ + 1]
    /\ P!AddFlow([key |-> k, t |-> t, pin |-> 1, pout |-> 0, bin |-> 0, bout |-> 0])
    /\ UNCHANGED <<bstart, head, pushed, viol>>

\* ---- EmitFlowCollections over the post-rollover ring (h, bs, c, pu) -------------------------------
IndexBetween(s, e, target) ==
    IF s = e THEN FALSE ELSE IF s < e THEN target > s /\ target < e ELSE target > s \/ target < e
RECURSIVE SlotsFrom(_, _)
SlotsFrom(s, e) == IF s = e THEN <<>> ELSE <<s>> \o SlotsFrom(Mod(s + 1), e)        \* iterBuckets(start, end)
\* maybeBuildFlowCollection: keys from the slots, counters from the diachronic windows whose
\* [start, end) lies within [bstart[startIdx], bstart[endIdx])
Build(bs, c, s, e) ==
    LET sl == SlotsFrom(s, e)
        ks == { k \in Keys : \E i \in DOMAIN sl : c[sl[i]][k] > 0 }
        t0 == bs[s]
        t1 == bs[e]
        inwin == { j \in Slots : bs[j] >= t0 /\ bs[j] + 1 <= t1 }
        RECURSIVE Tot(_, _)
        Tot(S, k) == IF S = {} THEN 0 ELSE LET j == CHOOSE x \in S : TRUE IN c[j][k] + Tot(S \ {j}, k)
        present == { k \in ks : \E j \in Slots : c[j][k] > 0 /\ bs[j] >= t0 /\ bs[j] < t1 }   \* DiachronicFlow.Within
    IN  [s |-> t0, e |-> t1, slots |-> sl,
         got |-> [k \in present |-> [pin |-> Tot(inwin, k), pout |-> 0, bin |-> 0, bout |-> 0]]]
RECURSIVE Walk(_, _, _, _, _, _, _)
Walk(h, bs, c, pu, s, e, out) ==
    IF pu[s] THEN out                                            \* "Reached an already emitted bucket"
    ELSE LET out2 == Append(out, Build(bs, c, s, e))
             e2 == s
             s2 == Mod(s - Agg + N)
         IN  IF IndexBetween(s2, e2, h) \/ Len(out2) > N THEN out2 ELSE Walk(h, bs, c, pu, s2, e2, out2)
Collections(h, bs, c, pu) ==
    LET e0 == Mod(h - 1 - PushAfter + N)
        s0 == Mod(e0 - Agg + N)
    IN  Walk(h, bs, c, pu, s0, e0, <<>>)

\* judge the emitted (non-empty) collections, oldest first = reverse order of the walk
RECURSIVE Judge(_, _, _, _)
Judge(cols, i, a, em) ==
    IF i = 0 THEN [ok |-> TRUE, em |-> em]
    ELSE IF DOMAIN cols[i].got = {} THEN Judge(cols, i - 1, a, em)                  \* empty: not sent
    ELSE IF ~P!EmitAllowed(a, em, cols[i].s, cols[i].e, cols[i].got) THEN [ok |-> FALSE, em |-> em]
    ELSE Judge(cols, i - 1, a, em \cup {<<cols[i].s, cols[i].e>>})
PushedAfter(cols, pu) ==
    [j \in Slots |-> pu[j] \/ \E i \in DOMAIN cols : DOMAIN cols[i].got # {} /\ \E x \in DOMAIN cols[i].slots : cols[i].slots[x] = j]

Rollover(withSink) ==
    /\ eoh < MaxT
    /\ LET h  == Mod(head + 1)
           bs == [bstart EXCEPT ![h] = bstart[head] + 1]
           c  == [cnt EXCEPT ![h] = Zero]
           pu == [pushed EXCEPT ![h] = FALSE]
           a2 == LET Kept(f) == f.t >= boh + 1 IN SelectSeq(acc, Kept)
           cols == IF withSink THEN Collections(h, bs, c, pu) ELSE <<>>
           j == Judge(cols, Len(cols), a2, emitted)
       IN  /\ head' = h /\ bstart' = bs /\ cnt' = c
           /\ pushed' = PushedAfter(cols, pu)
           /\ boh' = boh + 1 /\ eoh' = eoh + 1 /\ acc' = a2
           /\ emitted' = j.em /\ viol' = (viol \/ ~j.ok)
           /\ UNCHANGED <<n, interval>>

Next == \/ \E k \in Keys, t \in (BoH - 1)..HeadEnd : AddFlow(k, t)
        \/ \E w \in BOOLEAN : Rollover(w)

\* ---- what TLC checks ----------------------------------------------------------------------------
NoViolation == ~viol
\* ghost and implementation agree on the retained history
HistoryAgrees == boh = BoH /\ eoh = HeadEnd
\* conservation: every retained accepted flow is counted in exactly the slot whose interval contains it
Conservation ==
    \A j \in Slots, k \in Keys :
        cnt[j][k] = Cardinality({ i \in DOMAIN acc : acc[i].key = k /\ acc[i].t = bstart[j] })
SlotsContiguous == \A j \in Slots : j # head => bstart[Mod(j + 1)] = bstart[j] + 1
=============================================================================
