------------------------------- MODULE P_Ring -------------------------------
(* C32 property layer.  "Every flow the aggregator accepts is counted in exactly one time bucket, query
   and statistics results over any time range equal the sums of the accepted flows in that range that
   are still retained, and each window of buckets is emitted to the sink at most once, with no accepted
   flow in an emitted window left out."

   Time is explicit (seconds).  The ring retains the history [boh, eoh) - n buckets of `interval`
   seconds; a rollover moves both ends forward by one interval.  A flow is accepted iff its start time
   lies in the retained history; the state is just the bag of accepted flows that are still retained
   (`acc`, a sequence of flow records) and the windows emitted so far.  Counters are summed per flow
   key; the meaning of every query is a sum over `acc`:
       InRange(f, gte, lt)  ==  (gte = 0 \/ f.t >= gte) /\ (lt = 0 \/ f.t < lt)     (0 = open end)
   Ranges are bucket-aligned (the ring cannot split a bucket; the statement's "flows in that range"
   is only unambiguous for aligned ranges).                                                      *)
EXTENDS Integers, Sequences, FiniteSets

CONSTANTS Keys                    \* flow keys of the universe
Fields == {"pin", "pout", "bin", "bout"}

VARIABLES n, interval, boh, eoh,  \* ring geometry: retained history [boh, eoh)
          acc,                    \* sequence of accepted, still retained flows [key, t, pin, pout, bin, bout]
          emitted                 \* set of <<start, end>> windows emitted so far
vars == <<n, interval, boh, eoh, acc, emitted>>

InRange(f, gte, lt) == (gte = 0 \/ f.t >= gte) /\ (lt = 0 \/ f.t < lt)
\* what a query over [gte, lt) must report for key k: the sums, or nothing when no accepted flow matches
Matching(a, k, gte, lt) == { i \in DOMAIN a : a[i].key = k /\ InRange(a[i], gte, lt) }
RECURSIVE SumFrom(_, _, _, _, _, _)
SumFrom(a, i, k, gte, lt, fld) ==
    IF i > Len(a) THEN 0
    ELSE (IF a[i].key = k /\ InRange(a[i], gte, lt) THEN a[i][fld] ELSE 0) + SumFrom(a, i + 1, k, gte, lt, fld)
SumsOf(a, k, gte, lt) == [fld \in Fields |-> SumFrom(a, 1, k, gte, lt, fld)]
KeysInOf(a, gte, lt) == { k \in Keys : \E i \in DOMAIN a : a[i].key = k /\ InRange(a[i], gte, lt) }
Sums(k, gte, lt) == SumsOf(acc, k, gte, lt)
KeysIn(gte, lt) == KeysInOf(acc, gte, lt)

Start(nn, iv, now) ==
    /\ n' = nn /\ interval' = iv
    /\ eoh' = now + 2 * iv /\ boh' = now + 2 * iv - nn * iv      \* one bucket of slack into the future
    /\ acc' = <<>> /\ emitted' = {}

Accepts(t) == boh <= t /\ t < eoh
AddFlow(f) ==
    /\ acc' = IF Accepts(f.t) THEN Append(acc, f) ELSE acc
    /\ UNCHANGED <<n, interval, boh, eoh, emitted>>

SelectSeq2(s, P(_)) == SelectSeq(s, P)
Rollover ==
    /\ boh' = boh + interval /\ eoh' = eoh + interval
    /\ acc' = LET Kept(f) == f.t >= boh + interval IN SelectSeq2(acc, Kept)
    /\ UNCHANGED <<n, interval, emitted>>

\* the sink receives the window [s, e) with per-key sums `got` (a function on the keys it contains);
\* judged against the accepted flows `a` and the windows `em` emitted before
EmitAllowed(a, em, s, e, got) ==
    /\ s < e
    /\ \A w \in em : w[2] <= s \/ e <= w[1]                       \* at most once: disjoint from every earlier window
    /\ DOMAIN got = KeysInOf(a, s, e)                             \* no accepted flow of the window left out ...
    /\ \A k \in DOMAIN got : got[k] = SumsOf(a, k, s, e)          \* ... and each counted exactly once
Emit(s, e, got) ==
    /\ EmitAllowed(acc, emitted, s, e, got)
    /\ emitted' = emitted \cup {<<s, e>>}
    /\ UNCHANGED <<n, interval, boh, eoh, acc>>

\* List / Statistics over the aligned range [gte, lt)
Query(gte, lt, got) ==
    /\ DOMAIN got = KeysIn(gte, lt)
    /\ \A k \in DOMAIN got : got[k] = Sums(k, gte, lt)
    /\ UNCHANGED vars
\* Statistics reports packet counters only
QueryPackets(gte, lt, got) ==
    /\ DOMAIN got = KeysIn(gte, lt)
    /\ \A k \in DOMAIN got : got[k].pin = Sums(k, gte, lt).pin /\ got[k].pout = Sums(k, gte, lt).pout
    /\ UNCHANGED vars
=============================================================================
