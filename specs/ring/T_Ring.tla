------------------------------- MODULE T_Ring -------------------------------
(* Trace specification for C32: replays the calls recorded from the real goldmane/pkg/storage
   BucketRing (explicit time) against P_Ring.
     reset      - NewBucketRing(n, interval, now, pushAfter, bucketsToAggregate)
     add        - AddFlow of a flow (key, start time ts, four counters)
     roll_begin - Rollover(sink or nil) is entered        (history moves one interval forward)
     emit       - the sink received a FlowCollection [s, e) with per-key aggregated counters
     roll_end   - Rollover returned
     list       - List over [gte, lt) (0 = open) with the per-key aggregated counters it returned
     stats      - Statistics(PacketCount, by policy) over [gte, lt) mapped back to flow keys           *)
EXTENDS TraceLib, FiniteSets, Integers

VARIABLES n, interval, boh, eoh, acc, emitted
vars == <<n, interval, boh, eoh, acc, emitted>>

TKeys == UNION { SeqToSet(Trace[i].keys) : i \in { j \in 1..NTrace : Trace[j].ev = "reset" } }
P == INSTANCE P_Ring WITH Keys <- TKeys

Rec(f) == [pin |-> f.pin, pout |-> f.pout, bin |-> f.bin, bout |-> f.bout]
KeysOf(fl) == { fl[i].key : i \in DOMAIN fl }
NoDup(fl) == Cardinality(KeysOf(fl)) = Len(fl)                   \* each key reported once
Got(fl) == [k \in KeysOf(fl) |-> Rec(fl[CHOOSE i \in DOMAIN fl : fl[i].key = k])]
GotPk(fl) == [k \in KeysOf(fl) |-> LET f == fl[CHOOSE i \in DOMAIN fl : fl[i].key = k] IN [pin |-> f.pin, pout |-> f.pout]]

TInit == l = 1 /\ n = 0 /\ interval = 0 /\ boh = 0 /\ eoh = 0 /\ acc = <<>> /\ emitted = {}

TReset == IsEvent("reset") /\ P!Start(Cur.n, Cur.interval, Cur.now)
TAdd   == IsEvent("add") /\ P!AddFlow([key |-> Cur.key, t |-> Cur.ts, pin |-> Cur.pin, pout |-> Cur.pout, bin |-> Cur.bin, bout |-> Cur.bout])
TRollBegin == IsEvent("roll_begin") /\ P!Rollover
TEmit  == IsEvent("emit") /\ NoDup(Cur.flows) /\ P!Emit(Cur.s, Cur.e, Got(Cur.flows))
TRollEnd == IsEvent("roll_end") /\ UNCHANGED vars
TList  == IsEvent("list") /\ NoDup(Cur.flows) /\ P!Query(Cur.gte, Cur.lt, Got(Cur.flows))
TStats == IsEvent("stats") /\ ~Cur.err /\ NoDup(Cur.flows) /\ P!QueryPackets(Cur.gte, Cur.lt, GotPk(Cur.flows))

TNext == TReset \/ TAdd \/ TRollBegin \/ TEmit \/ TRollEnd \/ TList \/ TStats
TSpec == TInit /\ [][TNext]_<<vars, l>>
=============================================================================
