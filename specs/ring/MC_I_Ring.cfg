CONSTANTS
  Keys = {"A", "B"}
  N = 6
  PushAfter = 1
  Agg = 3
  MaxT = 30
  MaxFlows = 4
INIT RInit
NEXT Next
INVARIANTS NoViolation HistoryAgrees Conservation SlotsContiguous
CHECK_DEADLOCK FALSE
