------------------------------ MODULE Gen_Ring ------------------------------
(* Behaviour generator for C32 (leg A): I_Ring's actions plus queries, with a history variable.
   Times are in bucket intervals (I_Ring's unit); the driver scales them to seconds and places each
   flow at a seeded offset inside its bucket.  Used with -simulate (one behaviour per walk).        *)
EXTENDS I_Ring, Json

CONSTANT SimLen
VARIABLE hist
gvars == <<bstart, head, cnt, pushed, n, interval, boh, eoh, acc, emitted, viol, hist>>

GInit == RInit /\ hist = <<>>
Step(a, r) == a /\ hist' = Append(hist, r)
\* aligned query ranges; 0 = open end; Statistics needs both ends inside the retained history
Bounds == BoH..bstart[head]
GNext ==
  \/ /\ Len(hist) = SimLen /\ hist' = Append(hist, [op |-> "end"]) /\ UNCHANGED vars
  \/ /\ Len(hist) < SimLen
     /\ \/ \E k \in Keys, t \in (BoH - 1)..HeadEnd : Step(AddFlow(k, t), [op |-> "add", k |-> k, t |-> t])
        \* (`v` only multiplies the successors so that the random walk rolls over often enough)
        \/ \E w \in BOOLEAN, v \in 1..5 : Step(Rollover(w \/ v > 2), [op |-> "roll", sink |-> (w \/ v > 2), v |-> v])
        \/ \E g \in {0, BoH, BoH + 2}, l \in {0, HeadEnd, bstart[head] - 1} :
              (g = 0 \/ l = 0 \/ g < l) /\ Step(UNCHANGED vars, [op |-> "list", gte |-> g, lt |-> l])
        \/ \E r \in {<<BoH, bstart[head]>>, <<BoH + 1, bstart[head] - 1>>} :
              Step(UNCHANGED vars, [op |-> "stats", gte |-> r[1], lt |-> r[2]])
EmitAtLen == Len(hist) = SimLen + 1 => PrintT("BEH " \o ToJson(hist))
=============================================================================
