CONSTANTS
  Keys = {"A", "B"}
  N = 5
  PushAfter = 1
  Agg = 2
  MaxT = 26
  MaxFlows = 3
INIT RInit
NEXT Next
INVARIANTS NoViolation HistoryAgrees Conservation SlotsContiguous
CHECK_DEADLOCK FALSE
