CONSTANTS
  W = 8
  Sizes = {0, 1, 2, 3, 40}
  SimLen = 60
  Shifts = {0, 8, 16, 24}
  Patterns = 8
INIT GInit
NEXT GNext
VIEW GView
ACTION_CONSTRAINT EmitEdge
CHECK_DEADLOCK FALSE
