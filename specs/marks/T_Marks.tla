------------------------------ MODULE T_Marks ------------------------------
(* Trace specification for C35: replays the calls recorded from a real markbits.MarkBitsManager against
   module Marks.  Masks, marks and numbers are lists of bit positions (pure re-spelling of the uint32/int).
   With Exact = TRUE (T_Marks_exact.cfg) the answers are also compared with the implementation-shaped
   choices (ascending allocation order, number bit i <-> i-th mask bit): drift, never a verdict.

   events   reset {mask}
            next {ok, bits}            NextSingleBitMark
            block {size, bits, alloc}  NextBlockBitsMark(size)
            avail {n}                  AvailableMarkBitCount
            map_num {n, ok, mark}      MapNumberToMark(n)        (0 <= n < 2^32)
            map_mark {mark, ok, n}     MapMarkToNumber(mark)                                          *)
EXTENDS TraceLib, Marks

CONSTANT Exact
VARIABLES pairs       \* the <<number, mark>> correspondences seen so far in this trace
vars == <<mask, given, pairs>>

TInit == l = 1 /\ mask = {} /\ given = {} /\ pairs = {}
B(s) == SeqToSet(s)
NoDupBits(s) == Len(s) = Cardinality(SeqToSet(s))

TReset == IsEvent("reset") /\ NoDupBits(Cur.mask) /\ mask' = B(Cur.mask) /\ given' = {} /\ pairs' = {}

NextExact == (Exact /\ Cur.ok) => B(Cur.bits) = {NthBit(mask, Cardinality(given))}
TNext1 == IsEvent("next") /\ NoDupBits(Cur.bits) /\ NextSingle(Cur.ok, B(Cur.bits)) /\ NextExact = TRUE
          /\ UNCHANGED pairs
TBlock == IsEvent("block") /\ NoDupBits(Cur.bits) /\ NextBlock(Cur.size, B(Cur.bits), Cur.alloc) /\ UNCHANGED pairs
TAvail == IsEvent("avail") /\ AvailIs(Cur.n) /\ UNCHANGED pairs

\* a correspondence must be one-to-one with everything seen before
Consistent(n, mk) == \A p \in pairs : (p[1] = n) <=> (p[2] = mk)
NumOK == LET n == B(Cur.n) mk == B(Cur.mark) IN
         /\ MapNumOK(n, Cur.ok, mk)
         /\ Cur.ok => Consistent(n, mk)
         /\ (Exact /\ Cur.ok) => (Fits(mask, n) /\ mk = Num2Mark(mask, n))
         /\ (Exact /\ ~Cur.ok) => ~Fits(mask, n)
TMapNum == /\ IsEvent("map_num") /\ NoDupBits(Cur.n) /\ NoDupBits(Cur.mark)
           /\ NumOK = TRUE
           /\ pairs' = IF Cur.ok THEN pairs \cup {<<B(Cur.n), B(Cur.mark)>>} ELSE pairs
           /\ UNCHANGED pvars
MarkOK == LET n == B(Cur.n) mk == B(Cur.mark) IN
          /\ MapMarkOK(mk, Cur.ok, n)
          /\ (Cur.ok /\ mk \subseteq mask) => Consistent(n, mk)
          /\ (Exact /\ Cur.ok) => (mk \subseteq mask /\ n = Mark2Num(mask, mk))
TMapMark == /\ IsEvent("map_mark") /\ NoDupBits(Cur.n) /\ NoDupBits(Cur.mark)
            /\ MarkOK = TRUE
            /\ pairs' = IF Cur.ok /\ B(Cur.mark) \subseteq mask THEN pairs \cup {<<B(Cur.n), B(Cur.mark)>>} ELSE pairs
            /\ UNCHANGED pvars

TNext == TReset \/ TNext1 \/ TBlock \/ TAvail \/ TMapNum \/ TMapMark
=============================================================================
