CONSTANTS
  W = 8
  Sizes = {0, 1, 2, 3, 40}
  SimLen = 60
  Shifts = {0, 13, 24}
  Patterns = 6
INIT GInit
NEXT GNext
VIEW GView
ACTION_CONSTRAINT EmitEdge
CHECK_DEADLOCK FALSE
