CONSTANTS
  W = 6
  Sizes = {0, 1, 2, 7}
INIT IInit
NEXT INext
INVARIANTS StepsAccepted CountersOK MapBijective
CHECK_DEADLOCK FALSE
