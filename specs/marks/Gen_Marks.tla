------------------------------ MODULE Gen_Marks ------------------------------
(* Behaviour generator for C35 (leg A): I_Marks' allocation actions with a history, over the masks of
   MaskSet: every 8-bit pattern placed at four shifts inside 32 bits, and structured 32-bit masks.  One
   behaviour per transition of the graph (mask, number of bits allocated).  The driver asks the number/mark
   mapping questions for every mask on its own (all small numbers, boundary numbers, sub-masks).      *)
EXTENDS I_Marks, Json

CONSTANTS SimLen, Shifts, Patterns
VARIABLE hist

Placed == { { b + s : b \in p } : p \in SUBSET (0..(Patterns - 1)), s \in Shifts }
Structured == { {}, {0}, {31}, 0..31, { 2 * i : i \in 0..15 }, { 2 * i + 1 : i \in 0..15 }, 16..31, {0, 31},
                { b \in 0..31 : b % 3 = 0 }, 0..30, 1..31 }
MaskSet == Placed \cup Structured

GInit == /\ mask \in MaskSet /\ given = {} /\ nalloc = 0 /\ nfree = Pop(mask) /\ stepok = TRUE
         /\ hist = << [op |-> "init", mask |-> mask] >>
Step(a, r) == a /\ hist' = Append(hist, r)
GNext ==
  \/ /\ Len(hist) = SimLen /\ hist' = Append(hist, [op |-> "end"]) /\ UNCHANGED ivars
  \/ /\ Len(hist) < SimLen
     /\ \/ Step(INextSingle, [op |-> "next"])
        \/ \E s \in Sizes : Step(INextBlock(s), [op |-> "block", size |-> s])
GView == <<mask, nalloc>>
EmitEdge == PrintT("BEH " \o ToJson(hist'))
EmitAtLen == Len(hist) = SimLen + 1 => PrintT("BEH " \o ToJson(hist))
=============================================================================
