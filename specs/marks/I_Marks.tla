------------------------------- MODULE I_Marks -------------------------------
(* C35 implementation layer: MarkBitsManager as it is written (numBitsAllocated / numFreeBits counters,
   nthMark scanning the mask upwards).  TLC checks over ALL masks of W bits and all allocation sequences
   that each step is a step of the property layer (module Marks), and that the number<->mark mapping is a
   bijection between the fitting numbers and the sub-masks with both round trips.                     *)
EXTENDS Marks

CONSTANTS W,          \* mask width explored exhaustively
          Sizes       \* block sizes tried
VARIABLES nalloc, nfree, stepok
ivars == <<mask, given, nalloc, nfree, stepok>>

IInit == /\ mask \in SUBSET (0..(W - 1)) /\ given = {}
         /\ nalloc = 0 /\ nfree = Pop(mask) /\ stepok = TRUE

\* the mark nthMark(n) returns, {} standing for the error
Nth(n) == IF n < Pop(mask) THEN {NthBit(mask, n)} ELSE {}

INextSingle ==
    LET bits == Nth(nalloc) ok == bits # {} IN
    /\ stepok' = ENABLED NextSingle(ok, bits)            \* the property layer accepts this answer
    /\ given' = given \cup bits /\ UNCHANGED mask
    /\ nalloc' = IF ok THEN nalloc + 1 ELSE nalloc
    /\ nfree' = IF ok THEN nfree - 1 ELSE nfree

\* NextBlockBitsMark(size): size calls of NextSingleBitMark, stopping at the first failure
INextBlock(size) ==
    LET k == IF size < Pop(mask) - nalloc THEN size ELSE Pop(mask) - nalloc
        bits == { NthBit(mask, i) : i \in nalloc..(nalloc + k - 1) } IN
    /\ stepok' = ENABLED NextBlock(size, bits, k)
    /\ given' = given \cup bits /\ UNCHANGED mask
    /\ nalloc' = nalloc + k /\ nfree' = nfree - k

INext == INextSingle \/ \E s \in Sizes : INextBlock(s)

StepsAccepted == stepok
CountersOK == nalloc = Cardinality(given) /\ nfree = Cardinality(mask \ given) /\ given \subseteq mask
\* evaluated once per mask (in the states where nothing is allocated yet)
MapBijective == given = {} =>
    /\ \A n \in SUBSET (0..(Pop(mask) - 1)) :
          LET mk == Num2Mark(mask, n) IN mk \subseteq mask /\ Mark2Num(mask, mk) = n
    /\ \A mk \in SUBSET mask :
          LET n == Mark2Num(mask, mk) IN Fits(mask, n) /\ Num2Mark(mask, n) = mk
=============================================================================
