CONSTANTS
  W = 8
  Sizes = {0, 1, 2, 3, 9}
INIT IInit
NEXT INext
INVARIANTS StepsAccepted CountersOK MapBijective
CHECK_DEADLOCK FALSE
