-------------------------------- MODULE Marks --------------------------------
(* C35 property layer (felix/markbits).  A mask, a mark and a number are SETS OF BIT POSITIONS (0 = least
   significant), so 32-bit values are exact although TLC integers are signed 32-bit.

   The property:
     - NextSingleBitMark hands out a single bit of the mask that was not handed out before; it fails iff
       every bit of the mask has been handed out (which bit is chosen is free);
     - NextBlockBitsMark(size) hands out min(size, free) such bits at once and says how many;
     - a number that fits the mask (n < 2^popcount(mask), i.e. all its bits below popcount) maps to a mark
       inside the mask and that mark maps back to the same number; the correspondence number <-> mark
       is one-to-one (memo `pairs` in the trace spec).                                              *)
EXTENDS Integers, FiniteSets, Sequences, TLC

VARIABLES mask, given
pvars == <<mask, given>>

Free == mask \ given
Pop(m) == Cardinality(m)
Fits(m, n) == \A b \in n : b < Pop(m)

\* NextSingleBitMark answered (ok, bits of the returned mark)
NextSingle(ok, bits) ==
    IF Free = {} THEN ok = FALSE /\ UNCHANGED pvars
    ELSE /\ ok = TRUE
         /\ Cardinality(bits) = 1 /\ bits \subseteq Free
         /\ given' = given \cup bits /\ UNCHANGED mask
\* NextBlockBitsMark(size) answered (bits of the returned mark, number of bits allocated)
NextBlock(size, bits, alloc) ==
    LET want == IF size < Cardinality(Free) THEN size ELSE Cardinality(Free) IN
    /\ alloc = want /\ Cardinality(bits) = want /\ bits \subseteq Free
    /\ given' = given \cup bits /\ UNCHANGED mask
AvailIs(c) == c = Cardinality(Free) /\ UNCHANGED pvars

\* MapNumberToMark(n) answered (ok, mark): a fitting number must be mapped, and into the mask
MapNumOK(n, ok, mark) == /\ Fits(mask, n) => ok
                         /\ ok => mark \subseteq mask
\* MapMarkToNumber(mark) answered (ok, n): a mark inside the mask must be mapped, to a fitting number
MapMarkOK(mark, ok, n) == /\ mark \subseteq mask => ok
                          /\ ok => Fits(mask, n)

\* ---- implementation-shaped part: bits are handed out in ascending order; number bit i <-> i-th mask bit
Below(m, b) == Cardinality({ x \in m : x < b })
NthBit(m, i) == CHOOSE b \in m : Below(m, b) = i                     \* i in 0..Pop(m)-1
Num2Mark(m, n) == { NthBit(m, i) : i \in n }
Mark2Num(m, mk) == { Below(m, b) : b \in mk }
=============================================================================
